(* Props/C06.v -- property theorems for C06 only; each closed by an exact. *)
From PraatIO Require Import Tier.TierModel Tier.CtorProofs Tier.CropProofs.

(* the crop kernel keeps exactly: strict = wholly inside, lax = overlapping
   (unchanged), truncated = overlapping parts clipped to the window *)
Theorem C06_kernel_keeps_exactly a b mode l :
  Forall pos l -> a < b -> giii a b mode l = crop_spec_ents a b mode l.
Proof. exact (giii_spec a b mode l). Qed.
Print Assumptions C06_kernel_keeps_exactly.

(* the whole operation equals its specification on every well-formed tier,
   every window (degenerate ones included), every mode, with and without rebasing *)
Theorem C06_crop_meets_spec t a b mode rebase :
  wf_itier t -> crop_i t a b mode rebase = crop_spec t a b mode rebase.
Proof. exact (crop_i_spec t a b mode rebase). Qed.
Print Assumptions C06_crop_meets_spec.

Theorem C06_truncated_pointwise a b l x :
  lab_at (crop_spec_ents a b Truncated l) x
  = if (a <=? x) && (x <? b) then lab_at l x else None.
Proof. exact (crop_trunc_pointwise a b l x). Qed.
Print Assumptions C06_truncated_pointwise.

Theorem C06_strict_members a b l i :
  In i (crop_spec_ents a b Strict l) <-> In i l /\ inside a b i.
Proof. exact (crop_strict_members a b l i). Qed.
Print Assumptions C06_strict_members.

Theorem C06_lax_members a b l i :
  In i (crop_spec_ents a b Lax l) <-> In i l /\ overlaps a b i.
Proof. exact (crop_lax_members a b l i). Qed.
Print Assumptions C06_lax_members.

Theorem C06_span_no_rebase t a b mode t' :
  wf_itier t -> mode <> Lax -> crop_i t a b mode false = Ok t' -> imin t' = a /\ imax t' = b.
Proof. exact (crop_span_norebase t a b mode t'). Qed.
Print Assumptions C06_span_no_rebase.

Theorem C06_span_lax_just_enough t a b t' :
  wf_itier t -> crop_i t a b Lax false = Ok t' ->
  imin t' <= a /\ b <= imax t' /\ Forall (in_span (imin t') (imax t')) (ients t') /\
  (imin t' = a \/ exists i, In i (ients t') /\ imin t' = istart i) /\
  (imax t' = b \/ exists i, In i (ients t') /\ imax t' = iend i).
Proof. exact (crop_span_lax t a b t'). Qed.
Print Assumptions C06_span_lax_just_enough.

Theorem C06_rebase_window t a b mode t' :
  wf_itier t -> mode <> Lax -> crop_i t a b mode true = Ok t' ->
  ients t' = map (shift (- a)) (crop_spec_ents a b mode (ients t)) /\ imin t' = 0 /\ imax t' = b - a.
Proof. exact (crop_rebase_window t a b mode t'). Qed.
Print Assumptions C06_rebase_window.

Theorem C06_total t a b mode rebase :
  wf_itier t -> a < b -> exists t', crop_i t a b mode rebase = Ok t' /\ wf_itier t'.
Proof. exact (crop_total t a b mode rebase). Qed.
Print Assumptions C06_total.

Theorem C06_empty_window_ok t a b mode rebase :
  wf_itier t -> a < b -> crop_spec_ents a b mode (ients t) = [] ->
  crop_i t a b mode rebase =
  Ok (if rebase then mkIT (iname t) [] 0 (b - a) else mkIT (iname t) [] a b).
Proof. exact (crop_empty_ok t a b mode rebase). Qed.
Print Assumptions C06_empty_window_ok.

Theorem C06_degenerate_rejected t a b mode rebase :
  b <= a -> crop_i t a b mode rebase = Err ArgumentError.
Proof. exact (crop_degenerate t a b mode rebase). Qed.
Print Assumptions C06_degenerate_rejected.

Theorem C06_point_crop_meets_spec t a b rebase :
  wf_ptier_strict t -> crop_p t a b rebase = crop_p_spec t a b rebase.
Proof. exact (crop_p_spec_ok t a b rebase). Qed.
Print Assumptions C06_point_crop_meets_spec.

Theorem C06_point_members t a b p :
  In p (filter (in_windowb a b) (pents t)) <-> In p (pents t) /\ a <= ptime p <= b.
Proof. exact (crop_p_members t a b p). Qed.
Print Assumptions C06_point_members.
