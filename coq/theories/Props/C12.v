(* Props/C12.v -- property theorems for C12 (Textgrid as an ordered, uniquely named map). *)
From PraatIO Require Import Textgrid.TgModel Textgrid.TgProofs Tier.CtorProofs Tier.CropProofs Tier.TierModel
  Textgrid.TgSpliceProofs Textgrid.TgValidProofs.
Open Scope Z_scope.

(* whenever a mutator succeeds, the tier list is what the plain ordered-list model says *)
Theorem C12_refines_list_model g o :
  fst (tg_step g o) = None -> tiers (snd (tg_step g o)) = spec_step (tiers g) o.
Proof. exact (tg_step_refines g o). Qed.
Print Assumptions C12_refines_list_model.

(* names are unique in every reachable textgrid *)
Theorem C12_names_unique ops a b : NoDup (names (tg_run (mkTG [] a b) ops)).
Proof. exact (names_nodup ops a b). Qed.
Print Assumptions C12_names_unique.

Theorem C12_invariant_along_histories ops g : tg_inv g -> tg_inv (tg_run g ops).
Proof. exact (tg_run_inv ops g). Qed.
Print Assumptions C12_invariant_along_histories.

Theorem C12_duplicate_rejected g t idx m :
  In (tname t) (names g) -> add_step g t idx m = (Err TierNameExistsError, g).
Proof. exact (dup_rejected g t idx m). Qed.
Print Assumptions C12_duplicate_rejected.

Theorem C12_span_only_widens g o : tg_inv g -> span_le g (snd (tg_step g o)).
Proof. exact (tg_step_span g o). Qed.
Print Assumptions C12_span_only_widens.

(* removing a tier and inserting one at its old index puts it exactly where it was *)
Theorem C12_reinsert_at_index n l k old :
  index_of n l = Some k -> find_tier n l = Some old ->
  py_insert (remove_named n l) (Z.of_nat k) old = l.
Proof. exact (reinsert_removed n l k old). Qed.
Print Assumptions C12_reinsert_at_index.

(* Textgrid.crop acts tier-wise: same names, same order, each tier its own crop *)
Theorem C12_crop_tierwise g a b m r g' :
  NoDup (names g) -> tg_crop g a b m r = Ok g' ->
  names g' = names g /\ Forall2 (fun t t' => crop_tier t a b m r = Ok t') (tiers g) (tiers g').
Proof. exact (tg_crop_tierwise g a b m r g'). Qed.
Print Assumptions C12_crop_tierwise.

(* ... and for strict / truncated every tier shares the textgrid's span *)
Theorem C12_crop_tiers_share_span g a b m r g' :
  m <> Lax -> NoDup (names g) -> Forall (fun t => match t with TI t => wf_itier t | TP _ => True end) (tiers g) ->
  tg_crop g a b m r = Ok g' ->
  Forall (fun t => match t with
                   | TI t => imin t = (if r then 0 else a) /\ imax t = (if r then b - a else b)
                   | TP t => pmin t = (if r then 0 else a) /\ pmax t = (if r then b - a else b) end) (tiers g').
Proof. exact (tg_crop_spans g a b m r g'). Qed.
Print Assumptions C12_crop_tiers_share_span.

(* Textgrid.eraseRegion: same names, same order, each tier = that tier's own eraseRegion(truncate);
   the textgrid's own span shrinks by exactly the region's length *)
Theorem C12_erase_tierwise g a b s g' :
  NoDup (names g) -> tg_erase g a b s = Ok g' ->
  names g' = names g
  /\ Forall2 (fun t t' => erase_tier t a b s = Ok t') (tiers g) (tiers g')
  /\ tgmax g' = (if s then match tgmax g with Some m => Some (m - (b - a)) | None => None end else tgmax g).
Proof. exact (tg_erase_tierwise g a b s g'). Qed.
Print Assumptions C12_erase_tierwise.

(* Textgrid.insertSpace *)
Theorem C12_space_tierwise g s d m g' :
  NoDup (names g) -> tg_space g s d m = Ok g' ->
  names g' = names g /\ Forall2 (fun t t' => space_tier t s d m = Ok t') (tiers g) (tiers g').
Proof. exact (tg_space_tierwise g s d m g'). Qed.
Print Assumptions C12_space_tierwise.

(* Textgrid.mergeTiers: the unselected tiers are carried over unchanged and in their order (or dropped
   when preserveOtherTiers is off), followed by at most one interval tier and one point tier, each
   present exactly when a tier of that kind was selected; a name that is not a tier's raises *)
Theorem C12_merge_tiers_shape g sel keep g' :
  tg_merge g sel keep = Ok g' ->
  let names_sel := match sel with Some l => l | None => names g end in
  exists ts it pt,
    mapM (fun n => match find_tier n (tiers g) with Some t => Ok t | None => Err PyError end) names_sel = Ok ts
    /\ tiers g' = (if keep then filter (fun t => negb (name_in (tname t) names_sel)) (tiers g) else [])
                  ++ match it with Some x => [TI x] | None => [] end ++ match pt with Some x => [TP x] | None => [] end
    /\ (it = None <-> filter_map (fun t => match t with TI x => Some x | TP _ => None end) ts = [])
    /\ (pt = None <-> filter_map (fun t => match t with TP x => Some x | TI _ => None end) ts = []).
Proof. exact (tg_merge_shape g sel keep g'). Qed.
Print Assumptions C12_merge_tiers_shape.

(* eraseRegion and insertSpace return VALID textgrids.  tg_valid mn mx g: the textgrid spans [mn, mx], names are unique,
   every tier is well-formed and has exactly that span.  Erasing a region inside the span gives a textgrid valid for
   [mn, mx] (without shrinking) or [mn, mx - (b - a)] (with) ... *)
Theorem C12_erase_region_valid mn mx g a b s g' : tg_valid mn mx g -> mn <= a -> a < b -> b <= mx ->
  tg_erase g a b s = Ok g' -> tg_valid mn (if s then mx - (b - a) else mx) g'.
Proof. exact (tg_erase_valid mn mx g a b s g'). Qed.
Print Assumptions C12_erase_region_valid.

(* ... inserting d >= 0 at or after the start gives one valid for [mn, mx + d], in every collision mode that returns ... *)
Theorem C12_insert_space_valid mn mx g s d m g' : tg_valid mn mx g -> mn <= mx -> 0 <= d -> mn <= s ->
  tg_space g s d m = Ok g' -> tg_valid mn (mx + d) g'.
Proof. exact (tg_space_valid mn mx g s d m g'). Qed.
Print Assumptions C12_insert_space_valid.

(* ... and on such a textgrid validate() is True *)
Theorem C12_valid_validates mn mx g : tg_valid mn mx g -> tg_validate g = true.
Proof. exact (tg_valid_validates mn mx g). Qed.
Print Assumptions C12_valid_validates.
