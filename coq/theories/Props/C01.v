(* Props/C01.v -- TextGrid save/open round trip: the text layer.
   Property theorems only; proofs are in IO/CodecProofs.v. *)
From Coq Require Import String.
From PraatIO Require Import IO.IoModel IO.CodecProofs IO.ShortFileProofs IO.ShortChunkProofs IO.LongFileProofs IO.LongChunkProofs IO.JsonDict IO.NearInt.
Open Scope Z_scope.

(* un-doubling the doubled form is the identity, for every label and name *)
Theorem C01_unescape_escape l : unesc (esc l) = l.
Proof. exact (unesc_esc l). Qed.
Print Assumptions C01_unescape_escape.

(* doubling commutes with trimming (neither adds nor removes white space) *)
Theorem C01_strip_escape l : strip (esc l) = esc (strip l).
Proof. exact (strip_esc l). Qed.
Print Assumptions C01_strip_escape.

(* short form: the text-row reader, started on a written label or name, stops exactly at
   the closing quote and returns the label -- for EVERY label: quotes, runs of quotes at
   the start, middle or end, newlines, '=' and digits included *)
Theorem C01_short_text_row l rest : fetch_text_row (quoted l ++ 10%N :: rest) = Ok (strip l, rest).
Proof. exact (fetch_text_row_quoted l rest). Qed.
Print Assumptions C01_short_text_row.

(* short form: a number row is read back as the token that was written *)
Theorem C01_short_number_row t rest : plain_tok t = true -> fetch_row (t ++ 10%N :: rest) = Ok (t, rest).
Proof. exact (fetch_row_plain t rest). Qed.
Print Assumptions C01_short_number_row.

(* short form: the entry loop over the written entries of an interval tier block returns
   exactly those entries, in order, any number of them *)
Theorem C01_short_interval_block tab ents fuel :
  forallb is_DIb ents = true -> forallb (times_plain tab) ents = true -> (length ents < fuel)%nat ->
  short_intervals fuel (flat_map (short_entry tab) ents) = map (rd_entry tab) ents.
Proof. exact (short_intervals_printed tab ents fuel). Qed.
Print Assumptions C01_short_interval_block.

Theorem C01_short_point_block tab ents fuel :
  forallb (fun e => negb (is_DIb e)) ents = true -> forallb (times_plain tab) ents = true -> (length ents < fuel)%nat ->
  short_points fuel (flat_map (short_entry tab) ents) = map (rd_entry tab) ents.
Proof. exact (short_points_printed tab ents fuel). Qed.
Print Assumptions C01_short_point_block.

(* long form: the greedy quoted group of the text / mark field of a written entry is the
   escaped label, and un-doubling it gives the label back, for every label *)
Theorem C01_long_text_field l tail :
  forallb (fun c => negb (isq c)) tail = true -> ws_to_eol tail = true ->
  match quoted_group true (esc l ++ 34%N :: tail) [] None with
  | Some g => unesc (strip g) = strip l
  | None => False
  end.
Proof. exact (long_text_field_roundtrip l tail). Qed.
Print Assumptions C01_long_text_field.

(* long form: the single-line group used for tier names *)
Theorem C01_long_name_field body tail :
  forallb (fun c => negb (c =? 10)%N) body = true ->
  forallb (fun c => negb (isq c)) tail = true -> ws_to_eol tail = true ->
  quoted_group false (body ++ 34%N :: tail) [] None = Some body.
Proof. intros A B C. exact (quoted_group_line body tail [] None A B C). Qed.
Print Assumptions C01_long_name_field.

(* short form, whole file: parsing what the writer printed returns the textgrid span and, for
   every tier in order, its type, name, span and entries (times as the written tokens, labels and
   names character for character) -- for any number of tiers and entries and ANY labels and names,
   under the decidable side condition chunk_ok that the two class keywords occur in the text only
   where tiers start (labels such as "IntervalTier" in quotes are what breaks it: outside the
   property's quantifier) *)
Theorem C01_short_file_roundtrip tab g :
  dg_tiers g <> [] -> chunk_ok tab g = true ->
  forallb (fun c => negb (c =? 13)%N) (print_short tab g) = true ->
  plain_tok (num_str (lookup tab (dg_xmin g))) = true -> plain_tok (num_str (lookup tab (dg_xmax g))) = true ->
  forallb (tier_ok tab) (dg_tiers g) = true ->
  parse_short (print_short tab g) = Ok (rd_tg tab g).
Proof. exact (parse_short_printed tab g). Qed.
Print Assumptions C01_short_file_roundtrip.

(* ... and that side condition is PROVED, not assumed, whenever no name or label contains one of the two
   class words: the short form round-trips whole files with no evaluated hypothesis left -- any number
   of tiers and entries, labels with quotes, doubled quotes, newlines, '=', digits *)
Theorem C01_short_file_roundtrip_unconditional tab g :
  dg_tiers g <> [] ->
  forallb (fun c => negb (c =? 13)%N) (print_short tab g) = true ->
  plain_tok (num_str (lookup tab (dg_xmin g))) = true -> plain_tok (num_str (lookup tab (dg_xmax g))) = true ->
  forallb (tier_ok tab) (dg_tiers g) = true -> forallb tier_free (dg_tiers g) = true ->
  parse_short (print_short tab g) = Ok (rd_tg tab g).
Proof. exact (parse_short_printed_free tab g). Qed.
Print Assumptions C01_short_file_roundtrip_unconditional.

(* the chunking itself: cutting the written text at the class keywords finds the header and the tier blocks *)
Theorem C01_short_chunking tab g :
  plain_tok (num_str (lookup tab (dg_xmin g))) = true -> plain_tok (num_str (lookup tab (dg_xmax g))) = true ->
  forallb (tier_ok tab) (dg_tiers g) = true -> forallb tier_free (dg_tiers g) = true ->
  chunk_ok tab g = true.
Proof. exact (chunk_ok_free tab g). Qed.
Print Assumptions C01_short_chunking.

(* long form, whole file: the regex reader applied to what the long writer printed returns the
   textgrid span and, for every tier in order, its type, name, span and entries -- for any number of
   tiers and entries and ANY labels (quotes, doubled quotes, newlines, '=', digits, field look-alikes
   such as `xmin = 5`), under the decidable side condition lfile_ok: cutting the text at `item [`,
   `intervals [`, `points [` finds exactly the writer's blocks (a label containing such a keyword is
   what breaks it: outside the property's quantifier), names are single-line and numbers are printed
   as digits/dots with an optional exponent.  The number, name and text fields inside a block are
   located by proof, not by hypothesis: no field look-alike inside a name or an earlier field can
   be matched first. *)
Theorem C01_long_file_roundtrip tab g :
  lfile_ok tab g = true ->
  forallb (fun c => negb (c =? 13)%N) (print_long tab g) = true ->
  parse_long true (print_long tab g) = Ok (rd_tg_long tab g).
Proof. exact (parse_long_printed tab g). Qed.
Print Assumptions C01_long_file_roundtrip.

(* ... and for the long form, too, the side condition is PROVED whenever names are single-line, no name or
   label contains one of the words item, intervals, points, IntervalTier, and numbers are digits/dots with
   an optional exponent: re.split at `item [` finds the header and the tier blocks, re.split at
   `intervals [` / `points [` inside a block finds its head and its entries (the word "intervals" in
   "intervals: size" is not followed by a bracket), and a point tier's block does not contain
   class = "IntervalTier" *)
Theorem C01_long_chunking tab g : fileL_ok tab g = true -> lfile_ok tab g = true.
Proof. exact (lfile_ok_free tab g). Qed.
Print Assumptions C01_long_chunking.

Theorem C01_long_file_roundtrip_unconditional tab g :
  fileL_ok tab g = true ->
  forallb (fun c => negb (c =? 13)%N) (print_long tab g) = true ->
  parse_long true (print_long tab g) = Ok (rd_tg_long tab g).
Proof. exact (parse_long_printed_free tab g). Qed.
Print Assumptions C01_long_file_roundtrip_unconditional.

(* hence both text forms of one textgrid with trimmed names are read back as the same data *)
Theorem C01_long_short_same_data tab g :
  forallb (fun t => strippedb (d_name t)) (dg_tiers g) = true ->
  rd_tg_long tab g = rd_tg tab g.
Proof. exact (long_short_agree tab g). Qed.
Print Assumptions C01_long_short_same_data.

(* one written number / text field of an entry block, for every token and label *)
Theorem C01_long_interval_block j N1 N2 lab trail :
  idx j = true -> numshape N1 = true -> numshape N2 = true -> allsp trail = true ->
  parse_long_interval (ichunk j N1 N2 lab ++ trail) = Ok (RI N1 N2 (strip lab)).
Proof. exact (parse_ichunk j N1 N2 lab trail). Qed.
Print Assumptions C01_long_interval_block.

Theorem C01_long_point_block j N1 lab trail :
  idx j = true -> numshape N1 = true -> allsp trail = true ->
  parse_long_point true (pchunk j N1 lab ++ trail) = Ok (RP N1 (strip lab)).
Proof. exact (parse_pchunk j N1 lab trail). Qed.
Print Assumptions C01_long_point_block.

(* the plain json format: its two dictionary conversions (tiers keyed by name, one span for the whole
   textgrid) lose nothing but the per-tier spans when tier names are unique -- names, order, types and
   entries come back, every tier with the textgrid's span (the property's one exemption); and nothing
   at all when every tier already has that span *)
Theorem C01_json_dictionary_roundtrip g :
  NoDup (map d_name (dg_tiers g)) -> json_up (json_down g) = respan_all g.
Proof. exact (json_up_down g). Qed.
Print Assumptions C01_json_dictionary_roundtrip.

Theorem C01_json_dictionary_roundtrip_exact g :
  NoDup (map d_name (dg_tiers g)) ->
  forallb (fun t => (d_xmin t =? dg_xmin g) && (d_xmax t =? dg_xmax g)) (dg_tiers g) = true ->
  json_up (json_down g) = g.
Proof. exact (json_up_down_exact g). Qed.
Print Assumptions C01_json_dictionary_roundtrip_exact.

(* the reader before the repair of F2 did not un-double point marks: witness *)
Theorem C01_long_point_mark_legacy_refuted :
  exists el, parse_long_point false el = Ok (RP [49%N] [34%N; 34%N])
          /\ parse_long_point true el = Ok (RP [49%N] [34%N]).
Proof.
  exists (T "]:" ++ [10%N] ++ T "number = 1 " ++ [10%N] ++ T "mark = """""""" " ++ [10%N]).
  vm_compute. split; reflexivity.
Qed.
Print Assumptions C01_long_point_mark_legacy_refuted.

(* non-vacuity of the whole-file theorem: quotes, doubled quotes, newlines, '=' and digits in labels and a name *)
Example C01_short_file_example :
  let tab := [(0, mkNum true (T "0") (T "0.0")); (1, mkNum false (T "1") (T "1.5")); (2, mkNum false (T "2") (T "2.25"))]%Z in
  let g := mkDTG 0 2 [mkDT true (T "a ""b"" = 3") 0 2 [DI 0 1 [34%N; 34%N; 10%N; 61%N; 55%N]; DI 1 2 []];
                      mkDT false (T "p") 0 2 [DP 1 [34%N]]]%Z in
  dg_tiers g <> [] /\ chunk_ok tab g = true /\ forallb (fun c => negb (c =? 13)%N) (print_short tab g) = true
  /\ forallb (tier_ok tab) (dg_tiers g) = true /\ parse_short (print_short tab g) = Ok (rd_tg tab g).
Proof. vm_compute. repeat split; try reflexivity. discriminate. Qed.

Example C01_long_free_example :
  let tab := [(0, mkNum true (T "0") (T "0.0")); (1, mkNum false (T "1") (T "1.5")); (2, mkNum false (T "2") (T "2.25e-05"))]%Z in
  let g := mkDTG 0 2 [mkDT true (T "a ""b"" xmin = 3") 0 2 [DI 0 1 [34%N; 34%N; 10%N; 61%N; 55%N]; DI 1 2 (T "xmax = 7 ")];
                      mkDT false (T "p") 0 2 [DP 1 [34%N]]]%Z in
  fileL_ok tab g = true.
Proof. vm_compute. reflexivity. Qed.

Example C01_long_file_example :
  let tab := [(0, mkNum true (T "0") (T "0.0")); (1, mkNum false (T "1") (T "1.5")); (2, mkNum false (T "2") (T "2.25e-05"))]%Z in
  let g := mkDTG 0 2 [mkDT true (T "a ""b"" xmin = 3") 0 2 [DI 0 1 [34%N; 34%N; 10%N; 61%N; 55%N]; DI 1 2 (T "xmax = 7 ")];
                      mkDT false (T "p") 0 2 [DP 1 [34%N]]]%Z in
  lfile_ok tab g = true /\ forallb (fun c => negb (c =? 13)%N) (print_long tab g) = true
  /\ parse_long true (print_long tab g) = Ok (rd_tg_long tab g).
Proof. vm_compute. repeat split; reflexivity. Qed.

(* non-vacuity *)
Example C01_example :
  fetch_text_row (quoted [34%N; 97%N; 34%N; 34%N; 10%N; 61%N; 34%N] ++ 10%N :: [49%N; 10%N])
  = Ok ([34%N; 97%N; 34%N; 34%N; 10%N; 61%N; 34%N], [49%N; 10%N]).
Proof. vm_compute. reflexivity. Qed.

(* REFUTED for times far from 0 (known finding F23): "a value within 1e-14 (relative) of an integer may come back as that
   integer" is harmless only while no two times of a textgrid share such an integer.  On exact rationals: the two
   different times 10^13 + 1 + 1/32 and 10^13 + 1 + 2/32 are both written as 10000000000001, so an interval between them is
   written with equal ends (replayed on the implementation by corpus/C01/F23-*.json: openTextgrid raises) *)
Theorem C01_near_integer_collapse_refuted :
  exists d x y, 0 < d /\ x < y /\ written_as_int x d = written_as_int y d /\ written_as_int x d <> None.
Proof.
  exists 32, ((10 ^ 13 + 1) * 32 + 1), ((10 ^ 13 + 1) * 32 + 2).
  destruct near_int_collapse as (H1 & H2 & H3). split; [reflexivity|]. split; [exact H1|]. split; [now rewrite H2, H3|rewrite H2; discriminate].
Qed.
Print Assumptions C01_near_integer_collapse_refuted.
