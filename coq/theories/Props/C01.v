(* Props/C01.v -- placeholder; the field-level theorems are added below *)
From PraatIO Require Import IO.IoModel.
Theorem C01_placeholder : True. Proof. exact I. Qed.
