(* Props/C19.v -- KlattGrid point blocks and point-object files round-trip every number token.
   Property theorems only; proofs are in Klatt/PointsProofs.v. *)
From Coq Require Import String.
From PraatIO Require Import Klatt.PointsModel Klatt.PointsProofs.

(* the point rows written for a KlattGrid tier (any number of points, any indentation, any
   number tokens) are read back as exactly the same (time, value) tokens, in order *)
Theorem C19_point_rows_roundtrip indent pts :
  noeq indent = true -> Forall (fun p => tok_ok (fst p) /\ tok_ok (snd p)) pts ->
  process_section (print_points indent 1 pts) = Ok pts.
Proof. exact (process_section_printed indent pts). Qed.
Print Assumptions C19_point_rows_roundtrip.

(* modifyValues / modifySubtiers: the function is applied to every value exactly once (a map),
   times and the number of points are untouched *)
Theorem C19_modify_values_is_map (V : Type) (f : V -> V) pts :
  map fst (modify_values f pts) = map fst pts /\ map snd (modify_values f pts) = map f (map snd pts)
  /\ length (modify_values f pts) = length pts.
Proof. exact (modify_values_spec f pts). Qed.
Print Assumptions C19_modify_values_is_map.

(* slicing the file into sections at ascending indices loses no character *)
Theorem C19_sections_lossless (A : Type) (data : list A) idxs a :
  ascending (a :: idxs) ->
  concat (sections data (a :: idxs)) = slice_nat data a (last idxs a) /\ (a <= last idxs a)%nat.
Proof. exact (sections_lossless data idxs a). Qed.
Print Assumptions C19_sections_lossless.

(* the reader before the repair of F16 dropped the last character of the last section *)
Theorem C19_sections_legacy_refuted :
  exists (data : list N) idxs, concat (sections_legacy data idxs) <> slice_nat data (hd 0%nat idxs) (last idxs 0%nat).
Proof. exact sections_legacy_refuted. Qed.
Print Assumptions C19_sections_legacy_refuted.

(* PointProcess: class line, span and point list of the short text form come back exactly *)
Theorem C19_point_object_1d cls mn mx vals :
  nonl cls = true -> nonl mn = true -> nonl mx = true ->
  Forall (fun v => nonl v = true) vals -> Forall (fun v => nonblank v = true) vals ->
  po_open_1d (po_save cls mn mx (length vals) vals) = Ok (mn, mx, vals).
Proof. exact (po_roundtrip_1d cls mn mx (length vals) vals). Qed.
Print Assumptions C19_point_object_1d.

(* PitchTier / DurationTier *)
Theorem C19_point_object_2d cls mn mx ps :
  nonl cls = true -> nonl mn = true -> nonl mx = true ->
  Forall (fun p => nonl (fst p) = true /\ nonl (snd p) = true /\ nonblank (fst p) = true) ps ->
  po_open_2d (po_save cls mn mx (length ps) (flatten_pairs ps)) = Ok (mn, mx, ps).
Proof. exact (po_roundtrip_2d cls mn mx (length ps) ps). Qed.
Print Assumptions C19_point_object_2d.

Example C19_example :
  process_section (print_points (T "    ") 1 [(T "0.5", T "1e-300"); (T "1.25", T "-3")]) = Ok [(T "0.5", T "1e-300"); (T "1.25", T "-3")]
  /\ tok_ok (T "1e-300").
Proof. split; [vm_compute; reflexivity|]. repeat split; reflexivity. Qed.
