(* Props/C08.v -- property theorems for C08 (insertSpace and its inverse). *)
From PraatIO Require Import Tier.TierModel Tier.CtorProofs Tier.EraseProofs Tier.SpaceProofs.

Theorem C08_space_total_and_explicit t s d mode :
  wf_itier t -> 0 <= d -> imin t <= s ->
  (mode = SError -> forall i, In i (ients t) -> ~ (istart i < s < iend i)) ->
  space_i t s d mode =
  Ok (mkIT (iname t) (flat_map (space1 s d (match mode with SError => SNoChange | m => m end)) (ients t))
           (imin t) (imax t + d)).
Proof. exact (space_i_ok t s d mode). Qed.
Print Assumptions C08_space_total_and_explicit.

Theorem C08_error_mode_rejects_straddler t s d :
  (exists i, In i (ients t) /\ istart i < s < iend i) -> space_i t s d SError = Err ArgumentError.
Proof. exact (space_i_error t s d). Qed.
Print Assumptions C08_error_mode_rejects_straddler.

Theorem C08_before_unchanged s d mode l i :
  In i l -> iend i <= s -> In i (flat_map (space1 s d mode) l).
Proof. exact (space_before_unchanged s d mode l i). Qed.
Print Assumptions C08_before_unchanged.

Theorem C08_after_shifted_exactly s d mode l i :
  In i l -> s <= istart i -> pos i -> In (shift d i) (flat_map (space1 s d mode) l).
Proof. exact (space_after_shifted s d mode l i). Qed.
Print Assumptions C08_after_shifted_exactly.

Theorem C08_straddler_per_mode s d mode i :
  istart i < s < iend i ->
  space1 s d mode i =
  match mode with
  | SStretch => [mkI (istart i) (iend i + d) (ilabel i)]
  | SSplit => [mkI (istart i) s (ilabel i); mkI (s + d) (iend i + d) (ilabel i)]
  | SNoChange => [i]
  | SError => []
  end.
Proof. exact (space_straddler s d mode i). Qed.
Print Assumptions C08_straddler_per_mode.

Theorem C08_pointwise_before s d mode l x : mode <> SError -> 0 <= d -> x < s ->
  lab_at (flat_map (space1 s d mode) l) x = lab_at l x.
Proof. exact (space_pointwise_before s d mode l x). Qed.
Print Assumptions C08_pointwise_before.

Theorem C08_pointwise_after s d mode l x : (mode = SStretch \/ mode = SSplit) -> 0 <= d -> s + d <= x ->
  lab_at (flat_map (space1 s d mode) l) x = lab_at l (x - d).
Proof. exact (space_pointwise_after s d mode l x). Qed.
Print Assumptions C08_pointwise_after.

Theorem C08_split_gap_is_blank s d l x : 0 <= d -> s <= x < s + d ->
  lab_at (flat_map (space1 s d SSplit) l) x = None.
Proof. exact (space_pointwise_gap_split s d l x). Qed.
Print Assumptions C08_split_gap_is_blank.

(* eraseRegion(s, s+d, truncate, shrink) undoes insertSpace(s, d, stretch|split):
   it succeeds, restores the span and the label at every time *)
Theorem C08_erase_undoes_insert t s d mode t1 :
  (mode = SStretch \/ mode = SSplit) -> 0 < d -> wf_itier t -> imin t <= s <= imax t ->
  space_i t s d mode = Ok t1 ->
  exists t2, erase_i t1 s (s + d) ETruncate true = Ok t2
             /\ imin t2 = imin t /\ imax t2 = imax t
             /\ forall x, lab_at (ients t2) x = lab_at (ients t) x.
Proof. exact (erase_insert_inverse_tier t s d mode t1). Qed.
Print Assumptions C08_erase_undoes_insert.

Theorem C08_points t s d :
  map (fun p => if ptime p <=? s then p else pshift d p) (pents t)
  = map (fun p => mkP (if ptime p <=? s then ptime p else ptime p + d) (plabel p)) (pents t).
Proof. exact (space_p_entries t s d). Qed.
Print Assumptions C08_points.
