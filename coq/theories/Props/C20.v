(* Props/C20.v -- numeric series helpers match their textbook definitions.
   Property theorems only; proofs are in Series/SeriesProofs.v and Series/ZnormProofs.v. *)
From Coq Require Import ZArith Reals List.
From PraatIO Require Import Series.SeriesModel Series.SeriesProofs Series.ZnormProofs.

(* the filtered series has the input's length *)
Theorem C20_filter_length (V : Type) (d : V) f dist w pad : length (step_filter d f dist w pad) = length dist.
Proof. exact (step_filter_length d f dist w pad). Qed.
Print Assumptions C20_filter_length.

(* element x is the function of its window when padding is on or the window fits, and is left
   unchanged otherwise *)
Theorem C20_filter_element (V : Type) (d : V) f dist w pad x : (x < length dist)%nat ->
  nth x (step_filter d f dist w pad) d
  = if pad || ((w / 2 <=? x)%nat && (x + w / 2 <? length dist)%nat)
    then f (window_at d dist (w / 2) x) else nth x dist d.
Proof. exact (step_filter_nth d f dist w pad x). Qed.
Print Assumptions C20_filter_element.

(* the window is element x with its floor(window/2) neighbours on either side, the series being
   extended by its edge values: the source's index bookkeeping is edge clamping *)
Theorem C20_window_is_edge_clamped (V : Type) (d : V) dist o x : (x < length dist)%nat ->
  window_at d dist o x = clamp_window d dist o x.
Proof. exact (window_is_clamped d dist o x). Qed.
Print Assumptions C20_window_is_edge_clamped.

Theorem C20_window_length (V : Type) (d : V) dist o x : (x < length dist)%nat ->
  length (window_at d dist o x) = (2 * o + 1)%nat.
Proof. exact (window_at_length d dist o x). Qed.
Print Assumptions C20_window_length.

(* the window has odd length, so its median is the middle of the sorted window, a value of the window *)
Theorem C20_median_of_window l o : length l = (2 * o + 1)%nat ->
  median2 l = (2 * nth o (zsort l) 0)%Z /\ In (nth o (zsort l) 0%Z) l.
Proof. intro H. split; [exact (median_odd l o H)|exact (median_odd_in l o H)]. Qed.
Print Assumptions C20_median_of_window.

(* filterTimeSeriesData never changes the number or order of rows, nor any other column *)
Theorem C20_filters_keep_rows f rows index :
  length (f (map (fun r => nth index r 0%Z) rows)) = length rows ->
  length (filter_rows f rows index) = length rows
  /\ forall k r, nth_error rows k = Some r ->
       exists v, nth_error (filter_rows f rows index) k = Some (replace_col r index v).
Proof. exact (filter_rows_spec f rows index). Qed.
Print Assumptions C20_filters_keep_rows.

(* detectPitchErrors: sample k is flagged iff its predecessor is at most value*t or at least value/t *)
Theorem C20_detect_pitch_errors pitch tn td out : (0 <= tn <= td)%Z -> detect_errors pitch tn td = Ok out ->
  forall k, In k out <->
    (1 <= k < length pitch)%nat /\
    (nth (k - 1) pitch 0 * td <= nth k pitch 0 * tn \/ nth k pitch 0 * td <= nth (k - 1) pitch 0 * tn)%Z.
Proof. exact (detect_errors_spec pitch tn td out). Qed.
Print Assumptions C20_detect_pitch_errors.

(* loadTimeSeriesData on tokenised rows *)
Theorem C20_listing_substitute u body : Forall (fun r => r <> []) body ->
  filter_map (load_row (Some u)) body
  = map (fun r => match r with t :: vals => t :: map (fun c => if undefined_cell c then u else c) vals | [] => [] end) body.
Proof. exact (load_rows_subst u body). Qed.
Print Assumptions C20_listing_substitute.

Theorem C20_listing_skip body : Forall (fun r => r <> []) body ->
  filter_map (load_row None) body = filter (fun r => negb (existsb undefined_cell (tl r))) body.
Proof. exact (load_rows_skip body). Qed.
Print Assumptions C20_listing_skip.

(* z-normalisation: length kept, mean 0, sample standard deviation 1, rank order kept *)
Theorem C20_znorm_length l : length (znorm l) = length l.
Proof. exact (znorm_length l). Qed.
Print Assumptions C20_znorm_length.

Theorem C20_znorm_mean_zero l : l <> nil -> sdev l <> 0%R -> rmean (znorm l) = 0%R.
Proof. exact (znorm_mean_zero l). Qed.
Print Assumptions C20_znorm_mean_zero.

Theorem C20_znorm_sd_one l : (2 <= length l)%nat -> (0 < svar l)%R -> sdev (znorm l) = 1%R.
Proof. exact (znorm_sd_one l). Qed.
Print Assumptions C20_znorm_sd_one.

Theorem C20_znorm_rank_order l a b : (0 < sdev l)%R -> (a < b)%R ->
  ((a - rmean l) / sdev l < (b - rmean l) / sdev l)%R.
Proof. exact (znorm_monotone l a b). Qed.
Print Assumptions C20_znorm_rank_order.

(* rms and the population deviation are the non-negative square roots of their definitions *)
Theorem C20_rms_definition l : l <> nil -> (rms l * rms l = rsum (map (fun v => v * v) l) / INR (length l))%R.
Proof. exact (rms_sqr l). Qed.
Print Assumptions C20_rms_definition.

Theorem C20_population_deviation l : l <> nil -> (pdev l * pdev l = pvar l /\ 0 <= pdev l)%R.
Proof. exact (pdev_sqr l). Qed.
Print Assumptions C20_population_deviation.
