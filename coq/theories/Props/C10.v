(* Props/C10.v -- property theorems for C10 (tier set operations). *)
From PraatIO Require Import Tier.TierModel Tier.CtorProofs Tier.CropProofs Tier.EraseProofs Tier.InsertProofs Tier.SetProofs Tier.UnionPProofs.

(* difference(A,B) is labelled exactly where A is and B is not, with A's labels;
   total and well-formed for all wf A and any B with positive intervals *)
Theorem C10_difference_pointwise A B :
  wf_itier A -> Forall pos (ients B) ->
  exists t', difference_i A B = Ok t' /\ wf_itier t'
    /\ imin t' = imin A /\ imax t' = imax A
    /\ forall x, lab_at (ients t') x = if covered (ients B) x then None else lab_at (ients A) x.
Proof. exact (difference_pointwise A B). Qed.
Print Assumptions C10_difference_pointwise.

(* intersection(A,B): one entry per overlapping pair, clipped, labelled a-b *)
Theorem C10_intersection_explicit A B :
  wf_itier A -> wf_itier B ->
  intersection_i A B =
  Ok (mkIT (iname A ++ DASH ++ iname B) (inter_entries (ients A) (ients B))
           (hull_min (inter_entries (ients A) (ients B)) (imin A))
           (hull_max (inter_entries (ients A) (ients B)) (imax A))).
Proof. exact (intersection_explicit A B). Qed.
Print Assumptions C10_intersection_explicit.

(* ... and is labelled exactly where both are *)
Theorem C10_intersection_pointwise A B x :
  labelled (inter_entries A B) x = labelled A x && covered B x.
Proof. exact (intersection_pointwise A B x). Qed.
Print Assumptions C10_intersection_pointwise.

(* union(A,B) is total, well-formed, and labelled exactly where either is *)
Theorem C10_union_covers A B :
  wf_itier A -> wf_itier B ->
  exists t', union_i A B = Ok t' /\ wf_itier t' /\ iname t' = iname A
    /\ forall x, covered (ients t') x = covered (ients A) x || covered (ients B) x.
Proof. exact (union_covers A B). Qed.
Print Assumptions C10_union_covers.

(* a fused entry spans exactly the joint extent of the entries it fuses *)
Theorem C10_fused_entry_extent e ms x :
  pos e -> Forall (overlaps (istart e) (iend e)) ms -> Forall pos ms ->
  coversb (joint_entry e ms) x = covered ms x || coversb e x.
Proof. exact (joint_covers e ms x). Qed.
Print Assumptions C10_fused_entry_extent.

(* consequently difference and intersection partition A's labelled time, and
   neither invents labelled time *)
Theorem C10_difference_intersection_partition A B t' x :
  wf_itier A -> Forall pos (ients B) -> difference_i A B = Ok t' ->
  labelled (ients A) x = labelled (ients t') x || labelled (inter_entries (ients A) (ients B)) x.
Proof.
  intros HA HB E. destruct (difference_pointwise A B HA HB) as (t2 & E2 & _ & _ & _ & L).
  rewrite E in E2. injection E2 as <-. rewrite intersection_pointwise.
  unfold labelled. rewrite L.
  destruct (covered (ients B) x), (lab_at (ients A) x); reflexivity.
Qed.
Print Assumptions C10_difference_intersection_partition.

(* mergeLabels(A,B) explicitly: one entry per interval of A that some interval of B overlaps, with A's extent and
   the label a(b1,b2,...) listing the overlapping B labels in time order; name and span as documented *)
Theorem C10_merge_labels_explicit A B :
  wf_itier A -> wf_itier B ->
  merge_labels_i A B =
  Ok (mkIT (iname A ++ DASH ++ iname B) (merge_entries (ients A) (ients B))
           (hull_min (merge_entries (ients A) (ients B)) (imin A))
           (hull_max (merge_entries (ients A) (ients B)) (imax A))).
Proof. exact (merge_labels_explicit A B). Qed.
Print Assumptions C10_merge_labels_explicit.

(* point tiers: union(A,B) contains exactly the union of the time points ... *)
Theorem C10_point_union_times A B t' : union_p A B = Ok t' ->
  forall x, In x (ptimes (pents t')) <-> In x (ptimes (pents A)) \/ In x (ptimes (pents B)).
Proof. exact (union_p_times A B t'). Qed.
Print Assumptions C10_point_union_times.

(* ... and, for operands whose points have distinct times, a time both have carries the two labels joined "a-b"
   (A's first), a time only one of them has keeps that point's label (labels trimmed as every constructor does) *)
Theorem C10_point_union_labels A B t' :
  NoDup (ptimes (pents A)) -> NoDup (ptimes (pents B)) -> union_p A B = Ok t' ->
  forall x, lab_p (pents t') x =
    match lab_p (pents A) x, lab_p (pents B) x with
    | Some a, Some b => Some (join DASH [strip a; strip b])
    | Some a, None => Some (strip a)
    | None, Some b => Some (strip b)
    | None, None => None
    end.
Proof. exact (union_p_labels A B t'). Qed.
Print Assumptions C10_point_union_labels.
