(* Props/C15.v -- property theorems for C15 (queries and derived views). *)
From PraatIO Require Import Tier.QueryModel Tier.CtorProofs Tier.SetProofs Tier.QueryProofs Tier.QueryFuzzyProofs Tier.AdjustProofs.

Theorem C15_find_exact t q k :
  In k (find_i t q false) <-> exists i, nth_error (ients t) k = Some i /\ ilabel i = q.
Proof. exact (find_exact t q k). Qed.
Print Assumptions C15_find_exact.

Theorem C15_find_substring t q k :
  In k (find_i t q true) <-> exists i, nth_error (ients t) k = Some i /\ exists a b, ilabel i = a ++ q ++ b.
Proof. exact (find_substring t q k). Qed.
Print Assumptions C15_find_substring.

(* entries plus non-entries tile [0, maxTimestamp]; each non-entry has positive length *)
Theorem C15_non_entries_tile t ne x :
  wf_itier t -> 0 <= imin t -> non_entries t = Ok ne ->
  Forall pos ne /\
  (covered ne x = (0 <=? x) && (x <? imax t) && negb (covered (ients t) x)).
Proof. exact (non_entries_tile t ne x). Qed.
Print Assumptions C15_non_entries_tile.

Theorem C15_timestamps_sorted_set l : StronglySorted Z.lt (zsort_uniq l).
Proof. exact (zsort_uniq_strict l). Qed.
Print Assumptions C15_timestamps_sorted_set.

Theorem C15_values_in_intervals t data i rows d :
  In (i, rows) (values_in_intervals t data) ->
  (In d rows <-> In d data /\ istart i <= fst d <= iend i).
Proof. exact (values_in_intervals_spec t data i rows d). Qed.
Print Assumptions C15_values_in_intervals.

Theorem C15_values_in_intervals_one_list_per_interval t data :
  map fst (values_in_intervals t data) = ients t.
Proof. exact (values_in_intervals_shape t data). Qed.
Print Assumptions C15_values_in_intervals_one_list_per_interval.

Theorem C15_value_at_time_exact t l i r i' :
  StronglySorted (fun a b => fst a <= fst b) l ->
  vat_exact t l i = (r, i') ->
  match r with
  | Some row => In row l /\ fst row = t
  | None => forall row, In row l -> fst row <> t
  end.
Proof. exact (vat_exact_spec t l i r i'). Qed.
Print Assumptions C15_value_at_time_exact.

Theorem C15_overlap_check_default s e cs ce incl :
  overlap_check s e cs ce 0 1 0 incl
  = ((Z.max s cs <? Z.min e ce) || (incl && ((s =? ce) || (e =? cs)))).
Proof. exact (overlap_check_default s e cs ce incl). Qed.
Print Assumptions C15_overlap_check_default.

Theorem C15_overlap_check_time_threshold s e cs ce th :
  0 < th -> overlap_check s e cs ce 0 1 th false = (th <=? Z.min e ce - Z.max s cs).
Proof. exact (overlap_check_time_threshold s e cs ce th). Qed.
Print Assumptions C15_overlap_check_time_threshold.

(* validate() is True exactly on sorted, positive, non-overlapping, in-span entry lists *)
Theorem C15_validate_true_iff t :
  validate_i t = true <-> wf_ients (ients t) /\ Forall (in_span (imin t) (imax t)) (ients t).
Proof. exact (validate_true_iff t). Qed.
Print Assumptions C15_validate_true_iff.

(* equality on the grid is the decidable structural equality *)
Theorem C15_tier_equality_reflexive_symmetric t u :
  itier_eqb t t = true /\ itier_eqb t u = itier_eqb u t.
Proof.
  split; [apply itier_eqb_eq; reflexivity|].
  destruct (itier_eqb t u) eqn:E1, (itier_eqb u t) eqn:E2; try reflexivity.
  - apply itier_eqb_eq in E1. subst. assert (itier_eqb u u = true) by (apply itier_eqb_eq; reflexivity). congruence.
  - apply itier_eqb_eq in E2. subst. assert (itier_eqb t t = true) by (apply itier_eqb_eq; reflexivity). congruence.
Qed.
Print Assumptions C15_tier_equality_reflexive_symmetric.

(* fuzzy getValueAtTime on a strictly time-sorted series: the row returned is a row of the series (from the
   start index on), no row is nearer to the target, and of two rows equally near the earlier one is returned *)
Theorem C15_value_at_time_fuzzy_nearest t data start r i :
  StronglySorted Z.lt (map fst (skipn start data)) ->
  value_at_fuzzy t data start = Ok (r, i) ->
  In r (skipn start data) /\
  forall r', In r' (skipn start data) ->
    Z.abs (fst r - t) <= Z.abs (fst r' - t) /\
    (Z.abs (fst r - t) = Z.abs (fst r' - t) -> fst r <= fst r').
Proof. exact (value_at_fuzzy_nearest t data start r i). Qed.
Print Assumptions C15_value_at_time_fuzzy_nearest.

(* it fails (IndexError in the source) exactly when no sample is left from the start index on *)
Theorem C15_value_at_time_fuzzy_fails_iff t data start :
  (exists e, value_at_fuzzy t data start = Err e) <-> skipn start data = [].
Proof. exact (value_at_fuzzy_fails_iff t data start). Qed.
Print Assumptions C15_value_at_time_fuzzy_fails_iff.

(* a target that is a sample time gets the sample at that time *)
Theorem C15_value_at_time_fuzzy_exact_hit t data start r i r' :
  StronglySorted Z.lt (map fst (skipn start data)) ->
  value_at_fuzzy t data start = Ok (r, i) ->
  In r' (skipn start data) -> fst r' = t -> fst r = t.
Proof. exact (value_at_fuzzy_exact_hit t data start r i r'). Qed.
Print Assumptions C15_value_at_time_fuzzy_exact_hit.

(* getValuesAtPoints(fuzzyMatching=True): for a time-sorted series and time-ordered points (repeats allowed)
   there is one row per point, each a row of the series, and no row of the WHOLE series is nearer to its
   point -- the stop index of one search, handed on as the start index of the next, loses nothing *)
Theorem C15_values_at_points_fuzzy_nearest data pts rows :
  StronglySorted Z.lt (map fst data) -> StronglySorted Z.le pts ->
  gvap_fuzzy pts data 0 = Ok rows ->
  Forall2 (fun t r => In r data /\ forall r', In r' data -> Z.abs (fst r - t) <= Z.abs (fst r' - t)) pts rows.
Proof. exact (gvap_fuzzy_nearest_from_start data pts rows). Qed.
Print Assumptions C15_values_at_points_fuzzy_nearest.

(* intervalOverlapCheck with a percent threshold pn/pd > 0: the intervals overlap and the overlap is at least that
   fraction of the extent the two intervals cover together *)
Theorem C15_overlap_check_percent_threshold s e cs ce pn pd :
  0 < pn ->
  overlap_check s e cs ce pn pd 0 false
  = (let ot := Z.max 0 (Z.min e ce - Z.max s cs) in
     (0 <? ot) && (pn * (Z.max e ce - Z.min s cs) <=? ot * pd)).
Proof. exact (overlap_check_percent s e cs ce pn pd). Qed.
Print Assumptions C15_overlap_check_percent_threshold.

(* with both thresholds the percent condition alone decides (see the remark in Tier/QueryFuzzyProofs.v) *)
Theorem C15_overlap_check_both_thresholds s e cs ce pn pd th :
  0 < pn -> 0 < th ->
  overlap_check s e cs ce pn pd th false = overlap_check s e cs ce pn pd 0 false.
Proof. exact (overlap_check_percent_and_time s e cs ce pn pd th). Qed.
Print Assumptions C15_overlap_check_both_thresholds.
