(* Props/C07.v -- property theorems for C07 (eraseRegion). *)
From PraatIO Require Import Tier.TierModel Tier.CtorProofs Tier.EraseProofs.

(* on every well-formed tier and every proper in-span region the operation
   succeeds (never a rounding/state error in exact arithmetic) and returns exactly
   these entries and this span *)
Theorem C07_erase_total_and_explicit t a b mode doShrink :
  wf_itier t -> a < b -> imin t <= a -> b <= imax t ->
  (mode = EError -> forall i, In i (ients t) -> ~ overlaps a b i) ->
  erase_i t a b mode doShrink =
  Ok (mkIT (iname t) (erase_result_ents a b mode doShrink (ients t))
           (imin t) (if doShrink then imax t - (b - a) else imax t)).
Proof. exact (erase_i_ok t a b mode doShrink). Qed.
Print Assumptions C07_erase_total_and_explicit.

(* truncate, no shrink: nothing inside, everything outside unchanged *)
Theorem C07_noshrink_pointwise a b l x : a < b ->
  lab_at (erase_result_ents a b ETruncate false l) x
  = if (a <=? x) && (x <? b) then None else lab_at l x.
Proof. exact (erase_noshrink_pointwise a b l x). Qed.
Print Assumptions C07_noshrink_pointwise.

(* truncate, shrink: everything after b moves earlier by exactly b - a *)
Theorem C07_shrink_pointwise a b l x : a < b -> Forall pos l ->
  lab_at (erase_result_ents a b ETruncate true l) x
  = lab_at l (if x <? a then x else x + (b - a)).
Proof. exact (erase_shrink_pointwise a b l x). Qed.
Print Assumptions C07_shrink_pointwise.

Theorem C07_entries_before_unchanged a b mode l i : a < b ->
  In i l -> iend i < a -> pos i -> In i (erase_result_ents a b mode true l).
Proof. exact (erase_shrink_outside_before a b mode l i). Qed.
Print Assumptions C07_entries_before_unchanged.

Theorem C07_entries_after_shifted_exactly a b mode l i : a < b ->
  In i l -> b < istart i -> pos i -> In (shift (- (b - a)) i) (erase_result_ents a b mode true l).
Proof. exact (erase_shrink_outside_after a b mode l i). Qed.
Print Assumptions C07_entries_after_shifted_exactly.

Theorem C07_straddler_one_interval a b l i : a < b -> wf_ients l ->
  In i l -> istart i < a -> b < iend i ->
  In (mkI (istart i) (iend i - (b - a)) (ilabel i)) (erase_result_ents a b ETruncate true l).
Proof. exact (erase_straddler_one_interval a b l i). Qed.
Print Assumptions C07_straddler_one_interval.

Theorem C07_categorical_members a b l r i :
  erase_keep a b ECategorical l = Ok r -> (In i r <-> In i l /\ ~ overlaps a b i).
Proof. exact (erase_categorical_members a b l r i). Qed.
Print Assumptions C07_categorical_members.

Theorem C07_error_iff a b l :
  erase_keep a b EError l = Err CollisionError <-> exists i, In i l /\ overlaps a b i.
Proof. exact (erase_keep_error_iff a b l). Qed.
Print Assumptions C07_error_iff.

Theorem C07_degenerate_rejected t a b mode s : b <= a -> erase_i t a b mode s = Err ArgumentError.
Proof. intro H. unfold erase_i. destruct (Z.leb_spec b a); [reflexivity|lia]. Qed.
Print Assumptions C07_degenerate_rejected.

Theorem C07_points_removed t a b t' p :
  erase_p t a b false = Ok t' -> In p (pents t') -> ~ (a <= ptime p <= b).
Proof. exact (erase_p_members t a b t' p). Qed.
Print Assumptions C07_points_removed.
