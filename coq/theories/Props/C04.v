(* Props/C04.v -- Saving adds only blanks and absorbs only sub-threshold slivers.
   Property theorems only; proofs are in IO/PrepProofs.v. *)
From Coq Require Import Lia.
From PraatIO Require Import IO.PrepSpec IO.PrepProofs.
Open Scope Z_scope.

(* Blank filling of a well-formed interval tier over the requested span [minT,maxT]
   succeeds, yields an ascending gap-free overlap-free partition of exactly that span,
   keeps every entry, keeps the labelled entries verbatim and in order, and adds
   nothing but empty-labelled intervals. *)
Theorem C04_fill_adds_only_blanks minT maxT l :
  chain minT l maxT -> (l <> [] \/ minT < maxT) ->
  exists l', fill_blanks minT maxT l = Ok l'
    /\ partitionb minT l' = Some maxT
    /\ labelled l' = labelled l
    /\ (forall x, In x l -> In x l')
    /\ (forall x, In x l' -> In x l \/ is_blank x = true).
Proof.
  intros C NE. exists (fill_spec minT l maxT). split; [exact (fill_blanks_spec _ _ _ C NE)|].
  split; [exact (fill_spec_partition _ _ _ C)|]. split; [exact (fill_spec_labelled _ _ _)|].
  split; [intros x; exact (fill_spec_keeps _ _ _ x)|intros x; exact (fill_spec_only_blanks _ _ _ x)].
Qed.
Print Assumptions C04_fill_adds_only_blanks.

(* Sliver absorption on a partition in which at least one interval reaches the threshold:
   the output is again a partition of the same span, no written interval is shorter than
   the threshold, and the written labels are exactly the labels of the intervals at least
   that long, in order. *)
Theorem C04_absorbs_only_slivers thr minT l hi :
  0 < snd thr -> partitionb minT l = Some hi -> existsb (long thr) l = true ->
  partitionb minT (remove_ultrashort thr minT l) = Some hi
  /\ forallb (long thr) (remove_ultrashort thr minT l) = true
  /\ map dl (remove_ultrashort thr minT l) = map dl (filter (long thr) l).
Proof. intros H. exact (ultra_partition thr H minT l hi). Qed.
Print Assumptions C04_absorbs_only_slivers.

(* Boundaries unchanged unless a sliver next to the interval was absorbed. *)
Theorem C04_boundaries_unchanged_without_adjacent_sliver thr minT l hi l1 e l2 :
  0 < snd thr -> partitionb minT l = Some hi -> l = l1 ++ e :: l2 -> long thr e = true ->
  match last_opt l1 with Some a => long thr a = true | None => True end ->
  match l2 with b :: _ => long thr b = true | [] => True end ->
  In e (remove_ultrashort thr minT l).
Proof. intros H. exact (ultra_verbatim thr H minT l hi l1 e l2). Qed.
Print Assumptions C04_boundaries_unchanged_without_adjacent_sliver.

(* The whole preparation of one interval tier with blank filling on. *)
Theorem C04_prep_tier minT maxT thr t :
  d_isint t = true -> chain minT (d_ents t) maxT -> (d_ents t <> [] \/ minT < maxT) ->
  match thr with Some th => 0 < snd th /\ existsb (long th) (fill_spec minT (d_ents t) maxT) = true | None => True end ->
  prep_tier true minT maxT thr t =
    Ok (mkDT true (d_name t) (d_xmin t) (d_xmax t)
             (match thr with
              | Some th => remove_ultrashort th minT (fill_spec minT (d_ents t) maxT)
              | None => fill_spec minT (d_ents t) maxT end)).
Proof. exact (prep_tier_blanks minT maxT thr t). Qed.
Print Assumptions C04_prep_tier.

(* Threshold disabled: nothing is absorbed (the output is the blank-filled tier) and every
   written interval has positive length. *)
Theorem C04_no_threshold minT maxT t :
  d_isint t = true -> chain minT (d_ents t) maxT -> (d_ents t <> [] \/ minT < maxT) ->
  exists t', prep_tier true minT maxT None t = Ok t'
    /\ d_ents t' = fill_spec minT (d_ents t) maxT
    /\ Forall (fun e => 0 < dlen e) (d_ents t').
Proof.
  intros HI C NE. eexists. split; [exact (prep_tier_blanks minT maxT None t HI C NE I)|].
  split; [reflexivity|]. simpl. exact (partition_positive _ _ _ (fill_spec_partition _ _ _ C)).
Qed.
Print Assumptions C04_no_threshold.

(* Blank filling off: entries are only put in order, nothing is added or absorbed. *)
Theorem C04_blanks_off_verbatim minT maxT thr t :
  prep_tier false minT maxT thr t = Ok (mkDT (d_isint t) (d_name t) (d_xmin t) (d_xmax t) (dsort (d_ents t))).
Proof. reflexivity. Qed.
Print Assumptions C04_blanks_off_verbatim.

(* An entry outside a requested minTimestamp / maxTimestamp: the save raises, whatever
   the tier kind and the blank-filling flag. *)
Theorem C04_override_outside_raises blanks mn mx thr g :
  outside_override mn mx g = true -> prep_tg blanks mn mx thr g = Err ParsingError.
Proof. intro H. unfold prep_tg. rewrite H. reflexivity. Qed.
Print Assumptions C04_override_outside_raises.

Theorem C04_outside_override_iff mn mx g :
  outside_override mn mx g = true <->
  exists t e, In t (dg_tiers g) /\ In e (d_ents t) /\
    ((exists a, mn = Some a /\ ds e < a) \/ (exists b, mx = Some b /\ b < de e)).
Proof.
  unfold outside_override. rewrite existsb_exists. split.
  - intros (t & Ht & H). apply existsb_exists in H as (e & He & H). exists t, e. repeat split; auto.
    apply Bool.orb_true_iff in H as [H|H]; [left|right].
    + destruct mn as [a|]; [exists a; split; [reflexivity|lia]|discriminate].
    + destruct mx as [b|]; [exists b; split; [reflexivity|lia]|discriminate].
  - intros (t & e & Ht & He & H). exists t. split; [exact Ht|]. apply existsb_exists. exists e. split; [exact He|].
    apply Bool.orb_true_iff. destruct H as [(a & -> & H)|(b & -> & H)]; [left|right]; lia.
Qed.
Print Assumptions C04_outside_override_iff.

(* A successful save carries the override as the file's span. *)
Theorem C04_override_becomes_span blanks mn mx thr g g' :
  prep_tg blanks mn mx thr g = Ok g' ->
  dg_xmin g' = match mn with Some a => a | None => dg_xmin g end
  /\ dg_xmax g' = match mx with Some b => b | None => dg_xmax g end.
Proof.
  unfold prep_tg. destruct (outside_override mn mx g); [discriminate|].
  match goal with |- context [bind ?X _] => destruct X end; simpl; [|discriminate].
  intros [= <-]. split; reflexivity.
Qed.
Print Assumptions C04_override_becomes_span.

(* Blank filling itself refuses entries outside the span it is asked to fill. *)
Theorem C04_fill_refuses_outside_low minT maxT e0 rest :
  ds e0 < minT -> fill_blanks minT maxT (e0 :: rest) = Err ParsingError.
Proof. exact (fill_blanks_raises_low minT maxT e0 rest). Qed.
Print Assumptions C04_fill_refuses_outside_low.

(* F19 (repaired): when every interval of the blank-filled tier is below the threshold the tier used
   to be written with no intervals, which is not a partition of the span (the function before the
   repair is kept as remove_ultrashort_legacy for this witness) ... *)
Theorem C04_all_short_legacy_refuted :
  exists thr minT hi l, 0 < snd thr /\ partitionb minT l = Some hi /\ minT < hi
    /\ partitionb minT (remove_ultrashort_legacy thr minT l) <> Some hi.
Proof. exists (3, 1), 0, 1, [DI 0 1 [97%N]]. vm_compute. repeat split; discriminate. Qed.
Print Assumptions C04_all_short_legacy_refuted.

(* ... now one blank interval covers the tier, as for a tier without entries *)
Theorem C04_all_short_single_blank thr minT l hi :
  partitionb minT l = Some hi -> l <> [] -> existsb (long thr) l = false ->
  remove_ultrashort thr minT l = [DI minT hi []].
Proof. intros H. exact (ultra_all_short thr minT l hi H). Qed.
Print Assumptions C04_all_short_single_blank.

(* hence, whatever the lengths of its intervals, a non-empty partition of a span is written as a
   partition of that span: the side condition "some interval reaches the threshold" is gone *)
Theorem C04_threshold_keeps_partition thr minT l hi :
  0 < snd thr -> partitionb minT l = Some hi -> l <> [] ->
  partitionb minT (remove_ultrashort thr minT l) = Some hi.
Proof. intros H. exact (ultra_partition_always thr H minT l hi). Qed.
Print Assumptions C04_threshold_keeps_partition.

(* non-vacuity: a tier with a gap, a sliver and ordinary intervals meets the hypotheses *)
Example C04_hypotheses_satisfiable :
  chain 0 [DI 2 5 [97%N]; DI 5 6 [98%N]; DI 9 20 [99%N]] 30
  /\ partitionb 0 (fill_spec 0 [DI 2 5 [97%N]; DI 5 6 [98%N]; DI 9 20 [99%N]] 30) = Some 30
  /\ existsb (long (2, 1)) (fill_spec 0 [DI 2 5 [97%N]; DI 5 6 [98%N]; DI 9 20 [99%N]] 30) = true
  /\ remove_ultrashort (2, 1) 0 (fill_spec 0 [DI 2 5 [97%N]; DI 5 6 [98%N]; DI 9 20 [99%N]] 30)
     = [DI 0 2 []; DI 2 6 [97%N]; DI 6 9 []; DI 9 20 [99%N]; DI 20 30 []].
Proof. simpl. repeat split; try lia; reflexivity. Qed.
