(* Props/C04.v -- placeholder, filled below *)
From PraatIO Require Import IO.IoModel.
Theorem C04_blanks_off_only_sorts minT maxT thr t :
  d_isint t = false \/ True ->
  prep_tier false minT maxT thr t = Ok (mkDT (d_isint t) (d_name t) (d_xmin t) (d_xmax t) (dsort (d_ents t))).
Proof. intros _. reflexivity. Qed.
Print Assumptions C04_blanks_off_only_sorts.
