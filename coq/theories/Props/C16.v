(* Props/C16.v -- in-memory audio edits are sample-exact and sample-aligned.
   Property theorems only; proofs are in Audio/WavProofs.v. *)
From Coq Require Import ZArith Lia.
From PraatIO Require Import Audio.WavModel Audio.WavProofs.
Open Scope Z_scope.

(* samples -> bytes -> samples is the identity for every width and every value of the range *)
Theorem C16_samples_bytes_samples w l : (0 < w)%nat -> Forall (in_range w) l ->
  convert_from_bytes w (encode_all w l) = Ok l.
Proof. exact (convert_roundtrip w l). Qed.
Print Assumptions C16_samples_bytes_samples.

(* bytes -> samples -> bytes is the identity on any whole number of samples *)
Theorem C16_bytes_samples_bytes w n bs : (0 < w)%nat -> length bs = (n * w)%nat -> Forall is_byte bs ->
  encode_all w (decode_all w bs) = bs.
Proof. exact (encode_decode_all w n bs). Qed.
Print Assumptions C16_bytes_samples_bytes.

(* every time maps to a byte offset that is a whole number of samples *)
Theorem C16_index_sample_aligned w r t : (Z.of_nat w | index_at r w t).
Proof. exact (index_aligned w r t). Qed.
Print Assumptions C16_index_sample_aligned.

(* insert / deleteSegment / replaceSegment / concatenate / getSubwav on the byte string are the
   same edits on the list of samples: exactly the samples between the nearest sample indices
   are removed, returned or displaced, every other sample keeps its value and order *)
Theorem C16_edit_is_sample_exact w r s o :
  w_frames (run_wop (mkWav (encode_all w s) w r) o) = encode_all w (s_samples (run_sop (mkSW s r) o)).
Proof. exact (wop_refines w r s o). Qed.
Print Assumptions C16_edit_is_sample_exact.

(* ... after any sequence of edits *)
Theorem C16_history_is_sample_exact w r ops s :
  w_frames (fold_left run_wop ops (mkWav (encode_all w s) w r))
  = encode_all w (s_samples (fold_left run_sop ops (mkSW s r))).
Proof. exact (proj1 (history_refines w r ops s)). Qed.
Print Assumptions C16_history_is_sample_exact.

(* getSamples returns exactly the samples between the sample indices nearest to the two times *)
Theorem C16_get_samples w r s t0 t1 : (0 < w)%nat -> Forall (in_range w) s ->
  wav_get_samples (mkWav (encode_all w s) w r) t0 t1 = Ok (sw_get (mkSW s r) t0 t1).
Proof. exact (get_samples_spec w r s t0 t1). Qed.
Print Assumptions C16_get_samples.

(* duration = sample count / frame rate *)
Theorem C16_duration w r s :
  fst (wav_duration (mkWav (encode_all w s) w r)) * r = Z.of_nat (length s) * snd (wav_duration (mkWav (encode_all w s) w r)).
Proof. exact (duration_is_samples_over_rate w r s). Qed.
Print Assumptions C16_duration.

(* inserting a stretch at t and deleting [t, t + its duration] restores the original, for every
   time in [0, duration] that is not exactly half-way between two samples *)
Theorem C16_insert_delete_identity_partial rate s t f : 0 < rate -> 0 < snd t ->
  2 * ((fst t * rate) mod snd t) <> snd t ->
  0 <= frame_at rate t <= Z.of_nat (length s) ->
  sw_delete (sw_insert (mkSW s rate) t f) t (plus_samples rate t (Z.of_nat (length f))) = mkSW s rate.
Proof. exact (insert_delete_identity rate s t f). Qed.
Print Assumptions C16_insert_delete_identity_partial.

(* the full statement (all times) is false of the faithful model: exact ties under
   round-half-even -- the recorded finding F20 *)
Theorem C16_insert_delete_identity_refuted :
  exists rate s t f, 0 < rate /\ 0 < snd t /\ 0 <= frame_at rate t <= Z.of_nat (length s)
    /\ sw_delete (sw_insert (mkSW s rate) t f) t (plus_samples rate t (Z.of_nat (length f))) <> mkSW s rate.
Proof. exact insert_delete_tie_refuted. Qed.
Print Assumptions C16_insert_delete_identity_refuted.

(* before the repair of F13 the offset was rounded to a byte *)
Theorem C16_legacy_index_refuted : exists rate w t, ~ (Z.of_nat w | index_at_legacy rate w t).
Proof. exact index_legacy_misaligned_refuted. Qed.
Print Assumptions C16_legacy_index_refuted.

Example C16_example :
  w_frames (run_wop (mkWav (encode_all 2 [1; -2; 300; -32768]) 2 8) (WDelete (3, 16) (5, 8)))
  = encode_all 2 [1; -2] /\ Forall (in_range 2) [1; -2; 300; -32768].
Proof. split; [vm_compute; reflexivity|]. repeat (constructor; [unfold in_range, pow256; simpl; lia|]). constructor. Qed.
