(* Props/C14.v -- property theorems for C14 (dejitter, morph). *)
From PraatIO Require Import Tier.TierModel Tier.CtorProofs Tier.AdjustProofs Textgrid.TgModel Textgrid.TgProofs.

(* the reference timestamps are a strictly increasing list *)
Theorem C14_reference_times_sorted_set l : StronglySorted Z.lt (zsort_uniq l).
Proof. exact (zsort_uniq_strict l). Qed.
Print Assumptions C14_reference_times_sorted_set.

(* nearest reference: a member, no other is closer, and the earlier one wins ties *)
Theorem C14_nearest x refs r :
  StronglySorted Z.lt refs -> nearest x refs = Some r ->
  In r refs
  /\ (forall r', In r' refs -> Z.abs (r - x) <= Z.abs (r' - x))
  /\ (forall r', In r' refs -> r' < r -> Z.abs (r - x) < Z.abs (r' - x)).
Proof. exact (nearest_spec x refs r). Qed.
Print Assumptions C14_nearest.

(* a time moves to its nearest reference iff it lies within d (inclusive), otherwise it is untouched *)
Theorem C14_moved_iff_within refs d x y :
  StronglySorted Z.lt refs -> snap refs d x = Ok y ->
  exists r, nearest x refs = Some r
    /\ (forall r', In r' refs -> Z.abs (r - x) <= Z.abs (r' - x))
    /\ y = (if Z.abs (x - r) <=? d then r else x).
Proof. exact (snap_spec refs d x y). Qed.
Print Assumptions C14_moved_iff_within.

(* adjusted times never cross *)
Theorem C14_adjustment_monotone refs d x1 x2 y1 y2 :
  StronglySorted Z.lt refs -> 0 <= d -> x1 <= x2 ->
  snap refs d x1 = Ok y1 -> snap refs d x2 = Ok y2 -> y1 <= y2.
Proof. exact (snap_mono refs d x1 x2 y1 y2). Qed.
Print Assumptions C14_adjustment_monotone.

(* dejitter: when it returns, every entry is its own adjustment, in the same
   order, with the same labels and count, and the tier is well-formed
   (so a collapse cannot be returned: it raises) *)
Theorem C14_dejitter_keeps_count_order_labels t refs d t' :
  wf_itier t -> StronglySorted Z.lt refs -> 0 <= d ->
  dejitter_i t refs d = Ok t' ->
  Forall2 (fun i j => snap_entry refs d i = Ok j) (ients t) (ients t')
  /\ map ilabel (ients t') = map ilabel (ients t)
  /\ length (ients t') = length (ients t)
  /\ wf_itier t'.
Proof. exact (dejitter_i_spec t refs d t'). Qed.
Print Assumptions C14_dejitter_keeps_count_order_labels.

Theorem C14_empty_reference_raises d x : snap [] d x = Err PyError.
Proof. exact (snap_empty_refs d x). Qed.
Print Assumptions C14_empty_reference_raises.

(* morph *)
Theorem C14_morph_entries t g filt t' :
  wf_itier t -> Forall pos (ients g) -> morph_i t g filt = Ok t' ->
  ients t' = morph_go filt 0 (ients t) (ients g).
Proof. exact (morph_i_entries t g filt t'). Qed.
Print Assumptions C14_morph_entries.

Theorem C14_morph_labels filt cum src tgt :
  length src = length tgt -> map ilabel (morph_go filt cum src tgt) = map ilabel src.
Proof. exact (morph_go_labels filt cum src tgt). Qed.
Print Assumptions C14_morph_labels.

Theorem C14_morph_durations (filt : text -> bool) cum src tgt :
  length src = length tgt ->
  Forall2 (fun (sg : (interval * interval)%type) r =>
             iend r - istart r = if filt (ilabel (fst sg)) then iend (snd sg) - istart (snd sg)
                                 else iend (fst sg) - istart (fst sg))
          (combine src tgt) (morph_go filt cum src tgt).
Proof. exact (morph_go_durations filt cum src tgt). Qed.
Print Assumptions C14_morph_durations.

(* gaps between consecutive intervals and the first start are preserved *)
Theorem C14_morph_gaps filt cum src tgt pe :
  length src = length tgt ->
  gaps_of (pe + cum) (morph_go filt cum src tgt) = gaps_of pe src.
Proof. exact (morph_go_gaps filt cum src tgt pe). Qed.
Print Assumptions C14_morph_gaps.

Theorem C14_morph_trailing_gap t g filt t' :
  morph_i t g filt = Ok t' ->
  exists nl ol, last_opt (morph_go filt 0 (ients t) (ients g)) = Some nl /\ last_opt (ients t) = Some ol
    /\ (imax t + (iend nl - iend ol)) - iend nl = imax t - iend ol.
Proof. exact (morph_i_trailing_gap t g filt t'). Qed.
Print Assumptions C14_morph_trailing_gap.

Theorem C14_morph_length_mismatch t g filt :
  length (ients t) <> length (ients g) -> morph_i t g filt = Err SafeZipException.
Proof. exact (morph_i_length_mismatch t g filt). Qed.
Print Assumptions C14_morph_length_mismatch.

(* praatio_scripts.alignBoundariesAcrossTiers: the textgrid keeps its tiers under the same names in the
   same order; the reference tier is untouched and every other tier is that tier's own dejitter
   against the reference tier's timestamps -- selected by its NAME, whatever other names look like *)
Theorem C14_align_tierwise g n d g' :
  NoDup (names g) -> tg_align g n d = Ok g' ->
  exists ref, find_tier n (tiers g) = Some ref
  /\ Forall2 (aligned n (timestamps_of ref) d) (tiers g) (tiers g').
Proof. exact (tg_align_tierwise g n d g'). Qed.
Print Assumptions C14_align_tierwise.
