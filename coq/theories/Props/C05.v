(* Props/C05.v -- property theorems for C05 (every reachable tier is well-formed). *)
From PraatIO Require Import Tier.TierOps Tier.CtorProofs Tier.WfProofs.

(* whatever the constructor returns is well-formed: arbitrary entry lists *)
Theorem C05_constructor_wf name l mn mx t : new_itier name l mn mx = Ok t -> wf_itier t.
Proof. exact (new_itier_wf name l mn mx t). Qed.
Print Assumptions C05_constructor_wf.

Theorem C05_point_constructor_wf name l mn mx t : new_ptier name l mn mx = Ok t -> wf_ptier t.
Proof. exact (new_ptier_wf name l mn mx t). Qed.
Print Assumptions C05_point_constructor_wf.

(* one operation, any arguments: an Ok result is well-formed *)
Theorem C05_step_preserves_wf t o t' : wf_itier t -> args_wfI o -> run_opI t o = Ok t' -> wf_itier t'.
Proof. exact (run_opI_wf t o t'). Qed.
Print Assumptions C05_step_preserves_wf.

Theorem C05_point_step_preserves_wf t o t' : wf_ptier t -> run_opP t o = Ok t' -> wf_ptier t'.
Proof. exact (run_opP_wf t o t'). Qed.
Print Assumptions C05_point_step_preserves_wf.

(* any finite history *)
Theorem C05_reachable_wf ops t :
  wf_itier t -> Forall args_wfI ops -> wf_itier (fold_left stepI ops t).
Proof. exact (reachable_wf ops t). Qed.
Print Assumptions C05_reachable_wf.

Theorem C05_point_reachable_wf ops t : wf_ptier t -> wf_ptier (fold_left stepP ops t).
Proof. exact (reachable_wf_p ops t). Qed.
Print Assumptions C05_point_reachable_wf.

(* validate() agrees *)
Theorem C05_validate_agrees t : wf_itier t -> validate_i t = true.
Proof. exact (wf_validate t). Qed.
Print Assumptions C05_validate_agrees.

Theorem C05_point_validate_agrees t : wf_ptier t -> validate_p t = true.
Proof. exact (wf_validate_p t). Qed.
Print Assumptions C05_point_validate_agrees.
