(* Props/C17.v -- interval-driven audio extraction keeps and drops exactly the marked samples.
   Property theorems only; proofs are in Audio/KeepDeleteProofs.v. *)
From Coq Require Import ZArith Lia.
From PraatIO Require Import Audio.KeepDelete Audio.KeepDeleteProofs.
Open Scope Z_scope.

(* specifying both lists is rejected *)
Theorem C17_both_lists_rejected start stop k ks d ds :
  keep_delete start stop (k :: ks) (d :: ds) = Err ArgumentError.
Proof. exact (both_lists_rejected start stop k ks d ds). Qed.
Print Assumptions C17_both_lists_rejected.

(* utils.invertIntervalList on a well-formed list inside [lo,hi] returns exactly its gaps *)
Theorem C17_invert_is_complement lo l hi : rchain lo l hi -> lo < hi ->
  invert_list l (Some lo) (Some hi) = Ok (gaps lo l hi).
Proof. exact (invert_is_gaps lo l hi). Qed.
Print Assumptions C17_invert_is_complement.

(* the keep/delete marking: the given intervals with their label, every gap with the other
   label, in time order *)
Theorem C17_marking_keep lo hi k ks : rchain lo (k :: ks) hi -> lo < hi ->
  keep_delete lo hi (k :: ks) [] = Ok (mark_spec true lo (k :: ks) hi).
Proof. exact (keep_delete_keep lo hi k ks). Qed.
Print Assumptions C17_marking_keep.

Theorem C17_marking_delete lo hi d ds : rchain lo (d :: ds) hi -> lo < hi ->
  keep_delete lo hi [] (d :: ds) = Ok (mark_spec false lo (d :: ds) hi).
Proof. exact (keep_delete_delete lo hi d ds). Qed.
Print Assumptions C17_marking_delete.

(* ... which tiles [start, stop]: ascending, gap-free, overlap-free, every stretch positive *)
Theorem C17_marking_tiles lo hi keep del ms :
  rchain lo (keep ++ del) hi -> lo < hi -> (keep = [] \/ del = []) ->
  keep_delete lo hi keep del = Ok ms -> mtile lo ms hi.
Proof. exact (keep_delete_tiles lo hi keep del ms). Qed.
Print Assumptions C17_marking_tiles.

(* reading along a tiling with a replacement generator: original length, every kept sample at
   its original position *)
Theorem C17_replacement_keeps_positions s g ms lo hi :
  (forall n, length (g n) = n) -> tiling lo ms hi -> (hi <= length s)%nat ->
  length (flat_map (piece_idx s g) ms) = (hi - lo)%nat
  /\ forall a b i d, In (a, b, true) ms -> (a <= i < b)%nat ->
       nth (i - lo) (flat_map (piece_idx s g) ms) d = nth i s d.
Proof. intros Hg. exact (render_tiling s g Hg ms lo hi). Qed.
Print Assumptions C17_replacement_keeps_positions.

(* without a replacement: exactly the samples of the kept stretches, in order *)
Theorem C17_keep_only s ms :
  flat_map (piece_idx s (fun _ : nat => @nil Z)) ms
  = flat_map (fun m : nat * nat * bool => let '(a, b, k) := m in if k then firstn (b - a) (skipn a s) else @nil Z) ms.
Proof. exact (render_keep_only s ms). Qed.
Print Assumptions C17_keep_only.

(* a boundary on a sample position maps to that sample index *)
Theorem C17_on_sample_index K i : 0 < K -> fr K (i * K) = i.
Proof. exact (rhe_exact K i). Qed.
Print Assumptions C17_on_sample_index.

(* times beyond the recording are rejected *)
Theorem C17_beyond_duration_rejected K s keep del gen marked m :
  keep_delete 0 (Z.of_nat (length s) * K) keep del = Ok marked -> last_opt marked = Some m ->
  Z.of_nat (length s) * K < m_end m -> read_at_times K s keep del gen = Err ArgumentError.
Proof. exact (beyond_duration_rejected K s keep del gen marked m). Qed.
Print Assumptions C17_beyond_duration_rejected.

(* generated silence has the requested number of samples *)
Theorem C17_silence_count n : 0 <= n -> Z.of_nat (length (silence n)) = n.
Proof. intro H. unfold silence. rewrite repeat_length. lia. Qed.
Print Assumptions C17_silence_count.

Example C17_example :
  rchain 0 [(4, 8); (8, 12); (20, 24)] 40 /\
  read_at_times 4 [1; 2; 3; 4; 5; 6; 7; 8; 9; 10] [] [(4, 8); (8, 12); (20, 24)] (Some silence)
  = Ok [1; 0; 0; 4; 5; 0; 7; 8; 9; 10].
Proof. split; [simpl; lia|vm_compute; reflexivity]. Qed.
