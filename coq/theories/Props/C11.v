(* Props/C11.v -- property theorems for C11 (insertEntry / deleteEntry). *)
From PraatIO Require Import Tier.TierModel Tier.CtorProofs Tier.CropProofs Tier.InsertProofs Tier.Interval Tier.InsertPProofs.

(* the model of IntervalTier.insertEntry (crop-lax matches, delete, append,
   sort, span update) equals the collision-policy specification on every
   well-formed tier, for every entry and mode *)
Theorem C11_insert_meets_policy t e mode : wf_itier t -> insert_i t e mode = insert_spec t (strip_i e) mode.
Proof. exact (insert_i_public_spec t e mode). Qed.
Print Assumptions C11_insert_meets_policy.

(* afterwards the entries are again sorted, positive, pairwise non-overlapping
   and inside the (just enough grown) span *)
Theorem C11_insert_keeps_order_and_span t e mode t' :
  wf_itier t -> insert_i_core t e mode = Ok t' ->
  wf_ients (ients t') /\ Forall (in_span (imin t') (imax t')) (ients t').
Proof. exact (insert_i_wf_ients t e mode t'). Qed.
Print Assumptions C11_insert_keeps_order_and_span.

(* deleting the matches of a filter from a wf list leaves exactly the others *)
Theorem C11_replace_removes_exactly_matches p l :
  wf_ients l -> delete_all (filter p l) l = Ok (filter (fun i => negb (p i)) l).
Proof. exact (delete_all_filter p l). Qed.
Print Assumptions C11_replace_removes_exactly_matches.

(* merge: one entry over the joint extent, labels joined in time order *)
Theorem C11_merge_entry e ms : merged_entry (isorti (ms ++ [e])) = Ok (joint_entry e ms).
Proof. exact (merged_entry_joint e ms). Qed.
Print Assumptions C11_merge_entry.

Theorem C11_sorted_insert_position l x :
  StronglySorted (lebP ileb) l -> isorti (l ++ [x]) = insert ileb x l.
Proof. exact (isorti_snoc l x). Qed.
Print Assumptions C11_sorted_insert_position.

Theorem C11_span_grows_just_enough t e mode t' :
  wf_itier t -> insert_i_core t e mode = Ok t' ->
  imin t' = Z.min (imin t) (istart e) /\ imax t' = Z.max (imax t) (iend e).
Proof.
  intros Hwf. rewrite (insert_i_spec _ _ _ Hwf). unfold insert_spec.
  destruct (iend e <=? istart e); [discriminate|].
  destruct (filter _ (ients t)); [intros [= <-]; auto|].
  destruct mode; try discriminate; intros [= <-]; auto.
Qed.
Print Assumptions C11_span_grows_just_enough.

Theorem C11_delete_absent_raises t e :
  ~ In e (ients t) -> delete_i t e = Err PyError.
Proof.
  intro H. unfold delete_i.
  assert (remove_first interval_eqb e (ients t) = None) as ->; [|reflexivity].
  induction (ients t) as [|i l IH]; [reflexivity|]. simpl.
  destruct (interval_eqb i e) eqn:E.
  - apply interval_eqb_eq in E. subst. exfalso. apply H. left; reflexivity.
  - rewrite IH; [reflexivity|]. intro Hi. apply H. right; exact Hi.
Qed.
Print Assumptions C11_delete_absent_raises.

(* ---- point tiers: PointTier.insertEntry against the same policy (collision = a point at the same time) ---- *)

(* no point at that time: the (trimmed) entry is added and nothing else changes, in every mode *)
Theorem C11_point_insert_free t e m t' : collides_with t e = None -> insert_p t e m = Ok t' ->
  Permutation.Permutation (pents t') (strip_p e :: pents t) /\ pname t' = pname t.
Proof. exact (insert_p_free t e m t'). Qed.
Print Assumptions C11_point_insert_free.

Theorem C11_point_insert_error t e old : collides_with t e = Some old -> insert_p t e IError = Err CollisionError.
Proof. exact (insert_p_error t e old). Qed.
Print Assumptions C11_point_insert_error.

(* 'replace' removes exactly the colliding point and inserts the new one *)
Theorem C11_point_insert_replace t e old t' : collides_with t e = Some old -> insert_p t e IReplace = Ok t' ->
  Permutation.Permutation (old :: pents t') (strip_p e :: pents t).
Proof. exact (insert_p_replace t e old t'). Qed.
Print Assumptions C11_point_insert_replace.

(* 'merge' replaces it by one point at that time labelled old-new *)
Theorem C11_point_insert_merge t e old t' : collides_with t e = Some old -> insert_p t e IMerge = Ok t' ->
  Permutation.Permutation (old :: pents t') (mkP (ptime e) (join DASH [plabel old; strip (plabel e)]) :: pents t).
Proof. exact (insert_p_merge t e old t'). Qed.
Print Assumptions C11_point_insert_merge.

(* afterwards the tier is in time order and its span has grown just enough to contain the new time (F7) *)
Theorem C11_point_insert_order_and_span t e m t' : wf_ptier t -> pmin t <= pmax t -> insert_p t e m = Ok t' ->
  wf_ptier t' /\ pmin t' = Z.min (pmin t) (ptime e) /\ pmax t' = Z.max (pmax t) (ptime e).
Proof. exact (insert_p_order_and_span t e m t'). Qed.
Print Assumptions C11_point_insert_order_and_span.
