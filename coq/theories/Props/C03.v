(* Props/C03.v -- the reader on specification-conformant files: line ends, blank removal,
   duplicate names.  Property theorems only. *)
From Coq Require Import Lia.
From PraatIO Require Import IO.IoModel IO.DupNames IO.CodecProofs IO.CrlfProofs.

(* a CRLF file and the LF file with the same content are parsed identically, in either layout *)
Theorem C03_crlf_invariant_short s :
  forallb (fun c => negb (c =? 13)%N) s = true -> parse_short (to_crlf s) = parse_short s.
Proof. intro H. unfold parse_short. now rewrite (crlf_roundtrip s H), (crlf_nocr s H). Qed.
Print Assumptions C03_crlf_invariant_short.

Theorem C03_crlf_invariant_long u s :
  forallb (fun c => negb (c =? 13)%N) s = true -> parse_long u (to_crlf s) = parse_long u s.
Proof. intro H. unfold parse_long. now rewrite (crlf_roundtrip s H), (crlf_nocr s H). Qed.
Print Assumptions C03_crlf_invariant_long.

(* includeEmptyIntervals=False omits exactly the entries whose label is empty; spans, names,
   types, order and every other entry are untouched *)
Theorem C03_remove_blanks_exact g :
  rg_xmin (remove_blanks g) = rg_xmin g /\ rg_xmax (remove_blanks g) = rg_xmax g
  /\ map r_name (rg_tiers (remove_blanks g)) = map r_name (rg_tiers g)
  /\ map r_isint (rg_tiers (remove_blanks g)) = map r_isint (rg_tiers g)
  /\ map r_xmin (rg_tiers (remove_blanks g)) = map r_xmin (rg_tiers g)
  /\ map r_xmax (rg_tiers (remove_blanks g)) = map r_xmax (rg_tiers g)
  /\ map r_ents (rg_tiers (remove_blanks g))
     = map (fun t => filter (fun e => match e with RI _ _ l | RP _ l => negb (text_eqb l []) end) (r_ents t)) (rg_tiers g).
Proof. unfold remove_blanks; simpl. rewrite !map_map. simpl. repeat split; reflexivity. Qed.
Print Assumptions C03_remove_blanks_exact.

(* duplicate names: whatever is returned has unique names, one per tier of the file *)
Theorem C03_opened_names_unique mode names out :
  open_names mode names [] = Ok out -> NoDup out /\ length out = length names.
Proof.
  intro H. split; [eapply open_names_nodup; [constructor|exact H]|].
  apply open_names_length in H. exact H.
Qed.
Print Assumptions C03_opened_names_unique.

(* a file without duplicate names: all names are kept in file order, in both modes *)
Theorem C03_unique_names_kept mode names : NoDup names -> open_names mode names [] = Ok names.
Proof. intro H. exact (open_names_nodup_id mode names [] H). Qed.
Print Assumptions C03_unique_names_kept.

(* error mode raises DuplicateTierName exactly when a name occurs twice *)
Theorem C03_error_mode_iff names :
  open_names DupError names [] = Err DuplicateTierName <-> ~ NoDup names.
Proof. exact (open_names_error_iff names [] (NoDup_nil _)). Qed.
Print Assumptions C03_error_mode_iff.

(* the long-form text field and the short-form text row agree on every label (C01 lemmas) *)
Theorem C03_long_short_same_label l rest tail :
  forallb (fun c => negb (isq c)) tail = true -> ws_to_eol tail = true ->
  exists w, fetch_text_row (quoted l ++ 10%N :: rest) = Ok (w, rest)
    /\ match quoted_group true (esc l ++ 34%N :: tail) [] None with Some g => unesc (strip g) = w | None => False end.
Proof.
  intros A B. exists (strip l). split; [apply fetch_text_row_quoted|].
  exact (long_text_field_roundtrip l tail A B).
Qed.
Print Assumptions C03_long_short_same_label.

Example C03_rename_example :
  open_names DupRename [[119%N]; [119%N]; [119%N; 95%N; 50%N]; [119%N]] []
  = Ok [[119%N]; [119%N; 95%N; 50%N]; [119%N; 95%N; 50%N; 95%N; 50%N]; [119%N; 95%N; 51%N]].
Proof. vm_compute. reflexivity. Qed.
