(* Props/C03.v -- the reader on specification-conformant files: line ends, blank removal,
   duplicate names.  Property theorems only. *)
From Coq Require Import Lia String.
From PraatIO Require Import IO.IoModel IO.DupNames IO.CodecProofs IO.CrlfProofs IO.ShortFileProofs IO.LongFileProofs IO.LongStyleProofs.

(* a CRLF file and the LF file with the same content are parsed identically, in either layout *)
Theorem C03_crlf_invariant_short s :
  forallb (fun c => negb (c =? 13)%N) s = true -> parse_short (to_crlf s) = parse_short s.
Proof. intro H. unfold parse_short. now rewrite (crlf_roundtrip s H), (crlf_nocr s H). Qed.
Print Assumptions C03_crlf_invariant_short.

Theorem C03_crlf_invariant_long u s :
  forallb (fun c => negb (c =? 13)%N) s = true -> parse_long u (to_crlf s) = parse_long u s.
Proof. intro H. unfold parse_long. now rewrite (crlf_roundtrip s H), (crlf_nocr s H). Qed.
Print Assumptions C03_crlf_invariant_long.

(* includeEmptyIntervals=False omits exactly the entries whose label is empty; spans, names,
   types, order and every other entry are untouched *)
Theorem C03_remove_blanks_exact g :
  rg_xmin (remove_blanks g) = rg_xmin g /\ rg_xmax (remove_blanks g) = rg_xmax g
  /\ map r_name (rg_tiers (remove_blanks g)) = map r_name (rg_tiers g)
  /\ map r_isint (rg_tiers (remove_blanks g)) = map r_isint (rg_tiers g)
  /\ map r_xmin (rg_tiers (remove_blanks g)) = map r_xmin (rg_tiers g)
  /\ map r_xmax (rg_tiers (remove_blanks g)) = map r_xmax (rg_tiers g)
  /\ map r_ents (rg_tiers (remove_blanks g))
     = map (fun t => filter (fun e => match e with RI _ _ l | RP _ l => negb (text_eqb l []) end) (r_ents t)) (rg_tiers g).
Proof. unfold remove_blanks; simpl. rewrite !map_map. simpl. repeat split; reflexivity. Qed.
Print Assumptions C03_remove_blanks_exact.

(* duplicate names: whatever is returned has unique names, one per tier of the file *)
Theorem C03_opened_names_unique mode names out :
  open_names mode names [] = Ok out -> NoDup out /\ length out = length names.
Proof.
  intro H. split; [eapply open_names_nodup; [constructor|exact H]|].
  apply open_names_length in H. exact H.
Qed.
Print Assumptions C03_opened_names_unique.

(* a file without duplicate names: all names are kept in file order, in both modes *)
Theorem C03_unique_names_kept mode names : NoDup names -> open_names mode names [] = Ok names.
Proof. intro H. exact (open_names_nodup_id mode names [] H). Qed.
Print Assumptions C03_unique_names_kept.

(* error mode raises DuplicateTierName exactly when a name occurs twice *)
Theorem C03_error_mode_iff names :
  open_names DupError names [] = Err DuplicateTierName <-> ~ NoDup names.
Proof. exact (open_names_error_iff names [] (NoDup_nil _)). Qed.
Print Assumptions C03_error_mode_iff.

(* the long-form text field and the short-form text row agree on every label (C01 lemmas) *)
Theorem C03_long_short_same_label l rest tail :
  forallb (fun c => negb (isq c)) tail = true -> ws_to_eol tail = true ->
  exists w, fetch_text_row (quoted l ++ 10%N :: rest) = Ok (w, rest)
    /\ match quoted_group true (esc l ++ 34%N :: tail) [] None with Some g => unesc (strip g) = w | None => False end.
Proof.
  intros A B. exists (strip l). split; [apply fetch_text_row_quoted|].
  exact (long_text_field_roundtrip l tail A B).
Qed.
Print Assumptions C03_long_short_same_label.

(* whole long-form files in a FAMILY of layouts -- any indentation made of blanks, any run of blanks
   (also none) after a value, `]:` or `]` after an entry index, `item [k]` or `item[k]`, LF or CRLF
   line ends: Praat's own layout and ELAN's are two members.  Whatever text splits at the keywords
   into blocks of such a layout for the data g (decidable side condition lfile_ok_s, evaluated on
   every generated long / ELAN file) is read back as exactly g: spans, tier order, types, names,
   number tokens, labels -- for every label and single-line name *)
Theorem C03_long_family_file s tab g data :
  lfile_ok_s s tab g (crlf_to_lf data) = true ->
  parse_long true data = Ok (rd_tg_long tab g).
Proof. exact (parse_long_styled s tab g data). Qed.
Print Assumptions C03_long_family_file.

(* one entry block in any layout of the family *)
Theorem C03_long_family_interval_block close ind trn trs j N1 N2 lab trail :
  closeb close = true -> allsp ind = true -> allsp trn = true -> allsp trs = true ->
  idx j = true -> numshape N1 = true -> numshape N2 = true -> allsp trail = true ->
  parse_long_interval (ichunk_s close ind trn trs j N1 N2 lab ++ trail) = Ok (RI N1 N2 (strip lab)).
Proof. exact (parse_ichunk_s close ind trn trs j N1 N2 lab trail). Qed.
Print Assumptions C03_long_family_interval_block.

(* non-vacuity: an ELAN-style file (no colon after entry indices, no blank after numbers, item[1]) with CRLF *)
Example C03_long_family_example :
  let tab := [(0, mkNum false [] (T "0")); (1, mkNum false [] (T "1.5")); (2, mkNum false [] (T "2.25E-05"))]%Z in
  let g := mkDTG 0 2 [mkDT true (T "a ""b"" xmin = 3") 0 2 [DI 0 1 [34%N; 10%N; 61%N]; DI 1 2 (T "xmax = 7 ")];
                      mkDT false (T "p") 0 2 [DP 1 [34%N]]]%Z in
  let s := mkLS (T "]:") (T "]") (T "        ") (T "            ") [] (T " ") in
  let nl := [13%N; 10%N] in
  let data :=
    T "File type = ""ooTextFile""" ++ nl ++ T "Object class = ""TextGrid""" ++ nl ++ nl
    ++ T "xmin = 0" ++ nl ++ T "xmax = 2.25E-05" ++ nl ++ T "tiers? <exists> " ++ nl ++ T "size = 2 " ++ nl ++ T "item []: " ++ nl
    ++ T "    item[1]:" ++ nl ++ T "        class = ""IntervalTier"" " ++ nl ++ T "        name = ""a """"b"""" xmin = 3"" " ++ nl
    ++ T "        xmin = 0" ++ nl ++ T "        xmax = 2.25E-05" ++ nl ++ T "        intervals: size = 2 " ++ nl
    ++ T "        intervals [1]" ++ nl ++ T "            xmin = 0" ++ nl ++ T "            xmax = 1.5" ++ nl
    ++ T "            text = """"""" ++ [10%N] ++ T "="" " ++ nl
    ++ T "        intervals [2]" ++ nl ++ T "            xmin = 1.5" ++ nl ++ T "            xmax = 2.25E-05" ++ nl
    ++ T "            text = ""xmax = 7 "" " ++ nl
    ++ T "    item[2]:" ++ nl ++ T "        class = ""TextTier"" " ++ nl ++ T "        name = ""p"" " ++ nl
    ++ T "        xmin = 0" ++ nl ++ T "        xmax = 2.25E-05" ++ nl ++ T "        points: size = 1 " ++ nl
    ++ T "        points [1]" ++ nl ++ T "            number = 1.5" ++ nl ++ T "            mark = """""""" " ++ nl in
  lfile_ok_s s tab g (crlf_to_lf data) = true /\ parse_long true data = Ok (rd_tg_long tab g).
Proof. vm_compute. split; reflexivity. Qed.

Example C03_rename_example :
  open_names DupRename [[119%N]; [119%N]; [119%N; 95%N; 50%N]; [119%N]] []
  = Ok [[119%N]; [119%N; 95%N; 50%N]; [119%N; 95%N; 50%N; 95%N; 50%N]; [119%N; 95%N; 51%N]].
Proof. vm_compute. reflexivity. Qed.
