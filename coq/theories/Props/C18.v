(* Props/C18.v -- zero-crossing search finds real crossings.
   Property theorems only; proofs are in Audio/ZeroCrossProofs.v. *)
From Coq Require Import ZArith Lia.
From PraatIO Require Import Audio.ZeroCross Audio.ZeroCrossProofs Audio.ZeroCrossFound Textgrid.TgModel Textgrid.TgProofs Textgrid.TgZc
  Tier.TierModel Audio.WavModel Textgrid.TgSplice Textgrid.TgSpliceProofs.
Open Scope Z_scope.

(* findNearestZeroCrossing is total for every recording, target and step: when it returns, the
   result is on a sample position and is a genuine crossing (the sample is zero or differs in
   sign from a neighbour); otherwise it raises ArgumentError exactly when the step holds fewer
   than two samples, and FindZeroCrossingError in every other case -- in particular the loop
   terminates (the out-of-fuel value of the model is never produced) *)
Theorem C18_search_total_and_sound K s t st : 0 < K ->
  match find_zc K s t st with
  | Ok x => on_crossing K s x
  | Err e => (e = ArgumentError /\ st < 2 * K) \/ (e = FindZeroCrossingError /\ 2 * K <= st)
  end.
Proof. exact (find_zc_total K s t st). Qed.
Print Assumptions C18_search_total_and_sound.

(* the loop itself: for any positive step the fuel bound is never exhausted *)
Theorem C18_loop_terminates K dur st t s fuel left right : 0 < st ->
  Z.max 0 (Z.max (left + 1) (dur - right + 1)) < Z.of_nat fuel ->
  zc_loop fuel K dur st t left right s <> Err PyError.
Proof. intro H. exact (zc_loop_terminates K dur st t s H fuel left right). Qed.
Print Assumptions C18_loop_terminates.

(* a returned time lies inside the recording *)
Theorem C18_result_in_range K s x : 0 < K -> on_crossing K s x -> 0 <= x < Z.of_nat (length s) * K.
Proof. exact (on_crossing_range K s x). Qed.
Print Assumptions C18_result_in_range.

(* one search window: what is found is a crossing of the whole recording *)
Theorem C18_window_sound K dur s start within step rev x : 0 < K ->
  iter_zc K dur s start within step rev = Some x -> on_crossing K s x.
Proof. exact (iter_zc_spec K dur s start within step rev x). Qed.
Print Assumptions C18_window_sound.

(* the boolean used by the check is the Prop of the theorems *)
Theorem C18_crossingb_sound s j : crossingb s j = true -> crossing s j.
Proof.
  unfold crossingb, crossing. intro H. apply andb_prop in H as [L H]. apply Nat.ltb_lt in L.
  split; [exact L|]. apply Bool.orb_true_iff in H as [H|H]; [apply Bool.orb_true_iff in H as [H|H]|].
  - left. lia.
  - apply andb_prop in H as [H1 H2]. right. left. apply Bool.negb_true_iff, Z.eqb_neq in H1. apply Nat.ltb_lt in H2. auto.
  - destruct j as [|i]; [discriminate|]. right. right. exists i. split; [reflexivity|].
    apply Bool.negb_true_iff, Z.eqb_neq in H. exact H.
Qed.
Print Assumptions C18_crossingb_sound.

Example C18_example :
  find_zc 4 [5; 3; 1; -2; -4; 6; 0; 7] 16 10 = Ok 8 /\ find_zc 4 [5; 3; 1; 2; 4; 6; 1; 7] 16 10 = Err FindZeroCrossingError
  /\ find_zc 4 [5; 3] 4 7 = Err ArgumentError.
Proof. vm_compute. repeat split; reflexivity. Qed.

(* tgBoundariesToZeroCrossings (model tg_zc, compared with the script in Coq): tiers, names and order kept; a tier of
   a kind that is not adjusted is untouched; every other tier is that tier with each of its times replaced by what
   findNearestZeroCrossing returns for it (so by the theorems above: a genuine crossing on a sample, or the
   documented error) ... *)
Theorem C18_tg_zero_crossings_tierwise K s st adjP adjI g g' :
  NoDup (names g) -> tg_zc K s st adjP adjI g = Ok g' ->
  Forall2 (zc_rel K s st adjP adjI) (tiers g) (tiers g').
Proof. exact (tg_zc_tierwise K s st adjP adjI g g'). Qed.
Print Assumptions C18_tg_zero_crossings_tierwise.

(* ... keeping every tier's name and its labels: the same multiset, entries that moved past each other may swap *)
Theorem C18_tg_zero_crossings_labels K s st t t' :
  zc_tier K s st t = Ok t' -> tname t' = tname t /\ Permutation.Permutation (tlabels t') (map strip (tlabels t)).
Proof. intro H. split; [exact (zc_tier_name K s st t t' H)|exact (zc_tier_labels K s st t t' H)]. Qed.
Print Assumptions C18_tg_zero_crossings_labels.

(* audioSplice (model splice, compared with the script in Coq on recording and textgrid): splicing keeps audio and text in
   step.  If the textgrid ends where the recording ends (names unique, tiers well-formed and inside that span), then
   whatever the call returns -- with or without moving the times to zero crossings, with or without a region to cut out --
   is again a recording and a textgrid that end together.  Without alignment the requested times must be sample
   positions (otherwise the audio is cut at the nearest sample and the text at the requested time). *)
Theorem C18_splice_in_step K s seg st g n lab a b align s' g' : 0 < K ->
  ready (dur K s) g ->
  (align = false -> on_grid K s a /\ match b with Some x => on_grid K s x | None => True end) ->
  splice K s seg st g n lab a b align = Ok (s', g') ->
  tgmax g' = Some (dur K s').
Proof. exact (splice_in_step K s seg st g n lab a b align s' g'). Qed.
Print Assumptions C18_splice_in_step.

(* ... and, when nothing is cut out, the named tier holds the new interval (label trimmed) at the place the splice went
   to, exactly as long as the inserted audio; the samples under it are the inserted piece, and the recording grew by
   exactly that much *)
Theorem C18_splice_new_interval K s seg st g n lab a align s' g' : 0 < K ->
  ready (dur K s) g -> (align = false -> on_grid K s a) ->
  splice K s seg st g n lab a None align = Ok (s', g') ->
  exists p i, splice_prep K s seg st g a None align = Ok p
    /\ find_tier n (tiers g') = Some (TI i)
    /\ In (mkI (p_a p) (p_a p + dur K (p_seg p)) (strip lab)) (ients i)
    /\ between s' (frK K (p_a p)) (frK K (p_a p + dur K (p_seg p))) = p_seg p
    /\ dur K s' = dur K s + dur K (p_seg p).
Proof. exact (splice_new_interval K s seg st g n lab a align s' g'). Qed.
Print Assumptions C18_splice_new_interval.

(* _shiftTimes (the helper that moves entries lying exactly on a time to its zero crossing) keeps the textgrid
   fit for the splice: span, unique names, well-formed tiers inside the span *)
Theorem C18_shift_times_keeps_ready M tv nv g g' :
  0 <= nv <= M -> ready M g -> shift_tg tv nv g = Ok g' -> ready M g'.
Proof. exact (shift_tg_ready M tv nv g g'). Qed.
Print Assumptions C18_shift_times_keeps_ready.

(* a zero sample right before an on-sample target is found: the search does not end in "no crossing found"
   (nor in any other error) when the target is sample k >= 1 of the recording and sample k-1 is zero *)
Theorem C18_zero_before_target_found K s k st :
  0 < K -> (1 <= k <= length s)%nat -> nth (k - 1) s 0 = 0 -> 2 * K <= st ->
  exists x, find_zc K s (Z.of_nat k * K) st = Ok x.
Proof. exact (find_zc_zero_before_target K s k st). Qed.
Print Assumptions C18_zero_before_target_found.

(* in particular on a silent recording, for every on-sample target after the first sample *)
Theorem C18_silence_found K s k st :
  0 < K -> Forall (fun x => x = 0) s -> (1 <= k <= length s)%nat -> 2 * K <= st ->
  exists x, find_zc K s (Z.of_nat k * K) st = Ok x.
Proof. exact (find_zc_silence K s k st). Qed.
Print Assumptions C18_silence_found.
