(* Props/C13.v -- property theorems for C13 (failed mutations change nothing).
   The non-mutation clause for copy-returning operations is about Python object
   identity and is monitored on the real objects; it has no theorem. *)
From PraatIO Require Import Textgrid.TgModel Textgrid.TgProofs Tier.TierOps.

(* addTier / removeTier / renameTier / replaceTier: if the call raises, the
   textgrid (tier list, order, span) is exactly as before.  The model follows the
   order of checks and writes of the source, including replaceTier's rollback. *)
Theorem C13_textgrid_mutators_all_or_nothing g o e g' :
  tg_inv g -> tg_step g o = (Some e, g') -> g' = g.
Proof. exact (tg_step_atomic g o e g'). Qed.
Print Assumptions C13_textgrid_mutators_all_or_nothing.

Theorem C13_add_fails_before_writing g t idx m e g' : add_step g t idx m = (Err e, g') -> g' = g.
Proof. exact (add_step_err g t idx m e g'). Qed.
Print Assumptions C13_add_fails_before_writing.

Theorem C13_replace_rolls_back g n t m e g' :
  tg_inv g -> replace_step g n t m = (Err e, g') -> g' = g.
Proof. exact (replace_step_err g n t m e g'). Qed.
Print Assumptions C13_replace_rolls_back.

Theorem C13_rename_rolls_back g a b e g' :
  tg_inv g -> rename_step g a b = (Err e, g') -> g' = g.
Proof. exact (rename_step_err g a b e g'). Qed.
Print Assumptions C13_rename_rolls_back.

(* the rollback re-adds a tier the span already covers: only the list changes *)
Theorem C13_rollback_keeps_span g t k :
  has_name g (tname t) = false -> covers_tier g t ->
  add_step g t (Some k) RSilence = (Ok tt, mkTG (py_insert (tiers g) k t) (tgmin g) (tgmax g)).
Proof. exact (add_step_covered g t k). Qed.
Print Assumptions C13_rollback_keeps_span.

(* tier-level mutators are modelled as functions of the old state: a failing
   call yields no new state, so the history semantics keeps the old one *)
Theorem C13_tier_mutator_failure_keeps_state t o e : run_opI t o = Err e -> stepI t o = t.
Proof. intro H. unfold stepI. now rewrite H. Qed.
Print Assumptions C13_tier_mutator_failure_keeps_state.
