(* Props/C02.v -- Written TextGrid files are well-formed.
   Property theorems only; proofs are in IO/RefProofs.v, IO/CodecProofs.v, IO/PrepProofs.v. *)
From Coq Require Import Lia String.
From PraatIO Require Import Check.IoCheck IO.CodecProofs IO.RefProofs IO.PrepProofs IO.RefFileProofs.
Open Scope Z_scope.

(* the specification reader decodes the string token written for a name or label to exactly
   that name or label -- for every string, the formats' own keywords included: a tokenizer
   is not fooled by quoted text *)
Theorem C02_written_string_decodes l rest :
  match rest with 34%N :: _ => False | _ => True end ->
  ref_string (S (length (esc l ++ 34%N :: rest))) (esc l ++ 34%N :: rest) [] = Some (l, rest).
Proof. exact (ref_string_quoted l rest). Qed.
Print Assumptions C02_written_string_decodes.

(* every double quote inside a written name or label is doubled *)
Theorem C02_quotes_doubled l : quotes_paired (esc l) = true.
Proof. exact (quotes_paired_esc l). Qed.
Print Assumptions C02_quotes_doubled.

(* with blank filling on, the entries written for a well-formed interval tier are an
   ascending, gap-free, overlap-free partition of the file's [xmin, xmax] *)
Theorem C02_blank_filled_partition minT maxT t :
  d_isint t = true -> chain minT (d_ents t) maxT -> (d_ents t <> [] \/ minT < maxT) ->
  exists t', prep_tier true minT maxT None t = Ok t' /\ partitionb minT (d_ents t') = Some maxT.
Proof.
  intros HI C NE. eexists. split; [exact (prep_tier_blanks minT maxT None t HI C NE I)|].
  exact (fill_spec_partition _ _ _ C).
Qed.
Print Assumptions C02_blank_filled_partition.

Theorem C02_blank_filled_partition_threshold minT maxT th t :
  d_isint t = true -> chain minT (d_ents t) maxT -> (d_ents t <> [] \/ minT < maxT) ->
  0 < snd th -> existsb (long th) (fill_spec minT (d_ents t) maxT) = true ->
  exists t', prep_tier true minT maxT (Some th) t = Ok t' /\ partitionb minT (d_ents t') = Some maxT.
Proof.
  intros HI C NE Hd HE. eexists. split; [exact (prep_tier_blanks minT maxT (Some th) t HI C NE (conj Hd HE))|].
  exact (proj1 (ultra_partition th Hd minT _ _ (fill_spec_partition _ _ _ C) HE)).
Qed.
Print Assumptions C02_blank_filled_partition_threshold.

(* since the repair of F19 the side condition on the lengths is gone: with any threshold the written tier is a
   partition of the span *)
Theorem C02_blank_filled_partition_any_threshold minT maxT th t :
  d_isint t = true -> chain minT (d_ents t) maxT -> (d_ents t <> [] \/ minT < maxT) -> 0 < snd th ->
  exists t', prep_tier true minT maxT (Some th) t = Ok t' /\ partitionb minT (d_ents t') = Some maxT.
Proof. exact (prep_tier_blanks_always minT maxT th t). Qed.
Print Assumptions C02_blank_filled_partition_any_threshold.

(* non-vacuity / sanity of the reference reader on a written file with keyword-like text *)
(* whole files: the specification reader (free-standing numbers, quoted strings, <flags>; every
   other word is comment) reads what the short writer and the long writer print to exactly the
   data -- every tier in order with its class, name, span and entries, declared sizes equal to the
   numbers of items, nothing left over -- for EVERY name and label (quotes, newlines, the formats'
   own keywords and field look-alikes included) and any number of tiers and entries.  The only
   premises: number tokens are number words, and an interval tier holds intervals, a point tier points. *)
Theorem C02_spec_reader_short_file tab g :
  tg_ref tab g = true -> forallb kinds_ok (dg_tiers g) = true ->
  ref_parse (print_short tab g) = Some (expect_tg tab g).
Proof. exact (ref_parse_short tab g). Qed.
Print Assumptions C02_spec_reader_short_file.

Theorem C02_spec_reader_long_file tab g :
  tg_ref tab g = true -> forallb kinds_ok (dg_tiers g) = true ->
  ref_parse (print_long tab g) = Some (expect_tg tab g).
Proof. exact (ref_parse_long tab g). Qed.
Print Assumptions C02_spec_reader_long_file.

(* the token stream itself: strings, numbers and the one flag, in file order *)
Theorem C02_tokens_of_long_file tab g :
  tg_ref tab g = true -> tokenize (print_long tab g) = Some (toks_tg tab g).
Proof. exact (tokenize_long tab g). Qed.
Print Assumptions C02_tokens_of_long_file.

Theorem C02_long_and_short_carry_same_data tab g :
  tg_ref tab g = true -> forallb kinds_ok (dg_tiers g) = true ->
  ref_parse (print_long tab g) = ref_parse (print_short tab g).
Proof. exact (ref_long_short_agree tab g). Qed.
Print Assumptions C02_long_and_short_carry_same_data.

(* non-vacuity: labels and a name made of the formats' own keywords *)
Example C02_file_example :
  let tab := [(0, mkNum true (T "0") (T "0.0")); (1, mkNum false (T "1") (T "1.5")); (2, mkNum false (T "2") (T "2.25e-05"))]%Z in
  let g := mkDTG 0 2 [mkDT true (T "item [1]: ""IntervalTier""") 0 2 [DI 0 1 (T "intervals [2]: xmin = 3 "); DI 1 2 (T """TextTier"" 7 <exists>")];
                      mkDT false (T "p") 0 2 [DP 1 [34%N; 10%N; 33%N]]]%Z in
  tg_ref tab g = true /\ forallb kinds_ok (dg_tiers g) = true
  /\ ref_parse (print_long tab g) = Some (expect_tg tab g) /\ ref_parse (print_short tab g) = Some (expect_tg tab g).
Proof. vm_compute. repeat split; reflexivity. Qed.

Example C02_example :
  let tab := [(0, mkNum true (T "0") (T "0.0")); (1, mkNum false (T "1") (T "1.5"))] in
  let g := mkDTG 0 1 [mkDT true (T "item [2]:") 0 1 [DI 0 1 (T """IntervalTier""")]] in
  C02oracle (RefRead tab g (print_short tab g)) = true /\ C02oracle (RefRead tab g (print_long tab g)) = true.
Proof. vm_compute. split; reflexivity. Qed.
