(* Props/C02.v -- Written TextGrid files are well-formed.
   Property theorems only; proofs are in IO/RefProofs.v, IO/CodecProofs.v, IO/PrepProofs.v. *)
From Coq Require Import Lia String.
From PraatIO Require Import Check.IoCheck IO.CodecProofs IO.RefProofs IO.PrepProofs.
Open Scope Z_scope.

(* the specification reader decodes the string token written for a name or label to exactly
   that name or label -- for every string, the formats' own keywords included: a tokenizer
   is not fooled by quoted text *)
Theorem C02_written_string_decodes l rest :
  match rest with 34%N :: _ => False | _ => True end ->
  ref_string (S (length (esc l ++ 34%N :: rest))) (esc l ++ 34%N :: rest) [] = Some (l, rest).
Proof. exact (ref_string_quoted l rest). Qed.
Print Assumptions C02_written_string_decodes.

(* every double quote inside a written name or label is doubled *)
Theorem C02_quotes_doubled l : quotes_paired (esc l) = true.
Proof. exact (quotes_paired_esc l). Qed.
Print Assumptions C02_quotes_doubled.

(* with blank filling on, the entries written for a well-formed interval tier are an
   ascending, gap-free, overlap-free partition of the file's [xmin, xmax] *)
Theorem C02_blank_filled_partition minT maxT t :
  d_isint t = true -> chain minT (d_ents t) maxT -> (d_ents t <> [] \/ minT < maxT) ->
  exists t', prep_tier true minT maxT None t = Ok t' /\ partitionb minT (d_ents t') = Some maxT.
Proof.
  intros HI C NE. eexists. split; [exact (prep_tier_blanks minT maxT None t HI C NE I)|].
  exact (fill_spec_partition _ _ _ C).
Qed.
Print Assumptions C02_blank_filled_partition.

Theorem C02_blank_filled_partition_threshold minT maxT th t :
  d_isint t = true -> chain minT (d_ents t) maxT -> (d_ents t <> [] \/ minT < maxT) ->
  0 < snd th -> existsb (long th) (fill_spec minT (d_ents t) maxT) = true ->
  exists t', prep_tier true minT maxT (Some th) t = Ok t' /\ partitionb minT (d_ents t') = Some maxT.
Proof.
  intros HI C NE Hd HE. eexists. split; [exact (prep_tier_blanks minT maxT (Some th) t HI C NE (conj Hd HE))|].
  exact (proj1 (ultra_partition th Hd minT _ _ (fill_spec_partition _ _ _ C) HE)).
Qed.
Print Assumptions C02_blank_filled_partition_threshold.

(* non-vacuity / sanity of the reference reader on a written file with keyword-like text *)
Example C02_example :
  let tab := [(0, mkNum true (T "0") (T "0.0")); (1, mkNum false (T "1") (T "1.5"))] in
  let g := mkDTG 0 1 [mkDT true (T "item [2]:") 0 1 [DI 0 1 (T """IntervalTier""")]] in
  C02oracle (RefRead tab g (print_short tab g)) = true /\ C02oracle (RefRead tab g (print_long tab g)) = true.
Proof. vm_compute. split; reflexivity. Qed.
