(* Props/C09.v -- property theorems for C09 (editTimestamps, appendTier). *)
From PraatIO Require Import Tier.TierModel Tier.CtorProofs Tier.EraseProofs Tier.EditProofs Textgrid.TgModel Textgrid.TgProofs Textgrid.TgAppendProofs.

Theorem C09_edit_entries o l : filter_map (edit1 o) l = edit_spec_ents o l.
Proof. exact (edit_entries o l). Qed.
Print Assumptions C09_edit_entries.

(* total on every wf tier (empty tiers and tiers that become empty included)
   unless asked to raise; explicit entries and span *)
Theorem C09_edit_total_and_explicit t o mode :
  wf_itier t -> (mode = RError -> edit_i_reports t o = false) ->
  edit_i t o mode =
  Ok (mkIT (iname t) (edit_spec_ents o (ients t))
           (hull_min (edit_spec_ents o (ients t)) (imin t))
           (hull_max (edit_spec_ents o (ients t)) (imax t))).
Proof. exact (edit_i_ok t o mode). Qed.
Print Assumptions C09_edit_total_and_explicit.

Theorem C09_error_mode_raises_iff t o :
  edit_i t o RError = Err OutOfBounds <->
  exists i, In i (ients t) /\ (istart i + o < imin t \/ imax t < iend i + o).
Proof. exact (edit_i_error_iff t o). Qed.
Print Assumptions C09_error_mode_raises_iff.

Theorem C09_span_never_shrinks t o mode t' :
  wf_itier t -> edit_i t o mode = Ok t' -> imin t' <= imin t /\ imax t <= imax t'.
Proof. exact (edit_span_never_shrinks t o mode t'). Qed.
Print Assumptions C09_span_never_shrinks.

Theorem C09_pure_shift_when_nothing_clipped o l :
  Forall pos l -> Forall (fun i => 0 <= istart i + o) l -> edit_spec_ents o l = map (shift o) l.
Proof. exact (edit_pure_shift o l). Qed.
Print Assumptions C09_pure_shift_when_nothing_clipped.

Theorem C09_shift_roundtrip o l :
  Forall pos l -> Forall (fun i => 0 <= istart i) l -> Forall (fun i => 0 <= istart i + o) l ->
  edit_spec_ents (- o) (edit_spec_ents o l) = l.
Proof. exact (edit_roundtrip o l). Qed.
Print Assumptions C09_shift_roundtrip.

Theorem C09_append_tier A B :
  wf_itier A -> wf_itier B -> imin A <= imax A -> 0 <= imax A -> 0 <= imin B -> 0 <= imax B ->
  append_i A B =
  Ok (mkIT (iname A) (ients A ++ map (shift (imax A)) (ients B)) (imin A) (imax A + imax B)).
Proof. exact (append_i_ok A B). Qed.
Print Assumptions C09_append_tier.

(* Textgrid.editTimestamps: the same tiers under the same names in the same order, every tier
   that tier's own editTimestamps (a tier without entries is carried over as it is), and the
   textgrid's span never shrinks *)
Theorem C09_textgrid_edit_tierwise g o m g' :
  tg_edit g o m = Ok g' ->
  names g' = names g
  /\ Forall2 (fun t t' => edit_or_keep t o m = Ok t') (tiers g) (tiers g')
  /\ span_le g g'.
Proof. exact (tg_edit_tierwise g o m g'). Qed.
Print Assumptions C09_textgrid_edit_tierwise.

(* Textgrid.appendTextgrid: which tiers come back and in which order -- with onlyMatchingNames
   the tiers of A that B also has, in A's order; without it A's tiers followed by the tiers only
   B has, in B's order *)
Theorem C09_append_textgrid_tiers A B only g' :
  NoDup (names A) -> NoDup (names B) -> tg_append A B only = Ok g' ->
  names g' = (if only then filter (fun n => name_in n (names B)) (names A)
              else names A ++ filter (fun n => negb (name_in n (names A))) (names B)).
Proof. exact (tg_append_names A B only g'). Qed.
Print Assumptions C09_append_textgrid_tiers.

(* ... and the result has unique tier names again *)
Theorem C09_append_textgrid_names_unique A B only g' :
  NoDup (names A) -> NoDup (names B) -> tg_append A B only = Ok g' -> NoDup (names g').
Proof. exact (tg_append_nodup A B only g'). Qed.
Print Assumptions C09_append_textgrid_names_unique.

(* ... and what each tier of the result is: a tier only A has is A's tier as it was; a tier B has is B's tier given the
   joint span [A.min, A.max + B.max] and moved by A's duration with editTimestamps -- every entry by exactly that
   amount (C09_pure_shift_when_nothing_clipped: nothing is clipped by a non-negative offset) -- and, when A has a tier
   of that name, appended to A's entries of that name *)
Theorem C09_append_textgrid_tier A B only g' n mn ma mb :
  NoDup (names A) -> NoDup (names B) ->
  tgmin A = Some mn -> tgmax A = Some ma -> tgmax B = Some mb ->
  tg_append A B only = Ok g' -> In n (final_names A B only) ->
  appended ma mn (ma + mb) B (find_tier n (tiers A)) n (find_tier n (tiers g')).
Proof. exact (tg_append_tier A B only g' n mn ma mb). Qed.
Print Assumptions C09_append_textgrid_tier.
