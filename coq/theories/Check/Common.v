(* Check/Common.v -- helpers shared by the boolean oracles. *)
From PraatIO Require Export Tier.TierModel.

Lemma res_eqb_eq {A} (eqb : A -> A -> bool) (H : forall x y, eqb x y = true <-> x = y) r s :
  res_eqb eqb r s = true <-> r = s.
Proof.
  destruct r, s; simpl; split; intro E; try discriminate.
  - apply H in E; congruence.
  - inversion E; subst; apply H; reflexivity.
  - apply err_eqb_eq in E; congruence.
  - inversion E; subst; apply err_eqb_eq; reflexivity.
Qed.

Definition olab_eqb := option_eqb text_eqb.

(* all boundaries of an entry list *)
Definition bounds (l : list interval) : list Z := flat_map (fun i => [istart i; iend i]) l.

(* two label functions agree at every sample point p and p-1 *)
Definition labfun_eqb (f g : Z -> option text) (pts : list Z) : bool :=
  forallb (fun p => olab_eqb (f p) (g p) && olab_eqb (f (p - 1)) (g (p - 1))) pts.

Definition mem_i (i : interval) (l : list interval) : bool := existsb (interval_eqb i) l.
Definition mem_p (p : point) (l : list point) : bool := existsb (point_eqb p) l.

Lemma mem_i_In i l : mem_i i l = true <-> In i l.
Proof.
  unfold mem_i. rewrite existsb_exists. split.
  - intros (j & Hj & E). apply interval_eqb_eq in E. now subst.
  - intro H. exists i. split; [exact H|apply interval_eqb_eq; reflexivity].
Qed.

Definition is_err {A} (e : err) (r : res A) : bool :=
  match r with Err e' => err_eqb e e' | Ok _ => false end.

Fixpoint sorted_strictb (l : list Z) : bool :=
  match l with
  | x :: l' => match l' with y :: _ => (x <? y) && sorted_strictb l' | [] => true end
  | [] => true
  end.
