(* Check/C12Check.v -- correspondence and oracle for C12 / C13 (Textgrid mutators). *)
From PraatIO Require Export Check.Common Textgrid.TgModel.
From PraatIO Require Import Textgrid.TgProofs.

Definition oerr_eqb12 := option_eqb err_eqb.

Inductive C12case :=
(* a history of mutators on one Textgrid object; after every call: outcome,
   state of the object, whether a warning was printed *)
| TgHist (g : tg) (steps : list (tgop * (option err * tg * bool)))
(* atomicity of tier-level mutators (C13): state after a single call *)
| TierCallI (t : itier) (o : opI) (oe : option err) (after : itier)
| TierCallP (t : ptier) (o : opP) (oe : option err) (after : ptier)
(* the copy-returning textgrid-level edits: the whole textgrid that came back *)
| TgCropC (g : tg) (a b : Z) (m : cropmode) (r : bool) (out : res tg)
| TgEraseC (g : tg) (a b : Z) (s : bool) (out : res tg)
| TgSpaceC (g : tg) (s d : Z) (m : spacemode) (out : res tg).

Definition step_reports (g : tg) (o : tgop) : bool :=
  match o with
  | TAdd t _ m => add_reports g t m
  | TReplace n t m =>
      match m with
      | RWarning => add_reports (mkTG (remove_named n (tiers g)) (tgmin g) (tgmax g)) t m
                    && existsb (fun u => text_eqb (tname u) n) (tiers g)
      | _ => false end
  | _ => false
  end.

Fixpoint tghist_corr (g : tg) (steps : list (tgop * (option err * tg * bool))) : bool :=
  match steps with
  | [] => true
  | (o, (oe, after, pr)) :: rest =>
      (let '(oe', g') := tg_step g o in oerr_eqb12 oe oe' && tg_eqb g' after)
      && tghist_corr after rest
  end.

Definition C12corr (c : C12case) : bool :=
  match c with
  | TgHist g steps => tghist_corr g steps
  | TierCallI t o oe after =>
      match run_opI t o with
      | Ok t' => oerr_eqb12 oe None && itier_eqb t' after
      | Err e => oerr_eqb12 oe (Some e) && itier_eqb t after end
  | TierCallP t o oe after =>
      match run_opP t o with
      | Ok t' => oerr_eqb12 oe None && ptier_eqb t' after
      | Err e => oerr_eqb12 oe (Some e) && ptier_eqb t after end
  | TgCropC g a b m r out => res_eqb tg_eqb (tg_crop g a b m r) out
  | TgEraseC g a b s out => res_eqb tg_eqb (tg_erase g a b s) out
  | TgSpaceC g s d m out => res_eqb tg_eqb (tg_space g s d m) out
  end.

Definition span_leb (g g' : tg) : bool :=
  (match tgmin g, tgmin g' with Some a, Some a' => a' <=? a | None, _ => true | Some _, None => false end)
  && (match tgmax g, tgmax g' with Some b, Some b' => b <=? b' | None, _ => true | Some _, None => false end).

(* C12: against the plain ordered-list model *)
Fixpoint tghist_list_oracle (g : tg) (steps : list (tgop * (option err * tg * bool))) : bool :=
  match steps with
  | [] => true
  | (o, (oe, after, _)) :: rest =>
      (match oe with
       | None => list_eqb tier_eqb (tiers after) (spec_step (tiers g) o)
                 && negb (spec_rejects (tiers g) o)
       | Some e =>
           list_eqb tier_eqb (tiers after) (tiers g)
           (* a duplicate name is rejected with the documented error *)
           && (match o with
               | TAdd t _ _ => if spec_rejects (tiers g) o then err_eqb e TierNameExistsError
                               else err_eqb e TextgridStateAutoModified
               | _ => true end)
       end)
      && nodupb (map tname (tiers after))
      && span_leb g after
      && tghist_list_oracle after rest
  end.

(* the copy-returning edits act tier by tier: same names in the same order, each tier the result of
   that tier's own method, all tiers and the textgrid sharing one span *)
Fixpoint forall2b12 {A B} (f : A -> B -> bool) (l : list A) (m : list B) : bool :=
  match l, m with
  | [], [] => true
  | x :: l', y :: m' => f x y && forall2b12 f l' m'
  | _, _ => false
  end.

Definition tierwise_oracle (f : tier -> res tier) (g : tg) (out : res tg) (shared_span : bool) : bool :=
  match out with
  | Ok g' =>
      forall2b12 (fun t t' => res_eqb tier_eqb (f t) (Ok t')) (tiers g) (tiers g')
      && (negb shared_span
          || forallb (fun t' => option_eqb Z.eqb (Some (tmin t')) (tgmin g') && option_eqb Z.eqb (Some (tmax t')) (tgmax g')) (tiers g'))
  | Err _ => true
  end.

Definition C12oracle (c : C12case) : bool :=
  match c with
  | TgHist g steps => tghist_list_oracle g steps
  | TgCropC g a b m r out =>
      (* strict / truncated: all tiers share the textgrid's span; lax widens each tier just enough *)
      tierwise_oracle (fun t => crop_tier t a b m r) g out (match m with Lax => false | _ => true end)
  | TgEraseC g a b s out => tierwise_oracle (fun t => erase_tier t a b s) g out false
  | TgSpaceC g s d m out => tierwise_oracle (fun t => space_tier t s d m) g out false
  | _ => true
  end.

(* C13: a call that raises leaves the object exactly as it was *)
Fixpoint tghist_atomic_oracle (g : tg) (steps : list (tgop * (option err * tg * bool))) : bool :=
  match steps with
  | [] => true
  | (o, (oe, after, _)) :: rest =>
      (match oe with Some _ => tg_eqb after g | None => true end)
      && tghist_atomic_oracle after rest
  end.

Definition C13oracle (c : C12case) : bool :=
  match c with
  | TgHist g steps => tghist_atomic_oracle g steps
  | TierCallI t _ oe after => match oe with Some _ => itier_eqb after t | None => true end
  | TierCallP t _ oe after => match oe with Some _ => ptier_eqb after t | None => true end
  | _ => true
  end.

Definition C12hyp (c : C12case) : bool :=
  match c with
  | TgHist g _ => nodupb (map tname (tiers g))
  | TierCallI t _ _ _ => wf_itierb t
  | TierCallP t _ _ _ => wf_ptierb t
  | TgCropC g _ _ _ _ _ | TgEraseC g _ _ _ _ | TgSpaceC g _ _ _ _ => nodupb (map tname (tiers g))
  end.
