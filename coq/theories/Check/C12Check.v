(* Check/C12Check.v -- correspondence and oracle for C12 / C13 (Textgrid mutators). *)
From PraatIO Require Export Check.Common Textgrid.TgModel.
From PraatIO Require Import Textgrid.TgProofs.

Definition oerr_eqb12 := option_eqb err_eqb.

Inductive C12case :=
(* a history of mutators on one Textgrid object; after every call: outcome,
   state of the object, whether a warning was printed *)
| TgHist (g : tg) (steps : list (tgop * (option err * tg * bool)))
(* atomicity of tier-level mutators (C13): state after a single call *)
| TierCallI (t : itier) (o : opI) (oe : option err) (after : itier)
| TierCallP (t : ptier) (o : opP) (oe : option err) (after : ptier).

Definition step_reports (g : tg) (o : tgop) : bool :=
  match o with
  | TAdd t _ m => add_reports g t m
  | TReplace n t m =>
      match m with
      | RWarning => add_reports (mkTG (remove_named n (tiers g)) (tgmin g) (tgmax g)) t m
                    && existsb (fun u => text_eqb (tname u) n) (tiers g)
      | _ => false end
  | _ => false
  end.

Fixpoint tghist_corr (g : tg) (steps : list (tgop * (option err * tg * bool))) : bool :=
  match steps with
  | [] => true
  | (o, (oe, after, pr)) :: rest =>
      (let '(oe', g') := tg_step g o in oerr_eqb12 oe oe' && tg_eqb g' after)
      && tghist_corr after rest
  end.

Definition C12corr (c : C12case) : bool :=
  match c with
  | TgHist g steps => tghist_corr g steps
  | TierCallI t o oe after =>
      match run_opI t o with
      | Ok t' => oerr_eqb12 oe None && itier_eqb t' after
      | Err e => oerr_eqb12 oe (Some e) && itier_eqb t after end
  | TierCallP t o oe after =>
      match run_opP t o with
      | Ok t' => oerr_eqb12 oe None && ptier_eqb t' after
      | Err e => oerr_eqb12 oe (Some e) && ptier_eqb t after end
  end.

Definition span_leb (g g' : tg) : bool :=
  (match tgmin g, tgmin g' with Some a, Some a' => a' <=? a | None, _ => true | Some _, None => false end)
  && (match tgmax g, tgmax g' with Some b, Some b' => b <=? b' | None, _ => true | Some _, None => false end).

(* C12: against the plain ordered-list model *)
Fixpoint tghist_list_oracle (g : tg) (steps : list (tgop * (option err * tg * bool))) : bool :=
  match steps with
  | [] => true
  | (o, (oe, after, _)) :: rest =>
      (match oe with
       | None => list_eqb tier_eqb (tiers after) (spec_step (tiers g) o)
                 && negb (spec_rejects (tiers g) o)
       | Some e =>
           list_eqb tier_eqb (tiers after) (tiers g)
           (* a duplicate name is rejected with the documented error *)
           && (match o with
               | TAdd t _ _ => if spec_rejects (tiers g) o then err_eqb e TierNameExistsError
                               else err_eqb e TextgridStateAutoModified
               | _ => true end)
       end)
      && nodupb (map tname (tiers after))
      && span_leb g after
      && tghist_list_oracle after rest
  end.

Definition C12oracle (c : C12case) : bool :=
  match c with
  | TgHist g steps => tghist_list_oracle g steps
  | _ => true
  end.

(* C13: a call that raises leaves the object exactly as it was *)
Fixpoint tghist_atomic_oracle (g : tg) (steps : list (tgop * (option err * tg * bool))) : bool :=
  match steps with
  | [] => true
  | (o, (oe, after, _)) :: rest =>
      (match oe with Some _ => tg_eqb after g | None => true end)
      && tghist_atomic_oracle after rest
  end.

Definition C13oracle (c : C12case) : bool :=
  match c with
  | TgHist g steps => tghist_atomic_oracle g steps
  | TierCallI t _ oe after => match oe with Some _ => itier_eqb after t | None => true end
  | TierCallP t _ oe after => match oe with Some _ => ptier_eqb after t | None => true end
  end.

Definition C12hyp (c : C12case) : bool :=
  match c with
  | TgHist g _ => nodupb (map tname (tiers g))
  | TierCallI t _ _ _ => wf_itierb t
  | TierCallP t _ _ _ => wf_ptierb t
  end.
