(* Check/C10Check.v -- correspondence and oracle for C10 (set operations). *)
From PraatIO Require Export Check.Common Textgrid.TgModel.
From PraatIO Require Import Tier.CtorProofs Tier.CropProofs Tier.SetProofs.

Inductive setop := OUnion | ODifference | OIntersection | OMergeLabels.

Inductive C10case :=
| SetI (op : setop) (A B : itier) (out : res itier)
| UnionP (A B : ptier) (out : res ptier)
(* Textgrid.mergeTiers: the textgrid that came back *)
| TgMergeC (g : tg) (sel : option (list text)) (keep : bool) (out : res tg).

Definition run_setop (op : setop) (A B : itier) : res itier :=
  match op with
  | OUnion => union_i A B
  | ODifference => difference_i A B
  | OIntersection => intersection_i A B
  | OMergeLabels => merge_labels_i A B
  end.

Definition C10corr (c : C10case) : bool :=
  match c with
  | SetI op A B out => res_eqb itier_eqb (run_setop op A B) out
  | UnionP A B out => res_eqb ptier_eqb (union_p A B) out
  | TgMergeC g sel keep out => res_eqb tg_eqb (tg_merge g sel keep) out
  end.

(* ---- specifications from the property text ---- *)

(* union: sweep over all entries in time order, fusing while they overlap *)
Fixpoint sweep_from (s e : Z) (labs : list text) (l : list interval) : list interval :=
  match l with
  | [] => [mkI s e (join DASH (rev labs))]
  | i :: l' =>
      if istart i <? e then sweep_from s (Z.max e (iend i)) (ilabel i :: labs) l'
      else mkI s e (join DASH (rev labs)) :: sweep_from (istart i) (iend i) [ilabel i] l'
  end.
Definition union_spec_ents (A B : list interval) : list interval :=
  match isorti (A ++ B) with
  | [] => []
  | i :: l => sweep_from (istart i) (iend i) [ilabel i] l
  end.

Definition overlap_pairb (i j : interval) : bool := (Z.max (istart i) (istart j) <? Z.min (iend i) (iend j)).

Definition inter_spec_ents (A B : list interval) : list interval :=
  isorti (flat_map (fun i => flat_map (fun j =>
      if overlap_pairb i j
      then [mkI (Z.max (istart i) (istart j)) (Z.min (iend i) (iend j)) (ilabel i ++ DASH ++ ilabel j)]
      else []) B) A).

Definition merge_labels_spec_ents (A B : list interval) : list interval :=
  flat_map (fun i =>
    match filter (overlap_pairb i) B with
    | [] => []
    | bs => [mkI (istart i) (iend i) (ilabel i ++ LPAREN ++ join COMMA (map ilabel bs) ++ RPAREN)]
    end) A.

Definition set_oracle (op : setop) (A B : itier) (out : res itier) : bool :=
  match out with
  | Err _ => false
  | Ok t' =>
      let r := ients t' in
      let pts := bounds r ++ bounds (ients A) ++ bounds (ients B) in
      wf_itierb t'
      && match op with
         | ODifference =>
             text_eqb (iname t') (iname A) && (imin t' =? imin A) && (imax t' =? imax A)
             && labfun_eqb (lab_at r)
                  (fun x => if covered (ients B) x then None else lab_at (ients A) x) pts
         | OIntersection =>
             text_eqb (iname t') (iname A ++ DASH ++ iname B)
             && ients_eqb r (inter_spec_ents (ients A) (ients B))
             && forallb (fun p => Bool.eqb (covered r p) (covered (ients A) p && covered (ients B) p)
                               && Bool.eqb (covered r (p - 1)) (covered (ients A) (p - 1) && covered (ients B) (p - 1))) pts
         | OUnion =>
             text_eqb (iname t') (iname A)
             && ients_eqb r (union_spec_ents (ients A) (ients B))
             && forallb (fun p => Bool.eqb (covered r p) (covered (ients A) p || covered (ients B) p)
                               && Bool.eqb (covered r (p - 1)) (covered (ients A) (p - 1) || covered (ients B) (p - 1))) pts
             && (imin t' =? Z.min (imin A) (fold_left Z.min (map istart (ients B)) (imin A)))
             && (imax t' =? Z.max (imax A) (fold_left Z.max (map iend (ients B)) (imax A)))
         | OMergeLabels =>
             text_eqb (iname t') (iname A ++ DASH ++ iname B)
             && ients_eqb r (merge_labels_spec_ents (ients A) (ients B))
         end
  end.

(* point union for tiers with distinct times *)
Definition punion_spec_ents (A B : list point) : list point :=
  isortp (map (fun p => match find_time (ptime p) B with
                        | Some q => mkP (ptime p) (plabel p ++ DASH ++ plabel q)
                        | None => p end) A
          ++ filter (fun q => match find_time (ptime q) A with Some _ => false | None => true end) B).

Definition punion_oracle (A B : ptier) (out : res ptier) : bool :=
  match out with
  | Err _ => false
  | Ok t' => text_eqb (pname t') (pname A) && pents_eqb (pents t') (punion_spec_ents (pents A) (pents B))
  end.

(* Textgrid.mergeTiers: the unselected tiers (if kept) as they were and in their order, then one
   interval tier named after the first selected interval tier covering every selected interval,
   then one point tier named after the first selected point tier holding every selected point time *)
Definition merge_oracle (g : tg) (sel : option (list text)) (keep : bool) (out : res tg) : bool :=
  let names_sel := match sel with Some l => l | None => names g end in
  let picked := filter_map (fun n => find_tier n (tiers g)) names_sel in
  let its := filter_map (fun t => match t with TI x => Some x | TP _ => None end) picked in
  let pts := filter_map (fun t => match t with TP x => Some x | TI _ => None end) picked in
  let others := if keep then filter (fun t => negb (name_in (tname t) names_sel)) (tiers g) else [] in
  match out with
  | Err _ => negb (forallb (fun n => name_in n (names g)) names_sel)
  | Ok g' =>
      let k := length others in
      list_eqb tier_eqb (firstn k (tiers g')) others
      && (match its, pts, skipn k (tiers g') with
          | [], [], [] => true
          | a :: _, [], [TI m] => text_eqb (iname m) (iname a)
          | [], b :: _, [TP q] => text_eqb (pname q) (pname b)
          | a :: _, b :: _, [TI m; TP q] => text_eqb (iname m) (iname a) && text_eqb (pname q) (pname b)
          | _, _, _ => false
          end)
      && forallb (fun t' => match t' with
                            | TI m => forallb (fun a => forallb (fun i => existsb (fun j => (istart j <=? istart i) && (iend i <=? iend j)) (ients m)) (ients a)) its
                            | TP q => forallb (fun b => forallb (fun p => existsb (fun r => ptime r =? ptime p) (pents q)) (pents b)) pts
                            end) (skipn k (tiers g'))
  end.

Definition C10oracle (c : C10case) : bool :=
  match c with
  | SetI op A B out => set_oracle op A B out
  | UnionP A B out => punion_oracle A B out
  | TgMergeC g sel keep out => merge_oracle g sel keep out
  end.

Definition C10hyp (c : C10case) : bool :=
  match c with
  | SetI _ A B _ => wf_itierb A && wf_itierb B
  | UnionP A B _ => wf_ptierb A && wf_ptierb B
  | TgMergeC _ _ _ _ => true
  end.
