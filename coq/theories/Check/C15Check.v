(* Check/C15Check.v -- correspondence and oracle for C15 (queries and derived views). *)
From PraatIO Require Export Check.Common Tier.QueryModel.
From PraatIO Require Import Tier.CtorProofs Tier.SetProofs.

Definition row_eqb (a b : row) : bool := (fst a =? fst b) && (snd a =? snd b).
Definition rows_eqb := list_eqb row_eqb.
Definition natlist_eqb := list_eqb Nat.eqb.

Inductive C15case :=
| FindI (t : itier) (q : text) (substr : bool) (out : list nat)
| FindP (t : ptier) (q : text) (substr : bool) (out : list nat)
| NonEntries (t : itier) (out : res (list interval))
| ValuesIn (t : itier) (data : list row) (out : list (interval * list row))
| ValuesAt (t : ptier) (data : list row) (fuzzy : bool) (out : res (list (option row)))
| OverlapChk (s e cs ce pn pd tthr : Z) (incl : bool) (out : bool)
| Invert (input : list row) (mn mx : option Z) (out : res (list row))
| ValidateI (t : itier) (out : bool)
| ValidateP (t : ptier) (out : bool)
(* tier.timestamps *)
| TsI (t : itier) (ts : list Z)
| TsP (t : ptier) (ts : list Z).

Definition values_at (t : ptier) (data : list row) (fuzzy : bool) : res (list (option row)) :=
  let sorted := isort rleb data in
  let pts := map ptime (pents t) in
  if fuzzy then do l <- gvap_fuzzy pts sorted 0; Ok (map Some l)
  else Ok (gvap_exact pts sorted 0).

Definition vin_eqb (a b : list (interval * list row)) : bool :=
  list_eqb (fun x y => interval_eqb (fst x) (fst y) && rows_eqb (snd x) (snd y)) a b.

Definition C15corr (c : C15case) : bool :=
  match c with
  | FindI t q s out => natlist_eqb (find_i t q s) out
  | FindP t q s out => natlist_eqb (find_p t q s) out
  | NonEntries t out => res_eqb ients_eqb (non_entries t) out
  | ValuesIn t data out => vin_eqb (values_in_intervals t data) out
  | ValuesAt t data f out => res_eqb (list_eqb (option_eqb row_eqb)) (values_at t data f) out
  | OverlapChk s e cs ce pn pd th incl out => Bool.eqb (overlap_check s e cs ce pn pd th incl) out
  | Invert input mn mx out => res_eqb rows_eqb (invert_list input mn mx) out
  | ValidateI t out => Bool.eqb (validate_i t) out
  | ValidateP t out => Bool.eqb (validate_p t) out
  | TsI t ts => list_eqb Z.eqb (timestamps_i t) ts
  | TsP t ts => list_eqb Z.eqb (timestamps_p t) ts
  end.

(* ---- definitions from the property text ---- *)

Fixpoint idx_where {A} (p : A -> bool) (n : nat) (l : list A) : list nat :=
  match l with [] => [] | x :: l' => (if p x then [n] else []) ++ idx_where p (S n) l' end.

Definition rcovered (l : list row) (x : Z) : bool := existsb (fun r => (fst r <=? x) && (x <? snd r)) l.

Definition rows_sorted_disj (l : list row) : bool :=
  (fix go (l : list row) : bool :=
     match l with
     | a :: l' => (fst a <? snd a) && match l' with b :: _ => snd a <=? fst b | [] => true end && go l'
     | [] => true end) l.

Definition nearest_rows (t : Z) (data : list row) : list row :=
  filter (fun r => forallb (fun r' => Z.abs (fst r - t) <=? Z.abs (fst r' - t)) data) data.

Definition C15oracle (c : C15case) : bool :=
  match c with
  | FindI t q s out =>
      natlist_eqb out (idx_where (fun i => if s then contains q (ilabel i) else text_eqb (ilabel i) q) 0 (ients t))
  | FindP t q s out =>
      natlist_eqb out (idx_where (fun p => if s then contains q (plabel p) else text_eqb (plabel p) q) 0 (pents t))
  | NonEntries t out =>
      match ients t, out with
      | [], _ => true                             (* property speaks of tiers with entries *)
      | _ :: _, Err _ => false
      | _ :: _, Ok ne =>
          forallb posb ne && forallb (fun i => text_eqb (ilabel i) []) ne
          && sorted_disjb (isorti (ne ++ ients t))
          && forallb (fun p =>
                 Bool.eqb (covered ne p) ((0 <=? p) && (p <? imax t) && negb (covered (ients t) p))
              && Bool.eqb (covered ne (p - 1)) ((0 <=? p - 1) && (p - 1 <? imax t) && negb (covered (ients t) (p - 1))))
               (0 :: imax t :: bounds ne ++ bounds (ients t))
      end
  | ValuesIn t data out =>
      vin_eqb out (map (fun i => (i, filter (fun d => (istart i <=? fst d) && (fst d <=? iend i)) data)) (ients t))
  | ValuesAt t data fuzzy out =>
      match out with
      | Err _ => fuzzy && match data with [] => true | _ => false end
      | Ok rows =>
          (length rows =? length (pents t))%nat
          && forallb (fun pr =>
                match snd pr with
                | Some r => existsb (row_eqb r) data
                            && (if fuzzy then true else fst r =? ptime (fst pr))
                | None => negb fuzzy && negb (existsb (fun r => fst r =? ptime (fst pr)) data)
                end) (combine (pents t) rows)
          (* fuzzy: the row is a nearest one when the points are visited in time order
             over time-sorted data (first point: nearest overall) *)
          && (if fuzzy then
                match pents t, rows with
                | p0 :: _, Some r0 :: _ => existsb (row_eqb r0) (nearest_rows (ptime p0) data)
                | _, _ => true end
              else true)
      end
  | OverlapChk s e cs ce pn pd th incl out =>
      let ot := Z.min e ce - Z.max s cs in
      if (pn =? 0) && (th =? 0) then
        Bool.eqb out ((0 <? ot) || (incl && ((s =? ce) || (e =? cs))))
      else if (pn =? 0) && negb incl then Bool.eqb out ((0 <? ot) && (th <=? ot))
      else if (th =? 0) && negb incl then
        Bool.eqb out ((0 <? ot) && (pn * (Z.max e ce - Z.min s cs) <=? ot * pd))
      else true
  | Invert input mn mx out =>
      if existsb (fun r => snd r <=? fst r) input then is_err ArgumentError out
      else match mn, mx with
      | Some a, Some b =>
          let l := isort pleb2 input in
          if rows_sorted_disj l && forallb (fun r => (a <=? fst r) && (snd r <=? b)) l then
            match out with
            | Err _ => false
            | Ok inv =>
                rows_sorted_disj inv
                && forallb (fun p => Bool.eqb (rcovered inv p) ((a <=? p) && (p <? b) && negb (rcovered l p))
                                  && Bool.eqb (rcovered inv (p - 1)) ((a <=? p - 1) && (p - 1 <? b) && negb (rcovered l (p - 1))))
                     (a :: b :: flat_map (fun r => [fst r; snd r]) (inv ++ l))
            end
          else true
      | _, _ => true
      end
  | ValidateI t out =>
      Bool.eqb out (sorted_disjb (ients t) && forallb (in_spanb (imin t) (imax t)) (ients t))
  | ValidateP t out =>
      Bool.eqb out (psortedb (pents t) && forallb (fun p => (pmin t <=? ptime p) && (ptime p <=? pmax t)) (pents t))
  | TsI t ts =>
      (* the sorted set of all boundary times of the tier as it is now *)
      sorted_strictb ts && forallb (fun x => existsb (Z.eqb x) ts) (bounds (ients t))
      && forallb (fun x => existsb (Z.eqb x) (bounds (ients t))) ts
  | TsP t ts =>
      sorted_strictb ts && forallb (fun x => existsb (Z.eqb x) ts) (map ptime (pents t))
      && forallb (fun x => existsb (Z.eqb x) (map ptime (pents t))) ts
  end.

Definition C15hyp (c : C15case) : bool :=
  match c with
  | FindI t _ _ _ | NonEntries t _ | ValuesIn t _ _ => wf_itierb t
  | FindP t _ _ _ | ValuesAt t _ _ _ => wf_ptierb t
  | _ => true
  end.
