(* Check/C08Check.v -- correspondence and oracle for C08 (insertSpace, inverse). *)
From PraatIO Require Export Check.Common.
From PraatIO Require Import Tier.CtorProofs Tier.EraseProofs Tier.SpaceProofs.

Inductive C08case :=
| SpaceI (t : itier) (s d : Z) (mode : spacemode) (out : res itier)
| SpaceP (t : ptier) (s d : Z) (out : res ptier)
(* out = insertSpace(s,d,mode) then eraseRegion(s,s+d,truncate,shrink) on the implementation *)
| SpaceEraseI (t : itier) (s d : Z) (mode : spacemode) (out : res itier).

Definition space_erase_i (t : itier) (s d : Z) (mode : spacemode) : res itier :=
  do t1 <- space_i t s d mode; erase_i t1 s (s + d) ETruncate true.

Definition C08corr (c : C08case) : bool :=
  match c with
  | SpaceI t s d m out => res_eqb itier_eqb (space_i t s d m) out
  | SpaceP t s d out => res_eqb ptier_eqb (space_p t s d) out
  | SpaceEraseI t s d m out => res_eqb itier_eqb (space_erase_i t s d m) out
  end.

Definition space_i_oracle (t : itier) (s d : Z) (mode : spacemode) (out : res itier) : bool :=
  let l := ients t in
  if (match mode with SError => true | _ => false end) && existsb (straddlesb s) l
  then is_err ArgumentError out
  else match out with
  | Err _ => false
  | Ok t' =>
      let r := ients t' in
      text_eqb (iname t') (iname t) && (imin t' =? imin t) && (imax t' =? imax t + d)
      && wf_itierb t'
      && forallb (fun i =>
           if iend i <=? s then mem_i i r
           else if s <=? istart i then mem_i (shift d i) r
           else match mode with
                | SStretch => mem_i (mkI (istart i) (iend i + d) (ilabel i)) r
                | SSplit => mem_i (mkI (istart i) s (ilabel i)) r
                            && mem_i (mkI (s + d) (iend i + d) (ilabel i)) r
                | _ => mem_i i r
                end) l
      && (length r =? length l + (match mode with SSplit => if existsb (straddlesb s) l then 1 else 0 | _ => 0 end))%nat
  end.

Definition space_p_oracle (t : ptier) (s d : Z) (out : res ptier) : bool :=
  match out with
  | Err _ => false
  | Ok t' =>
      text_eqb (pname t') (pname t) && (pmin t' =? pmin t) && (pmax t' =? pmax t + d)
      && pents_eqb (pents t') (map (fun p => if ptime p <=? s then p else pshift d p) (pents t))
  end.

Definition space_erase_oracle (t : itier) (s d : Z) (mode : spacemode) (out : res itier) : bool :=
  match mode with
  | SStretch | SSplit =>
      match out with
      | Err _ => false
      | Ok t2 =>
          (imin t2 =? imin t) && (imax t2 =? imax t) && wf_itierb t2
          && labfun_eqb (lab_at (ients t2)) (lab_at (ients t)) (s :: bounds (ients t2) ++ bounds (ients t))
      end
  | _ => true
  end.

Definition C08oracle (c : C08case) : bool :=
  match c with
  | SpaceI t s d m out => space_i_oracle t s d m out
  | SpaceP t s d out => space_p_oracle t s d out
  | SpaceEraseI t s d m out => space_erase_oracle t s d m out
  end.

Definition C08hyp (c : C08case) : bool :=
  match c with
  | SpaceI t s d _ _ | SpaceEraseI t s d _ _ => wf_itierb t && (0 <? d) && (imin t <=? s) && (s <=? imax t)
  | SpaceP t s d _ => wf_ptierb t && (0 <? d)
  end.
