(* Check/C16Check.v -- correspondence and oracle for C16 (in-memory audio edits). *)
From PraatIO Require Export Base.Prelude Audio.WavModel.
Open Scope Z_scope.

Definition zlist_eqb := list_eqb Z.eqb.

Inductive C16case :=
(* a history of edits on a Wav of width w: after each edit the bytes of Wav.frames *)
| WavHist (w : nat) (rate : Z) (s0 : list Z) (steps : list (wop * list Z))
| WavGet (w : nat) (rate : Z) (s : list Z) (t0 t1 : Z * Z) (out : res (list Z))
| QueryGet (rate : Z) (s : list Z) (t0 t1 : Z * Z) (out : res (list Z))
| Codec (w : nat) (s : list Z) (bytes : res (list Z))
| InsDel (w : nat) (rate : Z) (s : list Z) (t : Z * Z) (f : list Z) (out : list Z).

Fixpoint hist_corr (v : wav) (steps : list (wop * list Z)) : bool :=
  match steps with
  | [] => true
  | (o, bytes) :: rest => let v' := run_wop v o in zlist_eqb (w_frames v') bytes && hist_corr v' rest
  end.

Definition C16corr (c : C16case) : bool :=
  match c with
  | WavHist w r s0 steps => hist_corr (mkWav (encode_all w s0) w r) steps
  | WavGet w r s t0 t1 out => res_eqb zlist_eqb (wav_get_samples (mkWav (encode_all w s) w r) t0 t1) out
  | QueryGet r s t0 t1 out => res_eqb zlist_eqb (Ok (read_frames_at r s t0 t1)) out
  | Codec w s bytes => res_eqb zlist_eqb (convert_to_bytes w s) bytes
  | InsDel w r s t f out =>
      zlist_eqb (w_frames (wav_delete (wav_insert (mkWav (encode_all w s) w r) t (encode_all w f)) t
                                      (fst t * r + Z.of_nat (length f) * snd t, snd t * r))) out
  end.

(* the property, on the list of samples: after each edit the bytes are a whole number of
   samples and decode to the sample list the edit prescribes *)
Fixpoint hist_oracle (w : nat) (v : swav) (steps : list (wop * list Z)) : bool :=
  match steps with
  | [] => true
  | (o, bytes) :: rest =>
      let v' := run_sop v o in
      (length bytes mod w =? 0)%nat && zlist_eqb (decode_all w bytes) (s_samples v') && hist_oracle w v' rest
  end.

Definition C16oracle (c : C16case) : bool :=
  match c with
  | WavHist w r s0 steps => hist_oracle w (mkSW s0 r) steps
  | WavGet w r s t0 t1 out => res_eqb zlist_eqb (Ok (sw_get (mkSW s r) t0 t1)) out
  | QueryGet r s t0 t1 out => res_eqb zlist_eqb (Ok (sw_get (mkSW s r) t0 t1)) out
  | Codec w s bytes =>
      match bytes with
      | Ok bs => (length bs =? length s * w)%nat && zlist_eqb (decode_all w bs) s
      | Err _ => negb (forallb (in_rangeb w) s)
      end
  | InsDel w r s t f out => (length out mod w =? 0)%nat && zlist_eqb (decode_all w out) s
  end.

(* inside the theorems' hypotheses: samples in range, positive width and rate, times >= 0 *)
Definition C16hyp (c : C16case) : bool :=
  match c with
  | WavHist w r s0 _ => (0 <? w)%nat && (0 <? r) && forallb (in_rangeb w) s0
  | WavGet w r s _ _ _ => (0 <? w)%nat && (0 <? r) && forallb (in_rangeb w) s
  | InsDel w r s t _ _ => (0 <? w)%nat && (0 <? r) && negb (2 * ((fst t * r) mod snd t) =? snd t)
  | _ => true
  end.
