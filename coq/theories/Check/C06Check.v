(* Check/C06Check.v -- case type, correspondence and oracle for C06 (crop). *)
From PraatIO Require Export Tier.TierModel.
From PraatIO Require Import Tier.CtorProofs Tier.CropProofs.

Inductive C06case :=
| CropI (t : itier) (a b : Z) (mode : cropmode) (rebase : bool) (out : res itier)
| CropP (t : ptier) (a b : Z) (rebase : bool) (out : res ptier).

(* implementation output = model output *)
Definition C06corr (c : C06case) : bool :=
  match c with
  | CropI t a b m r out => res_eqb itier_eqb (crop_i t a b m r) out
  | CropP t a b r out => res_eqb ptier_eqb (crop_p t a b r) out
  end.

(* implementation output satisfies the specification written from the property *)
Definition C06oracle (c : C06case) : bool :=
  match c with
  | CropI t a b m r out => res_eqb itier_eqb (crop_spec t a b m r) out
  | CropP t a b r out => res_eqb ptier_eqb (crop_p_spec t a b r) out
  end.

(* the case lies inside the hypotheses of the theorems *)
Definition C06hyp (c : C06case) : bool :=
  match c with
  | CropI t _ _ _ _ _ => wf_itierb t
  | CropP t _ _ _ _ => wf_ptierb t
  end.

Lemma res_eqb_eq {A} (eqb : A -> A -> bool) (H : forall x y, eqb x y = true <-> x = y) r s :
  res_eqb eqb r s = true <-> r = s.
Proof.
  destruct r, s; simpl; split; intro E; try discriminate.
  - apply H in E; congruence.
  - inversion E; subst; apply H; reflexivity.
  - apply err_eqb_eq in E; congruence.
  - inversion E; subst; apply err_eqb_eq; reflexivity.
Qed.

Theorem C06oracle_sound_i t a b m r out :
  C06oracle (CropI t a b m r out) = true <-> out = crop_spec t a b m r.
Proof. simpl. rewrite (res_eqb_eq _ itier_eqb_eq). split; congruence. Qed.

Theorem C06oracle_sound_p t a b r out :
  C06oracle (CropP t a b r out) = true <-> out = crop_p_spec t a b r.
Proof. simpl. rewrite (res_eqb_eq _ ptier_eqb_eq). split; congruence. Qed.
