(* Check/C05Check.v -- correspondence and oracle for C05 (reachable tiers are wf). *)
From PraatIO Require Export Check.Common Tier.TierOps.
From PraatIO Require Import Tier.CtorProofs Tier.WfProofs.

Definition oerr_eqb := option_eqb err_eqb.

Inductive C05case :=
(* history on the dyadic grid: after each step the outcome, the tier the
   program now holds, and what its validate('silence') returned *)
| HistOpsI (t : itier) (steps : list (opI * (option err * itier * bool)))
| HistOpsP (t : ptier) (steps : list (opP * (option err * ptier * bool)))
(* decimal grid: only the states are judged (rounding may legitimately make
   float and exact comparisons differ) *)
| StatesI (states : list (itier * bool))
| StatesP (states : list (ptier * bool)).

Fixpoint histI_corr (t : itier) (steps : list (opI * (option err * itier * bool))) : bool :=
  match steps with
  | [] => true
  | (o, (oe, after, _)) :: rest =>
      (match run_opI t o with
       | Ok t' => oerr_eqb oe None && itier_eqb t' after
       | Err e => oerr_eqb oe (Some e) && itier_eqb t after
       end) && histI_corr after rest
  end.

Fixpoint histP_corr (t : ptier) (steps : list (opP * (option err * ptier * bool))) : bool :=
  match steps with
  | [] => true
  | (o, (oe, after, _)) :: rest =>
      (match run_opP t o with
       | Ok t' => oerr_eqb oe None && ptier_eqb t' after
       | Err e => oerr_eqb oe (Some e) && ptier_eqb t after
       end) && histP_corr after rest
  end.

Definition C05corr (c : C05case) : bool :=
  match c with
  | HistOpsI t steps => histI_corr t steps
  | HistOpsP t steps => histP_corr t steps
  | StatesI _ | StatesP _ => true
  end.

(* every tier held after every step is well-formed and validate() said True *)
Definition C05oracle (c : C05case) : bool :=
  match c with
  | HistOpsI t steps => forallb (fun s => match s with (_, (_, after, v)) => wf_itierb after && v end) steps
  | HistOpsP t steps => forallb (fun s => match s with (_, (_, after, v)) => wf_ptierb after && v end) steps
  | StatesI l => forallb (fun s => wf_itierb (fst s) && snd s) l
  | StatesP l => forallb (fun s => wf_ptierb (fst s) && snd s) l
  end.

Definition C05hyp (c : C05case) : bool :=
  match c with
  | HistOpsI t _ => wf_itierb t
  | HistOpsP t _ => wf_ptierb t
  | _ => true
  end.
