(* Check/C14Check.v -- correspondence and oracle for C14 (dejitter, morph). *)
From PraatIO Require Export Check.Common Tier.TierOps Textgrid.TgModel.
From PraatIO Require Import Tier.CtorProofs Tier.AdjustProofs.

Inductive C14case :=
| DejI (t : itier) (refs : list Z) (d : Z) (out : res itier)   (* refs = reference tier's .timestamps *)
| DejP (t : ptier) (refs : list Z) (d : Z) (out : res ptier)
| TimestampsI (t : itier) (ts : list Z)
| TimestampsP (t : ptier) (ts : list Z)
| Morph (t g : itier) (keep : option (list text)) (out : res itier)
(* praatio_scripts.alignBoundariesAcrossTiers: the textgrid it hands back *)
| TgAlignC (g : tg) (n : text) (d : Z) (out : res tg).

Definition zlist_eqb := list_eqb Z.eqb.

Definition C14corr (c : C14case) : bool :=
  match c with
  | DejI t refs d out => res_eqb itier_eqb (dejitter_i t refs d) out
  | DejP t refs d out => res_eqb ptier_eqb (dejitter_p t refs d) out
  | TimestampsI t ts => zlist_eqb (timestamps_i t) ts
  | TimestampsP t ts => zlist_eqb (timestamps_p t) ts
  | Morph t g keep out => res_eqb itier_eqb (morph_i t g (label_filter keep)) out
  | TgAlignC g n d out => res_eqb tg_eqb (tg_align g n d) out
  end.

(* specification of one adjusted time, written from the property text: the
   nearest reference (the earlier one when equidistant) if within d, else x *)
Definition spec_time (refs : list Z) (d x : Z) : Z :=
  let within := filter (fun r => Z.abs (r - x) <=? d) refs in
  match within with
  | [] => x
  | r0 :: rs => fold_left (fun best r => if Z.abs (r - x) <? Z.abs (best - x) then r else best) rs r0
  end.

Definition dej_i_oracle (t : itier) (refs : list Z) (d : Z) (out : res itier) : bool :=
  let expected := map (fun i => mkI (spec_time refs d (istart i)) (spec_time refs d (iend i)) (ilabel i)) (ients t) in
  match ients t, refs with
  | [], _ => match out with Ok t' => itier_eqb t' t | Err _ => false end
  | _ :: _, [] => match out with Err _ => true | Ok _ => false end
  | _ :: _, _ :: _ =>
      if sorted_disjb expected then
        match out with
        | Ok t' => ients_eqb (ients t') expected && text_eqb (iname t') (iname t)
                   && (imin t' <=? imin t) && (imax t <=? imax t') && wf_itierb t'
        | Err _ => false end
      else (* an adjustment that collapses or crosses intervals raises *)
        is_err TextgridStateError out
  end.

Definition dej_p_oracle (t : ptier) (refs : list Z) (d : Z) (out : res ptier) : bool :=
  let expected := map (fun p => mkP (spec_time refs d (ptime p)) (plabel p)) (pents t) in
  match pents t, refs with
  | [], _ => match out with Ok t' => ptier_eqb t' t | Err _ => false end
  | _ :: _, [] => match out with Err _ => true | Ok _ => false end
  | _ :: _, _ :: _ =>
      match out with
      | Ok t' => (length (pents t') =? length (pents t))%nat
                 && pents_eqb (pents t') (isortp expected) && wf_ptierb t'
      | Err _ => false end
  end.

Fixpoint morph_oracle_go (filt : text -> bool) (prev_src_end prev_new_end : Z)
         (src tgt r : list interval) : bool :=
  match src, tgt, r with
  | [], [], [] => true
  | s :: src', g :: tgt', x :: r' =>
      text_eqb (ilabel x) (ilabel s)
      && (iend x - istart x =? (if filt (ilabel s) then iend g - istart g else iend s - istart s))
      && (istart x - prev_new_end =? istart s - prev_src_end)      (* gap kept *)
      && morph_oracle_go filt (iend s) (iend x) src' tgt' r'
  | _, _, _ => false
  end.

Definition morph_oracle (t g : itier) (keep : option (list text)) (out : res itier) : bool :=
  if negb (length (ients t) =? length (ients g))%nat then is_err SafeZipException out
  else match ients t with
  | [] => match out with Err _ => true | Ok _ => false end     (* nothing to morph: the code indexes [-1] *)
  | s0 :: _ =>
      match out with
      | Err _ => false
      | Ok t' =>
          match last_opt (ients t), last_opt (ients t') with
          | Some ol, Some nl =>
              text_eqb (iname t') (iname t)
              && morph_oracle_go (label_filter keep) (istart s0) (istart s0) (ients t) (ients g) (ients t')
              && (imax t' - iend nl =? imax t - iend ol)          (* trailing gap kept *)
              && wf_itierb t'
          | _, _ => false
          end
      end
  end.

Definition C14oracle (c : C14case) : bool :=
  match c with
  | DejI t refs d out => dej_i_oracle t refs d out
  | DejP t refs d out => dej_p_oracle t refs d out
  | TimestampsI t ts =>
      (* sorted set of all boundary times *)
      sorted_strictb ts && forallb (fun x => existsb (Z.eqb x) ts) (bounds (ients t))
      && forallb (fun x => existsb (Z.eqb x) (bounds (ients t))) ts
  | TimestampsP t ts =>
      sorted_strictb ts && forallb (fun x => existsb (Z.eqb x) ts) (map ptime (pents t))
      && forallb (fun x => existsb (Z.eqb x) (map ptime (pents t))) ts
  | Morph t g keep out => morph_oracle t g keep out
  | TgAlignC g n d out =>
      (* same tiers under the same names in the same order; the reference tier untouched, every other
         tier that tier's own dejitter against the reference *)
      match out, find_tier n (tiers g) with
      | Ok g', Some ref =>
          (fix go (l l' : list tier) : bool :=
             match l, l' with
             | [], [] => true
             | t :: r, t' :: r' =>
                 (if text_eqb (tname t) n then tier_eqb t t'
                  else res_eqb tier_eqb (dejitter_tier t (timestamps_of ref) d) (Ok t')) && go r r'
             | _, _ => false
             end) (tiers g) (tiers g')
      | Ok _, None => false
      | Err _, _ => true
      end
  end.

Definition C14hyp (c : C14case) : bool :=
  match c with
  | DejI t refs d _ => wf_itierb t && (0 <=? d) && sorted_strictb refs
  | DejP t refs d _ => wf_ptierb t && (0 <=? d) && sorted_strictb refs
  | TimestampsI t _ => wf_itierb t
  | TimestampsP t _ => wf_ptierb t
  | Morph t g _ _ => wf_itierb t && wf_itierb g
  | TgAlignC _ _ _ _ => true
  end.
