(* Check/C11Check.v -- correspondence and oracle for C11 (insertEntry / deleteEntry). *)
From PraatIO Require Export Check.Common.
From PraatIO Require Import Tier.CtorProofs Tier.InsertProofs.

Inductive stepI := SInsI (e : interval) (m : insmode) | SDelI (e : interval).
Inductive stepP := SInsP (e : point) (m : insmode) | SDelP (e : point).

Inductive C11case :=
| InsI (t : itier) (e : interval) (m : insmode) (out : res itier)
| InsP (t : ptier) (e : point) (m : insmode) (out : res ptier)
| DelI (t : itier) (e : interval) (out : res itier)
| DelP (t : ptier) (e : point) (out : res ptier)
(* a history on one object: after every step the outcome (None = returned
   normally) and the object's state *)
| HistI (t : itier) (steps : list (stepI * (option err * itier)))
| HistP (t : ptier) (steps : list (stepP * (option err * ptier))).

Definition run_stepI (t : itier) (s : stepI) : res itier :=
  match s with SInsI e m => insert_i t e m | SDelI e => delete_i t e end.
Definition run_stepP (t : ptier) (s : stepP) : res ptier :=
  match s with SInsP e m => insert_p t e m | SDelP e => delete_p t e end.

Definition oerr_eqb := option_eqb err_eqb.

Fixpoint hist_ok {S St} (run : St -> S -> res St) (eqb : St -> St -> bool)
         (t : St) (steps : list (S * (option err * St))) : bool :=
  match steps with
  | [] => true
  | (s, (oe, after)) :: rest =>
      (match run t s with
       | Ok t' => oerr_eqb oe None && eqb t' after
       | Err e => oerr_eqb oe (Some e) && eqb t after       (* failed call: state unchanged *)
       end) && hist_ok run eqb after rest
  end.

Definition C11corr (c : C11case) : bool :=
  match c with
  | InsI t e m out => res_eqb itier_eqb (insert_i t e m) out
  | InsP t e m out => res_eqb ptier_eqb (insert_p t e m) out
  | DelI t e out => res_eqb itier_eqb (delete_i t e) out
  | DelP t e out => res_eqb ptier_eqb (delete_p t e) out
  | HistI t steps => hist_ok run_stepI itier_eqb t steps
  | HistP t steps => hist_ok run_stepP ptier_eqb t steps
  end.

(* ---- specifications written from the property text ---- *)

Definition delete_i_spec (t : itier) (e : interval) : res itier :=
  if mem_i e (ients t) then
    match remove_first interval_eqb e (ients t) with
    | Some l => Ok (mkIT (iname t) l (imin t) (imax t)) | None => Err PyError end
  else Err PyError.

Definition insert_p_spec (t : ptier) (e : point) (m : insmode) : res ptier :=
  let same := filter (fun p => ptime p =? ptime e) (pents t) in
  let mk l := Ok (mkPT (pname t) (isortp l) (Z.min (pmin t) (ptime e)) (Z.max (pmax t) (ptime e))) in
  match same with
  | [] => mk (pents t ++ [e])
  | old :: _ =>
      match m with
      | IError => Err CollisionError
      | IReplace => match remove_first point_eqb old (pents t) with
                    | Some l => mk (l ++ [e]) | None => Err PyError end
      | IMerge => match remove_first point_eqb old (pents t) with
                  | Some l => mk (l ++ [mkP (ptime e) (plabel old ++ DASH ++ plabel e)])
                  | None => Err PyError end
      end
  end.

Definition specI (t : itier) (s : stepI) : res itier :=
  match s with SInsI e m => insert_spec t (strip_i e) m | SDelI e => delete_i_spec t e end.
Definition specP (t : ptier) (s : stepP) : res ptier :=
  match s with SInsP e m => insert_p_spec t (strip_p e) m
          | SDelP e => match remove_first point_eqb e (pents t) with
                       | Some l => Ok (mkPT (pname t) l (pmin t) (pmax t)) | None => Err PyError end
  end.

Definition C11oracle (c : C11case) : bool :=
  match c with
  | InsI t e m out => res_eqb itier_eqb (insert_spec t (strip_i e) m) out
  | InsP t e m out => res_eqb ptier_eqb (insert_p_spec t (strip_p e) m) out
  | DelI t e out => res_eqb itier_eqb (delete_i_spec t e) out
  | DelP t e out => res_eqb ptier_eqb (specP t (SDelP e)) out
  | HistI t steps => hist_ok specI itier_eqb t steps
  | HistP t steps => hist_ok specP ptier_eqb t steps
  end.

Definition C11hyp (c : C11case) : bool :=
  match c with
  | InsI t _ _ _ | DelI t _ _ | HistI t _ => wf_itierb t
  | InsP t _ _ _ | DelP t _ _ | HistP t _ => wf_ptierb t
  end.
