(* Check/C07Check.v -- correspondence and oracle for C07 (eraseRegion). *)
From PraatIO Require Export Check.Common.
From PraatIO Require Import Tier.CtorProofs Tier.EraseProofs.

Inductive C07case :=
| EraseI (t : itier) (a b : Z) (mode : erasemode) (doShrink : bool) (out : res itier)
| EraseP (t : ptier) (a b : Z) (doShrink : bool) (out : res ptier).

Definition C07corr (c : C07case) : bool :=
  match c with
  | EraseI t a b m s out => res_eqb itier_eqb (erase_i t a b m s) out
  | EraseP t a b s out => res_eqb ptier_eqb (erase_p t a b s) out
  end.

(* the property, clause by clause, on the implementation's output *)
Definition erase_i_oracle (t : itier) (a b : Z) (mode : erasemode) (doShrink : bool) (out : res itier) : bool :=
  let l := ients t in
  let d := b - a in
  if b <=? a then is_err ArgumentError out
  else if (match mode with EError => true | _ => false end) && existsb (overlapsb a b) l
  then is_err CollisionError out
  else match out with
  | Err _ => false
  | Ok t' =>
      let r := ients t' in
      text_eqb (iname t') (iname t)
      && (imin t' =? imin t)
      && (imax t' =? (if doShrink then imax t - d else imax t))
      && wf_itierb t'
      (* nothing is left inside the region, everything outside is unchanged
         (shrink: moved earlier by exactly d) -- as label functions *)
      && (let src := match mode with
                     | ETruncate => l
                     | _ => filter (fun i => negb (overlapsb a b i)) l end in
          let expected x :=
            if doShrink then
              (if (x <? a) then lab_at src x
               else match mode with
                    | ETruncate => lab_at src (x + d)
                    | _ => lab_at src (x + d) end)
            else if (a <=? x) && (x <? b) then None else lab_at src x in
          let pts := a :: b :: (a - d) :: bounds r ++ bounds l ++ map (fun p => p - d) (bounds l) in
          match mode with
          | ETruncate => labfun_eqb (lab_at r) expected pts
          | _ =>
              (* categorical / error: removed entries vanish entirely, so the
                 region itself may keep nothing; compare outside the region only
                 through membership below, and the label function everywhere *)
              labfun_eqb (lab_at r)
                (fun x => if doShrink then (if x <? a then lab_at (filter (fun i => iend i <=? a) src) x
                                           else lab_at (filter (fun i => b <=? istart i) src) (x + d))
                          else lab_at src x) pts
          end)
      (* entries that end before / start after the region are list elements, exactly *)
      && forallb (fun i =>
            if iend i <? a then mem_i i r
            else if b <? istart i then mem_i (if doShrink then shift (- d) i else i) r
            else true) l
      (* a straddler comes out as one interval shortened by d *)
      && (match mode, doShrink with
          | ETruncate, true =>
              forallb (fun i => if (istart i <? a) && (b <? iend i)
                                then mem_i (mkI (istart i) (iend i - d) (ilabel i)) r else true) l
          | _, _ => true end)
      (* categorical: exactly the non-overlapping entries survive *)
      && (match mode, doShrink with
          | ECategorical, false => ients_eqb r (filter (fun i => negb (overlapsb a b i)) l)
          | _, _ => true end)
  end.

Definition erase_p_oracle (t : ptier) (a b : Z) (doShrink : bool) (out : res ptier) : bool :=
  let d := b - a in
  if b <=? a then is_err ArgumentError out
  else match out with
  | Err _ => false
  | Ok t' =>
      text_eqb (pname t') (pname t) && (pmin t' =? pmin t)
      && (pmax t' =? (if doShrink then pmax t - d else pmax t))
      && pents_eqb (pents t')
           (filter_map (fun p => if (a <=? ptime p) && (ptime p <=? b) then None
                                 else if doShrink && (b <? ptime p) then Some (pshift (- d) p)
                                 else Some p) (pents t))
  end.

Definition C07oracle (c : C07case) : bool :=
  match c with
  | EraseI t a b m s out => erase_i_oracle t a b m s out
  | EraseP t a b s out => erase_p_oracle t a b s out
  end.

Definition C07hyp (c : C07case) : bool :=
  match c with
  | EraseI t a b _ _ _ => wf_itierb t && (imin t <=? a) && (b <=? imax t)
  | EraseP t _ _ _ _ => wf_ptierb t
  end.
