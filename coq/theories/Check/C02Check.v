(* Check/C02Check.v -- is a saved file inside the hypotheses of the whole-file theorems of the
   specification reader (C02_spec_reader_short_file / C02_spec_reader_long_file)? *)
From PraatIO Require Export Check.IoCheck IO.RefFileProofs.
Open Scope Z_scope.

Definition C02hyp (c : IOcase) : bool :=
  match c with
  | RefSave _ b mn mx th tab g _ =>
      match prep_tg b mn mx th g with
      | Ok g' => tg_ref tab g' && forallb kinds_ok (dg_tiers g')
      | Err _ => true
      end
  | RefRead tab g _ => tg_ref tab g && forallb kinds_ok (dg_tiers g)
  | _ => true
  end.
