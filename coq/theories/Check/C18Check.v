(* Check/C18Check.v -- correspondence and oracle for C18 (zero-crossing search). *)
From PraatIO Require Export Base.Prelude Audio.ZeroCross.
Open Scope Z_scope.

Inductive C18case :=
(* findNearestZeroCrossing(t, step) on a recording with samples s; K ticks per sample;
   exact = the time grid is exact in binary64, so implementation and model must agree *)
| ZC (K : Z) (s : list Z) (t st : Z) (exact : bool) (out : res Z).

Definition C18corr (c : C18case) : bool :=
  match c with
  | ZC K s t st exact out => if exact then res_eqb Z.eqb (find_zc K s t st) out else true
  end.

Definition C18oracle (c : C18case) : bool :=
  match c with
  | ZC K s t st _ out =>
      match out with
      | Ok x => (0 <=? x) && (x <=? Z.of_nat (length s) * K)
                && (if t mod K =? 0 then x mod K =? 0 else true)
                && (x mod K =? 0) && crossingb s (Z.to_nat (x / K))
      | Err e => if st <? 2 * K then err_eqb e ArgumentError else err_eqb e FindZeroCrossingError
      end
  end.

Definition C18hyp (c : C18case) : bool :=
  match c with ZC K s t st _ _ => (0 <? K) && (0 <=? t) && (t <=? Z.of_nat (length s) * K) end.
