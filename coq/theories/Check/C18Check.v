(* Check/C18Check.v -- correspondence and oracle for C18 (zero-crossing search). *)
From PraatIO Require Export Check.Common Textgrid.TgModel Audio.ZeroCross.
From PraatIO Require Export Textgrid.TgZc.
Open Scope Z_scope.

Inductive C18case :=
(* findNearestZeroCrossing(t, step) on a recording with samples s; K ticks per sample;
   exact = the time grid is exact in binary64, so implementation and model must agree *)
| ZC (K : Z) (s : list Z) (t st : Z) (exact : bool) (out : res Z)
(* tgBoundariesToZeroCrossings: the textgrid that came back *)
| TgZcC (K : Z) (s : list Z) (st : Z) (adjP adjI : bool) (g : tg) (out : res tg).

(* does the search for time t end in a tie: a candidate on either side at exactly the same distance?  The recordings of
   the TgZcC cases have non-dyadic rates (the script uses the default step of 0.002 s, a whole number of samples only at
   multiples of 500 Hz), where the implementation compares two rounded binary64 distances: an exact tie is decided by
   rounding there, so such cases are not compared with the model *)
Fixpoint zc_loop_tie (fuel : nat) (K dur st t left right : Z) (s : list Z) : bool :=
  match fuel with
  | O => false
  | S f =>
      let l := iter_zc K dur s left (0 <? left) (st + K) true in
      let r := iter_zc K dur s right (right + st <? dur) (st + K) false in
      match l, r with
      | Some x, Some y => Z.abs (x - t) =? Z.abs (y - t)
      | Some _, None | None, Some _ => false
      | None, None => if (left <? 0) && (dur <? right) then false
                      else zc_loop_tie f K dur st t (left - st) (right + st) s
      end
  end.

Definition zc_tie (K : Z) (s : list Z) (t st : Z) : bool :=
  let dur := Z.of_nat (length s) * K in
  if st <? 2 * K then false
  else zc_loop_tie (Z.to_nat (Z.max (t + 1) (dur - t + 1)) + 1) K dur st t t t s.

Definition tier_times (adjP adjI : bool) (t : tier) : list Z :=
  match t with
  | TI i => if adjI then flat_map (fun iv => [istart iv; iend iv]) (ients i) else []
  | TP p => if adjP then map ptime (pents p) else []
  end.

Definition C18corr (c : C18case) : bool :=
  match c with
  | ZC K s t st exact out => if exact then res_eqb Z.eqb (find_zc K s t st) out else true
  | TgZcC K s st adjP adjI g out =>
      existsb (fun t => zc_tie K s t st) (flat_map (tier_times adjP adjI) (tiers g))
      || res_eqb tg_eqb (tg_zc K s st adjP adjI g) out
  end.

Definition C18oracle (c : C18case) : bool :=
  match c with
  | ZC K s t st _ out =>
      match out with
      | Ok x => (0 <=? x) && (x <=? Z.of_nat (length s) * K)
                && (if t mod K =? 0 then x mod K =? 0 else true)
                && (x mod K =? 0) && crossingb s (Z.to_nat (x / K))
      | Err e => if st <? 2 * K then err_eqb e ArgumentError else err_eqb e FindZeroCrossingError
      end
  | TgZcC K s st adjP adjI g out =>
      (* only timestamps change, each to a crossing on a sample; tier order, entry counts and labels stay
         (points that moved past each other may swap places) *)
      match out with
      | Err _ => true
      | Ok g' =>
          (fix go (l l' : list tier) : bool :=
             match l, l' with
             | [], [] => true
             | t :: r, t' :: r' =>
                 text_eqb (tname t) (tname t')
                 && (match t, t' with
                     | TI i, TI i' =>
                         if adjI then (length (ients i) =? length (ients i'))%nat
                                      && forallb (fun lab => existsb (text_eqb lab) (map ilabel (ients i'))) (map ilabel (ients i))
                                      && forallb (fun iv => (istart iv mod K =? 0) && (iend iv mod K =? 0)
                                                            && crossingb s (Z.to_nat (istart iv / K)) && crossingb s (Z.to_nat (iend iv / K))) (ients i')
                         else tier_eqb t t'
                     | TP p, TP p' =>
                         if adjP then (length (pents p) =? length (pents p'))%nat
                                      && forallb (fun lab => existsb (text_eqb lab) (map plabel (pents p'))) (map plabel (pents p))
                                      && forallb (fun pt => (ptime pt mod K =? 0) && crossingb s (Z.to_nat (ptime pt / K))) (pents p')
                         else tier_eqb t t'
                     | _, _ => false
                     end)
                 && go r r'
             | _, _ => false
             end) (tiers g) (tiers g')
      end
  end.

Definition C18hyp (c : C18case) : bool :=
  match c with
  | ZC K s t st _ _ => (0 <? K) && (0 <=? t) && (t <=? Z.of_nat (length s) * K)
  | TgZcC _ _ _ _ _ _ _ => true
  end.
