(* Check/C18Check.v -- correspondence and oracle for C18 (zero-crossing search). *)
From PraatIO Require Export Check.Common Textgrid.TgModel Audio.ZeroCross.
From PraatIO Require Export Textgrid.TgZc Textgrid.TgSplice.
Open Scope Z_scope.

Inductive C18case :=
(* findNearestZeroCrossing(t, step) on a recording with samples s; K ticks per sample;
   exact = the time grid is exact in binary64, so implementation and model must agree *)
| ZC (K : Z) (s : list Z) (t st : Z) (exact : bool) (out : res Z)
(* tgBoundariesToZeroCrossings: the textgrid that came back *)
| TgZcC (K : Z) (s : list Z) (st : Z) (adjP adjI : bool) (g : tg) (out : res tg)
(* audioSplice: the recording (as samples) and the textgrid that came back *)
| SpliceC (K : Z) (s seg : list Z) (st : Z) (g : tg) (n lab : text) (a : Z) (b : option Z) (align : bool) (out : res (list Z * tg)).

(* does the search for time t end in a tie: a candidate on either side at exactly the same distance?  The recordings of
   the TgZcC cases have non-dyadic rates (the script uses the default step of 0.002 s, a whole number of samples only at
   multiples of 500 Hz), where the implementation compares two rounded binary64 distances: an exact tie is decided by
   rounding there, so such cases are not compared with the model *)
Fixpoint zc_loop_tie (fuel : nat) (K dur st t left right : Z) (s : list Z) : bool :=
  match fuel with
  | O => false
  | S f =>
      let l := iter_zc K dur s left (0 <? left) (st + K) true in
      let r := iter_zc K dur s right (right + st <? dur) (st + K) false in
      match l, r with
      | Some x, Some y => Z.abs (x - t) =? Z.abs (y - t)
      | Some _, None | None, Some _ => false
      | None, None => if (left <? 0) && (dur <? right) then false
                      else zc_loop_tie f K dur st t (left - st) (right + st) s
      end
  end.

Definition zc_tie (K : Z) (s : list Z) (t st : Z) : bool :=
  let dur := Z.of_nat (length s) * K in
  if st <? 2 * K then false
  else zc_loop_tie (Z.to_nat (Z.max (t + 1) (dur - t + 1)) + 1) K dur st t t t s.

Definition tier_times (adjP adjI : bool) (t : tier) : list Z :=
  match t with
  | TI i => if adjI then flat_map (fun iv => [istart iv; iend iv]) (ients i) else []
  | TP p => if adjP then map ptime (pents p) else []
  end.

Definition splice_tie (K : Z) (s seg : list Z) (st a : Z) (b : option Z) (align : bool) : bool :=
  align && (zc_tie K seg 0 st || zc_tie K seg (dur K seg) st || zc_tie K s a st
            || match b with Some x => zc_tie K s x st | None => false end).

Definition out_eqb (x y : list Z * tg) : bool := list_eqb Z.eqb (fst x) (fst y) && tg_eqb (snd x) (snd y).

Definition C18corr (c : C18case) : bool :=
  match c with
  | ZC K s t st exact out => if exact then res_eqb Z.eqb (find_zc K s t st) out else true
  | TgZcC K s st adjP adjI g out =>
      existsb (fun t => zc_tie K s t st) (flat_map (tier_times adjP adjI) (tiers g))
      || res_eqb tg_eqb (tg_zc K s st adjP adjI g) out
  | SpliceC K s seg st g n lab a b align out =>
      splice_tie K s seg st a b align || res_eqb out_eqb (splice K s seg st g n lab a b align) out
  end.

Fixpoint prefixb (p l : list Z) : bool :=
  match p, l with
  | [], _ => true
  | x :: p', y :: l' => (x =? y) && prefixb p' l'
  | _ :: _, [] => false
  end.
Fixpoint infixb (p l : list Z) : bool :=
  prefixb p l || match l with [] => false | _ :: l' => infixb p l' end.

(* the hypotheses of C18_splice_in_step: the textgrid ends with the recording, names unique, every tier well-formed
   inside the span; without alignment the requested times are sample positions inside the recording *)
Definition splice_hyp (K : Z) (s : list Z) (g : tg) (a : Z) (b : option Z) (align : bool) : bool :=
  (0 <? K)
  && match tgmax g with Some m => m =? dur K s | None => false end
  && nodupb (names g)
  && forallb (fun t => tier_validate t && (tmin t <=? 0) && (tmax t <=? dur K s)
                       && match t with TI i => wf_itierb i | TP p => wf_ptierb p end) (tiers g)
  && (align || ((a mod K =? 0) && (0 <=? a) && (a <=? dur K s)
                && match b with Some x => (x mod K =? 0) && (0 <=? x) && (x <=? dur K s) | None => true end)).

(* the target is on sample k >= 1 of the recording and sample k-1 is zero: the first leftward window ends with that
   sample, so the search cannot report that there is no crossing (Audio/ZeroCrossFound.v proves it of the model) *)
Definition zero_before (K : Z) (s : list Z) (t st : Z) : bool :=
  (2 * K <=? st) && (t mod K =? 0) && (1 <=? t / K) && (t / K <=? Z.of_nat (length s))
  && (nth (Z.to_nat (t / K - 1)) s 1 =? 0).

Definition C18oracle (c : C18case) : bool :=
  match c with
  | ZC K s t st _ out =>
      match out with
      | Ok x => (0 <=? x) && (x <=? Z.of_nat (length s) * K)
                && (if t mod K =? 0 then x mod K =? 0 else true)
                && (x mod K =? 0) && crossingb s (Z.to_nat (x / K))
      | Err e => (if st <? 2 * K then err_eqb e ArgumentError else err_eqb e FindZeroCrossingError)
                 && negb (zero_before K s t st)
      end
  | TgZcC K s st adjP adjI g out =>
      (* only timestamps change, each to a crossing on a sample; tier order, entry counts and labels stay
         (points that moved past each other may swap places) *)
      match out with
      | Err _ => true
      | Ok g' =>
          (fix go (l l' : list tier) : bool :=
             match l, l' with
             | [], [] => true
             | t :: r, t' :: r' =>
                 text_eqb (tname t) (tname t')
                 && (match t, t' with
                     | TI i, TI i' =>
                         if adjI then (length (ients i) =? length (ients i'))%nat
                                      && forallb (fun lab => existsb (text_eqb lab) (map ilabel (ients i'))) (map ilabel (ients i))
                                      && forallb (fun iv => (istart iv mod K =? 0) && (iend iv mod K =? 0)
                                                            && crossingb s (Z.to_nat (istart iv / K)) && crossingb s (Z.to_nat (iend iv / K))) (ients i')
                         else tier_eqb t t'
                     | TP p, TP p' =>
                         if adjP then (length (pents p) =? length (pents p'))%nat
                                      && forallb (fun lab => existsb (text_eqb lab) (map plabel (pents p'))) (map plabel (pents p))
                                      && forallb (fun pt => (ptime pt mod K =? 0) && crossingb s (Z.to_nat (ptime pt / K))) (pents p')
                         else tier_eqb t t'
                     | _, _ => false
                     end)
                 && go r r'
             | _, _ => false
             end) (tiers g) (tiers g')
      end
  | SpliceC K s seg st g n lab a b align out =>
      (* judged on what came back alone: recording and textgrid end together; the named tier holds an interval with the
         new label, on sample positions, and the audio under it is a run of the spliced segment (all of it, at the
         requested place, when nothing was moved to a crossing); the recording grew by that much less the erased region *)
      match out with
      | Err _ => true
      | Ok (s', g') =>
          if negb (splice_hyp K s g a b align) then
            (* a requested time between two samples and no alignment: the audio is cut at the nearest sample, the text
               at the requested time; they stay within one sample of each other *)
            match tgmax g' with Some m => Z.abs (m - dur K s') <? 2 * K | None => false end
          else
          match tgmax g' with Some m => m =? dur K s' | None => false end
          && match find_tier n (tiers g') with
             | Some (TI i) =>
                 existsb (fun e =>
                   text_eqb (ilabel e) (strip lab) && (istart e mod K =? 0) && (iend e mod K =? 0)
                   && (let piece := between s' (istart e / K) (iend e / K) in
                       (Z.of_nat (length piece) * K =? iend e - istart e)
                       && infixb piece seg
                       && (if align then true
                           else list_eqb Z.eqb piece seg
                                && match b with None => istart e =? a | Some _ => true end))
                   && match b with
                      | None => dur K s' =? dur K s + (iend e - istart e)
                      | Some x => if align then true else dur K s' =? dur K s + (iend e - istart e) - (x - a)
                      end) (ients i)
             | _ => false
             end
      end
  end.

Definition C18hyp (c : C18case) : bool :=
  match c with
  | ZC K s t st _ _ => (0 <? K) && (0 <=? t) && (t <=? Z.of_nat (length s) * K)
  | TgZcC _ _ _ _ _ _ _ => true
  | SpliceC K s seg st g n lab a b align _ => splice_hyp K s g a b align
  end.
