(* Check/C20Check.v -- correspondence and oracle for C20 (numeric series helpers). *)
From PraatIO Require Export Base.Prelude Series.SeriesModel.
Open Scope Z_scope.

Definition zl_eqb := list_eqb Z.eqb.
Definition nl_eqb := list_eqb Nat.eqb.
Definition rows_eqb := list_eqb (list_eqb text_eqb).

(* the middle of the sorted window (windows always have odd length 2*(w/2)+1) *)
Definition median_mid (l : list Z) : Z := nth (length l / 2) (zsort l) 0.

Inductive C20case :=
| Median (dist : list Z) (w : nat) (pad : bool) (out : list Z)
| Detect (pitch : list Z) (tn td : Z) (out : res (list nat))
| LoadRows (subst : option text) (rows : list (list text)) (out : res (list (list text)))
| FilterRows (rows : list (list Z)) (index : nat) (w : nat) (pad : bool) (out : list (list Z)).

Definition C20corr (c : C20case) : bool :=
  match c with
  | Median dist w pad out => zl_eqb (step_filter 0 median_mid dist w pad) out
  | Detect p tn td out => res_eqb nl_eqb (detect_errors p tn td) out
  | LoadRows s rows out => res_eqb rows_eqb (load_rows s rows) out
  | FilterRows rows i w pad out =>
      list_eqb zl_eqb (filter_rows (fun col => step_filter 0 median_mid col w pad) rows i) out
  end.

Definition is_err_arg (out : res (list nat)) : bool := match out with Err e => err_eqb e ArgumentError | Ok _ => false end.

(* written from the property text *)
Definition C20oracle (c : C20case) : bool :=
  match c with
  | Median dist w pad out =>
      let o := (w / 2)%nat in
      let n := length dist in
      (length out =? n)%nat &&
      forallb (fun x => Z.eqb (nth x out 0)
                 (if pad || ((o <=? x)%nat && (x + o <? n)%nat)
                  then median_mid (clamp_window 0 dist o x) else nth x dist 0)) (seq 0 n)
  | Detect p tn td out =>
      if (tn <? 0) || (td <? tn) then is_err_arg out else
      match out with
      | Ok l => nl_eqb l (filter (fun k => (nth (k - 1) p 0 * td <=? nth k p 0 * tn) || (nth k p 0 * td <=? nth (k - 1) p 0 * tn))
                                 (seq 1 (length p - 1)))
      | Err _ => false
      end
  | LoadRows s rows out =>
      match rows, out with
      | [], Err _ => true
      | r0 :: rest, Ok l =>
          let body := match r0 with c0 :: _ => if text_eqb c0 TIME then rest else rows | [] => rows end in
          match s with
          | Some u => (length l =? length body)%nat
          | None => (length l =? length (filter (fun r => negb (existsb undefined_cell (tl r))) body))%nat
                    && forallb (fun r => negb (existsb undefined_cell r)) l
          end
      | _, _ => false
      end
  | FilterRows rows i w pad out =>
      (length out =? length rows)%nat
      && forallb (fun ro => (length (fst ro) =? length (snd ro))%nat
                            && forallb (fun j => (j =? i)%nat || Z.eqb (nth j (fst ro) 0) (nth j (snd ro) 0)) (seq 0 (length (fst ro))))
                 (combine rows out)
  end.

Definition C20true (c : C20case) : bool := true.
