(* Check/C09Check.v -- correspondence and oracle for C09 (editTimestamps, appendTier). *)
From PraatIO Require Export Check.Common Textgrid.TgModel.
From PraatIO Require Import Tier.CtorProofs Tier.EraseProofs Tier.EditProofs.

Inductive C09case :=
| EditI (t : itier) (o : Z) (mode : repmode) (out : res itier) (printed : bool)
| EditP (t : ptier) (o : Z) (mode : repmode) (out : res ptier) (printed : bool)
| EditRT (t : itier) (o : Z) (out : res itier)        (* edit(+o) then edit(-o), silence *)
| AppendI (A B : itier) (out : res itier)
| AppendP (A B : ptier) (out : res ptier)
(* Textgrid.editTimestamps / Textgrid.appendTextgrid: the whole textgrid that came back *)
| TgEditC (g : tg) (o : Z) (mode : repmode) (out : res tg)
| TgAppendC (A B : tg) (only : bool) (out : res tg).

Definition edit_rt (t : itier) (o : Z) : res itier :=
  do t1 <- edit_i t o RSilence; edit_i t1 (- o) RSilence.

Definition C09corr (c : C09case) : bool :=
  match c with
  | EditI t o m out pr =>
      res_eqb itier_eqb (edit_i t o m) out
      && Bool.eqb pr (match m with RWarning => edit_i_reports t o | _ => false end)
  | EditP t o m out pr =>
      res_eqb ptier_eqb (edit_p t o m) out
      && Bool.eqb pr (match m with RWarning => edit_p_reports t o | _ => false end)
  | EditRT t o out => res_eqb itier_eqb (edit_rt t o) out
  | AppendI A B out => res_eqb itier_eqb (append_i A B) out
  | AppendP A B out => res_eqb ptier_eqb (append_p A B) out
  | TgEditC g o m out => res_eqb tg_eqb (tg_edit g o m) out
  | TgAppendC A B only out => res_eqb tg_eqb (tg_append A B only) out
  end.

Definition leaves_span_i (t : itier) (o : Z) : bool :=
  existsb (fun i => (istart i + o <? imin t) || (imax t <? iend i + o)) (ients t).
Definition leaves_span_p (t : ptier) (o : Z) : bool :=
  existsb (fun p => (ptime p + o <? pmin t) || (pmax t <? ptime p + o)) (pents t).

Definition zmin_or (d : Z) (l : list Z) : Z := fold_left Z.min l d.
Definition zmax_or (d : Z) (l : list Z) : Z := fold_left Z.max l d.

Definition edit_i_oracle (t : itier) (o : Z) (mode : repmode) (out : res itier) (printed : bool) : bool :=
  let l := ients t in
  if (match mode with RError => true | _ => false end) && leaves_span_i t o
  then is_err OutOfBounds out
  else match out with
  | Err _ => false
  | Ok t' =>
      let r := ients t' in
      text_eqb (iname t') (iname t)
      (* every entry moved by exactly o; ends <= 0 dropped; crossing 0 clipped; order and labels kept *)
      && ients_eqb r (map (fun i => mkI (Z.max 0 (istart i + o)) (iend i + o) (ilabel i))
                          (filter (fun i => 0 <? iend i + o) l))
      (* span grows to contain moved entries and never shrinks *)
      && (imin t' =? zmin_or (imin t) (map istart r)) && (imax t' =? zmax_or (imax t) (map iend r))
      && Bool.eqb printed (match mode with RWarning => leaves_span_i t o | _ => false end)
  end.

Definition edit_p_oracle (t : ptier) (o : Z) (mode : repmode) (out : res ptier) (printed : bool) : bool :=
  if (match mode with RError => true | _ => false end) && leaves_span_p t o
  then is_err OutOfBounds out
  else match out with
  | Err _ => false
  | Ok t' =>
      let r := pents t' in
      text_eqb (pname t') (pname t)
      && pents_eqb r (map (pshift o) (filter (fun p => 0 <=? ptime p + o) (pents t)))
      && (pmin t' =? zmin_or (pmin t) (map ptime r)) && (pmax t' =? zmax_or (pmax t) (map ptime r))
      && Bool.eqb printed (match mode with RWarning => leaves_span_p t o | _ => false end)
  end.

Definition edit_rt_oracle (t : itier) (o : Z) (out : res itier) : bool :=
  (* when nothing is clipped or dropped, +o then -o restores every entry *)
  if forallb (fun i => (0 <=? istart i) && (0 <=? istart i + o)) (ients t) then
    match out with
    | Ok t2 => ients_eqb (ients t2) (ients t)
    | Err _ => false
    end
  else true.

Definition append_i_oracle (A B : itier) (out : res itier) : bool :=
  match out with
  | Err _ => false
  | Ok t' =>
      text_eqb (iname t') (iname A)
      && ients_eqb (ients t') (ients A ++ map (shift (imax A)) (ients B))
      && (imin t' =? imin A) && (imax t' =? imax A + imax B)
  end.

Definition append_p_oracle (A B : ptier) (out : res ptier) : bool :=
  match out with
  | Err _ => false
  | Ok t' =>
      text_eqb (pname t') (pname A)
      (* A's points followed by B's shifted by A's end; a tier holds its points in (time, label) order, which
         only matters when A's last point and B's first land on the same time *)
      && pents_eqb (pents t') (isortp (pents A ++ map (pshift (pmax A)) (pents B)))
      && (pmin t' =? pmin A) && (pmax t' =? pmax A + pmax B)
  end.

(* Textgrid.editTimestamps: same tiers in the same order, each edited on its own (empty tiers kept) *)
Fixpoint forall2b {A B} (f : A -> B -> bool) (l : list A) (m : list B) : bool :=
  match l, m with
  | [], [] => true
  | x :: l', y :: m' => f x y && forall2b f l' m'
  | _, _ => false
  end.

Definition tg_edit_oracle (g : tg) (o : Z) (mode : repmode) (out : res tg) : bool :=
  match out with
  | Ok g' =>
      forall2b (fun t t' => if tents_empty t then tier_eqb t t' else res_eqb tier_eqb (edit_tier t o RSilence) (Ok t'))
               (tiers g) (tiers g')
  | Err e =>
      (* only the error mode may refuse, and only when something leaves a span *)
      match mode with RError => true | _ => false end
  end.

(* Textgrid.appendTextgrid: the tier set and order per onlyMatchingNames; B's entries moved by A's end *)
Definition expect_append_tier (A B : tg) (mn ma mx : Z) (n : text) : option tier :=
  match find_tier n (tiers A), find_tier n (tiers B) with
  | Some (TI a), Some (TI b) => Some (TI (mkIT n (ients a ++ map (shift ma) (ients b)) mn mx))
  | Some (TP a), Some (TP b) => Some (TP (mkPT n (isortp (pents a ++ map (pshift ma) (pents b))) mn mx))
  | Some t, None => Some t                                   (* a tier of A alone is carried over as it is *)
  | None, Some (TI b) => Some (TI (mkIT n (map (shift ma) (ients b)) mn mx))
  | None, Some (TP b) => Some (TP (mkPT n (map (pshift ma) (pents b)) mn mx))
  | _, _ => None
  end.

Definition tg_append_oracle (A B : tg) (only : bool) (out : res tg) : bool :=
  match out, tgmin A, tgmax A, tgmax B with
  | Ok g', Some mn, Some ma, Some mb =>
      let na := names A in let nb := names B in
      let wanted := if only then filter (fun n => name_in n nb) na
                    else na ++ filter (fun n => negb (name_in n na)) nb in
      list_eqb text_eqb (names g') wanted
      && forallb (fun t' => match expect_append_tier A B mn ma (ma + mb) (tname t') with
                            | Some t => tier_eqb t t' | None => false end) (tiers g')
      && option_eqb Z.eqb (tgmin g') (Some mn) && option_eqb Z.eqb (tgmax g') (Some (ma + mb))
  | _, _, _, _ => false
  end.

Definition C09oracle (c : C09case) : bool :=
  match c with
  | EditI t o m out pr => edit_i_oracle t o m out pr
  | EditP t o m out pr => edit_p_oracle t o m out pr
  | EditRT t o out => edit_rt_oracle t o out
  | AppendI A B out => append_i_oracle A B out
  | AppendP A B out => append_p_oracle A B out
  | TgEditC g o m out => tg_edit_oracle g o m out
  | TgAppendC A B only out => tg_append_oracle A B only out
  end.

Definition C09hyp (c : C09case) : bool :=
  match c with
  | EditI t _ _ _ _ | EditRT t _ _ => wf_itierb t
  | EditP t _ _ _ _ => wf_ptierb t
  | AppendI A B _ => wf_itierb A && wf_itierb B && (imin A <=? imax A) && (0 <=? imax A) && (0 <=? imin B) && (0 <=? imax B)
  | AppendP A B _ => wf_ptierb A && wf_ptierb B
  | TgEditC _ _ _ _ | TgAppendC _ _ _ _ => true
  end.
