(* Check/C19Check.v -- correspondence and oracle for C19 (KlattGrid point blocks, point objects). *)
From PraatIO Require Export Base.Prelude Klatt.PointsModel.

Fixpoint canon_tok (tab : list (text * text)) (k : text) : text :=
  match tab with
  | [] => k
  | (a, b) :: tab' => if text_eqb a k then b else canon_tok tab' k
  end.

Definition pair_eqb (a b : text * text) : bool := text_eqb (fst a) (fst b) && text_eqb (snd a) (snd b).

Inductive C19case :=
(* klattgrid._processSectionData(block): (time, value) as canonical number texts *)
| ProcSection (block : text) (canon : list (text * text)) (out : res (list (text * text)))
(* the text PointObject.save wrote for (class, min, max, values), all as tokens *)
| PoSave (cls mn mx : text) (n : nat) (vals : list text) (out : text)
(* data_points.open1DPointObject / open2DPointObject on a short-form text *)
| PoOpen1 (data : text) (canon : list (text * text)) (out : res (text * text * list text))
| PoOpen2 (data : text) (canon : list (text * text)) (out : res (text * text * list (text * text))).

Definition canon_pairs tab (l : list (text * text)) := map (fun p => (canon_tok tab (fst p), canon_tok tab (snd p))) l.

Definition C19corr (c : C19case) : bool :=
  match c with
  | ProcSection b tab out =>
      res_eqb (list_eqb pair_eqb) (do l <- process_section b; Ok (canon_pairs tab l)) out
  | PoSave cls mn mx n vals out => text_eqb (po_save cls mn mx n vals) out
  | PoOpen1 data tab out =>
      res_eqb (fun a b => text_eqb (fst (fst a)) (fst (fst b)) && text_eqb (snd (fst a)) (snd (fst b))
                          && list_eqb text_eqb (snd a) (snd b))
              (do r <- po_open_1d data; let '(mn, mx, vs) := r in Ok (canon_tok tab mn, canon_tok tab mx, map (canon_tok tab) vs)) out
  | PoOpen2 data tab out =>
      res_eqb (fun a b => text_eqb (fst (fst a)) (fst (fst b)) && text_eqb (snd (fst a)) (snd (fst b))
                          && list_eqb pair_eqb (snd a) (snd b))
              (do r <- po_open_2d data; let '(mn, mx, ps) := r in Ok (canon_tok tab mn, canon_tok tab mx, canon_pairs tab ps)) out
  end.

Definition C19true (c : C19case) : bool := true.
