(* Check/IoCheck.v -- correspondence and oracles for C01-C04 (TextGrid text I/O). *)
From Coq Require Import String.
From PraatIO Require Export Check.Common IO.IoModel IO.PrepSpec IO.DupNames IO.CodecProofs IO.ShortFileProofs IO.LongFileProofs IO.JsonDict.
Open Scope Z_scope.

(* as the source stands: point marks are un-doubled by the long-form reader *)
Definition POINT_MARK_UNDOUBLED : bool := true.

Definition otext_eqb := option_eqb text_eqb.

(* ------------------------------------------------------------------ *)
(* a reference reader written from the Praat TextGrid file-format page:  *)
(* free-standing numbers, quoted strings, <flags>; everything else is    *)
(* comment                                                              *)

Inductive tok := TNum (s : text) | TStr (s : text) | TFlag (s : text).

Fixpoint ref_string (fuel : nat) (s : text) (acc_rev : text) : option (text * text) :=
  match fuel with
  | O => None
  | S f =>
      match s with
      | [] => None
      | 34%N :: 34%N :: s' => ref_string f s' (34%N :: acc_rev)     (* doubled quote *)
      | 34%N :: s' => Some (rev acc_rev, s')
      | c :: s' => ref_string f s' (c :: acc_rev)
      end
  end.

Definition isdig (c : N) : bool := ((48 <=? c) && (c <=? 57))%N.

(* -?digits[.digits][(e|E)[+-]digits] *)
Definition is_number_word (w : text) : bool :=
  let w := match w with 45%N :: r => r | _ => w end in
  let '(ip, r1) := take_while isdig w in
  match ip with
  | [] => false
  | _ =>
      let r2 := match r1 with
                | 46%N :: r => let '(fp, r') := take_while isdig r in
                               match fp with [] => r1 | _ => r' end
                | _ => r1 end in
      match r2 with
      | [] => true
      | c :: r =>
          if ((c =? 101) || (c =? 69))%N then
            let r := match r with 43%N :: x | 45%N :: x => x | _ => r end in
            let '(ep, r') := take_while isdig r in
            match ep, r' with _ :: _, [] => true | _, _ => false end
          else false
      end
  end.

Fixpoint ref_tokens (fuel : nat) (s : text) : option (list tok) :=
  match fuel with
  | O => Some []
  | S f =>
      match s with
      | [] => Some []
      | c :: s' =>
          if isspace c then ref_tokens f s'
          else if (c =? 34)%N then
            match ref_string (S (length s')) s' [] with
            | Some (str, r) => match ref_tokens f r with Some l => Some (TStr str :: l) | None => None end
            | None => None end
          else if (c =? 33)%N then      (* ! comment to end of line *)
            match take_line s' with
            | Some (_, r) => ref_tokens f r
            | None => Some [] end
          else
            let '(w, r) := take_while (fun x => negb (isspace x)) s in
            match ref_tokens f r with
            | Some l =>
                if (c =? 60)%N && match last_opt w with Some 62%N => true | _ => false end then Some (TFlag w :: l)
                else if is_number_word w then Some (TNum w :: l) else Some l
            | None => None end
      end
  end.

Definition tokenize (s : text) : option (list tok) := ref_tokens (S (length s)) s.

Fixpoint text_to_nat (s : text) (acc : nat) : option nat :=
  match s with
  | [] => Some acc
  | c :: s' => if isdig c then text_to_nat s' (acc * 10 + N.to_nat (c - 48)) else None
  end.

Fixpoint ref_entries (isint : bool) (n : nat) (l : list tok) : option (list rentry * list tok) :=
  match n with
  | O => Some ([], l)
  | S n' =>
      if isint then
        match l with
        | TNum s :: TNum e :: TStr lab :: l' =>
            match ref_entries isint n' l' with Some (es, r) => Some (RI s e lab :: es, r) | None => None end
        | _ => None end
      else
        match l with
        | TNum t :: TStr lab :: l' =>
            match ref_entries isint n' l' with Some (es, r) => Some (RP t lab :: es, r) | None => None end
        | _ => None end
  end.

Fixpoint ref_tiers (n : nat) (l : list tok) : option (list rtier * list tok) :=
  match n with
  | O => Some ([], l)
  | S n' =>
      match l with
      | TStr cls :: TStr nm :: TNum mn :: TNum mx :: TNum cnt :: l' =>
          let isint := text_eqb cls (T "IntervalTier") in
          if isint || text_eqb cls (T "TextTier") then
            match text_to_nat cnt 0 with
            | Some k =>
                match ref_entries isint k l' with
                | Some (es, r) =>
                    match ref_tiers n' r with
                    | Some (ts, r') => Some (mkRT isint nm mn mx es :: ts, r')
                    | None => None end
                | None => None end
            | None => None end
          else None
      | _ => None end
  end.

(* every declared size must equal the number of items that follow, and nothing may be left over *)
Definition ref_parse (s : text) : option rtg :=
  match tokenize s with
  | Some (TStr ft :: TStr oc :: TNum mn :: TNum mx :: TFlag fl :: TNum n :: l) =>
      if text_eqb ft (T "ooTextFile") && text_eqb oc (T "TextGrid") && text_eqb fl (T "<exists>") then
        match text_to_nat n 0 with
        | Some k => match ref_tiers k l with
                    | Some (ts, []) => Some (mkRTG mn mx ts)
                    | _ => None end
        | None => None end
      else None
  | _ => None
  end.

(* the in-memory data as the tokens the file must carry *)
Definition expect_entry (tab : numtab) (e : dentry) : rentry :=
  match e with
  | DI s e l => RI (num_str (lookup tab s)) (num_str (lookup tab e)) l
  | DP t l => RP (num_str (lookup tab t)) l
  end.
Definition expect_tier (tab : numtab) (t : dtier) : rtier :=
  mkRT (d_isint t) (d_name t) (num_str (lookup tab (d_xmin t))) (num_str (lookup tab (d_xmax t)))
       (map (expect_entry tab) (d_ents t)).
Definition expect_tg (tab : numtab) (g : dtg) : rtg :=
  mkRTG (num_str (lookup tab (dg_xmin g))) (num_str (lookup tab (dg_xmax g))) (map (expect_tier tab) (dg_tiers g)).

(* every double quote inside a written string is doubled: un-doubling the
   written form gives back the string, and no lone quote occurs in it *)
Fixpoint all_quotes_paired (s : text) : bool :=
  match s with
  | 34%N :: 34%N :: s' => all_quotes_paired s'
  | 34%N :: _ => false
  | _ :: s' => all_quotes_paired s'
  | [] => true
  end.

(* ------------------------------------------------------------------ *)
(* C04: what saving may change                                          *)

Fixpoint subseq_labels (a b : list dentry) : bool :=     (* labels of a form a subsequence of labels of b *)
  match a, b with
  | [], _ => true
  | _ :: _, [] => false
  | x :: a', y :: b' => if text_eqb (dl x) (dl y) then subseq_labels a' b' else subseq_labels a b'
  end.

Definition prep_tier_oracle (blanks : bool) (minT maxT : Z) (thr : option (Z * Z)) (t t' : dtier) : bool :=
  let src := dsort (d_ents t) in
  let out := d_ents t' in
  Bool.eqb (d_isint t') (d_isint t) && text_eqb (d_name t') (d_name t)
  && (if blanks && d_isint t then
        (* an ascending, gap-free, overlap-free partition of [minT, maxT] *)
        (match partitionb minT out with Some e => e =? maxT | None => false end)
        (* no written interval is shorter than the threshold -- unless the tier is a single interval, which then is
           the whole span (nothing is left to absorb it); with None every one has positive length *)
        && (forallb (fun e => match thr with Some th => negb (below th (dlen e)) | None => 0 <? dlen e end) out
            || match out, thr with [e], Some _ => (ds e =? minT) && (de e =? maxT) | _, _ => false end)
        (* every labelled interval at least that long is written with its label, in order *)
        && subseq_labels (filter (fun e => match thr with Some th => negb (below th (dlen e)) | None => true end)
                                 (labelled src)) out
        (* nothing labelled is invented *)
        && subseq_labels (labelled out) (labelled src)
        (* boundaries unchanged unless a sliver next to the interval was absorbed: with no
           sub-threshold interval in the tier, the labelled entries are written verbatim *)
        && (if forallb (fun e => match thr with Some th => negb (below th (dlen e)) | None => true end) src
               && forallb (fun e => match thr with Some th => negb (below th (dlen e)) | None => true end)
                          (match fill_blanks minT maxT src with Ok l => l | Err _ => [] end)
            then list_eqb dentry_eqb (labelled out) (labelled src) else true)
      else list_eqb dentry_eqb out src)
  .

Definition prep_oracle (blanks : bool) (mn mx : option Z) (thr : option (Z * Z)) (g : dtg) (out : res dtg) : bool :=
  let minT := match mn with Some a => a | None => dg_xmin g end in
  let maxT := match mx with Some b => b | None => dg_xmax g end in
  (* an entry outside the requested span: the save must raise (interval tiers, blanks on) *)
  let outside := outside_override mn mx g
                 || existsb (fun t => blanks && d_isint t &&
                    existsb (fun e => (ds e <? minT) || (maxT <? de e)) (d_ents t)) (dg_tiers g) in
  match out with
  | Err e => outside
  | Ok g' =>
      negb outside
      && (dg_xmin g' =? minT) && (dg_xmax g' =? maxT)        (* an override becomes the file's span *)
      && (length (dg_tiers g') =? length (dg_tiers g))%nat
      && forallb (fun tt => prep_tier_oracle blanks minT maxT thr (fst tt) (snd tt)) (combine (dg_tiers g) (dg_tiers g'))
  end.

(* ------------------------------------------------------------------ *)

Inductive IOcase :=
| PrepTg (blanks : bool) (mn mx : option Z) (thr : option (Z * Z)) (g : dtg) (out : res dtg)
| SaveText (long blanks : bool) (mn mx : option Z) (thr : option (Z * Z)) (tab : numtab) (g : dtg) (out : res text)
| ParseText (includeEmpty : bool) (data : text) (out : res rtg)
(* tier- and textgrid-level numbers are converted by the reader: they are compared
   through a table token -> canonical form of its value, supplied by the harness *)
| ParseTextN (includeEmpty : bool) (data : text) (canon : list (text * text)) (out : res rtg)
| RefRead (tab : numtab) (g : dtg) (data : text)            (* g = prepared data; data = text the implementation wrote *)
(* what Textgrid.save wrote (or that it raised) for in-memory data g *)
(* malformed / mutated short-form text: floats, iofs = the tokens Python's float() and
   strToIntOrFloat accept among the candidate tokens of this text *)
| ParseShortM (data : text) (floats iofs : list text) (canon : list (text * text)) (out : res rtg)
| ParseLongM (data : text) (floats iofs : list text) (canon : list (text * text)) (out : res rtg)
(* duplicate tier names on opening: names in file order, the names of the opened textgrid *)
| DupNames (mode : dupmode) (names : list text) (out : res (list text))
| RefSave (long blanks : bool) (mn mx : option Z) (thr : option (Z * Z)) (tab : numtab) (g : dtg) (out : res text)
(* a long-form file written by the independent writer in a layout of the family of IO/LongStyleProofs.v
   (what follows a tier / entry index, the two indentations, what follows numbers / strings), the data
   it encodes and the text as the reader sees it: only used to evaluate the hypothesis of the
   whole-file theorem C03_long_family_file on the files actually generated *)
| LongStyledC (close_t close_e ind_t ind_e trn trs : text) (tab : numtab) (g : dtg) (data : text)
(* the dictionary conversions behind the plain json format: what _downconvertDictionaryForJson returned for g
   and what _upconvertDictionaryFromJson returned for that *)
| JsonConvC (g : dtg) (down : jtg) (up : dtg).

Fixpoint canon_lookup (tab : list (text * text)) (k : text) : text :=
  match tab with
  | [] => k
  | (a, b) :: tab' => if text_eqb a k then b else canon_lookup tab' k
  end.
Definition canon_rtg (tab : list (text * text)) (g : rtg) : rtg :=
  mkRTG (canon_lookup tab (rg_xmin g)) (canon_lookup tab (rg_xmax g))
        (map (fun t => mkRT (r_isint t) (r_name t) (canon_lookup tab (r_xmin t)) (canon_lookup tab (r_xmax t)) (r_ents t))
             (rg_tiers g)).

Definition IOcorr (c : IOcase) : bool :=
  match c with
  | PrepTg b mn mx th g out => res_eqb dtg_eqb (prep_tg b mn mx th g) out
  | SaveText lg b mn mx th tab g out => res_eqb text_eqb (save_text lg b mn mx th tab g) out
  | ParseText ie data out => res_eqb rtg_eqb (parse_text POINT_MARK_UNDOUBLED ie data) out
  | ParseTextN ie data tab out =>
      res_eqb rtg_eqb (do g <- parse_text POINT_MARK_UNDOUBLED ie data; Ok (canon_rtg tab g)) out
  | RefRead _ _ _ => true
  | RefSave lg b mn mx th tab g out => res_eqb text_eqb (save_text lg b mn mx th tab g) out
  | LongStyledC _ _ _ _ _ _ _ _ _ => true
  | JsonConvC g down up =>
      let d := json_down g in
      (jg_start d =? jg_start down) && (jg_end d =? jg_end down)
      && list_eqb (fun a b => text_eqb (fst a) (fst b) && Bool.eqb (j_isint (snd a)) (j_isint (snd b))
                              && list_eqb dentry_eqb (j_ents (snd a)) (j_ents (snd b))) (jg_tiers d) (jg_tiers down)
      && dtg_eqb (json_up down) up
  | DupNames m names out => res_eqb (list_eqb text_eqb) (open_names m names []) out
  | ParseLongM data floats iofs tab out =>
      res_eqb rtg_eqb (do g <- parse_long_chk (fun t => existsb (text_eqb t) floats) (fun t => existsb (text_eqb t) iofs)
                                              POINT_MARK_UNDOUBLED data;
                       Ok (canon_rtg tab g)) out
  | ParseShortM data floats iofs tab out =>
      res_eqb rtg_eqb (do g <- parse_short_chk (fun t => existsb (text_eqb t) floats) (fun t => existsb (text_eqb t) iofs) data;
                       Ok (canon_rtg tab g)) out
  end.

(* the same oracle with the recorded finding F19 excused and nothing else: a blank-filled tier in
   which every interval is below the threshold may come out empty *)
Definition all_short (minT maxT : Z) (thr : option (Z * Z)) (t : dtier) : bool :=
  match thr with
  | Some th => match fill_blanks minT maxT (dsort (d_ents t)) with
               | Ok l => forallb (fun e => below th (dlen e)) l
               | Err _ => false end
  | None => false
  end.

Definition prep_oracle_f19 (blanks : bool) (mn mx : option Z) (thr : option (Z * Z)) (g : dtg) (out : res dtg) : bool :=
  let minT := match mn with Some a => a | None => dg_xmin g end in
  let maxT := match mx with Some b => b | None => dg_xmax g end in
  match out with
  | Ok g' =>
      (dg_xmin g' =? minT) && (dg_xmax g' =? maxT) && (length (dg_tiers g') =? length (dg_tiers g))%nat
      && forallb (fun tt => if blanks && d_isint (fst tt) && all_short minT maxT thr (fst tt)
                            then match d_ents (snd tt) with [] => text_eqb (d_name (snd tt)) (d_name (fst tt)) | _ => false end
                            else prep_tier_oracle blanks minT maxT thr (fst tt) (snd tt)) (combine (dg_tiers g) (dg_tiers g'))
  | Err _ => prep_oracle blanks mn mx thr g out
  end.

Definition C04oracle_f19 (c : IOcase) : bool :=
  match c with
  | PrepTg b mn mx th g out => prep_oracle_f19 b mn mx th g out
  | _ => true
  end.

Definition C04oracle (c : IOcase) : bool :=
  match c with
  | PrepTg b mn mx th g out => prep_oracle b mn mx th g out
  | _ => true
  end.

(* C02: an independent spec-based reader recovers exactly the in-memory data
   from the written text *)
Definition C02oracle (c : IOcase) : bool :=
  match c with
  | RefRead tab g data =>
      match ref_parse data with
      | Some r => rtg_eqb r (expect_tg tab g)
      | None => false
      end
  | RefSave lg b mn mx th tab g out =>
      match out, prep_tg b mn mx th g with
      | Ok data, Ok g' =>
          match ref_parse data with
          | Some r => rtg_eqb r (expect_tg tab g')
          | None => false
          end
      | Err _, Err _ => true
      | _, _ => false
      end
  | _ => true
  end.

Fixpoint nodupb (l : list text) : bool :=
  match l with [] => true | x :: l' => negb (name_mem x l') && nodupb l' end.

(* a name that has not been handed out yet is kept as it is *)
Fixpoint firsts_kept (used names out : list text) : bool :=
  match names, out with
  | n :: names', o :: out' => (if name_mem n used then true else text_eqb n o) && firsts_kept (o :: used) names' out'
  | [], [] => true
  | _, _ => false
  end.

(* C03, duplicate-name clause, written from the property text *)
Definition C03oracle (c : IOcase) : bool :=
  match c with
  | DupNames m names out =>
      match out with
      | Ok o => nodupb o && (length o =? length names)%nat && firsts_kept [] names o
                && (match m with DupError => nodupb names | DupRename => true end)
      | Err e => match m with DupError => err_eqb e DuplicateTierName && negb (nodupb names) | DupRename => false end
      end
  | _ => true
  end.

Definition IOtrue (c : IOcase) : bool := true.

(* is a written short-form / long-form file inside the hypotheses of the whole-file theorems
   C01_short_file_roundtrip / C01_long_file_roundtrip? *)
Definition C01hyp (c : IOcase) : bool :=
  match c with
  | SaveText false b mn mx th tab g _ =>
      match prep_tg b mn mx th g with
      | Ok g' => negb (match dg_tiers g' with [] => true | _ => false end) && chunk_ok tab g'
                 && forallb (tier_ok tab) (dg_tiers g')
                 && plain_tok (num_str (lookup tab (dg_xmin g'))) && plain_tok (num_str (lookup tab (dg_xmax g')))
      | Err _ => true
      end
  | SaveText true b mn mx th tab g _ =>
      match prep_tg b mn mx th g with
      | Ok g' => lfile_ok tab g' && forallb (fun c => negb (c =? 13)%N) (print_long tab g')
      | Err _ => true
      end
  | _ => true
  end.
