(* Check/C17Check.v -- correspondence and oracle for C17 (interval-driven extraction). *)
From PraatIO Require Export Check.Common Audio.KeepDelete.
Open Scope Z_scope.

Definition zl_eqb := list_eqb Z.eqb.
Definition mark_eqb (a b : mark) : bool :=
  (m_start a =? m_start b) && (m_end a =? m_end b) && Bool.eqb (m_keep a) (m_keep b).

Inductive C17case :=
| KeepDel (start stop : Z) (keep del : list row) (out : res (list mark))
(* readFramesAtTimes on a file holding samples s; K ticks per sample; replace = silence generator *)
| ReadAt (K : Z) (s : list Z) (keep del : list row) (replace : bool) (out : res (list Z)).

Definition C17corr (c : C17case) : bool :=
  match c with
  | KeepDel a b k d out => res_eqb (list_eqb mark_eqb) (keep_delete a b k d) out
  | ReadAt K s k d rep out => res_eqb zl_eqb (read_at_times K s k d (if rep then Some silence else None)) out
  end.

(* written from the property text: which sample indices are kept *)
Definition in_some (K : Z) (l : list row) (i : Z) : bool :=
  existsb (fun r => (fr K (fst r) <=? i) && (i <? fr K (snd r))) l.
Definition kept (K : Z) (keep del : list row) (i : Z) : bool :=
  match keep, del with
  | [], [] => true
  | [], _ => negb (in_some K del i)
  | _, _ => in_some K keep i
  end.

Fixpoint with_index {A} (i : Z) (l : list A) : list (Z * A) :=
  match l with [] => [] | x :: l' => (i, x) :: with_index (i + 1) l' end.

(* a well-formed request: intervals positive, in order, disjoint, inside the recording *)
Fixpoint rchainb (lo : Z) (l : list row) (hi : Z) : bool :=
  match l with
  | [] => lo <=? hi
  | r :: l' => (lo <=? fst r) && (fst r <? snd r) && rchainb (snd r) l' hi
  end.
Definition on_samples (K : Z) (l : list row) : bool :=
  forallb (fun r => (fst r mod K =? 0) && (snd r mod K =? 0)) l.

Definition C17oracle (c : C17case) : bool :=
  match c with
  | KeepDel a b k d out =>
      match k, d with
      | _ :: _, _ :: _ => is_err ArgumentError out
      | _, _ =>
          if rchainb a (k ++ d) b && (a <? b) then
            match out with
            | Ok ms =>
                (* the labelled stretches tile [start, stop] in order, the given intervals keep their label *)
                (fix tile (lo : Z) (ms : list mark) : bool :=
                   match ms with
                   | [] => lo =? b
                   | m :: ms' => (m_start m =? lo) && (m_start m <? m_end m) && tile (m_end m) ms'
                   end) a ms
                && forallb (fun r => existsb (mark_eqb (fst r, snd r, true)) ms) k
                && forallb (fun r => existsb (mark_eqb (fst r, snd r, false)) ms) d
            | Err _ => false
            end
          else true
      end
  | ReadAt K s k d rep out =>
      let dur := Z.of_nat (length s) * K in
      match k, d with
      | _ :: _, _ :: _ => is_err ArgumentError out
      | _, _ =>
          if existsb (fun r => dur <? snd r) (k ++ d) then
            (* times beyond the recording are rejected *)
            (if rchainb 0 (k ++ d) (dur + 1000000) then is_err ArgumentError out else true)
          else if rchainb 0 (k ++ d) dur && (0 <? dur) then
            match out with
            | Ok r =>
                if rep then
                  if on_samples K (k ++ d) then
                    (* original length, every kept sample at its original position, silence elsewhere *)
                    zl_eqb r (map (fun ix => if kept K k d (fst ix) then snd ix else 0) (with_index 0 s))
                  else true
                else
                  (* exactly the samples of the kept stretches, in order *)
                  zl_eqb r (map snd (filter (fun ix => kept K k d (fst ix)) (with_index 0 s)))
            | Err _ => false
            end
          else true
      end
  end.

Definition C17hyp (c : C17case) : bool :=
  match c with
  | KeepDel a b k d _ => rchainb a (k ++ d) b && (a <? b) && match k, d with _ :: _, _ :: _ => false | _, _ => true end
  | ReadAt K s k d _ _ => rchainb 0 (k ++ d) (Z.of_nat (length s) * K) && (0 <? K)
  end.
