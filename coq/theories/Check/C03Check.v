(* Check/C03Check.v -- is a generated long-form file (Praat or ELAN layout, LF or CRLF) inside the
   hypotheses of the whole-file theorem of the layout family (C03_long_family_file)? *)
From PraatIO Require Export Check.IoCheck IO.LongStyleProofs.
Open Scope Z_scope.

Definition C03hyp (c : IOcase) : bool :=
  match c with
  | LongStyledC ct ce it ie trn trs tab g data => lfile_ok_s (mkLS ct ce it ie trn trs) tab g (crlf_to_lf data)
  | _ => true
  end.
