(* Textgrid/TgAppendProofs.v -- appendTextgrid, tier by tier: what the tier named n of the result is *)
From Coq Require Import Lia Permutation.
From PraatIO Require Import Tier.TierModel Textgrid.TgModel Textgrid.TgProofs.
Open Scope Z_scope.

Lemma find_subst_same n t' l : In n (map tname l) -> tname t' = n -> find_tier n (subst_named n t' l) = Some t'.
Proof.
  induction l as [|t l IH]; intros Hin Hn; [destruct Hin|]. cbn [subst_named].
  destruct (text_eqb (tname t) n) eqn:E.
  - cbn [find_tier]. rewrite Hn, text_eqb_refl. reflexivity.
  - cbn [find_tier]. rewrite E. apply IH; [|exact Hn]. destruct Hin as [H|H]; [|exact H].
    apply text_eqb_neq in E. contradiction.
Qed.

Lemma find_subst_other n m t' l : tname t' = n -> m <> n -> find_tier m (subst_named n t' l) = find_tier m l.
Proof.
  intros Hn Hm. induction l as [|t l IH]; [reflexivity|]. cbn [subst_named].
  destruct (text_eqb (tname t) n) eqn:E.
  - cbn [find_tier]. apply text_eqb_eq in E.
    assert (text_eqb (tname t') m = false) as -> by (apply text_eqb_neq; congruence).
    assert (text_eqb (tname t) m = false) as -> by (apply text_eqb_neq; congruence). reflexivity.
  - cbn [find_tier]. now rewrite IH.
Qed.

Lemma find_app_last m l t : find_tier m (l ++ [t]) =
  match find_tier m l with Some x => Some x | None => if text_eqb (tname t) m then Some t else None end.
Proof.
  induction l as [|u l IH]; cbn [app find_tier]; [reflexivity|].
  destruct (text_eqb (tname u) m); [reflexivity|exact IH].
Qed.

(* what one step of the second loop makes of the tier named n *)
Definition appended (ma mn mx : Z) (B : tg) (old : option tier) (n : text) (new : option tier) : Prop :=
  match find_tier n (tiers B) with
  | None => new = old
  | Some tb =>
      exists t1 t2 t3, respan tb mn mx = Ok t1 /\ edit_tier t1 ma RWarning = Ok t2 /\ new = Some t3 /\
        match old with
        | Some ta => join_entries ta t2 mn mx = Ok t3
        | None => respan t2 mn mx = Ok t3
        end
  end.

Lemma append_one_lookup ma mn mx B g n g' :
  append_one ma mn mx B g n = Ok g' ->
  appended ma mn mx B (find_tier n (tiers g)) n (find_tier n (tiers g'))
  /\ forall m, m <> n -> find_tier m (tiers g') = find_tier m (tiers g).
Proof.
  unfold append_one, appended. destruct (find_tier n (tiers B)) as [tb|] eqn:FB.
  - destruct (find_tier_name _ _ _ FB) as [NB _].
    destruct (respan tb mn mx) as [t1|] eqn:R1; [|discriminate]. cbn [bind].
    destruct (edit_tier t1 ma RWarning) as [t2|] eqn:E2; [|discriminate]. cbn [bind].
    assert (tname t2 = n) as N2 by (rewrite (edit_tier_name _ _ _ _ E2), (respan_name _ _ _ _ R1); exact NB).
    destruct (find_tier n (tiers g)) as [ta|] eqn:FG.
    + destruct (find_tier_name _ _ _ FG) as [NA InA].
      destruct (join_entries ta t2 mn mx) as [t3|] eqn:J; [|discriminate]. cbn [bind].
      destruct (replace_step g n t3 RWarning) as [[u|e] g2] eqn:RS; [|discriminate]. intros [= <-].
      destruct (replace_step_ok _ _ _ _ _ _ RS) as (k & Ek & T). rewrite (replace_list _ _ _ _ Ek) in T.
      assert (tname t3 = n) as N3 by (rewrite (join_entries_name _ _ _ _ _ J); exact NA).
      rewrite T. split.
      * exists t1, t2, t3. repeat split; auto. apply find_subst_same; [|exact N3]. rewrite <- NA. now apply in_map.
      * intros m Hm. now apply find_subst_other.
    + destruct (respan t2 mn mx) as [t3|] eqn:R3; [|discriminate]. cbn [bind].
      destruct (add_step g t3 None RWarning) as [[u|e] g2] eqn:A; [|discriminate]. intros [= <-].
      destruct (add_step_none_ok _ _ _ _ _ A) as [T _]. rewrite T.
      assert (tname t3 = n) as N3 by (rewrite (respan_name _ _ _ _ R3); exact N2).
      split.
      * exists t1, t2, t3. repeat split; auto. rewrite find_app_last, FG, N3, text_eqb_refl. reflexivity.
      * intros m Hm. rewrite find_app_last. destruct (find_tier m (tiers g)); [reflexivity|].
        assert (text_eqb (tname t3) m = false) as -> by (apply text_eqb_neq; congruence). reflexivity.
  - intros [= <-]. split; [reflexivity|auto].
Qed.

Lemma fold_append_lookup ma mn mx B : forall final g g', NoDup final ->
  fold_res (append_one ma mn mx B) final g = Ok g' ->
  forall n, (In n final -> appended ma mn mx B (find_tier n (tiers g)) n (find_tier n (tiers g')))
            /\ (~ In n final -> find_tier n (tiers g') = find_tier n (tiers g)).
Proof.
  induction final as [|m rest IH]; intros g g' ND H n; cbn [fold_res] in H.
  - injection H as <-. split; [intros []|reflexivity].
  - destruct (append_one ma mn mx B g m) as [g2|] eqn:A; [|discriminate]. cbn [bind] in H.
    inversion ND as [|? ? NI ND']; subst.
    destruct (append_one_lookup _ _ _ _ _ _ _ A) as [Hm Ho].
    destruct (IH _ _ ND' H n) as [I1 I2]. split.
    + intros [<-|Hin].
      * rewrite (I2 NI). exact Hm.
      * assert (n <> m) as Hne by (intro; subst; contradiction).
        rewrite <- (Ho n Hne). apply I1, Hin.
    + intro Hn. assert (n <> m) as Hne by (intro; subst; apply Hn; now left).
      rewrite I2 by (intro; apply Hn; now right). apply Ho, Hne.
Qed.

Lemma find_filter_map A final n : NoDup final ->
  find_tier n (filter_map (fun m => find_tier m (tiers A)) final) = (if name_in n final then find_tier n (tiers A) else None).
Proof.
  induction final as [|m rest IH]; intro ND; [reflexivity|]. inversion ND as [|? ? NI ND']; subst.
  cbn [filter_map name_in existsb]. fold (name_in n rest).
  destruct (find_tier m (tiers A)) as [t|] eqn:F.
  - destruct (find_tier_name _ _ _ F) as [N _]. cbn [find_tier]. rewrite N.
    destruct (text_eqb n m) eqn:E.
    + apply text_eqb_eq in E. subst. rewrite text_eqb_refl. cbn [orb]. now rewrite F.
    + assert (text_eqb m n = false) as -> by (apply text_eqb_neq; apply text_eqb_neq in E; congruence).
      cbn [orb]. apply IH, ND'.
  - destruct (text_eqb n m) eqn:E.
    + apply text_eqb_eq in E. subst. cbn [orb]. rewrite (IH ND').
      assert (name_in m rest = false) as -> by (destruct (name_in m rest) eqn:X; [apply name_in_In in X; contradiction|reflexivity]).
      now rewrite F.
    + cbn [orb]. apply IH, ND'.
Qed.

(* appendTextgrid: the tier named n of the result.  A tier only A has is A's tier; a tier B has is B's tier re-spanned to
   the joint span and moved by A's duration (editTimestamps), joined to A's entries of that name when A has it *)
Theorem tg_append_tier A B only g' n mn ma mb :
  NoDup (names A) -> NoDup (names B) ->
  tgmin A = Some mn -> tgmax A = Some ma -> tgmax B = Some mb ->
  tg_append A B only = Ok g' -> In n (final_names A B only) ->
  appended ma mn (ma + mb) B (find_tier n (tiers A)) n (find_tier n (tiers g')).
Proof.
  intros HA HB Emn Ema Emb H Hn. unfold tg_append in H. rewrite Emn, Ema, Emb in H. cbv zeta in H.
  pose proof (final_names_nodup A B only HA HB) as NDF.
  destruct (add_all _ _ RWarning) as [g1|] eqn:AA; [|discriminate]. cbn [bind] in H.
  pose proof (add_all_inv _ _ _ _ AA) as T1. cbn [tiers app] in T1.
  destruct (fold_append_lookup _ _ _ _ _ _ _ NDF H n) as [I1 _].
  specialize (I1 Hn). rewrite T1, (find_filter_map A _ n NDF) in I1.
  assert (name_in n (final_names A B only) = true) as X by now apply name_in_In.
  now rewrite X in I1.
Qed.
