(* Textgrid/TgModel.v -- model of praatio.data_classes.textgrid.Textgrid: an
   ordered, uniquely named collection of tiers with a span.  Mutators are step
   machines returning the outcome AND the state the object is left in. *)
From PraatIO Require Export Tier.TierOps.

Inductive tier := TI (t : itier) | TP (t : ptier).

Definition tname (t : tier) : text := match t with TI t => iname t | TP t => pname t end.
Definition tmin (t : tier) : Z := match t with TI t => imin t | TP t => pmin t end.
Definition tmax (t : tier) : Z := match t with TI t => imax t | TP t => pmax t end.

Definition tier_eqb (a b : tier) : bool :=
  match a, b with
  | TI x, TI y => itier_eqb x y
  | TP x, TP y => ptier_eqb x y
  | _, _ => false
  end.

Lemma tier_eqb_eq a b : tier_eqb a b = true <-> a = b.
Proof.
  destruct a, b; simpl; try (split; [discriminate|intro H; inversion H]).
  - rewrite itier_eqb_eq. split; congruence.
  - rewrite ptier_eqb_eq. split; congruence.
Qed.

Record tg := mkTG { tiers : list tier; tgmin : option Z; tgmax : option Z }.

Definition names (g : tg) : list text := map tname (tiers g).
Definition has_name (g : tg) (n : text) : bool := existsb (fun t => text_eqb (tname t) n) (tiers g).

Fixpoint find_tier (n : text) (l : list tier) : option tier :=
  match l with
  | [] => None
  | t :: l' => if text_eqb (tname t) n then Some t else find_tier n l'
  end.
Definition get_tier (g : tg) (n : text) : option tier := find_tier n (tiers g).

Fixpoint index_of (n : text) (l : list tier) : option nat :=
  match l with
  | [] => None
  | t :: l' => if text_eqb (tname t) n then Some 0%nat
               else match index_of n l' with Some k => Some (S k) | None => None end
  end.

Fixpoint remove_named (n : text) (l : list tier) : list tier :=
  match l with
  | [] => []
  | t :: l' => if text_eqb (tname t) n then l' else t :: remove_named n l'
  end.

Definition tg_eqb (a b : tg) : bool :=
  list_eqb tier_eqb (tiers a) (tiers b)
  && option_eqb Z.eqb (tgmin a) (tgmin b) && option_eqb Z.eqb (tgmax a) (tgmax b).

Lemma tg_eqb_eq a b : tg_eqb a b = true <-> a = b.
Proof.
  destruct a, b; unfold tg_eqb; simpl.
  rewrite !andb_true_iff, (list_eqb_eq _ tier_eqb_eq),
    !(option_eqb_eq _ Z.eqb_eq). split.
  - intros [[-> ->] ->]; reflexivity.
  - intros [= -> -> ->]; auto.
Qed.

(* ---------------- addTier ---------------- *)

Definition widens_min (g : tg) (t : tier) : bool :=
  match tgmin g with Some m => tmin t <? m | None => false end.
Definition widens_max (g : tg) (t : tier) : bool :=
  match tgmax g with Some m => m <? tmax t | None => false end.

Definition new_min (g : tg) (t : tier) : option Z :=
  match tgmin g with Some m => Some (Z.min m (tmin t)) | None => Some (tmin t) end.
Definition new_max (g : tg) (t : tier) : option Z :=
  match tgmax g with Some m => Some (Z.max m (tmax t)) | None => Some (tmax t) end.

(* order of the source: name check; span reports (error mode raises here,
   before anything is written); insertion; span update *)
Definition add_step (g : tg) (t : tier) (idx : option Z) (mode : repmode) : res unit * tg :=
  if has_name g (tname t) then (Err TierNameExistsError, g)
  else if (match mode with RError => true | _ => false end) && (widens_min g t || widens_max g t)
  then (Err TextgridStateAutoModified, g)
  else
    let l := match idx with None => tiers g ++ [t] | Some i => py_insert (tiers g) i t end in
    (Ok tt, mkTG l (new_min g t) (new_max g t)).

Definition add_reports (g : tg) (t : tier) (mode : repmode) : bool :=
  match mode with RWarning => negb (has_name g (tname t)) && (widens_min g t || widens_max g t) | _ => false end.

(* ---------------- removeTier ---------------- *)

Definition remove_step (g : tg) (n : text) : res tier * tg :=
  match get_tier g n with
  | Some t => (Ok t, mkTG (remove_named n (tiers g)) (tgmin g) (tgmax g))
  | None => (Err PyError, g)
  end.

(* ---------------- replaceTier: remove, add at the same index; on failure the
   removed tier is put back ---------------- *)

Definition replace_step (g : tg) (n : text) (t : tier) (mode : repmode) : res unit * tg :=
  match index_of n (tiers g), get_tier g n with
  | Some k, Some old =>
      let g1 := mkTG (remove_named n (tiers g)) (tgmin g) (tgmax g) in
      match add_step g1 t (Some (Z.of_nat k)) mode with
      | (Ok u, g2) => (Ok u, g2)
      | (Err e, g2) =>
          (* rollback: re-insert the old tier where it was *)
          (Err e, snd (add_step g2 old (Some (Z.of_nat k)) RSilence))
      end
  | _, _ => (Err PyError, g)
  end.

(* ---------------- renameTier: build the renamed tier, then replaceTier ---------------- *)

Definition rebuild_named (t : tier) (n : text) : res tier :=
  match t with
  | TI t => do t' <- new_itier n (ients t) (Some (imin t)) (Some (imax t)); Ok (TI t')
  | TP t => do t' <- new_ptier n (pents t) (Some (pmin t)) (Some (pmax t)); Ok (TP t')
  end.

Definition rename_step (g : tg) (old new : text) : res unit * tg :=
  match get_tier g old with
  | None => (Err PyError, g)
  | Some t =>
      match rebuild_named t new with
      | Err e => (Err e, g)
      | Ok t' => replace_step g old t' RWarning
      end
  end.

(* ---------------- operation sequences ---------------- *)

Inductive tgop :=
| TAdd (t : tier) (idx : option Z) (mode : repmode)
| TRemove (n : text)
| TRename (old new : text)
| TReplace (n : text) (t : tier) (mode : repmode).

Definition tg_step (g : tg) (o : tgop) : option err * tg :=
  let to_oe {A} (r : res A) := match r with Ok _ => None | Err e => Some e end in
  match o with
  | TAdd t idx m => let '(r, g') := add_step g t idx m in (to_oe r, g')
  | TRemove n => let '(r, g') := remove_step g n in (to_oe r, g')
  | TRename a b => let '(r, g') := rename_step g a b in (to_oe r, g')
  | TReplace n t m => let '(r, g') := replace_step g n t m in (to_oe r, g')
  end.

Definition tg_run (g : tg) (ops : list tgop) : tg := fold_left (fun g o => snd (tg_step g o)) ops g.

(* ---------------- the plain ordered-list specification ---------------- *)

(* an ordered list of tiers, no span, no partial states: what each operation
   does when it succeeds *)
Definition spec_step (l : list tier) (o : tgop) : list tier :=
  match o with
  | TAdd t idx _ => match idx with None => l ++ [t] | Some i => py_insert l i t end
  | TRemove n => remove_named n l
  | TRename a b =>
      match find_tier a l, index_of a l with
      | Some t, Some k =>
          match rebuild_named t b with
          | Ok t' => py_insert (remove_named a l) (Z.of_nat k) t'
          | Err _ => l end
      | _, _ => l end
  | TReplace n t _ =>
      match index_of n l with
      | Some k => py_insert (remove_named n l) (Z.of_nat k) t
      | None => l end
  end.

(* when does the list model reject an operation *)
Definition spec_rejects (l : list tier) (o : tgop) : bool :=
  let has n l := existsb (fun u => text_eqb (tname u) n) l in
  match o with
  | TAdd t _ _ => has (tname t) l
  | TRemove n => negb (has n l)
  | TRename a b => negb (has a l) || has b (remove_named a l)
  | TReplace n t _ => negb (has n l) || has (tname t) (remove_named n l)
  end.

(* ---------------- validate() ---------------- *)

Definition tier_validate (t : tier) : bool :=
  match t with TI t => validate_i t | TP t => validate_p t end.

Fixpoint nodupb (l : list text) : bool :=
  match l with
  | [] => true
  | x :: l' => negb (existsb (text_eqb x) l') && nodupb l'
  end.

Definition tg_validate (g : tg) : bool :=
  nodupb (names g)
  && forallb (fun t => option_eqb Z.eqb (tgmin g) (Some (tmin t))
                       && option_eqb Z.eqb (tgmax g) (Some (tmax t))
                       && tier_validate t) (tiers g).

(* ---------------- tier-wise edits ---------------- *)

Definition crop_tier (t : tier) a b m r : res tier :=
  match t with TI t => do x <- crop_i t a b m r; Ok (TI x) | TP t => do x <- crop_p t a b r; Ok (TP x) end.
Definition erase_tier (t : tier) a b s : res tier :=
  match t with TI t => do x <- erase_i t a b ETruncate s; Ok (TI x) | TP t => do x <- erase_p t a b s; Ok (TP x) end.
Definition space_tier (t : tier) s d m : res tier :=
  match t with TI t => do x <- space_i t s d m; Ok (TI x) | TP t => do x <- space_p t s d; Ok (TP x) end.

(* add a list of tiers to a fresh textgrid, in order *)
Fixpoint add_all (g : tg) (l : list tier) (mode : repmode) : res tg :=
  match l with
  | [] => Ok g
  | t :: l' => match add_step g t None mode with
               | (Ok _, g') => add_all g' l' mode
               | (Err e, _) => Err e end
  end.

Definition tg_crop (g : tg) (a b : Z) (m : cropmode) (r : bool) : res tg :=
  if b <=? a then Err ArgumentError else
  do l <- mapM (fun t => crop_tier t a b m r) (tiers g);
  add_all (if r then mkTG [] (Some 0) (Some (b - a)) else mkTG [] (Some a) (Some b)) l
          (match m with Lax => RSilence | _ => RWarning end).

Definition tg_erase (g : tg) (a b : Z) (s : bool) : res tg :=
  if b <=? a then Err ArgumentError else
  do l <- mapM (fun t => erase_tier t a b s) (tiers g);
  do g' <- add_all (mkTG [] (tgmin g) (tgmax g)) l RWarning;
  Ok (mkTG (tiers g') (tgmin g')
           (if s then match tgmax g with Some m => Some (m - (b - a)) | None => None end else tgmax g)).

Definition tg_space (g : tg) (s d : Z) (m : spacemode) : res tg :=
  do l <- mapM (fun t => space_tier t s d m) (tiers g);
  add_all (mkTG [] (tgmin g) (match tgmax g with Some x => Some (x + d) | None => None end)) l RWarning.

(* ---------------- Textgrid.editTimestamps: tier after tier, each added to a textgrid with the old span ---------------- *)

Definition tents_empty (t : tier) : bool :=
  match t with
  | TI t => match ients t with [] => true | _ => false end
  | TP t => match pents t with [] => true | _ => false end
  end.

Definition edit_tier (t : tier) (o : Z) (m : repmode) : res tier :=
  match t with TI t => do x <- edit_i t o m; Ok (TI x) | TP t => do x <- edit_p t o m; Ok (TP x) end.

(* tiers without entries are carried over unchanged (the source skips them) *)
Definition edit_or_keep (t : tier) (o : Z) (m : repmode) : res tier :=
  if tents_empty t then Ok t else edit_tier t o m.

Fixpoint edit_all (g : tg) (l : list tier) (o : Z) (m : repmode) : res tg :=
  match l with
  | [] => Ok g
  | t :: l' =>
      do t' <- edit_or_keep t o m;
      match add_step g t' None m with
      | (Ok _, g') => edit_all g' l' o m
      | (Err e, _) => Err e
      end
  end.

Definition tg_edit (g : tg) (o : Z) (m : repmode) : res tg :=
  edit_all (mkTG [] (tgmin g) (tgmax g)) (tiers g) o m.

(* ---------------- Textgrid.appendTextgrid ---------------- *)

Definition name_in (n : text) (l : list text) : bool := existsb (text_eqb n) l.

(* tier.new(minTimestamp=, maxTimestamp=): same name and entries, requested span *)
Definition respan (t : tier) (mn mx : Z) : res tier :=
  match t with
  | TI t => do x <- new_itier (iname t) (ients t) (Some mn) (Some mx); Ok (TI x)
  | TP t => do x <- new_ptier (pname t) (pents t) (Some mn) (Some mx); Ok (TP x)
  end.

(* tier.new(entries = own entries followed by the other tier's, span): kinds must agree *)
Definition join_entries (a b : tier) (mn mx : Z) : res tier :=
  match a, b with
  | TI a, TI b => do x <- new_itier (iname a) (ients a ++ ients b) (Some mn) (Some mx); Ok (TI x)
  | TP a, TP b => do x <- new_ptier (pname a) (pents a ++ pents b) (Some mn) (Some mx); Ok (TP x)
  | _, _ => Err PyError       (* entries of two kinds in one list: outside the modelled domain *)
  end.

Definition final_names (A B : tg) (only : bool) : list text :=
  let na := names A in let nb := names B in
  let combined := na ++ filter (fun n => negb (name_in n na)) nb in
  if only then filter (fun n => name_in n na && name_in n nb) combined else combined.

Definition append_one (ma mn mx : Z) (B : tg) (g : tg) (n : text) : res tg :=
  match find_tier n (tiers B) with
  | None => Ok g
  | Some tb =>
      do t1 <- respan tb mn mx;
      do t2 <- edit_tier t1 ma RWarning;
      match find_tier n (tiers g) with
      | Some ta =>
          do t3 <- join_entries ta t2 mn mx;
          match replace_step g n t3 RWarning with
          | (Ok _, g') => Ok g'
          | (Err e, _) => Err e
          end
      | None =>
          do t3 <- respan t2 mn mx;
          match add_step g t3 None RWarning with
          | (Ok _, g') => Ok g'
          | (Err e, _) => Err e
          end
      end
  end.

Definition tg_append (A B : tg) (only : bool) : res tg :=
  match tgmin A, tgmax A, tgmax B with
  | Some mn, Some ma, Some mb =>
      let mx := ma + mb in
      let final := final_names A B only in
      do g1 <- add_all (mkTG [] (Some mn) (Some mx))
                       (filter_map (fun n => find_tier n (tiers A)) final) RWarning;
      fold_res (append_one ma mn mx B) final g1
  | _, _, _ => Err PyError
  end.

(* ---------------- praatio_scripts.alignBoundariesAcrossTiers ---------------- *)

Definition timestamps_of (t : tier) : list Z :=
  match t with TI t => timestamps_i t | TP t => timestamps_p t end.

Definition dejitter_tier (t : tier) (refs : list Z) (d : Z) : res tier :=
  match t with TI t => do x <- dejitter_i t refs d; Ok (TI x) | TP t => do x <- dejitter_p t refs d; Ok (TP x) end.

(* the guard of the source compares neighbours from the SECOND reference time on: zip(times[1:], times[2:]) *)
Fixpoint too_close (d : Z) (l : list Z) : bool :=
  match l with
  | a :: ((b :: _) as l') => (b - a <? d) || too_close d l'
  | _ => false
  end.

Definition align_one (n : text) (refs : list Z) (d : Z) (g : tg) (t : tier) : res tg :=
  if text_eqb (tname t) n then Ok g else
  do t' <- dejitter_tier t refs d;
  match replace_step g (tname t') t' RWarning with
  | (Ok _, g') => Ok g'
  | (Err e, _) => Err e
  end.

Definition tg_align (g : tg) (n : text) (d : Z) : res tg :=
  match find_tier n (tiers g) with
  | None => Err PyError                                   (* KeyError *)
  | Some ref =>
      let refs := timestamps_of ref in
      if too_close d (tl refs) then Err ArgumentError
      else fold_res (align_one n refs d) (tiers g) g
  end.

(* ---------------- Textgrid.mergeTiers ---------------- *)

Definition fold_union_i (l : list itier) : res (option itier) :=
  match l with [] => Ok None | a :: r => do x <- fold_res union_i r a; Ok (Some x) end.
Definition fold_union_p (l : list ptier) : res (option ptier) :=
  match l with [] => Ok None | a :: r => do x <- fold_res union_p r a; Ok (Some x) end.

Definition tg_merge (g : tg) (sel : option (list text)) (keep : bool) : res tg :=
  let sel := match sel with Some l => l | None => names g end in
  do ts <- mapM (fun n => match find_tier n (tiers g) with Some t => Ok t | None => Err PyError end) sel;
  do it <- fold_union_i (filter_map (fun t => match t with TI x => Some x | TP _ => None end) ts);
  do pt <- fold_union_p (filter_map (fun t => match t with TP x => Some x | TI _ => None end) ts);
  let others := if keep then filter (fun t => negb (name_in (tname t) sel)) (tiers g) else [] in
  add_all (mkTG [] (tgmin g) (tgmax g))
          (others ++ match it with Some x => [TI x] | None => [] end ++ match pt with Some x => [TP x] | None => [] end)
          RWarning.
