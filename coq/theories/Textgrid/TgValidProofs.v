(* Textgrid/TgValidProofs.v -- Textgrid.eraseRegion and Textgrid.insertSpace return valid textgrids: every tier
   well-formed and sharing the textgrid's (new) span, names unique -- what validate() checks (C12). *)
From Coq Require Import Lia Permutation.
From PraatIO Require Import Tier.TierModel Tier.Interval Tier.CtorProofs Tier.EraseProofs Tier.SpaceProofs Tier.WfProofs
  Textgrid.TgModel Textgrid.TgProofs Textgrid.TgSpliceProofs.
Open Scope Z_scope.

(* a well-formed tier with exactly this span *)
Definition shares (mn mx : Z) (t : tier) : Prop := wf_tier t /\ tmin t = mn /\ tmax t = mx.

Definition tg_valid (mn mx : Z) (g : tg) : Prop :=
  tgmin g = Some mn /\ tgmax g = Some mx /\ NoDup (names g) /\ Forall (shares mn mx) (tiers g).

Lemma add_all_span l m mn mx : forall g g', add_all g l m = Ok g' ->
  tgmin g = Some mn -> tgmax g = Some mx -> Forall (fun t => tmin t = mn /\ tmax t = mx) l ->
  tgmin g' = Some mn /\ tgmax g' = Some mx.
Proof.
  induction l as [|t l IH]; intros g g' H Hn Hx F; cbn [add_all] in H; [injection H as <-; auto|].
  inversion F as [|? ? [Ft1 Ft2] Fl]; subst.
  destruct (add_step g t None m) as [[u|e] g1] eqn:E; [|discriminate].
  unfold add_step in E. destruct (has_name g (tname t)); [discriminate|]. destruct (_ && _); [discriminate|].
  injection E as _ <-. eapply IH; [exact H| | |exact Fl]; cbn [tgmin tgmax]; unfold new_min, new_max.
  - rewrite Hn. f_equal. lia.
  - rewrite Hx. f_equal. lia.
Qed.

(* ---------- the point tier operations keep the span they are told ---------- *)

Lemma zmin_list_bound l m : zmin_list l = Some m -> forall lo, In lo l -> (forall y, In y l -> lo <= y) -> m = lo.
Proof.
  intros H lo Hin Hlo. apply zmin_list_spec in H as [Hm Hall]. rewrite Forall_forall in Hall.
  specialize (Hall lo Hin). specialize (Hlo m Hm). lia.
Qed.

Lemma zmax_list_bound l m : zmax_list l = Some m -> forall hi, In hi l -> (forall y, In y l -> y <= hi) -> m = hi.
Proof.
  intros H hi Hin Hhi. apply zmax_list_spec in H as [Hm Hall]. rewrite Forall_forall in Hall.
  specialize (Hall hi Hin). specialize (Hhi m Hm). lia.
Qed.

Lemma new_ptier_span name l mn mx t : mn <= mx -> (forall p, In p l -> mn <= ptime p <= mx) ->
  new_ptier name l (Some mn) (Some mx) = Ok t -> pname t = name /\ pmin t = mn /\ pmax t = mx.
Proof.
  intros Hle Hin H. unfold new_ptier in H. set (l' := homog_p l) in H.
  assert (forall y, In y (map ptime l' ++ opt_list (Some mn) ++ opt_list (Some mx)) -> mn <= y <= mx) as Hall.
  { intros y Hy. apply in_app_or in Hy as [Hy|Hy].
    - apply in_map_iff in Hy as (q & <- & Hq). unfold l', homog_p, isortp in Hq.
      apply (Permutation_in q (Permutation_sym (isort_perm _ _))) in Hq. apply in_map_iff in Hq as (p & <- & Hp).
      specialize (Hin p Hp). destruct p; cbn in *. exact Hin.
    - cbn in Hy. destruct Hy as [<-|[<-|[]]]; lia. }
  destruct (zmin_list _) as [a|] eqn:Ea; [|discriminate]. destruct (zmax_list _) as [b|] eqn:Eb; [|discriminate].
  injection H as <-. cbn [pname pmin pmax]. split; [reflexivity|]. split.
  - eapply zmin_list_bound; [exact Ea|apply in_or_app; right; cbn; auto|intros y Hy; apply Hall, Hy].
  - eapply zmax_list_bound; [exact Eb|apply in_or_app; right; cbn; auto|intros y Hy; apply Hall, Hy].
Qed.

Lemma copy_ptier_same t t0 : wf_ptier t -> pmin t <= pmax t -> copy_ptier t = Ok t0 ->
  pmin t0 = pmin t /\ pmax t0 = pmax t /\ forall p, In p (pents t0) -> pmin t <= ptime p <= pmax t.
Proof.
  intros (Ws & Wsp & Wl) Hle H. rewrite Forall_forall in Wsp. unfold copy_ptier in H.
  destruct (new_ptier_span _ _ _ _ _ Hle Wsp H) as (_ & A & B). split; [exact A|]. split; [exact B|].
  intros p Hp. unfold new_ptier in H. destruct (zmin_list _); [|discriminate]. destruct (zmax_list _); [|discriminate].
  injection H as <-. cbn [pents] in Hp. unfold homog_p, isortp in Hp.
  apply (Permutation_in p (Permutation_sym (isort_perm _ _))) in Hp. apply in_map_iff in Hp as (q & <- & Hq).
  specialize (Wsp q Hq). destruct q; cbn in *. exact Wsp.
Qed.

Lemma erase_p_span t a b s t' : wf_ptier t -> pmin t <= a -> a < b -> b <= pmax t -> erase_p t a b s = Ok t' ->
  wf_ptier t' /\ pname t' = pname t /\ pmin t' = pmin t /\ pmax t' = (if s then pmax t - (b - a) else pmax t).
Proof.
  intros W Ha Hab Hb H. assert (pmin t <= pmax t) as Hle by lia.
  split; [eapply (run_opP_wf t (PErase a b s)); [exact W|exact H]|].
  unfold erase_p in H. destruct (copy_ptier t) as [t0|] eqn:C; [|discriminate]. cbn [bind] in H.
  destruct (copy_ptier_same _ _ W Hle C) as (A & B & In0).
  destruct (b <=? a) eqn:E; [lia|]. destruct s.
  - rewrite A, B in H. eapply new_ptier_span in H; [exact H|lia|].
    intros p Hp. apply In_filter_map in Hp as (q & Hq & Eq). apply filter_In in Hq as [Hq _]. specialize (In0 q Hq).
    destruct (ptime q <? a) eqn:E1; [injection Eq as <-; lia|].
    destruct (b <? ptime q) eqn:E2; [|discriminate]. injection Eq as <-. destruct q; cbn in *. lia.
  - injection H as <-. cbn. auto.
Qed.

Lemma space_p_span_eq t s d t' : wf_ptier t -> pmin t <= pmax t -> 0 <= d -> space_p t s d = Ok t' ->
  wf_ptier t' /\ pname t' = pname t /\ pmin t' = pmin t /\ pmax t' = pmax t + d.
Proof.
  intros W Hle Hd H. split; [eapply new_ptier_wf, H|]. unfold space_p in H.
  eapply new_ptier_span in H; [exact H|lia|].
  destruct W as (_ & Wsp & _). rewrite Forall_forall in Wsp.
  intros p Hp. apply in_map_iff in Hp as (q & <- & Hq). specialize (Wsp q Hq).
  destruct (ptime q <=? s); [lia|]. destruct q; cbn in *. lia.
Qed.

(* ---------- tier level: both kinds ---------- *)

Lemma erase_tier_shares mn mx t a b s t' : shares mn mx t -> mn <= a -> a < b -> b <= mx ->
  erase_tier t a b s = Ok t' -> tname t' = tname t /\ shares mn (if s then mx - (b - a) else mx) t'.
Proof.
  intros (W & Hmin & Hmax) Ha Hab Hb H. destruct t as [i|p]; cbn [erase_tier wf_tier tmin tmax tname] in *.
  - rewrite (erase_i_ok i a b ETruncate s W Hab) in H by (try lia; discriminate). cbn [bind] in H. injection H as <-.
    cbn [tname iname]. split; [reflexivity|]. split; [|cbn [tmin tmax imin imax]; destruct s; lia].
    cbn [wf_tier]. eapply (erase_i_wf i a b ETruncate s). apply erase_i_ok; (try lia; try discriminate; auto).
  - destruct (erase_p p a b s) as [x|] eqn:E; [|discriminate]. injection H as <-.
    destruct (erase_p_span p a b s x W) as (Wx & N & A & B); (try lia; auto).
    cbn [tname]. split; [exact N|]. split; [exact Wx|]. cbn [tmin tmax]. destruct s; lia.
Qed.

Lemma space_tier_shares mn mx t s d m t' : shares mn mx t -> mn <= mx -> 0 <= d -> mn <= s ->
  space_tier t s d m = Ok t' -> tname t' = tname t /\ shares mn (mx + d) t'.
Proof.
  intros (W & Hmin & Hmax) Hle Hd Hs H. destruct t as [i|p]; cbn [space_tier wf_tier tmin tmax tname] in *.
  - destruct (space_i i s d m) as [x|] eqn:E; [|discriminate]. injection H as <-.
    assert (m = SError -> forall j, In j (ients i) -> ~ (istart j < s < iend j)) as Herr.
    { intros -> j Hj Hst. unfold space_i in E. cbn [andb] in E.
      assert (existsb (straddlesb s) (ients i) = true) as X
          by (apply existsb_exists; exists j; split; [exact Hj|unfold straddlesb; lia]).
      rewrite X in E. discriminate. }
    pose proof (space_i_ok i s d m W Hd ltac:(lia) Herr) as Ok1. rewrite Ok1 in E. injection E as <-.
    cbn [tname iname]. split; [reflexivity|]. split; [|cbn [tmin tmax imin imax]; lia].
    cbn [wf_tier]. unfold space_i in Ok1. destruct (_ && _) in Ok1; [discriminate|]. eapply new_itier_wf, Ok1.
  - destruct (space_p p s d) as [x|] eqn:E; [|discriminate]. injection H as <-.
    destruct (space_p_span_eq p s d x W) as (Wx & N & A & B); (try lia; auto).
    cbn [tname]. split; [exact N|]. split; [exact Wx|]. cbn [tmin tmax]. lia.
Qed.

(* ---------- textgrid level ---------- *)

Lemma mapM_shares {f : tier -> res tier} {P Q : tier -> Prop} l r :
  (forall t t', P t -> f t = Ok t' -> tname t' = tname t /\ Q t') ->
  Forall P l -> mapM f l = Ok r -> map tname r = map tname l /\ Forall Q r.
Proof.
  intros Hf F M. apply mapM_Forall2 in M. induction M as [|t t' l r Ht _ IH]; [auto|].
  inversion F as [|? ? Pt Pl]; subst. destruct (IH Pl) as [A B]. destruct (Hf t t' Pt Ht) as [N Qt].
  split; [cbn [map]; congruence|constructor; assumption].
Qed.

Lemma add_all_min l m mn : forall g g', add_all g l m = Ok g' ->
  tgmin g = Some mn -> Forall (fun t => tmin t = mn) l -> tgmin g' = Some mn.
Proof.
  induction l as [|t l IH]; intros g g' H Hn F; cbn [add_all] in H; [now injection H as <-|].
  inversion F as [|? ? Ft Fl]; subst.
  destruct (add_step g t None m) as [[u|e] g1] eqn:E; [|discriminate].
  unfold add_step in E. destruct (has_name g (tname t)); [discriminate|]. destruct (_ && _); [discriminate|].
  injection E as _ <-. eapply IH; [exact H| |exact Fl]. cbn [tgmin]. unfold new_min. rewrite Hn. f_equal. lia.
Qed.

(* Textgrid.eraseRegion on a valid textgrid, region inside the span: valid again, the span shortened by the region's
   length when shrinking *)
Theorem tg_erase_valid mn mx g a b s g' : tg_valid mn mx g -> mn <= a -> a < b -> b <= mx ->
  tg_erase g a b s = Ok g' -> tg_valid mn (if s then mx - (b - a) else mx) g'.
Proof.
  intros (Hn & Hx & ND & F) Ha Hab Hb H.
  destruct (tg_erase_tierwise g a b s g' ND H) as (N & _ & Mx).
  unfold tg_erase in H. destruct (b <=? a); [discriminate|].
  destruct (mapM _ (tiers g)) as [l|] eqn:M; [|discriminate]. cbn [bind] in H.
  destruct (add_all _ l RWarning) as [g2|] eqn:AA; [|discriminate]. cbn [bind] in H. injection H as <-.
  destruct (mapM_shares (P := shares mn mx) (Q := shares mn (if s then mx - (b - a) else mx)) _ _
              (fun t t' Pt E => erase_tier_shares mn mx t a b s t' Pt Ha Hab Hb E) F M) as [Nl Fl].
  pose proof (add_all_inv _ _ _ _ AA) as T. cbn [tiers app] in T.
  assert (tgmin g2 = Some mn) as Hn2.
  { eapply add_all_min; [exact AA|exact Hn|]. eapply Forall_impl; [|exact Fl]. now intros t (_ & A & _). }
  unfold tg_valid. cbn [tgmin tgmax tiers]. rewrite Hx. split; [exact Hn2|]. split; [destruct s; reflexivity|]. split.
  - exact (eq_ind_r (fun l0 => NoDup l0) ND N).
  - rewrite T. exact Fl.
Qed.

(* Textgrid.insertSpace on a valid textgrid, at or after its start: valid again, the span longer by the duration *)
Theorem tg_space_valid mn mx g s d m g' : tg_valid mn mx g -> mn <= mx -> 0 <= d -> mn <= s ->
  tg_space g s d m = Ok g' -> tg_valid mn (mx + d) g'.
Proof.
  intros (Hn & Hx & ND & F) Hle Hd Hs H.
  destruct (tg_space_tierwise g s d m g' ND H) as (N & _).
  unfold tg_space in H. destruct (mapM _ (tiers g)) as [l|] eqn:M; [|discriminate]. cbn [bind] in H.
  destruct (mapM_shares (P := shares mn mx) (Q := shares mn (mx + d)) _ _
              (fun t t' Pt E => space_tier_shares mn mx t s d m t' Pt Hle Hd Hs E) F M) as [Nl Fl].
  pose proof (add_all_inv _ _ _ _ H) as T. cbn [tiers app] in T.
  destruct (add_all_span l RWarning mn (mx + d) _ _ H) as [A B]; cbn [tgmin tgmax]; [exact Hn|now rewrite Hx|
    eapply Forall_impl; [|exact Fl]; now intros t (_ & X & Y)|].
  split; [exact A|]. split; [exact B|]. split.
  - exact (eq_ind_r (fun l0 => NoDup l0) ND N).
  - rewrite T. exact Fl.
Qed.

(* ---------- valid, as validate() sees it ---------- *)

Lemma nodupb_spec l : NoDup l -> nodupb l = true.
Proof.
  induction 1 as [|x l NI _ IH]; [reflexivity|]. cbn [nodupb]. rewrite IH, andb_true_r. apply negb_true_iff.
  destruct (existsb (text_eqb x) l) eqn:E; [|reflexivity].
  apply existsb_exists in E as (y & Hy & Exy). apply text_eqb_eq in Exy. subst. contradiction.
Qed.

Theorem tg_valid_validates mn mx g : tg_valid mn mx g -> tg_validate g = true.
Proof.
  intros (Hn & Hx & ND & F). unfold tg_validate. rewrite (nodupb_spec _ ND). cbn [andb].
  apply forallb_forall. intros t Ht. rewrite Forall_forall in F. destruct (F t Ht) as (W & A & B).
  rewrite Hn, Hx, A, B. cbn [option_eqb]. rewrite !Z.eqb_refl. cbn [andb].
  destruct t as [i|p]; cbn [tier_validate wf_tier] in *; [now apply wf_validate|now apply wf_validate_p].
Qed.

(* the premises are satisfiable *)
Example tg_valid_example :
  tg_valid 0 10 (mkTG [TI (mkIT [119%N] [mkI 0 4 [97%N]; mkI 6 10 [98%N]] 0 10); TP (mkPT [112%N] [mkP 3 [120%N]] 0 10)] (Some 0) (Some 10)).
Proof.
  repeat split; try reflexivity.
  - repeat constructor; cbn; intuition discriminate.
  - constructor; [|constructor; [|constructor]].
    + split; [apply wf_itierb_spec; reflexivity|split; reflexivity].
    + split; [apply wf_ptierb_spec; reflexivity|split; reflexivity].
Qed.
