(* Textgrid/TgProofs.v -- C12 / C13: the Textgrid mutators refine a plain ordered
   list, keep names unique, only widen the span, and are all-or-nothing. *)
From PraatIO Require Import Textgrid.TgModel Tier.CtorProofs Tier.CropProofs.

(* ---------------- invariant ---------------- *)

Definition covers_tier (g : tg) (t : tier) : Prop :=
  match tgmin g, tgmax g with
  | Some a, Some b => a <= tmin t /\ tmax t <= b
  | _, _ => False
  end.

Definition tg_inv (g : tg) : Prop :=
  NoDup (names g) /\ Forall (covers_tier g) (tiers g).

(* ---------------- basic list facts ---------------- *)

Lemma has_name_In g n : has_name g n = true <-> In n (names g).
Proof.
  unfold has_name, names. rewrite existsb_exists. split.
  - intros (t & Ht & E). apply text_eqb_eq in E. subst. apply in_map, Ht.
  - intro H. apply in_map_iff in H as (t & <- & Ht). exists t. split; [exact Ht|apply text_eqb_refl].
Qed.

Lemma has_name_false g n : has_name g n = false <-> ~ In n (names g).
Proof.
  rewrite <- has_name_In. destruct (has_name g n); split; intro H.
  - discriminate.
  - exfalso. apply H. reflexivity.
  - discriminate.
  - reflexivity.
Qed.

Lemma py_insert_pos_nat len k : (k <= len)%nat -> py_insert_pos len (Z.of_nat k) = k.
Proof. intro H. unfold py_insert_pos. destruct (Z.ltb_spec (Z.of_nat k) 0); lia. Qed.

Lemma py_insert_pos_le len i : (py_insert_pos len i <= len)%nat.
Proof. unfold py_insert_pos. destruct (Z.ltb_spec i 0); lia. Qed.

Lemma py_insert_perm {A} (l : list A) i x : Permutation (x :: l) (py_insert l i x).
Proof.
  unfold py_insert. set (k := py_insert_pos (length l) i).
  rewrite <- (firstn_skipn k l) at 1. apply Permutation_middle.
Qed.

Lemma py_insert_cons {A} (a : A) l k x :
  (k <= length l)%nat -> py_insert (a :: l) (Z.of_nat (S k)) x = a :: py_insert l (Z.of_nat k) x.
Proof.
  intro H. unfold py_insert. rewrite py_insert_pos_nat by (simpl; lia).
  rewrite py_insert_pos_nat by exact H. reflexivity.
Qed.

Lemma py_insert_zero {A} (l : list A) x : py_insert l (Z.of_nat 0) x = x :: l.
Proof. unfold py_insert. rewrite py_insert_pos_nat by lia. reflexivity. Qed.

Lemma index_of_lt n l k : index_of n l = Some k -> (k < length l)%nat.
Proof.
  revert k. induction l as [|t l IH]; intros k E; [discriminate|]. simpl in E.
  destruct (text_eqb (tname t) n); [injection E as <-; simpl; lia|].
  destruct (index_of n l) as [j|]; [|discriminate]. injection E as <-. specialize (IH j eq_refl). simpl. lia.
Qed.

Lemma remove_named_length n l k : index_of n l = Some k -> S (length (remove_named n l)) = length l.
Proof.
  revert k. induction l as [|t l IH]; intros k E; [discriminate|]. simpl in *.
  destruct (text_eqb (tname t) n); [reflexivity|].
  destruct (index_of n l) as [j|]; [|discriminate]. simpl. f_equal. eapply IH. reflexivity.
Qed.

(* putting the removed tier back where it was restores the list *)
Lemma reinsert_removed n l k old :
  index_of n l = Some k -> find_tier n l = Some old ->
  py_insert (remove_named n l) (Z.of_nat k) old = l.
Proof.
  revert k. induction l as [|t l IH]; intros k Ei Ef; [discriminate|]. simpl in *.
  destruct (text_eqb (tname t) n).
  - injection Ei as <-. injection Ef as <-. apply py_insert_zero.
  - destruct (index_of n l) as [j|] eqn:Ej; [|discriminate]. injection Ei as <-.
    rewrite py_insert_cons; [f_equal; apply IH; auto|].
    pose proof (remove_named_length n l j Ej). pose proof (index_of_lt n l j Ej). lia.
Qed.

Lemma find_tier_name n l t : find_tier n l = Some t -> tname t = n /\ In t l.
Proof.
  induction l as [|u l IH]; [discriminate|]. simpl.
  destruct (text_eqb (tname u) n) eqn:E.
  - intros [= <-]. apply text_eqb_eq in E. auto.
  - intro H. destruct (IH H). auto.
Qed.

Lemma index_find n l k : index_of n l = Some k -> exists t, find_tier n l = Some t.
Proof.
  revert k. induction l as [|u l IH]; intros k E; [discriminate|]. simpl in *.
  destruct (text_eqb (tname u) n); [eauto|].
  destruct (index_of n l) as [j|]; [|discriminate]. eapply IH. reflexivity.
Qed.

Lemma find_index n l t : find_tier n l = Some t -> exists k, index_of n l = Some k.
Proof.
  induction l as [|u l IH]; [discriminate|]. simpl.
  destruct (text_eqb (tname u) n); [eauto|]. intro H. destruct (IH H) as (k & ->). eauto.
Qed.

Lemma remove_named_sub n l t : In t (remove_named n l) -> In t l.
Proof.
  induction l as [|u l IH]; [intros []|]. simpl. destruct (text_eqb (tname u) n).
  - intro H. right. exact H.
  - intros [<-|H]; [left; reflexivity|right; apply IH, H].
Qed.

Lemma remove_named_names n l :
  NoDup (map tname l) -> NoDup (map tname (remove_named n l)) /\ ~ In n (map tname (remove_named n l)).
Proof.
  induction l as [|u l IH]; intro H; simpl; [split; [constructor|tauto]|].
  inversion H as [|? ? Hn Hd]; subst. destruct (text_eqb (tname u) n) eqn:E.
  - apply text_eqb_eq in E. subst. split; assumption.
  - apply text_eqb_neq in E. destruct (IH Hd) as [A B]. split.
    + simpl. constructor; [|exact A]. intro Hin. apply Hn.
      apply in_map_iff in Hin as (t & Et & Ht). rewrite <- Et. apply in_map. eapply remove_named_sub, Ht.
    + simpl. intros [C|C]; [contradiction|contradiction].
Qed.

Lemma remove_named_absent n l : ~ In n (map tname l) -> remove_named n l = l.
Proof.
  induction l as [|u l IH]; intro H; [reflexivity|]. simpl in *.
  destruct (text_eqb (tname u) n) eqn:E.
  - apply text_eqb_eq in E. exfalso. apply H. left. exact E.
  - f_equal. apply IH. intro C. apply H. right. exact C.
Qed.

(* ---------------- addTier ---------------- *)

Lemma add_step_err g t idx m e g' : add_step g t idx m = (Err e, g') -> g' = g.
Proof.
  unfold add_step. destruct (has_name g (tname t)); [intros [= _ <-]; reflexivity|].
  destruct (_ && _); [intros [= _ <-]; reflexivity|discriminate].
Qed.

Lemma covers_tier_widen g t u l :
  covers_tier g u -> covers_tier (mkTG l (new_min g t) (new_max g t)) u.
Proof.
  unfold covers_tier, new_min, new_max. simpl.
  destruct (tgmin g), (tgmax g); try tauto. lia.
Qed.

Lemma covers_tier_self g t l : covers_tier (mkTG l (new_min g t) (new_max g t)) t.
Proof.
  unfold covers_tier, new_min, new_max. simpl.
  destruct (tgmin g), (tgmax g); lia.
Qed.

Lemma add_step_inv g t idx m u g' :
  tg_inv g -> add_step g t idx m = (Ok u, g') -> tg_inv g'.
Proof.
  intros [Hn Hc]. unfold add_step. destruct (has_name g (tname t)) eqn:Eh; [discriminate|].
  destruct (_ && _); [discriminate|]. intros [= _ <-]. apply has_name_false in Eh.
  assert (forall l, Permutation (t :: tiers g) l ->
            tg_inv (mkTG l (new_min g t) (new_max g t))) as Hgen.
  { intros l P. split.
    - unfold names. simpl. eapply Permutation_NoDup; [apply Permutation_map, P|].
      simpl. constructor; assumption.
    - simpl. apply Forall_forall. intros x Hx. apply (Permutation_in x (Permutation_sym P)) in Hx.
      destruct Hx as [<-|Hx]; [apply covers_tier_self|].
      apply covers_tier_widen. rewrite Forall_forall in Hc. apply Hc, Hx. }
  destruct idx as [i|]; apply Hgen; [apply py_insert_perm|apply Permutation_cons_append].
Qed.

(* the span only ever widens *)
Definition span_le (g g' : tg) : Prop :=
  match tgmin g, tgmin g' with Some a, Some a' => a' <= a | None, _ => True | Some _, None => False end
  /\ match tgmax g, tgmax g' with Some b, Some b' => b <= b' | None, _ => True | Some _, None => False end.

Lemma span_le_refl g : span_le g g.
Proof. unfold span_le. destruct (tgmin g), (tgmax g); lia. Qed.

Lemma add_step_span g t idx m r g' : add_step g t idx m = (r, g') -> span_le g g'.
Proof.
  unfold add_step. destruct (has_name g (tname t)); [intros [= _ <-]; apply span_le_refl|].
  destruct (_ && _); [intros [= _ <-]; apply span_le_refl|]. intros [= _ <-].
  unfold span_le, new_min, new_max; simpl. destruct (tgmin g), (tgmax g); lia.
Qed.

(* re-adding a tier that the span already covers changes only the list *)
Lemma add_step_covered g t k :
  has_name g (tname t) = false -> covers_tier g t ->
  add_step g t (Some k) RSilence = (Ok tt, mkTG (py_insert (tiers g) k t) (tgmin g) (tgmax g)).
Proof.
  intros Hn Hc. unfold add_step. rewrite Hn. simpl. unfold covers_tier in Hc.
  unfold new_min, new_max. destruct (tgmin g) as [a|]; [|tauto]. destruct (tgmax g) as [b|]; [|tauto].
  repeat f_equal; lia.
Qed.

(* ---------------- replaceTier / renameTier ---------------- *)

Lemma replace_step_err g n t m e g' :
  tg_inv g -> replace_step g n t m = (Err e, g') -> g' = g.
Proof.
  intros [Hn Hc]. unfold replace_step.
  destruct (index_of n (tiers g)) as [k|] eqn:Ei; [|intros [= _ <-]; reflexivity].
  destruct (get_tier g n) as [old|] eqn:Eg; [|intros [= _ <-]; reflexivity].
  set (g1 := mkTG (remove_named n (tiers g)) (tgmin g) (tgmax g)).
  destruct (add_step g1 t (Some (Z.of_nat k)) m) as [[u|e'] g2] eqn:Ea; [discriminate|].
  apply add_step_err in Ea. subst g2. intros [= _ <-].
  unfold get_tier in Eg. destruct (find_tier_name _ _ _ Eg) as [En Hin].
  destruct (remove_named_names n (tiers g) Hn) as [Hd Hnot].
  rewrite add_step_covered.
  - simpl. unfold g1; simpl. rewrite (reinsert_removed n (tiers g) k old Ei Eg). destruct g; reflexivity.
  - apply has_name_false. unfold names, g1; simpl. rewrite En. exact Hnot.
  - rewrite Forall_forall in Hc. specialize (Hc old Hin). unfold covers_tier, g1 in *; simpl. exact Hc.
Qed.

Lemma rename_step_err g a b e g' :
  tg_inv g -> rename_step g a b = (Err e, g') -> g' = g.
Proof.
  intros Hi. unfold rename_step. destruct (get_tier g a) as [t|]; [|intros [= _ <-]; reflexivity].
  destruct (rebuild_named t b) as [t'|e']; [|intros [= _ <-]; reflexivity].
  apply replace_step_err, Hi.
Qed.

Lemma remove_step_err g n e g' : remove_step g n = (Err e, g') -> g' = g.
Proof. unfold remove_step. destruct (get_tier g n); [discriminate|intros [= _ <-]; reflexivity]. Qed.

(* all-or-nothing: a mutator that raises leaves the textgrid exactly as it was *)
Theorem tg_step_atomic g o e g' : tg_inv g -> tg_step g o = (Some e, g') -> g' = g.
Proof.
  intros Hi. destruct o; simpl.
  - destruct (add_step g t idx mode) as [[u|e'] g2] eqn:E; [discriminate|]. intros [= _ <-]. eapply add_step_err, E.
  - destruct (remove_step g n) as [[u|e'] g2] eqn:E; [discriminate|]. intros [= _ <-]. eapply remove_step_err, E.
  - destruct (rename_step g old new) as [[u|e'] g2] eqn:E; [discriminate|]. intros [= _ <-]. eapply rename_step_err; eauto.
  - destruct (replace_step g n t mode) as [[u|e'] g2] eqn:E; [discriminate|]. intros [= _ <-]. eapply replace_step_err; eauto.
Qed.

(* ---------------- invariant preservation ---------------- *)

Lemma remove_inv g n : tg_inv g -> tg_inv (mkTG (remove_named n (tiers g)) (tgmin g) (tgmax g)).
Proof.
  intros [Hn Hc]. split.
  - unfold names; simpl. apply (remove_named_names n (tiers g) Hn).
  - simpl. rewrite Forall_forall in *. intros t Ht. apply remove_named_sub in Ht.
    specialize (Hc t Ht). unfold covers_tier in *; simpl. exact Hc.
Qed.

Lemma replace_step_inv g n t m r g' : tg_inv g -> replace_step g n t m = (r, g') -> tg_inv g'.
Proof.
  intros Hi E. destruct r as [u|e]; [|apply replace_step_err in E; [subst; exact Hi|exact Hi]].
  unfold replace_step in E.
  destruct (index_of n (tiers g)) as [k|]; [|discriminate].
  destruct (get_tier g n) as [old|]; [|discriminate].
  destruct (add_step _ t (Some (Z.of_nat k)) m) as [[u'|e'] g2] eqn:Ea; [|discriminate].
  injection E as _ <-. eapply add_step_inv; [|exact Ea]. apply remove_inv, Hi.
Qed.

Theorem tg_step_inv g o : tg_inv g -> tg_inv (snd (tg_step g o)).
Proof.
  intros Hi. destruct o; simpl.
  - destruct (add_step g t idx mode) as [[u|e'] g2] eqn:E; simpl.
    + eapply add_step_inv; eauto.
    + apply add_step_err in E. subst. exact Hi.
  - unfold remove_step. destruct (get_tier g n); simpl; [apply remove_inv, Hi|exact Hi].
  - destruct (rename_step g old new) as [r g2] eqn:E; simpl. unfold rename_step in E.
    destruct (get_tier g old) as [t|]; [|injection E as _ <-; exact Hi].
    destruct (rebuild_named t new) as [t'|]; [|injection E as _ <-; exact Hi].
    eapply replace_step_inv; eauto.
  - destruct (replace_step g n t mode) as [r g2] eqn:E; simpl. eapply replace_step_inv; eauto.
Qed.

Theorem tg_run_inv ops : forall g, tg_inv g -> tg_inv (tg_run g ops).
Proof.
  induction ops as [|o ops IH]; intros g Hi; [exact Hi|]. simpl. apply IH, tg_step_inv, Hi.
Qed.

Lemma tg_inv_empty a b : tg_inv (mkTG [] a b).
Proof. split; constructor. Qed.

(* names stay unique along every history *)
Theorem names_nodup ops a b : NoDup (names (tg_run (mkTG [] a b) ops)).
Proof. apply (tg_run_inv ops _ (tg_inv_empty a b)). Qed.

(* ---------------- refinement to the plain list ---------------- *)

Lemma existsb_has_name l a b n :
  existsb (fun u => text_eqb (tname u) n) l = has_name (mkTG l a b) n.
Proof. reflexivity. Qed.

Lemma replace_step_ok g n t m u g' :
  replace_step g n t m = (Ok u, g') ->
  exists k, index_of n (tiers g) = Some k /\ tiers g' = py_insert (remove_named n (tiers g)) (Z.of_nat k) t.
Proof.
  unfold replace_step. destruct (index_of n (tiers g)) as [k|]; [|discriminate].
  destruct (get_tier g n) as [old|]; [|discriminate].
  destruct (add_step _ t (Some (Z.of_nat k)) m) as [[u'|e'] g2] eqn:Ea; [|discriminate].
  intros [= _ <-]. exists k. split; [reflexivity|].
  unfold add_step in Ea. destruct (has_name _ _); [discriminate|]. destruct (_ && _); [discriminate|].
  injection Ea as _ <-. reflexivity.
Qed.

(* on success the tier list is what the plain ordered-list model says *)
Theorem tg_step_refines g o :
  fst (tg_step g o) = None -> tiers (snd (tg_step g o)) = spec_step (tiers g) o.
Proof.
  destruct o; simpl.
  - unfold add_step. destruct (has_name g (tname t)); simpl; [discriminate|].
    destruct (_ && _); simpl; [discriminate|reflexivity].
  - unfold remove_step. destruct (get_tier g n) as [t|]; simpl; [reflexivity|discriminate].
  - destruct (rename_step g old new) as [[u|e] g2] eqn:E; simpl; [intros _|discriminate].
    unfold rename_step in E. unfold get_tier in E. destruct (find_tier old (tiers g)) as [t|] eqn:Ef; [|discriminate].
    destruct (rebuild_named t new) as [t'|]; [|discriminate].
    destruct (replace_step_ok _ _ _ _ _ _ E) as (k & Ek & ->). rewrite Ek. reflexivity.
  - destruct (replace_step g n t mode) as [[u|e] g2] eqn:E; simpl; [intros _|discriminate].
    destruct (replace_step_ok _ _ _ _ _ _ E) as (k & Ek & ->). rewrite Ek. reflexivity.
Qed.

(* a duplicate name is rejected *)
Theorem dup_rejected g t idx m :
  In (tname t) (names g) -> add_step g t idx m = (Err TierNameExistsError, g).
Proof. intro H. unfold add_step. apply has_name_In in H. now rewrite H. Qed.

(* the span only ever widens *)
Theorem tg_step_span g o : tg_inv g -> span_le g (snd (tg_step g o)).
Proof.
  intros Hi. destruct o; simpl.
  - destruct (add_step g t idx mode) as [r g2] eqn:E; simpl. eapply add_step_span, E.
  - unfold remove_step. destruct (get_tier g n); simpl; unfold span_le; simpl; destruct (tgmin g), (tgmax g); lia.
  - destruct (rename_step g old new) as [[u|e] g2] eqn:E; simpl.
    + unfold rename_step in E. destruct (get_tier g old) as [t|]; [|discriminate].
      destruct (rebuild_named t new) as [t'|]; [|discriminate]. unfold replace_step in E.
      destruct (index_of old (tiers g)); [|discriminate]. destruct (get_tier g old); [|discriminate].
      destruct (add_step _ t' _ _) as [[u'|e'] g3] eqn:Ea; [|discriminate]. injection E as _ <-.
      apply add_step_span in Ea. unfold span_le in *; simpl in *. exact Ea.
    + apply rename_step_err in E; [subst; apply span_le_refl|exact Hi].
  - destruct (replace_step g n t mode) as [[u|e] g2] eqn:E; simpl.
    + unfold replace_step in E.
      destruct (index_of n (tiers g)); [|discriminate]. destruct (get_tier g n); [|discriminate].
      destruct (add_step _ t _ _) as [[u'|e'] g3] eqn:Ea; [|discriminate]. injection E as _ <-.
      apply add_step_span in Ea. unfold span_le in *; simpl in *. exact Ea.
    + apply replace_step_err in E; [subst; apply span_le_refl|exact Hi].
Qed.

(* ---------------- tier-wise edits ---------------- *)

Lemma add_all_ok l : forall g mode,
  mode <> RError -> NoDup (names g ++ map tname l) ->
  exists g', add_all g l mode = Ok g' /\ tiers g' = tiers g ++ l.
Proof.
  induction l as [|t l IH]; intros g mode Hm Hn; simpl.
  - exists g. split; [reflexivity|now rewrite app_nil_r].
  - unfold add_step.
    assert (has_name g (tname t) = false) as ->.
    { apply has_name_false. intro Hin. apply NoDup_remove_2 in Hn. apply Hn, in_or_app. left. exact Hin. }
    assert ((match mode with RError => true | _ => false end) = false) as -> by (destruct mode; congruence).
    simpl. set (g1 := mkTG (tiers g ++ [t]) (new_min g t) (new_max g t)).
    destruct (IH g1 mode Hm) as (g' & E & T).
    + unfold names, g1; simpl. rewrite map_app, <- app_assoc. simpl.
      eapply Permutation_NoDup; [|exact Hn]. unfold names. reflexivity.
    + exists g'. split; [exact E|]. rewrite T. unfold g1; simpl. now rewrite <- app_assoc.
Qed.

Lemma crop_tier_name t a b m r t' : crop_tier t a b m r = Ok t' -> tname t' = tname t.
Proof.
  destruct t as [t|t]; simpl.
  - destruct (crop_i t a b m r) as [x|] eqn:E; [|discriminate]. intros [= <-]. simpl.
    unfold crop_i in E. destruct (b <=? a); [discriminate|]. destruct r; eapply new_itier_name, E.
  - destruct (crop_p t a b r) as [x|] eqn:E; [|discriminate]. intros [= <-]. simpl.
    unfold crop_p, new_ptier in E. destruct (b <=? a); [discriminate|].
    destruct r; destruct (zmin_list _); try discriminate; destruct (zmax_list _); try discriminate;
      injection E as <-; reflexivity.
Qed.

Lemma mapM_names {A} (f : A -> res A) (nm : A -> text) l r :
  (forall a b, f a = Ok b -> nm b = nm a) -> mapM f l = Ok r -> map nm r = map nm l.
Proof.
  intro Hf. revert r. induction l as [|a l IH]; intros r E; simpl in E.
  - injection E as <-. reflexivity.
  - destruct (f a) as [b|] eqn:Ea; [|discriminate]. simpl in E.
    destruct (mapM f l) as [r'|]; [|discriminate]. simpl in E. injection E as <-.
    simpl. rewrite (Hf _ _ Ea), (IH r' eq_refl). reflexivity.
Qed.

Lemma mapM_Forall2 {A B} (f : A -> res B) l r : mapM f l = Ok r -> Forall2 (fun a b => f a = Ok b) l r.
Proof.
  revert r. induction l as [|a l IH]; intros r E; simpl in E.
  - injection E as <-. constructor.
  - destruct (f a) as [b|] eqn:Ea; [|discriminate]. simpl in E.
    destruct (mapM f l) as [r'|]; [|discriminate]. simpl in E. injection E as <-.
    constructor; [exact Ea|apply IH; reflexivity].
Qed.

(* Textgrid.crop: same names in the same order, every tier is that tier's own crop *)
Theorem tg_crop_tierwise g a b m r g' :
  NoDup (names g) -> tg_crop g a b m r = Ok g' ->
  names g' = names g /\ Forall2 (fun t t' => crop_tier t a b m r = Ok t') (tiers g) (tiers g').
Proof.
  intros Hn. unfold tg_crop. destruct (b <=? a); [discriminate|].
  destruct (mapM _ (tiers g)) as [l|] eqn:Em; [|discriminate]. cbn [bind].
  pose proof (mapM_names _ tname _ _ (fun x y => crop_tier_name x a b m r y) Em) as Hnames.
  set (g0 := if r then mkTG [] (Some 0) (Some (b - a)) else mkTG [] (Some a) (Some b)).
  assert (tiers g0 = []) as T0 by (unfold g0; destruct r; reflexivity).
  destruct (add_all_ok l g0 (match m with Lax => RSilence | _ => RWarning end)) as (g2 & E & T).
  - destruct m; discriminate.
  - unfold names. rewrite T0. simpl. rewrite Hnames. exact Hn.
  - rewrite E. intros [= <-]. unfold names. rewrite T, T0. simpl. split; [exact Hnames|].
    apply mapM_Forall2, Em.
Qed.

(* every tier of a strict/truncated crop has the textgrid's span *)
Theorem tg_crop_spans g a b m r g' :
  m <> Lax -> NoDup (names g) -> Forall (fun t => match t with TI t => wf_itier t | TP _ => True end) (tiers g) ->
  tg_crop g a b m r = Ok g' ->
  Forall (fun t => match t with
                   | TI t => imin t = (if r then 0 else a) /\ imax t = (if r then b - a else b)
                   | TP t => pmin t = (if r then 0 else a) /\ pmax t = (if r then b - a else b) end) (tiers g').
Proof.
  intros Hm Hn Hwf E. destruct (tg_crop_tierwise g a b m r g' Hn E) as [_ F2].
  clear E Hn. induction F2 as [|t t' l l' Ht _ IH]; [constructor|]. inversion Hwf; subst.
  constructor; [|apply IH; assumption].
  destruct t as [t|t]; simpl in Ht.
  - destruct (crop_i t a b m r) as [x|] eqn:E; [|discriminate]. injection Ht as <-.
    destruct r.
    + destruct (crop_rebase_window t a b m x H1 Hm E) as (_ & A & B). auto.
    + apply (crop_span_norebase t a b m x H1 Hm E).
  - destruct (crop_p t a b r) as [x|] eqn:E; [|discriminate]. injection Ht as <-.
    apply (crop_p_span t a b r x E).
Qed.

(* ------------------------------------------------------------------ *)
(* Textgrid.eraseRegion / insertSpace act tier-wise                     *)

Lemma new_ptier_name' name l mn mx t : new_ptier name l mn mx = Ok t -> pname t = name.
Proof.
  unfold new_ptier. destruct (zmin_list _); [|discriminate]. destruct (zmax_list _); [|discriminate].
  now intros [= <-].
Qed.

Lemma erase_tier_name t a b s t' : erase_tier t a b s = Ok t' -> tname t' = tname t.
Proof.
  destruct t as [t|t]; simpl.
  - destruct (erase_i t a b ETruncate s) as [x|] eqn:E; [|discriminate]. intros [= <-]. simpl.
    unfold erase_i in E. destruct (b <=? a); [discriminate|].
    destruct (copy_itier t) as [t0|]; [|discriminate]. cbn [bind] in E.
    destruct (erase_keep a b ETruncate (ients t0)) as [l1|]; [|discriminate]. cbn [bind] in E.
    destruct s; eapply new_itier_name, E.
  - destruct (erase_p t a b s) as [x|] eqn:E; [|discriminate]. intros [= <-]. simpl.
    unfold erase_p in E. destruct (copy_ptier t) as [t0|]; [|discriminate]. cbn [bind] in E.
    destruct (b <=? a); [discriminate|]. destruct s; [eapply new_ptier_name', E|]. now injection E as <-.
Qed.

Lemma space_tier_name t s d m t' : space_tier t s d m = Ok t' -> tname t' = tname t.
Proof.
  destruct t as [t|t]; simpl.
  - destruct (space_i t s d m) as [x|] eqn:E; [|discriminate]. intros [= <-]. simpl.
    unfold space_i in E. destruct (_ && _); [discriminate|]. eapply new_itier_name, E.
  - destruct (space_p t s d) as [x|] eqn:E; [|discriminate]. intros [= <-]. simpl.
    eapply new_ptier_name', E.
Qed.

(* Textgrid.eraseRegion: same names in the same order, every tier is that tier's own
   eraseRegion(truncate), and the textgrid's own span shrinks by exactly the region's length *)
Theorem tg_erase_tierwise g a b s g' :
  NoDup (names g) -> tg_erase g a b s = Ok g' ->
  names g' = names g
  /\ Forall2 (fun t t' => erase_tier t a b s = Ok t') (tiers g) (tiers g')
  /\ tgmax g' = (if s then match tgmax g with Some m => Some (m - (b - a)) | None => None end else tgmax g).
Proof.
  intros Hn. unfold tg_erase. destruct (b <=? a); [discriminate|].
  destruct (mapM _ (tiers g)) as [l|] eqn:Em; [|discriminate]. cbn [bind].
  pose proof (mapM_names _ tname _ _ (fun x y => erase_tier_name x a b s y) Em) as Hnames.
  destruct (add_all_ok l (mkTG [] (tgmin g) (tgmax g)) RWarning) as (g2 & E & T).
  - discriminate.
  - unfold names. simpl. rewrite Hnames. exact Hn.
  - rewrite E. cbn [bind]. intros [= <-]. unfold names. simpl. rewrite T. simpl.
    split; [exact Hnames|]. split; [apply mapM_Forall2, Em|reflexivity].
Qed.

(* Textgrid.insertSpace *)
Theorem tg_space_tierwise g s d m g' :
  NoDup (names g) -> tg_space g s d m = Ok g' ->
  names g' = names g /\ Forall2 (fun t t' => space_tier t s d m = Ok t') (tiers g) (tiers g').
Proof.
  intros Hn. unfold tg_space.
  destruct (mapM _ (tiers g)) as [l|] eqn:Em; [|discriminate]. cbn [bind].
  pose proof (mapM_names _ tname _ _ (fun x y => space_tier_name x s d m y) Em) as Hnames.
  destruct (add_all_ok l (mkTG [] (tgmin g) (match tgmax g with Some x => Some (x + d) | None => None end)) RWarning) as (g2 & E & T).
  - discriminate.
  - unfold names. simpl. rewrite Hnames. exact Hn.
  - rewrite E. intros [= <-]. unfold names. rewrite T. simpl. split; [exact Hnames|]. apply mapM_Forall2, Em.
Qed.

(* ---------------- Textgrid.editTimestamps ---------------- *)

Lemma edit_tier_name t o m t' : edit_tier t o m = Ok t' -> tname t' = tname t.
Proof.
  destruct t as [t|t]; simpl.
  - destruct (edit_i t o m) as [x|] eqn:E; [|discriminate]. intros [= <-]. simpl.
    unfold edit_i in E. destruct (_ && _); [discriminate|]. eapply new_itier_name, E.
  - destruct (edit_p t o m) as [x|] eqn:E; [|discriminate]. intros [= <-]. simpl.
    unfold edit_p in E. destruct (_ && _); [discriminate|]. eapply new_ptier_name', E.
Qed.

Lemma edit_or_keep_name t o m t' : edit_or_keep t o m = Ok t' -> tname t' = tname t.
Proof. unfold edit_or_keep. destruct (tents_empty t); [now intros [= <-]|apply edit_tier_name]. Qed.

Lemma add_step_none_ok g t m u g' : add_step g t None m = (Ok u, g') ->
  tiers g' = tiers g ++ [t] /\ span_le g g'.
Proof.
  intro H. split; [|exact (add_step_span _ _ _ _ _ _ H)].
  unfold add_step in H. destruct (has_name g (tname t)); [discriminate|].
  destruct (_ && _); [discriminate|]. now injection H as _ <-.
Qed.

Lemma span_le_trans a b c : span_le a b -> span_le b c -> span_le a c.
Proof.
  unfold span_le. intros [A1 A2] [B1 B2]. split.
  - destruct (tgmin a), (tgmin b), (tgmin c); try tauto; lia.
  - destruct (tgmax a), (tgmax b), (tgmax c); try tauto; lia.
Qed.

Lemma edit_all_ok l o m : forall g g',
  edit_all g l o m = Ok g' ->
  exists l', tiers g' = tiers g ++ l' /\ Forall2 (fun t t' => edit_or_keep t o m = Ok t') l l' /\ span_le g g'.
Proof.
  induction l as [|t l IH]; intros g g' H; cbn [edit_all] in H.
  - injection H as <-. exists []. rewrite app_nil_r. split; [reflexivity|]. split; [constructor|apply span_le_refl].
  - destruct (edit_or_keep t o m) as [t'|] eqn:E; [|discriminate]. cbn [bind] in H.
    destruct (add_step g t' None m) as [[u|e] g1] eqn:A; [|discriminate].
    destruct (add_step_none_ok _ _ _ _ _ A) as [T1 S1].
    destruct (IH _ _ H) as (l' & T & F & S). exists (t' :: l'). split; [|split].
    + rewrite T, T1, <- app_assoc. reflexivity.
    + constructor; assumption.
    + eapply span_le_trans; eassumption.
Qed.

(* Textgrid.editTimestamps: the same tiers in the same order, each one that tier's own
   editTimestamps (tiers without entries are kept as they are), and the textgrid's span never shrinks *)
Theorem tg_edit_tierwise g o m g' :
  tg_edit g o m = Ok g' ->
  names g' = names g
  /\ Forall2 (fun t t' => edit_or_keep t o m = Ok t') (tiers g) (tiers g')
  /\ span_le g g'.
Proof.
  unfold tg_edit. intro H. destruct (edit_all_ok _ _ _ _ _ H) as (l' & T & F & S). cbn [tiers app] in T.
  rewrite T. split; [|split; [exact F|]].
  - unfold names. rewrite T. clear - F. induction F as [|t t' l l' E F IH]; [reflexivity|].
    cbn [map]. now rewrite IH, (edit_or_keep_name _ _ _ _ E).
  - unfold span_le in *. cbn [tgmin tgmax] in S. exact S.
Qed.

(* ---------------- Textgrid.appendTextgrid: which tiers, in which order ---------------- *)

Lemma name_in_In n l : name_in n l = true <-> In n l.
Proof.
  unfold name_in. rewrite existsb_exists. split.
  - intros (x & Hx & E). apply text_eqb_eq in E. now subst.
  - intro H. exists n. split; [exact H|apply text_eqb_refl].
Qed.

Lemma find_tier_none n l : find_tier n l = None <-> ~ In n (map tname l).
Proof.
  induction l as [|t l IH]; simpl; [tauto|].
  destruct (text_eqb (tname t) n) eqn:E.
  - apply text_eqb_eq in E. split; [discriminate|]. intro H. exfalso. apply H. now left.
  - apply text_eqb_neq in E. rewrite IH. tauto.
Qed.

Lemma reinsert_names n l k t :
  index_of n l = Some k -> tname t = n ->
  map tname (py_insert (remove_named n l) (Z.of_nat k) t) = map tname l.
Proof.
  revert k. induction l as [|t0 l IH]; intros k Ei Et; [discriminate|]. simpl in *.
  destruct (text_eqb (tname t0) n) eqn:E.
  - injection Ei as <-. rewrite py_insert_zero. simpl. apply text_eqb_eq in E. congruence.
  - destruct (index_of n l) as [j|] eqn:Ej; [|discriminate]. injection Ei as <-.
    rewrite py_insert_cons.
    + simpl. f_equal. now apply IH.
    + pose proof (remove_named_length n l j Ej). pose proof (index_of_lt n l j Ej). lia.
Qed.

Lemma add_all_inv l m : forall g g', add_all g l m = Ok g' -> tiers g' = tiers g ++ l.
Proof.
  induction l as [|t l IH]; intros g g' H; cbn [add_all] in H.
  - injection H as <-. now rewrite app_nil_r.
  - destruct (add_step g t None m) as [[u|e] g1] eqn:A; [|discriminate].
    destruct (add_step_none_ok _ _ _ _ _ A) as [T1 _]. rewrite (IH _ _ H), T1, <- app_assoc. reflexivity.
Qed.

Lemma respan_name t mn mx t' : respan t mn mx = Ok t' -> tname t' = tname t.
Proof.
  destruct t as [t|t]; simpl.
  - destruct (new_itier _ _ _ _) as [x|] eqn:E; [|discriminate]. intros [= <-]. simpl. eapply new_itier_name, E.
  - destruct (new_ptier _ _ _ _) as [x|] eqn:E; [|discriminate]. intros [= <-]. simpl. eapply new_ptier_name', E.
Qed.

Lemma join_entries_name a b mn mx t' : join_entries a b mn mx = Ok t' -> tname t' = tname a.
Proof.
  destruct a as [a|a], b as [b|b]; simpl; try discriminate.
  - destruct (new_itier _ _ _ _) as [x|] eqn:E; [|discriminate]. intros [= <-]. simpl. eapply new_itier_name, E.
  - destruct (new_ptier _ _ _ _) as [x|] eqn:E; [|discriminate]. intros [= <-]. simpl. eapply new_ptier_name', E.
Qed.

(* one step of the second loop: the tier named n is replaced where it stands, or appended at the end *)
Lemma append_one_names ma mn mx B g n g' :
  append_one ma mn mx B g n = Ok g' ->
  names g' = names g ++ (if name_in n (names B) && negb (name_in n (names g)) then [n] else []).
Proof.
  unfold append_one. destruct (find_tier n (tiers B)) as [tb|] eqn:FB.
  - destruct (find_tier_name _ _ _ FB) as [NB InB].
    assert (name_in n (names B) = true) as -> by (apply name_in_In; unfold names; rewrite <- NB; now apply in_map).
    destruct (respan tb mn mx) as [t1|] eqn:R1; [|discriminate]. cbn [bind].
    destruct (edit_tier t1 ma RWarning) as [t2|] eqn:E2; [|discriminate]. cbn [bind].
    assert (tname t2 = n) as N2 by (rewrite (edit_tier_name _ _ _ _ E2), (respan_name _ _ _ _ R1); exact NB).
    destruct (find_tier n (tiers g)) as [ta|] eqn:FG.
    + destruct (find_tier_name _ _ _ FG) as [NA InA].
      assert (name_in n (names g) = true) as -> by (apply name_in_In; unfold names; rewrite <- NA; now apply in_map).
      destruct (join_entries ta t2 mn mx) as [t3|] eqn:J; [|discriminate]. cbn [bind].
      destruct (replace_step g n t3 RWarning) as [[u|e] g2] eqn:RS; [|discriminate]. intros [= <-].
      destruct (replace_step_ok _ _ _ _ _ _ RS) as (k & Ek & T). cbn [andb negb]. rewrite app_nil_r.
      unfold names. rewrite T. apply reinsert_names; [exact Ek|]. rewrite (join_entries_name _ _ _ _ _ J). exact NA.
    + assert (name_in n (names g) = false) as ->.
      { destruct (name_in n (names g)) eqn:X; [|reflexivity]. apply name_in_In in X. apply find_tier_none in FG. contradiction. }
      destruct (respan t2 mn mx) as [t3|] eqn:R3; [|discriminate]. cbn [bind].
      destruct (add_step g t3 None RWarning) as [[u|e] g2] eqn:A; [|discriminate]. intros [= <-].
      destruct (add_step_none_ok _ _ _ _ _ A) as [T _]. cbn [andb negb]. unfold names. rewrite T, map_app. cbn [map].
      now rewrite (respan_name _ _ _ _ R3), N2.
  - intros [= <-]. assert (name_in n (names B) = false) as ->; [|cbn [andb]; now rewrite app_nil_r].
    destruct (name_in n (names B)) eqn:X; [|reflexivity]. apply name_in_In in X. apply find_tier_none in FB. contradiction.
Qed.

Lemma fold_append_names ma mn mx B : forall final g g', NoDup final ->
  fold_res (append_one ma mn mx B) final g = Ok g' ->
  names g' = names g ++ filter (fun n => name_in n (names B) && negb (name_in n (names g))) final.
Proof.
  induction final as [|n rest IH]; intros g g' ND H; cbn [fold_res] in H.
  - injection H as <-. cbn [filter]. now rewrite app_nil_r.
  - destruct (append_one ma mn mx B g n) as [g2|] eqn:A; [|discriminate]. cbn [bind] in H.
    inversion ND as [|? ? NI ND']; subst.
    pose proof (append_one_names _ _ _ _ _ _ _ A) as N2. rewrite (IH _ _ ND' H). cbn [filter].
    assert (filter (fun x => name_in x (names B) && negb (name_in x (names g2))) rest
            = filter (fun x => name_in x (names B) && negb (name_in x (names g))) rest) as ->.
    { apply filter_ext_in. intros x Hx. f_equal. f_equal. rewrite N2.
      destruct (name_in n (names B) && negb (name_in n (names g))); [|now rewrite app_nil_r].
      unfold name_in. rewrite existsb_app. cbn [existsb]. rewrite orb_false_r.
      destruct (text_eqb x n) eqn:E; [|now rewrite orb_false_r].
      apply text_eqb_eq in E. subst. contradiction. }
    rewrite N2.
    destruct (name_in n (names B) && negb (name_in n (names g))); [now rewrite <- app_assoc|now rewrite app_nil_r].
Qed.

Lemma filter_map_find_names A l :
  map tname (filter_map (fun n => find_tier n (tiers A)) l) = filter (fun n => name_in n (names A)) l.
Proof.
  induction l as [|n l IH]; [reflexivity|]. cbn [filter_map filter].
  destruct (find_tier n (tiers A)) as [t|] eqn:F.
  - destruct (find_tier_name _ _ _ F) as [N I].
    assert (name_in n (names A) = true) as -> by (apply name_in_In; unfold names; rewrite <- N; now apply in_map).
    cbn [map]. now rewrite IH, N.
  - assert (name_in n (names A) = false) as ->; [|exact IH].
    destruct (name_in n (names A)) eqn:X; [|reflexivity]. apply name_in_In in X. apply find_tier_none in F. contradiction.
Qed.

Lemma filter_all {A} (p : A -> bool) l : (forall x, In x l -> p x = true) -> filter p l = l.
Proof.
  induction l as [|x l IH]; intro H; [reflexivity|]. cbn [filter]. rewrite (H x (or_introl eq_refl)).
  f_equal. apply IH. intros y Hy. apply H. now right.
Qed.

Lemma filter_none {A} (p : A -> bool) l : (forall x, In x l -> p x = false) -> filter p l = [].
Proof.
  induction l as [|x l IH]; intro H; [reflexivity|]. cbn [filter]. rewrite (H x (or_introl eq_refl)).
  apply IH. intros y Hy. apply H. now right.
Qed.

Lemma NoDup_app_intro {A} (l m : list A) :
  NoDup l -> NoDup m -> (forall x, In x l -> In x m -> False) -> NoDup (l ++ m).
Proof.
  induction l as [|a l IH]; intros Hl Hm Hd; [exact Hm|]. cbn [app]. inversion Hl as [|? ? Na Hl']; subst.
  constructor.
  - intro Hin. apply in_app_or in Hin as [Hin|Hin]; [contradiction|]. apply (Hd a); [now left|exact Hin].
  - apply IH; [exact Hl'|exact Hm|]. intros x Hx Hy. apply (Hd x); [now right|exact Hy].
Qed.

Lemma final_names_nodup A B only : NoDup (names A) -> NoDup (names B) -> NoDup (final_names A B only).
Proof.
  intros HA HB. unfold final_names.
  assert (NoDup (names A ++ filter (fun n => negb (name_in n (names A))) (names B))) as ND.
  { apply NoDup_app_intro; [exact HA|now apply NoDup_filter|].
    intros x Hx Hy. apply filter_In in Hy as [_ Hy]. apply negb_true_iff in Hy.
    apply name_in_In in Hx. congruence. }
  destruct only; [now apply NoDup_filter|exact ND].
Qed.

(* the tiers of the result, by name and in order: with onlyMatchingNames the tiers of A that B
   also has, in A's order; otherwise A's tiers followed by the tiers only B has, in B's order *)
Theorem tg_append_names A B only g' :
  NoDup (names A) -> NoDup (names B) -> tg_append A B only = Ok g' ->
  names g' = (if only then filter (fun n => name_in n (names B)) (names A)
              else names A ++ filter (fun n => negb (name_in n (names A))) (names B)).
Proof.
  intros HA HB. unfold tg_append.
  destruct (tgmin A) as [mn|]; [|discriminate]. destruct (tgmax A) as [ma|]; [|discriminate].
  destruct (tgmax B) as [mb|]; [|discriminate].
  cbv zeta. remember (final_names A B only) as final eqn:EF.
  assert (NoDup final) as NDF by (rewrite EF; now apply final_names_nodup).
  destruct (add_all _ _ RWarning) as [g1|] eqn:AA; [|discriminate]. cbn [bind]. intro H.
  pose proof (add_all_inv _ _ _ _ AA) as T1. cbn [tiers app] in T1.
  assert (names g1 = filter (fun n => name_in n (names A)) final) as N1
    by (unfold names at 1; rewrite T1; apply filter_map_find_names).
  rewrite (fold_append_names _ _ _ _ _ _ _ NDF H), N1.
  (* inside final, membership in the first loop's result is membership in A *)
  assert (filter (fun n => name_in n (names B) && negb (name_in n (filter (fun n0 => name_in n0 (names A)) final))) final
          = filter (fun n => name_in n (names B) && negb (name_in n (names A))) final) as ->.
  { apply filter_ext_in. intros x Hx. f_equal. f_equal.
    destruct (name_in x (names A)) eqn:XA.
    - apply name_in_In. apply filter_In. split; [exact Hx|exact XA].
    - destruct (name_in x (filter _ final)) eqn:XF; [|reflexivity].
      apply name_in_In, filter_In in XF as [_ XF]. congruence. }
  rewrite EF. unfold final_names.
  set (X := filter (fun n => negb (name_in n (names A))) (names B)).
  assert (forall x, In x X -> name_in x (names A) = false /\ name_in x (names B) = true) as HX.
  { intros x Hx. apply filter_In in Hx as [H1 H2]. apply negb_true_iff in H2. split; [exact H2|now apply name_in_In]. }
  assert (forall x, In x (names A) -> name_in x (names A) = true) as HAin by (intros x Hx; now apply name_in_In).
  destruct only.
  - rewrite !filter_app.
    rewrite (filter_none (fun n => name_in n (names A) && name_in n (names B)) X)
      by (intros x Hx; destruct (HX x Hx) as [-> _]; reflexivity).
    rewrite app_nil_r.
    set (F := filter (fun n => name_in n (names A) && name_in n (names B)) (names A)).
    assert (F = filter (fun n => name_in n (names B)) (names A)) as EqF.
    { unfold F. apply filter_ext_in. intros x Hx. now rewrite (HAin x Hx). }
    assert (forall x, In x F -> name_in x (names A) = true) as HF.
    { intros x Hx. unfold F in Hx. apply filter_In in Hx as [Hx _]. now apply HAin. }
    rewrite (filter_all (fun n => name_in n (names A)) F HF).
    rewrite (filter_none (fun n => name_in n (names B) && negb (name_in n (names A))) F)
      by (intros x Hx; rewrite (HF x Hx); apply andb_false_r).
    now rewrite app_nil_r.
  - rewrite !filter_app.
    rewrite (filter_all (fun n => name_in n (names A)) (names A) HAin).
    rewrite (filter_none (fun n => name_in n (names A)) X) by (intros x Hx; apply (HX x Hx)).
    rewrite (filter_none (fun n => name_in n (names B) && negb (name_in n (names A))) (names A))
      by (intros x Hx; rewrite (HAin x Hx); apply andb_false_r).
    rewrite (filter_all (fun n => name_in n (names B) && negb (name_in n (names A))) X)
      by (intros x Hx; destruct (HX x Hx) as [-> ->]; reflexivity).
    now rewrite app_nil_r.
Qed.

(* the result of appendTextgrid has unique tier names again *)
Theorem tg_append_nodup A B only g' :
  NoDup (names A) -> NoDup (names B) -> tg_append A B only = Ok g' -> NoDup (names g').
Proof.
  intros HA HB H. rewrite (tg_append_names A B only g' HA HB H).
  destruct only.
  - now apply NoDup_filter.
  - apply NoDup_app_intro; [exact HA|now apply NoDup_filter|].
    intros x Hx Hy. apply filter_In in Hy as [_ Hy]. apply negb_true_iff in Hy.
    apply name_in_In in Hx. congruence.
Qed.

(* ---------------- alignBoundariesAcrossTiers ---------------- *)

Fixpoint subst_named (n : text) (t' : tier) (l : list tier) : list tier :=
  match l with
  | [] => []
  | t :: l' => if text_eqb (tname t) n then t' :: l' else t :: subst_named n t' l'
  end.

Lemma replace_list n l k t' :
  index_of n l = Some k -> py_insert (remove_named n l) (Z.of_nat k) t' = subst_named n t' l.
Proof.
  revert k. induction l as [|t0 l IH]; intros k Ei; [discriminate|]. simpl in *.
  destruct (text_eqb (tname t0) n) eqn:E.
  - injection Ei as <-. apply py_insert_zero.
  - destruct (index_of n l) as [j|] eqn:Ej; [|discriminate]. injection Ei as <-.
    rewrite py_insert_cons.
    + f_equal. now apply IH.
    + pose proof (remove_named_length n l j Ej). pose proof (index_of_lt n l j Ej). lia.
Qed.

Lemma subst_named_skip n t' done l :
  ~ In n (map tname done) -> subst_named n t' (done ++ l) = done ++ subst_named n t' l.
Proof.
  induction done as [|x done IH]; intro H; [reflexivity|]. cbn [app subst_named].
  destruct (text_eqb (tname x) n) eqn:E.
  - apply text_eqb_eq in E. exfalso. apply H. now left.
  - f_equal. apply IH. intro Hin. apply H. now right.
Qed.

Lemma dejitter_tier_name t refs d t' : dejitter_tier t refs d = Ok t' -> tname t' = tname t.
Proof.
  destruct t as [t|t]; simpl.
  - destruct (dejitter_i t refs d) as [x|] eqn:E; [|discriminate]. intros [= <-]. simpl.
    unfold dejitter_i in E. destruct (mapM _ (ients t)); [|discriminate]. eapply new_itier_name, E.
  - destruct (dejitter_p t refs d) as [x|] eqn:E; [|discriminate]. intros [= <-]. simpl.
    unfold dejitter_p in E. destruct (mapM _ (pents t)); [|discriminate]. eapply new_ptier_name', E.
Qed.

Definition aligned (n : text) (refs : list Z) (d : Z) (t t' : tier) : Prop :=
  if text_eqb (tname t) n then t' = t else dejitter_tier t refs d = Ok t'.

Lemma fold_align n refs d : forall l done g g',
  tiers g = done ++ l -> NoDup (map tname (done ++ l)) ->
  fold_res (align_one n refs d) l g = Ok g' ->
  exists l', tiers g' = done ++ l' /\ Forall2 (aligned n refs d) l l'.
Proof.
  induction l as [|t l IH]; intros done g g' T ND H; cbn [fold_res] in H.
  - injection H as <-. exists []. split; [exact T|constructor].
  - destruct (align_one n refs d g t) as [g1|] eqn:A; [|discriminate]. cbn [bind] in H.
    unfold align_one in A.
    assert (~ In (tname t) (map tname done)) as NI.
    { rewrite map_app in ND. cbn [map] in ND. apply NoDup_remove_2 in ND. intro Hin. apply ND, in_or_app. now left. }
    destruct (text_eqb (tname t) n) eqn:E.
    + injection A as <-.
      destruct (IH (done ++ [t]) g g') as (l' & T' & F).
      * now rewrite T, <- app_assoc.
      * now rewrite <- app_assoc.
      * exact H.
      * exists (t :: l'). split; [now rewrite T', <- app_assoc|]. constructor; [|exact F]. unfold aligned. now rewrite E.
    + destruct (dejitter_tier t refs d) as [t'|] eqn:D; [|discriminate]. cbn [bind] in A.
      pose proof (dejitter_tier_name _ _ _ _ D) as N.
      destruct (replace_step g (tname t') t' RWarning) as [[u|e] g2] eqn:RS; [|discriminate]. injection A as <-.
      destruct (replace_step_ok _ _ _ _ _ _ RS) as (k & Ek & T2).
      rewrite (replace_list _ _ _ _ Ek), T, N, (subst_named_skip _ _ _ _ NI) in T2. cbn [subst_named] in T2.
      rewrite text_eqb_refl in T2.
      destruct (IH (done ++ [t']) g2 g') as (l' & T' & F).
      * now rewrite T2, <- app_assoc.
      * rewrite <- app_assoc. cbn [app]. rewrite map_app in *. cbn [map] in *. now rewrite N.
      * exact H.
      * exists (t' :: l'). split; [now rewrite T', <- app_assoc|]. constructor; [|exact F]. unfold aligned. now rewrite E.
Qed.

(* alignBoundariesAcrossTiers: the textgrid keeps its tiers, names and order; the reference tier is
   untouched and every other tier is that tier's own dejitter against the reference's timestamps *)
Theorem tg_align_tierwise g n d g' :
  NoDup (names g) -> tg_align g n d = Ok g' ->
  exists ref, find_tier n (tiers g) = Some ref
  /\ Forall2 (aligned n (timestamps_of ref) d) (tiers g) (tiers g').
Proof.
  intros ND. unfold tg_align. destruct (find_tier n (tiers g)) as [ref|]; [|discriminate].
  destruct (too_close d (tl (timestamps_of ref))); [discriminate|]. intro H.
  destruct (fold_align n (timestamps_of ref) d (tiers g) [] g g' eq_refl ND H) as (l' & T & F).
  exists ref. split; [reflexivity|]. now rewrite T.
Qed.

(* ---------------- Textgrid.mergeTiers ---------------- *)

(* the unselected tiers are carried over unchanged and in their order (or dropped when not
   preserved); then at most one interval tier and one point tier, present exactly when a tier of
   that kind was selected *)
Theorem tg_merge_shape g sel keep g' :
  tg_merge g sel keep = Ok g' ->
  let names_sel := match sel with Some l => l | None => names g end in
  exists ts it pt,
    mapM (fun n => match find_tier n (tiers g) with Some t => Ok t | None => Err PyError end) names_sel = Ok ts
    /\ tiers g' = (if keep then filter (fun t => negb (name_in (tname t) names_sel)) (tiers g) else [])
                  ++ match it with Some x => [TI x] | None => [] end ++ match pt with Some x => [TP x] | None => [] end
    /\ (it = None <-> filter_map (fun t => match t with TI x => Some x | TP _ => None end) ts = [])
    /\ (pt = None <-> filter_map (fun t => match t with TP x => Some x | TI _ => None end) ts = []).
Proof.
  unfold tg_merge. cbv zeta. set (names_sel := match sel with Some l => l | None => names g end).
  destruct (mapM _ names_sel) as [ts|] eqn:M; [|discriminate]. cbn [bind].
  remember (filter_map (fun t => match t with TI x => Some x | TP _ => None end) ts) as li eqn:Eli.
  remember (filter_map (fun t => match t with TP x => Some x | TI _ => None end) ts) as lp eqn:Elp.
  destruct (fold_union_i li) as [it|] eqn:FI; [|discriminate]. cbn [bind].
  destruct (fold_union_p lp) as [pt|] eqn:FP; [|discriminate]. cbn [bind]. intro H.
  exists ts, it, pt. split; [reflexivity|]. split; [exact (add_all_inv _ _ _ _ H)|]. rewrite <- Eli, <- Elp. split.
  - unfold fold_union_i in FI. destruct li as [|a r].
    + injection FI as <-. split; reflexivity.
    + destruct (fold_res union_i r a); [|discriminate]. injection FI as <-. split; discriminate.
  - unfold fold_union_p in FP. destruct lp as [|a r].
    + injection FP as <-. split; reflexivity.
    + destruct (fold_res union_p r a); [|discriminate]. injection FP as <-. split; discriminate.
Qed.
