(* Textgrid/TgSplice.v -- praatio_scripts.audioSplice and its helper _shiftTimes: a piece of audio is put into a
   recording and a labelled interval of the same length into the textgrid; optionally a region is cut out of both.
   Times are in ticks of 1/(K*rate) s as in Audio/ZeroCross.v; a recording is its list of samples. *)
From Coq Require Import Lia.
From PraatIO Require Import Tier.TierModel Textgrid.TgModel Textgrid.TgProofs Audio.WavModel Audio.ZeroCross Audio.ZeroCrossProofs.
Open Scope Z_scope.

(* ---------- _shiftTimes ---------- *)

Definition moved_i (tv nv : Z) (e : interval) : interval :=
  if istart e =? tv then mkI nv (iend e) (ilabel e) else mkI (istart e) nv (ilabel e).

Definition shift_i (tv nv : Z) (t : itier) : res itier :=
  let hits := filter (fun e => (istart e =? tv) || (iend e =? tv)) (ients t) in
  do t1 <- fold_res delete_i hits t;
  fold_res (fun u e => insert_i u (moved_i tv nv e) IError) hits t1.

Definition shift_p (tv nv : Z) (t : ptier) : res ptier :=
  let hits := filter (fun e => ptime e =? tv) (pents t) in
  fold_res (fun u e => do u1 <- delete_p u e; insert_p u1 (mkP nv (plabel e)) IError) hits t.

Definition shift_tier (tv nv : Z) (t : tier) : res tier :=
  match t with TI i => do x <- shift_i tv nv i; Ok (TI x) | TP p => do x <- shift_p tv nv p; Ok (TP x) end.

Definition shift_tg (tv nv : Z) (g : tg) : res tg :=
  do l <- mapM (shift_tier tv nv) (tiers g); Ok (mkTG l (tgmin g) (tgmax g)).

(* ---------- the recording ---------- *)

Definition ins (K : Z) (s : list Z) (t : Z) (f : list Z) : list Z := upto s (frK K t) ++ f ++ from s (frK K t).
Definition del (K : Z) (s : list Z) (a b : Z) : list Z := upto s (frK K a) ++ from s (frK K b).
Definition dur (K : Z) (s : list Z) : Z := Z.of_nat (length s) * K.

(* ---------- insertEntry on the named tier (default modes) ---------- *)

Fixpoint insert_named (l : list tier) (n : text) (e : interval) : res (list tier) :=
  match l with
  | [] => Err PyError                                   (* getTier: no such tier *)
  | t :: r =>
      if text_eqb (tname t) n then
        match t with
        | TI i => do i' <- insert_i i e IError; Ok (TI i' :: r)
        | TP _ => Err PyError                           (* a three-part entry for a point tier *)
        end
      else do r' <- insert_named r n e; Ok (t :: r')
  end.

(* ---------- audioSplice ---------- *)

Record prep := mkPrep { p_seg : list Z; p_a : Z; p_b : option Z; p_g : tg }.

Definition splice_prep (K : Z) (s seg : list Z) (st : Z) (g : tg) (a : Z) (b : option Z) (align : bool) : res prep :=
  if align then
    do z0 <- find_zc K seg 0 st;
    do z1 <- find_zc K seg (dur K seg) st;
    let seg1 := between seg (frK K z0) (frK K z1) in
    do a1 <- find_zc K s a st;
    do g1 <- shift_tg a a1 g;
    match b with
    | None => Ok (mkPrep seg1 a1 None g1)
    | Some b0 => do b1 <- find_zc K s b0 st; do g2 <- shift_tg b0 b1 g1; Ok (mkPrep seg1 a1 (Some b1) g2)
    end
  else Ok (mkPrep seg a b g).

Definition splice (K : Z) (s seg : list Z) (st : Z) (g : tg) (n lab : text) (a : Z) (b : option Z) (align : bool)
  : res (list Z * tg) :=
  do p <- splice_prep K s seg st g a b align;
  let it := match p_b p with Some x => x | None => p_a p end in
  let s1 := ins K s it (p_seg p) in
  let d := dur K (p_seg p) in
  do g2 <- tg_space (p_g p) it d SStretch;
  do l3 <- insert_named (tiers g2) n (mkI it (it + d) lab);
  let g3 := mkTG l3 (tgmin g2) (tgmax g2) in
  match p_b p with
  | None => Ok (s1, g3)
  | Some x => do g4 <- tg_erase g3 (p_a p) x true; Ok (del K s1 (p_a p) x, g4)
  end.
