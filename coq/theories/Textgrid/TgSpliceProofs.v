(* Textgrid/TgSpliceProofs.v -- audioSplice keeps recording and textgrid in step: if the textgrid ends where the
   recording ends, it still does afterwards; the new interval lies over exactly the inserted audio. *)
From Coq Require Import Lia Permutation Sorted.
From PraatIO Require Import Tier.TierModel Tier.Interval Tier.CtorProofs Tier.InsertProofs Tier.WfProofs Tier.SpaceProofs
  Textgrid.TgModel Textgrid.TgProofs Audio.WavModel Audio.ZeroCross Audio.ZeroCrossProofs Audio.KeepDeleteProofs
  Textgrid.TgSplice.
Open Scope Z_scope.

Definition wf_tier (t : tier) : Prop := match t with TI i => wf_itier i | TP p => wf_ptier p end.

(* a well-formed tier that starts no later than 0 and ends no later than M *)
Definition within (M : Z) (t : tier) : Prop := wf_tier t /\ tmin t <= 0 /\ tmax t <= M.

(* ---------- lists of samples ---------- *)

Lemma ins_length K s t f : length (ins K s t f) = (length s + length f)%nat.
Proof.
  unfold ins, upto, from. rewrite !app_length, firstn_length, skipn_length. lia.
Qed.

Lemma dur_ins K s t f : dur K (ins K s t f) = dur K s + dur K f.
Proof. unfold dur. rewrite ins_length. lia. Qed.

Lemma dur_del K s i j : 0 < K -> (i <= j <= length s)%nat ->
  dur K (del K s (Z.of_nat i * K) (Z.of_nat j * K)) = dur K s - (Z.of_nat j * K - Z.of_nat i * K).
Proof.
  intros HK H. unfold dur, del, frK, upto, from. rewrite !rhe_exact by exact HK.
  rewrite app_length, firstn_length, skipn_length, !Nat2Z.id, Nat.min_l by lia.
  rewrite Nat2Z.inj_add, Nat2Z.inj_sub by lia. lia.
Qed.

Lemma between_ins K s i f : 0 < K -> (i <= length s)%nat ->
  between (ins K s (Z.of_nat i * K) f) (frK K (Z.of_nat i * K)) (frK K (Z.of_nat i * K + dur K f)) = f.
Proof.
  intros HK Hi. unfold dur. replace (Z.of_nat i * K + Z.of_nat (length f) * K) with (Z.of_nat (i + length f) * K) by lia.
  unfold ins, frK, between, upto, from. rewrite !rhe_exact by exact HK. rewrite !Nat2Z.id.
  replace (i + length f - i)%nat with (length f) by lia.
  rewrite skipn_app, firstn_length, Nat.min_l by exact Hi.
  replace (i - i)%nat with 0%nat by lia. cbn [skipn].
  rewrite (skipn_all2 (firstn i s)) by (rewrite firstn_length; lia). cbn [app].
  rewrite firstn_app, Nat.sub_diag, firstn_all. cbn [firstn]. now rewrite app_nil_r.
Qed.

(* ---------- spans through insertEntry ---------- *)

Lemma insert_i_span t e t' : wf_itier t -> insert_i t e IError = Ok t' ->
  iname t' = iname t /\ imin t' = Z.min (imin t) (istart e) /\ imax t' = Z.max (imax t) (iend e).
Proof.
  intros W H. rewrite (insert_i_public_spec t e IError W) in H. unfold insert_spec in H.
  destruct (iend (strip_i e) <=? istart (strip_i e)); [discriminate|].
  destruct (filter _ (ients t)); [|discriminate]. injection H as <-. cbn [iname imin imax].
  destruct e; cbn. auto.
Qed.

Lemma delete_i_span t e t' : delete_i t e = Ok t' -> iname t' = iname t /\ imin t' = imin t /\ imax t' = imax t.
Proof. unfold delete_i. destruct (remove_first _ _ _); [|discriminate]. intros [= <-]. auto. Qed.

Lemma delete_p_span t e t' : delete_p t e = Ok t' -> pname t' = pname t /\ pmin t' = pmin t /\ pmax t' = pmax t.
Proof. unfold delete_p. destruct (remove_first _ _ _); [|discriminate]. intros [= <-]. auto. Qed.

Lemma isortp_perm l : Permutation l (isortp l).
Proof. apply isort_perm. Qed.

Lemma insert_p_span t e t' : wf_ptier t -> insert_p t e IError = Ok t' ->
  pname t' = pname t /\ pmin t' <= pmin t /\ pmax t' <= Z.max (pmax t) (ptime e).
Proof.
  intros (Ws & Wsp & Wl) H. unfold insert_p, insert_p_core in H.
  replace (ptime (strip_p e)) with (ptime e) in H by (destruct e; reflexivity).
  destruct (find_time (ptime e) (pents t)); [discriminate|]. cbn [bind] in H. injection H as <-.
  cbn [pname pmin pmax]. split; [reflexivity|].
  set (l := isortp (pents t ++ [strip_p e])).
  assert (forall q, In q l -> q = strip_p e \/ In q (pents t)) as Hin.
  { intros q Hq. apply (Permutation_in q (Permutation_sym (isortp_perm _))) in Hq.
    apply in_app_or in Hq as [Hq|[<-|[]]]; auto. }
  rewrite Forall_forall in Wsp. split.
  - destruct l as [|p0 r]; [lia|]. destruct (ptime p0 <? pmin t) eqn:E; lia.
  - destruct (last_opt l) as [pl|] eqn:E; [|lia].
    destruct (pmax t <? ptime pl) eqn:E2; [|lia].
    destruct (Hin pl (last_opt_In _ _ E)) as [->|Hq].
    + destruct e; cbn. lia.
    + specialize (Wsp pl Hq). lia.
Qed.

(* ---------- _shiftTimes keeps a tier within [.., M] ---------- *)

Definition iwithin (M : Z) (t : itier) : Prop := wf_itier t /\ imin t <= 0 /\ imax t <= M.
Definition pwithin (M : Z) (t : ptier) : Prop := wf_ptier t /\ pmin t <= 0 /\ pmax t <= M.

Lemma fold_res_inv2 {A S} (P : S -> Prop) (Q : A -> Prop) (f : S -> A -> res S) l :
  (forall s x s', P s -> Q x -> f s x = Ok s' -> P s') ->
  Forall Q l -> forall s s', P s -> fold_res f l s = Ok s' -> P s'.
Proof.
  intros Hf. induction 1 as [|x l Hx _ IH]; intros s s' Hs H; cbn [fold_res] in H.
  - now injection H as <-.
  - destruct (f s x) as [s1|] eqn:E; [|discriminate]. cbn [bind] in H. eapply IH; [|exact H]. eapply Hf; eauto.
Qed.

Lemma shift_i_within M tv nv t t' : 0 <= nv <= M -> iwithin M t -> shift_i tv nv t = Ok t' ->
  iwithin M t' /\ iname t' = iname t.
Proof.
  intros Hnv (W & Hmin & Hmax) H. unfold shift_i in H.
  set (hits := filter (fun e => (istart e =? tv) || (iend e =? tv)) (ients t)) in *.
  assert (Forall (fun e => iend e <= M /\ 0 <= 0) hits) as Hh.
  { apply Forall_forall. intros e He. apply filter_In in He as [He _].
    destruct W as (_ & Sp & _). rewrite Forall_forall in Sp. destruct (Sp e He). lia. }
  destruct (fold_res delete_i hits t) as [t1|] eqn:D; [|discriminate]. cbn [bind] in H.
  assert (iwithin M t1 /\ iname t1 = iname t) as [W1 N1].
  { eapply (fold_res_inv2 (fun u => iwithin M u /\ iname u = iname t) (fun _ => True)); [| |split;[split;[exact W|]|]|exact D]; auto.
    - intros u x u' [(Wu & A & B) Nu] _ E. destruct (delete_i_span _ _ _ E) as (N & A' & B').
      split; [split; [eapply delete_i_wf; eauto|lia]|congruence].
    - apply Forall_forall. auto. }
  eapply (fold_res_inv2 (fun u => iwithin M u /\ iname u = iname t) (fun e => iend e <= M /\ 0 <= 0)); [|exact Hh|split;[exact W1|exact N1]|exact H].
  intros u x u' [(Wu & A & B) Nu] [Hx _] E. destruct (insert_i_span _ _ _ Wu E) as (N & A' & B').
  split; [split; [eapply insert_i_wf; eauto|]|congruence].
  unfold moved_i in A', B'. destruct (istart x =? tv); cbn [istart iend] in *; lia.
Qed.

Lemma shift_p_within M tv nv t t' : 0 <= nv <= M -> pwithin M t -> shift_p tv nv t = Ok t' ->
  pwithin M t' /\ pname t' = pname t.
Proof.
  intros Hnv W H. unfold shift_p in H.
  eapply (fold_res_inv2 (fun u => pwithin M u /\ pname u = pname t) (fun _ => True)); [| |split;[exact W|reflexivity]|exact H].
  - intros u x u' [(Wu & A & B) Nu] _ E.
    destruct (delete_p u x) as [u1|] eqn:D; [|discriminate]. cbn [bind] in E.
    destruct (delete_p_span _ _ _ D) as (N1 & A1 & B1).
    pose proof (delete_p_wf _ _ _ Wu D) as W1.
    destruct (insert_p_span _ _ _ W1 E) as (N2 & A2 & B2). cbn [ptime] in B2.
    split; [split; [eapply insert_p_wf; eauto|lia]|congruence].
  - apply Forall_forall. auto.
Qed.

Lemma shift_tier_within M tv nv t t' : 0 <= nv <= M -> within M t -> shift_tier tv nv t = Ok t' ->
  within M t' /\ tname t' = tname t.
Proof.
  intros Hnv W H. destruct t as [i|p]; cbn [shift_tier] in H.
  - destruct (shift_i tv nv i) as [x|] eqn:E; [|discriminate]. injection H as <-.
    destruct (shift_i_within M tv nv i x Hnv W E). auto.
  - destruct (shift_p tv nv p) as [x|] eqn:E; [|discriminate]. injection H as <-.
    destruct (shift_p_within M tv nv p x Hnv W E). auto.
Qed.

(* what audioSplice needs of the textgrid it works on *)
Definition ready (M : Z) (g : tg) : Prop :=
  tgmax g = Some M /\ NoDup (names g) /\ Forall (within M) (tiers g).

Lemma shift_tg_ready M tv nv g g' : 0 <= nv <= M -> ready M g -> shift_tg tv nv g = Ok g' -> ready M g'.
Proof.
  intros Hnv (Hmax & Hn & Hw) H. unfold shift_tg in H.
  destruct (mapM (shift_tier tv nv) (tiers g)) as [l|] eqn:E; [|discriminate]. injection H as <-.
  pose proof (mapM_Forall2 _ _ _ E) as F.
  split; [exact Hmax|]. unfold names in *. cbn [tiers].
  assert (map tname l = map tname (tiers g) /\ Forall (within M) l) as [A B].
  { clear E Hn. induction F as [|t t' r r' Ht _ IH]; [auto|].
    inversion Hw as [|? ? Wt Wr]; subst. destruct (IH Wr) as [A B].
    destruct (shift_tier_within M tv nv t t' Hnv Wt Ht) as [W' N].
    split; [cbn [map]; congruence|constructor; assumption]. }
  split; [now rewrite A|exact B].
Qed.

(* ---------- insertSpace ---------- *)

Lemma space_p_span t s d t' : wf_ptier t -> 0 <= d -> space_p t s d = Ok t' ->
  pname t' = pname t /\ pmax t' <= Z.max (pmin t) (pmax t + d).
Proof.
  intros (Ws & Wsp & Wl) Hd H. unfold space_p, new_ptier in H.
  set (l' := homog_p _) in H.
  destruct (zmin_list _) as [a|]; [|discriminate].
  destruct (zmax_list (map ptime l' ++ opt_list (Some (pmin t)) ++ opt_list (Some (pmax t + d)))) as [b|] eqn:Eb; [|discriminate].
  injection H as <-. cbn [pname pmax]. split; [reflexivity|].
  apply zmax_list_spec in Eb as [Hin _].
  apply in_app_or in Hin as [Hin|Hin].
  - apply in_map_iff in Hin as (q & <- & Hq). unfold l', homog_p in Hq.
    assert (exists p, In p (pents t) /\ ptime q = (if ptime p <=? s then ptime p else ptime p + d)) as (p & Hp & Eq).
    { unfold isortp in Hq. apply (Permutation_in q (Permutation_sym (isort_perm _ _))) in Hq.
      apply in_map_iff in Hq as (q1 & <- & Hq1). apply in_map_iff in Hq1 as (p & <- & Hp).
      exists p. split; [exact Hp|]. destruct (ptime p <=? s); destruct p; reflexivity. }
    rewrite Forall_forall in Wsp. specialize (Wsp p Hp). rewrite Eq. destruct (ptime p <=? s); lia.
  - cbn in Hin. destruct Hin as [<-|[<-|[]]]; lia.
Qed.

Lemma space_tier_span M t s d t' : 0 <= M -> within M t -> 0 <= d -> 0 <= s -> space_tier t s d SStretch = Ok t' ->
  tname t' = tname t /\ tmax t' <= M + d /\ wf_tier t'.
Proof.
  intros HM (W & Hmin & Hmax) Hd Hs H. destruct t as [i|p]; cbn [space_tier] in H.
  - cbn [wf_tier tmin tmax tname] in *.
    assert (space_i i s d SStretch = Ok (mkIT (iname i) (flat_map (space1 s d SStretch) (ients i)) (imin i) (imax i + d))) as E
        by (apply space_i_ok; [exact W|exact Hd|lia|discriminate]).
    rewrite E in H. cbn [bind] in H. injection H as <-. cbn [tname tmax iname imax wf_tier].
    split; [reflexivity|]. split; [lia|].
    unfold space_i in E. cbn [andb] in E. eapply new_itier_wf, E.
  - cbn [wf_tier tmin tmax tname] in *.
    destruct (space_p p s d) as [x|] eqn:E; [|discriminate]. injection H as <-.
    destruct (space_p_span _ _ _ _ W Hd E) as [N X]. cbn [tname tmax wf_tier]. split; [exact N|]. split; [lia|].
    unfold space_p in E. eapply new_ptier_wf; eauto.
Qed.

Lemma add_all_max l m X : forall g g', add_all g l m = Ok g' -> tgmax g = Some X ->
  Forall (fun t => tmax t <= X) l -> tgmax g' = Some X.
Proof.
  induction l as [|t l IH]; intros g g' H Hx F; cbn [add_all] in H; [now injection H as <-|].
  inversion F as [|? ? Ft Fl]; subst.
  destruct (add_step g t None m) as [[u|e] g1] eqn:E; [|discriminate].
  eapply IH; [exact H| |exact Fl].
  unfold add_step in E. destruct (has_name g (tname t)); [discriminate|]. destruct (_ && _); [discriminate|].
  injection E as _ <-. cbn [tgmax]. unfold new_max. rewrite Hx. f_equal. lia.
Qed.

Lemma tg_space_ready M g s d g' : 0 <= M -> ready M g -> 0 <= d -> 0 <= s -> tg_space g s d SStretch = Ok g' ->
  tgmax g' = Some (M + d) /\ names g' = names g /\ Forall wf_tier (tiers g').
Proof.
  intros HM (Hmax & Hn & Hw) Hd Hs H.
  destruct (tg_space_tierwise g s d SStretch g' Hn H) as [N F].
  unfold tg_space in H. destruct (mapM _ (tiers g)) as [l|] eqn:E; [|discriminate]. cbn [bind] in H.
  pose proof (add_all_inv _ _ _ _ H) as T. cbn [tiers app] in T.
  assert (Forall (fun t => tmax t <= M + d /\ wf_tier t) l) as Fl.
  { pose proof (mapM_Forall2 _ _ _ E) as F2. clear -F2 Hw Hd Hs HM.
    induction F2 as [|t t' r r' Ht _ IH]; [constructor|]. inversion Hw; subst.
    destruct (space_tier_span M t s d t') as (_ & A & B); auto. }
  split; [|split; [exact N|]].
  - eapply add_all_max; [exact H|cbn [tgmax]; now rewrite Hmax|]. eapply Forall_impl; [|exact Fl]. now intros t [A _].
  - rewrite T. eapply Forall_impl; [|exact Fl]. now intros t [_ B].
Qed.

(* ---------- insertEntry on the named tier ---------- *)

Lemma insert_named_names l : forall n e l', Forall wf_tier l -> insert_named l n e = Ok l' -> map tname l' = map tname l.
Proof.
  induction l as [|t l IH]; intros n e l' W H; cbn [insert_named] in H; [discriminate|].
  inversion W as [|? ? Wt Wl]; subst.
  destruct (text_eqb (tname t) n).
  - destruct t as [i|p]; [|discriminate]. destruct (insert_i i e IError) as [i'|] eqn:E; [|discriminate].
    injection H as <-. cbn [map tname]. f_equal. now destruct (insert_i_span _ _ _ Wt E).
  - destruct (insert_named l n e) as [r|] eqn:E; [|discriminate]. injection H as <-. cbn [map]. f_equal. eapply IH; eauto.
Qed.

Lemma insert_named_found l : forall n e l', Forall wf_tier l -> insert_named l n e = Ok l' ->
  exists i, find_tier n l' = Some (TI i) /\ In (strip_i e) (ients i).
Proof.
  induction l as [|t l IH]; intros n e l' W H; cbn [insert_named] in H; [discriminate|].
  inversion W as [|? ? Wt Wl]; subst.
  destruct (text_eqb (tname t) n) eqn:En.
  - destruct t as [i|p]; [|discriminate]. destruct (insert_i i e IError) as [i'|] eqn:E; [|discriminate].
    injection H as <-. exists i'. cbn [find_tier tname]. destruct (insert_i_span _ _ _ Wt E) as (N & _). rewrite N.
    cbn [tname] in En. rewrite En. split; [reflexivity|].
    rewrite (insert_i_public_spec i e IError Wt) in E. unfold insert_spec in E.
    destruct (_ <=? _); [discriminate|]. destruct (filter _ (ients i)); [|discriminate]. injection E as <-. cbn [ients].
    apply (Permutation_in _ (insert_perm ileb (strip_i e) (ients i))). now left.
  - destruct (insert_named l n e) as [r|] eqn:E; [|discriminate]. injection H as <-.
    destruct (IH n e r Wl E) as (i & Fi & Hi). exists i. cbn [find_tier]. now rewrite En.
Qed.

(* ---------- audioSplice ---------- *)

Definition on_grid (K : Z) (s : list Z) (x : Z) : Prop := exists j, x = Z.of_nat j * K /\ (j <= length s)%nat.

Lemma crossing_on_grid K s x : on_crossing K s x -> on_grid K s x.
Proof. intros (j & -> & (Hj & _)). exists j. split; [reflexivity|lia]. Qed.

(* what the preparation hands over: times on sample positions inside the recording, a textgrid still ready *)
Definition prep_ok (K : Z) (s : list Z) (p : prep) : Prop :=
  on_grid K s (p_a p) /\ match p_b p with Some x => on_grid K s x | None => True end /\ ready (dur K s) (p_g p).

Lemma on_grid_range K s x : 0 < K -> on_grid K s x -> 0 <= x <= dur K s.
Proof. intros HK (j & -> & Hj). unfold dur. nia. Qed.

Lemma splice_prep_ok K s seg st g a b align p : 0 < K ->
  ready (dur K s) g ->
  (align = false -> on_grid K s a /\ match b with Some x => on_grid K s x | None => True end) ->
  splice_prep K s seg st g a b align = Ok p -> prep_ok K s p.
Proof.
  intros HK R Hna H. unfold splice_prep in H. destruct align.
  - destruct (find_zc K seg 0 st) as [z0|]; [|discriminate]. cbn [bind] in H.
    destruct (find_zc K seg (dur K seg) st) as [z1|]; [|discriminate]. cbn [bind] in H.
    pose proof (find_zc_total K s a st HK) as Ta.
    destruct (find_zc K s a st) as [a1|]; [|discriminate]. cbn [bind] in H.
    apply crossing_on_grid in Ta. pose proof (on_grid_range K s a1 HK Ta) as Ra.
    destruct (shift_tg a a1 g) as [g1|] eqn:S1; [|discriminate]. cbn [bind] in H.
    pose proof (shift_tg_ready _ _ _ _ _ Ra R S1) as R1.
    destruct b as [b0|].
    + pose proof (find_zc_total K s b0 st HK) as Tb.
      destruct (find_zc K s b0 st) as [b1|]; [|discriminate]. cbn [bind] in H.
      apply crossing_on_grid in Tb. pose proof (on_grid_range K s b1 HK Tb) as Rb.
      destruct (shift_tg b0 b1 g1) as [g2|] eqn:S2; [|discriminate]. cbn [bind] in H.
      injection H as <-. repeat split; cbn; auto. all: try apply (shift_tg_ready _ _ _ _ _ Rb R1 S2).
    + injection H as <-. repeat split; cbn; auto; apply R1.
  - injection H as <-. destruct (Hna eq_refl) as [A B]. repeat split; cbn; auto; apply R.
Qed.

(* the recording and the textgrid end together before, so they do afterwards *)
Theorem splice_in_step K s seg st g n lab a b align s' g' : 0 < K ->
  ready (dur K s) g ->
  (align = false -> on_grid K s a /\ match b with Some x => on_grid K s x | None => True end) ->
  splice K s seg st g n lab a b align = Ok (s', g') ->
  tgmax g' = Some (dur K s').
Proof.
  intros HK R Hna H. unfold splice in H.
  destruct (splice_prep K s seg st g a b align) as [p|] eqn:P; [|discriminate]. cbn [bind] in H.
  destruct (splice_prep_ok _ _ _ _ _ _ _ _ _ HK R Hna P) as (Ga & Gb & Rp).
  assert (0 <= dur K s) as HM by (unfold dur; nia).
  set (it := match p_b p with Some x => x | None => p_a p end) in *.
  assert (on_grid K s it) as Git by (unfold it; destruct (p_b p); assumption).
  pose proof (on_grid_range K s it HK Git) as Rit.
  set (d := dur K (p_seg p)) in *.
  assert (0 <= d) as Hd by (unfold d, dur; nia).
  destruct (tg_space (p_g p) it d SStretch) as [g2|] eqn:S; [|discriminate]. cbn [bind] in H.
  destruct (tg_space_ready _ _ _ _ _ HM Rp Hd (proj1 Rit) S) as (M2 & N2 & W2).
  destruct (insert_named (tiers g2) n (mkI it (it + d) lab)) as [l3|] eqn:I; [|discriminate]. cbn [bind] in H.
  pose proof (insert_named_names _ _ _ _ W2 I) as N3.
  destruct (p_b p) as [x|] eqn:Eb.
  - destruct (tg_erase _ (p_a p) x true) as [g4|] eqn:E; [|discriminate]. cbn [bind] in H. injection H as <- <-.
    assert (p_a p < x) as Hlt.
    { unfold tg_erase in E. destruct (x <=? p_a p) eqn:C; [discriminate|lia]. }
    assert (NoDup (names (mkTG l3 (tgmin g2) (tgmax g2)))) as ND3.
    { unfold names. cbn [tiers]. rewrite N3. fold (names g2). rewrite N2. apply Rp. }
    destruct (tg_erase_tierwise _ _ _ _ _ ND3 E) as (_ & _ & Mx).
    rewrite Mx. cbn [tgmax]. rewrite M2. f_equal.
    destruct Ga as (i & Ei & Hi). destruct Gb as (j & Ej & Hj). rewrite Ei, Ej in *.
    rewrite dur_del; [rewrite dur_ins; fold d; lia|exact HK|]. rewrite ins_length. nia.
  - injection H as <- <-. cbn [tgmax]. rewrite M2, dur_ins. reflexivity.
Qed.

(* without a region to replace: the named tier holds the new interval, and the audio under it is the inserted piece *)
Theorem splice_new_interval K s seg st g n lab a align s' g' : 0 < K ->
  ready (dur K s) g -> (align = false -> on_grid K s a) ->
  splice K s seg st g n lab a None align = Ok (s', g') ->
  exists p i, splice_prep K s seg st g a None align = Ok p
    /\ find_tier n (tiers g') = Some (TI i)
    /\ In (mkI (p_a p) (p_a p + dur K (p_seg p)) (strip lab)) (ients i)
    /\ between s' (frK K (p_a p)) (frK K (p_a p + dur K (p_seg p))) = p_seg p
    /\ dur K s' = dur K s + dur K (p_seg p).
Proof.
  intros HK R Hna H. unfold splice in H.
  destruct (splice_prep K s seg st g a None align) as [p|] eqn:P; [|discriminate]. cbn [bind] in H.
  assert (p_b p = None) as Eb.
  { unfold splice_prep in P. destruct align; [|now injection P as <-].
    destruct (find_zc K seg 0 st); [|discriminate]. cbn [bind] in P.
    destruct (find_zc K seg (dur K seg) st); [|discriminate]. cbn [bind] in P.
    destruct (find_zc K s a st); [|discriminate]. cbn [bind] in P.
    destruct (shift_tg _ _ g); [|discriminate]. cbn [bind] in P. now injection P as <-. }
  destruct (splice_prep_ok K s seg st g a None align p HK R) as (Ga & _ & Rp); [intro E; split; [auto|exact I]|exact P|].
  rewrite Eb in H.
  pose proof (on_grid_range K s _ HK Ga) as Rit.
  assert (0 <= dur K s) as HM by (unfold dur; nia).
  assert (0 <= dur K (p_seg p)) as Hd by (unfold dur; nia).
  destruct (tg_space (p_g p) (p_a p) _ SStretch) as [g2|] eqn:S; [|discriminate]. cbn [bind] in H.
  destruct (tg_space_ready _ _ _ _ _ HM Rp Hd (proj1 Rit) S) as (M2 & N2 & W2).
  destruct (insert_named (tiers g2) n _) as [l3|] eqn:I; [|discriminate]. cbn [bind] in H. injection H as <- <-.
  destruct (insert_named_found _ _ _ _ W2 I) as (i & Fi & Hi).
  exists p, i. split; [reflexivity|]. split; [exact Fi|]. split; [exact Hi|].
  destruct Ga as (j & Ej & Hj). rewrite Ej. split; [apply between_ins; assumption|apply dur_ins].
Qed.

(* the premises are satisfiable: a six-sample recording, one interval tier, an insertion at sample 3 *)
Example splice_example :
  let s := [1; -1; 1; -1; 1; -1] in
  let g := mkTG [TI (mkIT [119%N] [mkI 0 8 [97%N]] 0 24)] (Some 0) (Some 24) in
  ready (dur 4 s) g /\ on_grid 4 s 12
  /\ splice 4 s [5; 6] 64 g [119%N] [110%N] 12 None false
     = Ok ([1; -1; 1; 5; 6; -1; 1; -1],
           mkTG [TI (mkIT [119%N] [mkI 0 8 [97%N]; mkI 12 20 [110%N]] 0 32)] (Some 0) (Some 32)).
Proof.
  cbn zeta. split; [|split].
  - split; [reflexivity|]. split; [repeat constructor; intros []|].
    constructor; [|constructor]. split; [|cbn; lia]. cbn [wf_tier]. apply wf_itierb_spec. vm_compute. reflexivity.
  - exists 3%nat. split; [reflexivity|cbn; lia].
  - vm_compute. reflexivity.
Qed.
