(* Textgrid/TgZc.v -- praatio_scripts.tgBoundariesToZeroCrossings: every boundary / point time goes to the
   nearest zero crossing of the recording; the tier is rebuilt with tier.new(entries=...) and put back
   with replaceTier.  Times are in ticks of 1/(K*rate) s as in Audio/ZeroCross.v. *)
From Coq Require Import Lia Permutation.
From PraatIO Require Import Tier.TierModel Tier.CtorProofs Textgrid.TgModel Textgrid.TgProofs Audio.ZeroCross.
Open Scope Z_scope.

Definition zc_tier (K : Z) (s : list Z) (st : Z) (t : tier) : res tier :=
  match t with
  | TP p =>
      do l <- mapM (fun pt => do x <- find_zc K s (ptime pt) st; Ok (mkP x (plabel pt))) (pents p);
      do p' <- new_ptier (pname p) l (Some (pmin p)) (Some (pmax p));
      Ok (TP p')
  | TI i =>
      do l <- mapM (fun iv => do a <- find_zc K s (istart iv) st; do b <- find_zc K s (iend iv) st;
                              Ok (mkI a b (ilabel iv))) (ients i);
      do i' <- new_itier (iname i) l (Some (imin i)) (Some (imax i));
      Ok (TI i')
  end.

Definition zc_one (K : Z) (s : list Z) (st : Z) (adjP adjI : bool) (g : tg) (t : tier) : res tg :=
  let skip := match t with TP _ => negb adjP | TI _ => negb adjI end in
  if skip then Ok g else
  do t' <- zc_tier K s st t;
  match replace_step g (tname t) t' RWarning with
  | (Ok _, g') => Ok g'
  | (Err e, _) => Err e
  end.

Definition tg_zc (K : Z) (s : list Z) (st : Z) (adjP adjI : bool) (g : tg) : res tg :=
  fold_res (zc_one K s st adjP adjI) (tiers g) g.

(* ---------- what it keeps ---------- *)

Definition tlabels (t : tier) : list text :=
  match t with TI i => map ilabel (ients i) | TP p => map plabel (pents p) end.

Definition tcount (t : tier) : nat := length (tlabels t).

Lemma mapM_labels_p K s st : forall l l',
  mapM (fun pt => do x <- find_zc K s (ptime pt) st; Ok (mkP x (plabel pt))) l = Ok l' -> map plabel l' = map plabel l.
Proof.
  induction l as [|p l IH]; intros l' H; cbn [mapM] in H; [now injection H as <-|].
  destruct (find_zc K s (ptime p) st) as [x|]; [|discriminate]. cbn [bind] in H.
  destruct (mapM _ l) as [r|] eqn:E; [|discriminate]. cbn [bind] in H. injection H as <-.
  cbn [map plabel]. f_equal. now apply IH.
Qed.

Lemma mapM_labels_i K s st : forall l l',
  mapM (fun iv => do a <- find_zc K s (istart iv) st; do b <- find_zc K s (iend iv) st; Ok (mkI a b (ilabel iv))) l = Ok l' ->
  map ilabel l' = map ilabel l.
Proof.
  induction l as [|p l IH]; intros l' H; cbn [mapM] in H; [now injection H as <-|].
  destruct (find_zc K s (istart p) st) as [x|]; [|discriminate]. cbn [bind] in H.
  destruct (find_zc K s (iend p) st) as [y|]; [|discriminate]. cbn [bind] in H.
  destruct (mapM _ l) as [r|] eqn:E; [|discriminate]. cbn [bind] in H. injection H as <-.
  cbn [map ilabel]. f_equal. now apply IH.
Qed.

Lemma zc_tier_name K s st t t' : zc_tier K s st t = Ok t' -> tname t' = tname t.
Proof.
  destruct t as [i|p]; cbn [zc_tier].
  - destruct (mapM _ (ients i)) as [l|]; [|discriminate]. cbn [bind].
    destruct (new_itier (iname i) l (Some (imin i)) (Some (imax i))) as [i'|] eqn:E; [|discriminate]. cbn [bind].
    intros [= <-]. cbn [tname]. eapply new_itier_name, E.
  - destruct (mapM _ (pents p)) as [l|]; [|discriminate]. cbn [bind].
    destruct (new_ptier (pname p) l (Some (pmin p)) (Some (pmax p))) as [p'|] eqn:E; [|discriminate]. cbn [bind].
    intros [= <-]. cbn [tname]. eapply new_ptier_name', E.
Qed.

(* the labels of a tier are kept, up to the trimming every tier constructor applies and up to the order of
   entries that moved past each other *)
Lemma zc_tier_labels K s st t t' : zc_tier K s st t = Ok t' ->
  Permutation (tlabels t') (map strip (tlabels t)).
Proof.
  destruct t as [i|p]; cbn [zc_tier].
  - destruct (mapM _ (ients i)) as [l|] eqn:M; [|discriminate]. cbn [bind].
    destruct (new_itier (iname i) l (Some (imin i)) (Some (imax i))) as [i'|] eqn:E; [|discriminate]. cbn [bind].
    intros [= <-]. cbn [tlabels]. unfold new_itier in E.
    destruct (zmin_list _); [|discriminate]. destruct (zmax_list _); [|discriminate].
    destruct (sorted_disjb _); [|discriminate]. injection E as <-. cbn [ients].
    rewrite <- (mapM_labels_i K s st _ _ M). unfold homog_i, isorti.
    eapply Permutation_trans; [apply Permutation_map, Permutation_sym, isort_perm|].
    rewrite !map_map. apply Permutation_refl.
  - destruct (mapM _ (pents p)) as [l|] eqn:M; [|discriminate]. cbn [bind].
    destruct (new_ptier (pname p) l (Some (pmin p)) (Some (pmax p))) as [p'|] eqn:E; [|discriminate]. cbn [bind].
    intros [= <-]. cbn [tlabels]. unfold new_ptier in E.
    destruct (zmin_list _); [|discriminate]. destruct (zmax_list _); [|discriminate]. injection E as <-. cbn [pents].
    rewrite <- (mapM_labels_p K s st _ _ M). unfold homog_p, isortp.
    eapply Permutation_trans; [apply Permutation_map, Permutation_sym, isort_perm|].
    rewrite !map_map. apply Permutation_refl.
Qed.

Definition zc_rel (K : Z) (s : list Z) (st : Z) (adjP adjI : bool) (t t' : tier) : Prop :=
  if (match t with TP _ => negb adjP | TI _ => negb adjI end) then t' = t else zc_tier K s st t = Ok t'.

Lemma fold_zc K s st adjP adjI : forall l done g g',
  tiers g = done ++ l -> NoDup (map tname (done ++ l)) ->
  fold_res (zc_one K s st adjP adjI) l g = Ok g' ->
  exists l', tiers g' = done ++ l' /\ Forall2 (zc_rel K s st adjP adjI) l l'.
Proof.
  induction l as [|t l IH]; intros done g g' T ND H; cbn [fold_res] in H.
  - injection H as <-. exists []. split; [exact T|constructor].
  - destruct (zc_one K s st adjP adjI g t) as [g1|] eqn:A; [|discriminate]. cbn [bind] in H.
    unfold zc_one in A.
    assert (~ In (tname t) (map tname done)) as NI.
    { rewrite map_app in ND. cbn [map] in ND. apply NoDup_remove_2 in ND. intro Hin. apply ND, in_or_app. now left. }
    destruct (match t with TP _ => negb adjP | TI _ => negb adjI end) eqn:SK.
    + injection A as <-.
      destruct (IH (done ++ [t]) g g') as (l' & T' & F).
      * now rewrite T, <- app_assoc.
      * now rewrite <- app_assoc.
      * exact H.
      * exists (t :: l'). split; [now rewrite T', <- app_assoc|]. constructor; [|exact F]. unfold zc_rel. now rewrite SK.
    + destruct (zc_tier K s st t) as [t'|] eqn:D; [|discriminate]. cbn [bind] in A.
      pose proof (zc_tier_name _ _ _ _ _ D) as N.
      destruct (replace_step g (tname t) t' RWarning) as [[u|e] g2] eqn:RS; [|discriminate]. injection A as <-.
      destruct (replace_step_ok _ _ _ _ _ _ RS) as (k & Ek & T2).
      rewrite (replace_list _ _ _ _ Ek), T, (subst_named_skip _ _ _ _ NI) in T2. cbn [subst_named] in T2.
      rewrite text_eqb_refl in T2.
      destruct (IH (done ++ [t']) g2 g') as (l' & T' & F).
      * now rewrite T2, <- app_assoc.
      * rewrite <- app_assoc. cbn [app]. rewrite map_app in *. cbn [map] in *. now rewrite N.
      * exact H.
      * exists (t' :: l'). split; [now rewrite T', <- app_assoc|]. constructor; [|exact F]. unfold zc_rel. now rewrite SK.
Qed.

(* tgBoundariesToZeroCrossings: tiers, names and order kept; a tier of a kind that is not adjusted is untouched;
   every other tier keeps its name, its number of entries and its labels (as a multiset), and every one of its times
   is what findNearestZeroCrossing returns for it *)
Theorem tg_zc_tierwise K s st adjP adjI g g' :
  NoDup (names g) -> tg_zc K s st adjP adjI g = Ok g' ->
  Forall2 (zc_rel K s st adjP adjI) (tiers g) (tiers g').
Proof.
  intros ND H. destruct (fold_zc K s st adjP adjI (tiers g) [] g g' eq_refl ND H) as (l' & T & F). now rewrite T.
Qed.

Corollary tg_zc_names K s st adjP adjI g g' :
  NoDup (names g) -> tg_zc K s st adjP adjI g = Ok g' -> names g' = names g.
Proof.
  intros ND H. pose proof (tg_zc_tierwise _ _ _ _ _ _ _ ND H) as F. unfold names.
  induction F as [|t t' l l' R F IH]; [reflexivity|]. cbn [map]. f_equal; [|exact IH].
  unfold zc_rel in R. destruct (match t with TP _ => negb adjP | TI _ => negb adjI end); [now subst|].
  now apply zc_tier_name in R.
Qed.
