(* Series/SeriesModel.v -- praatio/utilities/my_math.py (_stepFilter, medianFilter,
   filterTimeSeriesData) and pitch_and_intensity.py (detectPitchErrors,
   loadTimeSeriesData rows) (C20).  Values are integers (any ordered scale). *)
From PraatIO Require Export Base.PyText.
Open Scope Z_scope.

Section StepFilter.
  Context {V : Type} (d : V).

  (* the inner loop over y = 1..offset for the right-hand context, with the source's
     lastKnownLargeIndex bookkeeping (0 = not set) *)
  Fixpoint post_loop (x len : nat) (dist : list V) (ys : list nat) (lk : nat) : list V :=
    match ys with
    | [] => []
    | y :: ys' =>
        if (len <=? x + y)%nat
        then nth (if (lk =? 0)%nat then x else lk) dist d :: post_loop x len dist ys' lk
        else nth (x + y) dist d :: post_loop x len dist ys' (x + y)
    end.

  (* preContext.insert(0, dist[max(x-y,0)]) for y = 1..offset *)
  Fixpoint pre_loop (x : nat) (dist : list V) (ys : list nat) (acc : list V) : list V :=
    match ys with
    | [] => acc
    | y :: ys' => pre_loop x dist ys' (nth (x - y) dist d :: acc)
    end.

  Definition window_at (dist : list V) (o x : nat) : list V :=
    pre_loop x dist (seq 1 o) [] ++ [nth x dist d] ++ post_loop x (length dist) dist (seq 1 o) 0%nat.

  Definition step_filter (f : list V -> V) (dist : list V) (window : nat) (pad : bool) : list V :=
    let o := (window / 2)%nat in
    let len := length dist in
    map (fun x => if pad || ((o <=? x)%nat && (x + o <? len)%nat)
                  then f (window_at dist o x) else nth x dist d) (seq 0 len).

  (* the textbook window: element x and its o neighbours on either side, the series
     extended by its edge values *)
  Definition clamp_window (dist : list V) (o x : nat) : list V :=
    map (fun k => nth (Nat.min (x + k - o) (length dist - 1)) dist d) (seq 0 (2 * o + 1)).
End StepFilter.

(* statistics.median: middle of the sorted list (odd length), mean of the two middle ones
   (even length; returned as numerator over 2) *)
Definition zsort := isort Z.leb.
Definition median2 (l : list Z) : Z :=          (* twice the median, to stay in Z *)
  let s := zsort l in
  let n := length l in
  if Nat.even n then nth (n / 2 - 1) s 0 + nth (n / 2) s 0 else 2 * nth (n / 2) s 0.

(* my_math.filterTimeSeriesData on rows: the column at index replaced by the filtered column *)
Definition replace_col {A} (row : list A) (index : nat) (v : A) : list A :=
  firstn index row ++ [v] ++ skipn (S index) row.
Definition filter_rows (f : list Z -> list Z) (rows : list (list Z)) (index : nat) : list (list Z) :=
  let col := f (map (fun r => nth index r 0) rows) in
  map (fun rv => replace_col (fst rv) index (snd rv)) (combine rows col).

(* detectPitchErrors: thresholds as a rational tn/td in [0,1]; returns the flagged indices *)
Fixpoint detect_from (i : nat) (prev : Z) (l : list Z) (tn td : Z) : list nat :=
  match l with
  | [] => []
  | cur :: l' =>
      (* lastPitch <= cur * t  or  lastPitch >= cur / t *)
      (if (prev * td <=? cur * tn) || (cur * td <=? prev * tn) then [i] else [])
      ++ detect_from (S i) cur l' tn td
  end.
Definition detect_errors (pitch : list Z) (tn td : Z) : res (list nat) :=
  if (tn <? 0) || (td <? tn) then Err ArgumentError
  else match pitch with [] => Ok [] | p0 :: rest => Ok (detect_from 1 p0 rest tn td) end.

(* loadTimeSeriesData after tokenising: rows of cells; a cell is undefined when it contains "--" *)
Definition undefined_cell (c : text) : bool := contains [45%N; 45%N] c.
Definition load_row (subst : option text) (row : list text) : option (list text) :=
  match row with
  | [] => None                                   (* row.pop(0) on an empty row cannot happen: rows are non-empty strings *)
  | t :: vals =>
      match subst with
      | Some u => Some (t :: map (fun c => if undefined_cell c then u else c) vals)
      | None => if existsb undefined_cell vals then None else Some (t :: vals)
      end
  end.
Definition TIME : text := [116%N; 105%N; 109%N; 101%N].
Definition load_rows (subst : option text) (rows : list (list text)) : res (list (list text)) :=
  match rows with
  | [] => Err PyError                             (* dataList[0]: IndexError *)
  | r0 :: rest =>
      let body := match r0 with c0 :: _ => if text_eqb c0 TIME then rest else rows | [] => rows end in
      Ok (filter_map (load_row subst) body)
  end.
