(* Series/ZnormProofs.v -- z-normalisation, rms and the pitch measures over the reals (C20).
   Uses the standard library's real numbers (its axioms are reported by Print Assumptions). *)
From Coq Require Import Reals Lra List.
Import ListNotations.
Open Scope R_scope.

Fixpoint rsum (l : list R) : R := match l with [] => 0 | x :: l' => x + rsum l' end.
Definition rmean (l : list R) : R := rsum l / INR (length l).
Definition sumsq (m : R) (l : list R) : R := rsum (map (fun v => (v - m) * (v - m)) l).
(* statistics.stdev: sample standard deviation *)
Definition svar (l : list R) : R := sumsq (rmean l) l / (INR (length l) - 1).
Definition sdev (l : list R) : R := sqrt (svar l).
(* my_math.znormalizeData *)
Definition znorm (l : list R) : list R := map (fun v => (v - rmean l) / sdev l) l.
(* my_math.rms *)
Definition rms (l : list R) : R := sqrt (rsum (map (fun v => v * v) l) / INR (length l)).
(* getPitchMeasures: population variance and deviation *)
Definition pvar (l : list R) : R := sumsq (rmean l) l / INR (length l).
Definition pdev (l : list R) : R := sqrt (pvar l).

Lemma rsum_shift_scale m s l : s <> 0 -> rsum (map (fun v => (v - m) / s) l) = (rsum l - INR (length l) * m) / s.
Proof.
  intro Hs. induction l as [|x l IH].
  - simpl. field. exact Hs.
  - cbn [map rsum length]. rewrite IH, S_INR. field. exact Hs.
Qed.

Lemma sumsq_nonneg m l : 0 <= sumsq m l.
Proof.
  unfold sumsq. induction l as [|x l IH]; simpl; [lra|].
  pose proof (Rle_0_sqr (x - m)) as H. unfold Rsqr in H. lra.
Qed.

Lemma sumsq_shift_scale m s l : s <> 0 ->
  sumsq 0 (map (fun v => (v - m) / s) l) = sumsq m l / (s * s).
Proof.
  intro Hs. unfold sumsq. induction l as [|x l IH].
  - simpl. field. exact Hs.
  - cbn [map rsum]. rewrite IH. field. exact Hs.
Qed.

Lemma INR_len_pos {A} (l : list A) : l <> [] -> 0 < INR (length l).
Proof. destruct l; [congruence|]. intros _. apply lt_0_INR. simpl. apply Nat.lt_0_succ. Qed.

(* length is preserved *)
Theorem znorm_length l : length (znorm l) = length l.
Proof. unfold znorm. apply map_length. Qed.

(* the normalised series has mean 0 *)
Theorem znorm_mean_zero l : l <> [] -> sdev l <> 0 -> rmean (znorm l) = 0.
Proof.
  intros NE Hs. unfold rmean at 1. rewrite znorm_length. unfold znorm.
  rewrite (rsum_shift_scale _ _ _ Hs). unfold rmean. pose proof (INR_len_pos l NE). field. split; [lra|exact Hs].
Qed.

(* ... and sample standard deviation 1 *)
Theorem znorm_sd_one l : (2 <= length l)%nat -> 0 < svar l -> sdev (znorm l) = 1.
Proof.
  intros Hn Hv.
  assert (l <> []) as NE by (destruct l; [simpl in Hn; inversion Hn|discriminate]).
  assert (0 < sdev l) as Hs by (apply sqrt_lt_R0; exact Hv).
  assert (sdev l <> 0) as Hs0 by lra.
  assert (1 < INR (length l)) as Hn1.
  { replace 1 with (INR 1) by reflexivity. apply lt_INR. unfold lt. exact Hn. }
  unfold sdev at 1, svar at 1. rewrite (znorm_mean_zero l NE Hs0), znorm_length. unfold znorm.
  rewrite (sumsq_shift_scale _ _ _ Hs0).
  assert (sdev l * sdev l = svar l) as E by (unfold sdev; apply sqrt_sqrt; lra).
  rewrite E. unfold svar at 1.
  replace (sumsq (rmean l) l / (sumsq (rmean l) l / (INR (length l) - 1)) / (INR (length l) - 1)) with 1.
  - apply sqrt_1.
  - unfold svar in Hv. assert (sumsq (rmean l) l <> 0) as NZ.
    { intro Z. rewrite Z in Hv. unfold Rdiv in Hv. rewrite Rmult_0_l in Hv. lra. }
    field. split; [lra|exact NZ].
Qed.

(* rank order is preserved (strictly, and ties stay ties) *)
Theorem znorm_monotone l a b : 0 < sdev l -> a < b -> (a - rmean l) / sdev l < (b - rmean l) / sdev l.
Proof.
  intros Hs Hab. unfold Rdiv. apply Rmult_lt_compat_r; [apply Rinv_0_lt_compat; exact Hs|lra].
Qed.

Theorem znorm_nth l i : (i < length l)%nat -> nth i (znorm l) 0 = (nth i l 0 - rmean l) / sdev l.
Proof.
  intro H. unfold znorm.
  rewrite (nth_indep _ 0 ((0 - rmean l) / sdev l)) by (rewrite map_length; exact H).
  apply (map_nth (fun v => (v - rmean l) / sdev l) l 0 i).
Qed.

(* rms squared is the mean of the squares *)
Theorem rms_sqr l : l <> [] -> rms l * rms l = rsum (map (fun v => v * v) l) / INR (length l).
Proof.
  intro NE. unfold rms. apply sqrt_sqrt. pose proof (INR_len_pos l NE) as P.
  assert (0 <= rsum (map (fun v => v * v) l)) as N.
  { clear. induction l as [|x l IH]; simpl; [lra|]. pose proof (Rle_0_sqr x) as H. unfold Rsqr in H. lra. }
  unfold Rdiv. apply Rmult_le_pos; [exact N|]. left. apply Rinv_0_lt_compat. exact P.
Qed.

(* population variance is non-negative and the deviation is its non-negative square root *)
Theorem pdev_sqr l : l <> [] -> pdev l * pdev l = pvar l /\ 0 <= pdev l.
Proof.
  intro NE. unfold pdev. split; [|apply sqrt_pos]. apply sqrt_sqrt. unfold pvar.
  pose proof (INR_len_pos l NE) as P. pose proof (sumsq_nonneg (rmean l) l) as N.
  unfold Rdiv. apply Rmult_le_pos; [exact N|]. left. apply Rinv_0_lt_compat. exact P.
Qed.
