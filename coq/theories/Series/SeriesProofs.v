(* Series/SeriesProofs.v -- the windowed filter computes the edge-clamped window; length and
   positions are preserved; median of an odd window; jump detection; listing rows (C20). *)
From Coq Require Import Lia ZArith.
From PraatIO Require Import Series.SeriesModel.
Open Scope Z_scope.

Section StepFilterProofs.
  Context {V : Type} (d : V).

  (* the lastKnownLargeIndex bookkeeping is edge clamping *)
  Lemma post_loop_clamp x len dist : (x < len)%nat -> forall n a lk, (1 <= a)%nat ->
    (if (lk =? 0)%nat then x else lk) = Nat.min (x + a - 1) (len - 1) ->
    post_loop d x len dist (seq a n) lk = map (fun y => nth (Nat.min (x + y) (len - 1)) dist d) (seq a n).
  Proof.
    intros Hx. induction n as [|n IH]; intros a lk Ha Hlk; [reflexivity|].
    cbn [seq post_loop map]. destruct (len <=? x + a)%nat eqn:E.
    - apply Nat.leb_le in E. rewrite Hlk. f_equal; [f_equal; lia|].
      apply IH; [lia|]. rewrite Hlk. lia.
    - apply Nat.leb_gt in E. f_equal; [f_equal; lia|].
      apply IH; [lia|]. assert ((x + a =? 0)%nat = false) as -> by (apply Nat.eqb_neq; lia). lia.
  Qed.

  Lemma pre_loop_rev x dist ys : forall acc,
    pre_loop d x dist ys acc = rev (map (fun y => nth (x - y) dist d) ys) ++ acc.
  Proof.
    induction ys as [|y ys IH]; intro acc; [reflexivity|].
    cbn [pre_loop map rev]. rewrite IH, <- app_assoc. reflexivity.
  Qed.

  (* the window handed to the filter function: the o left neighbours (clamped at the first
     element), the element, the o right neighbours (clamped at the last element) *)
  Theorem window_at_spec dist o x : (x < length dist)%nat ->
    window_at d dist o x
    = rev (map (fun y => nth (x - y) dist d) (seq 1 o)) ++ [nth x dist d]
      ++ map (fun y => nth (Nat.min (x + y) (length dist - 1)) dist d) (seq 1 o).
  Proof.
    intro Hx. unfold window_at. rewrite pre_loop_rev, app_nil_r.
    rewrite (post_loop_clamp x (length dist) dist Hx o 1 0); [reflexivity|lia|simpl; lia].
  Qed.

  Theorem window_at_length dist o x : (x < length dist)%nat -> length (window_at d dist o x) = (2 * o + 1)%nat.
  Proof.
    intro Hx. rewrite window_at_spec by exact Hx.
    rewrite !app_length, rev_length, !map_length, !seq_length. simpl. lia.
  Qed.

  (* ... which is the series extended by its edge values, read from x-o to x+o *)
  Lemma rev_map_seq (g : nat -> V) o : rev (map g (seq 1 o)) = map (fun k => g (o - k)%nat) (seq 0 o).
  Proof.
    induction o as [|o IH]; [reflexivity|].
    rewrite seq_S, map_app, rev_app_distr. cbn [map rev app]. rewrite IH.
    change (seq 0 (S o)) with (0%nat :: seq 1 o). cbn [map]. f_equal.
    rewrite <- seq_shift, map_map. apply map_ext. intro k. reflexivity.
  Qed.

  Lemma seq_plus a : forall n b, seq (a + b) n = map (Nat.add a) (seq b n).
  Proof.
    induction n as [|n IH]; intro b; [reflexivity|].
    cbn [seq map]. f_equal. rewrite <- IH. f_equal. lia.
  Qed.

  Theorem window_is_clamped dist o x : (x < length dist)%nat ->
    window_at d dist o x = clamp_window d dist o x.
  Proof.
    intro Hx. rewrite window_at_spec by exact Hx. unfold clamp_window.
    replace (2 * o + 1)%nat with (o + (1 + o))%nat by lia.
    rewrite seq_app, map_app. rewrite rev_map_seq. f_equal.
    - apply map_ext_in. intros k Hk. apply in_seq in Hk. f_equal. lia.
    - change (seq (0 + o) (1 + o)) with (o :: seq (S o) o). cbn [map app]. f_equal; [f_equal; lia|].
      replace (S o) with (o + 1)%nat by lia. rewrite seq_plus, map_map.
      apply map_ext. intro k. f_equal. lia.
  Qed.

  Lemma nth_map_seq (g : nat -> V) n x : (x < n)%nat -> nth x (map g (seq 0 n)) d = g x.
  Proof.
    intro H. rewrite (nth_indep _ d (g 0%nat)) by (rewrite map_length, seq_length; exact H).
    rewrite (map_nth g (seq 0 n) 0%nat x). rewrite seq_nth by exact H. reflexivity.
  Qed.

  (* the filtered series has the input's length *)
  Theorem step_filter_length f dist w pad : length (step_filter d f dist w pad) = length dist.
  Proof. unfold step_filter. now rewrite map_length, seq_length. Qed.

  (* element x: the function of the window when padding is on or the window fits, else unchanged *)
  Theorem step_filter_nth f dist w pad x : (x < length dist)%nat ->
    nth x (step_filter d f dist w pad) d
    = if pad || ((w / 2 <=? x)%nat && (x + w / 2 <? length dist)%nat)
      then f (window_at d dist (w / 2) x) else nth x dist d.
  Proof. intro H. unfold step_filter. now rewrite nth_map_seq. Qed.
End StepFilterProofs.

(* a window of half-width o has odd length, so its median is the middle of the sorted window *)
Theorem median_odd l o : length l = (2 * o + 1)%nat -> median2 l = 2 * nth o (zsort l) 0.
Proof.
  intro H. unfold median2. rewrite H.
  replace (2 * o + 1)%nat with (S (2 * o)) by lia. rewrite Nat.even_succ, Nat.odd_mul. simpl Nat.odd.
  replace (S (2 * o) / 2)%nat with o; [reflexivity|].
  apply Nat.div_unique with (r := 1%nat); lia.
Qed.

Lemma zsort_perm l : Permutation.Permutation l (zsort l).
Proof. apply isort_perm. Qed.

(* the median is an element of the window: filtering invents no value *)
Theorem median_odd_in l o : length l = (2 * o + 1)%nat -> In (nth o (zsort l) 0) l.
Proof.
  intro H. eapply Permutation.Permutation_in; [symmetry; apply zsort_perm|].
  apply nth_In. unfold zsort. rewrite isort_length. lia.
Qed.

Lemma nth_error_combine {A B} (a : list A) : forall (b : list B) k x y,
  nth_error a k = Some x -> nth_error b k = Some y -> nth_error (combine a b) k = Some (x, y).
Proof.
  induction a as [|a0 a IH]; intros b k x y Ha Hb; [destruct k; discriminate|].
  destruct b as [|b0 b]; [destruct k; discriminate|].
  destruct k as [|k]; simpl in *; [congruence|]. apply IH; assumption.
Qed.

(* filterTimeSeriesData never changes the number or order of rows, nor any other column *)
Theorem filter_rows_spec f rows index :
  length (f (map (fun r => nth index r 0) rows)) = length rows ->
  length (filter_rows f rows index) = length rows
  /\ forall k r, nth_error rows k = Some r ->
       exists v, nth_error (filter_rows f rows index) k = Some (replace_col r index v).
Proof.
  intro H. unfold filter_rows. set (col := f (map (fun r => nth index r 0) rows)) in *.
  split; [rewrite map_length, combine_length; lia|].
  intros k r Hk.
  assert (k < length rows)%nat as L by (apply nth_error_Some; congruence).
  destruct (nth_error col k) as [v|] eqn:Ev; [|apply nth_error_None in Ev; lia].
  exists v. rewrite nth_error_map.
  rewrite (nth_error_combine rows col k r v Hk Ev). reflexivity.
Qed.

Lemma nth_skipn_plus {A} (l : list A) n i d : nth i (skipn n l) d = nth (n + i) l d.
Proof.
  revert l; induction n as [|n IH]; intro l; [reflexivity|].
  destruct l as [|x l]; [now destruct i|]. simpl. apply IH.
Qed.
Lemma nth_firstn_below {A} (l : list A) n i d : (i < n)%nat -> nth i (firstn n l) d = nth i l d.
Proof.
  revert l i; induction n as [|n IH]; intros l i H; [lia|].
  destruct l as [|x l]; [now destruct i|]. destruct i as [|i]; [reflexivity|]. simpl. apply IH. lia.
Qed.

Lemma replace_col_other {A} (row : list A) index v j d : (index < length row)%nat -> j <> index ->
  nth j (replace_col row index v) d = nth j row d /\ length (replace_col row index v) = length row.
Proof.
  intros L NE. unfold replace_col. split.
  - destruct (Nat.lt_ge_cases j index) as [Hj|Hj].
    + rewrite app_nth1 by (rewrite firstn_length; lia). apply nth_firstn_below, Hj.
    + rewrite app_nth2 by (rewrite firstn_length; lia). rewrite firstn_length, Nat.min_l by lia.
      destruct (j - index)%nat as [|m] eqn:E; [lia|]. cbn [app nth].
      rewrite nth_skipn_plus. f_equal. lia.
  - rewrite !app_length, firstn_length, skipn_length. simpl. lia.
Qed.

(* detectPitchErrors: index i is flagged iff the previous value is at most value*t or at least value/t *)
Lemma detect_from_spec tn td : forall l i prev k,
  In k (detect_from i prev l tn td) <->
  exists j, k = (i + j)%nat /\ (j < length l)%nat /\
    let cur := nth j l 0 in let pv := match j with O => prev | S j' => nth j' l 0 end in
    (pv * td <= cur * tn \/ cur * td <= pv * tn).
Proof.
  induction l as [|cur l IH]; intros i prev k; simpl.
  - split; [tauto|intros (j & _ & H & _); lia].
  - rewrite in_app_iff, IH. split.
    + intros [H|(j & -> & L & H)].
      * destruct ((prev * td <=? cur * tn) || (cur * td <=? prev * tn)) eqn:E; [|contradiction].
        destruct H as [<-|[]]. exists 0%nat. repeat split; [lia|lia|]. simpl.
        apply Bool.orb_true_iff in E. lia.
      * exists (S j). repeat split; [lia|lia|]. destruct j; exact H.
    + intros (j & -> & L & H). destruct j as [|j].
      * left. simpl in H. assert ((prev * td <=? cur * tn) || (cur * td <=? prev * tn) = true) as ->.
        { apply Bool.orb_true_iff. lia. }
        left. lia.
      * right. exists j. repeat split; [lia|lia|]. destruct j; exact H.
Qed.

Theorem detect_errors_spec pitch tn td out : 0 <= tn <= td -> detect_errors pitch tn td = Ok out ->
  forall k, In k out <->
    (1 <= k < length pitch)%nat /\
    (nth (k - 1) pitch 0 * td <= nth k pitch 0 * tn \/ nth k pitch 0 * td <= nth (k - 1) pitch 0 * tn).
Proof.
  intros Ht. unfold detect_errors.
  assert ((tn <? 0) || (td <? tn) = false) as -> by (apply Bool.orb_false_iff; lia).
  destruct pitch as [|p0 rest]; intros [= <-] k.
  - simpl. split; [tauto|lia].
  - rewrite detect_from_spec. split.
    + intros (j & -> & L & H). split; [simpl; lia|].
      replace (1 + j - 1)%nat with j by lia. change (nth (1 + j) (p0 :: rest) 0) with (nth j rest 0).
      destruct j; simpl in *; exact H.
    + intros (L & H). exists (k - 1)%nat. split; [lia|]. split; [simpl in L; lia|].
      destruct k as [|k]; [lia|]. replace (S k - 1)%nat with k in * by lia.
      change (nth (S k) (p0 :: rest) 0) with (nth k rest 0) in H.
      destruct k; simpl in *; exact H.
Qed.

Theorem detect_errors_rejects pitch tn td : tn < 0 \/ td < tn -> detect_errors pitch tn td = Err ArgumentError.
Proof.
  intro H. unfold detect_errors.
  assert ((tn <? 0) || (td <? tn) = true) as -> by (apply Bool.orb_true_iff; lia). reflexivity.
Qed.

(* loadTimeSeriesData: the header is skipped; with a substitute every row is kept; without one
   exactly the rows holding an undefined cell are dropped; order is kept *)
Theorem load_rows_subst u body : Forall (fun r => r <> []) body ->
  filter_map (load_row (Some u)) body
  = map (fun r => match r with t :: vals => t :: map (fun c => if undefined_cell c then u else c) vals | [] => [] end) body.
Proof.
  induction 1 as [|r body Hr _ IH]; [reflexivity|]. destruct r as [|t vals]; [congruence|]. simpl. now rewrite IH.
Qed.

Theorem load_rows_skip body : Forall (fun r => r <> []) body ->
  filter_map (load_row None) body = filter (fun r => negb (existsb undefined_cell (tl r))) body.
Proof.
  induction 1 as [|r body Hr _ IH]; [reflexivity|]. destruct r as [|t vals]; [congruence|]. simpl.
  destruct (existsb undefined_cell vals); simpl; now rewrite IH.
Qed.

Theorem load_rows_header subst c0 r0 rest :
  load_rows subst ((c0 :: r0) :: rest)
  = Ok (filter_map (load_row subst) (if text_eqb c0 TIME then rest else (c0 :: r0) :: rest)).
Proof. reflexivity. Qed.
