(* IO/JsonDict.v -- the two dictionary conversions behind the plain 'json' format (C01, C03):
   _downconvertDictionaryForJson (tiers keyed by name, one span for the whole textgrid) and
   _upconvertDictionaryFromJson.  json.dumps / json.loads themselves are runtime library. *)
From Coq Require Import Lia.
From PraatIO Require Import IO.IoModel.
Open Scope Z_scope.

(* the minimal form: span and an insertion-ordered dictionary name -> (type, entries) *)
Record jtier := mkJT { j_isint : bool; j_ents : list dentry }.
Record jtg := mkJTG { jg_start : Z; jg_end : Z; jg_tiers : list (text * jtier) }.

(* d[k] = v on a Python dict: an existing key keeps its position and gets the new value *)
Fixpoint dict_set (d : list (text * jtier)) (k : text) (v : jtier) : list (text * jtier) :=
  match d with
  | [] => [(k, v)]
  | (k', v') :: d' => if text_eqb k' k then (k', v) :: d' else (k', v') :: dict_set d' k v
  end.

Definition json_down (g : dtg) : jtg :=
  mkJTG (dg_xmin g) (dg_xmax g)
        (fold_left (fun d t => dict_set d (d_name t) (mkJT (d_isint t) (d_ents t))) (dg_tiers g) []).

Definition json_up (j : jtg) : dtg :=
  mkDTG (jg_start j) (jg_end j)
        (map (fun kv => mkDT (j_isint (snd kv)) (fst kv) (jg_start j) (jg_end j) (j_ents (snd kv))) (jg_tiers j)).

(* the same textgrid with every tier given the textgrid's span: what the plain json format can hold *)
Definition respan_all (g : dtg) : dtg :=
  mkDTG (dg_xmin g) (dg_xmax g)
        (map (fun t => mkDT (d_isint t) (d_name t) (dg_xmin g) (dg_xmax g) (d_ents t)) (dg_tiers g)).

Lemma dict_set_fresh d k v : ~ In k (map fst d) -> dict_set d k v = d ++ [(k, v)].
Proof.
  induction d as [|[k' v'] d IH]; intro H; [reflexivity|]. cbn [dict_set].
  destruct (text_eqb k' k) eqn:E.
  - apply text_eqb_eq in E. subst. exfalso. apply H. now left.
  - cbn [app]. f_equal. apply IH. intro Hin. apply H. now right.
Qed.

Lemma fold_down : forall l d,
  NoDup (map fst d ++ map d_name l) ->
  fold_left (fun d t => dict_set d (d_name t) (mkJT (d_isint t) (d_ents t))) l d
  = d ++ map (fun t => (d_name t, mkJT (d_isint t) (d_ents t))) l.
Proof.
  induction l as [|t l IH]; intros d ND; cbn [fold_left map]; [now rewrite app_nil_r|].
  assert (~ In (d_name t) (map fst d)) as NI.
  { cbn [map] in ND. apply NoDup_remove_2 in ND. intro Hin. apply ND, in_or_app. now left. }
  rewrite (dict_set_fresh d _ _ NI). rewrite IH.
  - now rewrite <- app_assoc.
  - rewrite map_app. cbn [map fst]. rewrite <- app_assoc. exact ND.
Qed.

(* with unique tier names nothing but the per-tier spans is lost: names, order, types and entries
   come back, every tier with the textgrid's span *)
Theorem json_up_down g : NoDup (map d_name (dg_tiers g)) -> json_up (json_down g) = respan_all g.
Proof.
  intro ND. unfold json_up, json_down, respan_all. cbn [jg_start jg_end jg_tiers].
  rewrite (fold_down (dg_tiers g) [] ND). cbn [app]. f_equal. rewrite map_map. reflexivity.
Qed.

(* and when every tier already has the textgrid's span, nothing at all is lost *)
Corollary json_up_down_exact g :
  NoDup (map d_name (dg_tiers g)) ->
  forallb (fun t => (d_xmin t =? dg_xmin g) && (d_xmax t =? dg_xmax g)) (dg_tiers g) = true ->
  json_up (json_down g) = g.
Proof.
  intros ND H. rewrite (json_up_down g ND). unfold respan_all. destruct g as [mn mx ts]. cbn in *. f_equal.
  induction ts as [|t ts IH]; [reflexivity|]. cbn [forallb] in H. apply andb_prop in H as [Ht H].
  apply andb_prop in Ht as [A B]. apply Z.eqb_eq in A, B. cbn [map]. f_equal.
  - destruct t; cbn in *. now subst.
  - apply IH; [now inversion ND|exact H].
Qed.
