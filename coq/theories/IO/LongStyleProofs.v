(* IO/LongStyleProofs.v -- the long-form reader on a FAMILY of layouts (C03): any indentation made
   of blanks, any run of blanks (also none) after a value, `]:` or `]` after an index -- the Praat
   and the ELAN styles are two members.  A tier block or an entry block written in any such
   layout is read back as the data it encodes, for every label and name. *)
From Coq Require Import Lia String.
From PraatIO Require Import IO.IoModel IO.CodecProofs IO.CrlfProofs IO.ShortFileProofs IO.LongFileProofs.
Open Scope Z_scope.

(* what may follow an index: `]` and `:` only *)
Definition closeb (c : text) : bool := forallb (fun x => (x =? 93)%N || (x =? 58)%N) c.

Lemma free_of_close k c : ((k =? 93) || (k =? 58))%N = false -> closeb c = true ->
  forallb (fun x => negb (k =? x)%N) c = true.
Proof.
  intros K H. apply forallb_forall. intros x Hx. unfold closeb in H. rewrite forallb_forall in H. specialize (H x Hx).
  destruct (N.eqb_spec k x); [subst; congruence|reflexivity].
Qed.

Lemma ws_to_eol_sp tr rest : allsp tr = true -> ws_to_eol (tr ++ 10%N :: rest) = true.
Proof.
  induction tr as [|c tr IH]; intro H; [reflexivity|]. unfold allsp in H. cbn [forallb] in H.
  apply andb_prop in H as [Hc Ht]. apply N.eqb_eq in Hc. subst c. cbn [app ws_to_eol].
  change (32 =? 10)%N with false. change (isspace 32%N) with true. cbn iota. apply IH, Ht.
Qed.

Lemma head_plain tr rest : allsp tr = true ->
  match tr ++ 10%N :: rest with c :: _ => isdigit_dot c = false /\ plainc c = true /\ isdigit c = false | [] => False end.
Proof.
  destruct tr as [|c tr]; intro H; [cbn [app]; repeat split; reflexivity|].
  unfold allsp in H. cbn [forallb] in H. apply andb_prop in H as [Hc _]. apply N.eqb_eq in Hc. subst c.
  cbn [app]. repeat split; reflexivity.
Qed.

(* a number followed by blanks (or nothing) and the end of the line *)
Theorem num_group_tok_s neg t tr rest : numshape t = true -> allsp tr = true ->
  num_group neg (t ++ tr ++ 10%N :: rest) = Some t.
Proof.
  intros H HT. unfold numshape in H. apply andb_prop in H as [_ H].
  pose proof (tw_split isdigit_dot t) as SP. pose proof (tw_all isdigit_dot t) as AL.
  destruct (take_while isdigit_dot t) as [run rest0] eqn:TW. cbn [fst snd] in *.
  destruct run as [|c0 run']; [discriminate|].
  pose proof (exp_split rest0) as ES.
  destruct (exp_part rest0) as [ex r'] eqn:EP. destruct r'; [|discriminate]. cbn [fst snd] in ES. rewrite app_nil_r in ES.
  cbn [forallb] in AL. apply andb_prop in AL as [A0 _].
  assert (c0 <> 45%N) as NE by (intro; subst; discriminate).
  pose proof (head_plain tr rest HT) as HP. pose proof (ws_to_eol_sp tr rest HT) as WS.
  destruct (tr ++ 10%N :: rest) as [|c r] eqn:ER; [contradiction|]. destruct HP as (P1 & P2 & P3).
  rewrite num_group_unfold.
  assert ((if neg then strip_minus (t ++ c :: r) else t ++ c :: r) = t ++ c :: r) as ->.
  { destruct neg; [|reflexivity]. rewrite SP. cbn [app]. apply strip_minus_ne, NE. }
  cbv zeta. rewrite (tw_app isdigit_dot t (c :: r)) by exact P1. rewrite TW. cbn [fst snd].
  rewrite (exp_part_app rest0 c r P2). rewrite EP. cbn [fst snd app]. rewrite WS.
  now rewrite SP, ES.
Qed.

Theorem search_num_hit_s kw neg t tr rest : numshape t = true -> allsp tr = true ->
  search_num kw neg (kw ++ EQ ++ t ++ tr ++ NL1 ++ rest) = Some t.
Proof. intros H HT. rewrite search_num_unfold, match_kw_hit. change (NL1 ++ rest) with (10%N :: rest). rewrite (num_group_tok_s neg t tr rest H HT). reflexivity. Qed.

Lemma tail_ok_s tr trail : allsp tr = true -> allsp trail = true ->
  forallb (fun c => negb (isq c)) (tr ++ NL1 ++ trail) = true /\ ws_to_eol (tr ++ NL1 ++ trail) = true.
Proof.
  intros H1 H2. split; [|exact (ws_to_eol_sp tr trail H1)].
  assert (forall l, allsp l = true -> forallb (fun c => negb (isq c)) l = true) as A.
  { intros l Hl. apply forallb_forall. intros x Hx. unfold allsp in Hl. rewrite forallb_forall in Hl. specialize (Hl x Hx).
    apply N.eqb_eq in Hl. now subst. }
  rewrite !forallb_app, (A _ H1), (A _ H2). reflexivity.
Qed.

Lemma search_quoted_hit_s kw body tr trail : allsp tr = true -> allsp trail = true ->
  search_quoted kw true (kw ++ EQ ++ Q1 ++ body ++ Q1 ++ tr ++ NL1 ++ trail) = Some body.
Proof. intros H1 H2. destruct (tail_ok_s tr trail H1 H2) as [A B]. exact (search_quoted_hit_dotall kw body _ A B). Qed.

Ltac side_s :=
  first [ reflexivity
        | apply free_of_idx; [reflexivity|assumption]
        | apply free_of_num; [reflexivity|assumption]
        | apply free_of_sp; [reflexivity|assumption]
        | apply free_of_close; [reflexivity|assumption] ].
Ltac skipn_s := rewrite search_num_skipP by (first [discriminate | side_s]).
Ltac skipq_s := rewrite search_quoted_skipP by (first [discriminate | side_s]).

(* an interval block in any layout of the family: trn follows numbers, trs follows strings *)
Definition ichunk_s (close ind trn trs : text) (j N1 N2 lab : text) : text :=
  j ++ close ++ NL1 ++ ind ++ T "xmin" ++ EQ ++ N1 ++ trn ++ NL1 ++ ind ++ T "xmax" ++ EQ ++ N2 ++ trn ++ NL1
    ++ ind ++ T "text" ++ EQ ++ Q1 ++ esc lab ++ Q1 ++ trs ++ NL1.

Definition pchunk_s (close ind trn trs : text) (j N1 lab : text) : text :=
  j ++ close ++ NL1 ++ ind ++ T "number" ++ EQ ++ N1 ++ trn ++ NL1
    ++ ind ++ T "mark" ++ EQ ++ Q1 ++ esc lab ++ Q1 ++ trs ++ NL1.

Theorem parse_ichunk_s close ind trn trs j N1 N2 lab trail :
  closeb close = true -> allsp ind = true -> allsp trn = true -> allsp trs = true ->
  idx j = true -> numshape N1 = true -> numshape N2 = true -> allsp trail = true ->
  parse_long_interval (ichunk_s close ind trn trs j N1 N2 lab ++ trail) = Ok (RI N1 N2 (strip lab)).
Proof.
  intros HC HI HR HS HJ H1 H2 HT. unfold parse_long_interval, ichunk_s. repeat rewrite <- app_assoc.
  do 4 skipn_s. rewrite search_num_hit_s by assumption. cbn [req bind].
  do 4 skipn_s. rewrite (search_num_skipW (T "xmax") false 120%N (T "min")) by reflexivity.
  do 6 skipn_s. rewrite search_num_hit_s by assumption. cbn [req bind].
  do 16 skipq_s. rewrite search_quoted_hit_s by assumption. cbn [req bind].
  now rewrite strip_esc, unesc_esc.
Qed.

Theorem parse_pchunk_s close ind trn trs j N1 lab trail :
  closeb close = true -> allsp ind = true -> allsp trn = true -> allsp trs = true ->
  idx j = true -> numshape N1 = true -> allsp trail = true ->
  parse_long_point true (pchunk_s close ind trn trs j N1 lab ++ trail) = Ok (RP N1 (strip lab)).
Proof.
  intros HC HI HR HS HJ H1 HT. unfold parse_long_point, pchunk_s. repeat rewrite <- app_assoc.
  do 4 skipn_s. rewrite search_num_hit_s by assumption. cbn [req bind].
  do 4 skipq_s.
  change (T "number") with ([110; 117]%N ++ (109%N :: T "ber")). repeat rewrite <- app_assoc.
  skipq_s. rewrite (search_quoted_skipW (T "mark") true 109%N (T "ber")) by reflexivity.
  do 6 skipq_s. rewrite search_quoted_hit_s by assumption. cbn [req bind].
  now rewrite strip_esc, unesc_esc.
Qed.

(* the head of a tier block in any layout of the family *)
Definition thead_s (close ind trn trs : text) (j : text) (isint : bool) (name N1 N2 n : text) : text :=
  j ++ close ++ NL1
    ++ ind ++ T "class" ++ EQ ++ Q1 ++ class_name isint ++ Q1 ++ trs ++ NL1
    ++ ind ++ T "name" ++ EQ ++ Q1 ++ esc name ++ Q1 ++ trs ++ NL1
    ++ ind ++ T "xmin" ++ EQ ++ N1 ++ trn ++ NL1
    ++ ind ++ T "xmax" ++ EQ ++ N2 ++ trn ++ NL1
    ++ ind ++ (if isint then T "intervals: size = " else T "points: size = ") ++ n ++ trs ++ NL1.

Lemma search_quoted_hit_line_s kw body trs rest : nonl body = true -> allsp trs = true ->
  search_quoted kw false (kw ++ EQ ++ Q1 ++ body ++ Q1 ++ trs ++ NL1 ++ rest) = Some body.
Proof.
  intros HB HS. rewrite search_quoted_unfold, match_kw_hit. cbn [Q1 app].
  assert (forall t acc best, allsp t = true ->
            quoted_group false (t ++ 10%N :: rest) acc best = best) as GT.
  { induction t as [|c t IH]; intros acc best Ht.
    - cbn [app quoted_group]. change (10 =? 10)%N with true. reflexivity.
    - unfold allsp in Ht. cbn [forallb] in Ht. apply andb_prop in Ht as [Hc Ht]. apply N.eqb_eq in Hc. subst c.
      cbn [app quoted_group]. change (32 =? 10)%N with false. change (isq 32%N) with false. cbn [andb]. apply IH, Ht. }
  assert (forall b acc best, nonl b = true ->
            quoted_group false (b ++ 34%N :: trs ++ 10%N :: rest) acc best = Some (rev acc ++ b)) as G.
  { induction b as [|c b IH]; intros acc best NB.
    - cbn [app quoted_group]. change (34 =? 10)%N with false. cbn [andb]. change (isq 34%N) with true.
      rewrite (ws_to_eol_sp trs rest HS). cbn [andb]. rewrite GT by exact HS. now rewrite app_nil_r.
    - unfold nonl in NB. cbn [forallb] in NB. apply andb_prop in NB as [Hc NB]. apply negb_true_iff in Hc.
      cbn [app quoted_group]. rewrite Hc. cbn [andb]. rewrite IH by exact NB. cbn [rev]. now rewrite <- app_assoc. }
  change (NL1 ++ rest) with (10%N :: rest). rewrite (G body [] None HB). reflexivity.
Qed.

Theorem thead_fields_s close ind trn trs j isint name N1 N2 n trail :
  closeb close = true -> allsp ind = true -> allsp trn = true -> allsp trs = true ->
  idx j = true -> nonl name = true -> numshape N1 = true -> numshape N2 = true ->
  let h := thead_s close ind trn trs j isint name N1 N2 n ++ trail in
  search_quoted (T "name") false h = Some (esc name)
  /\ search_num (T "xmin") true h = Some N1
  /\ search_num (T "xmax") false h = Some N2.
Proof.
  intros HC HI HR HS HJ HN H1 H2 h. subst h. unfold thead_s. repeat rewrite <- app_assoc.
  pose proof (esc_nonl name HN) as HE.
  split; [|split].
  - do 7 skipq_s.
    assert (forall r, search_quoted (T "name") false (class_name isint ++ r) = search_quoted (T "name") false r) as CN.
    { intro r. destruct isint; unfold class_name.
      - change (T "IntervalTier") with ([73%N] ++ (110%N :: T "tervalTier")). repeat rewrite <- app_assoc.
        skipq_s. rewrite (search_quoted_skipW (T "name") false 110%N (T "tervalTier")) by reflexivity. now skipq_s.
      - now skipq_s. }
    rewrite CN. do 4 skipq_s. now rewrite search_quoted_hit_line_s.
  - do 7 skipn_s.
    assert (forall r, search_num (T "xmin") true (class_name isint ++ r) = search_num (T "xmin") true r) as CN.
    { intro r. destruct isint; unfold class_name.
      - now skipn_s.
      - change (T "TextTier") with ([84; 101]%N ++ (120%N :: T "tTier")). repeat rewrite <- app_assoc.
        skipn_s. rewrite (search_num_skipW (T "xmin") true 120%N (T "tTier")) by reflexivity. now skipn_s. }
    rewrite CN. do 6 skipn_s.
    match goal with |- search_num _ _ (Q1 ++ esc name ++ Q1 ++ ?r) = _ =>
      change (Q1 ++ esc name ++ Q1 ++ r) with ([34%N] ++ esc name ++ 34%N :: r) end.
    skipn_s. rewrite search_num_quoted_line by (first [reflexivity|assumption]).
    match goal with |- search_num _ _ (34%N :: ?r) = _ => change (34%N :: r) with ([34%N] ++ r) end.
    do 4 skipn_s. now rewrite search_num_hit_s.
  - do 7 skipn_s.
    assert (forall r, search_num (T "xmax") false (class_name isint ++ r) = search_num (T "xmax") false r) as CN.
    { intro r. destruct isint; unfold class_name.
      - now skipn_s.
      - change (T "TextTier") with ([84; 101]%N ++ (120%N :: T "tTier")). repeat rewrite <- app_assoc.
        skipn_s. rewrite (search_num_skipW (T "xmax") false 120%N (T "tTier")) by reflexivity. now skipn_s. }
    rewrite CN. do 6 skipn_s.
    match goal with |- search_num _ _ (Q1 ++ esc name ++ Q1 ++ ?r) = _ =>
      change (Q1 ++ esc name ++ Q1 ++ r) with ([34%N] ++ esc name ++ 34%N :: r) end.
    skipn_s. rewrite search_num_quoted_line by (first [reflexivity|assumption]).
    match goal with |- search_num _ _ (34%N :: ?r) = _ => change (34%N :: r) with ([34%N] ++ r) end.
    do 4 skipn_s.
    rewrite (search_num_skipW (T "xmax") false 120%N (T "min")) by reflexivity.
    do 6 skipn_s. now rewrite search_num_hit_s.
Qed.

(* ------------------------------------------------------------------ *)
(* a layout; a tier block and a file in that layout                      *)

Record lstyle := mkLS {
  ls_close_t : text;      (* after a tier index:  ]:  *)
  ls_close_e : text;      (* after an entry index:  ]:  or  ]  *)
  ls_ind_t : text;        (* indentation of a tier's fields *)
  ls_ind_e : text;        (* indentation of an entry's fields *)
  ls_trn : text;          (* what follows a number on its line *)
  ls_trs : text           (* what follows a string (and a size) on its line *)
}.

Definition style_ok (s : lstyle) : bool :=
  closeb (ls_close_t s) && closeb (ls_close_e s) && allsp (ls_ind_t s) && allsp (ls_ind_e s)
  && allsp (ls_trn s) && allsp (ls_trs s).

Definition echunk_s (s : lstyle) (tab : numtab) (j : nat) (e : dentry) : text :=
  match e with
  | DI a b lab => ichunk_s (ls_close_e s) (ls_ind_e s) (ls_trn s) (ls_trs s) (nat_to_text j)
                           (num_str (lookup tab a)) (num_str (lookup tab b)) lab
  | DP t lab => pchunk_s (ls_close_e s) (ls_ind_e s) (ls_trn s) (ls_trs s) (nat_to_text j) (num_str (lookup tab t)) lab
  end.

Lemma entries_chunks_s s tab (isint : bool) : style_ok s = true -> forall ents k ecs,
  chunks_match (echunk_s s tab) k ents ecs = true -> forallb (times_num tab) ents = true ->
  (if isint then forallb is_DIb ents else forallb (fun e => negb (is_DIb e)) ents) = true ->
  mapM_r (if isint then parse_long_interval else parse_long_point true) ecs = Ok (map (rd_entry tab) ents).
Proof.
  intro SO. unfold style_ok in SO. apply andb_prop in SO as [SO S6]. apply andb_prop in SO as [SO S5].
  apply andb_prop in SO as [SO S4]. apply andb_prop in SO as [SO S3]. apply andb_prop in SO as [S1 S2].
  induction ents as [|e ents IH]; intros k ecs CM TN KD.
  - destruct ecs; [reflexivity|discriminate].
  - destruct ecs as [|c ecs]; [discriminate|]. cbn [chunks_match] in CM. apply andb_prop in CM as [CL CM].
    cbn [forallb] in TN. apply andb_prop in TN as [Te TN].
    apply chunk_like_spec in CL as (trail & -> & SP).
    assert ((if isint then forallb is_DIb ents else forallb (fun e => negb (is_DIb e)) ents) = true
            /\ (if isint then is_DIb e else negb (is_DIb e)) = true) as [KD' Ke].
    { destruct isint; cbn [forallb] in KD; apply andb_prop in KD as [? ?]; now split. }
    cbn [mapM_r map]. specialize (IH (S k) ecs CM TN KD').
    destruct isint; destruct e as [a b lab|t lab]; cbn [is_DIb negb] in Ke; try discriminate; cbn [echunk_s rd_entry times_num] in *.
    + apply andb_prop in Te as [T1 T2].
      rewrite (parse_ichunk_s _ _ _ _ _ _ _ lab trail S2 S4 S5 S6 (nat_to_text_idx k) T1 T2 SP). cbn [bind]. now rewrite IH.
    + rewrite (parse_pchunk_s _ _ _ _ _ _ lab trail S2 S4 S5 S6 (nat_to_text_idx k) Te SP). cbn [bind]. now rewrite IH.
Qed.

Definition ltier_ok_s (s : lstyle) (tab : numtab) (k : nat) (t : dtier) (tc : text) : bool :=
  Bool.eqb (has_sub CLASS_INT tc) (d_isint t)
  && match re_split (if d_isint t then T "intervals" else T "points") tc with
     | th :: ecs =>
         chunk_like (thead_s (ls_close_t s) (ls_ind_t s) (ls_trn s) (ls_trs s) (nat_to_text k) (d_isint t) (d_name t)
                             (num_str (lookup tab (d_xmin t))) (num_str (lookup tab (d_xmax t)))
                             (nat_to_text (length (d_ents t)))) th
         && chunks_match (echunk_s s tab) 1 (d_ents t) ecs
     | [] => false
     end
  && nonl (d_name t) && numshape (num_str (lookup tab (d_xmin t))) && numshape (num_str (lookup tab (d_xmax t)))
  && forallb (times_num tab) (d_ents t)
  && (if d_isint t then forallb is_DIb (d_ents t) else forallb (fun e => negb (is_DIb e)) (d_ents t)).

Theorem parse_long_tier_block_s s tab k t tc : style_ok s = true -> ltier_ok_s s tab k t tc = true ->
  parse_long_tier true tc = Ok (rd_tier_long tab t).
Proof.
  intro SO. pose proof SO as SO'. unfold style_ok in SO'. apply andb_prop in SO' as [SO' S6]. apply andb_prop in SO' as [SO' S5].
  apply andb_prop in SO' as [SO' S4]. apply andb_prop in SO' as [SO' S3]. apply andb_prop in SO' as [S1 S2].
  unfold ltier_ok_s. intro H.
  apply andb_prop in H as [H KD]. apply andb_prop in H as [H TN]. apply andb_prop in H as [H N2].
  apply andb_prop in H as [H N1]. apply andb_prop in H as [H NN]. apply andb_prop in H as [HC H].
  apply Bool.eqb_prop in HC. unfold parse_long_tier. rewrite HC.
  destruct (re_split (if d_isint t then T "intervals" else T "points") tc) as [|th ecs]; [discriminate|].
  apply andb_prop in H as [TH CM]. apply chunk_like_spec in TH as (trail & -> & SP).
  destruct (thead_fields_s _ _ _ _ (nat_to_text k) (d_isint t) (d_name t) _ _ (nat_to_text (length (d_ents t))) trail
              S1 S3 S5 S6 (nat_to_text_idx k) NN N1 N2) as (F1 & F2 & F3).
  rewrite F1, F2, F3. cbn [req bind].
  rewrite (entries_chunks_s s tab (d_isint t) SO _ _ _ CM TN KD). cbn [bind]. unfold rd_tier_long. now rewrite unesc_esc.
Qed.

Fixpoint tiers_match_s (s : lstyle) (tab : numtab) (k : nat) (l : list dtier) (tcs : list text) : bool :=
  match l, tcs with
  | [], [] => true
  | t :: l', c :: cs => ltier_ok_s s tab k t c && tiers_match_s s tab (S k) l' cs
  | _, _ => false
  end.

Lemma tiers_blocks_s s tab : style_ok s = true -> forall tiers k tcs, tiers_match_s s tab k tiers tcs = true ->
  mapM_r (parse_long_tier true) tcs = Ok (map (rd_tier_long tab) tiers).
Proof.
  intro SO. induction tiers as [|t tiers IH]; intros k tcs H.
  - destruct tcs; [reflexivity|discriminate].
  - destruct tcs as [|c tcs]; [discriminate|]. cbn [tiers_match_s] in H. apply andb_prop in H as [Ht H].
    cbn [mapM_r map]. rewrite (parse_long_tier_block_s s tab k t c SO Ht). cbn [bind]. now rewrite (IH _ _ H).
Qed.

Lemma strip_padded_s t tr : plain_tok t = true -> allsp tr = true -> strip (32%N :: t ++ tr) = t.
Proof.
  intros P HT. induction tr as [|c tr IH] using rev_ind.
  - rewrite app_nil_r. pose proof P as P'. unfold plain_tok in P. destruct t as [|c t]; [discriminate|].
    assert (isspace c = false) as Hc.
    { cbn [forallb] in P. apply andb_prop in P as [P _]. apply andb_prop in P as [P _]. now apply negb_true_iff in P. }
    pose proof (strip_plain (c :: t) P) as SPl. unfold strip in SPl. rewrite (lstrip_noop (c :: t)) in SPl by exact Hc.
    unfold strip. cbn [lstrip]. change (isspace 32%N) with true. cbn iota. rewrite Hc. exact SPl.
  - unfold allsp in HT. rewrite forallb_app in HT. apply andb_prop in HT as [HT Hc]. cbn [forallb] in Hc.
    rewrite andb_true_r in Hc. apply N.eqb_eq in Hc. subst c.
    rewrite app_assoc. change (32%N :: (t ++ tr) ++ [32%N]) with ((32%N :: t ++ tr) ++ [32%N]).
    unfold strip.
    assert (forall l, lstrip (l ++ [32%N]) = lstrip l ++ [32%N] \/ lstrip l = []) as LS.
    { induction l as [|x l IHl]; [right; reflexivity|]. cbn [app lstrip]. destruct (isspace x); [exact IHl|left; reflexivity]. }
    destruct (LS (32%N :: t ++ tr)) as [E|E].
    + rewrite E, rstrip_snoc by reflexivity. exact (IH HT).
    + exfalso. specialize (IH HT). unfold strip in IH. rewrite E in IH. unfold rstrip in IH. cbn in IH.
      unfold plain_tok in P. destruct t; [discriminate|discriminate].
Qed.

Lemma header_value_line_s kw t tr : forallb (fun c => negb (c =? 61)%N) kw = true -> numshape t = true -> allsp tr = true ->
  header_value (kw ++ 61%N :: 32%N :: t ++ tr) = Ok t.
Proof.
  intros K H HT. unfold header_value. rewrite (split_on_line 61%N kw _ K).
  assert (forallb (fun c => negb (c =? 61)%N) (32%N :: t ++ tr) = true) as F.
  { cbn [forallb]. change (negb (32 =? 61)%N) with true. cbn [andb]. rewrite forallb_app. rewrite andb_true_iff. split.
    - pose proof (free_of_num 61%N t eq_refl H) as Fr. apply forallb_forall. intros x Hx. rewrite forallb_forall in Fr.
      specialize (Fr x Hx). now rewrite N.eqb_sym.
    - pose proof (free_of_sp 61%N tr eq_refl HT) as Fr. apply forallb_forall. intros x Hx. rewrite forallb_forall in Fr.
      specialize (Fr x Hx). now rewrite N.eqb_sym. }
  assert (split_on 61%N (32%N :: t ++ tr) = [32%N :: t ++ tr]) as ->.
  { generalize dependent (32%N :: t ++ tr). intros l Hl. induction l as [|c l IH]; [reflexivity|].
    cbn [forallb] in Hl. apply andb_prop in Hl as [Hc Hl]. apply negb_true_iff in Hc. cbn [split_on]. now rewrite Hc, (IH Hl). }
  f_equal. apply strip_padded_s; [apply numshape_plain, H|exact HT].
Qed.

(* side condition for a file in layout s: cutting it at `item [` / `item[` finds a header whose 4th and
   5th lines are the span, and the tier blocks *)
Definition lfile_ok_s (s : lstyle) (tab : numtab) (g : dtg) (data : text) : bool :=
  style_ok s
  && match re_split (T "item") data with
     | h :: _ :: tcs =>
         option_eqb text_eqb (nth_error (split_nl h) 3)
                    (Some (T "xmin " ++ 61%N :: 32%N :: num_str (lookup tab (dg_xmin g)) ++ ls_trn s))
         && option_eqb text_eqb (nth_error (split_nl h) 4)
                    (Some (T "xmax " ++ 61%N :: 32%N :: num_str (lookup tab (dg_xmax g)) ++ ls_trn s))
         && tiers_match_s s tab 1 (dg_tiers g) tcs
     | _ => false
     end
  && numshape (num_str (lookup tab (dg_xmin g))) && numshape (num_str (lookup tab (dg_xmax g))).

(* any file in any layout of the family, LF or CRLF line ends *)
Theorem parse_long_styled s tab g data :
  lfile_ok_s s tab g (crlf_to_lf data) = true ->
  parse_long true data = Ok (rd_tg_long tab g).
Proof.
  intros OK. unfold lfile_ok_s in OK. apply andb_prop in OK as [OK B]. apply andb_prop in OK as [OK A].
  apply andb_prop in OK as [SO OK]. unfold parse_long. pose proof SO as SO'. unfold style_ok in SO'.
  apply andb_prop in SO' as [SO' _]. apply andb_prop in SO' as [_ S5].
  destruct (re_split (T "item") (crlf_to_lf data)) as [|h [|x tcs]]; try discriminate.
  apply andb_prop in OK as [HH TM]. apply andb_prop in HH as [L3 L4].
  destruct (nth_error (split_nl h) 3) as [l3|]; [|discriminate]. destruct (nth_error (split_nl h) 4) as [l4|]; [|discriminate].
  cbn [option_eqb] in L3, L4. apply text_eqb_eq in L3, L4. subst l3 l4.
  rewrite (header_value_line_s (T "xmin ") _ _ eq_refl A S5). cbn [bind].
  rewrite (header_value_line_s (T "xmax ") _ _ eq_refl B S5). cbn [bind].
  rewrite (tiers_blocks_s s tab SO _ _ _ TM). reflexivity.
Qed.
