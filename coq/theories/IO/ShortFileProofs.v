(* IO/ShortFileProofs.v -- whole-file round trip of the short text form: parsing what the
   writer printed gives back the tiers, names, spans and entries (C01), under the decidable
   side condition that the class keywords occur in the text only where tiers start. *)
From Coq Require Import Lia String.
From PraatIO Require Import IO.IoModel IO.CodecProofs IO.CrlfProofs.
Open Scope Z_scope.

Definition rd_tier (tab : numtab) (t : dtier) : rtier :=
  mkRT (d_isint t) (strip (d_name t)) (num_str (lookup tab (d_xmin t))) (num_str (lookup tab (d_xmax t)))
       (map (rd_entry tab) (d_ents t)).

Definition rd_tg (tab : numtab) (g : dtg) : rtg :=
  mkRTG (num_str (lookup tab (dg_xmin g))) (num_str (lookup tab (dg_xmax g))) (map (rd_tier tab) (dg_tiers g)).

(* the header the short writer prints before the first tier *)
Definition short_header (tab : numtab) (g : dtg) : text :=
  HEADER ++ num_str (lookup tab (dg_xmin g)) ++ NL1 ++ num_str (lookup tab (dg_xmax g)) ++ NL1
  ++ T "<exists>" ++ NL1 ++ nat_to_text (length (dg_tiers g)) ++ NL1.

(* the side condition: cutting the text at the class keywords finds exactly the tiers *)
Definition chunk_ok (tab : numtab) (g : dtg) : bool :=
  let data := print_short tab g in
  list_eqb (fun a b => option_eqb Bool.eqb (fst a) (fst b) && text_eqb (snd a) (snd b))
           (short_blocks (S (length data)) data [] None [])
           ((None, short_header tab g) :: map (fun t => (Some (d_isint t), short_tier tab t)) (dg_tiers g)).

Definition tier_ok (tab : numtab) (t : dtier) : bool :=
  plain_tok (num_str (lookup tab (d_xmin t))) && plain_tok (num_str (lookup tab (d_xmax t)))
  && forallb (times_plain tab) (d_ents t)
  && (if d_isint t then forallb is_DIb (d_ents t) else forallb (fun e => negb (is_DIb e)) (d_ents t)).

Definition nonl (l : text) : bool := forallb (fun c => negb (c =? 10)%N) l.

Lemma plain_nonl t : plain_tok t = true -> nonl t = true.
Proof.
  unfold plain_tok, nonl. destruct t as [|c t]; [discriminate|]. intro H.
  apply forallb_forall. intros x Hx. rewrite forallb_forall in H. specialize (H x Hx).
  apply andb_prop in H as [Hs _]. apply negb_true_iff in Hs. apply negb_true_iff.
  destruct (x =? 10)%N eqn:E; [|reflexivity]. apply N.eqb_eq in E. subst. discriminate.
Qed.

Lemma split_nl_line line rest : nonl line = true -> split_nl (line ++ 10%N :: rest) = line :: split_nl rest.
Proof.
  induction line as [|c line IH]; intro H; [reflexivity|].
  unfold nonl in H. cbn [forallb] in H. apply andb_prop in H as [Hc Hl]. apply negb_true_iff in Hc.
  cbn [app split_nl]. rewrite Hc, (IH Hl). reflexivity.
Qed.

(* decimal digits are plain tokens *)
Lemma digit_plain d : (d < 10)%nat -> negb (isspace (digit d)) && negb (isq (digit d)) = true.
Proof. intro H. unfold digit. do 10 (destruct d as [|d]; [reflexivity|]). lia. Qed.

Lemma nat_to_text_fuel_plain fuel : forall n acc,
  forallb (fun c => negb (isspace c) && negb (isq c)) acc = true ->
  forallb (fun c => negb (isspace c) && negb (isq c)) (nat_to_text_fuel fuel n acc) = true
  /\ (fuel <> 0%nat -> nat_to_text_fuel fuel n acc <> []).
Proof.
  induction fuel as [|f IH]; intros n acc A; cbn [nat_to_text_fuel]; [split; [exact A|congruence]|].
  assert (n mod 10 < 10)%nat as D by (apply Nat.mod_upper_bound; lia).
  assert (forallb (fun c => negb (isspace c) && negb (isq c)) (digit (n mod 10) :: acc) = true) as A'.
  { cbn [forallb]. rewrite (digit_plain _ D). exact A. }
  destruct (n / 10 =? 0)%nat.
  - split; [exact A'|intros _; discriminate].
  - destruct (IH (n / 10)%nat _ A') as [P Q]. split; [exact P|]. intros _.
    destruct f as [|f']; [cbn [nat_to_text_fuel]; discriminate|apply Q; discriminate].
Qed.

Lemma nat_to_text_plain n : plain_tok (nat_to_text n) = true.
Proof.
  unfold nat_to_text. destruct (nat_to_text_fuel_plain (S n) n [] eq_refl) as [P Q].
  unfold plain_tok. destruct (nat_to_text_fuel (S n) n []) eqn:E; [exfalso; apply Q; [discriminate|reflexivity]|exact P].
Qed.

(* _fetchRow on any non-blank line: the position after the line *)
Lemma fetch_row_skips line rest : nonl line = true -> strip line <> [] ->
  exists w, fetch_row (line ++ 10%N :: rest) = Ok (w, rest).
Proof.
  intros NL NB. unfold fetch_row. rewrite take_line_app by exact NL.
  destruct (strip line) as [|c0 w'] eqn:E; [congruence|].
  destruct (last_opt (c0 :: w')) as [cl|] eqn:EL; [eexists; reflexivity|].
  exfalso. exact (last_opt_cons _ _ EL).
Qed.

Lemma entries_length tab ents : (length ents <= length (flat_map (short_entry tab) ents))%nat.
Proof.
  induction ents as [|e ents IH]; [simpl; lia|]. cbn [flat_map length]. rewrite app_length.
  assert (1 <= length (short_entry tab e))%nat; [|lia].
  destruct e; cbn [short_entry]; repeat (rewrite app_length; cbn [length]); unfold NL1; simpl; lia.
Qed.

(* one tier block as the writer prints it is read back as that tier *)
Theorem parse_short_tier_printed tab t : tier_ok tab t = true ->
  parse_short_tier (d_isint t) (short_tier tab t) = Ok (rd_tier tab t).
Proof.
  intro H. unfold tier_ok in H. apply andb_prop in H as [H HK]. apply andb_prop in H as [H HT].
  apply andb_prop in H as [P1 P2].
  unfold parse_short_tier, short_tier, NL1.
  assert (exists w, forall r, fetch_row ((Q1 ++ class_name (d_isint t) ++ Q1) ++ 10%N :: r) = Ok (w, r)) as (w & FR).
  { destruct (d_isint t); eexists; intro r; vm_compute; reflexivity. }
  repeat rewrite <- app_assoc.
  replace (Q1 ++ class_name (d_isint t) ++ Q1 ++ [10%N] ++ quoted (d_name t) ++ [10%N]
           ++ num_str (lookup tab (d_xmin t)) ++ [10%N] ++ num_str (lookup tab (d_xmax t)) ++ [10%N]
           ++ nat_to_text (length (d_ents t)) ++ [10%N] ++ flat_map (short_entry tab) (d_ents t))
    with ((Q1 ++ class_name (d_isint t) ++ Q1) ++ 10%N :: (quoted (d_name t) ++ 10%N ::
          (num_str (lookup tab (d_xmin t)) ++ 10%N :: (num_str (lookup tab (d_xmax t)) ++ 10%N ::
          (nat_to_text (length (d_ents t)) ++ 10%N :: flat_map (short_entry tab) (d_ents t))))))
    by (repeat rewrite <- app_assoc; reflexivity).
  rewrite FR. cbn [bind snd fst]. rewrite fetch_text_row_quoted. cbn [bind snd fst].
  rewrite (fetch_row_plain _ _ P1). cbn [bind snd fst]. rewrite (fetch_row_plain _ _ P2). cbn [bind snd fst].
  rewrite (fetch_row_plain _ _ (nat_to_text_plain _)). cbn [bind snd fst].
  unfold rd_tier. f_equal. f_equal.
  pose proof (entries_length tab (d_ents t)) as L.
  destruct (d_isint t).
  - apply short_intervals_printed; [exact HK|exact HT|lia].
  - apply short_points_printed; [exact HK|exact HT|lia].
Qed.

Lemma mapM_tiers_printed tab tiers : forallb (tier_ok tab) tiers = true ->
  mapM_tiers (map (fun t => (Some (d_isint t), short_tier tab t)) tiers) = Ok (map (rd_tier tab) tiers).
Proof.
  induction tiers as [|t tiers IH]; intro H; [reflexivity|].
  cbn [forallb] in H. apply andb_prop in H as [Ht Hr].
  cbn [map mapM_tiers]. rewrite (parse_short_tier_printed tab t Ht). cbn [bind]. rewrite (IH Hr). reflexivity.
Qed.

Lemma header_lines tab g :
  plain_tok (num_str (lookup tab (dg_xmin g))) = true -> plain_tok (num_str (lookup tab (dg_xmax g))) = true ->
  nth_error (split_nl (short_header tab g)) 3 = Some (num_str (lookup tab (dg_xmin g)))
  /\ nth_error (split_nl (short_header tab g)) 4 = Some (num_str (lookup tab (dg_xmax g))).
Proof.
  intros A B. unfold short_header, HEADER, NL1.
  replace ((T "File type = ""ooTextFile""" ++ [10%N] ++ T "Object class = ""TextGrid""" ++ [10%N] ++ [10%N])
           ++ num_str (lookup tab (dg_xmin g)) ++ [10%N] ++ num_str (lookup tab (dg_xmax g)) ++ [10%N]
           ++ T "<exists>" ++ [10%N] ++ nat_to_text (length (dg_tiers g)) ++ [10%N])
    with (T "File type = ""ooTextFile""" ++ 10%N :: (T "Object class = ""TextGrid""" ++ 10%N :: ([] ++ 10%N ::
          (num_str (lookup tab (dg_xmin g)) ++ 10%N :: (num_str (lookup tab (dg_xmax g)) ++ 10%N ::
          (T "<exists>" ++ 10%N :: (nat_to_text (length (dg_tiers g)) ++ 10%N :: [])))))))
    by (repeat rewrite <- app_assoc; reflexivity).
  rewrite split_nl_line by reflexivity. rewrite split_nl_line by reflexivity. rewrite split_nl_line by reflexivity.
  rewrite (split_nl_line _ _ (plain_nonl _ A)), (split_nl_line _ _ (plain_nonl _ B)). split; reflexivity.
Qed.

(* the whole file *)
Theorem parse_short_printed tab g :
  dg_tiers g <> [] -> chunk_ok tab g = true ->
  forallb (fun c => negb (c =? 13)%N) (print_short tab g) = true ->
  plain_tok (num_str (lookup tab (dg_xmin g))) = true -> plain_tok (num_str (lookup tab (dg_xmax g))) = true ->
  forallb (tier_ok tab) (dg_tiers g) = true ->
  parse_short (print_short tab g) = Ok (rd_tg tab g).
Proof.
  intros NE CH CR A B TK. unfold parse_short. rewrite (crlf_nocr _ CR).
  unfold chunk_ok in CH.
  assert (short_blocks (S (length (print_short tab g))) (print_short tab g) [] None []
          = (None, short_header tab g) :: map (fun t => (Some (d_isint t), short_tier tab t)) (dg_tiers g)) as ->.
  { apply list_eqb_eq in CH; [exact CH|]. intros [a1 a2] [b1 b2]; simpl. rewrite andb_true_iff, text_eqb_eq. split.
    - intros [E1 E2]. f_equal; [|exact E2]. destruct a1 as [x|], b1 as [y|]; simpl in E1; try discriminate; [|reflexivity].
      apply Bool.eqb_prop in E1. now subst.
    - intros [= -> ->]. split; [|reflexivity]. destruct b1 as [y|]; simpl; [apply Bool.eqb_reflx|reflexivity]. }
  destruct (dg_tiers g) as [|t0 ts] eqn:ET; [congruence|]. rewrite <- ET in *.
  destruct (map (fun t => (Some (d_isint t), short_tier tab t)) (dg_tiers g)) as [|b bs] eqn:EM; [rewrite ET in EM; discriminate|].
  rewrite <- EM. destruct (header_lines tab g A B) as [H3 H4]. rewrite H3, H4.
  rewrite (mapM_tiers_printed tab _ TK). cbn [bind].
  rewrite !strip_plain; [reflexivity| |].
  - unfold plain_tok in B. destruct (num_str (lookup tab (dg_xmax g))); [discriminate|exact B].
  - unfold plain_tok in A. destruct (num_str (lookup tab (dg_xmin g))); [discriminate|exact A].
Qed.
