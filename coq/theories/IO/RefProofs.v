(* IO/RefProofs.v -- the reference (specification) reader on what the writers emit:
   a written string token decodes to the string, for every string (C02). *)
From Coq Require Import Lia.
From PraatIO Require Import Check.IoCheck IO.CodecProofs.
Open Scope Z_scope.

Lemma ref_string_esc l : forall fuel acc rest,
  match rest with 34%N :: _ => False | _ => True end -> (length (esc l) < fuel)%nat ->
  ref_string fuel (esc l ++ 34%N :: rest) acc = Some (rev acc ++ l, rest).
Proof.
  induction l as [|c l IH]; intros fuel acc rest HR HF.
  - destruct fuel as [|f]; [simpl in HF; lia|]. cbn [esc app ref_string].
    destruct rest as [|d rest']; [now rewrite app_nil_r|].
    destruct d as [|p]; [now rewrite app_nil_r|].
    destruct p; try (now rewrite app_nil_r); destruct p; try (now rewrite app_nil_r);
      destruct p; try (now rewrite app_nil_r); destruct p; try (now rewrite app_nil_r);
      destruct p; try (now rewrite app_nil_r); destruct p; try (now rewrite app_nil_r).
  - destruct fuel as [|f]; [simpl in HF; lia|].
    destruct (c =? 34)%N eqn:E.
    + apply N.eqb_eq in E. subst c. cbn [esc]. rewrite N.eqb_refl. cbn [app].
      cbn [ref_string]. rewrite IH; [|exact HR|simpl in HF; lia].
      cbn [rev]. now rewrite <- app_assoc.
    + cbn [esc]. rewrite E. cbn [app].
      assert (ref_string (S f) (c :: esc l ++ 34%N :: rest) acc = ref_string f (esc l ++ 34%N :: rest) (c :: acc)) as ->.
      { cbn [ref_string]. destruct c as [|p]; [reflexivity|].
        assert (N.pos p <> 34%N) as NE by (intro H; rewrite H in E; discriminate).
        destruct p; try reflexivity; destruct p; try reflexivity; destruct p; try reflexivity;
          destruct p; try reflexivity; destruct p; try reflexivity; destruct p; try reflexivity; congruence. }
      rewrite IH; [|exact HR|cbn [esc] in HF; rewrite E in HF; simpl in HF; lia].
      cbn [rev]. now rewrite <- app_assoc.
Qed.

(* the string token written for a name or label decodes to that name or label *)
Theorem ref_string_quoted l rest :
  match rest with 34%N :: _ => False | _ => True end ->
  ref_string (S (length (esc l ++ 34%N :: rest))) (esc l ++ 34%N :: rest) [] = Some (l, rest).
Proof.
  intro HR. rewrite ref_string_esc; [reflexivity|exact HR|rewrite app_length; simpl; lia].
Qed.
