(* IO/RefFileProofs.v -- the reference (specification) reader on whole written files (C02):
   tokenizing what the short writer or the long writer printed gives exactly the tokens of the
   data, and parsing them gives the data back -- for EVERY name and label (keywords, quotes,
   newlines, field look-alikes included), any number of tiers and entries.  Nothing is assumed
   about the text except that number tokens look like numbers. *)
From Coq Require Import Lia String.
From PraatIO Require Import Check.IoCheck IO.CodecProofs IO.RefProofs IO.ShortFileProofs IO.LongFileProofs.
Open Scope Z_scope.

(* ------------------------------------------------------------------ *)
(* the tokenizer does not depend on its fuel                            *)

Lemma ref_string_unfold f s acc :
  ref_string (S f) s acc =
  match s with
  | [] => None
  | c :: s' =>
      if (c =? 34)%N then
        match s' with
        | d :: s'' => if (d =? 34)%N then ref_string f s'' (34%N :: acc) else Some (rev acc, s')
        | [] => Some (rev acc, s')
        end
      else ref_string f s' (c :: acc)
  end.
Proof.
  destruct s as [|c s']; [reflexivity|].
  destruct (N.eqb_spec c 34) as [->|NC].
  - destruct s' as [|d s'']; [reflexivity|].
    destruct (N.eqb_spec d 34) as [->|ND]; [reflexivity|].
    cbn [ref_string]. destruct d as [|p]; [reflexivity|].
    do 6 (try (destruct p as [p|p|]; try reflexivity)). congruence.
  - cbn [ref_string]. destruct c as [|p]; [reflexivity|].
    do 6 (try (destruct p as [p|p|]; try reflexivity)). congruence.
Qed.

Lemma ref_string_len : forall fuel s acc str r, ref_string fuel s acc = Some (str, r) -> (length r < length s)%nat.
Proof.
  induction fuel as [|f IH]; intros s acc str r H; [discriminate|].
  rewrite ref_string_unfold in H. destruct s as [|c s']; [discriminate|].
  destruct (c =? 34)%N.
  - destruct s' as [|d s'']; [injection H as _ <-; simpl; lia|].
    destruct (d =? 34)%N.
    + apply IH in H. simpl. lia.
    + injection H as _ <-. simpl. lia.
  - apply IH in H. simpl. lia.
Qed.

Lemma take_line_len : forall s l r, take_line s = Some (l, r) -> (length r < length s)%nat.
Proof.
  induction s as [|c s IH]; intros l r H; [discriminate|]. cbn [take_line] in H.
  destruct (c =? 10)%N; [injection H as _ <-; simpl; lia|].
  destruct (take_line s) as [[l' r']|] eqn:E; [|discriminate]. injection H as _ <-.
  specialize (IH _ _ eq_refl). simpl. lia.
Qed.

Lemma tw_len p s : (length (snd (take_while p s)) <= length s)%nat.
Proof.
  induction s as [|c s IH]; [simpl; lia|]. cbn [take_while]. destruct (p c); [|simpl; lia].
  destruct (take_while p s). cbn [snd] in *. simpl. lia.
Qed.

Lemma ref_tokens_fuel : forall n s f1 f2, (length s <= n)%nat -> (length s < f1)%nat -> (length s < f2)%nat ->
  ref_tokens f1 s = ref_tokens f2 s.
Proof.
  induction n as [|n IH]; intros s f1 f2 L L1 L2.
  - destruct s; [|simpl in L; lia]. destruct f1, f2; try (simpl in *; lia); reflexivity.
  - destruct s as [|c s']; [destruct f1, f2; try (simpl in *; lia); reflexivity|].
    destruct f1 as [|f1]; [simpl in *; lia|]. destruct f2 as [|f2]; [simpl in *; lia|].
    simpl in L, L1, L2. cbn [ref_tokens].
    destruct (isspace c) eqn:SP; [apply IH; lia|].
    destruct (c =? 34)%N.
    { destruct (ref_string (S (length s')) s' []) as [[str r]|] eqn:RS; [|reflexivity].
      apply ref_string_len in RS. now rewrite (IH r f1 f2) by lia. }
    destruct (c =? 33)%N.
    { destruct (take_line s') as [[l r]|] eqn:TL; [|reflexivity]. apply take_line_len in TL. apply IH; lia. }
    cbn [take_while]. rewrite SP. cbn [negb].
    pose proof (tw_len (fun x => negb (isspace x)) s') as TL.
    destruct (take_while (fun x => negb (isspace x)) s') as [w r]. cbn [snd] in TL.
    now rewrite (IH r f1 f2) by lia.
Qed.

Lemma ref_tokens_cons f c s' :
  ref_tokens (S f) (c :: s') =
  (if isspace c then ref_tokens f s'
   else if (c =? 34)%N then
     match ref_string (S (length s')) s' [] with
     | Some (str, r) => match ref_tokens f r with Some l => Some (TStr str :: l) | None => None end
     | None => None end
   else if (c =? 33)%N then
     match take_line s' with
     | Some (_, r) => ref_tokens f r
     | None => Some [] end
   else
     let '(w, r) := take_while (fun x => negb (isspace x)) (c :: s') in
     match ref_tokens f r with
     | Some l =>
         if (c =? 60)%N && match last_opt w with Some 62%N => true | _ => false end then Some (TFlag w :: l)
         else if is_number_word w then Some (TNum w :: l) else Some l
     | None => None end).
Proof. reflexivity. Qed.

Notation tokz := tokenize (only parsing).

Definition pre (l : list tok) (o : option (list tok)) : option (list tok) :=
  match o with Some m => Some (l ++ m) | None => None end.

Lemma pre_pre a b o : pre a (pre b o) = pre (a ++ b) o.
Proof. destruct o; simpl; [now rewrite app_assoc|reflexivity]. Qed.

Lemma pre_nil o : pre [] o = o.
Proof. now destruct o. Qed.

(* white space *)
Lemma tokz_space c s : isspace c = true -> tokz (c :: s) = tokz s.
Proof.
  intro H. unfold tokenize. cbn [length]. rewrite ref_tokens_cons, H.
  apply (ref_tokens_fuel (length s)); simpl; lia.
Qed.

(* a written string: for every name or label *)
Lemma tokz_string l rest : match rest with 34%N :: _ => False | _ => True end ->
  tokz (34%N :: esc l ++ 34%N :: rest) = pre [TStr l] (tokz rest).
Proof.
  intro HR. unfold tokenize. cbn [length]. rewrite ref_tokens_cons. change (isspace 34%N) with false. cbn iota.
  change (34 =? 34)%N with true. cbn iota. rewrite (ref_string_quoted l rest HR).
  match goal with |- context [ref_tokens ?f rest] =>
    rewrite (ref_tokens_fuel (length rest) rest f (S (length rest))) by (try rewrite app_length; simpl; lia) end.
  destruct (ref_tokens (S (length rest)) rest); reflexivity.
Qed.

(* a word: no white space in it, not starting a string or a comment *)
Definition wordb (w : text) : bool :=
  match w with
  | c :: _ => negb (c =? 34)%N && negb (c =? 33)%N && forallb (fun x => negb (isspace x)) w
  | [] => false
  end.

Definition cls (w : text) : list tok :=
  match w with
  | c :: _ =>
      if (c =? 60)%N && match last_opt w with Some 62%N => true | _ => false end then [TFlag w]
      else if is_number_word w then [TNum w] else []
  | [] => []
  end.

Lemma tw_all_true p w : forallb p w = true -> take_while p w = (w, []).
Proof.
  induction w as [|c w IH]; intro H; [reflexivity|]. cbn [forallb] in H. apply andb_prop in H as [Hc Hw].
  cbn [take_while]. now rewrite Hc, (IH Hw).
Qed.

Lemma tokz_word w c rest : wordb w = true -> isspace c = true ->
  tokz (w ++ c :: rest) = pre (cls w) (tokz rest).
Proof.
  intros W SP. destruct w as [|c0 w']; [discriminate|]. unfold wordb in W.
  apply andb_prop in W as [W WA]. apply andb_prop in W as [W1 W2]. apply negb_true_iff in W1, W2.
  pose proof WA as WA0. cbn [forallb] in WA0. apply andb_prop in WA0 as [S0 _]. apply negb_true_iff in S0.
  unfold tokenize. cbn [app length]. rewrite ref_tokens_cons. rewrite S0, W1, W2.
  change (c0 :: w' ++ c :: rest) with ((c0 :: w') ++ c :: rest).
  rewrite (tw_app (fun x => negb (isspace x)) (c0 :: w') (c :: rest)) by (now rewrite SP).
  rewrite (tw_all_true _ _ WA). cbn [fst snd app].
  match goal with |- context [ref_tokens ?f (c :: rest)] =>
    rewrite (ref_tokens_fuel (length (c :: rest)) (c :: rest) f (S (length (c :: rest)))) by (try rewrite app_length; simpl; lia) end.
  change (ref_tokens (S (length (c :: rest))) (c :: rest)) with (tokz (c :: rest)). rewrite (tokz_space c rest SP).
  unfold cls, tokenize. destruct (ref_tokens (S (length rest)) rest) as [l|]; [|reflexivity]. cbn [pre].
  destruct ((c0 =? 60)%N && match last_opt (c0 :: w') with Some 62%N => true | _ => false end); [reflexivity|].
  destruct (is_number_word (c0 :: w')); reflexivity.
Qed.

(* ------------------------------------------------------------------ *)
(* comment text: words that are neither numbers nor flags               *)

Fixpoint commentb (fuel : nat) (p : text) : bool :=
  match fuel with
  | O => false
  | S f =>
      match p with
      | [] => true
      | c :: p' =>
          if isspace c then commentb f p'
          else let '(w, r) := take_while (fun x => negb (isspace x)) p in
               match r with
               | [] => false
               | _ :: r' => wordb w && (match cls w with [] => true | _ => false end) && commentb f r'
               end
      end
  end.

Lemma tw_stop p s : match snd (take_while p s) with c :: _ => p c = false | [] => True end.
Proof.
  induction s as [|c s IH]; [exact I|]. cbn [take_while]. destruct (p c) eqn:E; [|exact E].
  destruct (take_while p s). exact IH.
Qed.

Theorem comment_skip : forall f p rest, commentb f p = true -> tokz (p ++ rest) = tokz rest.
Proof.
  induction f as [|f IH]; intros p rest H; [discriminate|].
  destruct p as [|c p']; [reflexivity|]. cbn [commentb] in H.
  destruct (isspace c) eqn:SP.
  - cbn [app]. rewrite (tokz_space _ _ SP). apply IH, H.
  - pose proof (tw_split (fun x => negb (isspace x)) (c :: p')) as SPL.
    pose proof (tw_stop (fun x => negb (isspace x)) (c :: p')) as ST.
    destruct (take_while (fun x => negb (isspace x)) (c :: p')) as [w r]. cbn [fst snd] in *.
    destruct r as [|c' r']; [discriminate|]. apply negb_false_iff in ST.
    apply andb_prop in H as [H HR]. apply andb_prop in H as [HW HC].
    rewrite SPL, <- app_assoc. cbn [app]. rewrite (tokz_word w c' (r' ++ rest) HW ST).
    destruct (cls w); [|discriminate]. rewrite pre_nil. apply IH, HR.
Qed.

Ltac skipc := rewrite (comment_skip 40) by reflexivity.

(* ------------------------------------------------------------------ *)
(* number tokens, written strings                                       *)

Definition refnum (t : text) : bool :=
  wordb t && is_number_word t && match t with 60%N :: _ => false | _ => true end.

Lemma cls_num t : refnum t = true -> cls t = [TNum t].
Proof.
  unfold refnum. intro H. apply andb_prop in H as [H F]. apply andb_prop in H as [W NW].
  destruct t as [|c t]; [discriminate|]. unfold cls. rewrite NW.
  destruct (N.eqb_spec c 60) as [->|NE]; [discriminate|]. reflexivity.
Qed.

Lemma tokz_num t c rest : refnum t = true -> isspace c = true -> tokz (t ++ c :: rest) = pre [TNum t] (tokz rest).
Proof.
  intros H SP. pose proof (cls_num t H) as C. unfold refnum in H. apply andb_prop in H as [H _]. apply andb_prop in H as [W _].
  now rewrite (tokz_word t c rest W SP), C.
Qed.

Lemma tokz_quoted l c rest : isspace c = true -> tokz (quoted l ++ c :: rest) = pre [TStr l] (tokz rest).
Proof.
  intro SP. unfold quoted, Q1. repeat rewrite <- app_assoc. cbn [app].
  rewrite tokz_string; [now rewrite (tokz_space c rest SP)|].
  destruct c as [|p]; [exact I|]. do 6 (try (destruct p as [p|p|]; try exact I)). discriminate SP.
Qed.

(* the tokens a file must carry *)
Definition toks_entry (tab : numtab) (e : dentry) : list tok :=
  match e with
  | DI s e' l => [TNum (num_str (lookup tab s)); TNum (num_str (lookup tab e')); TStr l]
  | DP t l => [TNum (num_str (lookup tab t)); TStr l]
  end.

Definition toks_tier (tab : numtab) (t : dtier) : list tok :=
  TStr (class_name (d_isint t)) :: TStr (d_name t)
  :: TNum (num_str (lookup tab (d_xmin t))) :: TNum (num_str (lookup tab (d_xmax t)))
  :: TNum (nat_to_text (length (d_ents t))) :: flat_map (toks_entry tab) (d_ents t).

Definition toks_tg (tab : numtab) (g : dtg) : list tok :=
  TStr (T "ooTextFile") :: TStr (T "TextGrid")
  :: TNum (num_str (lookup tab (dg_xmin g))) :: TNum (num_str (lookup tab (dg_xmax g)))
  :: TFlag (T "<exists>") :: TNum (nat_to_text (length (dg_tiers g))) :: flat_map (toks_tier tab) (dg_tiers g).

Definition times_ref (tab : numtab) (e : dentry) : bool :=
  match e with
  | DI s e' _ => refnum (num_str (lookup tab s)) && refnum (num_str (lookup tab e'))
  | DP t _ => refnum (num_str (lookup tab t))
  end.

Definition tier_ref (tab : numtab) (t : dtier) : bool :=
  refnum (num_str (lookup tab (d_xmin t))) && refnum (num_str (lookup tab (d_xmax t)))
  && forallb (times_ref tab) (d_ents t).

(* a decimal numeral is a number word *)
Lemma idx_nonspace j : idx j = true -> forallb (fun x => negb (isspace x)) j = true.
Proof.
  intro H. apply forallb_forall. intros x Hx. unfold idx in H. rewrite forallb_forall in H. specialize (H x Hx).
  unfold isdigit in H. unfold isspace. lia.
Qed.

Lemma inw_unfold w :
  is_number_word w =
  (let w0 := strip_minus w in
   let '(ip, r1) := take_while isdig w0 in
   match ip with
   | [] => false
   | _ =>
      let r2 := match r1 with
                | 46%N :: r => let '(fp, r') := take_while isdig r in
                               match fp with [] => r1 | _ => r' end
                | _ => r1 end in
      match r2 with
      | [] => true
      | c :: r =>
          if ((c =? 101) || (c =? 69))%N then
            let r := match r with 43%N :: x | 45%N :: x => x | _ => r end in
            let '(ep, r') := take_while isdig r in
            match ep, r' with _ :: _, [] => true | _, _ => false end
          else false
      end
   end).
Proof. reflexivity. Qed.

Lemma refnum_idx j : j <> [] -> idx j = true -> refnum j = true.
Proof.
  intros NE H. destruct j as [|c j']; [congruence|]. unfold refnum.
  pose proof H as H0. unfold idx in H0. cbn [forallb] in H0. apply andb_prop in H0 as [Hc _].
  assert (c <> 45%N /\ c <> 60%N /\ (c =? 34)%N = false /\ (c =? 33)%N = false) as (N45 & N60 & N34 & N33) by (unfold isdigit in Hc; lia).
  rewrite !andb_true_iff. repeat split.
  - unfold wordb. rewrite N34, N33. cbn [negb andb]. apply idx_nonspace, H.
  - rewrite inw_unfold, (strip_minus_ne c j' N45). cbv zeta.
    assert (take_while isdig (c :: j') = (c :: j', [])) as -> by (apply tw_all_true; exact H).
    reflexivity.
  - destruct c as [|p]; [reflexivity|]. do 6 (try (destruct p as [p|p|]; try reflexivity)). congruence.
Qed.

Lemma nat_to_text_ne n : nat_to_text n <> [].
Proof. pose proof (nat_to_text_plain n) as H. destruct (nat_to_text n); [discriminate|congruence]. Qed.

Lemma refnum_nat n : refnum (nat_to_text n) = true.
Proof. apply refnum_idx; [apply nat_to_text_ne|apply nat_to_text_idx]. Qed.

(* ------------------------------------------------------------------ *)
(* the short form                                                       *)

Lemma tokz_short_entry tab e rest : times_ref tab e = true ->
  tokz (short_entry tab e ++ rest) = pre (toks_entry tab e) (tokz rest).
Proof.
  intro H. destruct e as [s e' l|t l]; cbn [short_entry toks_entry times_ref] in *; unfold NL1; repeat rewrite <- app_assoc; cbn [app].
  - apply andb_prop in H as [H1 H2].
    rewrite (tokz_num _ 10%N _ H1 eq_refl), (tokz_num _ 10%N _ H2 eq_refl), (tokz_quoted l 10%N rest eq_refl).
    now rewrite !pre_pre.
  - rewrite (tokz_num _ 10%N _ H eq_refl), (tokz_quoted l 10%N rest eq_refl). now rewrite !pre_pre.
Qed.

Lemma tokz_short_entries tab : forall ents rest, forallb (times_ref tab) ents = true ->
  tokz (flat_map (short_entry tab) ents ++ rest) = pre (flat_map (toks_entry tab) ents) (tokz rest).
Proof.
  induction ents as [|e ents IH]; intros rest H; [now rewrite pre_nil|].
  cbn [forallb] in H. apply andb_prop in H as [He H]. cbn [flat_map]. rewrite <- app_assoc.
  now rewrite (tokz_short_entry tab e _ He), (IH rest H), pre_pre.
Qed.

Lemma tokz_num' t rest : refnum t = true -> tokz (t ++ NL1 ++ rest) = pre [TNum t] (tokz rest).
Proof. intro H. exact (tokz_num t 10%N rest H eq_refl). Qed.

Lemma tokz_quoted' l rest : tokz (quoted l ++ NL1 ++ rest) = pre [TStr l] (tokz rest).
Proof. exact (tokz_quoted l 10%N rest eq_refl). Qed.

Lemma tokz_qcls (b : bool) rest : tokz (Q1 ++ class_name b ++ Q1 ++ NL1 ++ rest) = pre [TStr (class_name b)] (tokz rest).
Proof.
  assert (Q1 ++ class_name b ++ Q1 ++ NL1 ++ rest = quoted (class_name b) ++ NL1 ++ rest) as ->.
  { destruct b; reflexivity. }
  apply tokz_quoted'.
Qed.

Lemma tokz_short_tier tab t rest : tier_ref tab t = true ->
  tokz (short_tier tab t ++ rest) = pre (toks_tier tab t) (tokz rest).
Proof.
  unfold tier_ref. intro H. apply andb_prop in H as [H HE]. apply andb_prop in H as [H1 H2].
  unfold short_tier. repeat rewrite <- app_assoc.
  rewrite tokz_qcls, tokz_quoted', (tokz_num' _ _ H1), (tokz_num' _ _ H2), (tokz_num' _ _ (refnum_nat _)).
  rewrite (tokz_short_entries tab _ rest HE). rewrite !pre_pre. reflexivity.
Qed.

Lemma tokz_short_tiers tab : forall tiers rest, forallb (tier_ref tab) tiers = true ->
  tokz (flat_map (short_tier tab) tiers ++ rest) = pre (flat_map (toks_tier tab) tiers) (tokz rest).
Proof.
  induction tiers as [|t tiers IH]; intros rest H; [now rewrite pre_nil|].
  cbn [forallb] in H. apply andb_prop in H as [Ht H]. cbn [flat_map]. rewrite <- app_assoc.
  now rewrite (tokz_short_tier tab t _ Ht), (IH rest H), pre_pre.
Qed.

Lemma tokz_nil : tokz [] = Some [].
Proof. reflexivity. Qed.

Lemma tokz_header rest : tokz (HEADER ++ rest) = pre [TStr (T "ooTextFile"); TStr (T "TextGrid")] (tokz rest).
Proof.
  unfold HEADER. repeat rewrite <- app_assoc.
  change (T "File type = ""ooTextFile""") with (T "File type = " ++ quoted (T "ooTextFile")).
  change (T "Object class = ""TextGrid""") with (T "Object class = " ++ quoted (T "TextGrid")).
  repeat rewrite <- app_assoc. skipc. rewrite tokz_quoted'. skipc. rewrite tokz_quoted'.
  unfold NL1. cbn [app]. rewrite (tokz_space 10%N rest eq_refl). now rewrite pre_pre.
Qed.

Lemma tokz_word' w rest : wordb w = true -> tokz (w ++ NL1 ++ rest) = pre (cls w) (tokz rest).
Proof. intro H. exact (tokz_word w 10%N rest H eq_refl). Qed.

Definition tg_ref (tab : numtab) (g : dtg) : bool :=
  refnum (num_str (lookup tab (dg_xmin g))) && refnum (num_str (lookup tab (dg_xmax g)))
  && forallb (tier_ref tab) (dg_tiers g).

(* the tokens of a whole short-form file *)
Theorem tokenize_short tab g : tg_ref tab g = true -> tokz (print_short tab g) = Some (toks_tg tab g).
Proof.
  unfold tg_ref. intro H. apply andb_prop in H as [H HT]. apply andb_prop in H as [H1 H2].
  unfold print_short.
  rewrite <- (app_nil_r (flat_map (short_tier tab) (dg_tiers g))). repeat rewrite <- app_assoc.
  rewrite tokz_header, (tokz_num' _ _ H1), (tokz_num' _ _ H2).
  rewrite (tokz_word' (T "<exists>") _ eq_refl). change (cls (T "<exists>")) with [TFlag (T "<exists>")].
  rewrite (tokz_num' _ _ (refnum_nat _)), (tokz_short_tiers tab _ [] HT), tokz_nil. cbn [pre]. rewrite !app_nil_r. reflexivity.
Qed.

(* ------------------------------------------------------------------ *)
(* from tokens to data: declared sizes are the numbers of items that follow *)

Lemma digit_val d : (d < 10)%nat -> isdig (digit d) = true /\ N.to_nat (digit d - 48) = d.
Proof.
  intro H. unfold digit, isdig. split; [do 10 (destruct d as [|d]; [reflexivity|]); lia|].
  rewrite N.add_comm, N.add_sub. apply Nat2N.id.
Qed.

Lemma text_to_nat_fuel : forall fuel n acc, (n < fuel)%nat ->
  text_to_nat (nat_to_text_fuel fuel n acc) 0 = text_to_nat acc n.
Proof.
  induction fuel as [|f IH]; intros n acc L; [lia|]. cbn [nat_to_text_fuel].
  assert (n mod 10 < 10)%nat as D by (apply Nat.mod_upper_bound; lia).
  destruct (digit_val _ D) as [DG DV].
  destruct (n / 10 =? 0)%nat eqn:E.
  - apply Nat.eqb_eq in E. cbn [text_to_nat]. rewrite DG, DV. f_equal.
    pose proof (Nat.div_mod n 10). lia.
  - apply Nat.eqb_neq in E. rewrite IH.
    + cbn [text_to_nat]. rewrite DG, DV. f_equal. pose proof (Nat.div_mod n 10). lia.
    + assert (0 < n)%nat by (destruct n; [cbn in E; congruence|lia]).
      assert (n / 10 < n)%nat by (apply Nat.div_lt; lia). lia.
Qed.

Lemma text_to_nat_nat n : text_to_nat (nat_to_text n) 0 = Some n.
Proof. unfold nat_to_text. rewrite text_to_nat_fuel by lia. reflexivity. Qed.

Definition kinds_ok (t : dtier) : bool :=
  if d_isint t then forallb is_DIb (d_ents t) else forallb (fun e => negb (is_DIb e)) (d_ents t).

Lemma ref_entries_toks tab (isint : bool) : forall ents rest,
  (if isint then forallb is_DIb ents else forallb (fun e => negb (is_DIb e)) ents) = true ->
  ref_entries isint (length ents) (flat_map (toks_entry tab) ents ++ rest) = Some (map (expect_entry tab) ents, rest).
Proof.
  induction ents as [|e ents IH]; intros rest K; [reflexivity|].
  assert ((if isint then forallb is_DIb ents else forallb (fun e => negb (is_DIb e)) ents) = true
          /\ (if isint then is_DIb e else negb (is_DIb e)) = true) as [K' Ke].
  { destruct isint; cbn [forallb] in K; apply andb_prop in K as [? ?]; now split. }
  cbn [length flat_map map]. rewrite <- app_assoc.
  destruct isint; destruct e as [s e' l|t l]; cbn [is_DIb negb] in Ke; try discriminate;
    cbn [toks_entry app ref_entries expect_entry]; now rewrite (IH rest K').
Qed.

Lemma ref_tiers_toks tab : forall tiers rest, forallb kinds_ok tiers = true ->
  ref_tiers (length tiers) (flat_map (toks_tier tab) tiers ++ rest) = Some (map (expect_tier tab) tiers, rest).
Proof.
  induction tiers as [|t tiers IH]; intros rest K; [reflexivity|].
  cbn [forallb] in K. apply andb_prop in K as [Kt K].
  cbn [length flat_map map]. rewrite <- app_assoc. unfold toks_tier at 1. cbn [app ref_tiers].
  assert (text_eqb (class_name (d_isint t)) (T "IntervalTier") = d_isint t) as -> by (destruct (d_isint t); reflexivity).
  assert (d_isint t || text_eqb (class_name (d_isint t)) (T "TextTier") = true) as -> by (destruct (d_isint t); reflexivity).
  rewrite text_to_nat_nat. rewrite (ref_entries_toks tab (d_isint t) _ _ Kt). rewrite (IH rest K). reflexivity.
Qed.

Lemma ref_parse_toks tab g s : tokenize s = Some (toks_tg tab g) -> forallb kinds_ok (dg_tiers g) = true ->
  ref_parse s = Some (expect_tg tab g).
Proof.
  intros TK K. unfold ref_parse. rewrite TK. unfold toks_tg.
  change (text_eqb (T "ooTextFile") (T "ooTextFile") && text_eqb (T "TextGrid") (T "TextGrid")
          && text_eqb (T "<exists>") (T "<exists>")) with true. cbn iota.
  rewrite text_to_nat_nat.
  rewrite <- (app_nil_r (flat_map (toks_tier tab) (dg_tiers g))). rewrite (ref_tiers_toks tab _ [] K). unfold expect_tg. reflexivity.
Qed.

(* the specification reader reads every written short-form file to exactly the data it was
   written from: all names and labels, any number of tiers and entries *)
Theorem ref_parse_short tab g : tg_ref tab g = true -> forallb kinds_ok (dg_tiers g) = true ->
  ref_parse (print_short tab g) = Some (expect_tg tab g).
Proof. intros H K. pose proof (tokenize_short tab g H) as TK. exact (ref_parse_toks tab g _ TK K). Qed.

(* ------------------------------------------------------------------ *)
(* the long form: every keyword, index and punctuation mark is comment   *)

Lemma tokz_num_sp t rest : refnum t = true -> tokz (t ++ SPNL ++ rest) = pre [TNum t] (tokz rest).
Proof.
  intro H. change (SPNL ++ rest) with (32%N :: 10%N :: rest).
  now rewrite (tokz_num t 32%N _ H eq_refl), (tokz_space 10%N rest eq_refl).
Qed.

Lemma tokz_quoted_sp l rest : tokz (quoted l ++ SPNL ++ rest) = pre [TStr l] (tokz rest).
Proof.
  change (SPNL ++ rest) with (32%N :: 10%N :: rest).
  now rewrite (tokz_quoted l 32%N _ eq_refl), (tokz_space 10%N rest eq_refl).
Qed.

Lemma tokz_qcls_sp (b : bool) rest : tokz (Q1 ++ class_name b ++ Q1 ++ SPNL ++ rest) = pre [TStr (class_name b)] (tokz rest).
Proof.
  assert (Q1 ++ class_name b ++ Q1 ++ SPNL ++ rest = quoted (class_name b) ++ SPNL ++ rest) as ->.
  { destruct b; reflexivity. }
  apply tokz_quoted_sp.
Qed.

(* [k]: after a keyword *)
Lemma tokz_index k rest : idx k = true -> tokz ([91%N] ++ k ++ T "]:" ++ NL1 ++ rest) = tokz rest.
Proof.
  intro H.
  replace ([91%N] ++ k ++ T "]:" ++ NL1 ++ rest) with ((91%N :: k ++ T "]:") ++ NL1 ++ rest)
    by (cbn [app]; now rewrite <- app_assoc).
  rewrite tokz_word'.
  - assert (cls (91%N :: k ++ T "]:") = []) as ->; [|apply pre_nil].
    unfold cls. change (91 =? 60)%N with false. cbn [andb].
    rewrite inw_unfold, (strip_minus_ne 91%N _ ltac:(discriminate)). reflexivity.
  - assert (forallb (fun x => negb (isspace x)) (91%N :: k ++ T "]:") = true) as F.
    { change (91%N :: k ++ T "]:") with ([91%N] ++ k ++ T "]:"). now rewrite !forallb_app, (idx_nonspace k H). }
    unfold wordb. rewrite F. reflexivity.
Qed.

Lemma tokz_kw_index kw k rest : commentb 40 kw = true -> idx k = true ->
  tokz (kw ++ [91%N] ++ k ++ T "]:" ++ NL1 ++ rest) = tokz rest.
Proof. intros C H. rewrite (comment_skip 40 kw _ C). apply tokz_index, H. Qed.

Lemma long_entries_toks tab (isint : bool) : forall ents k rest, forallb (times_ref tab) ents = true ->
  tokz (long_entries tab isint k ents ++ rest) = pre (flat_map (toks_entry tab) ents) (tokz rest).
Proof.
  induction ents as [|e ents IH]; intros k rest H; [now rewrite pre_nil|].
  cbn [forallb] in H. apply andb_prop in H as [He H].
  cbn [long_entries flat_map]. destruct e as [s e' l|t l]; cbn [times_ref toks_entry] in *.
  - apply andb_prop in He as [H1 H2]. repeat rewrite <- app_assoc.
    do 2 skipc. change (T "intervals [") with (T "intervals " ++ [91%N]). repeat rewrite <- app_assoc.
    rewrite (tokz_kw_index (T "intervals ") _ _ eq_refl (nat_to_text_idx k)).
    do 4 skipc. rewrite (tokz_num_sp _ _ H1). do 4 skipc. rewrite (tokz_num_sp _ _ H2).
    do 4 skipc. rewrite tokz_quoted_sp. rewrite (IH (S k) rest H). now rewrite !pre_pre.
  - repeat rewrite <- app_assoc.
    do 2 skipc. change (T "points [") with (T "points " ++ [91%N]). repeat rewrite <- app_assoc.
    rewrite (tokz_kw_index (T "points ") _ _ eq_refl (nat_to_text_idx k)).
    do 4 skipc. rewrite (tokz_num_sp _ _ He). do 4 skipc. rewrite tokz_quoted_sp.
    rewrite (IH (S k) rest H). now rewrite !pre_pre.
Qed.

Lemma long_tiers_toks tab : forall tiers k rest, forallb (tier_ref tab) tiers = true ->
  tokz (long_tiers tab k tiers ++ rest) = pre (flat_map (toks_tier tab) tiers) (tokz rest).
Proof.
  induction tiers as [|t tiers IH]; intros k rest H; [now rewrite pre_nil|].
  cbn [forallb] in H. apply andb_prop in H as [Ht H]. unfold tier_ref in Ht.
  apply andb_prop in Ht as [Ht HE]. apply andb_prop in Ht as [H1 H2].
  cbn [long_tiers flat_map]. repeat rewrite <- app_assoc.
  skipc. change (T "item [") with (T "item " ++ [91%N]). repeat rewrite <- app_assoc.
  rewrite (tokz_kw_index (T "item ") _ _ eq_refl (nat_to_text_idx k)).
  do 3 skipc. rewrite tokz_qcls_sp. do 3 skipc. rewrite tokz_quoted_sp.
  do 3 skipc. rewrite (tokz_num_sp _ _ H1). do 3 skipc. rewrite (tokz_num_sp _ _ H2).
  do 2 skipc.
  assert (forall r, tokz ((if d_isint t then T "intervals: size = " else T "points: size = ") ++ r) = tokz r) as SZ.
  { intro r. destruct (d_isint t); now skipc. }
  rewrite SZ. rewrite (tokz_num_sp _ _ (refnum_nat _)).
  rewrite (long_entries_toks tab (d_isint t) _ 1%nat _ HE). rewrite (IH (S k) rest H).
  unfold toks_tier. rewrite !pre_pre. reflexivity.
Qed.

Theorem tokenize_long tab g : tg_ref tab g = true -> tokz (print_long tab g) = Some (toks_tg tab g).
Proof.
  unfold tg_ref. intro H. apply andb_prop in H as [H HT]. apply andb_prop in H as [H1 H2].
  unfold print_long.
  rewrite <- (app_nil_r (long_tiers tab 1 (dg_tiers g))). repeat rewrite <- app_assoc.
  rewrite tokz_header. skipc. rewrite (tokz_num_sp _ _ H1). skipc. rewrite (tokz_num_sp _ _ H2).
  change (T "tiers? <exists> ") with (T "tiers? " ++ T "<exists>" ++ [32%N]). repeat rewrite <- app_assoc.
  skipc. change ([32%N] ++ NL1 ++ ?r) with (32%N :: NL1 ++ r).
  rewrite (tokz_word (T "<exists>") 32%N _ eq_refl eq_refl). change (cls (T "<exists>")) with [TFlag (T "<exists>")].
  change (NL1 ++ ?r) with (10%N :: r) at 1. rewrite (tokz_space 10%N _ eq_refl).
  skipc. rewrite (tokz_num_sp _ _ (refnum_nat _)). skipc.
  change (NL1 ++ ?r) with (10%N :: r) at 1. rewrite (tokz_space 10%N _ eq_refl).
  rewrite (long_tiers_toks tab _ 1%nat [] HT), tokz_nil. cbn [pre]. rewrite !app_nil_r. reflexivity.
Qed.

(* the specification reader reads every written long-form file to exactly the data it was written from *)
Theorem ref_parse_long tab g : tg_ref tab g = true -> forallb kinds_ok (dg_tiers g) = true ->
  ref_parse (print_long tab g) = Some (expect_tg tab g).
Proof. intros H K. exact (ref_parse_toks tab g _ (tokenize_long tab g H) K). Qed.

(* hence both text forms of one textgrid carry the same data for a specification reader *)
Corollary ref_long_short_agree tab g : tg_ref tab g = true -> forallb kinds_ok (dg_tiers g) = true ->
  ref_parse (print_long tab g) = ref_parse (print_short tab g).
Proof. intros H K. now rewrite ref_parse_long, ref_parse_short. Qed.
