(* IO/LongFileProofs.v -- whole-file round trip of the long text form (C01): the regex reader
   applied to what the long writer printed returns the tiers, names, spans and entries, for
   every label, under the decidable side condition that cutting the text at the keywords
   `item [`, `intervals [`, `points [` finds exactly the writer's blocks.  Part 1: number
   fields, keyword search, the name line. *)
From Coq Require Import Lia String.
From PraatIO Require Import IO.IoModel IO.CodecProofs IO.CrlfProofs IO.ShortFileProofs.
Open Scope Z_scope.

Definition EQ : text := [32; 61; 32]%N.
Definition TAB2 : text := TAB ++ TAB.
Definition TAB3 : text := TAB ++ TAB ++ TAB.
Definition allsp (l : text) : bool := forallb (fun c => (c =? 32)%N) l.

(* ------------------------------------------------------------------ *)
(* number tokens                                                       *)

Definition numchar (c : N) : bool :=
  (isdigit_dot c || (c =? 101) || (c =? 69) || (c =? 43) || (c =? 45))%N.

(* digits and dots, then an optional exponent, nothing else *)
Definition numshape (t : text) : bool :=
  forallb numchar t &&
  match take_while isdigit_dot t with
  | ([], _) => false
  | (_, rest) => match exp_part rest with (_, []) => true | _ => false end
  end.

Lemma tw_app p t r : match r with c :: _ => p c = false | [] => True end ->
  take_while p (t ++ r) = (fst (take_while p t), snd (take_while p t) ++ r).
Proof.
  intro H. induction t as [|c t IH]; cbn [app take_while].
  - destruct r as [|c r]; [reflexivity|]. cbn [take_while]. rewrite H. reflexivity.
  - destruct (p c); [|reflexivity]. rewrite IH. destruct (take_while p t). reflexivity.
Qed.

Lemma tw_split p t : t = fst (take_while p t) ++ snd (take_while p t).
Proof.
  induction t as [|c t IH]; [reflexivity|]. cbn [take_while]. destruct (p c); [|reflexivity].
  destruct (take_while p t) as [a b]. cbn [fst snd] in *. cbn [app]. now rewrite <- IH.
Qed.

Lemma tw_all p t : forallb p (fst (take_while p t)) = true.
Proof.
  induction t as [|c t IH]; [reflexivity|]. cbn [take_while]. destruct (p c) eqn:E; [|reflexivity].
  destruct (take_while p t) as [a b]. cbn [fst snd forallb] in *. now rewrite E, IH.
Qed.

(* a character that is neither part of an exponent nor a digit *)
Definition plainc (c : N) : bool :=
  (negb ((c =? 101) || (c =? 69)) && negb ((c =? 45) || (c =? 43)) && negb (isdigit c))%N.

Lemma exp_part_app s c r : plainc c = true ->
  exp_part (s ++ c :: r) = (fst (exp_part s), snd (exp_part s) ++ c :: r).
Proof.
  intro P. unfold plainc in P. apply andb_prop in P as [P Pd]. apply andb_prop in P as [Pe Ps].
  apply negb_true_iff in Pe, Ps, Pd.
  assert (take_while isdigit (c :: r) = ([], c :: r)) as TWc by (cbn [take_while]; now rewrite Pd).
  destruct s as [|e s].
  - cbn [app exp_part]. now rewrite Pe.
  - cbn [app exp_part]. destruct ((e =? 101) || (e =? 69))%N; [|reflexivity].
    destruct s as [|d s'].
    + cbn [app]. rewrite Ps. rewrite TWc. reflexivity.
    + cbn [app]. destruct ((d =? 45) || (d =? 43))%N.
      * rewrite (tw_app isdigit s' (c :: r)) by exact Pd.
        destruct (take_while isdigit s') as [dgs r2]. cbn [fst snd]. destruct dgs; reflexivity.
      * change (d :: s' ++ c :: r) with ((d :: s') ++ c :: r).
        rewrite (tw_app isdigit (d :: s') (c :: r)) by exact Pd.
        destruct (take_while isdigit (d :: s')) as [dgs r2]. cbn [fst snd]. destruct dgs; reflexivity.
Qed.

Lemma exp_split s : s = fst (exp_part s) ++ snd (exp_part s).
Proof.
  destruct s as [|e s]; [reflexivity|]. cbn [exp_part]. destruct ((e =? 101) || (e =? 69))%N; [|reflexivity].
  destruct s as [|d s'].
  - reflexivity.
  - destruct ((d =? 45) || (d =? 43))%N.
    + pose proof (tw_split isdigit s') as SP. destruct (take_while isdigit s') as [dgs r2]. cbn [fst snd] in SP.
      destruct dgs as [|g dgs]; [reflexivity|]. cbn [fst snd app]. f_equal. f_equal. exact SP.
    + pose proof (tw_split isdigit (d :: s')) as SP. destruct (take_while isdigit (d :: s')) as [dgs r2]. cbn [fst snd] in SP.
      destruct dgs as [|g dgs]; [reflexivity|]. cbn [fst snd app]. f_equal. exact SP.
Qed.

Definition strip_minus (s : text) : text := match s with 45%N :: r => r | _ => s end.

Lemma strip_minus_ne c s : c <> 45%N -> strip_minus (c :: s) = c :: s.
Proof.
  intro H. unfold strip_minus. destruct c as [|p]; [reflexivity|].
  do 6 (try (destruct p as [p|p|]; try reflexivity)). congruence.
Qed.

Lemma num_group_unfold neg s :
  num_group neg s =
  (let s0 := if neg then strip_minus s else s in
   let '(run, rest) := take_while isdigit_dot s0 in
   match run with
   | [] => None
   | _ => let '(ex, rest') := exp_part rest in if ws_to_eol rest' then Some (run ++ ex) else None
   end).
Proof. reflexivity. Qed.

(* the number field of a written line: the token itself *)
Theorem num_group_tok neg t rest : numshape t = true -> num_group neg (t ++ 32%N :: 10%N :: rest) = Some t.
Proof.
  unfold numshape. intro H. apply andb_prop in H as [_ H].
  pose proof (tw_split isdigit_dot t) as SP. pose proof (tw_all isdigit_dot t) as AL.
  destruct (take_while isdigit_dot t) as [run rest0] eqn:TW. cbn [fst snd] in *.
  destruct run as [|c0 run']; [discriminate|].
  pose proof (exp_split rest0) as ES.
  destruct (exp_part rest0) as [ex r'] eqn:EP. destruct r'; [|discriminate]. cbn [fst snd] in ES. rewrite app_nil_r in ES.
  cbn [forallb] in AL. apply andb_prop in AL as [A0 _].
  assert (c0 <> 45%N) as NE by (intro; subst; discriminate).
  rewrite num_group_unfold.
  assert ((if neg then strip_minus (t ++ 32%N :: 10%N :: rest) else t ++ 32%N :: 10%N :: rest) = t ++ 32%N :: 10%N :: rest) as ->.
  { destruct neg; [|reflexivity]. rewrite SP. cbn [app]. apply strip_minus_ne, NE. }
  cbv zeta. rewrite (tw_app isdigit_dot t (32%N :: 10%N :: rest)) by reflexivity. rewrite TW. cbn [fst snd].
  rewrite (exp_part_app rest0 32%N (10%N :: rest)) by reflexivity. rewrite EP. cbn [fst snd app].
  cbn [ws_to_eol]. change (32 =? 10)%N with false. change (isspace 32%N) with true. change (10 =? 10)%N with true. cbn iota.
  now rewrite SP, ES.
Qed.

(* on a line that ends with a quote no number field matches: \s*$ meets the quote *)
Lemma ws_to_eol_quote a tail : nonl a = true -> ws_to_eol (a ++ 34%N :: tail) = false.
Proof.
  induction a as [|c a IH]; intro H.
  - reflexivity.
  - unfold nonl in H. cbn [forallb] in H. apply andb_prop in H as [Hc Ha]. apply negb_true_iff in Hc.
    cbn [app ws_to_eol]. rewrite Hc. destruct (isspace c); [apply IH, Ha|reflexivity].
Qed.

Lemma nonl_app a b : nonl (a ++ b) = nonl a && nonl b.
Proof. unfold nonl. apply forallb_app. Qed.

Lemma num_group_quote_line neg a tail : nonl a = true -> num_group neg (a ++ 34%N :: tail) = None.
Proof.
  intro NL. rewrite num_group_unfold.
  assert (exists a', (if neg then strip_minus (a ++ 34%N :: tail) else a ++ 34%N :: tail) = a' ++ 34%N :: tail /\ nonl a' = true)
    as (a' & -> & NL').
  { destruct neg; [|now exists a]. destruct a as [|c a]; [exists []; split; reflexivity|].
    destruct (N.eq_dec c 45) as [->|NE].
    - exists a. split; [reflexivity|]. unfold nonl in *. cbn [forallb] in NL. now apply andb_prop in NL as [_ ?].
    - exists (c :: a). split; [|exact NL]. cbn [app]. apply strip_minus_ne, NE. }
  cbv zeta. rewrite (tw_app isdigit_dot a' (34%N :: tail)) by reflexivity.
  pose proof (tw_split isdigit_dot a') as SP.
  destruct (take_while isdigit_dot a') as [run b]. cbn [fst snd] in *.
  destruct run as [|c0 run']; [reflexivity|].
  rewrite (exp_part_app b 34%N tail) by reflexivity.
  pose proof (exp_split b) as ES. destruct (exp_part b) as [ex b']. cbn [fst snd] in *.
  assert (nonl b' = true) as NB.
  { rewrite SP, nonl_app in NL'. apply andb_prop in NL' as [_ NL']. rewrite ES, nonl_app in NL'. now apply andb_prop in NL' as [_ ?]. }
  now rewrite (ws_to_eol_quote b' tail NB).
Qed.

(* ------------------------------------------------------------------ *)
(* keyword search: positions that cannot start the keyword are skipped  *)

Lemma search_num_unfold kw neg s :
  search_num kw neg s =
  match match_kw_eq kw s with
  | Some r => match num_group neg r with
              | Some g => Some g
              | None => match s with _ :: s' => search_num kw neg s' | [] => None end
              end
  | None => match s with _ :: s' => search_num kw neg s' | [] => None end
  end.
Proof. destruct s; reflexivity. Qed.

Lemma search_quoted_unfold kw dotall s :
  search_quoted kw dotall s =
  match match_kw_eq kw s with
  | Some (34%N :: r) =>
      match quoted_group dotall r [] None with
      | Some g => Some g
      | None => match s with _ :: s' => search_quoted kw dotall s' | [] => None end
      end
  | _ => match s with _ :: s' => search_quoted kw dotall s' | [] => None end
  end.
Proof. destruct s; reflexivity. Qed.

Lemma match_kw_first k0 kw' c s : (k0 =? c)%N = false -> match_kw_eq (k0 :: kw') (c :: s) = None.
Proof. intro H. unfold match_kw_eq. cbn [is_prefix]. now rewrite H. Qed.

Lemma search_num_skip1 kw neg c s : match_kw_eq kw (c :: s) = None -> search_num kw neg (c :: s) = search_num kw neg s.
Proof. intro H. rewrite search_num_unfold, H. reflexivity. Qed.

Lemma search_quoted_skip1 kw d c s : match_kw_eq kw (c :: s) = None -> search_quoted kw d (c :: s) = search_quoted kw d s.
Proof. intro H. rewrite search_quoted_unfold, H. reflexivity. Qed.

Lemma search_num_skipA k0 kw' neg pre s : forallb (fun c => negb (k0 =? c)%N) pre = true ->
  search_num (k0 :: kw') neg (pre ++ s) = search_num (k0 :: kw') neg s.
Proof.
  induction pre as [|c pre IH]; intro H; [reflexivity|]. cbn [forallb] in H. apply andb_prop in H as [Hc Hp].
  apply negb_true_iff in Hc. cbn [app]. rewrite search_num_skip1 by (apply match_kw_first, Hc). apply IH, Hp.
Qed.

Lemma search_quoted_skipA k0 kw' d pre s : forallb (fun c => negb (k0 =? c)%N) pre = true ->
  search_quoted (k0 :: kw') d (pre ++ s) = search_quoted (k0 :: kw') d s.
Proof.
  induction pre as [|c pre IH]; intro H; [reflexivity|]. cbn [forallb] in H. apply andb_prop in H as [Hc Hp].
  apply negb_true_iff in Hc. cbn [app]. rewrite search_quoted_skip1 by (apply match_kw_first, Hc). apply IH, Hp.
Qed.

Lemma skipn_length_app {A} (a b : list A) : skipn (length a) (a ++ b) = b.
Proof. induction a as [|x a IH]; [reflexivity|]. cbn [length app skipn]. exact IH. Qed.

Lemma is_prefix_app a b : is_prefix a (a ++ b) = true.
Proof. apply is_prefix_spec. now exists b. Qed.

(* the keyword, " = ", and what follows *)
Lemma match_kw_hit kw r : match_kw_eq kw (kw ++ EQ ++ r) = Some r.
Proof.
  unfold match_kw_eq. rewrite is_prefix_app, skipn_length_app. unfold EQ. cbn [app opt_sp_then].
  change (61 =? 61)%N with true. cbn iota. unfold opt_sp. reflexivity.
Qed.

Theorem search_num_hit kw neg t rest : numshape t = true ->
  search_num kw neg (kw ++ EQ ++ t ++ 32%N :: 10%N :: rest) = Some t.
Proof. intro H. rewrite search_num_unfold, match_kw_hit, (num_group_tok neg t rest H). reflexivity. Qed.

Theorem search_quoted_hit_dotall kw body tail :
  forallb (fun c => negb (isq c)) tail = true -> ws_to_eol tail = true ->
  search_quoted kw true (kw ++ EQ ++ 34%N :: body ++ 34%N :: tail) = Some body.
Proof.
  intros HT HW. rewrite search_quoted_unfold, match_kw_hit.
  rewrite (quoted_group_body body tail [] None HT HW). reflexivity.
Qed.

Theorem search_quoted_hit_line kw body tail : nonl body = true ->
  forallb (fun c => negb (isq c)) tail = true -> ws_to_eol tail = true ->
  search_quoted kw false (kw ++ EQ ++ 34%N :: body ++ 34%N :: tail) = Some body.
Proof.
  intros HB HT HW. rewrite search_quoted_unfold, match_kw_hit.
  rewrite (quoted_group_line body tail [] None HB HT HW). reflexivity.
Qed.

(* inside a quoted single-line field no number field can match: what follows the keyword on
   that line ends with the closing quote *)
Lemma match_kw_suffix kw s r : match_kw_eq kw s = Some r ->
  exists p, s = kw ++ p ++ r /\ forallb (fun c => (c =? 32)%N || (c =? 61)%N) p = true.
Proof.
  unfold match_kw_eq. destruct (is_prefix kw s) eqn:P; [|discriminate].
  apply is_prefix_spec in P as [s1 ->]. rewrite skipn_length_app.
  intro H.
  destruct s1 as [|c1 s1]; [discriminate|].
  assert (forall r1, Some (opt_sp r1) = Some r ->
                     exists q, r1 = q ++ r /\ forallb (fun c => (c =? 32)%N || (c =? 61)%N) q = true) as OS.
  { intros r1 E. injection E as E. destruct r1 as [|d r1]; [exists []; now subst|].
    destruct (N.eq_dec d 32) as [->|ND].
    - exists [32%N]. now subst.
    - exists []. split; [|reflexivity]. cbn [app]. rewrite <- E. unfold opt_sp.
      destruct d as [|p]; [reflexivity|]. do 6 (try (destruct p as [p|p|]; try reflexivity)). congruence. }
  destruct (N.eq_dec c1 32) as [->|NC].
  - destruct s1 as [|c2 s2].
    + discriminate.
    + cbn [opt_sp_then] in H. destruct (c2 =? 61)%N eqn:E2; [|discriminate]. apply N.eqb_eq in E2. subst c2.
      destruct (OS _ H) as (q & -> & Q). exists (32%N :: 61%N :: q). split; [reflexivity|exact Q].
  - assert (opt_sp_then 61%N (c1 :: s1) = (if (c1 =? 61)%N then Some s1 else None)) as EE.
    { unfold opt_sp_then. destruct c1 as [|p]; [reflexivity|]. do 6 (try (destruct p as [p|p|]; try reflexivity)). congruence. }
    rewrite EE in H. destruct (c1 =? 61)%N eqn:E1; [|discriminate]. apply N.eqb_eq in E1. subst c1.
    destruct (OS _ H) as (q & -> & Q). exists (61%N :: q). split; [reflexivity|exact Q].
Qed.

Lemma prefix_before_quote (p a : text) tail r :
  forallb (fun c => negb (isq c)) p = true -> a ++ 34%N :: tail = p ++ r ->
  exists a', a = p ++ a' /\ r = a' ++ 34%N :: tail.
Proof.
  revert a. induction p as [|c p IH]; intros a NQ E.
  - exists a. split; [reflexivity|]. now rewrite E.
  - cbn [forallb] in NQ. apply andb_prop in NQ as [Nc Np]. apply negb_true_iff in Nc.
    destruct a as [|x a].
    + cbn [app] in E. injection E as E _. subst c. discriminate.
    + cbn [app] in E. injection E as -> E. destruct (IH a Np E) as (a' & -> & ->). now exists a'.
Qed.

Lemma search_num_quoted_line kw neg a tail :
  forallb (fun c => negb (isq c)) kw = true -> nonl a = true ->
  search_num kw neg (a ++ 34%N :: tail) = search_num kw neg (34%N :: tail).
Proof.
  intros KQ. induction a as [|c a IH]; intro NL; [reflexivity|].
  assert (nonl a = true) as NLa by (unfold nonl in *; cbn [forallb] in NL; now apply andb_prop in NL as [_ ?]).
  cbn [app]. rewrite search_num_unfold.
  destruct (match_kw_eq kw (c :: a ++ 34%N :: tail)) as [r|] eqn:M; [|apply IH, NLa].
  apply match_kw_suffix in M as (p & E & P).
  change (c :: a ++ 34%N :: tail) with ((c :: a) ++ 34%N :: tail) in E. rewrite app_assoc in E.
  apply prefix_before_quote in E as (a' & Ea & ->).
  - rewrite num_group_quote_line; [apply IH, NLa|].
    rewrite Ea in NL. rewrite !nonl_app in NL. now apply andb_prop in NL as [_ ?].
  - rewrite forallb_app, KQ. cbn [andb]. apply forallb_forall. intros x Hx. rewrite forallb_forall in P.
    specialize (P x Hx). apply orb_prop in P as [P|P]; apply N.eqb_eq in P; subst; reflexivity.
Qed.

(* ------------------------------------------------------------------ *)
(* the blocks the long writer prints, one entry / one tier header each  *)

Definition idx (j : text) : bool := forallb isdigit j.

Lemma free_of_idx k j : isdigit k = false -> idx j = true -> forallb (fun c => negb (k =? c)%N) j = true.
Proof.
  intros K H. apply forallb_forall. intros x Hx. unfold idx in H. rewrite forallb_forall in H. specialize (H x Hx).
  destruct (N.eqb_spec k x); [subst; congruence|reflexivity].
Qed.

Lemma free_of_num k t : numchar k = false -> numshape t = true -> forallb (fun c => negb (k =? c)%N) t = true.
Proof.
  intros K H. unfold numshape in H. apply andb_prop in H as [H _].
  apply forallb_forall. intros x Hx. rewrite forallb_forall in H. specialize (H x Hx).
  destruct (N.eqb_spec k x); [subst; congruence|reflexivity].
Qed.

Lemma free_of_sp k t : (k =? 32)%N = false -> allsp t = true -> forallb (fun c => negb (k =? c)%N) t = true.
Proof.
  intros K H. apply forallb_forall. intros x Hx. unfold allsp in H. rewrite forallb_forall in H. specialize (H x Hx).
  apply N.eqb_eq in H. subst. now rewrite K.
Qed.

Lemma search_num_skipW kw neg c w s : match_kw_eq kw ((c :: w) ++ s) = None ->
  search_num kw neg ((c :: w) ++ s) = search_num kw neg (w ++ s).
Proof. intro H. cbn [app] in *. now apply search_num_skip1. Qed.

Lemma search_quoted_skipW kw d c w s : match_kw_eq kw ((c :: w) ++ s) = None ->
  search_quoted kw d ((c :: w) ++ s) = search_quoted kw d (w ++ s).
Proof. intro H. cbn [app] in *. now apply search_quoted_skip1. Qed.

Lemma search_num_hit' kw neg t rest : numshape t = true ->
  search_num kw neg (kw ++ EQ ++ t ++ SPNL ++ rest) = Some t.
Proof. apply search_num_hit. Qed.

Lemma tail_ok trail : allsp trail = true ->
  forallb (fun c => negb (isq c)) (SPNL ++ trail) = true /\ ws_to_eol (SPNL ++ trail) = true.
Proof.
  intro H. split; [|reflexivity]. rewrite forallb_app. rewrite andb_true_iff. split; [reflexivity|].
  apply forallb_forall. intros x Hx. unfold allsp in H. rewrite forallb_forall in H. specialize (H x Hx).
  apply N.eqb_eq in H. now subst.
Qed.

Lemma search_quoted_hit' kw body trail : allsp trail = true ->
  search_quoted kw true (kw ++ EQ ++ Q1 ++ body ++ Q1 ++ SPNL ++ trail) = Some body.
Proof. intro H. destruct (tail_ok trail H) as [A B]. exact (search_quoted_hit_dotall kw body _ A B). Qed.

Lemma search_num_skipP kw neg pre s : kw <> [] -> forallb (fun c => negb (hd 0%N kw =? c)%N) pre = true ->
  search_num kw neg (pre ++ s) = search_num kw neg s.
Proof. destruct kw as [|k0 kw']; [congruence|]. intros _. apply search_num_skipA. Qed.

Lemma search_quoted_skipP kw d pre s : kw <> [] -> forallb (fun c => negb (hd 0%N kw =? c)%N) pre = true ->
  search_quoted kw d (pre ++ s) = search_quoted kw d s.
Proof. destruct kw as [|k0 kw']; [congruence|]. intros _. apply search_quoted_skipA. Qed.

Ltac side :=
  first [ reflexivity
        | apply free_of_idx; [reflexivity|assumption]
        | apply free_of_num; [reflexivity|assumption]
        | apply free_of_sp; [reflexivity|assumption] ].
Ltac skipn := rewrite search_num_skipP by (first [discriminate | side]).
Ltac skipq := rewrite search_quoted_skipP by (first [discriminate | side]).

Definition ichunk (j N1 N2 lab : text) : text :=
  j ++ T "]:" ++ NL1 ++ TAB3 ++ T "xmin" ++ EQ ++ N1 ++ SPNL ++ TAB3 ++ T "xmax" ++ EQ ++ N2 ++ SPNL
    ++ TAB3 ++ T "text" ++ EQ ++ Q1 ++ esc lab ++ Q1 ++ SPNL.

Definition pchunk (j N1 lab : text) : text :=
  j ++ T "]:" ++ NL1 ++ TAB3 ++ T "number" ++ EQ ++ N1 ++ SPNL
    ++ TAB3 ++ T "mark" ++ EQ ++ Q1 ++ esc lab ++ Q1 ++ SPNL.

Theorem parse_ichunk j N1 N2 lab trail :
  idx j = true -> numshape N1 = true -> numshape N2 = true -> allsp trail = true ->
  parse_long_interval (ichunk j N1 N2 lab ++ trail) = Ok (RI N1 N2 (strip lab)).
Proof.
  intros HJ H1 H2 HT. unfold parse_long_interval, ichunk. repeat rewrite <- app_assoc.
  (* xmin *)
  do 4 skipn. rewrite search_num_hit' by assumption. cbn [req bind].
  (* xmax *)
  do 4 skipn. rewrite (search_num_skipW (T "xmax") false 120%N (T "min")) by reflexivity.
  do 5 skipn. rewrite search_num_hit' by assumption. cbn [req bind].
  (* text *)
  do 14 skipq. rewrite search_quoted_hit' by assumption. cbn [req bind].
  now rewrite strip_esc, unesc_esc.
Qed.

Theorem parse_pchunk j N1 lab trail :
  idx j = true -> numshape N1 = true -> allsp trail = true ->
  parse_long_point true (pchunk j N1 lab ++ trail) = Ok (RP N1 (strip lab)).
Proof.
  intros HJ H1 HT. unfold parse_long_point, pchunk. repeat rewrite <- app_assoc.
  (* number *)
  do 4 skipn. rewrite search_num_hit' by assumption. cbn [req bind].
  (* mark: the keyword number contains an m *)
  do 4 skipq.
  change (T "number") with ([110; 117]%N ++ (109%N :: T "ber")). repeat rewrite <- app_assoc.
  skipq. rewrite (search_quoted_skipW (T "mark") true 109%N (T "ber")) by reflexivity.
  do 5 skipq. rewrite search_quoted_hit' by assumption. cbn [req bind].
  now rewrite strip_esc, unesc_esc.
Qed.

(* the head of a tier block: class, name, span, size line *)
Definition thead (j : text) (isint : bool) (name N1 N2 n : text) : text :=
  j ++ T "]:" ++ NL1
    ++ TAB2 ++ T "class" ++ EQ ++ Q1 ++ class_name isint ++ Q1 ++ SPNL
    ++ TAB2 ++ T "name" ++ EQ ++ Q1 ++ esc name ++ Q1 ++ SPNL
    ++ TAB2 ++ T "xmin" ++ EQ ++ N1 ++ SPNL
    ++ TAB2 ++ T "xmax" ++ EQ ++ N2 ++ SPNL
    ++ TAB2 ++ (if isint then T "intervals: size = " else T "points: size = ") ++ n ++ SPNL.

Lemma esc_nonl l : nonl l = true -> nonl (esc l) = true.
Proof.
  induction l as [|c l IH]; intro H; [reflexivity|]. unfold nonl in *. cbn [forallb] in H. apply andb_prop in H as [Hc Hl].
  cbn [esc]. destruct (c =? 34)%N eqn:E.
  - apply N.eqb_eq in E. subst. cbn [forallb]. change (negb (34 =? 10)%N) with true. cbn [andb]. apply IH, Hl.
  - cbn [forallb]. rewrite Hc. cbn [andb]. apply IH, Hl.
Qed.

Lemma search_quoted_hit_line' kw body rest : nonl body = true ->
  search_quoted kw false (kw ++ EQ ++ Q1 ++ body ++ Q1 ++ SPNL ++ rest) = Some body.
Proof.
  intro HB. rewrite search_quoted_unfold, match_kw_hit. cbn [Q1 app].
  (* the single-line group stops at the end of its line: what follows is irrelevant *)
  assert (forall b acc best, nonl b = true ->
            quoted_group false (b ++ 34%N :: 32%N :: 10%N :: rest) acc best = Some (rev acc ++ b)) as G.
  { induction b as [|c b IH]; intros acc best NB.
    - cbn [app quoted_group]. change (34 =? 10)%N with false. cbn [andb]. change (isq 34%N) with true.
      change (ws_to_eol (32%N :: 10%N :: rest)) with true. cbn [andb].
      change (isq 32%N) with false. change (32 =? 10)%N with false. cbn [andb].
      change (10 =? 10)%N with true. cbn [andb negb]. now rewrite app_nil_r.
    - unfold nonl in NB. cbn [forallb] in NB. apply andb_prop in NB as [Hc NB]. apply negb_true_iff in Hc.
      cbn [app quoted_group]. rewrite Hc. cbn [andb]. rewrite IH by exact NB. cbn [rev]. now rewrite <- app_assoc. }
  change (SPNL ++ rest) with (32%N :: 10%N :: rest). rewrite (G body [] None HB). reflexivity.
Qed.

Theorem thead_fields j isint name N1 N2 n trail :
  idx j = true -> nonl name = true -> numshape N1 = true -> numshape N2 = true ->
  let h := thead j isint name N1 N2 n ++ trail in
  search_quoted (T "name") false h = Some (esc name)
  /\ search_num (T "xmin") true h = Some N1
  /\ search_num (T "xmax") false h = Some N2.
Proof.
  intros HJ HN H1 H2 h. subst h. unfold thead. repeat rewrite <- app_assoc.
  pose proof (esc_nonl name HN) as HE.
  split; [|split].
  - (* name: the class line is skipped *)
    do 7 skipq.
    assert (forall r, search_quoted (T "name") false (class_name isint ++ r) = search_quoted (T "name") false r) as CN.
    { intro r. destruct isint; unfold class_name.
      - change (T "IntervalTier") with ([73%N] ++ (110%N :: T "tervalTier")). repeat rewrite <- app_assoc.
        skipq. rewrite (search_quoted_skipW (T "name") false 110%N (T "tervalTier")) by reflexivity. now skipq.
      - now skipq. }
    rewrite CN. do 3 skipq. now rewrite search_quoted_hit_line'.
  - (* xmin: class line, then the quoted name line *)
    do 7 skipn.
    assert (forall r, search_num (T "xmin") true (class_name isint ++ r) = search_num (T "xmin") true r) as CN.
    { intro r. destruct isint; unfold class_name.
      - now skipn.
      - change (T "TextTier") with ([84; 101]%N ++ (120%N :: T "tTier")). repeat rewrite <- app_assoc.
        skipn. rewrite (search_num_skipW (T "xmin") true 120%N (T "tTier")) by reflexivity. now skipn. }
    rewrite CN. do 5 skipn.
    change (Q1 ++ esc name ++ Q1 ++ SPNL ++ TAB2 ++ T "xmin" ++ EQ ++ N1 ++ SPNL ++ TAB2 ++ T "xmax" ++ EQ ++ N2 ++ SPNL ++ TAB2
            ++ (if isint then T "intervals: size = " else T "points: size = ") ++ n ++ SPNL ++ trail)
      with ([34%N] ++ esc name ++ 34%N :: (SPNL ++ TAB2 ++ T "xmin" ++ EQ ++ N1 ++ SPNL ++ TAB2 ++ T "xmax" ++ EQ ++ N2 ++ SPNL ++ TAB2
            ++ (if isint then T "intervals: size = " else T "points: size = ") ++ n ++ SPNL ++ trail)).
    skipn. rewrite search_num_quoted_line by (first [reflexivity|assumption]).
    change (34%N :: SPNL ++ ?r) with ([34%N] ++ SPNL ++ r). do 3 skipn. now rewrite search_num_hit'.
  - do 7 skipn.
    assert (forall r, search_num (T "xmax") false (class_name isint ++ r) = search_num (T "xmax") false r) as CN.
    { intro r. destruct isint; unfold class_name.
      - now skipn.
      - change (T "TextTier") with ([84; 101]%N ++ (120%N :: T "tTier")). repeat rewrite <- app_assoc.
        skipn. rewrite (search_num_skipW (T "xmax") false 120%N (T "tTier")) by reflexivity. now skipn. }
    rewrite CN. do 5 skipn.
    change (Q1 ++ esc name ++ Q1 ++ SPNL ++ TAB2 ++ T "xmin" ++ EQ ++ N1 ++ SPNL ++ TAB2 ++ T "xmax" ++ EQ ++ N2 ++ SPNL ++ TAB2
            ++ (if isint then T "intervals: size = " else T "points: size = ") ++ n ++ SPNL ++ trail)
      with ([34%N] ++ esc name ++ 34%N :: (SPNL ++ TAB2 ++ T "xmin" ++ EQ ++ N1 ++ SPNL ++ TAB2 ++ T "xmax" ++ EQ ++ N2 ++ SPNL ++ TAB2
            ++ (if isint then T "intervals: size = " else T "points: size = ") ++ n ++ SPNL ++ trail)).
    skipn. rewrite search_num_quoted_line by (first [reflexivity|assumption]).
    change (34%N :: SPNL ++ ?r) with ([34%N] ++ SPNL ++ r). do 3 skipn.
    rewrite (search_num_skipW (T "xmax") false 120%N (T "min")) by reflexivity.
    do 5 skipn. now rewrite search_num_hit'.
Qed.

(* ------------------------------------------------------------------ *)
(* a tier block, the file                                               *)

From Coq Require Import ZifyBool ZifyN.

Lemma numchar_plain c : numchar c = true -> negb (isspace c) && negb (isq c) = true.
Proof. unfold numchar, isdigit_dot, isspace, isq. lia. Qed.

Lemma numshape_plain t : numshape t = true -> plain_tok t = true.
Proof.
  intro H. unfold numshape in H. apply andb_prop in H as [A B]. unfold plain_tok.
  destruct t as [|c t]; [discriminate B|].
  apply forallb_forall. intros x Hx. rewrite forallb_forall in A. apply numchar_plain, A, Hx.
Qed.

Lemma digit_isdigit d : (d < 10)%nat -> isdigit (digit d) = true.
Proof. intro H. unfold digit. do 10 (destruct d as [|d]; [reflexivity|]). lia. Qed.

Lemma nat_to_text_fuel_idx fuel : forall n acc, idx acc = true -> idx (nat_to_text_fuel fuel n acc) = true.
Proof.
  induction fuel as [|f IH]; intros n acc A; cbn [nat_to_text_fuel]; [exact A|].
  assert (n mod 10 < 10)%nat as D by (apply Nat.mod_upper_bound; lia).
  assert (idx (digit (n mod 10) :: acc) = true) as A' by (unfold idx in *; cbn [forallb]; now rewrite (digit_isdigit _ D)).
  destruct (n / 10 =? 0)%nat; [exact A'|apply IH, A'].
Qed.

Lemma nat_to_text_idx n : idx (nat_to_text n) = true.
Proof. apply nat_to_text_fuel_idx. reflexivity. Qed.

Definition chunk_like (exp act : text) : bool := is_prefix exp act && allsp (skipn (length exp) act).

Lemma chunk_like_spec exp act : chunk_like exp act = true -> exists trail, act = exp ++ trail /\ allsp trail = true.
Proof.
  unfold chunk_like. intro H. apply andb_prop in H as [P S]. apply is_prefix_spec in P as [s ->].
  rewrite skipn_length_app in S. now exists s.
Qed.

Definition echunk (tab : numtab) (j : nat) (e : dentry) : text :=
  match e with
  | DI s e' lab => ichunk (nat_to_text j) (num_str (lookup tab s)) (num_str (lookup tab e')) lab
  | DP t lab => pchunk (nat_to_text j) (num_str (lookup tab t)) lab
  end.

Definition times_num (tab : numtab) (e : dentry) : bool :=
  match e with
  | DI s e' _ => numshape (num_str (lookup tab s)) && numshape (num_str (lookup tab e'))
  | DP t _ => numshape (num_str (lookup tab t))
  end.

Fixpoint chunks_match {A} (f : nat -> A -> text) (k : nat) (l : list A) (cs : list text) : bool :=
  match l, cs with
  | [], [] => true
  | x :: l', c :: cs' => chunk_like (f k x) c && chunks_match f (S k) l' cs'
  | _, _ => false
  end.

Lemma entries_chunks tab (isint : bool) : forall ents k ecs,
  chunks_match (echunk tab) k ents ecs = true -> forallb (times_num tab) ents = true ->
  (if isint then forallb is_DIb ents else forallb (fun e => negb (is_DIb e)) ents) = true ->
  mapM_r (if isint then parse_long_interval else parse_long_point true) ecs = Ok (map (rd_entry tab) ents).
Proof.
  induction ents as [|e ents IH]; intros k ecs CM TN KD.
  - destruct ecs; [reflexivity|discriminate].
  - destruct ecs as [|c ecs]; [discriminate|]. cbn [chunks_match] in CM. apply andb_prop in CM as [CL CM].
    cbn [forallb] in TN. apply andb_prop in TN as [Te TN].
    apply chunk_like_spec in CL as (trail & -> & SP).
    assert ((if isint then forallb is_DIb ents else forallb (fun e => negb (is_DIb e)) ents) = true
            /\ (if isint then is_DIb e else negb (is_DIb e)) = true) as [KD' Ke].
    { destruct isint; cbn [forallb] in KD; apply andb_prop in KD as [? ?]; now split. }
    cbn [mapM_r map]. specialize (IH (S k) ecs CM TN KD').
    destruct isint; destruct e as [s e' lab|t lab]; cbn [is_DIb negb] in Ke; try discriminate; cbn [echunk rd_entry times_num] in *.
    + apply andb_prop in Te as [T1 T2].
      rewrite (parse_ichunk _ _ _ lab trail (nat_to_text_idx k) T1 T2 SP). cbn [bind]. now rewrite IH.
    + rewrite (parse_pchunk _ _ lab trail (nat_to_text_idx k) Te SP). cbn [bind]. now rewrite IH.
Qed.

Definition rd_tier_long (tab : numtab) (t : dtier) : rtier :=
  mkRT (d_isint t) (d_name t) (num_str (lookup tab (d_xmin t))) (num_str (lookup tab (d_xmax t)))
       (map (rd_entry tab) (d_ents t)).

Definition rd_tg_long (tab : numtab) (g : dtg) : rtg :=
  mkRTG (num_str (lookup tab (dg_xmin g))) (num_str (lookup tab (dg_xmax g))) (map (rd_tier_long tab) (dg_tiers g)).

(* side condition for one tier block: cutting it at its entry keyword finds the head and the entries *)
Definition ltier_ok (tab : numtab) (k : nat) (t : dtier) (tc : text) : bool :=
  Bool.eqb (has_sub CLASS_INT tc) (d_isint t)
  && match re_split (if d_isint t then T "intervals" else T "points") tc with
     | th :: ecs =>
         chunk_like (thead (nat_to_text k) (d_isint t) (d_name t) (num_str (lookup tab (d_xmin t)))
                           (num_str (lookup tab (d_xmax t))) (nat_to_text (length (d_ents t)))) th
         && chunks_match (echunk tab) 1 (d_ents t) ecs
     | [] => false
     end
  && nonl (d_name t) && numshape (num_str (lookup tab (d_xmin t))) && numshape (num_str (lookup tab (d_xmax t)))
  && forallb (times_num tab) (d_ents t)
  && (if d_isint t then forallb is_DIb (d_ents t) else forallb (fun e => negb (is_DIb e)) (d_ents t)).

Theorem parse_long_tier_block tab k t tc : ltier_ok tab k t tc = true ->
  parse_long_tier true tc = Ok (rd_tier_long tab t).
Proof.
  unfold ltier_ok. intro H.
  apply andb_prop in H as [H KD]. apply andb_prop in H as [H TN]. apply andb_prop in H as [H N2].
  apply andb_prop in H as [H N1]. apply andb_prop in H as [H NN]. apply andb_prop in H as [HC H].
  apply Bool.eqb_prop in HC. unfold parse_long_tier. rewrite HC.
  destruct (re_split (if d_isint t then T "intervals" else T "points") tc) as [|th ecs]; [discriminate|].
  apply andb_prop in H as [TH CM]. apply chunk_like_spec in TH as (trail & -> & SP).
  destruct (thead_fields (nat_to_text k) (d_isint t) (d_name t) _ _ (nat_to_text (length (d_ents t))) trail
              (nat_to_text_idx k) NN N1 N2) as (F1 & F2 & F3).
  rewrite F1, F2, F3. cbn [req bind].
  rewrite (entries_chunks tab (d_isint t) _ _ _ CM TN KD). cbn [bind]. unfold rd_tier_long. now rewrite unesc_esc.
Qed.

Fixpoint tiers_match (tab : numtab) (k : nat) (l : list dtier) (tcs : list text) : bool :=
  match l, tcs with
  | [], [] => true
  | t :: l', c :: cs => ltier_ok tab k t c && tiers_match tab (S k) l' cs
  | _, _ => false
  end.

Lemma tiers_blocks tab : forall tiers k tcs, tiers_match tab k tiers tcs = true ->
  mapM_r (parse_long_tier true) tcs = Ok (map (rd_tier_long tab) tiers).
Proof.
  induction tiers as [|t tiers IH]; intros k tcs H.
  - destruct tcs; [reflexivity|discriminate].
  - destruct tcs as [|c tcs]; [discriminate|]. cbn [tiers_match] in H. apply andb_prop in H as [Ht H].
    cbn [mapM_r map]. rewrite (parse_long_tier_block tab k t c Ht). cbn [bind]. now rewrite (IH _ _ H).
Qed.

(* the text before `item []` *)
Definition lhead (tab : numtab) (g : dtg) : text :=
  HEADER ++ T "xmin = " ++ num_str (lookup tab (dg_xmin g)) ++ SPNL
    ++ T "xmax = " ++ num_str (lookup tab (dg_xmax g)) ++ SPNL
    ++ T "tiers? <exists> " ++ NL1 ++ T "size = " ++ nat_to_text (length (dg_tiers g)) ++ SPNL.

Lemma split_on_line sep line rest : forallb (fun c => negb (c =? sep)%N) line = true ->
  split_on sep (line ++ sep :: rest) = line :: split_on sep rest.
Proof.
  induction line as [|c line IH]; intro H.
  - cbn [app split_on]. now rewrite N.eqb_refl.
  - cbn [forallb] in H. apply andb_prop in H as [Hc Hl]. apply negb_true_iff in Hc.
    cbn [app split_on]. rewrite Hc, (IH Hl). reflexivity.
Qed.

Lemma rstrip_snoc t c : isspace c = true -> rstrip (t ++ [c]) = rstrip t.
Proof. intro H. unfold rstrip. rewrite rev_unit. cbn [lstrip]. now rewrite H. Qed.

Lemma strip_padded t : plain_tok t = true -> strip (32%N :: t ++ [32%N]) = t.
Proof.
  intro P. pose proof P as P'. unfold plain_tok in P. destruct t as [|c t]; [discriminate|].
  assert (isspace c = false) as Hc.
  { cbn [forallb] in P. apply andb_prop in P as [P _]. apply andb_prop in P as [P _]. now apply negb_true_iff in P. }
  unfold strip. cbn [lstrip]. change (isspace 32%N) with true. cbn iota.
  rewrite (lstrip_noop ((c :: t) ++ [32%N])) by exact Hc.
  rewrite rstrip_snoc by reflexivity.
  transitivity (strip (c :: t)).
  - unfold strip. now rewrite (lstrip_noop (c :: t)) by exact Hc.
  - apply strip_plain. exact P.
Qed.

Lemma header_value_line kw t : forallb (fun c => negb (c =? 61)%N) kw = true -> numshape t = true ->
  header_value (kw ++ 61%N :: 32%N :: t ++ [32%N]) = Ok t.
Proof.
  intros K H. unfold header_value. rewrite (split_on_line 61%N kw _ K).
  assert (forallb (fun c => negb (c =? 61)%N) (32%N :: t ++ [32%N]) = true) as F.
  { cbn [forallb]. change (negb (32 =? 61)%N) with true. cbn [andb]. rewrite forallb_app. cbn [forallb].
    change (negb (32 =? 61)%N) with true. rewrite !andb_true_r.
    pose proof (free_of_num 61%N t eq_refl H) as Fr. apply forallb_forall. intros x Hx. rewrite forallb_forall in Fr.
    specialize (Fr x Hx). now rewrite N.eqb_sym. }
  assert (split_on 61%N (32%N :: t ++ [32%N]) = [32%N :: t ++ [32%N]]) as ->.
  { generalize dependent (32%N :: t ++ [32%N]). intros l Hl. induction l as [|c l IH]; [reflexivity|].
    cbn [forallb] in Hl. apply andb_prop in Hl as [Hc Hl]. apply negb_true_iff in Hc. cbn [split_on]. now rewrite Hc, (IH Hl). }
  f_equal. apply strip_padded, numshape_plain, H.
Qed.

Lemma kwline (kw t rest : text) :
  (kw ++ 61%N :: 32%N :: t ++ [32%N]) ++ 10%N :: rest = kw ++ 61%N :: 32%N :: t ++ 32%N :: 10%N :: rest.
Proof. rewrite <- app_assoc. cbn [app]. now rewrite <- app_assoc. Qed.

Lemma lhead_lines tab g :
  numshape (num_str (lookup tab (dg_xmin g))) = true -> numshape (num_str (lookup tab (dg_xmax g))) = true ->
  nth_error (split_nl (lhead tab g)) 3 = Some (T "xmin " ++ 61%N :: 32%N :: num_str (lookup tab (dg_xmin g)) ++ [32%N])
  /\ nth_error (split_nl (lhead tab g)) 4 = Some (T "xmax " ++ 61%N :: 32%N :: num_str (lookup tab (dg_xmax g)) ++ [32%N]).
Proof.
  intros A B. unfold lhead, HEADER, SPNL, NL1.
  set (a := num_str (lookup tab (dg_xmin g))) in *. set (b := num_str (lookup tab (dg_xmax g))) in *.
  replace ((T "File type = ""ooTextFile""" ++ [10%N] ++ T "Object class = ""TextGrid""" ++ [10%N] ++ [10%N])
           ++ T "xmin = " ++ a ++ (T " " ++ [10%N]) ++ T "xmax = " ++ b ++ (T " " ++ [10%N])
           ++ T "tiers? <exists> " ++ [10%N] ++ T "size = " ++ nat_to_text (length (dg_tiers g)) ++ T " " ++ [10%N])
    with (T "File type = ""ooTextFile""" ++ 10%N :: (T "Object class = ""TextGrid""" ++ 10%N :: ([] ++ 10%N ::
          ((T "xmin " ++ 61%N :: 32%N :: a ++ [32%N]) ++ 10%N :: ((T "xmax " ++ 61%N :: 32%N :: b ++ [32%N]) ++ 10%N ::
          (T "tiers? <exists> " ++ 10%N :: ((T "size = " ++ nat_to_text (length (dg_tiers g)) ++ T " ") ++ 10%N :: [])))))))
    by (rewrite !kwline; repeat rewrite <- app_assoc; reflexivity).
  assert (forall t, numshape t = true -> forall kw, nonl kw = true -> nonl (kw ++ 61%N :: 32%N :: t ++ [32%N]) = true) as NLK.
  { intros t Ht kw Hk. rewrite nonl_app, Hk. cbn [andb]. unfold nonl. cbn [forallb]. change (negb (61 =? 10)%N) with true.
    change (negb (32 =? 10)%N) with true. cbn [andb]. rewrite forallb_app. cbn [forallb]. change (negb (32 =? 10)%N) with true.
    rewrite !andb_true_r. exact (plain_nonl _ (numshape_plain _ Ht)). }
  rewrite split_nl_line by reflexivity. rewrite split_nl_line by reflexivity. rewrite split_nl_line by reflexivity.
  rewrite (split_nl_line _ _ (NLK a A (T "xmin ") eq_refl)), (split_nl_line _ _ (NLK b B (T "xmax ") eq_refl)).
  split; reflexivity.
Qed.

(* side condition for the file: cutting it at `item [` finds the header and the tier blocks *)
Definition lfile_ok (tab : numtab) (g : dtg) : bool :=
  match re_split (T "item") (print_long tab g) with
  | h :: _ :: tcs => text_eqb h (lhead tab g) && tiers_match tab 1 (dg_tiers g) tcs
  | _ => false
  end
  && numshape (num_str (lookup tab (dg_xmin g))) && numshape (num_str (lookup tab (dg_xmax g))).

(* the whole file *)
Theorem parse_long_printed tab g :
  lfile_ok tab g = true ->
  forallb (fun c => negb (c =? 13)%N) (print_long tab g) = true ->
  parse_long true (print_long tab g) = Ok (rd_tg_long tab g).
Proof.
  intros OK CR. unfold lfile_ok in OK. apply andb_prop in OK as [OK B]. apply andb_prop in OK as [OK A].
  unfold parse_long. rewrite (crlf_nocr _ CR).
  destruct (re_split (T "item") (print_long tab g)) as [|h [|x tcs]]; try discriminate.
  apply andb_prop in OK as [HH TM]. apply text_eqb_eq in HH. subst h.
  destruct (lhead_lines tab g A B) as [L3 L4]. rewrite L3, L4.
  rewrite (header_value_line (T "xmin ") _ eq_refl A). cbn [bind].
  rewrite (header_value_line (T "xmax ") _ eq_refl B). cbn [bind].
  rewrite (tiers_blocks tab _ _ _ TM). reflexivity.
Qed.

(* with trimmed names the two text forms of one textgrid are read back as the same data *)
Corollary long_short_agree tab g :
  forallb (fun t => strippedb (d_name t)) (dg_tiers g) = true ->
  rd_tg_long tab g = rd_tg tab g.
Proof.
  intro H. unfold rd_tg_long, rd_tg. f_equal. apply map_ext_in. intros t Ht.
  rewrite forallb_forall in H. specialize (H t Ht). apply strippedb_spec in H.
  unfold rd_tier_long, rd_tier. now rewrite H.
Qed.
