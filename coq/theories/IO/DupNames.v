(* IO/DupNames.v -- duplicate tier names on opening (praatio/textgrid.py openTextgrid). *)
From Coq Require Import Lia.
From PraatIO Require Export IO.Str.

Definition name_mem (n : text) (l : list text) : bool := existsb (text_eqb n) l.

(* newName = name; i = 2; while newName in tierNames: newName = name_i; i += 1 *)
Fixpoint fresh (fuel : nat) (name : text) (i : nat) (used : list text) : option text :=
  match fuel with
  | O => None
  | S f => let cand := name ++ [95%N] ++ nat_to_text i in
           if name_mem cand used then fresh f name (S i) used else Some cand
  end.

Inductive dupmode := DupError | DupRename.

(* the loop over the tiers of the file: names already handed out, in file order *)
Fixpoint open_names (mode : dupmode) (names : list text) (used : list text) : res (list text) :=
  match names with
  | [] => Ok (rev used)
  | n :: rest =>
      if name_mem n used then
        match mode with
        | DupError => Err DuplicateTierName
        | DupRename =>
            match fresh (S (length used)) n 2 used with
            | Some n' => open_names mode rest (n' :: used)
            | None => Err PyError          (* fuel exhausted: not reachable, see the check *)
            end
        end
      else open_names mode rest (n :: used)
  end.

Lemma name_mem_In n l : name_mem n l = true <-> In n l.
Proof.
  unfold name_mem. rewrite existsb_exists. split.
  - intros (x & Hx & E). apply text_eqb_eq in E. now subst.
  - intro H. exists n. split; [exact H|apply text_eqb_refl].
Qed.

Lemma fresh_not_used fuel name i used n' : fresh fuel name i used = Some n' -> ~ In n' used.
Proof.
  revert i; induction fuel as [|f IH]; intro i; simpl; [discriminate|].
  destruct (name_mem (name ++ 95%N :: nat_to_text i) used) eqn:E.
  - apply IH.
  - intros [= <-]. intro H. apply name_mem_In in H. simpl in H. congruence.
Qed.

Lemma open_names_nodup mode names : forall used out,
  NoDup used -> open_names mode names used = Ok out -> NoDup out.
Proof.
  induction names as [|n rest IH]; intros used out ND; cbn [open_names].
  - intros [= <-]. now apply NoDup_rev.
  - destruct (name_mem n used) eqn:E.
    + destruct mode; [discriminate|].
      destruct (fresh (S (length used)) n 2 used) as [n'|] eqn:F; [|discriminate].
      apply IH. constructor; [eapply fresh_not_used, F|exact ND].
    + apply IH. constructor; [|exact ND]. intro H. apply name_mem_In in H. congruence.
Qed.

Lemma open_names_length mode names : forall used out,
  open_names mode names used = Ok out -> length out = (length used + length names)%nat.
Proof.
  induction names as [|n rest IH]; intros used out; cbn [open_names].
  - intros [= <-]. rewrite rev_length. simpl. lia.
  - destruct (name_mem n used).
    + destruct mode; [discriminate|]. destruct (fresh _ n 2 used); [|discriminate].
      intro H. apply IH in H. simpl in H |- *. lia.
    + intro H. apply IH in H. simpl in H |- *. lia.
Qed.

(* no duplicates in the file: every name is kept, whatever the mode *)
Lemma open_names_nodup_id mode names : forall used,
  NoDup (rev used ++ names) -> open_names mode names used = Ok (rev used ++ names).
Proof.
  induction names as [|n rest IH]; intros used ND; cbn [open_names].
  - now rewrite app_nil_r.
  - assert (name_mem n used = false) as ->.
    { destruct (name_mem n used) eqn:E; [|reflexivity]. apply name_mem_In in E.
      apply NoDup_remove_2 in ND. exfalso. apply ND. apply in_or_app. left. now apply in_rev in E. }
    rewrite IH; simpl; rewrite <- app_assoc; [reflexivity|exact ND].
Qed.

(* error mode raises exactly when some name occurs twice *)
Lemma open_names_error_iff names : forall used, NoDup used ->
  (open_names DupError names used = Err DuplicateTierName <-> ~ NoDup (rev used ++ names)).
Proof.
  induction names as [|n rest IH]; intros used ND; cbn [open_names].
  - rewrite app_nil_r. split; [discriminate|]. intro H. exfalso. apply H. now apply NoDup_rev.
  - destruct (name_mem n used) eqn:E.
    + split; [|reflexivity]. intros _ H. apply NoDup_remove_2 in H. apply H.
      apply in_or_app. left. apply name_mem_In in E. now apply in_rev in E.
    + assert (NoDup (n :: used)) as ND'.
      { constructor; [|exact ND]. intro H. apply name_mem_In in H. congruence. }
      rewrite (IH _ ND'). simpl. rewrite <- app_assoc. reflexivity.
Qed.
