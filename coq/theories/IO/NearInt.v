(* IO/NearInt.v -- my_math.numToStr's choice of form, on exact rationals: a non-negative time x = n/d is written as the
   integer int(x) when x - int(x) <= 1e-14 * max(x, int(x)) = 1e-14 * x (isclose with its default tolerances), else with all
   its digits.  Far from 0 the rule maps DIFFERENT times to one integer (known finding F23). *)
From Coq Require Import ZArith Lia.
Open Scope Z_scope.

Definition near_int (n d : Z) : bool := (n - (n / d) * d) * 10 ^ 14 <=? n.

(* what is written for n/d: Some k = the integer k, None = the full binary64 digits *)
Definition written_as_int (n d : Z) : option Z := if near_int n d then Some (n / d) else None.

(* at ordinary magnitudes the rule only absorbs rounding noise: two times one millisecond apart near 1000 s are
   never both written as integers *)
Lemma near_int_small_example : written_as_int (1000 * 1000 + 1) 1000 = None.
Proof. vm_compute. reflexivity. Qed.

(* near 1e13 s two different times 1/32 s apart are written as the same integer *)
Lemma near_int_collapse :
  let d := 32 in let x := (10 ^ 13 + 1) * 32 + 1 in let y := (10 ^ 13 + 1) * 32 + 2 in
  x < y /\ written_as_int x d = Some (10 ^ 13 + 1) /\ written_as_int y d = Some (10 ^ 13 + 1).
Proof. vm_compute. repeat split; reflexivity. Qed.
