(* IO/PrepSpec.v -- specification vocabulary for what saving may change (C02, C04). *)
From PraatIO Require Export IO.IoModel.
Open Scope Z_scope.

Definition is_blank (e : dentry) : bool := text_eqb (dl e) [].
Definition dlen (e : dentry) : Z := de e - ds e.

(* ascending, gap-free, overlap-free from lo, every piece of positive length;
   returns the end *)
Fixpoint partitionb (lo : Z) (l : list dentry) : option Z :=
  match l with
  | [] => Some lo
  | e :: l' => if (ds e =? lo) && (ds e <? de e) then partitionb (de e) l' else None
  end.

(* labelled entries (non-empty label) *)
Definition labelled (l : list dentry) : list dentry := filter (fun e => negb (is_blank e)) l.

(* an interval at least as long as the threshold *)
Definition long (thr : Z * Z) (e : dentry) : bool := negb (below thr (dlen e)).

Definition is_DI (e : dentry) : Prop := match e with DI _ _ _ => True | DP _ _ => False end.

(* a well-formed interval-entry list inside [lo, hi]: positive lengths, in order,
   no overlap (touching allowed) *)
Fixpoint chain (lo : Z) (l : list dentry) (hi : Z) : Prop :=
  match l with
  | [] => lo <= hi
  | e :: l' => is_DI e /\ lo <= ds e /\ ds e < de e /\ chain (de e) l' hi
  end.

(* blank filling, single pass: a blank in every gap, including before the first
   and after the last entry *)
Fixpoint fill_spec (lo : Z) (l : list dentry) (hi : Z) : list dentry :=
  match l with
  | [] => if lo <? hi then [DI lo hi []] else []
  | e :: l' => (if lo <? ds e then [DI lo (ds e) []] else []) ++ e :: fill_spec (de e) l' hi
  end.
