(* IO/CrlfProofs.v -- CRLF normalisation (data.replace of CRLF by LF) is invisible on CR-free text. *)
From Coq Require Import Lia.
From PraatIO Require Import IO.IoModel.

(* LF -> CRLF, as a CRLF file differs from an LF file *)
Fixpoint to_crlf (s : text) : text :=
  match s with
  | [] => []
  | c :: s' => if (c =? 10)%N then 13%N :: 10%N :: to_crlf s' else c :: to_crlf s'
  end.

Lemma crlf_cons_other c s : c <> 13%N -> crlf_to_lf (c :: s) = c :: crlf_to_lf s.
Proof.
  intro H. destruct c as [|p]; [reflexivity|].
  destruct p; try reflexivity; destruct p; try reflexivity; destruct p; try reflexivity;
    destruct p; try reflexivity; congruence.
Qed.

Lemma crlf_nocr s : forallb (fun c => negb (c =? 13)%N) s = true -> crlf_to_lf s = s.
Proof.
  induction s as [|c s IH]; intro H; [reflexivity|].
  cbn [forallb] in H. apply andb_prop in H as [Hc Hs]. apply negb_true_iff, N.eqb_neq in Hc.
  rewrite (crlf_cons_other _ _ Hc), (IH Hs). reflexivity.
Qed.

Lemma crlf_roundtrip s : forallb (fun c => negb (c =? 13)%N) s = true -> crlf_to_lf (to_crlf s) = s.
Proof.
  induction s as [|c s IH]; intro H; [reflexivity|].
  cbn [forallb] in H. apply andb_prop in H as [Hc Hs]. apply negb_true_iff, N.eqb_neq in Hc.
  cbn [to_crlf]. destruct (c =? 10)%N eqn:E.
  - apply N.eqb_eq in E. subst c. change (crlf_to_lf (13%N :: 10%N :: to_crlf s)) with (crlf_to_lf (10%N :: to_crlf s)).
    rewrite crlf_cons_other by discriminate. now rewrite (IH Hs).
  - rewrite (crlf_cons_other _ _ Hc), (IH Hs). reflexivity.
Qed.

