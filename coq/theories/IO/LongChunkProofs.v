(* IO/LongChunkProofs.v -- the keyword chunking of the long reader, proved instead of assumed:
   re.split(kw ?\[) on written text.  Part 1: the splitter on pieces that hold no match. *)
From Coq Require Import Lia String.
From PraatIO Require Import IO.IoModel IO.CodecProofs IO.CrlfProofs IO.ShortFileProofs IO.ShortChunkProofs IO.LongFileProofs.
Open Scope Z_scope.

(* does  kw ?\[  match at the head of s, and what follows the match *)
Definition matches_at (kw s : text) : option text :=
  if is_prefix kw s then opt_sp_then 91%N (skipn (length kw) s) else None.

Lemma re_split_kw_cons f kw c s' cur acc :
  re_split_kw (S f) kw (c :: s') cur acc =
  match matches_at kw (c :: s') with
  | Some r => re_split_kw f kw r [] (rev cur :: acc)
  | None => re_split_kw f kw s' (c :: cur) acc
  end.
Proof. unfold matches_at. cbn [re_split_kw]. destruct (is_prefix kw (c :: s')); reflexivity. Qed.

Lemma opt_sp_then_cases lit q :
  opt_sp_then lit q =
  match q with
  | [] => None
  | c :: q' =>
      if (c =? 32)%N then
        match q' with
        | c2 :: r => if (c2 =? lit)%N then Some r else None
        | [] => if (32 =? lit)%N then Some [] else None
        end
      else if (c =? lit)%N then Some q' else None
  end.
Proof.
  unfold opt_sp_then. destruct q as [|c q']; [reflexivity|].
  destruct (N.eqb_spec c 32) as [->|NC].
  - destruct q'; reflexivity.
  - destruct c as [|p]; [reflexivity|]. do 6 (try (destruct p as [p|p|]; try reflexivity)). congruence.
Qed.

Lemma opt_sp_then_len lit q r : opt_sp_then lit q = Some r -> (length r < length q)%nat.
Proof.
  rewrite opt_sp_then_cases. destruct q as [|c q']; [discriminate|].
  destruct (c =? 32)%N.
  - destruct q' as [|c2 r2].
    + destruct (32 =? lit)%N; [intros [= <-]; simpl; lia|discriminate].
    + destruct (c2 =? lit)%N; [intros [= <-]; simpl; lia|discriminate].
  - destruct (c =? lit)%N; [intros [= <-]; simpl; lia|discriminate].
Qed.

Lemma matches_at_len kw c s' r : kw <> [] -> matches_at kw (c :: s') = Some r -> (length r <= length s')%nat.
Proof.
  intros NE. unfold matches_at. destruct (is_prefix kw (c :: s')) eqn:P; [|discriminate].
  intro H. apply opt_sp_then_len in H. rewrite skipn_length in H. destruct kw; [congruence|]. simpl in H |- *. lia.
Qed.

Lemma re_split_fuel kw : kw <> [] -> forall n s f1 f2 cur acc, (length s <= n)%nat -> (length s < f1)%nat -> (length s < f2)%nat ->
  re_split_kw f1 kw s cur acc = re_split_kw f2 kw s cur acc.
Proof.
  intro NE. induction n as [|n IH]; intros s f1 f2 cur acc L L1 L2.
  - destruct s; [|simpl in L; lia]. destruct f1, f2; try (simpl in *; lia); reflexivity.
  - destruct s as [|c s']; [destruct f1, f2; try (simpl in *; lia); reflexivity|].
    destruct f1 as [|f1]; [simpl in L1; lia|]. destruct f2 as [|f2]; [simpl in L2; lia|].
    simpl in L, L1, L2. rewrite !re_split_kw_cons.
    destruct (matches_at kw (c :: s')) as [r|] eqn:M.
    + pose proof (matches_at_len kw c s' r NE M). apply IH; lia.
    + apply IH; lia.
Qed.

Definition RS (kw s cur : text) (acc : list text) : list text := re_split_kw (S (length s)) kw s cur acc.

Lemma RS_nil kw cur acc : RS kw [] cur acc = rev (rev cur :: acc).
Proof. reflexivity. Qed.

Lemma RS_none kw c s' cur acc : kw <> [] -> matches_at kw (c :: s') = None -> RS kw (c :: s') cur acc = RS kw s' (c :: cur) acc.
Proof.
  intros NE M. unfold RS. cbn [length]. rewrite re_split_kw_cons, M.
  apply (re_split_fuel kw NE (length s')); simpl; lia.
Qed.

Lemma RS_some kw c s' r cur acc : kw <> [] -> matches_at kw (c :: s') = Some r -> RS kw (c :: s') cur acc = RS kw r [] (rev cur :: acc).
Proof.
  intros NE M. unfold RS. cbn [length]. rewrite re_split_kw_cons, M.
  pose proof (matches_at_len kw c s' r NE M). apply (re_split_fuel kw NE (length r)); simpl; lia.
Qed.

(* a piece in which no match starts, whatever follows it *)
Definition nomatch (kw p : text) : Prop :=
  forall a b r, p = a ++ b -> b <> [] -> matches_at kw (b ++ r) = None.

Lemma nomatch_app kw p q : nomatch kw p -> nomatch kw q -> nomatch kw (p ++ q).
Proof.
  intros HP HQ a b r E NB.
  apply app_eq_app in E as (l & [(E1 & E2)|(E1 & E2)]).
  - (* a shorter than p: b = l ++ q, l a suffix of p *)
    subst b. destruct l as [|x l].
    + cbn [app] in *. exact (HQ [] q r eq_refl NB).
    + rewrite <- app_assoc. apply (HP a (x :: l) (q ++ r) E1). discriminate.
  - exact (HQ l b r E2 NB).
Qed.

Lemma RS_clean kw : kw <> [] -> forall p r cur acc, nomatch kw p -> RS kw (p ++ r) cur acc = RS kw r (rev p ++ cur) acc.
Proof.
  intro NE. induction p as [|c p IH]; intros r cur acc NM; [reflexivity|].
  cbn [app]. rewrite RS_none; [|exact NE|].
  - rewrite IH.
    + cbn [rev]. now rewrite <- app_assoc.
    + intros a b r' E NB. apply (NM (c :: a) b r'); [cbn [app]; now rewrite E|exact NB].
  - change (c :: p ++ r) with ((c :: p) ++ r). apply (NM [] (c :: p) r eq_refl). discriminate.
Qed.

(* ---------- which pieces hold no match ---------- *)

(* the first character of the keyword does not occur *)
Lemma nomatch_first kw p : match kw with k0 :: _ => forallb (fun c => negb (k0 =? c)%N) p = true | [] => False end -> nomatch kw p.
Proof.
  destruct kw as [|k0 kw']; [contradiction|]. intros H a b r E NB. subst p.
  rewrite forallb_app in H. apply andb_prop in H as [_ H]. destruct b as [|c b]; [congruence|].
  cbn [forallb] in H. apply andb_prop in H as [Hc _]. apply negb_true_iff in Hc.
  unfold matches_at. cbn [app is_prefix]. now rewrite Hc.
Qed.

(* the keyword does not occur, and the piece ends its line *)
Lemma nomatch_wordfree kw p : ~ In 10%N kw -> contains kw p = false -> (exists p0, p = p0 ++ [10%N]) -> nomatch kw p.
Proof.
  intros NK HC (p0 & EP) a b r E NB. unfold matches_at.
  destruct (is_prefix kw (b ++ r)) eqn:P; [|reflexivity].
  assert (In 10%N b) as NL.
  { rewrite EP in E. apply app_eq_app in E as (l & [(E1 & E2)|(E1 & E2)]).
    - subst b. apply in_or_app. right. now left.
    - destruct l as [|x l].
      + cbn [app] in E2. subst b. now left.
      + destruct l; destruct b; cbn in E2; try discriminate; congruence. }
  apply (is_prefix_sep kw b r P NL) in NK.
  subst p. rewrite E in HC.
  assert (contains kw (a ++ b) = true); [|congruence].
  apply contains_app_r. destruct b as [|y b']; [congruence|]. cbn [contains]. apply orb_true_iff. left. exact NK.
Qed.

(* closed pieces: a reflective check.  At every position either the keyword mismatches within the piece, or it
   is there and what follows inside the piece already rules out  ?\[ *)
Fixpoint mism (k b : text) : bool :=
  match k, b with
  | x :: k', y :: b' => negb (x =? y)%N || mism k' b'
  | _, _ => false
  end.

Lemma mism_sound k : forall b r, mism k b = true -> is_prefix k (b ++ r) = false.
Proof.
  induction k as [|x k IH]; intros b r H; [discriminate|]. destruct b as [|y b]; [discriminate|].
  cbn [mism] in H. cbn [app is_prefix]. destruct (x =? y)%N; cbn [negb orb andb] in *; [now apply IH|reflexivity].
Qed.

Definition after_none (q : text) : bool :=
  match q with
  | c :: q' => if (c =? 91)%N then false
               else if (c =? 32)%N then match q' with c2 :: _ => negb (c2 =? 91)%N | [] => false end
               else true
  | [] => false
  end.

Lemma after_none_sound q r : after_none q = true -> opt_sp_then 91%N (q ++ r) = None.
Proof.
  unfold after_none. rewrite opt_sp_then_cases. destruct q as [|c q']; [discriminate|]. cbn [app].
  destruct (c =? 91)%N eqn:E1; [discriminate|]. destruct (c =? 32)%N.
  - destruct q' as [|c2 q2]; [discriminate|]. intro H. apply negb_true_iff in H. cbn [app]. now rewrite H.
  - reflexivity.
Qed.

Definition decide_none (kw b : text) : bool :=
  mism kw b || (is_prefix kw b && after_none (skipn (length kw) b)).

Lemma skipn_app_prefix {A} (k b r : list A) : (length k <= length b)%nat -> skipn (length k) (b ++ r) = skipn (length k) b ++ r.
Proof. intro H. rewrite skipn_app. replace (length k - length b)%nat with 0%nat by lia. reflexivity. Qed.

Lemma is_prefix_len k b : is_prefix k b = true -> (length k <= length b)%nat.
Proof. intro H. apply is_prefix_spec in H as (s & ->). rewrite app_length. lia. Qed.

Lemma decide_none_sound kw b r : decide_none kw b = true -> matches_at kw (b ++ r) = None.
Proof.
  unfold decide_none, matches_at. intro H. apply orb_prop in H as [H|H].
  - now rewrite (mism_sound kw b r H).
  - apply andb_prop in H as [P A]. destruct (is_prefix kw (b ++ r)); [|reflexivity].
    rewrite (skipn_app_prefix kw b r (is_prefix_len _ _ P)). now apply after_none_sound.
Qed.

Fixpoint nomatchb (kw p : text) : bool :=
  match p with
  | [] => true
  | c :: p' => decide_none kw p && nomatchb kw p'
  end.

Lemma nomatchb_sound kw p : nomatchb kw p = true -> nomatch kw p.
Proof.
  induction p as [|c p IH]; intros H a b r E NB.
  - destruct a; destruct b; try discriminate. congruence.
  - cbn [nomatchb] in H. apply andb_prop in H as [D H]. destruct a as [|x a].
    + cbn [app] in E. subst b. now apply decide_none_sound.
    + cbn [app] in E. injection E as _ E. exact (IH H a b r E NB).
Qed.

(* ---------- the three keywords and the pieces the long writer prints ---------- *)

Definition kwok (kw : text) : Prop := kw = T "item" \/ kw = T "intervals" \/ kw = T "points".

Lemma kwok_facts kw : kwok kw ->
  kw <> [] /\ ~ In 10%N kw /\ ~ In 34%N kw /\ forallb (fun c => negb (isq c)) kw = true
  /\ match kw with k0 :: _ => numchar k0 = false /\ isdigit k0 = false /\ (k0 =? 32)%N = false /\ (k0 =? 10)%N = false | [] => False end.
Proof. unfold kwok; intros [-> | [-> | ->]]; vm_compute; repeat split; try discriminate; intuition discriminate. Qed.

Definition lfree (l : text) : bool :=
  negb (has_sub (T "item") l) && negb (has_sub (T "intervals") l) && negb (has_sub (T "points") l)
  && negb (has_sub (T "IntervalTier") l).

Lemma lfree_kw kw l : kwok kw -> lfree l = true -> contains kw l = false.
Proof.
  unfold lfree, has_sub. intros K H. apply andb_prop in H as [H _]. apply andb_prop in H as [H H3].
  apply andb_prop in H as [H1 H2]. apply negb_true_iff in H1, H2, H3. destruct K as [-> | [-> | ->]]; assumption.
Qed.

Lemma hit kw rest : matches_at kw (kw ++ 32%N :: 91%N :: rest) = Some rest.
Proof.
  unfold matches_at. rewrite is_prefix_app, skipn_length_app, opt_sp_then_cases. reflexivity.
Qed.

Lemma RS_hit kw rest cur acc : kw <> [] -> RS kw (kw ++ 32%N :: 91%N :: rest) cur acc = RS kw rest [] (rev cur :: acc).
Proof.
  intro NE. destruct kw as [|c kw'] eqn:EK; [congruence|]. rewrite <- EK. 
  assert (kw ++ 32%N :: 91%N :: rest = c :: (kw' ++ 32%N :: 91%N :: rest)) as E by (now rewrite EK).
  rewrite E. apply RS_some; [now rewrite EK|]. rewrite <- E. apply hit.
Qed.

(* digits, numbers, blanks *)
Lemma nomatch_idx kw j : kwok kw -> idx j = true -> nomatch kw j.
Proof.
  intros K H. destruct (kwok_facts kw K) as (NE & _ & _ & _ & F). apply nomatch_first.
  destruct kw as [|k0 kw']; [exact F|]. destruct F as (_ & D & _). exact (free_of_idx k0 j D H).
Qed.

Lemma nomatch_num kw t : kwok kw -> numshape t = true -> nomatch kw t.
Proof.
  intros K H. destruct (kwok_facts kw K) as (NE & _ & _ & _ & F). apply nomatch_first.
  destruct kw as [|k0 kw']; [exact F|]. destruct F as (N & _). exact (free_of_num k0 t N H).
Qed.

Lemma nomatch_sp kw t : kwok kw -> allsp t = true -> nomatch kw t.
Proof.
  intros K H. destruct (kwok_facts kw K) as (NE & _ & _ & _ & F). apply nomatch_first.
  destruct kw as [|k0 kw']; [exact F|]. destruct F as (_ & _ & S & _). exact (free_of_sp k0 t S H).
Qed.

(* closed pieces *)
Lemma nomatch_closed kw p : kwok kw ->
  nomatchb (T "item") p && nomatchb (T "intervals") p && nomatchb (T "points") p = true -> nomatch kw p.
Proof.
  intros K H. apply andb_prop in H as [H H3]. apply andb_prop in H as [H1 H2].
  destruct K as [-> | [-> | ->]]; now apply nomatchb_sound.
Qed.

(* a written string followed by the end of its line *)
Lemma nomatch_quoted kw l : kwok kw -> lfree l = true -> nomatch kw (Q1 ++ esc l ++ Q1 ++ SPNL).
Proof.
  intros K LF. destruct (kwok_facts kw K) as (NE & N10 & N34 & QF & F).
  apply nomatch_wordfree; [exact N10| |exists (Q1 ++ esc l ++ Q1 ++ [32%N]); now rewrite <- !app_assoc].
  destruct (contains kw (Q1 ++ esc l ++ Q1 ++ SPNL)) eqn:E; [|reflexivity]. exfalso.
  unfold Q1 in E. cbn [app] in E.
  change (34%N :: esc l ++ 34%N :: SPNL) with ([] ++ 34%N :: esc l ++ 34%N :: SPNL) in E.
  apply (occ_sep kw 34%N NE N34) in E as [E|E]; [rewrite (contains_nil_false kw NE) in E; discriminate|].
  apply (occ_sep kw 34%N NE N34) in E as [E|E].
  - apply (contains_esc kw NE QF) in E. rewrite (lfree_kw kw l K LF) in E. discriminate.
  - destruct kw as [|k0 kw']; [congruence|]. destruct F as (_ & _ & S & Nl).
    change SPNL with [32%N; 10%N] in E. cbn [contains is_prefix] in E. rewrite S, Nl in E. cbn [andb orb] in E.
    destruct kw'; discriminate.
Qed.

Ltac nm_closed K := apply (nomatch_closed _ _ K); reflexivity.

(* a number field line:  <indent> kw' = N <sp> \n *)
Lemma nomatch_numline kw ind (fld N : text) : kwok kw -> allsp ind = true -> numshape N = true ->
  nomatchb (T "item") fld && nomatchb (T "intervals") fld && nomatchb (T "points") fld = true ->
  nomatch kw (ind ++ fld ++ N ++ SPNL).
Proof.
  intros K HI HN HF. apply nomatch_app; [now apply nomatch_sp|]. apply nomatch_app; [now apply (nomatch_closed _ _ K)|].
  apply nomatch_app; [now apply nomatch_num|]. nm_closed K.
Qed.

Lemma nomatch_concat kw ps : Forall (nomatch kw) ps -> nomatch kw (concat ps).
Proof.
  induction ps as [|p ps IH]; intro H; cbn [concat].
  - intros a b r E NB. destruct a; destruct b; try discriminate. congruence.
  - inversion H; subst. apply nomatch_app; [assumption|now apply IH].
Qed.

Ltac pieces K :=
  repeat first [ apply Forall_nil
               | apply Forall_cons; [ first [ assumption
                                            | apply nomatch_idx; assumption
                                            | apply nomatch_num; assumption
                                            | apply nomatch_sp; assumption
                                            | apply nomatch_quoted; assumption
                                            | nm_closed K ] | ] ].

Lemma nomatch_ichunk kw j N1 N2 lab : kwok kw -> idx j = true -> numshape N1 = true -> numshape N2 = true -> lfree lab = true ->
  nomatch kw (ichunk j N1 N2 lab).
Proof.
  intros K HJ H1 H2 LF.
  assert (ichunk j N1 N2 lab = concat [j; T "]:"; NL1; TAB3; T "xmin" ++ EQ; N1; SPNL; TAB3; T "xmax" ++ EQ; N2; SPNL; TAB3; T "text" ++ EQ;
                                       Q1 ++ esc lab ++ Q1 ++ SPNL]) as ->.
  { unfold ichunk. cbn [concat]. rewrite <- !app_assoc. now rewrite app_nil_r. }
  apply nomatch_concat. pieces K.
Qed.

Lemma nomatch_pchunk kw j N1 lab : kwok kw -> idx j = true -> numshape N1 = true -> lfree lab = true ->
  nomatch kw (pchunk j N1 lab).
Proof.
  intros K HJ H1 LF.
  assert (pchunk j N1 lab = concat [j; T "]:"; NL1; TAB3; T "number"; EQ; N1; SPNL; TAB3; T "mark"; EQ; Q1 ++ esc lab ++ Q1 ++ SPNL]) as ->.
  { unfold pchunk. cbn [concat]. now rewrite app_nil_r. }
  apply nomatch_concat. pieces K.
Qed.

(* the head of a tier block holds its entry keyword once, followed by a colon: no match *)
Lemma nomatch_thead kw j (isint : bool) name N1 N2 n : kwok kw -> idx j = true -> idx n = true ->
  numshape N1 = true -> numshape N2 = true -> lfree name = true ->
  nomatch kw (thead j isint name N1 N2 n).
Proof.
  intros K HJ HN H1 H2 LF.
  assert (thead j isint name N1 N2 n =
          concat [j; T "]:"; NL1; TAB2; T "class"; EQ; Q1; class_name isint; Q1; SPNL; TAB2; T "name"; EQ; Q1 ++ esc name ++ Q1 ++ SPNL;
                  TAB2; T "xmin" ++ EQ; N1; SPNL; TAB2; T "xmax" ++ EQ; N2; SPNL; TAB2;
                  (if isint then T "intervals: size = " else T "points: size = "); n; SPNL]) as ->.
  { unfold thead. cbn [concat]. rewrite <- !app_assoc. now rewrite app_nil_r. }
  apply nomatch_concat. destruct isint; pieces K.
Qed.

(* ---------- entries of one tier ---------- *)

Lemma long_entries_cons_I tab (isint : bool) k s e lab l' :
  long_entries tab isint k (DI s e lab :: l')
  = TAB2 ++ T "intervals" ++ 32%N :: 91%N :: echunk tab k (DI s e lab) ++ long_entries tab isint (S k) l'.
Proof.
  cbn [long_entries echunk]. unfold ichunk, TAB2, TAB3, EQ, quoted. repeat rewrite <- app_assoc. reflexivity.
Qed.

Lemma long_entries_cons_P tab (isint : bool) k t lab l' :
  long_entries tab isint k (DP t lab :: l')
  = TAB2 ++ T "points" ++ 32%N :: 91%N :: echunk tab k (DP t lab) ++ long_entries tab isint (S k) l'.
Proof.
  cbn [long_entries echunk]. unfold pchunk, TAB2, TAB3, EQ, quoted. repeat rewrite <- app_assoc. reflexivity.
Qed.

Fixpoint glue (sep : text) (c : text) (bs : list text) (trail : text) : list text :=
  match bs with
  | [] => [c ++ trail]
  | b :: bs' => (c ++ sep) :: glue sep b bs' trail
  end.

Definition entry_ok (tab : numtab) (isint : bool) (e : dentry) : bool :=
  times_num tab e && (if isint then is_DIb e else negb (is_DIb e))
  && match e with DI _ _ l | DP _ l => lfree l end.

Definition ekw (isint : bool) : text := if isint then T "intervals" else T "points".

Lemma ekw_ok isint : kwok (ekw isint).
Proof. destruct isint; [right; left|right; right]; reflexivity. Qed.

Lemma nomatch_echunk kw tab isint k e : kwok kw -> entry_ok tab isint e = true -> nomatch kw (echunk tab k e).
Proof.
  intros K H. unfold entry_ok in H. apply andb_prop in H as [H LF]. apply andb_prop in H as [TN _].
  destruct e as [s e' lab|t lab]; cbn [echunk times_num] in *.
  - apply andb_prop in TN as [T1 T2]. apply nomatch_ichunk; try assumption. apply nat_to_text_idx.
  - apply nomatch_pchunk; try assumption. apply nat_to_text_idx.
Qed.

Lemma RS_entries tab (isint : bool) : forall ents k trail cur acc,
  forallb (entry_ok tab isint) ents = true -> allsp trail = true ->
  RS (ekw isint) (long_entries tab isint k ents ++ trail) cur acc
  = rev acc ++ glue TAB2 (rev cur) (map (fun ke => echunk tab (fst ke) (snd ke)) (combine (seq k (length ents)) ents)) trail.
Proof.
  pose proof (ekw_ok isint) as K. destruct (kwok_facts _ K) as (NE & _).
  induction ents as [|e ents IH]; intros k trail cur acc OK SP.
  - cbn [long_entries app length seq combine map glue].
    rewrite <- (app_nil_r trail) at 1. rewrite (RS_clean _ NE trail [] cur acc (nomatch_sp _ _ K SP)).
    rewrite RS_nil. cbn [rev]. rewrite rev_app_distr, rev_involutive. reflexivity.
  - cbn [forallb] in OK. apply andb_prop in OK as [Oe OK].
    assert (long_entries tab isint k (e :: ents) ++ trail
            = TAB2 ++ ekw isint ++ 32%N :: 91%N :: echunk tab k e ++ long_entries tab isint (S k) ents ++ trail) as ->.
    { pose proof Oe as Oe'. unfold entry_ok in Oe'. apply andb_prop in Oe' as [Oe' _]. apply andb_prop in Oe' as [_ KD].
      destruct isint; destruct e as [s e' lab|t lab]; cbn [is_DIb negb] in KD; try discriminate.
      - rewrite long_entries_cons_I. unfold ekw. rewrite <- !app_assoc. cbn [app]. rewrite <- !app_assoc. reflexivity.
      - rewrite long_entries_cons_P. unfold ekw. rewrite <- !app_assoc. cbn [app]. rewrite <- !app_assoc. reflexivity. }
    rewrite (RS_clean _ NE TAB2 _ cur acc) by (apply nomatch_sp; [exact K|reflexivity]).
    rewrite RS_hit by exact NE.
    rewrite (RS_clean _ NE (echunk tab k e) _ [] _ (nomatch_echunk _ tab isint k e K Oe)).
    rewrite app_nil_r. rewrite (IH (S k) trail _ _ OK SP).
    cbn [length seq combine map glue fst snd rev]. rewrite rev_app_distr, !rev_involutive.
    rewrite <- app_assoc. reflexivity.
Qed.

(* ---------- a word that does not occur (used for the class test of a point tier) ---------- *)

Definition nocc (w p : text) : Prop := forall a b r, p = a ++ b -> b <> [] -> is_prefix w (b ++ r) = false.

Lemma nocc_app w p q : nocc w p -> nocc w q -> nocc w (p ++ q).
Proof.
  intros HP HQ a b r E NB.
  apply app_eq_app in E as (l & [(E1 & E2)|(E1 & E2)]).
  - subst b. destruct l as [|x l].
    + cbn [app] in *. exact (HQ [] q r eq_refl NB).
    + rewrite <- app_assoc. apply (HP a (x :: l) (q ++ r) E1). discriminate.
  - exact (HQ l b r E2 NB).
Qed.

Lemma nocc_concat w ps : Forall (nocc w) ps -> nocc w (concat ps).
Proof.
  induction ps as [|p ps IH]; intro H; cbn [concat].
  - intros a b r E NB. destruct a; destruct b; try discriminate. congruence.
  - inversion H; subst. apply nocc_app; [assumption|now apply IH].
Qed.

Lemma nocc_first w p : match w with k0 :: _ => forallb (fun c => negb (k0 =? c)%N) p = true | [] => False end -> nocc w p.
Proof.
  destruct w as [|k0 w']; [contradiction|]. intros H a b r E NB. subst p.
  rewrite forallb_app in H. apply andb_prop in H as [_ H]. destruct b as [|c b]; [congruence|].
  cbn [forallb] in H. apply andb_prop in H as [Hc _]. apply negb_true_iff in Hc.
  cbn [app is_prefix]. now rewrite Hc.
Qed.

Lemma nocc_wordfree w p : ~ In 10%N w -> contains w p = false -> (exists p0, p = p0 ++ [10%N]) -> nocc w p.
Proof.
  intros NK HC (p0 & EP) a b r E NB.
  destruct (is_prefix w (b ++ r)) eqn:P; [|reflexivity].
  assert (In 10%N b) as NL.
  { rewrite EP in E. apply app_eq_app in E as (l & [(E1 & E2)|(E1 & E2)]).
    - subst b. apply in_or_app. right. now left.
    - destruct l as [|x l].
      + cbn [app] in E2. subst b. now left.
      + destruct l; destruct b; cbn in E2; try discriminate; congruence. }
  apply (is_prefix_sep w b r P NL) in NK.
  subst p. rewrite E in HC.
  assert (contains w (a ++ b) = true); [|congruence].
  apply contains_app_r. destruct b as [|y b']; [congruence|]. cbn [contains]. apply orb_true_iff. left. exact NK.
Qed.

Fixpoint noccb (w p : text) : bool :=
  match p with [] => true | c :: p' => mism w p && noccb w p' end.

Lemma noccb_sound w p : noccb w p = true -> nocc w p.
Proof.
  induction p as [|c p IH]; intros H a b r E NB.
  - destruct a; destruct b; try discriminate. congruence.
  - cbn [noccb] in H. apply andb_prop in H as [D H]. destruct a as [|x a].
    + cbn [app] in E. subst b. now apply mism_sound.
    + cbn [app] in E. injection E as _ E. exact (IH H a b r E NB).
Qed.

Lemma nocc_contains w p : w <> [] -> nocc w p -> contains w p = false.
Proof.
  intros NE H. destruct (contains w p) eqn:E; [|reflexivity]. exfalso.
  apply contains_spec in E as (a & b & E). destruct w as [|x w']; [congruence|].
  pose proof (H a ((x :: w') ++ b) [] E ltac:(discriminate)) as P. rewrite app_nil_r in P.
  rewrite is_prefix_app in P. discriminate.
Qed.

Definition CORE : text := T "IntervalTier".

Lemma nocc_quoted_core l : lfree l = true -> nocc CORE (Q1 ++ esc l ++ Q1 ++ SPNL).
Proof.
  intro LF. unfold lfree, has_sub in LF. apply andb_prop in LF as [_ LF]. apply negb_true_iff in LF.
  apply nocc_wordfree; [vm_compute; intuition discriminate| |exists (Q1 ++ esc l ++ Q1 ++ [32%N]); now rewrite <- !app_assoc].
  destruct (contains CORE (Q1 ++ esc l ++ Q1 ++ SPNL)) eqn:E; [|reflexivity]. exfalso.
  unfold Q1 in E. cbn [app] in E.
  change (34%N :: esc l ++ 34%N :: SPNL) with ([] ++ 34%N :: esc l ++ 34%N :: SPNL) in E.
  assert (CORE <> []) as NE by discriminate.
  assert (~ In 34%N CORE) as N34 by (vm_compute; intuition discriminate).
  apply (occ_sep CORE 34%N NE N34) in E as [E|E]; [discriminate|].
  apply (occ_sep CORE 34%N NE N34) in E as [E|E].
  - apply (contains_esc CORE NE eq_refl) in E. unfold CORE in E. congruence.
  - discriminate.
Qed.

Ltac cpieces :=
  repeat first [ apply Forall_nil
               | apply Forall_cons; [ first [ assumption
                                            | apply nocc_first; apply free_of_idx; [reflexivity|assumption]
                                            | apply nocc_first; apply free_of_num; [reflexivity|assumption]
                                            | apply nocc_first; apply free_of_sp; [reflexivity|assumption]
                                            | apply nocc_quoted_core; assumption
                                            | apply noccb_sound; reflexivity ] | ] ].

Lemma nocc_pchunk_core j N1 lab : idx j = true -> numshape N1 = true -> lfree lab = true -> nocc CORE (pchunk j N1 lab).
Proof.
  intros HJ H1 LF.
  assert (pchunk j N1 lab = concat [j; T "]:"; NL1; TAB3; T "number"; EQ; N1; SPNL; TAB3; T "mark"; EQ; Q1 ++ esc lab ++ Q1 ++ SPNL]) as ->.
  { unfold pchunk. cbn [concat]. now rewrite app_nil_r. }
  apply nocc_concat. cpieces.
Qed.

Lemma nocc_thead_core j name N1 N2 n : idx j = true -> idx n = true -> numshape N1 = true -> numshape N2 = true -> lfree name = true ->
  nocc CORE (thead j false name N1 N2 n).
Proof.
  intros HJ HN H1 H2 LF.
  assert (thead j false name N1 N2 n =
          concat [j; T "]:"; NL1; TAB2; T "class"; EQ; Q1; class_name false; Q1; SPNL; TAB2; T "name"; EQ; Q1 ++ esc name ++ Q1 ++ SPNL;
                  TAB2; T "xmin"; EQ; N1; SPNL; TAB2; T "xmax"; EQ; N2; SPNL; TAB2; T "points: size = "; n; SPNL]) as ->.
  { unfold thead. cbn [concat]. cbv iota. rewrite <- !app_assoc. now rewrite app_nil_r. }
  apply nocc_concat. cpieces.
Qed.

(* ---------- one tier block ---------- *)

Lemma chunk_like_app e sp : allsp sp = true -> chunk_like e (e ++ sp) = true.
Proof. intro H. unfold chunk_like. now rewrite is_prefix_app, skipn_length_app, H. Qed.

Lemma allsp_app a b : allsp (a ++ b) = allsp a && allsp b.
Proof. unfold allsp. apply forallb_app. Qed.

Lemma glue_match tab : forall ents k c0 trail, allsp trail = true ->
  match glue TAB2 c0 (map (fun ke => echunk tab (fst ke) (snd ke)) (combine (seq k (length ents)) ents)) trail with
  | th :: ecs => (exists sp, th = c0 ++ sp /\ allsp sp = true) /\ chunks_match (echunk tab) k ents ecs = true
  | [] => False
  end.
Proof.
  induction ents as [|e ents IH]; intros k c0 trail SP; cbn [length seq combine map glue].
  - split; [now exists trail|reflexivity].
  - specialize (IH (S k) (echunk tab k e) trail SP). cbn [fst snd].
    destruct (glue TAB2 (echunk tab k e) _ trail) as [|th ecs]; [contradiction|].
    destruct IH as ((sp & -> & S) & CM). split; [exists TAB2; split; reflexivity|].
    cbn [chunks_match]. now rewrite (chunk_like_app _ _ S), CM.
Qed.

Definition tbody (tab : numtab) (k : nat) (t : dtier) : text :=
  thead (nat_to_text k) (d_isint t) (d_name t) (num_str (lookup tab (d_xmin t))) (num_str (lookup tab (d_xmax t)))
        (nat_to_text (length (d_ents t)))
  ++ long_entries tab (d_isint t) 1 (d_ents t).

Definition tierL_ok (tab : numtab) (t : dtier) : bool :=
  nonl (d_name t) && lfree (d_name t) && numshape (num_str (lookup tab (d_xmin t))) && numshape (num_str (lookup tab (d_xmax t)))
  && forallb (entry_ok tab (d_isint t)) (d_ents t).

Lemma nocc_entries_core tab : forall ents k, forallb (entry_ok tab false) ents = true -> nocc CORE (long_entries tab false k ents).
Proof.
  induction ents as [|e ents IH]; intros k OK.
  - intros a b r E NB. destruct a; destruct b; try discriminate. congruence.
  - cbn [forallb] in OK. apply andb_prop in OK as [Oe OK]. unfold entry_ok in Oe.
    apply andb_prop in Oe as [Oe LF]. apply andb_prop in Oe as [TN KD].
    destruct e as [s e' lab|t lab]; cbn [is_DIb negb] in KD; [discriminate|].
    rewrite long_entries_cons_P. cbn [echunk times_num] in *.
    apply nocc_app; [apply noccb_sound; reflexivity|].
    apply nocc_app; [apply noccb_sound; reflexivity|].
    change (32%N :: 91%N :: pchunk (nat_to_text k) (num_str (lookup tab t)) lab ++ long_entries tab false (S k) ents)
      with ([32%N; 91%N] ++ pchunk (nat_to_text k) (num_str (lookup tab t)) lab ++ long_entries tab false (S k) ents).
    apply nocc_app; [apply noccb_sound; reflexivity|].
    apply nocc_app; [apply nocc_pchunk_core; [apply nat_to_text_idx|exact TN|exact LF]|apply IH, OK].
Qed.

Theorem ltier_ok_free tab k t trail : tierL_ok tab t = true -> allsp trail = true ->
  ltier_ok tab k t (tbody tab k t ++ trail) = true.
Proof.
  intros TO SP. unfold tierL_ok in TO. apply andb_prop in TO as [TO EO]. apply andb_prop in TO as [TO N2].
  apply andb_prop in TO as [TO N1]. apply andb_prop in TO as [NN LF].
  pose proof (ekw_ok (d_isint t)) as K. destruct (kwok_facts _ K) as (NE & _).
  pose proof (nat_to_text_idx k) as IK. pose proof (nat_to_text_idx (length (d_ents t))) as IN.
  unfold ltier_ok. rewrite NN, N1, N2.
  assert (forallb (times_num tab) (d_ents t) = true) as ->.
  { apply forallb_forall. intros e He. rewrite forallb_forall in EO. specialize (EO e He). unfold entry_ok in EO.
    apply andb_prop in EO as [EO _]. now apply andb_prop in EO as [? _]. }
  assert ((if d_isint t then forallb is_DIb (d_ents t) else forallb (fun e => negb (is_DIb e)) (d_ents t)) = true) as ->.
  { destruct (d_isint t); apply forallb_forall; intros e He; rewrite forallb_forall in EO; specialize (EO e He); unfold entry_ok in EO;
      apply andb_prop in EO as [EO _]; now apply andb_prop in EO as [_ ?]. }
  rewrite !andb_true_r.
  (* the split at the entry keyword *)
  assert (re_split (if d_isint t then T "intervals" else T "points") (tbody tab k t ++ trail)
          = glue TAB2 (thead (nat_to_text k) (d_isint t) (d_name t) (num_str (lookup tab (d_xmin t))) (num_str (lookup tab (d_xmax t)))
                             (nat_to_text (length (d_ents t))))
                 (map (fun ke => echunk tab (fst ke) (snd ke)) (combine (seq 1 (length (d_ents t))) (d_ents t))) trail) as RSE.
  { change (if d_isint t then T "intervals" else T "points") with (ekw (d_isint t)).
    change (re_split (ekw (d_isint t)) (tbody tab k t ++ trail)) with (RS (ekw (d_isint t)) (tbody tab k t ++ trail) [] []).
    unfold tbody. rewrite <- app_assoc.
    rewrite (RS_clean _ NE _ _ [] [] (nomatch_thead _ _ _ _ _ _ _ K IK IN N1 N2 LF)).
    rewrite (RS_entries tab (d_isint t) _ 1%nat trail _ [] EO SP). rewrite app_nil_r. cbn [rev app]. now rewrite rev_involutive. }
  rewrite RSE.
  pose proof (glue_match tab (d_ents t) 1%nat
                (thead (nat_to_text k) (d_isint t) (d_name t) (num_str (lookup tab (d_xmin t))) (num_str (lookup tab (d_xmax t)))
                       (nat_to_text (length (d_ents t)))) trail SP) as GM.
  destruct (glue TAB2 _ _ trail) as [|th ecs]; [contradiction|]. destruct GM as ((sp & -> & S) & CM).
  rewrite (chunk_like_app _ _ S), CM. cbn [andb]. rewrite andb_true_r.
  (* the class test *)
  apply Bool.eqb_true_iff. unfold has_sub. destruct (d_isint t) eqn:EI.
  - apply contains_spec. unfold tbody. rewrite EI. unfold thead.
    exists (nat_to_text k ++ T "]:" ++ NL1 ++ TAB2). eexists. rewrite <- !app_assoc.
    change CLASS_INT with (T "class" ++ EQ ++ Q1 ++ class_name true ++ Q1). rewrite <- !app_assoc. reflexivity.
  - assert (nocc CORE (tbody tab k t ++ trail)) as NC.
    { unfold tbody. rewrite EI. apply nocc_app; [apply nocc_app|].
      - now apply nocc_thead_core.
      - now apply nocc_entries_core.
      - apply nocc_first. apply (free_of_sp 73%N); [reflexivity|exact SP]. }
    apply (nocc_contains CORE) in NC; [|discriminate].
    destruct (contains CLASS_INT (tbody tab k t ++ trail)) eqn:E; [|reflexivity]. exfalso.
    apply contains_spec in E as (a & b & E).
    assert (contains CORE (tbody tab k t ++ trail) = true) as C; [|congruence].
    apply contains_spec. exists (a ++ T "class = """), (34%N :: b). rewrite E.
    change CLASS_INT with (T "class = """ ++ CORE ++ [34%N]). rewrite <- !app_assoc. reflexivity.
Qed.

(* ---------- the file ---------- *)

Lemma long_tiers_cons tab k t l' :
  long_tiers tab k (t :: l') = TAB ++ T "item" ++ 32%N :: 91%N :: tbody tab k t ++ long_tiers tab (S k) l'.
Proof.
  cbn [long_tiers]. unfold tbody, thead, TAB2, EQ, quoted. destruct (d_isint t); repeat rewrite <- app_assoc; reflexivity.
Qed.

Lemma nomatch_nil kw : nomatch kw [].
Proof. intros a b r E NB. destruct a; destruct b; try discriminate. congruence. Qed.

Lemma nomatch_entries_item tab (isint : bool) : forall ents k, forallb (entry_ok tab isint) ents = true ->
  nomatch (T "item") (long_entries tab isint k ents).
Proof.
  assert (kwok (T "item")) as K by (left; reflexivity).
  induction ents as [|e ents IH]; intros k OK; [apply nomatch_nil|].
  cbn [forallb] in OK. apply andb_prop in OK as [Oe OK].
  pose proof (nomatch_echunk (T "item") tab isint k e K Oe) as NE.
  destruct e as [s e' lab|t lab].
  - rewrite long_entries_cons_I. apply nomatch_app; [apply nomatchb_sound; reflexivity|]. apply nomatch_app; [apply nomatchb_sound; reflexivity|].
    change (32%N :: 91%N :: echunk tab k (DI s e' lab) ++ long_entries tab isint (S k) ents)
      with ([32%N; 91%N] ++ echunk tab k (DI s e' lab) ++ long_entries tab isint (S k) ents).
    apply nomatch_app; [apply nomatchb_sound; reflexivity|]. apply nomatch_app; [exact NE|apply IH, OK].
  - rewrite long_entries_cons_P. apply nomatch_app; [apply nomatchb_sound; reflexivity|]. apply nomatch_app; [apply nomatchb_sound; reflexivity|].
    change (32%N :: 91%N :: echunk tab k (DP t lab) ++ long_entries tab isint (S k) ents)
      with ([32%N; 91%N] ++ echunk tab k (DP t lab) ++ long_entries tab isint (S k) ents).
    apply nomatch_app; [apply nomatchb_sound; reflexivity|]. apply nomatch_app; [exact NE|apply IH, OK].
Qed.

Lemma nomatch_tbody_item tab k t : tierL_ok tab t = true -> nomatch (T "item") (tbody tab k t).
Proof.
  intro TO. unfold tierL_ok in TO. apply andb_prop in TO as [TO EO]. apply andb_prop in TO as [TO N2].
  apply andb_prop in TO as [TO N1]. apply andb_prop in TO as [NN LF].
  unfold tbody. apply nomatch_app.
  - apply nomatch_thead; try assumption; [left; reflexivity|apply nat_to_text_idx|apply nat_to_text_idx].
  - now apply nomatch_entries_item.
Qed.

Lemma RS_tiers tab : forall tiers k cur acc, forallb (tierL_ok tab) tiers = true ->
  RS (T "item") (long_tiers tab k tiers) cur acc
  = rev acc ++ glue TAB (rev cur) (map (fun kt => tbody tab (fst kt) (snd kt)) (combine (seq k (length tiers)) tiers)) [].
Proof.
  assert (kwok (T "item")) as K by (left; reflexivity). assert (T "item" <> []) as NE by discriminate.
  induction tiers as [|t tiers IH]; intros k cur acc OK.
  - cbn [long_tiers length seq combine map glue]. rewrite RS_nil. cbn [rev]. now rewrite app_nil_r.
  - cbn [forallb] in OK. apply andb_prop in OK as [Ot OK]. rewrite long_tiers_cons.
    rewrite (RS_clean _ NE TAB _ cur acc) by (apply nomatch_sp; [exact K|reflexivity]).
    rewrite RS_hit by exact NE.
    rewrite (RS_clean _ NE (tbody tab k t) _ [] _ (nomatch_tbody_item tab k t Ot)).
    rewrite app_nil_r. rewrite (IH (S k) _ _ OK).
    cbn [length seq combine map glue fst snd rev]. rewrite rev_app_distr, !rev_involutive.
    rewrite <- app_assoc. reflexivity.
Qed.

Lemma glue_tiers_match tab : forall tiers k c0, forallb (tierL_ok tab) tiers = true ->
  match glue TAB c0 (map (fun kt => tbody tab (fst kt) (snd kt)) (combine (seq k (length tiers)) tiers)) [] with
  | x :: tcs => tiers_match tab k tiers tcs = true
  | [] => False
  end.
Proof.
  induction tiers as [|t tiers IH]; intros k c0 OK; cbn [length seq combine map glue]; [reflexivity|].
  cbn [forallb] in OK. apply andb_prop in OK as [Ot OK]. cbn [fst snd].
  (* the chunk of t: its body followed by the indentation of the next item, if any *)
  assert (forall c trail, allsp trail = true ->
            match glue TAB c (map (fun kt => tbody tab (fst kt) (snd kt)) (combine (seq (S k) (length tiers)) tiers)) trail with
            | th :: _ => exists sp, th = c ++ sp /\ allsp sp = true | [] => False end) as HD.
  { intros c trail S. destruct tiers; cbn [length seq combine map glue]; [now exists trail|now exists TAB]. }
  specialize (IH (S k) (tbody tab k t) OK). specialize (HD (tbody tab k t) [] eq_refl).
  destruct (glue TAB (tbody tab k t) _ []) as [|th tcs]; [contradiction|].
  destruct HD as (sp & -> & S). cbn [tiers_match]. now rewrite (ltier_ok_free tab k t sp Ot S), IH.
Qed.

Lemma print_long_shape tab g :
  print_long tab g = lhead tab g ++ T "item" ++ 32%N :: 91%N :: (T "]: " ++ NL1) ++ long_tiers tab 1 (dg_tiers g).
Proof. unfold print_long, lhead. repeat rewrite <- app_assoc. reflexivity. Qed.

Lemma nomatch_lhead tab g : numshape (num_str (lookup tab (dg_xmin g))) = true -> numshape (num_str (lookup tab (dg_xmax g))) = true ->
  nomatch (T "item") (lhead tab g).
Proof.
  intros A B. assert (kwok (T "item")) as K by (left; reflexivity).
  assert (lhead tab g = concat [HEADER; T "xmin = "; num_str (lookup tab (dg_xmin g)); SPNL; T "xmax = "; num_str (lookup tab (dg_xmax g)); SPNL;
                                 T "tiers? <exists> "; NL1; T "size = "; nat_to_text (length (dg_tiers g)); SPNL]) as ->.
  { unfold lhead. cbn [concat]. rewrite <- ?app_assoc. now rewrite app_nil_r. }
  apply nomatch_concat. pose proof (nat_to_text_idx (length (dg_tiers g))) as IN. pieces K.
Qed.

Definition fileL_ok (tab : numtab) (g : dtg) : bool :=
  numshape (num_str (lookup tab (dg_xmin g))) && numshape (num_str (lookup tab (dg_xmax g)))
  && forallb (tierL_ok tab) (dg_tiers g).

(* the side condition of the long whole-file theorem holds whenever names are single-line and no name or label
   contains item, intervals, points or IntervalTier, and numbers are number-shaped *)
Theorem lfile_ok_free tab g : fileL_ok tab g = true -> lfile_ok tab g = true.
Proof.
  unfold fileL_ok. intro H. apply andb_prop in H as [H OK]. apply andb_prop in H as [A B].
  unfold lfile_ok. rewrite A, B, !andb_true_r.
  assert (kwok (T "item")) as K by (left; reflexivity). assert (T "item" <> []) as NE by discriminate.
  change (re_split (T "item") (print_long tab g)) with (RS (T "item") (print_long tab g) [] []).
  rewrite print_long_shape.
  rewrite (RS_clean _ NE _ _ [] [] (nomatch_lhead tab g A B)). rewrite RS_hit by exact NE.
  rewrite (RS_clean _ NE (T "]: " ++ NL1) _ [] _) by (nm_closed K).
  rewrite app_nil_r. rewrite (RS_tiers tab _ 1%nat _ _ OK). cbn [rev app]. rewrite rev_involutive.
  pose proof (glue_tiers_match tab (dg_tiers g) 1%nat (T "]: " ++ NL1) OK) as GM.
  rewrite app_nil_r, rev_involutive.
  destruct (glue TAB _ _ []) as [|x tcs]; [contradiction|]. now rewrite text_eqb_refl, GM.
Qed.

(* hence the whole-file round trip of the long form without any evaluated side condition *)
Theorem parse_long_printed_free tab g :
  fileL_ok tab g = true ->
  forallb (fun c => negb (c =? 13)%N) (print_long tab g) = true ->
  parse_long true (print_long tab g) = Ok (rd_tg_long tab g).
Proof. intros H CR. apply parse_long_printed; [now apply lfile_ok_free|exact CR]. Qed.
