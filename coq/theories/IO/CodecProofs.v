(* IO/CodecProofs.v -- the text layer of the TextGrid writers and readers:
   quote doubling and un-doubling, the odd-quote-run terminator of the short-form
   reader, the greedy quoted group of the long-form reader, number rows, and the
   entry loops of a short-form tier block (C01, C03). *)
From Coq Require Import Lia.
From PraatIO Require Import IO.IoModel.
Open Scope Z_scope.

Notation Q := 34%N (only parsing).

(* ------------------------------------------------------------------ *)
(* escapeQuotes / replace of a doubled quote                             *)

Lemma unesc_esc l : unesc (esc l) = l.
Proof.
  induction l as [|c l IH]; simpl; [reflexivity|].
  destruct (c =? 34)%N eqn:E.
  - apply N.eqb_eq in E. subst. simpl. now rewrite IH.
  - simpl. destruct c as [|p]; [now rewrite IH|].
    destruct (esc l) as [|d r] eqn:El.
    + rewrite <- IH. simpl. destruct p; try reflexivity; destruct p; try reflexivity;
        destruct p; try reflexivity; destruct p; try reflexivity; destruct p; try reflexivity;
        destruct p; reflexivity.
    + assert (N.pos p <> 34%N) as NE by (intro H; rewrite H in E; discriminate).
      rewrite <- IH.
      destruct p; try reflexivity; destruct p; try reflexivity; destruct p; try reflexivity;
        destruct p; try reflexivity; destruct p; try reflexivity; destruct p; try reflexivity;
        congruence.
Qed.

Lemma esc_app a b : esc (a ++ b) = esc a ++ esc b.
Proof.
  induction a as [|c a IH]; simpl; [reflexivity|].
  destruct (c =? 34)%N; simpl; now rewrite IH.
Qed.

Lemma esc_length l : (length l <= length (esc l))%nat.
Proof. induction l as [|c l IH]; simpl; [lia|]. destruct (c =? 34)%N; simpl; lia. Qed.

Lemma esc_rev l : esc (rev l) = rev (esc l).
Proof.
  induction l as [|c l IH]; simpl; [reflexivity|].
  rewrite esc_app, IH. simpl. destruct (c =? 34)%N eqn:E; simpl.
  - apply N.eqb_eq in E. subst. rewrite <- app_assoc. reflexivity.
  - reflexivity.
Qed.

Lemma isspace_not_quote c : isspace c = true -> (c =? 34)%N = false.
Proof. intro H. destruct (c =? 34)%N eqn:E; [|reflexivity]. apply N.eqb_eq in E. subst. discriminate. Qed.

Lemma lstrip_esc l : lstrip (esc l) = esc (lstrip l).
Proof.
  induction l as [|c l IH]; [reflexivity|].
  destruct (isspace c) eqn:S.
  - pose proof (isspace_not_quote _ S) as E. cbn [esc lstrip]. rewrite E, S. cbn [lstrip]. now rewrite S.
  - destruct (c =? 34)%N eqn:E; cbn [esc lstrip]; rewrite S, E; cbn [lstrip esc]; rewrite ?E.
    + reflexivity.
    + now rewrite S.
Qed.

Lemma strip_esc l : strip (esc l) = esc (strip l).
Proof. unfold strip, rstrip. rewrite lstrip_esc, <- esc_rev, lstrip_esc, esc_rev. reflexivity. Qed.

(* the written form contains no lone quote *)
Fixpoint quotes_paired (s : text) : bool :=
  match s with
  | 34%N :: 34%N :: s' => quotes_paired s'
  | 34%N :: _ => false
  | _ :: s' => quotes_paired s'
  | [] => true
  end.

Lemma quotes_paired_esc l : quotes_paired (esc l) = true.
Proof.
  induction l as [|c l IH]; simpl; [reflexivity|].
  destruct (c =? 34)%N eqn:E; simpl; [exact IH|].
  destruct c as [|p]; [exact IH|].
  assert (N.pos p <> 34%N) as NE by (intro H; rewrite H in E; discriminate).
  destruct p; try exact IH; destruct p; try exact IH; destruct p; try exact IH;
    destruct p; try exact IH; destruct p; try exact IH; destruct p; try exact IH; congruence.
Qed.

(* ------------------------------------------------------------------ *)
(* quote runs                                                          *)

Definition QS (n : nat) : text := repeat 34%N n.

Lemma quote_run_QS n c t : isq c = false -> quote_run (QS n ++ c :: t) = Some (n, c :: t).
Proof.
  intro H. induction n as [|n IH]; simpl.
  - now rewrite H.
  - unfold QS in IH. now rewrite IH.
Qed.

(* leading quotes of a text *)
Fixpoint lead (l : text) : nat * text :=
  match l with
  | c :: l' => if isq c then let '(n, r) := lead l' in (S n, r) else (O, l)
  | [] => (O, [])
  end.

Lemma lead_spec l : let '(n, r) := lead l in
  l = QS n ++ r /\ match r with c :: _ => isq c = false | [] => True end /\ (length r <= length l)%nat.
Proof.
  induction l as [|c l IH]; simpl; [auto|].
  destruct (isq c) eqn:E.
  - destruct (lead l) as [n r]. destruct IH as (-> & H & L). unfold isq in E. apply N.eqb_eq in E. subst.
    repeat split; auto; simpl; rewrite ?app_length in *; simpl in *; lia.
  - repeat split; auto.
Qed.

Lemma esc_QS n : esc (QS n) = QS (2 * n).
Proof.
  induction n as [|n IH]; [reflexivity|]. change (QS (S n)) with (34%N :: QS n).
  cbn [esc]. rewrite N.eqb_refl, IH. replace (2 * S n)%nat with (S (S (2 * n))) by lia. reflexivity.
Qed.

Lemma QS_app n m : QS n ++ QS m = QS (n + m).
Proof. unfold QS. now rewrite repeat_app. Qed.

Lemma rev_QS n : rev (QS n) = QS n.
Proof.
  induction n as [|n IH]; [reflexivity|]. change (QS (S n)) with (34%N :: QS n).
  cbn [rev]. rewrite IH. change [34%N] with (QS 1). rewrite QS_app.
  replace (n + 1)%nat with (S n) by lia. reflexivity.
Qed.

Lemma esc_nonq c l : isq c = false -> esc (c :: l) = c :: esc l.
Proof. unfold isq. intro H. simpl. now rewrite H. Qed.

Lemma odd_double_S n : Nat.odd (2 * n + 1) = true.
Proof. replace (2 * n + 1)%nat with (1 + 2 * n)%nat by lia. rewrite Nat.odd_add_mul_2. reflexivity. Qed.
Lemma odd_double n : Nat.odd (2 * n) = false.
Proof. replace (2 * n)%nat with (0 + 2 * n)%nat by lia. rewrite Nat.odd_add_mul_2. reflexivity. Qed.

Lemma scan_run f n c t acc : isq c = false -> (1 <= n)%nat ->
  scan_text (S f) (QS n ++ c :: t) acc =
  if Nat.odd n then Ok (rev (QS n ++ acc), c :: t) else scan_text f (c :: t) (QS n ++ acc).
Proof.
  intros Hc Hn. destruct n as [|n]; [lia|].
  change (QS (S n) ++ c :: t) with (34%N :: (QS n ++ c :: t)).
  cbn [scan_text]. change (isq 34%N) with true. cbv iota.
  change (34%N :: QS n ++ c :: t) with (QS (S n) ++ c :: t).
  rewrite (quote_run_QS _ _ _ Hc). reflexivity.
Qed.

Lemma scan_nonq f y t acc : isq y = false -> scan_text (S f) (y :: t) acc = scan_text f t (y :: acc).
Proof. intro H. cbn [scan_text]. now rewrite H. Qed.

(* the scan of _fetchTextRow over an escaped label followed by the closing quote
   and a non-quote character stops exactly after the closing quote *)
Lemma scan_text_esc : forall n l, (length l <= n)%nat ->
  forall fuel acc c rest, isq c = false -> (length l < fuel)%nat ->
  scan_text fuel (esc l ++ 34%N :: c :: rest) acc = Ok (rev acc ++ esc l ++ [34%N], c :: rest).
Proof.
  induction n as [|n IHn]; intros l Hl fuel acc c rest Hc Hf.
  - destruct l; [|simpl in Hl; lia]. destruct fuel as [|f]; [simpl in Hf; lia|].
    change (esc [] ++ 34%N :: c :: rest) with (QS 1 ++ c :: rest).
    rewrite (scan_run _ _ _ _ _ Hc (le_n 1)). reflexivity.
  - destruct fuel as [|f]; [lia|].
    destruct l as [|x l'].
    + change (esc [] ++ 34%N :: c :: rest) with (QS 1 ++ c :: rest).
      rewrite (scan_run _ _ _ _ _ Hc (le_n 1)). reflexivity.
    + destruct (isq x) eqn:Ex.
      * (* a run of quotes inside or at the end of the label *)
        pose proof (lead_spec (x :: l')) as LS. destruct (lead (x :: l')) as [k r] eqn:EL.
        destruct LS as (E & Hr & Lr).
        assert (1 <= k)%nat as Hk. { simpl in EL. rewrite Ex in EL. destruct (lead l'); injection EL; intros; lia. }
        assert (length r + k = length (x :: l'))%nat as Lr'.
        { assert (length (x :: l') = length (QS k ++ r)) as EE by (rewrite <- E; reflexivity).
          rewrite EE, app_length. unfold QS. rewrite repeat_length. lia. }
        rewrite E, esc_app, esc_QS.
        destruct r as [|y r'].
        -- (* the label ends with the run: closing run of odd length *)
           change (esc []) with (@nil N). rewrite app_nil_r.
           replace (QS (2 * k) ++ 34%N :: c :: rest) with (QS (2 * k + 1) ++ c :: rest)
             by (rewrite <- QS_app, <- app_assoc; reflexivity).
           rewrite (scan_run _ _ _ _ _ Hc) by lia. rewrite odd_double_S.
           f_equal. f_equal. rewrite rev_app_distr, rev_QS, <- QS_app, <- ?app_assoc. reflexivity.
        -- (* even run, then the scan goes on *)
           rewrite <- app_assoc, (esc_nonq _ _ Hr). change ((y :: esc r') ++ 34%N :: c :: rest)
             with (y :: (esc r' ++ 34%N :: c :: rest)).
           rewrite (scan_run _ _ _ _ _ Hr) by lia. rewrite odd_double.
           destruct f as [|f']; [simpl in Hf, Lr'; lia|].
           rewrite (scan_nonq _ _ _ _ Hr).
           rewrite (IHn r'); [|simpl in *; lia|exact Hc|simpl in *; lia].
           f_equal. f_equal. cbn [rev]. rewrite rev_app_distr, rev_QS, <- ?app_assoc. reflexivity.
      * rewrite (esc_nonq _ _ Ex). change ((x :: esc l') ++ 34%N :: c :: rest) with (x :: (esc l' ++ 34%N :: c :: rest)).
        rewrite (scan_nonq _ _ _ _ Ex).
        rewrite (IHn l'); [|simpl in *; lia|exact Hc|simpl in *; lia].
        cbn [rev]. rewrite <- ?app_assoc. reflexivity.
Qed.

Lemma drop_last_app_single (s : text) x : drop_last (s ++ [x]) = s.
Proof.
  induction s as [|c s IH]; simpl; [reflexivity|].
  destruct (s ++ [x]) eqn:E; [destruct s; discriminate|]. f_equal. exact IH.
Qed.

Lemma take_line_app line rest :
  forallb (fun c => negb (c =? 10)%N) line = true -> take_line (line ++ 10%N :: rest) = Some (line, rest).
Proof.
  induction line as [|c line IH]; simpl; intro H; [reflexivity|].
  apply andb_prop in H as [H1 H2]. apply negb_true_iff in H1. rewrite H1, (IH H2). reflexivity.
Qed.

(* _fetchTextRow on a written label or name: returns the (stripped) text and the
   position after the end of the line, for EVERY label *)
Theorem fetch_text_row_quoted l rest :
  fetch_text_row (quoted l ++ 10%N :: rest) = Ok (strip l, rest).
Proof.
  unfold fetch_text_row, quoted, Q1. simpl app.
  rewrite <- app_assoc. simpl app.
  rewrite (scan_text_esc (length l) l (le_n _)); [|reflexivity|rewrite !app_length; simpl; pose proof (esc_length l); lia].
  simpl bind. cbn [rev app tl].
  rewrite drop_last_app_single, strip_esc, unesc_esc. simpl. reflexivity.
Qed.

(* ------------------------------------------------------------------ *)
(* _fetchRow on a written number or class row                           *)

Definition plain_tok (t : text) : bool :=
  match t with [] => false | _ => forallb (fun c => negb (isspace c) && negb (isq c)) t end.

Lemma lstrip_nospace t : match t with c :: _ => isspace c = false | [] => True end -> lstrip t = t.
Proof. apply lstrip_noop. Qed.

Lemma strip_plain t : forallb (fun c => negb (isspace c) && negb (isq c)) t = true -> strip t = t.
Proof.
  intro H. unfold strip, rstrip.
  assert (forall u, forallb (fun c => negb (isspace c) && negb (isq c)) u = true -> lstrip u = u) as L.
  { intros [|c u] Hu; [reflexivity|]. simpl in *. apply andb_prop in Hu as [Hc _].
    apply andb_prop in Hc as [Hc _]. apply negb_true_iff in Hc. now rewrite Hc. }
  rewrite (L t H). rewrite L; [apply rev_involutive|].
  apply forallb_forall. intros x Hx. apply in_rev in Hx. rewrite forallb_forall in H. now apply H.
Qed.

Lemma last_opt_cons {A} (c : A) l : last_opt (c :: l) <> None.
Proof. revert c; induction l as [|d l IH]; intro c; [discriminate|]. change (last_opt (c :: d :: l)) with (last_opt (d :: l)). apply IH. Qed.

Theorem fetch_row_plain t rest : plain_tok t = true -> fetch_row (t ++ 10%N :: rest) = Ok (t, rest).
Proof.
  intro H. unfold plain_tok in H. destruct t as [|c0 t']; [discriminate|].
  unfold fetch_row. rewrite take_line_app.
  - rewrite (strip_plain _ H).
    destruct (last_opt (c0 :: t')) as [cl|] eqn:EL.
    + pose proof H as H0. cbn [forallb] in H0. apply andb_prop in H0 as [Hc Ht]. apply andb_prop in Hc as [_ Hq].
      apply negb_true_iff in Hq. rewrite Hq. cbn [andb]. rewrite (strip_plain _ H). reflexivity.
    + exfalso. exact (last_opt_cons _ _ EL).
  - apply forallb_forall. intros x Hx. rewrite forallb_forall in H. specialize (H x Hx).
    apply andb_prop in H as [Hs _]. apply negb_true_iff in Hs. apply negb_true_iff.
    destruct (x =? 10)%N eqn:E; [|reflexivity]. apply N.eqb_eq in E. subst. discriminate.
Qed.

(* ------------------------------------------------------------------ *)
(* entry loops of a short-form tier block                               *)

Definition rd_entry (tab : numtab) (e : dentry) : rentry :=
  match e with
  | DI s e' l => RI (num_str (lookup tab s)) (num_str (lookup tab e')) (strip l)
  | DP t l => RP (num_str (lookup tab t)) (strip l)
  end.

Definition times_plain (tab : numtab) (e : dentry) : bool :=
  match e with
  | DI s e' _ => plain_tok (num_str (lookup tab s)) && plain_tok (num_str (lookup tab e'))
  | DP t _ => plain_tok (num_str (lookup tab t))
  end.

Definition is_DIb (e : dentry) : bool := match e with DI _ _ _ => true | DP _ _ => false end.

Lemma fetch_row_nil : fetch_row [] = Err PyError.
Proof. reflexivity. Qed.

Theorem short_intervals_printed tab ents : forall fuel,
  forallb is_DIb ents = true -> forallb (times_plain tab) ents = true -> (length ents < fuel)%nat ->
  short_intervals fuel (flat_map (short_entry tab) ents) = map (rd_entry tab) ents.
Proof.
  induction ents as [|e ents IH]; intros fuel HD HT HF.
  - destruct fuel; [simpl in HF; lia|]. reflexivity.
  - destruct fuel as [|f]; [simpl in HF; lia|].
    cbn [forallb] in HD, HT. apply andb_prop in HD as [HD1 HD2]. apply andb_prop in HT as [HT1 HT2].
    destruct e as [s e' l|]; [|discriminate]. cbn [times_plain] in HT1. apply andb_prop in HT1 as [P1 P2].
    cbn [flat_map short_entry]. unfold NL1. rewrite <- !app_assoc. cbn [app].
    cbn [short_intervals]. rewrite (fetch_row_plain _ _ P1), (fetch_row_plain _ _ P2).
    rewrite fetch_text_row_quoted. rewrite strip_idem. cbn [map rd_entry]. f_equal.
    apply IH; auto. simpl in HF. lia.
Qed.

Theorem short_points_printed tab ents : forall fuel,
  forallb (fun e => negb (is_DIb e)) ents = true -> forallb (times_plain tab) ents = true -> (length ents < fuel)%nat ->
  short_points fuel (flat_map (short_entry tab) ents) = map (rd_entry tab) ents.
Proof.
  induction ents as [|e ents IH]; intros fuel HD HT HF.
  - destruct fuel; [simpl in HF; lia|]. reflexivity.
  - destruct fuel as [|f]; [simpl in HF; lia|].
    cbn [forallb] in HD, HT. apply andb_prop in HD as [HD1 HD2]. apply andb_prop in HT as [HT1 HT2].
    destruct e as [|t l]; [discriminate|]. cbn [times_plain] in HT1.
    cbn [flat_map short_entry]. unfold NL1. rewrite <- !app_assoc. cbn [app].
    cbn [short_points]. rewrite (fetch_row_plain _ _ HT1).
    rewrite fetch_text_row_quoted. rewrite strip_idem. cbn [map rd_entry]. f_equal.
    apply IH; auto. simpl in HF. lia.
Qed.

(* ------------------------------------------------------------------ *)
(* the long-form reader's greedy quoted group                           *)

Lemma quoted_group_tail dotall tail : forall acc best,
  forallb (fun c => negb (isq c)) tail = true ->
  quoted_group dotall tail acc best = best.
Proof.
  induction tail as [|c tail IH]; intros acc best H; [reflexivity|].
  cbn [forallb] in H. apply andb_prop in H as [Hc Ht]. apply negb_true_iff in Hc.
  cbn [quoted_group]. destruct ((c =? 10)%N && negb dotall); [reflexivity|].
  rewrite Hc. cbn [andb]. apply IH, Ht.
Qed.

(* text = "<body>" <tail>: the group is the body when the tail holds no quote and is
   white space up to its line end; body may contain anything (quotes, newlines) under DOTALL *)
Theorem quoted_group_body body tail : forall acc best,
  forallb (fun c => negb (isq c)) tail = true -> ws_to_eol tail = true ->
  quoted_group true (body ++ 34%N :: tail) acc best = Some (rev acc ++ body).
Proof.
  induction body as [|c body IH]; intros acc best HT HW.
  - cbn [app quoted_group]. rewrite andb_false_r. change (isq 34%N) with true. rewrite HW. cbn [andb].
    rewrite quoted_group_tail by exact HT. now rewrite app_nil_r.
  - cbn [app quoted_group]. rewrite andb_false_r. rewrite IH by assumption.
    cbn [rev]. now rewrite <- app_assoc.
Qed.

(* single-line variant used for tier names: body without newline *)
Theorem quoted_group_line body tail : forall acc best,
  forallb (fun c => negb (c =? 10)%N) body = true ->
  forallb (fun c => negb (isq c)) tail = true -> ws_to_eol tail = true ->
  quoted_group false (body ++ 34%N :: tail) acc best = Some (rev acc ++ body).
Proof.
  induction body as [|c body IH]; intros acc best HB HT HW.
  - cbn [app quoted_group]. change (34 =? 10)%N with false. cbn [andb]. change (isq 34%N) with true. rewrite HW. cbn [andb].
    rewrite quoted_group_tail by exact HT. now rewrite app_nil_r.
  - cbn [forallb] in HB. apply andb_prop in HB as [Hc HB]. apply negb_true_iff in Hc.
    cbn [app quoted_group]. rewrite Hc. cbn [andb]. rewrite IH by assumption.
    cbn [rev]. now rewrite <- app_assoc.
Qed.

(* hence: the text field of a written interval is read back as the label, for every label *)
Theorem long_text_field_roundtrip l tail :
  forallb (fun c => negb (isq c)) tail = true -> ws_to_eol tail = true ->
  match quoted_group true (esc l ++ 34%N :: tail) [] None with
  | Some g => unesc (strip g) = strip l
  | None => False
  end.
Proof.
  intros HT HW. rewrite (quoted_group_body _ _ [] None HT HW). cbn [rev app].
  rewrite strip_esc. apply unesc_esc.
Qed.
