(* IO/Str.v -- Python str operations on text (list of code points) used by
   textgrid_io.py: literals, decimal numerals, find/index, split, replace. *)
From Coq Require Import String Ascii.
From PraatIO Require Export Base.PyText.

Definition T (s : string) : text := map (fun c => N_of_ascii c) (list_ascii_of_string s).

Definition digit (d : nat) : N := (48 + N.of_nat d)%N.

Fixpoint nat_to_text_fuel (fuel n : nat) (acc : text) : text :=
  match fuel with
  | O => acc
  | S f => let acc' := digit (n mod 10) :: acc in
           if (n / 10 =? 0)%nat then acc' else nat_to_text_fuel f (n / 10) acc'
  end.
Definition nat_to_text (n : nat) : text := nat_to_text_fuel (S n) n [].

(* str.index(sub) on a suffix: the text before the first occurrence and the
   text from the occurrence on *)
Fixpoint break_at (sub : text) (s : text) (acc_rev : text) : option (text * text) :=
  if is_prefix sub s then Some (rev acc_rev, s)
  else match s with
       | [] => None
       | c :: s' => break_at sub s' (c :: acc_rev)
       end.
Definition find_sub (sub s : text) : option (text * text) := break_at sub s [].

Definition NLt : text := [10%N].

(* the text up to the first newline, and what follows it; None = ValueError *)
Fixpoint take_line (s : text) : option (text * text) :=
  match s with
  | [] => None
  | c :: s' => if (c =? 10)%N then Some ([], s')
               else match take_line s' with
                    | Some (l, r) => Some (c :: l, r) | None => None end
  end.

(* str.split on newline *)
Fixpoint split_nl (s : text) : list text :=
  match s with
  | [] => [[]]
  | c :: s' => if (c =? 10)%N then [] :: split_nl s'
               else match split_nl s' with
                    | l :: ls => (c :: l) :: ls
                    | [] => [[c]] end
  end.

(* str.split(sep) for a one-character separator *)
Fixpoint split_on (sep : N) (s : text) : list text :=
  match s with
  | [] => [[]]
  | c :: s' => if (c =? sep)%N then [] :: split_on sep s'
               else match split_on sep s' with
                    | l :: ls => (c :: l) :: ls
                    | [] => [[c]] end
  end.

(* data.replace CRLF by LF *)
Fixpoint crlf_to_lf (s : text) : text :=
  match s with
  | 13%N :: ((10%N :: _) as s') => crlf_to_lf s'
  | c :: s' => c :: crlf_to_lf s'
  | [] => []
  end.

(* utils.escapeQuotes : every double quote is doubled *)
Fixpoint esc (s : text) : text :=
  match s with
  | [] => []
  | c :: s' => if (c =? 34)%N then 34%N :: 34%N :: esc s' else c :: esc s'
  end.

(* word.replace of a doubled quote by one quote: left to right, non-overlapping *)
Fixpoint unesc (s : text) : text :=
  match s with
  | 34%N :: ((34%N :: s'') as s') => 34%N :: unesc s''
  | c :: s' => c :: unesc s'
  | [] => []
  end.

Definition has_sub (sub s : text) : bool := contains sub s.

Fixpoint drop_last (s : text) : text :=
  match s with
  | [] => []
  | [_] => []
  | c :: s' => c :: drop_last s'
  end.

Definition last_char (s : text) : option N := last_opt s.
