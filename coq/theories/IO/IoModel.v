(* IO/IoModel.v -- models of praatio/utilities/textgrid_io.py: preparation for
   saving, the short and long text writers, the short and long text readers. *)
From Coq Require Import String.
From PraatIO Require Export IO.Str Tier.Interval.
Open Scope Z_scope.

(* ------------------------------------------------------------------ *)
(* data as handed to the writers: dictionaries of tiers                 *)

Inductive dentry := DI (s e : Z) (lab : text) | DP (t : Z) (lab : text).
Record dtier := mkDT { d_isint : bool; d_name : text; d_xmin : Z; d_xmax : Z; d_ents : list dentry }.
Record dtg := mkDTG { dg_xmin : Z; dg_xmax : Z; dg_tiers : list dtier }.

Definition dentry_eqb (a b : dentry) : bool :=
  match a, b with
  | DI s e l, DI s' e' l' => (s =? s') && (e =? e') && text_eqb l l'
  | DP t l, DP t' l' => (t =? t') && text_eqb l l'
  | _, _ => false
  end.
Definition dtier_eqb (a b : dtier) : bool :=
  Bool.eqb (d_isint a) (d_isint b) && text_eqb (d_name a) (d_name b)
  && (d_xmin a =? d_xmin b) && (d_xmax a =? d_xmax b) && list_eqb dentry_eqb (d_ents a) (d_ents b).
Definition dtg_eqb (a b : dtg) : bool :=
  (dg_xmin a =? dg_xmin b) && (dg_xmax a =? dg_xmax b) && list_eqb dtier_eqb (dg_tiers a) (dg_tiers b).

(* Python tuple order on entries (times first, then label) *)
Definition dcmp (a b : dentry) : comparison :=
  match a, b with
  | DI s e l, DI s' e' l' => icmp (mkI s e l) (mkI s' e' l')
  | DP t l, DP t' l' => pcmp (mkP t l) (mkP t' l')
  | DI _ _ _, DP _ _ => Gt
  | DP _ _, DI _ _ _ => Lt
  end.
Definition dleb (a b : dentry) : bool := match dcmp a b with Gt => false | _ => true end.
Definition dsort := isort dleb.

(* ------------------------------------------------------------------ *)
(* _fillInBlanks, _removeUltrashortIntervals, _prepTgForSaving          *)

Definition ds (e : dentry) : Z := match e with DI s _ _ => s | DP t _ => t end.
Definition de (e : dentry) : Z := match e with DI _ e _ => e | DP t _ => t end.
Definition dl (e : dentry) : text := match e with DI _ _ l => l | DP _ l => l end.

Fixpoint fill_gaps (prevEnd : Z) (l : list dentry) : list dentry :=
  match l with
  | [] => []
  | e :: l' => (if prevEnd <? ds e then [DI prevEnd (ds e) []] else []) ++ e :: fill_gaps (de e) l'
  end.

Definition fill_blanks (minT maxT : Z) (ents : list dentry) : res (list dentry) :=
  let ents := match ents with [] => [DI minT maxT []] | _ => ents end in
  match ents with
  | [] => Err PyError
  | e0 :: rest =>
      let l1 := e0 :: fill_gaps (de e0) rest in
      if ds e0 <? minT then Err ParsingError else
      let l2 := if minT <? ds e0 then DI minT (ds e0) [] :: l1 else l1 in
      match last_opt l2 with
      | None => Err PyError
      | Some el =>
          if maxT <? de el then Err ParsingError else
          let l3 := if de el <? maxT then l2 ++ [DI (de el) maxT []] else l2 in
          Ok (dsort l3)
      end
  end.

(* threshold = num/den ticks, den > 0:  x < threshold  <->  x * den < num *)
Definition below (thr : Z * Z) (x : Z) : bool := x * snd thr <? fst thr.

(* first pass: newEntries kept in reverse (head = last appended) *)
Fixpoint ultra_pass1 (thr : Z * Z) (minT : Z) (l : list dentry) (acc_rev : list dentry) : list dentry :=
  match l with
  | [] => rev acc_rev
  | e :: l' =>
      if below thr (de e - ds e) then
        match acc_rev with
        | lst :: acc' => ultra_pass1 thr minT l' (DI (ds lst) (de e) (dl lst) :: acc')
        | [] => ultra_pass1 thr minT l' []
        end
      else
        match acc_rev with
        | [] => ultra_pass1 thr minT l' [if negb (ds e =? minT) then DI minT (de e) (dl e) else DI (ds e) (de e) (dl e)]
        | _ => ultra_pass1 thr minT l' (DI (ds e) (de e) (dl e) :: acc_rev)
        end
  end.

Fixpoint ultra_pass2 (thr : Z * Z) (l : list dentry) : list dentry :=
  match l with
  | a :: l' =>
      match l' with
      | b :: _ =>
          let diff := Z.abs (de a - ds b) in
          (if (0 <? diff) && below thr diff then DI (ds a) (ds b) (dl a) else a) :: ultra_pass2 thr l'
      | [] => [a]
      end
  | [] => []
  end.

(* the function before the repair of F19: a tier all of whose intervals are shorter than the
   threshold came out with no interval at all *)
Definition remove_ultrashort_legacy (thr : Z * Z) (minT : Z) (l : list dentry) : list dentry :=
  ultra_pass2 thr (ultra_pass1 thr minT l []).

(* newEntries is empty exactly when no interval reaches the threshold; then, as for a tier without
   entries, one blank interval from the tier's start to the last end is written *)
Definition remove_ultrashort (thr : Z * Z) (minT : Z) (l : list dentry) : list dentry :=
  match ultra_pass1 thr minT l [], last_opt l with
  | [], Some e => ultra_pass2 thr [DI minT (de e) []]
  | p1, _ => ultra_pass2 thr p1
  end.

Definition prep_tier (blanks : bool) (minT maxT : Z) (thr : option (Z * Z)) (t : dtier) : res dtier :=
  let ents := dsort (d_ents t) in
  if blanks && d_isint t then
    do l <- fill_blanks minT maxT ents;
    let l' := match thr with Some th => remove_ultrashort th minT l | None => l end in
    Ok (mkDT (d_isint t) (d_name t) (d_xmin t) (d_xmax t) (dsort l'))
  else Ok (mkDT (d_isint t) (d_name t) (d_xmin t) (d_xmax t) ents).

(* an entry outside a requested minTimestamp / maxTimestamp *)
Definition outside_override (mn mx : option Z) (g : dtg) : bool :=
  existsb (fun t => existsb (fun e =>
      (match mn with Some a => ds e <? a | None => false end)
      || (match mx with Some b => b <? de e | None => false end)) (d_ents t)) (dg_tiers g).

Definition prep_tg (blanks : bool) (mn mx : option Z) (thr : option (Z * Z)) (g : dtg) : res dtg :=
  if outside_override mn mx g then Err ParsingError else
  let minT := match mn with Some a => a | None => dg_xmin g end in
  let maxT := match mx with Some b => b | None => dg_xmax g end in
  do ts <- (fix go (l : list dtier) : res (list dtier) :=
              match l with
              | [] => Ok []
              | t :: l' => do t' <- prep_tier blanks minT maxT thr t; do r <- go l'; Ok (t' :: r)
              end) (dg_tiers g);
  Ok (mkDTG minT maxT ts).

(* ------------------------------------------------------------------ *)
(* numbers in files: opaque tokens supplied with their lexical forms    *)

Record num := mkNum { near_int : bool; int_str : text; repr_str : text }.
Definition num_str (n : num) : text := if near_int n then int_str n else repr_str n.   (* my_math.numToStr *)

Definition numtab := list (Z * num).
Fixpoint lookup (tab : numtab) (x : Z) : num :=
  match tab with
  | [] => mkNum true [63%N] [63%N]
  | (k, n) :: tab' => if k =? x then n else lookup tab' x
  end.

(* ------------------------------------------------------------------ *)
(* writers                                                             *)

Definition Q1 : text := [34%N].
Definition NL1 : text := [10%N].
Definition quoted (s : text) : text := Q1 ++ esc s ++ Q1.

Definition short_entry (tab : numtab) (e : dentry) : text :=
  match e with
  | DI s e l => num_str (lookup tab s) ++ NL1 ++ num_str (lookup tab e) ++ NL1 ++ quoted l ++ NL1
  | DP t l => num_str (lookup tab t) ++ NL1 ++ quoted l ++ NL1
  end.

Definition class_name (isint : bool) : text := if isint then T "IntervalTier" else T "TextTier".

Definition short_tier (tab : numtab) (t : dtier) : text :=
  Q1 ++ class_name (d_isint t) ++ Q1 ++ NL1
  ++ quoted (d_name t) ++ NL1
  ++ num_str (lookup tab (d_xmin t)) ++ NL1 ++ num_str (lookup tab (d_xmax t)) ++ NL1
  ++ nat_to_text (length (d_ents t)) ++ NL1
  ++ flat_map (short_entry tab) (d_ents t).

Definition HEADER : text := T "File type = ""ooTextFile""" ++ NL1 ++ T "Object class = ""TextGrid""" ++ NL1 ++ NL1.

Definition print_short (tab : numtab) (g : dtg) : text :=
  HEADER
  ++ num_str (lookup tab (dg_xmin g)) ++ NL1 ++ num_str (lookup tab (dg_xmax g)) ++ NL1
  ++ T "<exists>" ++ NL1 ++ nat_to_text (length (dg_tiers g)) ++ NL1
  ++ flat_map (short_tier tab) (dg_tiers g).

Definition TAB : text := T "    ".
Definition SPNL : text := T " " ++ NL1.

Fixpoint long_entries (tab : numtab) (isint : bool) (k : nat) (l : list dentry) : text :=
  match l with
  | [] => []
  | e :: l' =>
      (match e with
       | DI s e' lab =>
           TAB ++ TAB ++ T "intervals [" ++ nat_to_text k ++ T "]:" ++ NL1
           ++ TAB ++ TAB ++ TAB ++ T "xmin = " ++ num_str (lookup tab s) ++ SPNL
           ++ TAB ++ TAB ++ TAB ++ T "xmax = " ++ num_str (lookup tab e') ++ SPNL
           ++ TAB ++ TAB ++ TAB ++ T "text = " ++ quoted lab ++ SPNL
       | DP t lab =>
           TAB ++ TAB ++ T "points [" ++ nat_to_text k ++ T "]:" ++ NL1
           ++ TAB ++ TAB ++ TAB ++ T "number = " ++ num_str (lookup tab t) ++ SPNL
           ++ TAB ++ TAB ++ TAB ++ T "mark = " ++ quoted lab ++ SPNL
       end) ++ long_entries tab isint (S k) l'
  end.

Fixpoint long_tiers (tab : numtab) (k : nat) (l : list dtier) : text :=
  match l with
  | [] => []
  | t :: l' =>
      TAB ++ T "item [" ++ nat_to_text k ++ T "]:" ++ NL1
      ++ TAB ++ TAB ++ T "class = " ++ Q1 ++ class_name (d_isint t) ++ Q1 ++ SPNL
      ++ TAB ++ TAB ++ T "name = " ++ quoted (d_name t) ++ SPNL
      ++ TAB ++ TAB ++ T "xmin = " ++ num_str (lookup tab (d_xmin t)) ++ SPNL
      ++ TAB ++ TAB ++ T "xmax = " ++ num_str (lookup tab (d_xmax t)) ++ SPNL
      ++ TAB ++ TAB ++ (if d_isint t then T "intervals: size = " else T "points: size = ")
      ++ nat_to_text (length (d_ents t)) ++ SPNL
      ++ long_entries tab (d_isint t) 1 (d_ents t)
      ++ long_tiers tab (S k) l'
  end.

Definition print_long (tab : numtab) (g : dtg) : text :=
  HEADER
  ++ T "xmin = " ++ num_str (lookup tab (dg_xmin g)) ++ SPNL
  ++ T "xmax = " ++ num_str (lookup tab (dg_xmax g)) ++ SPNL
  ++ T "tiers? <exists> " ++ NL1
  ++ T "size = " ++ nat_to_text (length (dg_tiers g)) ++ SPNL
  ++ T "item []: " ++ NL1
  ++ long_tiers tab 1 (dg_tiers g).

(* getTextgridAsStr for the two Praat text formats *)
Definition save_text (long : bool) (blanks : bool) (mn mx : option Z) (thr : option (Z * Z))
           (tab : numtab) (g : dtg) : res text :=
  do g' <- prep_tg blanks mn mx thr g;
  Ok (if long then print_long tab g' else print_short tab g').

(* ------------------------------------------------------------------ *)
(* what the readers return: number tokens stay text                     *)

Inductive rentry := RI (s e lab : text) | RP (t lab : text).
Record rtier := mkRT { r_isint : bool; r_name : text; r_xmin : text; r_xmax : text; r_ents : list rentry }.
Record rtg := mkRTG { rg_xmin : text; rg_xmax : text; rg_tiers : list rtier }.

Definition rentry_eqb (a b : rentry) : bool :=
  match a, b with
  | RI s e l, RI s' e' l' => text_eqb s s' && text_eqb e e' && text_eqb l l'
  | RP t l, RP t' l' => text_eqb t t' && text_eqb l l'
  | _, _ => false
  end.
Definition rtier_eqb (a b : rtier) : bool :=
  Bool.eqb (r_isint a) (r_isint b) && text_eqb (r_name a) (r_name b)
  && text_eqb (r_xmin a) (r_xmin b) && text_eqb (r_xmax a) (r_xmax b)
  && list_eqb rentry_eqb (r_ents a) (r_ents b).
Definition rtg_eqb (a b : rtg) : bool :=
  text_eqb (rg_xmin a) (rg_xmin b) && text_eqb (rg_xmax a) (rg_xmax b)
  && list_eqb rtier_eqb (rg_tiers a) (rg_tiers b).

(* ------------------------------------------------------------------ *)
(* short-form reader: _fetchRow, _fetchTextRow, _parseShortTextgrid     *)

Definition isq (c : N) : bool := (c =? 34)%N.

(* _fetchRow on the suffix starting at index: (word, rest) *)
Definition fetch_row (s : text) : res (text * text) :=
  match take_line s with
  | None => Err PyError                                   (* ValueError: no newline *)
  | Some (line, rest) =>
      let w := strip line in
      match w, last_opt w with
      | c0 :: _, Some cl =>
          let w' := if isq c0 && isq cl then drop_last (tl w) else w in
          Ok (strip w', rest)
      | _, _ => Err PyError                               (* IndexError: empty word *)
      end
  end.

(* run of quotes at the head of s: its length and the rest; None when the run
   reaches the end of the text (IndexError in the source) *)
Fixpoint quote_run (s : text) : option (nat * text) :=
  match s with
  | [] => None
  | c :: s' => if isq c then match quote_run s' with Some (n, r) => Some (S n, r) | None => None end
               else Some (O, s)
  end.

(* scan for the terminating odd run of quotes; returns the text consumed up to
   and including that run, and the rest.  fuel = length of the text. *)
Fixpoint scan_text (fuel : nat) (s : text) (acc_rev : text) : res (text * text) :=
  match fuel with
  | O => Err PyError
  | S f =>
      match s with
      | [] => Err PyError                                  (* ValueError: no quote *)
      | c :: s' =>
          if isq c then
            match quote_run s with
            | None => Err PyError                          (* IndexError at end of data *)
            | Some (n, r) =>
                let acc' := repeat 34%N n ++ acc_rev in
                if Nat.odd n then Ok (rev acc', r) else scan_text f r acc'
            end
          else scan_text f s' (c :: acc_rev)
      end
  end.

(* _fetchTextRow on the suffix starting at index *)
Definition fetch_text_row (s : text) : res (text * text) :=
  match s with
  | [] => Err PyError
  | c0 :: s1 =>
      do wr <- scan_text (S (length s1)) s1 [c0];
      let '(w, r) := wr in
      let word := unesc (strip (drop_last (tl w))) in
      match take_line r with
      | None => Err PyError
      | Some (_, rest) => Ok (word, rest)
      end
  end.

(* entry loops: stop at the first fetch that fails *)
Fixpoint short_intervals (fuel : nat) (s : text) : list rentry :=
  match fuel with
  | O => []
  | S f =>
      match fetch_row s with
      | Ok (st, r1) =>
          match fetch_row r1 with
          | Ok (en, r2) =>
              match fetch_text_row r2 with
              | Ok (lab, r3) => RI st en (strip lab) :: short_intervals f r3
              | Err _ => [] end
          | Err _ => [] end
      | Err _ => []
      end
  end.

Fixpoint short_points (fuel : nat) (s : text) : list rentry :=
  match fuel with
  | O => []
  | S f =>
      match fetch_row s with
      | Ok (tm, r1) =>
          match fetch_text_row r1 with
          | Ok (lab, r2) => RP tm (strip lab) :: short_points f r2
          | Err _ => [] end
      | Err _ => []
      end
  end.

Definition QINT : text := Q1 ++ T "IntervalTier" ++ Q1.
Definition QPT : text := Q1 ++ T "TextTier" ++ Q1.

(* cut the data at every occurrence of one of the two class keywords: header
   and a list of (isInterval, block text) *)
Fixpoint short_blocks (fuel : nat) (s : text) (cur_rev : text) (cur_kind : option bool)
         (acc : list (option bool * text)) : list (option bool * text) :=
  match fuel with
  | O => rev ((cur_kind, rev cur_rev) :: acc)
  | S f =>
      match s with
      | [] => rev ((cur_kind, rev cur_rev) :: acc)
      | c :: s' =>
          if is_prefix QINT s then short_blocks f s' [c] (Some true) ((cur_kind, rev cur_rev) :: acc)
          else if is_prefix QPT s then short_blocks f s' [c] (Some false) ((cur_kind, rev cur_rev) :: acc)
          else short_blocks f s' (c :: cur_rev) cur_kind acc
      end
  end.

Definition parse_short_tier (isint : bool) (block : text) : res rtier :=
  do a <- fetch_row block;
  do b <- fetch_text_row (snd a);
  do c <- fetch_row (snd b);
  do d <- fetch_row (snd c);
  do e <- fetch_row (snd d);
  let body := snd e in
  Ok (mkRT isint (fst b) (fst c) (fst d)
           (if isint then short_intervals (S (length body)) body else short_points (S (length body)) body)).

Fixpoint mapM_tiers (l : list (option bool * text)) : res (list rtier) :=
  match l with
  | [] => Ok []
  | (Some k, b) :: l' => do t <- parse_short_tier k b; do r <- mapM_tiers l'; Ok (t :: r)
  | (None, _) :: l' => mapM_tiers l'
  end.

Definition parse_short (data : text) : res rtg :=
  let data := crlf_to_lf data in
  match short_blocks (S (length data)) data [] None [] with
  | (None, header) :: blocks =>
      match blocks with
      | [] => Err PyError      (* tupleList[0] : IndexError *)
      | _ =>
          let hl := split_nl header in
          match nth_error hl 3, nth_error hl 4 with
          | Some a, Some b =>
              do ts <- mapM_tiers blocks;
              Ok (mkRTG (strip a) (strip b) ts)
          | _, _ => Err PyError
          end
      end
  | _ => Err PyError
  end.

(* ------------------------------------------------------------------ *)
(* long-form reader: per-pattern scanners for the regexes of            *)
(* _parseNormalTextgrid                                                 *)

(* does  \s*$  (MULTILINE) match here: only white space up to a line end *)
Fixpoint ws_to_eol (s : text) : bool :=
  match s with
  | [] => true
  | c :: s' => if (c =? 10)%N then true else if isspace c then ws_to_eol s' else false
  end.

(* one optional space, then the literal character lit *)
Definition opt_sp_then (lit : N) (s : text) : option text :=
  match s with
  | 32%N :: c :: r => if (c =? lit)%N then Some r else None
  | c :: r => if (c =? lit)%N then Some r else None
  | [] => None
  end.

(* one optional space (consumed if present) *)
Definition opt_sp (s : text) : text := match s with 32%N :: r => r | _ => s end.

(* keyword ?= ?  at the head of s *)
Definition match_kw_eq (kw s : text) : option text :=
  if is_prefix kw s then
    match opt_sp_then 61%N (skipn (length kw) s) with
    | Some r => Some (opt_sp r)
    | None => None end
  else None.

(* the quoted group after the opening quote: the LAST closing quote (greedy) that
   is followed by white space up to a line end; the group stops at a newline
   unless DOTALL *)
Fixpoint quoted_group (dotall : bool) (s : text) (acc_rev : text) (best : option text) : option text :=
  match s with
  | [] => best
  | c :: s' =>
      if (c =? 10)%N && negb dotall then best
      else
        let best' := if isq c && ws_to_eol s' then Some (rev acc_rev) else best in
        quoted_group dotall s' (c :: acc_rev) best'
  end.

Definition isdigit_dot (c : N) : bool := ((48 <=? c) && (c <=? 57) || (c =? 46))%N.

Fixpoint take_while (p : N -> bool) (s : text) : text * text :=
  match s with
  | c :: s' => if p c then let '(a, b) := take_while p s' in (c :: a, b) else ([], s)
  | [] => ([], [])
  end.

(* optional minus, a maximal run of digits and dots, white space to a line end
   (ASCII digits; Unicode digits are outside the modelled domain) *)
Definition isdigit (c : N) : bool := ((48 <=? c) && (c <=? 57))%N.

(* the optional exponent  (?:[eE][-+]?\d+)?  : the text it consumes (empty when absent) *)
Definition exp_part (s : text) : text * text :=
  match s with
  | c :: r =>
      if ((c =? 101) || (c =? 69))%N then
        let '(sg, r1) := match r with
                         | d :: r' => if ((d =? 45) || (d =? 43))%N then ([d], r') else ([], r)
                         | [] => ([], r) end in
        let '(dgs, r2) := take_while isdigit r1 in
        match dgs with
        | [] => ([], s)
        | _ => (c :: sg ++ dgs, r2)
        end
      else ([], s)
  | [] => ([], s)
  end.

Definition num_group (neg_ok : bool) (s : text) : option text :=
  let s := if neg_ok then match s with 45%N :: r => r | _ => s end else s in
  let '(run, rest) := take_while isdigit_dot s in
  match run with
  | [] => None
  | _ => let '(ex, rest') := exp_part rest in
         if ws_to_eol rest' then Some (run ++ ex) else None
  end.

(* re.search: leftmost position where the field matches *)
Fixpoint search_quoted (kw : text) (dotall : bool) (s : text) : option text :=
  match match_kw_eq kw s with
  | Some (34%N :: r) =>
      match quoted_group dotall r [] None with
      | Some g => Some g
      | None => match s with _ :: s' => search_quoted kw dotall s' | [] => None end
      end
  | _ => match s with _ :: s' => search_quoted kw dotall s' | [] => None end
  end.

Fixpoint search_num (kw : text) (neg_ok : bool) (s : text) : option text :=
  match match_kw_eq kw s with
  | Some r =>
      match num_group neg_ok r with
      | Some g => Some g
      | None => match s with _ :: s' => search_num kw neg_ok s' | [] => None end
      end
  | None => match s with _ :: s' => search_num kw neg_ok s' | [] => None end
  end.

(* re.split(kw ?\[ , s) *)
Fixpoint re_split_kw (fuel : nat) (kw : text) (s : text) (cur_rev : text) (acc : list text) : list text :=
  match fuel with
  | O => rev (rev cur_rev :: acc)
  | S f =>
      match s with
      | [] => rev (rev cur_rev :: acc)
      | c :: s' =>
          if is_prefix kw s then
            match opt_sp_then 91%N (skipn (length kw) s) with
            | Some r => re_split_kw f kw r [] (rev cur_rev :: acc)
            | None => re_split_kw f kw s' (c :: cur_rev) acc
            end
          else re_split_kw f kw s' (c :: cur_rev) acc
      end
  end.
Definition re_split (kw s : text) : list text := re_split_kw (S (length s)) kw s [] [].

(* headerList[k].split(=)[1].strip() *)
Definition header_value (line : text) : res text :=
  match split_on 61%N line with
  | _ :: v :: _ => Ok (strip v)
  | _ => Err PyError
  end.

Definition req {A} (o : option A) : res A := match o with Some a => Ok a | None => Err ParsingError end.

Definition parse_long_interval (el : text) : res rentry :=
  do s <- req (search_num (T "xmin") true el);
  do e <- req (search_num (T "xmax") false el);
  do l <- req (search_quoted (T "text") true el);
  Ok (RI s e (unesc (strip l))).

(* a point's mark is stripped and un-doubled like an interval's text (undouble = true);
   undouble = false is the reader before the repair of F2, kept for the refutation witness *)
Definition parse_long_point (undouble : bool) (el : text) : res rentry :=
  do t <- req (search_num (T "number") true el);
  do l <- req (search_quoted (T "mark") true el);
  Ok (RP t (if undouble then unesc (strip l) else strip l)).

Fixpoint mapM_r {A B} (f : A -> res B) (l : list A) : res (list B) :=
  match l with
  | [] => Ok []
  | x :: l' => do y <- f x; do ys <- mapM_r f l'; Ok (y :: ys)
  end.

Definition CLASS_INT : text := T "class = ""IntervalTier""".

Definition parse_long_tier (undouble : bool) (tierTxt : text) : res rtier :=
  let isint := has_sub CLASS_INT tierTxt in
  match re_split (if isint then T "intervals" else T "points") tierTxt with
  | [] => Err PyError
  | header :: els =>
      do nm <- req (search_quoted (T "name") false header);
      do mn <- req (search_num (T "xmin") true header);
      do mx <- req (search_num (T "xmax") false header);
      do ents <- mapM_r (if isint then parse_long_interval else parse_long_point undouble) els;
      Ok (mkRT isint (unesc nm) mn mx ents)
  end.

Definition parse_long (undouble : bool) (data : text) : res rtg :=
  let data := crlf_to_lf data in
  match re_split (T "item") data with
  | header :: _ :: tierTxts =>      (* first split: header; the piece after item [] is dropped *)
      let hl := split_nl header in
      match nth_error hl 3, nth_error hl 4 with
      | Some a, Some b =>
          do mn <- header_value a; do mx <- header_value b;
          do ts <- mapM_r (parse_long_tier undouble) tierTxts;
          Ok (mkRTG mn mx ts)
      | _, _ => Err PyError
      end
  | _ => Err PyError
  end.

(* parseTextgridStr for non-JSON data *)
Definition remove_blanks (g : rtg) : rtg :=
  mkRTG (rg_xmin g) (rg_xmax g)
        (map (fun t => mkRT (r_isint t) (r_name t) (r_xmin t) (r_xmax t)
                            (filter (fun e => match e with RI _ _ l | RP _ l => negb (text_eqb l []) end) (r_ents t)))
             (rg_tiers g)).

Definition parse_text (undouble : bool) (includeEmpty : bool) (data : text) : res rtg :=
  do g <- (if has_sub (T "ooTextFile short") data || negb (has_sub (T "item [") data)
           then parse_short data else parse_long undouble data);
  Ok (if includeEmpty then g else remove_blanks g).

(* ------------------------------------------------------------------ *)
(* the short-form reader with the number conversions it performs: float() on the two header
   rows, strToIntOrFloat on each tier's span rows.  okf / okn say which tokens those
   conversions accept (supplied by the harness from Python's own float / int); a rejected
   token is a ValueError.  With both predicates constantly true this is parse_short. *)

Definition parse_short_tier_chk (okn : text -> bool) (isint : bool) (block : text) : res rtier :=
  do a <- fetch_row block;
  do b <- fetch_text_row (snd a);
  do c <- fetch_row (snd b);
  do d <- fetch_row (snd c);
  do e <- fetch_row (snd d);
  if okn (fst c) && okn (fst d) then
    let body := snd e in
    Ok (mkRT isint (fst b) (fst c) (fst d)
             (if isint then short_intervals (S (length body)) body else short_points (S (length body)) body))
  else Err PyError.

Fixpoint mapM_tiers_chk (okn : text -> bool) (l : list (option bool * text)) : res (list rtier) :=
  match l with
  | [] => Ok []
  | (Some k, b) :: l' => do t <- parse_short_tier_chk okn k b; do r <- mapM_tiers_chk okn l'; Ok (t :: r)
  | (None, _) :: l' => mapM_tiers_chk okn l'
  end.

Definition parse_short_chk (okf okn : text -> bool) (data : text) : res rtg :=
  let data := crlf_to_lf data in
  match short_blocks (S (length data)) data [] None [] with
  | (None, header) :: blocks =>
      match blocks with
      | [] => Err PyError
      | _ =>
          let hl := split_nl header in
          match nth_error hl 3, nth_error hl 4 with
          | Some a, Some b =>
              if okf (strip a) && okf (strip b) then
                do ts <- mapM_tiers_chk okn blocks;
                Ok (mkRTG (strip a) (strip b) ts)
              else Err PyError
          | _, _ => Err PyError
          end
      end
  | _ => Err PyError
  end.

Lemma parse_short_tier_chk_true isint block :
  parse_short_tier_chk (fun _ => true) isint block = parse_short_tier isint block.
Proof.
  unfold parse_short_tier_chk, parse_short_tier.
  destruct (fetch_row block) as [a|]; [|reflexivity]. cbn [bind].
  destruct (fetch_text_row (snd a)) as [b|]; [|reflexivity]. cbn [bind].
  destruct (fetch_row (snd b)) as [c|]; [|reflexivity]. cbn [bind].
  destruct (fetch_row (snd c)) as [d|]; [|reflexivity]. cbn [bind].
  destruct (fetch_row (snd d)) as [e|]; reflexivity.
Qed.

Lemma mapM_tiers_chk_true l : mapM_tiers_chk (fun _ => true) l = mapM_tiers l.
Proof.
  induction l as [|[[k|] b] l IH]; cbn [mapM_tiers_chk mapM_tiers]; [reflexivity| |exact IH].
  now rewrite parse_short_tier_chk_true, IH.
Qed.

Lemma parse_short_chk_true data : parse_short_chk (fun _ => true) (fun _ => true) data = parse_short data.
Proof.
  unfold parse_short_chk, parse_short.
  destruct (short_blocks _ _ _ _ _) as [|[[k|] header] blocks]; try reflexivity.
  destruct blocks as [|b blocks]; [reflexivity|].
  destruct (nth_error (split_nl header) 3); [|reflexivity]. destruct (nth_error (split_nl header) 4); [|reflexivity].
  cbn [andb]. now rewrite mapM_tiers_chk_true.
Qed.

(* the long-form reader with its number conversions (float() on the two header values,
   strToIntOrFloat on each tier's span), in the source's order of evaluation *)
Definition parse_long_tier_chk (okn : text -> bool) (undouble : bool) (tierTxt : text) : res rtier :=
  let isint := has_sub CLASS_INT tierTxt in
  match re_split (if isint then T "intervals" else T "points") tierTxt with
  | [] => Err PyError
  | header :: els =>
      do nm <- req (search_quoted (T "name") false header);
      do mn <- req (search_num (T "xmin") true header);
      if negb (okn mn) then Err PyError else
      do mx <- req (search_num (T "xmax") false header);
      if negb (okn mx) then Err PyError else
      do ents <- mapM_r (if isint then parse_long_interval else parse_long_point undouble) els;
      Ok (mkRT isint (unesc nm) mn mx ents)
  end.

Definition parse_long_chk (okf okn : text -> bool) (undouble : bool) (data : text) : res rtg :=
  let data := crlf_to_lf data in
  match re_split (T "item") data with
  | header :: _ :: tierTxts =>
      let hl := split_nl header in
      match nth_error hl 3 with
      | Some a =>
          do mn <- header_value a;
          if negb (okf mn) then Err PyError else
          match nth_error hl 4 with
          | Some b =>
              do mx <- header_value b;
              if negb (okf mx) then Err PyError else
              do ts <- mapM_r (parse_long_tier_chk okn undouble) tierTxts;
              Ok (mkRTG mn mx ts)
          | None => Err PyError
          end
      | None => Err PyError
      end
  | _ => Err PyError
  end.
