(* IO/PrepProofs.v -- what _fillInBlanks / _removeUltrashortIntervals /
   _prepTgForSaving do to a well-formed tier (C02 partition clause, C04). *)
From Coq Require Import Lia Sorted.
From PraatIO Require Import IO.PrepSpec.
Open Scope Z_scope.

(* ------------------------------------------------------------------ *)
(* generic list facts                                                   *)

Lemma last_opt_app_single {A} (l : list A) x : last_opt (l ++ [x]) = Some x.
Proof.
  induction l as [|y l IH]; simpl; [reflexivity|].
  destruct (l ++ [x]) eqn:E; [destruct l; discriminate|exact IH].
Qed.

Lemma forallb_rev {A} (f : A -> bool) l : forallb f (rev l) = forallb f l.
Proof.
  destruct (forallb f l) eqn:E.
  - rewrite forallb_forall in *. intros x Hx. apply E. now apply in_rev.
  - destruct (forallb f (rev l)) eqn:E'; [|reflexivity].
    rewrite forallb_forall in E'. assert (forallb f l = true) as H.
    { apply forallb_forall. intros x Hx. apply E'. now apply in_rev in Hx. }
    congruence.
Qed.

Lemma partitionb_app lo a b :
  partitionb lo (a ++ b) = match partitionb lo a with Some m => partitionb m b | None => None end.
Proof.
  revert lo; induction a as [|e a IH]; intro lo; simpl; [reflexivity|].
  destruct ((ds e =? lo) && (ds e <? de e)); [apply IH|reflexivity].
Qed.

(* ------------------------------------------------------------------ *)
(* order: a list of positive intervals in time order is sorted for the   *)
(* tuple order the code sorts with, so both sorts are the identity      *)

Fixpoint incr (lo : Z) (l : list dentry) : Prop :=
  match l with
  | [] => True
  | e :: l' => is_DI e /\ lo <= ds e /\ ds e < de e /\ incr (de e) l'
  end.

Lemma chain_incr lo l hi : chain lo l hi -> incr lo l.
Proof. revert lo; induction l as [|e l IH]; intro lo; simpl; [trivial|]. intros (A & B & C & D). auto. Qed.

Lemma partition_incr lo l hi : partitionb lo l = Some hi -> Forall is_DI l -> incr lo l.
Proof.
  revert lo; induction l as [|e l IH]; intro lo; simpl; [trivial|].
  destruct ((ds e =? lo) && (ds e <? de e)) eqn:E; [|discriminate].
  intros H F. inversion F; subst. apply andb_prop in E as [E1 E2].
  repeat split; try assumption; try lia. apply IH; assumption.
Qed.

Lemma partition_DI lo l hi : partitionb lo l = Some hi -> Forall is_DI l.
Proof.
  revert lo; induction l as [|e l IH]; intro lo; simpl; [constructor|].
  destruct ((ds e =? lo) && (ds e <? de e)) eqn:E; [|discriminate].
  intro H. constructor; [|eapply IH; eauto].
  destruct e; simpl in *; [exact I|]. apply andb_prop in E as [_ E2]. lia.
Qed.

Lemma incr_weaken lo lo' l : lo' <= lo -> incr lo l -> incr lo' l.
Proof. destruct l as [|e l]; simpl; [trivial|]. intros H (A & B & C & D). repeat split; auto; lia. Qed.

Lemma incr_lower lo l : incr lo l -> Forall (fun x => is_DI x /\ lo <= ds x) l.
Proof.
  revert lo; induction l as [|e l IH]; intro lo; simpl; [constructor|].
  intros (A & B & C & D). constructor; [auto|].
  eapply Forall_impl; [|apply IH, D]. simpl. intros x (X1 & X2). split; [assumption|lia].
Qed.

Lemma dleb_lt a b : is_DI a -> is_DI b -> ds a < ds b -> dleb a b = true.
Proof.
  destruct a as [s e l|], b as [s' e' l'|]; simpl; try tauto. intros _ _ H.
  unfold dleb, dcmp, icmp; simpl. apply Z.compare_lt_iff in H. now rewrite H.
Qed.

Lemma incr_sorted lo l : incr lo l -> StronglySorted (lebP dleb) l.
Proof.
  revert lo; induction l as [|e l IH]; intro lo; simpl; [constructor|].
  intros (A & B & C & D). constructor; [eapply IH, D|].
  eapply Forall_impl; [|apply incr_lower, D]. simpl. intros x (X1 & X2).
  apply dleb_lt; auto; lia.
Qed.

Lemma dsort_incr lo l : incr lo l -> dsort l = l.
Proof. intro H. apply isort_sorted_id. eapply incr_sorted, H. Qed.

(* ------------------------------------------------------------------ *)
(* _fillInBlanks                                                        *)

Definition endof (p : Z) (l : list dentry) : Z := fold_left (fun _ e => de e) l p.

Lemma fill_spec_gaps p l hi :
  fill_spec p l hi = fill_gaps p l ++ (if endof p l <? hi then [DI (endof p l) hi []] else []).
Proof.
  revert p; induction l as [|e l IH]; intro p; simpl; [reflexivity|].
  rewrite IH. unfold endof; simpl. rewrite <- app_assoc. reflexivity.
Qed.

Lemma last_fill_gaps l : forall e pre,
  exists el, last_opt (pre ++ e :: fill_gaps (de e) l) = Some el /\ de el = endof (de e) l.
Proof.
  induction l as [|e' l IH]; intros e pre; simpl.
  - exists e. split; [|reflexivity]. change (pre ++ [e]) with (pre ++ [e]). apply last_opt_app_single.
  - destruct (IH e' (pre ++ e :: (if de e <? ds e' then [DI (de e) (ds e') []] else []))) as (el & H1 & H2).
    exists el. split; [|exact H2].
    rewrite <- H1. f_equal. rewrite <- app_assoc. reflexivity.
Qed.

Lemma chain_endof lo l hi : chain lo l hi -> lo <= endof lo l <= hi.
Proof.
  revert lo; induction l as [|e l IH]; intro lo; unfold endof; simpl; [lia|].
  intros (A & B & C & D). apply IH in D. unfold endof in D. lia.
Qed.

Lemma fill_spec_partition lo l hi : chain lo l hi -> partitionb lo (fill_spec lo l hi) = Some hi.
Proof.
  revert lo; induction l as [|e l IH]; intro lo; simpl.
  - intro H. destruct (lo <? hi) eqn:E; simpl.
    + rewrite Z.eqb_refl, E. reflexivity.
    + f_equal. lia.
  - intros (A & B & C & D). destruct e as [s e' lab|]; [|contradiction]. simpl in *.
    destruct (lo <? s) eqn:E; simpl.
    + rewrite Z.eqb_refl, E. simpl. rewrite Z.eqb_refl.
      assert (s <? e' = true) as -> by lia. simpl. apply IH, D.
    + assert (s = lo) as -> by lia. rewrite Z.eqb_refl.
      assert (lo <? e' = true) as -> by lia. simpl. apply IH, D.
Qed.

(* the labelled entries are exactly those of the tier, in order *)
Lemma fill_spec_labelled lo l hi : labelled (fill_spec lo l hi) = labelled l.
Proof.
  revert lo; induction l as [|e l IH]; intro lo; simpl.
  - destruct (lo <? hi); reflexivity.
  - unfold labelled in *. rewrite filter_app. simpl. rewrite IH.
    destruct (lo <? ds e); reflexivity.
Qed.

(* nothing but blanks is added *)
Lemma fill_spec_only_blanks lo l hi x : In x (fill_spec lo l hi) -> In x l \/ is_blank x = true.
Proof.
  revert lo; induction l as [|e l IH]; intro lo; simpl.
  - destruct (lo <? hi); simpl; [intros [<-|[]]; right; reflexivity|tauto].
  - rewrite in_app_iff. simpl. intros [H|[H|H]].
    + destruct (lo <? ds e); simpl in H; [destruct H as [<-|[]]; right; reflexivity|contradiction].
    + auto.
    + destruct (IH _ H); auto.
Qed.

(* every entry of the tier is kept *)
Lemma fill_spec_keeps lo l hi x : In x l -> In x (fill_spec lo l hi).
Proof.
  revert lo; induction l as [|e l IH]; intro lo; simpl; [tauto|].
  rewrite in_app_iff. simpl. intros [H|H]; [auto|right; right; apply IH, H].
Qed.

Lemma fill_blanks_spec minT maxT l :
  chain minT l maxT -> (l <> [] \/ minT < maxT) ->
  fill_blanks minT maxT l = Ok (fill_spec minT l maxT).
Proof.
  intros C NE. unfold fill_blanks. destruct l as [|e0 rest].
  - destruct NE as [NE|NE]; [congruence|]. simpl.
    assert (minT <? minT = false) as -> by lia. simpl.
    assert (maxT <? maxT = false) as -> by lia.
    assert (minT <? maxT = true) as -> by lia. reflexivity.
  - pose proof C as C0. simpl in C. destruct C as (A & B & C1 & D).
    assert (ds e0 <? minT = false) as -> by lia.
    destruct (last_fill_gaps rest e0 (if minT <? ds e0 then [DI minT (ds e0) []] else [])) as (el & H1 & H2).
    replace (if minT <? ds e0 then DI minT (ds e0) [] :: e0 :: fill_gaps (de e0) rest else e0 :: fill_gaps (de e0) rest)
      with ((if minT <? ds e0 then [DI minT (ds e0) []] else []) ++ e0 :: fill_gaps (de e0) rest)
      by (destruct (minT <? ds e0); reflexivity).
    rewrite H1. pose proof (chain_endof _ _ _ D) as HE.
    assert (maxT <? de el = false) as -> by lia. rewrite H2.
    assert (((if minT <? ds e0 then [DI minT (ds e0) []] else []) ++ e0 :: fill_gaps (de e0) rest)
            ++ (if endof (de e0) rest <? maxT then [DI (endof (de e0) rest) maxT []] else [])
            = fill_spec minT (e0 :: rest) maxT) as E.
    { simpl. rewrite fill_spec_gaps, <- app_assoc. reflexivity. }
    replace (if endof (de e0) rest <? maxT
             then ((if minT <? ds e0 then [DI minT (ds e0) []] else []) ++ e0 :: fill_gaps (de e0) rest)
                    ++ [DI (endof (de e0) rest) maxT []]
             else (if minT <? ds e0 then [DI minT (ds e0) []] else []) ++ e0 :: fill_gaps (de e0) rest)
      with (fill_spec minT (e0 :: rest) maxT)
      by (rewrite <- E; destruct (endof (de e0) rest <? maxT); [reflexivity|now rewrite app_nil_r]).
    f_equal. eapply dsort_incr, partition_incr; [apply fill_spec_partition, C0|].
    eapply partition_DI, fill_spec_partition, C0.
Qed.

(* entries outside the requested span make blank filling raise *)
Lemma fill_blanks_raises_low minT maxT e0 rest :
  ds e0 < minT -> fill_blanks minT maxT (e0 :: rest) = Err ParsingError.
Proof. intro H. unfold fill_blanks. assert (ds e0 <? minT = true) as -> by lia. reflexivity. Qed.

Lemma fill_blanks_raises_high minT maxT l lo :
  chain lo l (endof lo l) -> l <> [] -> minT <= lo -> maxT < endof lo l ->
  fill_blanks minT maxT l = Err ParsingError.
Proof.
  intros C NE Hlo Hhi. unfold fill_blanks. destruct l as [|e0 rest]; [congruence|].
  simpl in C. destruct C as (A & B & C1 & D).
  assert (ds e0 <? minT = false) as -> by lia.
  destruct (last_fill_gaps rest e0 (if minT <? ds e0 then [DI minT (ds e0) []] else [])) as (el & H1 & H2).
  replace (if minT <? ds e0 then DI minT (ds e0) [] :: e0 :: fill_gaps (de e0) rest else e0 :: fill_gaps (de e0) rest)
    with ((if minT <? ds e0 then [DI minT (ds e0) []] else []) ++ e0 :: fill_gaps (de e0) rest)
    by (destruct (minT <? ds e0); reflexivity).
  rewrite H1. unfold endof in Hhi; simpl in Hhi. fold (endof (de e0) rest) in Hhi.
  assert (maxT <? de el = true) as -> by lia. reflexivity.
Qed.

(* ------------------------------------------------------------------ *)
(* _removeUltrashortIntervals on a partition                            *)

Section Ultra.
  Context (thr : Z * Z) (Hden : 0 < snd thr) (minT : Z).

  Lemma long_mono a b : dlen a <= dlen b -> long thr a = true -> long thr b = true.
  Proof.
    unfold long, below. intros H. rewrite !negb_true_iff, !Z.ltb_ge. nia.
  Qed.

  Lemma pass1_app l1 l2 acc :
    ultra_pass1 thr minT (l1 ++ l2) acc = ultra_pass1 thr minT l2 (rev (ultra_pass1 thr minT l1 acc)).
  Proof.
    revert acc; induction l1 as [|e l1 IH]; intro acc; simpl; [now rewrite rev_involutive|].
    destruct (below thr (de e - ds e)); destruct acc; apply IH.
  Qed.

  Lemma pass2_partition lo l hi : partitionb lo l = Some hi -> ultra_pass2 thr l = l.
  Proof.
    revert lo; induction l as [|a l IH]; intro lo; simpl; [reflexivity|].
    destruct ((ds a =? lo) && (ds a <? de a)) eqn:E; [|discriminate]. intro H.
    destruct l as [|b l']; [reflexivity|].
    rewrite (IH _ H). simpl in H.
    destruct ((ds b =? de a) && (ds b <? de b)) eqn:E2; [|discriminate].
    apply andb_prop in E2 as [E2 _]. apply Z.eqb_eq in E2. rewrite E2, Z.sub_diag. reflexivity.
  Qed.

  Lemma pass1_inv hi l : forall acc p,
    partitionb p l = Some hi -> minT <= p ->
    (acc = [] \/ partitionb minT (rev acc) = Some p) ->
    forallb (long thr) acc = true ->
    (acc <> [] \/ existsb (long thr) l = true) ->
    partitionb minT (ultra_pass1 thr minT l acc) = Some hi
    /\ forallb (long thr) (ultra_pass1 thr minT l acc) = true.
  Proof.
    induction l as [|e l IH]; intros acc p HP Hp HA HL HN; simpl.
    - simpl in HP. injection HP as <-. rewrite forallb_rev. split; [|exact HL].
      destruct HA as [->|HA]; [|exact HA]. destruct HN as [HN|HN]; [congruence|discriminate].
    - simpl in HP. destruct ((ds e =? p) && (ds e <? de e)) eqn:E; [|discriminate].
      apply andb_prop in E as [E1 E2]. apply Z.eqb_eq in E1. apply Z.ltb_lt in E2.
      fold (dlen e). destruct (below thr (dlen e)) eqn:B.
      + destruct acc as [|lst acc'].
        * apply (IH [] (de e)); auto; try lia.
          destruct HN as [HN|HN]; [congruence|]. simpl in HN. unfold long in HN at 1. rewrite B in HN.
          right. exact HN.
        * destruct HA as [HA|HA]; [discriminate|]. simpl in HA, HL.
          rewrite partitionb_app in HA. destruct (partitionb minT (rev acc')) as [m|] eqn:PM; [|discriminate].
          simpl in HA. destruct ((ds lst =? m) && (ds lst <? de lst)) eqn:E3; [|discriminate].
          injection HA as HA. apply andb_prop in E3 as [E3 E4]. apply Z.eqb_eq in E3. apply Z.ltb_lt in E4.
          apply andb_prop in HL as [HL1 HL2].
          apply (IH (DI (ds lst) (de e) (dl lst) :: acc') (de e)); auto; try lia.
          -- right. simpl. rewrite partitionb_app, PM. simpl. rewrite E3, Z.eqb_refl.
             assert (m <? de e = true) as -> by lia. reflexivity.
          -- simpl. rewrite HL2, andb_true_r. eapply long_mono; [|exact HL1]. unfold dlen; simpl. lia.
          -- left. discriminate.
      + assert (long thr e = true) as Le by (unfold long; now rewrite B).
        destruct acc as [|lst acc'].
        * apply (IH [if negb (ds e =? minT) then DI minT (de e) (dl e) else DI (ds e) (de e) (dl e)] (de e));
            auto; try lia.
          -- right. simpl. destruct (ds e =? minT) eqn:E5; simpl.
             ++ apply Z.eqb_eq in E5. rewrite E5, Z.eqb_refl. assert (minT <? de e = true) as -> by lia. reflexivity.
             ++ rewrite Z.eqb_refl. assert (minT <? de e = true) as -> by lia. reflexivity.
          -- simpl. rewrite andb_true_r. eapply long_mono; [|exact Le].
             destruct (ds e =? minT); unfold dlen; simpl; lia.
          -- left. discriminate.
        * destruct HA as [HA|HA]; [discriminate|].
          apply (IH (DI (ds e) (de e) (dl e) :: lst :: acc') (de e)); auto; try lia.
          -- right. change (rev (DI (ds e) (de e) (dl e) :: lst :: acc'))
               with (rev (lst :: acc') ++ [DI (ds e) (de e) (dl e)]).
             rewrite partitionb_app, HA. simpl. rewrite E1, Z.eqb_refl.
             assert (p <? de e = true) as -> by lia. reflexivity.
          -- change (forallb (long thr) (DI (ds e) (de e) (dl e) :: lst :: acc'))
               with (long thr (DI (ds e) (de e) (dl e)) && forallb (long thr) (lst :: acc')).
             rewrite HL, andb_true_r. exact Le.
          -- left. discriminate.
  Qed.

  (* labels of the output: those of the entries at least as long as the threshold, in order *)
  Lemma pass1_labels l : forall acc,
    map dl (ultra_pass1 thr minT l acc) = map dl (rev acc) ++ map dl (filter (long thr) l).
  Proof.
    induction l as [|e l IH]; intro acc; [simpl; now rewrite app_nil_r|].
    assert (long thr e = negb (below thr (de e - ds e))) as EL by reflexivity.
    cbn [ultra_pass1 filter]. rewrite EL. destruct (below thr (de e - ds e)); cbn [negb].
    - destruct acc as [|lst acc']; rewrite IH; [reflexivity|]. simpl. rewrite !map_app. reflexivity.
    - destruct acc as [|lst acc']; rewrite IH; simpl.
      + destruct (negb (ds e =? minT)); reflexivity.
      + rewrite !map_app. simpl. rewrite <- !app_assoc. reflexivity.
  Qed.

  Lemma pass1_keeps_tail y l : forall acc, In y (tl acc) -> In y (ultra_pass1 thr minT l acc).
  Proof.
    induction l as [|e l IH]; intros acc H; simpl.
    - apply in_rev. rewrite rev_involutive. destruct acc; [contradiction|right; exact H].
    - destruct (below thr (de e - ds e)); destruct acc as [|lst acc']; try contradiction;
        apply IH; simpl in *; auto.
  Qed.

  Lemma pass1_all_short l : forallb (long thr) l = false \/ True ->
    existsb (long thr) l = false -> ultra_pass1 thr minT l [] = [].
  Proof.
    intros _. induction l as [|e l IH]; simpl; [reflexivity|].
    unfold long at 1. fold (dlen e). destruct (below thr (dlen e)); simpl; [exact IH|discriminate].
  Qed.

  Lemma pass1_acc_nonempty l : forall acc, acc <> [] -> ultra_pass1 thr minT l acc <> [].
  Proof.
    induction l as [|e l IH]; intros acc H; cbn [ultra_pass1].
    - intro E. apply H. apply (f_equal (@rev dentry)) in E. now rewrite rev_involutive in E.
    - destruct (below thr (de e - ds e)); destruct acc as [|lst acc']; try congruence; apply IH; discriminate.
  Qed.

  Lemma pass1_some_long l : existsb (long thr) l = true -> ultra_pass1 thr minT l [] <> [].
  Proof.
    induction l as [|e l IH]; cbn [existsb ultra_pass1]; [discriminate|].
    unfold long at 1. unfold dlen.
    destruct (below thr (de e - ds e)); cbn [negb orb]; [exact IH|].
    intros _. apply pass1_acc_nonempty. discriminate.
  Qed.

  (* with an interval that reaches the threshold the repaired function is the old one *)
  Lemma ru_legacy l : existsb (long thr) l = true ->
    remove_ultrashort thr minT l = remove_ultrashort_legacy thr minT l.
  Proof.
    intro H. unfold remove_ultrashort, remove_ultrashort_legacy.
    pose proof (pass1_some_long l H) as NE. destruct (ultra_pass1 thr minT l []); [congruence|reflexivity].
  Qed.

  Lemma pass1_nonempty_after l a acc :
    long thr a = true -> rev (ultra_pass1 thr minT (l ++ [a]) acc) <> [].
  Proof.
    intro La. rewrite pass1_app. unfold long, dlen in La.
    destruct (rev (ultra_pass1 thr minT l acc)) as [|c acc'];
      cbn [ultra_pass1]; destruct (below thr (de a - ds a)); try discriminate;
      rewrite rev_involutive; discriminate.
  Qed.

  Theorem ultra_partition l hi :
    partitionb minT l = Some hi -> existsb (long thr) l = true ->
    partitionb minT (remove_ultrashort thr minT l) = Some hi
    /\ forallb (long thr) (remove_ultrashort thr minT l) = true
    /\ map dl (remove_ultrashort thr minT l) = map dl (filter (long thr) l).
  Proof.
    intros HP HE. rewrite (ru_legacy l HE). unfold remove_ultrashort_legacy.
    destruct (pass1_inv hi l [] minT HP) as (A & B); auto; try lia.
    rewrite (pass2_partition _ _ _ A). repeat split; auto. apply pass1_labels.
  Qed.

  (* an interval at least as long as the threshold whose neighbours (if any) are
     also that long is written verbatim *)
  Theorem ultra_verbatim l hi l1 e l2 :
    partitionb minT l = Some hi -> l = l1 ++ e :: l2 -> long thr e = true ->
    match last_opt l1 with Some a => long thr a = true | None => True end ->
    match l2 with b :: _ => long thr b = true | [] => True end ->
    In e (remove_ultrashort thr minT l).
  Proof.
    intros HP -> Le Ha Hb.
    assert (existsb (long thr) (l1 ++ e :: l2) = true) as HE.
    { apply existsb_exists. exists e. split; [apply in_or_app; right; left; reflexivity|exact Le]. }
    rewrite (ru_legacy _ HE). unfold remove_ultrashort_legacy.
    destruct (pass1_inv hi _ [] minT HP) as (A & _); auto; try lia.
    rewrite (pass2_partition _ _ _ A).
    rewrite pass1_app.
    assert (is_DI e /\ (l1 = [] -> ds e = minT)) as (De & Hs).
    { pose proof (partition_DI _ _ _ HP) as F. rewrite Forall_forall in F. split.
      - apply F. apply in_or_app; right; left; reflexivity.
      - intros ->. simpl in HP. destruct ((ds e =? minT) && (ds e <? de e)) eqn:E; [|discriminate].
        apply andb_prop in E as [E _]. now apply Z.eqb_eq in E. }
    assert (exists rest, forall l', ultra_pass1 thr minT (e :: l') (rev (ultra_pass1 thr minT l1 [])) =
                                  ultra_pass1 thr minT l' (e :: rest)) as (rest & HR).
    { destruct e as [s e' lab|]; [|contradiction]. unfold long in Le.
      destruct (rev (ultra_pass1 thr minT l1 [])) as [|c acc'] eqn:EA.
      - exists []. intro l'. simpl. simpl in Le. unfold dlen in Le; simpl in Le.
        destruct (below thr (e' - s)); [discriminate|].
        assert (l1 = []) as L1.
        { destruct l1 as [|x l1] using rev_ind; [reflexivity|]. exfalso.
          rewrite last_opt_app_single in Ha. apply (pass1_nonempty_after l1 x [] Ha). exact EA. }
        specialize (Hs L1). simpl in Hs. subst s. rewrite Z.eqb_refl. reflexivity.
      - exists (c :: acc'). intro l'. simpl. unfold dlen in Le; simpl in Le.
        destruct (below thr (e' - s)); [discriminate|]. reflexivity. }
    rewrite HR. destruct l2 as [|b l2'].
    - simpl. apply in_or_app. right. left. reflexivity.
    - simpl. unfold long in Hb. fold (dlen b). destruct (below thr (dlen b)); [discriminate|].
      apply pass1_keeps_tail. simpl. left. reflexivity.
  Qed.

  (* every interval shorter than the threshold: nothing is written (the recorded
     finding F19 -- the clause 'partition of the span' fails for such a tier) *)
  Theorem ultra_all_short_legacy l : existsb (long thr) l = false -> remove_ultrashort_legacy thr minT l = [].
  Proof. intro H. unfold remove_ultrashort_legacy. rewrite pass1_all_short; auto. Qed.

  (* every interval shorter than the threshold (after the repair of F19): one blank interval from the
     tier's start to the last end, so the tier still covers its span *)
  Lemma last_opt_partition : forall l lo hi e, partitionb lo l = Some hi -> last_opt l = Some e -> de e = hi.
  Proof.
    induction l as [|a l IH]; intros lo hi e HP HL; [discriminate|].
    cbn [partitionb] in HP. destruct ((ds a =? lo) && (ds a <? de a)) eqn:E; [|discriminate].
    destruct l as [|b l'].
    - cbn [partitionb] in HP. cbn [last_opt] in HL. injection HL as <-. now injection HP as <-.
    - cbn [last_opt] in HL. exact (IH _ _ _ HP HL).
  Qed.

  Lemma partition_le : forall l lo hi, partitionb lo l = Some hi -> lo <= hi.
  Proof.
    induction l as [|a l IH]; intros lo hi HP; cbn [partitionb] in HP; [injection HP as <-; lia|].
    destruct ((ds a =? lo) && (ds a <? de a)) eqn:E; [|discriminate]. apply andb_prop in E as [E1 E2].
    specialize (IH _ _ HP). lia.
  Qed.

  Theorem ultra_all_short l hi :
    partitionb minT l = Some hi -> l <> [] -> existsb (long thr) l = false ->
    remove_ultrashort thr minT l = [DI minT hi []].
  Proof.
    intros HP NE H. unfold remove_ultrashort. rewrite pass1_all_short by auto.
    destruct (last_opt l) as [e|] eqn:EL.
    - rewrite (last_opt_partition _ _ _ _ HP EL). reflexivity.
    - destruct l as [|a l']; [congruence|]. exfalso. clear - EL. revert a EL. induction l' as [|b l' IH]; intros a EL; [discriminate|].
      cbn [last_opt] in EL. exact (IH b EL).
  Qed.

  (* hence: whatever the lengths, a non-empty partition of a span stays a partition of that span *)
  Theorem ultra_partition_always l hi :
    partitionb minT l = Some hi -> l <> [] ->
    partitionb minT (remove_ultrashort thr minT l) = Some hi.
  Proof.
    intros HP NE. destruct (existsb (long thr) l) eqn:HE.
    - exact (proj1 (ultra_partition l hi HP HE)).
    - rewrite (ultra_all_short l hi HP NE HE). cbn [partitionb ds de]. rewrite Z.eqb_refl.
      assert (minT < hi) as LT.
      { destruct l as [|a l']; [congruence|]. cbn [partitionb] in HP.
        destruct ((ds a =? minT) && (ds a <? de a)) eqn:E; [|discriminate]. apply andb_prop in E as [E1 E2].
        pose proof (partition_le _ _ _ HP). lia. }
      assert (minT <? hi = true) as -> by lia. reflexivity.
  Qed.
End Ultra.

(* ------------------------------------------------------------------ *)
(* _prepTgForSaving on one tier                                         *)

Theorem prep_tier_blanks minT maxT thr t :
  d_isint t = true -> chain minT (d_ents t) maxT -> (d_ents t <> [] \/ minT < maxT) ->
  match thr with Some th => 0 < snd th /\ existsb (long th) (fill_spec minT (d_ents t) maxT) = true | None => True end ->
  prep_tier true minT maxT thr t =
    Ok (mkDT true (d_name t) (d_xmin t) (d_xmax t)
             (match thr with
              | Some th => remove_ultrashort th minT (fill_spec minT (d_ents t) maxT)
              | None => fill_spec minT (d_ents t) maxT end)).
Proof.
  intros HI C NE HT. unfold prep_tier. rewrite HI. simpl.
  rewrite (dsort_incr _ _ (chain_incr _ _ _ C)).
  rewrite (fill_blanks_spec _ _ _ C NE). simpl.
  pose proof (fill_spec_partition _ _ _ C) as P.
  destruct thr as [th|].
  - destruct HT as (Hd & HE). destruct (ultra_partition th Hd minT _ _ P HE) as (A & _ & _).
    rewrite (dsort_incr minT); [reflexivity|]. eapply partition_incr; [exact A|eapply partition_DI, A].
  - rewrite (dsort_incr minT); [reflexivity|]. eapply partition_incr; [exact P|eapply partition_DI, P].
Qed.

Lemma partition_positive lo l hi : partitionb lo l = Some hi -> Forall (fun e => 0 < dlen e) l.
Proof.
  revert lo; induction l as [|e l IH]; intro lo; simpl; [constructor|].
  destruct ((ds e =? lo) && (ds e <? de e)) eqn:E; [|discriminate].
  intro H. constructor; [|eapply IH, H]. apply andb_prop in E as [_ E]. unfold dlen. lia.
Qed.

Lemma fill_spec_nonempty lo l hi : (l <> [] \/ lo < hi) -> chain lo l hi -> fill_spec lo l hi <> [].
Proof.
  intros NE C E. pose proof (fill_spec_partition _ _ _ C) as P. rewrite E in P. cbn [partitionb] in P. injection P as P.
  destruct NE as [NE|NE]; [|lia].
  destruct l as [|e l]; [congruence|]. cbn [fill_spec] in E. destruct (lo <? ds e); discriminate.
Qed.

(* with a threshold, whatever the lengths of the intervals: the written tier is a partition of the span *)
Theorem prep_tier_blanks_always minT maxT th t :
  d_isint t = true -> chain minT (d_ents t) maxT -> (d_ents t <> [] \/ minT < maxT) -> 0 < snd th ->
  exists t', prep_tier true minT maxT (Some th) t = Ok t' /\ partitionb minT (d_ents t') = Some maxT.
Proof.
  intros HI C NE Hd. unfold prep_tier. rewrite HI. cbn [andb].
  rewrite (dsort_incr _ _ (chain_incr _ _ _ C)).
  rewrite (fill_blanks_spec _ _ _ C NE). cbn [bind].
  pose proof (fill_spec_partition _ _ _ C) as P.
  pose proof (ultra_partition_always th Hd minT _ _ P (fill_spec_nonempty _ _ _ NE C)) as A.
  eexists. split; [reflexivity|]. cbn [d_ents].
  rewrite (dsort_incr minT); [exact A|]. eapply partition_incr; [exact A|eapply partition_DI, A].
Qed.
