(* IO/ShortChunkProofs.v -- the keyword chunking of the short reader, proved instead of assumed:
   when no name or label contains one of the two class words, cutting the written text at
   "IntervalTier" / "TextTier" (in quotes) finds exactly the header and the tier blocks. *)
From Coq Require Import Lia String.
From PraatIO Require Import IO.IoModel IO.CodecProofs IO.CrlfProofs IO.ShortFileProofs.
Open Scope Z_scope.

Definition CORE_I : text := T "IntervalTier".
Definition CORE_P : text := T "TextTier".
Definition kwfree (l : text) : bool := negb (has_sub CORE_I l) && negb (has_sub CORE_P l).

(* ---------- occurrences and separators ---------- *)

Lemma is_prefix_sep k : forall a r, is_prefix k (a ++ r) = true -> In 10%N a -> ~ In 10%N k -> is_prefix k a = true.
Proof.
  induction k as [|x k IH]; intros a r H Ha Hk; [reflexivity|].
  destruct a as [|y a]; [contradiction|]. cbn [app is_prefix] in *.
  apply andb_prop in H as [E H]. rewrite E. cbn [andb].
  apply N.eqb_eq in E. subst y. destruct Ha as [Ha|Ha]; [exfalso; apply Hk; now left|].
  apply (IH a r H Ha). intro Hin. apply Hk. now right.
Qed.

Lemma contains_cons_false k c s : contains k (c :: s) = false -> is_prefix k (c :: s) = false /\ contains k s = false.
Proof. cbn [contains]. intro H. now apply orb_false_elim in H. Qed.

(* scanning a piece that ends its line and holds neither keyword: nothing is cut *)
Lemma scan_clean : forall p r cur k acc fuel,
  contains QINT p = false -> contains QPT p = false ->
  (exists p0, p = p0 ++ [10%N]) -> (length p + length r < fuel)%nat ->
  short_blocks fuel (p ++ r) cur k acc = short_blocks (fuel - length p) r (rev p ++ cur) k acc.
Proof.
  induction p as [|c p IH]; intros r cur k acc fuel HI HP HN HF.
  - cbn [app length rev]. now rewrite Nat.sub_0_r.
  - destruct fuel as [|f]; [simpl in HF; lia|].
    destruct (contains_cons_false _ _ _ HI) as [PI HI'].
    destruct (contains_cons_false _ _ _ HP) as [PP HP'].
    assert (In 10%N (c :: p)) as NL by (destruct HN as [p0 ->]; apply in_or_app; right; now left).
    cbn [app short_blocks].
    assert (is_prefix QINT (c :: p ++ r) = false) as ->.
    { destruct (is_prefix QINT (c :: p ++ r)) eqn:E; [|reflexivity].
      change (c :: p ++ r) with ((c :: p) ++ r) in E.
      rewrite (is_prefix_sep QINT (c :: p) r E NL) in PI; [discriminate|]. vm_compute. intuition discriminate. }
    assert (is_prefix QPT (c :: p ++ r) = false) as ->.
    { destruct (is_prefix QPT (c :: p ++ r)) eqn:E; [|reflexivity].
      change (c :: p ++ r) with ((c :: p) ++ r) in E.
      rewrite (is_prefix_sep QPT (c :: p) r E NL) in PP; [discriminate|]. vm_compute. intuition discriminate. }
    destruct p as [|c2 p'].
    + cbn [app length rev]. replace (S f - 1)%nat with f by lia. reflexivity.
    + rewrite IH.
      * cbn [length rev]. replace (S f - S (S (length p')))%nat with (f - S (length p'))%nat by lia.
        cbn [length]. rewrite <- !app_assoc. reflexivity.
      * exact HI'.
      * exact HP'.
      * destruct HN as [p0 E]. destruct p0 as [|x p0]; [discriminate|]. injection E as _ E. now exists p0.
      * simpl in HF |- *. lia.
Qed.

(* ---------- fuel independence ---------- *)

Lemma short_blocks_fuel : forall s f1 f2 cur k acc, (length s < f1)%nat -> (length s < f2)%nat ->
  short_blocks f1 s cur k acc = short_blocks f2 s cur k acc.
Proof.
  induction s as [|c s IH]; intros f1 f2 cur k acc H1 H2.
  - destruct f1, f2; try (simpl in *; lia); reflexivity.
  - destruct f1 as [|f1]; [simpl in H1; lia|]. destruct f2 as [|f2]; [simpl in H2; lia|].
    simpl in H1, H2. cbn [short_blocks].
    destruct (is_prefix QINT (c :: s)); [apply IH; lia|]. destruct (is_prefix QPT (c :: s)); apply IH; lia.
Qed.

Definition SB (s cur : text) (k : option bool) (acc : list (option bool * text)) :=
  short_blocks (S (length s)) s cur k acc.

Lemma SB_nil cur k acc : SB [] cur k acc = rev ((k, rev cur) :: acc).
Proof. reflexivity. Qed.

Definition cleanp (p : text) : Prop :=
  contains QINT p = false /\ contains QPT p = false /\ exists p0, p = p0 ++ [10%N].

Lemma SB_clean p r cur k acc : cleanp p -> SB (p ++ r) cur k acc = SB r (rev p ++ cur) k acc.
Proof.
  intros (A & B & C). unfold SB. rewrite scan_clean by (try assumption; rewrite app_length; lia).
  apply short_blocks_fuel; rewrite ?app_length; lia.
Qed.

(* a tier starts: the class keyword in quotes *)
Lemma short_blocks_cons f c s' cur k acc :
  short_blocks (S f) (c :: s') cur k acc =
  (if is_prefix QINT (c :: s') then short_blocks f s' [c] (Some true) ((k, rev cur) :: acc)
   else if is_prefix QPT (c :: s') then short_blocks f s' [c] (Some false) ((k, rev cur) :: acc)
   else short_blocks f s' (c :: cur) k acc).
Proof. reflexivity. Qed.

Definition TLI : text := tl QINT.
Definition TLP : text := tl QPT.

Lemma SB_cut_int body r cur k acc :
  SB (34%N :: (TLI ++ body) ++ r) cur k acc = SB ((TLI ++ body) ++ r) [34%N] (Some true) ((k, rev cur) :: acc).
Proof.
  unfold SB. set (X := (TLI ++ body) ++ r).
  assert (is_prefix QINT (34%N :: X) = true) as P.
  { apply is_prefix_spec. exists (body ++ r). unfold X. rewrite <- app_assoc. reflexivity. }
  cbn [length]. rewrite short_blocks_cons, P. reflexivity.
Qed.

Lemma SB_cut_pt body r cur k acc :
  SB (34%N :: (TLP ++ body) ++ r) cur k acc = SB ((TLP ++ body) ++ r) [34%N] (Some false) ((k, rev cur) :: acc).
Proof.
  unfold SB. set (X := (TLP ++ body) ++ r).
  assert (is_prefix QINT (34%N :: X) = false) as P1 by reflexivity.
  assert (is_prefix QPT (34%N :: X) = true) as P2.
  { apply is_prefix_spec. exists (body ++ r). unfold X. rewrite <- app_assoc. reflexivity. }
  cbn [length]. rewrite short_blocks_cons, P1, P2. reflexivity.
Qed.

(* ---------- which pieces are clean ---------- *)

Lemma is_prefix_sep2 k : forall a c r, is_prefix k (a ++ c :: r) = true -> ~ In c k -> is_prefix k a = true.
Proof.
  induction k as [|x k IH]; intros a c r H Hk; [reflexivity|].
  destruct a as [|y a]; cbn [app is_prefix] in *.
  - apply andb_prop in H as [E _]. apply N.eqb_eq in E. subst. exfalso. apply Hk. now left.
  - apply andb_prop in H as [E H]. rewrite E. cbn [andb]. apply (IH a c r H). intro Hin. apply Hk. now right.
Qed.

Lemma contains_app_l k a b : contains k a = true -> contains k (a ++ b) = true.
Proof.
  intro H. apply contains_spec in H as (x & y & ->). apply contains_spec. exists x, (y ++ b). now rewrite <- !app_assoc.
Qed.

Lemma contains_app_r k a b : contains k b = true -> contains k (a ++ b) = true.
Proof.
  intro H. apply contains_spec in H as (x & y & ->). apply contains_spec. exists (a ++ x), y. now rewrite <- !app_assoc.
Qed.

(* an occurrence of w in a ++ c :: b, c not in w, lies in a or in b *)
Lemma occ_sep w c : w <> [] -> ~ In c w -> forall a b,
  contains w (a ++ c :: b) = true -> contains w a = true \/ contains w b = true.
Proof.
  intros NE NI. induction a as [|y a IH]; intros b H.
  - cbn [app contains] in H. apply orb_prop in H as [H|H]; [|now right].
    destruct w as [|x w']; [congruence|]. cbn [is_prefix] in H. apply andb_prop in H as [E _]. apply N.eqb_eq in E.
    subst. exfalso. apply NI. now left.
  - cbn [app contains] in H. apply orb_prop in H as [H|H].
    + left. change (y :: a ++ c :: b) with ((y :: a) ++ c :: b) in H. apply is_prefix_sep2 in H; [|exact NI].
      cbn [contains]. now rewrite H.
    + destruct (IH b H) as [L|R]; [left|now right]. cbn [contains]. rewrite L. apply orb_true_r.
Qed.

Lemma contains_nil_false w : w <> [] -> contains w [] = false.
Proof. destruct w; [congruence|reflexivity]. Qed.

(* a keyword in quotes occurs only where its word occurs *)
Lemma contains_quoted_core core X : contains (34%N :: core ++ [34%N]) X = true -> contains core X = true.
Proof.
  intro H. apply contains_spec in H as (a & b & ->). apply contains_spec. exists (a ++ [34%N]), (34%N :: b).
  rewrite <- !app_assoc. cbn [app]. f_equal. f_equal. now rewrite <- app_assoc.
Qed.

(* doubling the quotes of l creates no occurrence of a quote-free word *)
Lemma is_prefix_esc w : forallb (fun c => negb (isq c)) w = true -> forall l, is_prefix w (esc l) = true -> is_prefix w l = true.
Proof.
  induction w as [|x w IH]; intros Q l H; [reflexivity|].
  cbn [forallb] in Q. apply andb_prop in Q as [Qx Q]. apply negb_true_iff in Qx.
  destruct l as [|c l]; [discriminate H|]. cbn [esc] in H.
  destruct (c =? 34)%N eqn:E.
  - cbn [is_prefix] in H. apply andb_prop in H as [E1 _]. apply N.eqb_eq in E1. subst x. discriminate Qx.
  - cbn [is_prefix] in *. apply andb_prop in H as [E1 H]. rewrite E1. cbn [andb]. exact (IH Q l H).
Qed.

Lemma contains_esc w : w <> [] -> forallb (fun c => negb (isq c)) w = true -> forall l, contains w (esc l) = true -> contains w l = true.
Proof.
  intros NE Q. induction l as [|c l IH]; intro H; [exact H|].
  assert (hd_nq : match w with x :: _ => isq x = false | [] => True end).
  { destruct w as [|x w']; [exact I|]. cbn [forallb] in Q. apply andb_prop in Q as [Qx _]. now apply negb_true_iff in Qx. }
  cbn [esc] in H. destruct (c =? 34)%N eqn:E.
  - apply N.eqb_eq in E. subst c.
    assert (forall t, is_prefix w (34%N :: t) = false) as NP.
    { intro t. destruct w as [|x w']; [congruence|]. cbn [is_prefix]. unfold isq in hd_nq. rewrite hd_nq. reflexivity. }
    cbn [contains] in H. rewrite !NP in H. cbn [orb] in H. cbn [contains]. rewrite NP. cbn [orb]. exact (IH H).
  - cbn [contains] in H. apply orb_prop in H as [H|H].
    + cbn [contains]. assert (is_prefix w (c :: l) = true) as ->; [|reflexivity].
      apply (is_prefix_esc w Q (c :: l)). cbn [esc]. now rewrite E.
    + cbn [contains]. rewrite (IH H). apply orb_true_r.
Qed.

Lemma contains_kw_quotefree (core p : text) : forallb (fun c => negb (isq c)) p = true -> contains (34%N :: core) p = false.
Proof.
  induction p as [|c p IH]; intro H; [reflexivity|]. cbn [forallb] in H. apply andb_prop in H as [Hc H].
  apply negb_true_iff in Hc. cbn [contains is_prefix]. unfold isq in Hc. rewrite N.eqb_sym, Hc. cbn [andb orb]. exact (IH H).
Qed.

(* a written string on its line *)
Lemma quoted_line_clean l : kwfree l = true -> cleanp (quoted l ++ NL1).
Proof.
  unfold kwfree. intro H. apply andb_prop in H as [HI HP]. apply negb_true_iff in HI, HP.
  assert (forall core, core <> [] -> forallb (fun c => negb (isq c)) core = true -> ~ In 34%N core -> ~ In 10%N core ->
            has_sub core l = false -> contains (34%N :: core ++ [34%N]) (quoted l ++ NL1) = false) as G.
  { intros core NE Q N34 N10 HL. destruct (contains (34%N :: core ++ [34%N]) (quoted l ++ NL1)) eqn:E; [|reflexivity].
    apply contains_quoted_core in E. unfold quoted, Q1, NL1 in E. rewrite <- !app_assoc in E. cbn [app] in E.
    change (34%N :: esc l ++ 34%N :: [10%N]) with ([] ++ 34%N :: esc l ++ 34%N :: [10%N]) in E.
    apply (occ_sep core 34%N NE N34) in E as [E|E]; [rewrite (contains_nil_false core NE) in E; discriminate|].
    apply (occ_sep core 34%N NE N34) in E as [E|E].
    - apply (contains_esc core NE Q) in E. unfold has_sub in HL. congruence.
    - cbn [contains] in E. destruct core as [|x core']; [congruence|]. cbn [is_prefix] in E.
      destruct (N.eqb_spec x 10); [subst; exfalso; apply N10; now left|]. cbn [andb orb] in E. discriminate. }
  split; [|split].
  - apply (G CORE_I); try reflexivity; try discriminate; try exact HI; vm_compute; intuition discriminate.
  - apply (G CORE_P); try reflexivity; try discriminate; try exact HP; vm_compute; intuition discriminate.
  - exists (quoted l). reflexivity.
Qed.

(* a number on its line *)
Lemma num_line_clean t : plain_tok t = true -> cleanp (t ++ NL1).
Proof.
  intro P. unfold plain_tok in P. destruct t as [|c t]; [discriminate|].
  assert (forallb (fun x => negb (isq x)) ((c :: t) ++ NL1) = true) as Q.
  { rewrite forallb_app. rewrite andb_true_iff. split; [|reflexivity].
    apply forallb_forall. intros x Hx. rewrite forallb_forall in P. specialize (P x Hx). now apply andb_prop in P as [_ ?]. }
  split; [|split].
  - exact (contains_kw_quotefree _ _ Q).
  - exact (contains_kw_quotefree _ _ Q).
  - now exists (c :: t).
Qed.

(* clean pieces concatenate *)
Lemma cleanp_app p q : cleanp p -> cleanp q -> cleanp (p ++ q).
Proof.
  intros (A1 & B1 & p0 & ->) (A2 & B2 & q0 & ->).
  assert (forall k, k <> [] -> ~ In 10%N k -> contains k (p0 ++ [10%N]) = false -> contains k (q0 ++ [10%N]) = false ->
            contains k ((p0 ++ [10%N]) ++ q0 ++ [10%N]) = false) as G.
  { intros k NE NI H1 H2. destruct (contains k ((p0 ++ [10%N]) ++ q0 ++ [10%N])) eqn:E; [|reflexivity].
    rewrite <- app_assoc in E. cbn [app] in E. apply (occ_sep k 10%N NE NI) in E as [E|E].
    - rewrite (contains_app_l k p0 [10%N] E) in H1. discriminate.
    - congruence. }
  split; [|split].
  - apply G; try assumption; [discriminate|vm_compute; intuition discriminate].
  - apply G; try assumption; [discriminate|vm_compute; intuition discriminate].
  - exists ((p0 ++ [10%N]) ++ q0). now rewrite <- !app_assoc.
Qed.

(* ---------- the written file ---------- *)

Definition cleanp0 (q : text) : Prop := q = [] \/ cleanp q.

Lemma cleanp_app0 p q : cleanp p -> cleanp0 q -> cleanp (p ++ q).
Proof. intros P [->|Q]; [now rewrite app_nil_r|now apply cleanp_app]. Qed.

Definition entry_free (e : dentry) : bool := match e with DI _ _ l | DP _ l => kwfree l end.

Lemma entry_clean tab e : times_plain tab e = true -> entry_free e = true -> cleanp (short_entry tab e).
Proof.
  intros TP EF. destruct e as [s e' l|t l]; cbn [short_entry times_plain entry_free] in *.
  - apply andb_prop in TP as [P1 P2].
    rewrite (app_assoc (num_str (lookup tab s))). apply cleanp_app; [apply num_line_clean, P1|].
    rewrite (app_assoc (num_str (lookup tab e'))). apply cleanp_app; [apply num_line_clean, P2|].
    apply quoted_line_clean, EF.
  - rewrite (app_assoc (num_str (lookup tab t))). apply cleanp_app; [apply num_line_clean, TP|]. apply quoted_line_clean, EF.
Qed.

Lemma entries_clean tab ents : forallb (times_plain tab) ents = true -> forallb entry_free ents = true ->
  cleanp0 (flat_map (short_entry tab) ents).
Proof.
  induction ents as [|e ents IH]; intros TP EF; [now left|]. right.
  cbn [forallb] in TP, EF. apply andb_prop in TP as [T1 TP]. apply andb_prop in EF as [E1 EF].
  cbn [flat_map]. apply cleanp_app0; [apply entry_clean; assumption|apply IH; assumption].
Qed.

Definition tier_free (t : dtier) : bool := kwfree (d_name t) && forallb entry_free (d_ents t).

(* a tier as written: the opening quote, then a clean piece *)
Lemma short_tier_shape tab t : tier_ok tab t = true -> tier_free t = true ->
  exists body, short_tier tab t = 34%N :: (if d_isint t then TLI else TLP) ++ body
               /\ cleanp ((if d_isint t then TLI else TLP) ++ body).
Proof.
  intros TK TF. unfold tier_ok in TK. apply andb_prop in TK as [TK _]. apply andb_prop in TK as [TK HT].
  apply andb_prop in TK as [P1 P2]. unfold tier_free in TF. apply andb_prop in TF as [FN FE].
  exists (NL1 ++ quoted (d_name t) ++ NL1 ++ num_str (lookup tab (d_xmin t)) ++ NL1 ++ num_str (lookup tab (d_xmax t)) ++ NL1
          ++ nat_to_text (length (d_ents t)) ++ NL1 ++ flat_map (short_entry tab) (d_ents t)).
  split.
  - unfold short_tier. destruct (d_isint t); reflexivity.
  - rewrite app_assoc. apply cleanp_app.
    + destruct (d_isint t); (split; [reflexivity|split; [reflexivity|]]); eexists; reflexivity.
    + rewrite (app_assoc (quoted _)). apply cleanp_app; [apply quoted_line_clean, FN|].
      rewrite (app_assoc (num_str _)). apply cleanp_app; [apply num_line_clean, P1|].
      rewrite (app_assoc (num_str _)). apply cleanp_app; [apply num_line_clean, P2|].
      rewrite (app_assoc (nat_to_text _)). apply cleanp_app0; [apply num_line_clean, nat_to_text_plain|].
      apply entries_clean; assumption.
Qed.

Lemma SB_tiers tab : forall tiers cur k acc,
  forallb (tier_ok tab) tiers = true -> forallb tier_free tiers = true ->
  SB (flat_map (short_tier tab) tiers) cur k acc
  = rev acc ++ (k, rev cur) :: map (fun t => (Some (d_isint t), short_tier tab t)) tiers.
Proof.
  induction tiers as [|t tiers IH]; intros cur k acc TK TF.
  - cbn [flat_map map]. rewrite SB_nil. reflexivity.
  - cbn [forallb] in TK, TF. apply andb_prop in TK as [K1 TK]. apply andb_prop in TF as [F1 TF].
    destruct (short_tier_shape tab t K1 F1) as (body & E & C).
    cbn [flat_map map]. rewrite E at 1.
    change ((34%N :: (if d_isint t then TLI else TLP) ++ body) ++ flat_map (short_tier tab) tiers)
      with (34%N :: ((if d_isint t then TLI else TLP) ++ body) ++ flat_map (short_tier tab) tiers).
    assert (SB (34%N :: ((if d_isint t then TLI else TLP) ++ body) ++ flat_map (short_tier tab) tiers) cur k acc
            = SB (((if d_isint t then TLI else TLP) ++ body) ++ flat_map (short_tier tab) tiers) [34%N] (Some (d_isint t)) ((k, rev cur) :: acc)) as ->.
    { destruct (d_isint t); [apply SB_cut_int|apply SB_cut_pt]. }
    rewrite (SB_clean _ _ _ _ _ C). rewrite (IH _ _ _ TK TF). cbn [rev].
    rewrite <- app_assoc. cbn [app]. f_equal. f_equal. f_equal.
    rewrite rev_app_distr, rev_involutive. cbn [rev app]. now rewrite E.
Qed.

Lemma header_clean tab g :
  plain_tok (num_str (lookup tab (dg_xmin g))) = true -> plain_tok (num_str (lookup tab (dg_xmax g))) = true ->
  cleanp (short_header tab g).
Proof.
  intros A B. unfold short_header.
  apply cleanp_app; [split; [reflexivity|split; [reflexivity|]]; exists (removelast HEADER); reflexivity|].
  rewrite (app_assoc (num_str _)). apply cleanp_app; [apply num_line_clean, A|].
  rewrite (app_assoc (num_str _)). apply cleanp_app; [apply num_line_clean, B|].
  rewrite (app_assoc (T "<exists>")). apply cleanp_app; [split; [reflexivity|split; [reflexivity|]]; eexists; reflexivity|].
  apply num_line_clean, nat_to_text_plain.
Qed.

(* the side condition of the whole-file theorem holds whenever no name or label contains a class word *)
Theorem chunk_ok_free tab g :
  plain_tok (num_str (lookup tab (dg_xmin g))) = true -> plain_tok (num_str (lookup tab (dg_xmax g))) = true ->
  forallb (tier_ok tab) (dg_tiers g) = true -> forallb tier_free (dg_tiers g) = true ->
  chunk_ok tab g = true.
Proof.
  intros A B TK TF. unfold chunk_ok.
  assert (print_short tab g = short_header tab g ++ flat_map (short_tier tab) (dg_tiers g)) as E.
  { unfold print_short, short_header. now rewrite <- !app_assoc. }
  rewrite E. change (short_blocks (S (length (short_header tab g ++ flat_map (short_tier tab) (dg_tiers g))))
                                  (short_header tab g ++ flat_map (short_tier tab) (dg_tiers g)) [] None [])
    with (SB (short_header tab g ++ flat_map (short_tier tab) (dg_tiers g)) [] None []).
  rewrite (SB_clean _ _ _ _ _ (header_clean tab g A B)), (SB_tiers tab _ _ _ _ TK TF).
  cbn [rev app]. rewrite app_nil_r, rev_involutive.
  apply list_eqb_eq; [|reflexivity].
  intros [a1 a2] [b1 b2]; simpl. rewrite andb_true_iff, text_eqb_eq. split.
  - intros [E1 E2]. f_equal; [|exact E2]. destruct a1 as [x|], b1 as [y|]; simpl in E1; try discriminate; [|reflexivity].
    apply Bool.eqb_prop in E1. now subst.
  - intros [= -> ->]. split; [|reflexivity]. destruct b1 as [y|]; simpl; [apply Bool.eqb_reflx|reflexivity].
Qed.

(* hence the whole-file round trip of the short form without any evaluated side condition *)
Theorem parse_short_printed_free tab g :
  dg_tiers g <> [] ->
  forallb (fun c => negb (c =? 13)%N) (print_short tab g) = true ->
  plain_tok (num_str (lookup tab (dg_xmin g))) = true -> plain_tok (num_str (lookup tab (dg_xmax g))) = true ->
  forallb (tier_ok tab) (dg_tiers g) = true -> forallb tier_free (dg_tiers g) = true ->
  parse_short (print_short tab g) = Ok (rd_tg tab g).
Proof.
  intros NE CR A B TK TF. apply parse_short_printed; try assumption. now apply chunk_ok_free.
Qed.
