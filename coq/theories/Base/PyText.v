(* Base/PyText.v -- text as a list of Unicode code points, with the Python
   str operations the praatIO code uses. *)
From PraatIO Require Export Base.Prelude.

Definition text := list N.

Definition text_eqb (a b : text) : bool := list_eqb N.eqb a b.

Lemma text_eqb_eq a b : text_eqb a b = true <-> a = b.
Proof. apply list_eqb_eq. intros; apply N.eqb_eq. Qed.

Lemma text_eqb_refl a : text_eqb a a = true.
Proof. apply text_eqb_eq; reflexivity. Qed.

Lemma text_eqb_neq a b : text_eqb a b = false <-> a <> b.
Proof.
  split; intro H.
  - intro E. apply text_eqb_eq in E. congruence.
  - destruct (text_eqb a b) eqn:E; [apply text_eqb_eq in E; contradiction|reflexivity].
Qed.

(* Python str comparison: lexicographic by code point, a proper prefix is smaller *)
Fixpoint text_cmp (a b : text) : comparison :=
  match a, b with
  | [], [] => Eq
  | [], _ :: _ => Lt
  | _ :: _, [] => Gt
  | x :: a', y :: b' =>
      match N.compare x y with
      | Eq => text_cmp a' b'
      | c => c
      end
  end.

Lemma text_cmp_eq a b : text_cmp a b = Eq <-> a = b.
Proof.
  revert b; induction a as [|x a IH]; intros [|y b]; simpl; split; intro H;
    try reflexivity; try discriminate.
  - destruct (N.compare x y) eqn:E; try discriminate.
    apply N.compare_eq in E. apply IH in H. congruence.
  - inversion H; subst. rewrite N.compare_refl. apply IH; reflexivity.
Qed.

Lemma text_cmp_antisym a b : text_cmp b a = CompOpp (text_cmp a b).
Proof.
  revert b; induction a as [|x a IH]; intros [|y b]; simpl; try reflexivity.
  rewrite (N.compare_antisym x y). destruct (N.compare x y); simpl; auto.
Qed.

Lemma text_cmp_trans_lt a b c : text_cmp a b = Lt -> text_cmp b c = Lt -> text_cmp a c = Lt.
Proof.
  revert b c; induction a as [|x a IH]; intros [|y b] [|z c]; simpl; intros H1 H2;
    try reflexivity; try discriminate.
  destruct (N.compare x y) eqn:E1; try discriminate;
    destruct (N.compare y z) eqn:E2; try discriminate.
  - apply N.compare_eq in E1, E2. subst. rewrite N.compare_refl. eapply IH; eauto.
  - apply N.compare_eq in E1. subst. now rewrite E2.
  - apply N.compare_eq in E2. subst. now rewrite E1.
  - rewrite N.compare_lt_iff in E1, E2. assert (x < z)%N as H by lia.
    apply N.compare_lt_iff in H. now rewrite H.
Qed.

(* str.isspace(), which equals the regex class \s for str patterns:
   29 code points *)
Definition isspace (c : N) : bool :=
  ((9 <=? c) && (c <=? 13) || (28 <=? c) && (c <=? 32)
   || (c =? 133) || (c =? 160) || (c =? 5760)
   || (8192 <=? c) && (c <=? 8202)
   || (c =? 8232) || (c =? 8233) || (c =? 8239) || (c =? 8287) || (c =? 12288))%N.

Fixpoint lstrip (t : text) : text :=
  match t with
  | c :: t' => if isspace c then lstrip t' else t
  | [] => []
  end.

Definition rstrip (t : text) : text := rev (lstrip (rev t)).
Definition strip (t : text) : text := rstrip (lstrip t).

Definition stripped (t : text) : Prop := strip t = t.
Definition strippedb (t : text) : bool := text_eqb (strip t) t.

Lemma strippedb_spec t : strippedb t = true <-> stripped t.
Proof. apply text_eqb_eq. Qed.

Lemma lstrip_idem t : lstrip (lstrip t) = lstrip t.
Proof.
  induction t as [|c t IH]; simpl; [reflexivity|].
  destruct (isspace c) eqn:E; [exact IH|]. simpl. now rewrite E.
Qed.

Lemma lstrip_head t : match lstrip t with c :: _ => isspace c = false | [] => True end.
Proof.
  induction t as [|c t IH]; simpl; [exact I|].
  destruct (isspace c) eqn:E; [exact IH|exact E].
Qed.

Lemma lstrip_noop t : match t with c :: _ => isspace c = false | [] => True end -> lstrip t = t.
Proof. destruct t as [|c t]; simpl; [reflexivity|]. now intros ->. Qed.

Lemma lstrip_suffix t : exists p, t = p ++ lstrip t /\ Forall (fun c => isspace c = true) p.
Proof.
  induction t as [|c t (p & E & F)]; simpl.
  - exists []; split; [reflexivity|constructor].
  - destruct (isspace c) eqn:Ec.
    + exists (c :: p); split; [simpl; congruence|constructor; assumption].
    + exists []; split; [reflexivity|constructor].
Qed.

(* the first character of rstrip t is the first character of t, when t does
   not start with a space *)
Lemma lstrip_rstrip_comm_aux t :
  match t with c :: _ => isspace c = false | [] => True end ->
  match rstrip t with c :: _ => isspace c = false | [] => True end.
Proof.
  destruct t as [|c t]; [intros _; exact I|]. intro Hc.
  unfold rstrip. simpl rev.
  destruct (lstrip_suffix (rev t ++ [c])) as (p & E & F).
  remember (lstrip (rev t ++ [c])) as s eqn:Es.
  assert (rev (rev t ++ [c]) = rev (p ++ s)) as E' by congruence.
  rewrite rev_app_distr, rev_involutive in E'. simpl in E'.
  rewrite rev_app_distr in E'.
  destruct (rev s) as [|c' s'] eqn:Er.
  - (* s empty: then all of t is whitespace including c, contradiction *)
    simpl in E'. assert (In c (rev p)) as Hin by (rewrite <- E'; left; reflexivity).
    apply in_rev in Hin. rewrite Forall_forall in F. apply F in Hin. congruence.
  - simpl in E'. inversion E'; subst. exact Hc.
Qed.

Lemma strip_idem t : strip (strip t) = strip t.
Proof.
  unfold strip.
  pose proof (lstrip_rstrip_comm_aux (lstrip t) (lstrip_head t)) as H.
  rewrite (lstrip_noop _ H).
  unfold rstrip. rewrite rev_involutive, lstrip_idem. reflexivity.
Qed.

Lemma strip_stripped t : stripped (strip t).
Proof. apply strip_idem. Qed.

(* sep.join(parts) *)
Fixpoint join (sep : text) (parts : list text) : text :=
  match parts with
  | [] => []
  | [p] => p
  | p :: rest => p ++ sep ++ join sep rest
  end.

Definition DASH : text := [45%N].
Definition LPAREN : text := [40%N].
Definition RPAREN : text := [41%N].
Definition COMMA : text := [44%N].
Definition QUOTE : N := 34%N.
Definition NL : N := 10%N.

(* substring test: needle in haystack *)
Fixpoint is_prefix (p t : text) : bool :=
  match p, t with
  | [], _ => true
  | x :: p', y :: t' => N.eqb x y && is_prefix p' t'
  | _ :: _, [] => false
  end.

Fixpoint contains (needle hay : text) : bool :=
  is_prefix needle hay ||
  match hay with
  | [] => false
  | _ :: hay' => contains needle hay'
  end.

Lemma is_prefix_spec p t : is_prefix p t = true <-> exists s, t = p ++ s.
Proof.
  revert t; induction p as [|x p IH]; intro t; simpl.
  - split; [intros _; exists t; reflexivity|reflexivity].
  - destruct t as [|y t]; [split; [discriminate|intros (s & E); discriminate]|].
    rewrite andb_true_iff, N.eqb_eq, IH. split.
    + intros (-> & s & ->). exists s; reflexivity.
    + intros (s & E). inversion E; subst. split; [reflexivity|exists s; reflexivity].
Qed.

Lemma contains_spec needle hay :
  contains needle hay = true <-> exists a b, hay = a ++ needle ++ b.
Proof.
  induction hay as [|c hay IH]; simpl.
  - rewrite orb_false_r, is_prefix_spec. split.
    + intros (s & E). exists [], s. exact E.
    + intros (a & b & E). destruct a; [exists b; exact E|discriminate].
  - rewrite orb_true_iff, is_prefix_spec, IH. split.
    + intros [(s & E)|(a & b & E)]; [exists [], s; exact E|exists (c :: a), b; simpl; congruence].
    + intros (a & b & E). destruct a as [|c' a]; [left; exists b; exact E|].
      right. inversion E; subst. exists a, b; reflexivity.
Qed.
