(* Base/Prelude.v -- shared imports, result type, generic list helpers,
   insertion sort with its characterising lemmas, Python list semantics. *)
From Coq Require Export ZArith NArith List Bool Lia Sorting.Sorted Sorting.Permutation.
From Coq Require Export ZifyBool.
Export ListNotations.
Open Scope Z_scope.

Ltac Zify.zify_post_hook ::= Z.to_euclidean_division_equations.

(* ------------------------------------------------------------------ *)
(* Errors and results                                                 *)

Inductive err :=
| ArgumentError | CollisionError | TextgridStateError | OutOfBounds
| TierNameExistsError | TextgridStateAutoModified | WrongOption | ParsingError
| DuplicateTierName | SafeZipException | FindZeroCrossingError | TimelessTier
| BadKlattGridFormat | BadFormatException
| PyError.          (* any exception that is not a praatio exception *)

Definition err_eqb (a b : err) : bool :=
  match a, b with
  | ArgumentError, ArgumentError | CollisionError, CollisionError
  | TextgridStateError, TextgridStateError | OutOfBounds, OutOfBounds
  | TierNameExistsError, TierNameExistsError
  | TextgridStateAutoModified, TextgridStateAutoModified
  | WrongOption, WrongOption | ParsingError, ParsingError
  | DuplicateTierName, DuplicateTierName | SafeZipException, SafeZipException
  | FindZeroCrossingError, FindZeroCrossingError | TimelessTier, TimelessTier
  | BadKlattGridFormat, BadKlattGridFormat | BadFormatException, BadFormatException
  | PyError, PyError => true
  | _, _ => false
  end.

Lemma err_eqb_eq a b : err_eqb a b = true <-> a = b.
Proof. destruct a, b; simpl; split; intro H; try reflexivity; discriminate. Qed.

Inductive res (A : Type) := Ok (a : A) | Err (e : err).
Arguments Ok {A} a.
Arguments Err {A} e.

Definition bind {A B} (r : res A) (f : A -> res B) : res B :=
  match r with Ok a => f a | Err e => Err e end.
Notation "'do' x <- r ; k" := (bind r (fun x => k))
  (at level 200, x name, r at level 100, k at level 200).

Definition res_eqb {A} (eqb : A -> A -> bool) (r s : res A) : bool :=
  match r, s with
  | Ok a, Ok b => eqb a b
  | Err e, Err f => err_eqb e f
  | _, _ => false
  end.

Definition is_ok {A} (r : res A) : bool := match r with Ok _ => true | Err _ => false end.

(* ------------------------------------------------------------------ *)
(* Generic boolean equality on lists / options                         *)

Fixpoint list_eqb {A} (eqb : A -> A -> bool) (l m : list A) : bool :=
  match l, m with
  | [], [] => true
  | x :: l', y :: m' => eqb x y && list_eqb eqb l' m'
  | _, _ => false
  end.

Lemma list_eqb_eq {A} (eqb : A -> A -> bool)
      (H : forall x y, eqb x y = true <-> x = y) l m :
  list_eqb eqb l m = true <-> l = m.
Proof.
  revert m; induction l as [|x l IH]; intros [|y m]; simpl; split; intro E;
    try reflexivity; try discriminate.
  - apply andb_true_iff in E as [E1 E2]. apply H in E1. apply IH in E2. congruence.
  - inversion E; subst. apply andb_true_iff; split; [apply H|apply IH]; reflexivity.
Qed.

Definition option_eqb {A} (eqb : A -> A -> bool) (a b : option A) : bool :=
  match a, b with
  | None, None => true
  | Some x, Some y => eqb x y
  | _, _ => false
  end.

Lemma option_eqb_eq {A} (eqb : A -> A -> bool)
      (H : forall x y, eqb x y = true <-> x = y) a b :
  option_eqb eqb a b = true <-> a = b.
Proof.
  destruct a, b; simpl; split; intro E; try reflexivity; try discriminate.
  - apply H in E; congruence.
  - inversion E; subst; apply H; reflexivity.
Qed.

(* indices (as nat) of the elements on which f is false: used by the
   correspondence files so that only a short list is printed *)
Fixpoint fails_from {A} (f : A -> bool) (n : nat) (l : list A) : list nat :=
  match l with
  | [] => []
  | x :: l' => if f x then fails_from f (S n) l' else n :: fails_from f (S n) l'
  end.
Definition fails {A} (f : A -> bool) (l : list A) : list nat := fails_from f 0%nat l.

(* ------------------------------------------------------------------ *)
(* filter_map and friends                                              *)

Fixpoint filter_map {A B} (f : A -> option B) (l : list A) : list B :=
  match l with
  | [] => []
  | x :: l' => match f x with Some y => y :: filter_map f l' | None => filter_map f l' end
  end.

Lemma filter_map_app {A B} (f : A -> option B) l m :
  filter_map f (l ++ m) = filter_map f l ++ filter_map f m.
Proof. induction l as [|x l IH]; simpl; [reflexivity|]. destruct (f x); simpl; congruence. Qed.

Lemma filter_map_filter_map_filter {A B} (f : A -> option B) (p : A -> bool) (g : A -> B) l :
  (forall x, f x = if p x then Some (g x) else None) ->
  filter_map f l = map g (filter p l).
Proof.
  intro H; induction l as [|x l IH]; simpl; [reflexivity|].
  rewrite H. destruct (p x); simpl; congruence.
Qed.

Lemma In_filter_map {A B} (f : A -> option B) l y :
  In y (filter_map f l) <-> exists x, In x l /\ f x = Some y.
Proof.
  induction l as [|x l IH]; simpl.
  - split; [tauto|intros (x & [] & _)].
  - destruct (f x) eqn:E; simpl; rewrite IH; split.
    + intros [->|(x' & Hi & Hf)]; eauto.
    + intros (x' & [->|Hi] & Hf); [left; congruence|right; eauto].
    + intros (x' & Hi & Hf); eauto.
    + intros (x' & [->|Hi] & Hf); [congruence|eauto].
Qed.

(* ------------------------------------------------------------------ *)
(* Insertion sort over a boolean order; equals Python's sorted() for a  *)
(* total order whose ties are only between identical elements           *)

Section Sort.
  Context {A : Type} (leb : A -> A -> bool).

  Fixpoint insert (x : A) (l : list A) : list A :=
    match l with
    | [] => [x]
    | y :: l' => if leb x y then x :: y :: l' else y :: insert x l'
    end.

  Fixpoint isort (l : list A) : list A :=
    match l with
    | [] => []
    | x :: l' => insert x (isort l')
    end.

  Definition lebP (x y : A) : Prop := leb x y = true.

  Lemma insert_perm x l : Permutation (x :: l) (insert x l).
  Proof.
    induction l as [|y l IH]; simpl; [reflexivity|].
    destruct (leb x y); [reflexivity|].
    rewrite perm_swap. apply perm_skip, IH.
  Qed.

  Lemma isort_perm l : Permutation l (isort l).
  Proof.
    induction l as [|x l IH]; simpl; [reflexivity|].
    rewrite <- insert_perm. apply perm_skip, IH.
  Qed.

  Lemma isort_In x l : In x (isort l) <-> In x l.
  Proof.
    split; intro H.
    - eapply Permutation_in; [symmetry; apply isort_perm|exact H].
    - eapply Permutation_in; [apply isort_perm|exact H].
  Qed.

  Lemma isort_length l : length (isort l) = length l.
  Proof. symmetry; apply Permutation_length, isort_perm. Qed.

  Lemma insert_sorted_id x l :
    StronglySorted lebP (x :: l) -> insert x l = x :: l.
  Proof.
    intros H. destruct l as [|y l]; simpl; [reflexivity|].
    inversion H as [|? ? _ Hall]; subst. inversion Hall as [|? ? Hxy _]; subst.
    unfold lebP in Hxy. now rewrite Hxy.
  Qed.

  Lemma isort_sorted_id l : StronglySorted lebP l -> isort l = l.
  Proof.
    induction l as [|x l IH]; intro H; simpl; [reflexivity|].
    inversion H as [|? ? Hl _]; subst.
    rewrite (IH Hl). apply insert_sorted_id, H.
  Qed.

  Hypothesis leb_total : forall x y, leb x y = true \/ leb y x = true.
  Hypothesis leb_trans : forall x y z, leb x y = true -> leb y z = true -> leb x z = true.

  Lemma insert_sorted x l :
    StronglySorted lebP l -> StronglySorted lebP (insert x l).
  Proof.
    induction l as [|y l IH]; intro H; simpl.
    - constructor; constructor.
    - destruct (leb x y) eqn:E.
      + constructor; [exact H|]. constructor; [exact E|].
        inversion H as [|? ? _ Hall]; subst.
        eapply Forall_impl; [|exact Hall]. intros z Hz. eapply leb_trans; eauto.
      + inversion H as [|? ? Hl Hall]; subst.
        constructor; [apply IH, Hl|].
        apply Forall_forall. intros z Hz.
        apply (Permutation_in z (Permutation_sym (insert_perm x l))) in Hz.
        destruct Hz as [<-|Hz].
        * destruct (leb_total x y) as [C|C]; [congruence|exact C].
        * rewrite Forall_forall in Hall. apply Hall, Hz.
  Qed.

  Lemma isort_sorted l : StronglySorted lebP (isort l).
  Proof. induction l as [|x l IH]; simpl; [constructor|apply insert_sorted, IH]. Qed.

  Hypothesis leb_antisym : forall x y, leb x y = true -> leb y x = true -> x = y.

  (* two sorted permutations of each other are equal *)
  Lemma sorted_perm_eq l m :
    StronglySorted lebP l -> StronglySorted lebP m -> Permutation l m -> l = m.
  Proof.
    revert m; induction l as [|x l IH]; intros m Hl Hm P.
    - apply Permutation_nil in P; congruence.
    - destruct m as [|y m]; [apply Permutation_sym, Permutation_nil in P; discriminate|].
      inversion Hl as [|? ? Hl' Hxl]; subst. inversion Hm as [|? ? Hm' Hym]; subst.
      assert (x = y) as ->.
      { assert (In x (y :: m)) as [->|Hx] by (eapply Permutation_in; [exact P|left; reflexivity]);
          [reflexivity|].
        assert (In y (x :: l)) as [->|Hy]
            by (eapply Permutation_in; [symmetry; exact P|left; reflexivity]); [reflexivity|].
        rewrite Forall_forall in Hxl, Hym. apply leb_antisym; [apply Hxl, Hy|apply Hym, Hx]. }
      f_equal. apply IH; auto. eapply Permutation_cons_inv, P.
  Qed.

  Lemma isort_unique l m :
    Permutation l m -> StronglySorted lebP m -> isort l = m.
  Proof.
    intros P Hm. apply sorted_perm_eq; [apply isort_sorted|exact Hm|].
    rewrite <- P. symmetry. apply isort_perm.
  Qed.

  Lemma isort_idem l : isort (isort l) = isort l.
  Proof. apply isort_sorted_id, isort_sorted. Qed.

  Lemma isort_perm_eq l m : Permutation l m -> isort l = isort m.
  Proof.
    intro P. apply isort_unique; [|apply isort_sorted].
    rewrite P. apply isort_perm.
  Qed.
End Sort.

(* ------------------------------------------------------------------ *)
(* Python list semantics                                               *)

(* l.remove(x) / l.pop(l.index(x)) : remove the first element equal to x;
   None when absent (Python raises ValueError) *)
Fixpoint remove_first {A} (eqb : A -> A -> bool) (x : A) (l : list A) : option (list A) :=
  match l with
  | [] => None
  | y :: l' => if eqb y x then Some l'
               else match remove_first eqb x l' with
                    | Some r => Some (y :: r) | None => None end
  end.

(* normalised Python index for list.insert: negative counts from the end,
   both directions clamp *)
Definition py_insert_pos (len : nat) (i : Z) : nat :=
  let n := Z.of_nat len in
  let j := if i <? 0 then Z.max 0 (n + i) else Z.min n i in
  Z.to_nat j.

Definition py_insert {A} (l : list A) (i : Z) (x : A) : list A :=
  let k := py_insert_pos (length l) i in
  firstn k l ++ x :: skipn k l.

(* slice l[i:j] for non-negative i j (already normalised) *)
Definition slice {A} (l : list A) (i j : nat) : list A := firstn (j - i) (skipn i l).

Fixpoint last_opt {A} (l : list A) : option A :=
  match l with
  | [] => None
  | [x] => Some x
  | _ :: l' => last_opt l'
  end.

Definition zmin_list (l : list Z) : option Z :=
  match l with [] => None | x :: l' => Some (fold_left Z.min l' x) end.
Definition zmax_list (l : list Z) : option Z :=
  match l with [] => None | x :: l' => Some (fold_left Z.max l' x) end.

Lemma fold_min_le l : forall x, fold_left Z.min l x <= x /\ Forall (fun y => fold_left Z.min l x <= y) l.
Proof.
  induction l as [|y l IH]; intro x; simpl; [split; [lia|constructor]|].
  destruct (IH (Z.min x y)) as [H1 H2]. split; [lia|]. constructor; [lia|exact H2].
Qed.

Lemma fold_max_ge l : forall x, x <= fold_left Z.max l x /\ Forall (fun y => y <= fold_left Z.max l x) l.
Proof.
  induction l as [|y l IH]; intro x; simpl; [split; [lia|constructor]|].
  destruct (IH (Z.max x y)) as [H1 H2]. split; [lia|]. constructor; [lia|exact H2].
Qed.

Lemma fold_min_In l : forall x, fold_left Z.min l x = x \/ In (fold_left Z.min l x) l.
Proof.
  induction l as [|y l IH]; intro x; simpl; [left; reflexivity|].
  destruct (IH (Z.min x y)) as [H|H]; [|right; right; exact H].
  rewrite H. destruct (Z.min_spec x y) as [[_ ->]|[_ ->]]; [left|right; left]; reflexivity.
Qed.

Lemma fold_max_In l : forall x, fold_left Z.max l x = x \/ In (fold_left Z.max l x) l.
Proof.
  induction l as [|y l IH]; intro x; simpl; [left; reflexivity|].
  destruct (IH (Z.max x y)) as [H|H]; [|right; right; exact H].
  rewrite H. destruct (Z.max_spec x y) as [[_ ->]|[_ ->]]; [right; left|left]; reflexivity.
Qed.

Lemma zmin_list_spec l m : zmin_list l = Some m -> In m l /\ Forall (fun y => m <= y) l.
Proof.
  destruct l as [|x l]; simpl; [discriminate|]. intros [= <-].
  destruct (fold_min_le l x) as [H1 H2]. split.
  - destruct (fold_min_In l x) as [->|H]; [left; reflexivity|right; exact H].
  - constructor; assumption.
Qed.

Lemma zmax_list_spec l m : zmax_list l = Some m -> In m l /\ Forall (fun y => y <= m) l.
Proof.
  destruct l as [|x l]; simpl; [discriminate|]. intros [= <-].
  destruct (fold_max_ge l x) as [H1 H2]. split.
  - destruct (fold_max_In l x) as [->|H]; [left; reflexivity|right; exact H].
  - constructor; assumption.
Qed.

(* round half to even of the rational n/d, d > 0  (Python round()) *)
Definition round_half_even (n d : Z) : Z :=
  let q := n / d in
  let r := n mod d in
  if 2 * r <? d then q
  else if d <? 2 * r then q + 1
  else if Z.even q then q else q + 1.
