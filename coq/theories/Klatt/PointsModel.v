(* Klatt/PointsModel.v -- the point blocks of KlattGrid files (klattgrid._processSectionData,
   KlattPointTier.getAsText, modifyValues), the section slicer, and the short text form of
   PointProcess / PitchTier / DurationTier objects (data_points.py, data_point.py) (C19).
   Numbers are opaque tokens: text as written by repr(), read back by float(). *)
From Coq Require Import String.
From PraatIO Require Export IO.Str.

Definition EQ : N := 61%N.

(* ------------------------------------------------------------------ *)
(* KlattPointTier.getAsText / KlattSubPointTier.getAsText: the point rows *)

Fixpoint print_points (indent : text) (k : nat) (pts : list (text * text)) : text :=
  match pts with
  | [] => []
  | (t, v) :: rest =>
      indent ++ T "points [" ++ nat_to_text k ++ T "]:" ++ [10%N]
      ++ indent ++ T "    number = " ++ t ++ [10%N]
      ++ indent ++ T "    value = " ++ v ++ [10%N]
      ++ print_points indent (S k) rest
  end.

(* str.index("=") on a suffix: the text after the first '=' *)
Fixpoint after_eq (s : text) : option text :=
  match s with
  | [] => None
  | c :: s' => if (c =? 61)%N then Some s' else after_eq s'
  end.

(* up to (not including) the first newline, and the suffix starting AT that newline *)
Fixpoint upto_nl (s : text) : option (text * text) :=
  match s with
  | [] => None
  | c :: s' => if (c =? 10)%N then Some ([], s)
               else match upto_nl s' with Some (a, b) => Some (c :: a, b) | None => None end
  end.

(* _processSectionData: (time token, value token) pairs; the first search for '=' ends the
   loop, every other failed search is an uncaught ValueError *)
Fixpoint process_points (fuel : nat) (s : text) : res (list (text * text)) :=
  match fuel with
  | O => Err PyError
  | S f =>
      match after_eq s with
      | None => Ok []
      | Some r1 =>
          match upto_nl r1 with
          | None => Err PyError
          | Some (tok1, r2) =>
              match after_eq r2 with
              | None => Err PyError
              | Some r3 =>
                  match upto_nl r3 with
                  | None => Err PyError
                  | Some (tok2, r4) =>
                      do rest <- process_points f r4; Ok ((strip tok1, strip tok2) :: rest)
                  end
              end
          end
      end
  end.

Definition process_section (s : text) : res (list (text * text)) :=
  let s := s ++ [10%N] in process_points (S (length s)) s.

(* KlattPointTier.modifyValues *)
Definition modify_values {V} (f : V -> V) (pts : list (text * V)) : list (text * V) :=
  map (fun p => (fst p, f (snd p))) pts.

(* ------------------------------------------------------------------ *)
(* section slicing: data[idx_i : idx_{i+1}] for consecutive indices      *)

Definition slice_nat {A} (l : list A) (a b : nat) : list A := firstn (b - a) (skipn a l).

Fixpoint sections {A} (data : list A) (idxs : list nat) : list (list A) :=
  match idxs with
  | a :: rest => match rest with b :: _ => slice_nat data a b :: sections data rest | [] => [] end
  | [] => []
  end.

(* as the reader stood before the repair of F16: the last section stops one character short *)
Fixpoint sections_legacy {A} (data : list A) (idxs : list nat) : list (list A) :=
  match idxs with
  | a :: rest => match rest with
                 | [b] => [slice_nat data a (b - 1)]
                 | b :: _ => slice_nat data a b :: sections_legacy data rest
                 | [] => [] end
  | [] => []
  end.

(* ------------------------------------------------------------------ *)
(* PointObject.save (short text form) and data_points.open1D/2DPointObject *)

Definition po_header (cls mn mx : text) (n : nat) : text :=
  T "File type = ""ooTextFile""" ++ [10%N] ++ T "Object class = """ ++ cls ++ T """" ++ [10%N] ++ [10%N]
  ++ mn ++ [10%N] ++ mx ++ [10%N] ++ nat_to_text n.

(* n = len(pointList): the number of points (not of values) *)
Definition po_save (cls mn mx : text) (n : nat) (vals : list text) : text :=
  po_header cls mn mx n ++ [10%N] ++ join [10%N] vals ++ [10%N].

(* data.split("\n", k): the first k lines and the remainder *)
Fixpoint split_first (k : nat) (s : text) : list text :=
  match k with
  | O => [s]
  | S k' => match take_line s with
            | Some (l, r) => l :: split_first k' r
            | None => [s]
            end
  end.

Definition nonblank (l : text) : bool := negb (text_eqb (strip l) []).

(* _parseShortHeader: rest, min, max (object type handling is trusted string surgery) *)
Definition po_short_header (data : text) : res (text * text * text) :=
  match split_first 6 data with
  | [_; _; _; mn; mx; _; rest] => Ok (rest, mn, mx)
  | _ => Err PyError
  end.

Definition po_open_1d (data : text) : res (text * text * list text) :=
  do h <- po_short_header data;
  let '(rest, mn, mx) := h in
  Ok (mn, mx, filter nonblank (split_nl rest)).

Fixpoint pairs_from (l : list text) : res (list (text * text)) :=
  match l with
  | [] => Ok []
  | a :: l' =>
      if nonblank a then
        match l' with
        | b :: l'' => do r <- pairs_from l''; Ok ((a, b) :: r)
        | [] => Err PyError                                  (* IndexError *)
        end
      else match l' with
           | _ :: l'' => pairs_from l''
           | [] => Ok []
           end
  end.

Definition po_open_2d (data : text) : res (text * text * list (text * text)) :=
  do h <- po_short_header data;
  let '(rest, mn, mx) := h in
  do ps <- pairs_from (split_nl rest);
  Ok (mn, mx, ps).
