(* Klatt/PointsProofs.v -- the point rows written for a KlattGrid tier are read back as the
   same (time, value) tokens; slicing into sections loses nothing; the short text form of
   point objects round-trips (C19). *)
From Coq Require Import Lia String.
From PraatIO Require Import Klatt.PointsModel IO.CodecProofs.

Definition noeq (l : text) : bool := forallb (fun c => negb (c =? 61)%N) l.
Definition nonl (l : text) : bool := forallb (fun c => negb (c =? 10)%N) l.

Lemma noeq_app a b : noeq (a ++ b) = noeq a && noeq b.
Proof. unfold noeq. apply forallb_app. Qed.
Lemma nonl_app a b : nonl (a ++ b) = nonl a && nonl b.
Proof. unfold nonl. apply forallb_app. Qed.

Lemma after_eq_none l : noeq l = true -> after_eq l = None.
Proof.
  induction l as [|c l IH]; simpl; [reflexivity|]. intro H. apply andb_prop in H as [Hc Hl].
  apply negb_true_iff in Hc. now rewrite Hc, IH.
Qed.

Lemma after_eq_pref pre rest : noeq pre = true -> after_eq (pre ++ 61%N :: rest) = Some rest.
Proof.
  induction pre as [|c pre IH]; simpl; [reflexivity|]. intro H. apply andb_prop in H as [Hc Hl].
  apply negb_true_iff in Hc. now rewrite Hc, IH.
Qed.

Lemma upto_nl_pref tok rest : nonl tok = true -> upto_nl (tok ++ 10%N :: rest) = Some (tok, 10%N :: rest).
Proof.
  induction tok as [|c tok IH]; simpl; [reflexivity|]. intro H. apply andb_prop in H as [Hc Hl].
  apply negb_true_iff in Hc. now rewrite Hc, IH.
Qed.

(* decimal digits contain neither '=' nor a newline *)
Lemma digit_ok d : (d < 10)%nat -> negb (digit d =? 61)%N = true /\ negb (digit d =? 10)%N = true.
Proof.
  intro H. unfold digit.
  do 10 (destruct d as [|d]; [split; reflexivity|]). lia.
Qed.

Lemma nat_to_text_fuel_ok fuel : forall n acc,
  noeq acc = true -> nonl acc = true ->
  noeq (nat_to_text_fuel fuel n acc) = true /\ nonl (nat_to_text_fuel fuel n acc) = true.
Proof.
  induction fuel as [|f IH]; intros n acc A B; cbn [nat_to_text_fuel]; [auto|].
  assert (n mod 10 < 10)%nat as D by (apply Nat.mod_upper_bound; lia).
  destruct (digit_ok _ D) as [D1 D2].
  assert (noeq (digit (n mod 10) :: acc) = true) as A' by (unfold noeq in *; cbn [forallb]; rewrite D1; exact A).
  assert (nonl (digit (n mod 10) :: acc) = true) as B' by (unfold nonl in *; cbn [forallb]; rewrite D2; exact B).
  destruct (n / 10 =? 0)%nat; [auto|apply IH; assumption].
Qed.

Lemma nat_to_text_ok n : noeq (nat_to_text n) = true /\ nonl (nat_to_text n) = true.
Proof. apply nat_to_text_fuel_ok; reflexivity. Qed.

(* a token as repr() writes it: no '=', no newline, no surrounding white space *)
Definition tok_ok (t : text) : Prop := noeq t = true /\ nonl t = true /\ strip t = t.

Lemma strip_space_tok t : strip (32%N :: t) = strip t.
Proof. unfold strip. reflexivity. Qed.

Lemma T_number : T "    number = " = T "    number " ++ [61%N; 32%N].
Proof. reflexivity. Qed.
Lemma T_value : T "    value = " = T "    value " ++ [61%N; 32%N].
Proof. reflexivity. Qed.

(* _processSectionData on the rows getAsText writes: the same tokens, for any number of points *)
Theorem process_printed indent pts : noeq indent = true -> Forall (fun p => tok_ok (fst p) /\ tok_ok (snd p)) pts ->
  forall k pre post fuel, noeq pre = true -> noeq post = true -> (length pts < fuel)%nat ->
  process_points fuel (pre ++ print_points indent k pts ++ post) = Ok pts.
Proof.
  intros HI HP. induction HP as [|[t v] pts ((T1 & T2 & T3) & (V1 & V2 & V3)) _ IH]; intros k pre post fuel Hpre Hpost Hf.
  - destruct fuel as [|f]; [simpl in Hf; lia|]. simpl. rewrite after_eq_none; [reflexivity|].
    rewrite noeq_app, Hpre, Hpost. reflexivity.
  - destruct fuel as [|f]; [simpl in Hf; lia|]. simpl fst in *. simpl snd in *.
    cbn [print_points]. rewrite T_number, T_value.
    destruct (nat_to_text_ok k) as [K1 _].
    set (R2 := print_points indent (S k) pts ++ post).
    set (P1 := pre ++ indent ++ T "points [" ++ nat_to_text k ++ T "]:" ++ [10%N] ++ indent ++ T "    number ").
    set (P2 := [10%N] ++ indent ++ T "    value ").
    assert (pre ++ (indent ++ T "points [" ++ nat_to_text k ++ T "]:" ++ [10%N]
                   ++ indent ++ (T "    number " ++ [61%N; 32%N]) ++ t ++ [10%N]
                   ++ indent ++ (T "    value " ++ [61%N; 32%N]) ++ v ++ [10%N] ++ print_points indent (S k) pts) ++ post
            = P1 ++ 61%N :: ((32%N :: t) ++ 10%N :: (indent ++ T "    value ") ++ 61%N :: ((32%N :: v) ++ 10%N :: R2))) as ->.
    { unfold P1, R2. repeat rewrite <- app_assoc. simpl. repeat rewrite <- app_assoc. reflexivity. }
    assert (noeq P1 = true) as NP1.
    { unfold P1. repeat rewrite noeq_app. rewrite Hpre, HI, K1. reflexivity. }
    cbn [process_points]. rewrite (after_eq_pref _ _ NP1).
    rewrite upto_nl_pref by (simpl; exact T2).
    assert (10%N :: (indent ++ T "    value ") ++ 61%N :: (32%N :: v) ++ 10%N :: R2
            = P2 ++ 61%N :: ((32%N :: v) ++ 10%N :: R2)) as -> by (unfold P2; simpl; now rewrite <- app_assoc).
    assert (noeq P2 = true) as NP2 by (unfold P2; repeat rewrite noeq_app; rewrite HI; reflexivity).
    rewrite (after_eq_pref _ _ NP2).
    rewrite upto_nl_pref by (simpl; exact V2).
    change (10%N :: R2) with ([10%N] ++ print_points indent (S k) pts ++ post).
    rewrite (IH (S k) [10%N] post f); [|reflexivity|exact Hpost|simpl in Hf; lia].
    cbn [bind]. rewrite !strip_space_tok, T3, V3. reflexivity.
Qed.

Lemma print_points_length indent pts : forall k, (length pts <= length (print_points indent k pts))%nat.
Proof.
  induction pts as [|[t v] pts IH]; intro k; [simpl; lia|].
  cbn [print_points length]. specialize (IH (S k)).
  repeat (rewrite app_length; cbn [length]). lia.
Qed.

(* the block as the reader receives it (the section is stripped, the final newline re-added) *)
Theorem process_section_printed indent pts : noeq indent = true -> Forall (fun p => tok_ok (fst p) /\ tok_ok (snd p)) pts ->
  process_section (print_points indent 1 pts) = Ok pts.
Proof.
  intros HI HP. unfold process_section.
  pose proof (process_printed indent pts HI HP 1%nat [] [10%N] (S (length (print_points indent 1 pts ++ [10%N])))) as H.
  simpl app in H. apply H; try reflexivity.
  rewrite app_length. pose proof (print_points_length indent pts 1). simpl. lia.
Qed.

(* modifyValues: every value through the function exactly once, times and count untouched *)
Theorem modify_values_spec {V} (f : V -> V) pts :
  map fst (modify_values f pts) = map fst pts /\ map snd (modify_values f pts) = map f (map snd pts)
  /\ length (modify_values f pts) = length pts.
Proof. unfold modify_values. rewrite !map_map, map_length. simpl. repeat split; reflexivity. Qed.

(* ------------------------------------------------------------------ *)
(* slicing into sections is lossless                                    *)

Fixpoint ascending (l : list nat) : Prop :=
  match l with a :: rest => match rest with b :: _ => (a <= b)%nat /\ ascending rest | [] => True end | [] => True end.

Lemma firstn_add {A} n k : forall l : list A, firstn (n + k) l = firstn n l ++ firstn k (skipn n l).
Proof.
  induction n as [|n IH]; intro l; [reflexivity|].
  destruct l as [|x l]; [simpl; now rewrite firstn_nil|]. simpl. now rewrite IH.
Qed.

Lemma skipn_skipn' {A} x : forall y (l : list A), skipn x (skipn y l) = skipn (x + y) l.
Proof.
  intros y. induction y as [|y IH]; intro l; [now rewrite Nat.add_0_r|].
  destruct l as [|a l]; [now rewrite !skipn_nil|]. replace (x + S y)%nat with (S (x + y)) by lia. simpl. apply IH.
Qed.

Lemma slice_nat_app {A} (l : list A) a b c : (a <= b)%nat -> (b <= c)%nat ->
  slice_nat l a b ++ slice_nat l b c = slice_nat l a c.
Proof.
  intros H1 H2. unfold slice_nat.
  replace (c - a)%nat with ((b - a) + (c - b))%nat by lia.
  rewrite firstn_add, skipn_skipn'. replace (b - a + a)%nat with b by lia. reflexivity.
Qed.

Lemma last_cons {A} (b : A) idxs d : last (b :: idxs) d = last idxs b.
Proof.
  revert b d; induction idxs as [|c idxs IH]; intros b d; [reflexivity|].
  change (last (b :: c :: idxs) d) with (last (c :: idxs) d). rewrite (IH c d).
  change (last (c :: idxs) b) with (last (c :: idxs) b). rewrite (IH c b). reflexivity.
Qed.

Theorem sections_lossless {A} (data : list A) idxs : forall a,
  ascending (a :: idxs) ->
  concat (sections data (a :: idxs)) = slice_nat data a (last idxs a) /\ (a <= last idxs a)%nat.
Proof.
  induction idxs as [|b idxs IH]; intros a Asc.
  - simpl. unfold slice_nat. rewrite Nat.sub_diag. split; [reflexivity|lia].
  - destruct Asc as [Hab Asc]. destruct (IH b Asc) as (E & L).
    change (sections data (a :: b :: idxs)) with (slice_nat data a b :: sections data (b :: idxs)).
    cbn [concat]. rewrite E. rewrite (last_cons b idxs a). split; [|lia].
    apply slice_nat_app; assumption.
Qed.

(* before the repair of F16 the last character of the last section was lost *)
Theorem sections_legacy_refuted :
  exists (data : list N) idxs, concat (sections_legacy data idxs) <> slice_nat data (hd 0%nat idxs) (last idxs 0%nat).
Proof. exists [53%N; 48%N], [0%nat; 2%nat]. vm_compute. discriminate. Qed.

(* ------------------------------------------------------------------ *)
(* PointProcess / PitchTier / DurationTier, short text form             *)

Lemma take_line_nl line rest : nonl line = true -> take_line (line ++ 10%N :: rest) = Some (line, rest).
Proof. apply take_line_app. Qed.

Lemma split_nl_line line rest : nonl line = true -> split_nl (line ++ 10%N :: rest) = line :: split_nl rest.
Proof.
  induction line as [|c line IH]; intro H; [reflexivity|].
  simpl in H. apply andb_prop in H as [Hc Hl]. apply negb_true_iff in Hc.
  simpl. rewrite Hc, (IH Hl). reflexivity.
Qed.

Lemma split_nl_lines vals : Forall (fun v => nonl v = true) vals ->
  split_nl (flat_map (fun v => v ++ [10%N]) vals) = vals ++ [[]].
Proof.
  induction 1 as [|v vals Hv _ IH]; [reflexivity|].
  simpl. rewrite <- app_assoc. simpl. rewrite (split_nl_line _ _ Hv), IH. reflexivity.
Qed.

(* "\n".join(vals) + "\n" for a non-empty list = every value followed by a newline *)
Lemma join_nl_lines vals : vals <> [] -> join [10%N] vals ++ [10%N] = flat_map (fun v => v ++ [10%N]) vals.
Proof.
  induction vals as [|v vals IH]; [congruence|]. intros _.
  destruct vals as [|w vals']; [simpl; now rewrite app_nil_r|].
  change (join [10%N] (v :: w :: vals')) with (v ++ [10%N] ++ join [10%N] (w :: vals')).
  change (flat_map (fun v0 : list N => v0 ++ [10%N]) (v :: w :: vals'))
    with ((v ++ [10%N]) ++ flat_map (fun v0 : list N => v0 ++ [10%N]) (w :: vals')).
  rewrite <- IH by discriminate. now rewrite <- !app_assoc.
Qed.

Lemma split_first_step k line rest : nonl line = true ->
  split_first (S k) (line ++ [10%N] ++ rest) = line :: split_first k rest.
Proof. intro H. cbn [split_first]. change ([10%N] ++ rest) with (10%N :: rest). now rewrite (take_line_nl _ _ H). Qed.

Lemma header_split cls mn mx n body : nonl cls = true -> nonl mn = true -> nonl mx = true ->
  split_first 6 (po_header cls mn mx n ++ [10%N] ++ body)
  = [T "File type = ""ooTextFile"""; T "Object class = """ ++ cls ++ T """"; []; mn; mx; nat_to_text n; body].
Proof.
  intros C A B. unfold po_header. destruct (nat_to_text_ok n) as [_ Dn].
  assert (nonl (T "Object class = """ ++ cls ++ T """") = true) as OC by (rewrite !nonl_app, C; reflexivity).
  replace ((T "File type = ""ooTextFile""" ++ [10%N] ++ T "Object class = """ ++ cls ++ T """" ++ [10%N] ++ [10%N]
            ++ mn ++ [10%N] ++ mx ++ [10%N] ++ nat_to_text n) ++ [10%N] ++ body)
    with (T "File type = ""ooTextFile""" ++ [10%N] ++ ((T "Object class = """ ++ cls ++ T """") ++ [10%N] ++ ([] ++ [10%N]
            ++ (mn ++ [10%N] ++ (mx ++ [10%N] ++ (nat_to_text n ++ [10%N] ++ body))))))
    by (repeat rewrite <- app_assoc; reflexivity).
  rewrite split_first_step by reflexivity. rewrite (split_first_step _ _ _ OC).
  rewrite split_first_step by reflexivity. rewrite (split_first_step _ _ _ A), (split_first_step _ _ _ B), (split_first_step _ _ _ Dn).
  reflexivity.
Qed.

Lemma filter_nonblank_lines vals : Forall (fun v => nonblank v = true) vals -> filter nonblank (vals ++ [[]]) = vals.
Proof.
  induction 1 as [|v vals Hv _ IH]; [reflexivity|]. simpl. now rewrite Hv, IH.
Qed.

(* 1D (PointProcess): class, span and point list come back exactly *)
Theorem po_roundtrip_1d cls mn mx n vals :
  nonl cls = true -> nonl mn = true -> nonl mx = true ->
  Forall (fun v => nonl v = true) vals -> Forall (fun v => nonblank v = true) vals ->
  po_open_1d (po_save cls mn mx n vals) = Ok (mn, mx, vals).
Proof.
  intros C A B NL NB. unfold po_open_1d, po_save, po_short_header.
  rewrite header_split by assumption. cbn [bind]. f_equal. f_equal.
  destruct vals as [|v vals']; [reflexivity|].
  rewrite join_nl_lines by discriminate. rewrite (split_nl_lines _ NL). apply filter_nonblank_lines, NB.
Qed.

Fixpoint flatten_pairs (ps : list (text * text)) : list text :=
  match ps with [] => [] | (a, b) :: r => a :: b :: flatten_pairs r end.

Lemma pairs_from_flat ps : Forall (fun p => nonblank (fst p) = true) ps -> pairs_from (flatten_pairs ps ++ [[]]) = Ok ps.
Proof.
  induction 1 as [|[a b] ps Ha _ IH]; [reflexivity|]. simpl in *. rewrite Ha, IH. reflexivity.
Qed.

(* 2D (PitchTier, DurationTier) *)
Theorem po_roundtrip_2d cls mn mx n ps :
  nonl cls = true -> nonl mn = true -> nonl mx = true ->
  Forall (fun p => nonl (fst p) = true /\ nonl (snd p) = true /\ nonblank (fst p) = true) ps ->
  po_open_2d (po_save cls mn mx n (flatten_pairs ps)) = Ok (mn, mx, ps).
Proof.
  intros C A B H. unfold po_open_2d, po_save, po_short_header.
  rewrite header_split by assumption. cbn [bind].
  assert (Forall (fun v => nonl v = true) (flatten_pairs ps)) as NL.
  { induction H as [|[a b] ps (H1 & H2 & _) _ IH]; simpl; [constructor|]. repeat constructor; assumption. }
  assert (Forall (fun p => nonblank (fst p) = true) ps) as NB by (eapply Forall_impl; [|exact H]; simpl; tauto).
  destruct ps as [|[a b] ps'].
  - reflexivity.
  - rewrite join_nl_lines by discriminate. rewrite (split_nl_lines _ NL).
    rewrite (pairs_from_flat _ NB). reflexivity.
Qed.
