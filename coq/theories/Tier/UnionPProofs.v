(* Tier/UnionPProofs.v -- PointTier.union: the time points of the result are exactly those of either operand; with distinct times in each operand,
   a time both have carries the two labels joined, a time only one has keeps its label *)
From Coq Require Import Lia Permutation.
From PraatIO Require Import Tier.TierModel Tier.Interval Tier.CtorProofs Tier.WfProofs.
Open Scope Z_scope.

Definition ptimes (l : list point) : list Z := map ptime l.

Lemma remove_first_perm (x : point) l l' : remove_first point_eqb x l = Some l' -> Permutation l (x :: l').
Proof.
  revert l'. induction l as [|z l IH]; intros l' E; [discriminate|]. cbn [remove_first] in E.
  destruct (point_eqb z x) eqn:Ez.
  - apply point_eqb_eq in Ez. subst. injection E as <-. apply Permutation_refl.
  - destruct (remove_first point_eqb x l) as [r|]; [|discriminate]. injection E as <-.
    eapply Permutation_trans; [apply perm_skip, IH; reflexivity|apply perm_swap].
Qed.

Lemma isortp_times l x : In x (ptimes (isortp l)) <-> In x (ptimes l).
Proof.
  unfold ptimes. split; intro H; apply in_map_iff in H as (p & <- & Hp); apply in_map.
  - now apply isort_In in Hp.
  - apply (Permutation_in p (isort_perm pleb l)), Hp.
Qed.

(* insertEntry(merge): the time of the new point joins the time set, nothing else does, nothing leaves *)
Lemma insert_p_merge_times t e t' : insert_p t e IMerge = Ok t' ->
  forall x, In x (ptimes (pents t')) <-> In x (ptimes (pents t)) \/ x = ptime e.
Proof.
  intros H x. unfold insert_p, insert_p_core in H.
  replace (ptime (strip_p e)) with (ptime e) in H by (destruct e; reflexivity).
  destruct (find_time (ptime e) (pents t)) as [old|] eqn:F.
  - destruct (find_time_In _ _ _ F) as [Hin Ht].
    destruct (remove_first point_eqb old (pents t)) as [l|] eqn:R; [|discriminate]. cbn [bind] in H.
    injection H as <-. cbn [pents]. rewrite isortp_times. unfold ptimes. rewrite map_app. cbn [map ptime].
    pose proof (remove_first_perm _ _ _ R) as P.
    rewrite in_app_iff. cbn [In]. split.
    + intros [Hl|[<-|[]]]; [left|now right].
      apply in_map_iff in Hl as (p & <- & Hp). apply in_map. apply (Permutation_in p (Permutation_sym P)). now right.
    + intros [Hl| ->]; [|right; now left].
      apply in_map_iff in Hl as (p & <- & Hp). apply (Permutation_in p P) in Hp. destruct Hp as [<-|Hp].
      * right. left. now rewrite Ht.
      * left. now apply in_map.
  - cbn [bind] in H. injection H as <-. cbn [pents]. rewrite isortp_times. unfold ptimes. rewrite map_app, in_app_iff.
    cbn [map In]. replace (ptime (strip_p e)) with (ptime e) by (destruct e; reflexivity). intuition.
Qed.

Lemma copy_ptier_times t t' : copy_ptier t = Ok t' -> forall x, In x (ptimes (pents t')) <-> In x (ptimes (pents t)).
Proof.
  unfold copy_ptier, new_ptier. destruct (zmin_list _); [|discriminate]. destruct (zmax_list _); [|discriminate].
  intros [= <-] x. cbn [pents]. unfold homog_p. rewrite isortp_times. unfold ptimes. rewrite map_map.
  assert (map (fun p => ptime (strip_p p)) (pents t) = map ptime (pents t)) as -> by (apply map_ext; now intros []). tauto.
Qed.

Theorem union_p_times A B t' : union_p A B = Ok t' ->
  forall x, In x (ptimes (pents t')) <-> In x (ptimes (pents A)) \/ In x (ptimes (pents B)).
Proof.
  unfold union_p. destruct (copy_ptier A) as [A0|] eqn:C; [|discriminate]. cbn [bind].
  destruct (fold_res _ (pents B) A0) as [r|] eqn:F; [|discriminate]. cbn [bind]. intros [= <-] x. cbn [pents].
  rewrite isortp_times, <- (copy_ptier_times _ _ C x).
  clear C. revert A0 r F. induction (pents B) as [|e l IH]; intros A0 r F; cbn [fold_res] in F.
  - injection F as <-. cbn. tauto.
  - destruct (insert_p A0 e IMerge) as [A1|] eqn:I; [|discriminate]. cbn [bind] in F.
    rewrite (IH _ _ F), (insert_p_merge_times _ _ _ I x). unfold ptimes. cbn [map In]. intuition.
Qed.

(* ... and the labels: a point of the result at a time only A has (B has none there) is A's point *)
Lemma find_time_none x l : find_time x l = None <-> ~ In x (ptimes l).
Proof.
  induction l as [|p l IH]; cbn [find_time ptimes map In]; [tauto|].
  destruct (ptime p =? x) eqn:E.
  - split; [discriminate|]. intro H. exfalso. apply H. left. lia.
  - unfold ptimes in IH. rewrite IH. split; [intros H [H1|H1]; [lia|auto]|tauto].
Qed.

(* ---------- labels, for operands whose points have distinct times ---------- *)

Definition lab_p (l : list point) (x : Z) : option text := option_map plabel (find_time x l).

Lemma NoDup_snoc {A} (l : list A) x : NoDup l -> ~ In x l -> NoDup (l ++ [x]).
Proof.
  induction l as [|a l IH]; intros ND NI; cbn [app]; [repeat constructor; intros []|].
  inversion ND as [|? ? Na ND']; subst. constructor.
  - intro H. apply in_app_or in H as [H|[<-|[]]]; [contradiction|]. apply NI. now left.
  - apply IH; [exact ND'|]. intro; apply NI; now right.
Qed.

Lemma find_time_unique l : NoDup (ptimes l) -> forall p, In p l -> find_time (ptime p) l = Some p.
Proof.
  induction l as [|q l IH]; intros ND p Hp; [destruct Hp|]. cbn [ptimes map] in ND. inversion ND as [|? ? NI ND']; subst.
  cbn [find_time]. destruct Hp as [->|Hp].
  - now rewrite Z.eqb_refl.
  - destruct (ptime q =? ptime p) eqn:E; [|apply IH; assumption].
    exfalso. apply NI. apply Z.eqb_eq in E. rewrite E. now apply in_map.
Qed.

Lemma find_time_perm l l' x : NoDup (ptimes l) -> Permutation l l' -> find_time x l = find_time x l'.
Proof.
  intros ND P.
  assert (NoDup (ptimes l')) as ND' by (eapply Permutation_NoDup; [apply Permutation_map, P|exact ND]).
  destruct (find_time x l) as [p|] eqn:F.
  - destruct (find_time_In _ _ _ F) as [Hin <-]. symmetry. apply find_time_unique; [exact ND'|].
    apply (Permutation_in p P), Hin.
  - destruct (find_time x l') as [p|] eqn:F'; [|reflexivity].
    destruct (find_time_In _ _ _ F') as [Hin <-].
    apply (Permutation_in p (Permutation_sym P)) in Hin.
    now rewrite (find_time_unique l ND p Hin) in F.
Qed.

Lemma find_time_app_notin x l m : ~ In x (ptimes l) -> find_time x (l ++ m) = find_time x m.
Proof.
  induction l as [|p l IH]; intro H; [reflexivity|]. cbn [app find_time]. cbn [ptimes map In] in H.
  destruct (ptime p =? x) eqn:E; [exfalso; apply H; left; lia|]. apply IH. intro; apply H; now right.
Qed.

Lemma find_time_app_in x l m p : find_time x l = Some p -> find_time x (l ++ m) = Some p.
Proof.
  induction l as [|q l IH]; [discriminate|]. cbn [app find_time]. destruct (ptime q =? x); [auto|exact IH].
Qed.

Lemma insert_p_merge_labels t e t' : NoDup (ptimes (pents t)) -> insert_p t e IMerge = Ok t' ->
  NoDup (ptimes (pents t'))
  /\ forall x, lab_p (pents t') x =
       if x =? ptime e then Some (match lab_p (pents t) x with
                                  | Some a => join DASH [a; strip (plabel e)]
                                  | None => strip (plabel e) end)
       else lab_p (pents t) x.
Proof.
  intros ND H. unfold insert_p, insert_p_core in H.
  replace (ptime (strip_p e)) with (ptime e) in H by (destruct e; reflexivity).
  replace (plabel (strip_p e)) with (strip (plabel e)) in H by (destruct e; reflexivity).
  destruct (find_time (ptime e) (pents t)) as [old|] eqn:F.
  - destruct (find_time_In _ _ _ F) as [Hin Ht].
    destruct (remove_first point_eqb old (pents t)) as [l|] eqn:R; [|discriminate]. cbn [bind] in H.
    injection H as <-. cbn [pents].
    pose proof (remove_first_perm _ _ _ R) as P.
    assert (NoDup (ptimes (old :: l))) as ND1 by (eapply Permutation_NoDup; [apply Permutation_map, P|exact ND]).
    cbn [ptimes map] in ND1. inversion ND1 as [|? ? NI NDl]; subst.
    set (m := mkP (ptime e) _).
    assert (NoDup (ptimes (l ++ [m]))) as ND2.
    { unfold ptimes. rewrite map_app. cbn [map]. apply NoDup_snoc; [exact NDl|].
      unfold m. cbn [ptime]. rewrite <- Ht. exact NI. }
    split; [eapply Permutation_NoDup; [apply Permutation_map, (isort_perm pleb)|exact ND2]|].
    intro x. unfold lab_p, isortp. rewrite <- (find_time_perm _ _ x ND2 (isort_perm pleb _)).
    destruct (x =? ptime e) eqn:E.
    + apply Z.eqb_eq in E. subst x. rewrite F. cbn [option_map].
      rewrite find_time_app_notin by (rewrite <- Ht; exact NI). cbn [find_time m ptime]. rewrite Z.eqb_refl. reflexivity.
    + rewrite (find_time_perm _ _ x ND P). cbn [find_time]. rewrite Ht.
      assert (ptime e =? x = false) as -> by lia.
      destruct (find_time x l) as [p|] eqn:Fl.
      * now rewrite (find_time_app_in _ _ _ _ Fl).
      * rewrite find_time_app_notin by now apply find_time_none. cbn [find_time m ptime].
        assert (ptime e =? x = false) as -> by lia. reflexivity.
  - cbn [bind] in H. injection H as <-. cbn [pents].
    set (m := strip_p e). assert (ptime m = ptime e) as Hm by (destruct e; reflexivity).
    assert (NoDup (ptimes (pents t ++ [m]))) as ND2.
    { unfold ptimes. rewrite map_app. cbn [map]. apply NoDup_snoc; [exact ND|].
      rewrite Hm. now apply find_time_none in F. }
    split; [eapply Permutation_NoDup; [apply Permutation_map, (isort_perm pleb)|exact ND2]|].
    intro x. unfold lab_p, isortp. rewrite <- (find_time_perm _ _ x ND2 (isort_perm pleb _)).
    destruct (x =? ptime e) eqn:E.
    + apply Z.eqb_eq in E. subst x. rewrite F. cbn [option_map].
      rewrite find_time_app_notin by now apply find_time_none. cbn [find_time]. rewrite Hm, Z.eqb_refl.
      cbn [option_map]. destruct e; reflexivity.
    + destruct (find_time x (pents t)) as [p|] eqn:Fl.
      * now rewrite (find_time_app_in _ _ _ _ Fl).
      * rewrite find_time_app_notin by now apply find_time_none. cbn [find_time]. rewrite Hm.
        assert (ptime e =? x = false) as -> by lia. reflexivity.
Qed.

Lemma copy_ptier_labels t t' : NoDup (ptimes (pents t)) -> copy_ptier t = Ok t' ->
  NoDup (ptimes (pents t')) /\ forall x, lab_p (pents t') x = option_map strip (lab_p (pents t) x).
Proof.
  intros ND. unfold copy_ptier, new_ptier. destruct (zmin_list _); [|discriminate]. destruct (zmax_list _); [|discriminate].
  intros [= <-]. cbn [pents]. unfold homog_p.
  assert (ptimes (map strip_p (pents t)) = ptimes (pents t)) as Et.
  { unfold ptimes. rewrite map_map. apply map_ext. now intros []. }
  assert (NoDup (ptimes (map strip_p (pents t)))) as ND1 by now rewrite Et.
  split; [eapply Permutation_NoDup; [apply Permutation_map, (isort_perm pleb)|exact ND1]|].
  intro x. unfold lab_p, isortp. rewrite <- (find_time_perm _ _ x ND1 (isort_perm pleb _)).
  clear. induction (pents t) as [|p l IH]; [reflexivity|]. cbn [map find_time].
  replace (ptime (strip_p p)) with (ptime p) by (destruct p; reflexivity).
  destruct (ptime p =? x); [destruct p; reflexivity|exact IH].
Qed.

Lemma lab_p_cons e l x : lab_p (e :: l) x = if ptime e =? x then Some (plabel e) else lab_p l x.
Proof. unfold lab_p. cbn [find_time]. now destruct (ptime e =? x). Qed.

(* union of two point tiers with distinct times: a time both have carries "a-b", a time one has keeps its label *)
Theorem union_p_labels A B t' :
  NoDup (ptimes (pents A)) -> NoDup (ptimes (pents B)) -> union_p A B = Ok t' ->
  forall x, lab_p (pents t') x =
    match lab_p (pents A) x, lab_p (pents B) x with
    | Some a, Some b => Some (join DASH [strip a; strip b])
    | Some a, None => Some (strip a)
    | None, Some b => Some (strip b)
    | None, None => None
    end.
Proof.
  intros NA NB. unfold union_p. destruct (copy_ptier A) as [A0|] eqn:C; [|discriminate]. cbn [bind].
  destruct (fold_res _ (pents B) A0) as [r|] eqn:F; [|discriminate]. cbn [bind]. intros [= <-] x. cbn [pents].
  destruct (copy_ptier_labels _ _ NA C) as [N0 L0].
  assert (NoDup (ptimes (pents r)) /\
          lab_p (pents r) x = match lab_p (pents A0) x, lab_p (pents B) x with
                              | Some a, Some b => Some (join DASH [a; strip b])
                              | Some a, None => Some a
                              | None, Some b => Some (strip b)
                              | None, None => None end) as [Nr Lr].
  { clear C L0. revert A0 r N0 F. induction (pents B) as [|e l IH]; intros A0 r N0 F; cbn [fold_res] in F.
    - injection F as <-. split; [exact N0|]. change (lab_p [] x) with (@None text). now destruct (lab_p (pents A0) x).
    - destruct (insert_p A0 e IMerge) as [A1|] eqn:I; [|discriminate]. cbn [bind] in F.
      cbn [ptimes map] in NB. inversion NB as [|? ? NI NB']; subst.
      destruct (insert_p_merge_labels _ _ _ N0 I) as [N1 L1].
      destruct (IH NB' _ _ N1 F) as [Nr Lr]. split; [exact Nr|]. rewrite Lr, (L1 x).
      rewrite lab_p_cons, (Z.eqb_sym (ptime e) x).
      destruct (x =? ptime e) eqn:E.
      + apply Z.eqb_eq in E. subst x.
        assert (lab_p l (ptime e) = None) as -> by (unfold lab_p; apply find_time_none in NI; now rewrite NI).
        cbn [option_map]. now destruct (lab_p (pents A0) (ptime e)).
      + reflexivity. }
  unfold lab_p at 1, isortp. rewrite <- (find_time_perm _ _ x Nr (isort_perm pleb _)). fold (lab_p (pents r) x).
  rewrite Lr, (L0 x). destruct (lab_p (pents A) x), (lab_p (pents B) x); reflexivity.
Qed.
