(* Tier/TierModel.v -- executable models of praatio.data_classes.interval_tier,
   point_tier, textgrid_tier and the helpers of utilities/utils.py they use.
   Models only; proofs live in the *Proofs.v files. *)
From PraatIO Require Export Tier.Interval.

Inductive cropmode := Strict | Lax | Truncated.
Inductive erasemode := ETruncate | ECategorical | EError.
Inductive spacemode := SStretch | SSplit | SNoChange | SError.
Inductive insmode := IReplace | IMerge | IError.
Inductive repmode := RSilence | RWarning | RError.

Definition opt_list {A} (o : option A) : list A := match o with Some a => [a] | None => [] end.

(* ------------------------------------------------------------------ *)
(* constructors: IntervalTier(name, entries, minT, maxT), PointTier(..) *)

Definition strip_i (i : interval) : interval := mkI (istart i) (iend i) (strip (ilabel i)).
Definition strip_p (p : point) : point := mkP (ptime p) (strip (plabel p)).
Definition homog_i (l : list interval) : list interval := isorti (map strip_i l).
Definition homog_p (l : list point) : list point := isortp (map strip_p l).

Definition new_itier (name : text) (l : list interval) (mn mx : option Z) : res itier :=
  let l' := homog_i l in
  match zmin_list (map istart l' ++ opt_list mn), zmax_list (map iend l' ++ opt_list mx) with
  | Some a, Some b =>
      if sorted_disjb l' then Ok (mkIT name l' a b) else Err TextgridStateError
  | _, _ => Err TimelessTier
  end.

Definition new_ptier (name : text) (l : list point) (mn mx : option Z) : res ptier :=
  let l' := homog_p l in
  (* one list of candidate times: entries, minT and maxT together *)
  let all := map ptime l' ++ opt_list mn ++ opt_list mx in
  match zmin_list all, zmax_list all with
  | Some a, Some b => Ok (mkPT name l' a b)
  | _, _ => Err TimelessTier
  end.

(* tier.new() with everything defaulted: a validated copy *)
Definition copy_itier (t : itier) : res itier :=
  new_itier (iname t) (ients t) (Some (imin t)) (Some (imax t)).
Definition copy_ptier (t : ptier) : res ptier :=
  new_ptier (pname t) (pents t) (Some (pmin t)) (Some (pmax t)).

(* ------------------------------------------------------------------ *)
(* utils.getIntervalsInInterval, one entry (same branch order as the source) *)

Definition is_lax (m : cropmode) := match m with Lax => true | _ => false end.
Definition is_trunc (m : cropmode) := match m with Truncated => true | _ => false end.

Definition giii1 (a b : Z) (mode : cropmode) (i : interval) : option interval :=
  let s := istart i in let e := iend i in
  if (e <=? a) || (b <=? s) then None
  else if (a <=? s) && (e <=? b) then Some i
  else if is_lax mode && ((a <=? s) || (e <=? b)) then Some i
  else if (a <=? s) && (b <? e) then
    (if is_trunc mode then Some (mkI s b (ilabel i)) else None)
  else if (s <? a) && (e <=? b) then
    (if is_trunc mode then Some (mkI a e (ilabel i)) else None)
  else if (s <=? a) && (b <=? e) then
    (match mode with
     | Lax => Some i
     | Truncated => Some (mkI a b (ilabel i))
     | Strict => None end)
  else None.

Definition giii (a b : Z) (mode : cropmode) (l : list interval) : list interval :=
  filter_map (giii1 a b mode) l.

(* IntervalTier.crop *)
Definition crop_i (t : itier) (a b : Z) (mode : cropmode) (rebase : bool) : res itier :=
  if b <=? a then Err ArgumentError else
  let l := giii a b mode (ients t) in
  if rebase then
    let d := match l with
             | i0 :: _ => if istart i0 <? a then istart i0 else a
             | [] => a
             end in
    new_itier (iname t) (map (shift (- d)) l) (Some 0) (Some (b - a))
  else new_itier (iname t) l (Some a) (Some b).

(* PointTier.crop (mode ignored) *)
Definition in_windowb (a b : Z) (p : point) : bool := (a <=? ptime p) && (ptime p <=? b).

Definition crop_p (t : ptier) (a b : Z) (rebase : bool) : res ptier :=
  if b <=? a then Err ArgumentError else
  let l := filter (in_windowb a b) (pents t) in
  if rebase then new_ptier (pname t) (map (pshift (- a)) l) (Some 0) (Some (b - a))
  else new_ptier (pname t) l (Some a) (Some b).

(* ------------------------------------------------------------------ *)
(* deleteEntry / insertEntry (in-place mutators: return the new state)  *)

Definition delete_i (t : itier) (e : interval) : res itier :=
  match remove_first interval_eqb e (ients t) with
  | Some l => Ok (mkIT (iname t) l (imin t) (imax t))
  | None => Err PyError
  end.

Definition delete_p (t : ptier) (e : point) : res ptier :=
  match remove_first point_eqb e (pents t) with
  | Some l => Ok (mkPT (pname t) l (pmin t) (pmax t))
  | None => Err PyError
  end.

Fixpoint delete_all (ms : list interval) (l : list interval) : res (list interval) :=
  match ms with
  | [] => Ok l
  | m :: ms' => match remove_first interval_eqb m l with
                | Some l' => delete_all ms' l'
                | None => Err PyError
                end
  end.

Definition merged_entry (ml : list interval) : res interval :=
  match zmin_list (map istart ml), zmax_list (map iend ml) with
  | Some s, Some e => Ok (mkI s e (join DASH (map ilabel ml)))
  | _, _ => Err PyError
  end.

(* self.sort() then the span update of IntervalTier.insertEntry *)
Definition resort_span_i (name : text) (l : list interval) (mn mx : Z) : itier :=
  let s := isorti l in
  let mn' := match s with i0 :: _ => if istart i0 <? mn then istart i0 else mn | [] => mn end in
  let mx' := match last_opt s with Some il => if mx <? iend il then iend il else mx | None => mx end in
  mkIT name s mn' mx'.

Definition insert_i_core (t : itier) (e : interval) (mode : insmode) : res itier :=
  do ct <- crop_i t (istart e) (iend e) Lax false;
  let ms := ients ct in
  do l' <-
     match ms with
     | [] => Ok (ients t ++ [e])
     | _ :: _ =>
         match mode with
         | IReplace => do l <- delete_all ms (ients t); Ok (l ++ [e])
         | IMerge => do l <- delete_all ms (ients t);
                     do m <- merged_entry (isorti (ms ++ [e]));
                     Ok (l ++ [m])
         | IError => Err CollisionError
         end
     end;
  Ok (resort_span_i (iname t) l' (imin t) (imax t)).

(* the entry is normalised like the constructor normalises entries (label stripped) *)
Definition insert_i (t : itier) (e : interval) (mode : insmode) : res itier :=
  insert_i_core t (strip_i e) mode.

(* did the call produce a collision report (warning text / exception in the
   undocumented 'error' reporting mode)? *)
Definition insert_i_collides (t : itier) (e : interval) : bool :=
  match crop_i t (istart e) (iend e) Lax false with
  | Ok ct => match ients ct with [] => false | _ => true end
  | Err _ => false
  end.

(* PointTier.insertEntry: first point with the same time *)
Fixpoint find_time (x : Z) (l : list point) : option point :=
  match l with
  | [] => None
  | p :: l' => if ptime p =? x then Some p else find_time x l'
  end.

Definition insert_p_core (t : ptier) (e : point) (mode : insmode) : res ptier :=
  do l' <-
     match find_time (ptime e) (pents t) with
     | None => Ok (pents t ++ [e])
     | Some old =>
         match mode with
         | IReplace =>
             match remove_first point_eqb old (pents t) with
             | Some l => Ok (l ++ [e]) | None => Err PyError end
         | IMerge =>
             match remove_first point_eqb old (pents t) with
             | Some l => Ok (l ++ [mkP (ptime e) (join DASH [plabel old; plabel e])])
             | None => Err PyError end
         | IError => Err CollisionError
         end
     end;
  let s := isortp l' in
  let mn' := match s with p0 :: _ => if ptime p0 <? pmin t then ptime p0 else pmin t | [] => pmin t end in
  let mx' := match last_opt s with Some pl => if pmax t <? ptime pl then ptime pl else pmax t | None => pmax t end in
  Ok (mkPT (pname t) s mn' mx').

Definition insert_p (t : ptier) (e : point) (mode : insmode) : res ptier :=
  insert_p_core t (strip_p e) mode.

(* ------------------------------------------------------------------ *)
(* eraseRegion                                                         *)

(* truncate mode, one entry: what is left of it outside [a,b] *)
Definition cut_out (a b : Z) (i : interval) : list interval :=
  if overlapsb a b i then
    (if istart i <? a then [mkI (istart i) a (ilabel i)] else []) ++
    (if b <? iend i then [mkI b (iend i) (ilabel i)] else [])
  else [i].

Definition erase_keep (a b : Z) (mode : erasemode) (l : list interval) : res (list interval) :=
  match mode with
  | ETruncate => Ok (flat_map (cut_out a b) l)
  | ECategorical => Ok (filter (fun i => negb (overlapsb a b i)) l)
  | EError => if existsb (overlapsb a b) l then Err CollisionError else Ok l
  end.

Definition shrink1 (a b : Z) (i : interval) : list interval :=
  if iend i <=? a then [i]
  else if b <=? istart i then [shift (- (b - a)) i]
  else [].

(* re-join the first pair of equal-labelled neighbours that meet at a *)
Fixpoint join_at (a : Z) (l : list interval) : list interval :=
  match l with
  | i :: l' =>
      match l' with
      | j :: l'' =>
          if (iend i =? a) && (istart j =? a) && text_eqb (ilabel i) (ilabel j)
          then mkI (istart i) (iend j) (ilabel i) :: l''
          else i :: join_at a l'
      | [] => l
      end
  | [] => []
  end.

Definition erase_i (t : itier) (a b : Z) (mode : erasemode) (doShrink : bool) : res itier :=
  if b <=? a then Err ArgumentError else
  do t0 <- copy_itier t;
  do l1 <- erase_keep a b mode (ients t0);
  if doShrink then
    new_itier (iname t) (join_at a (flat_map (shrink1 a b) l1))
              (Some (imin t0)) (Some (imax t0 - (b - a)))
  else new_itier (iname t) l1 (Some (imin t0)) (Some (imax t0)).

Definition erase_p (t : ptier) (a b : Z) (doShrink : bool) : res ptier :=
  do t0 <- copy_ptier t;
  if b <=? a then Err ArgumentError else
  let l1 := filter (fun p => negb (in_windowb a b p)) (pents t0) in
  if doShrink then
    new_ptier (pname t)
      (filter_map (fun p => if ptime p <? a then Some p
                            else if b <? ptime p then Some (pshift (- (b - a)) p)
                            else None) l1)
      (Some (pmin t0)) (Some (pmax t0 - (b - a)))
  else Ok (mkPT (pname t) l1 (pmin t0) (pmax t0)).

(* ------------------------------------------------------------------ *)
(* insertSpace                                                         *)

Definition straddlesb (s : Z) (i : interval) : bool := (istart i <? s) && (s <? iend i).

Definition space1 (s d : Z) (mode : spacemode) (i : interval) : list interval :=
  if iend i <=? s then [i]
  else if s <=? istart i then [shift d i]
  else match mode with
       | SStretch => [mkI (istart i) (iend i + d) (ilabel i)]
       | SSplit => [mkI (istart i) s (ilabel i);
                    mkI (s + d) (iend i + d) (ilabel i)]
       | SNoChange => [i]
       | SError => []
       end.

Definition space_i (t : itier) (s d : Z) (mode : spacemode) : res itier :=
  if (match mode with SError => true | _ => false end) && existsb (straddlesb s) (ients t)
  then Err ArgumentError
  else new_itier (iname t) (flat_map (space1 s d mode) (ients t))
                 (Some (imin t)) (Some (imax t + d)).

Definition space_p (t : ptier) (s d : Z) : res ptier :=
  new_ptier (pname t)
    (map (fun p => if ptime p <=? s then p else pshift d p) (pents t))
    (Some (pmin t)) (Some (pmax t + d)).

(* ------------------------------------------------------------------ *)
(* editTimestamps                                                      *)

Definition edit1 (o : Z) (i : interval) : option interval :=
  let ns := o + istart i in let ne := o + iend i in
  if ne <=? 0 then None
  else Some (mkI (if ns <? 0 then 0 else ns) ne (ilabel i)).

Definition edit_i_reports (t : itier) (o : Z) : bool :=
  existsb (fun i => (o + istart i <? imin t) || (imax t <? o + iend i)) (ients t).

Definition edit_i (t : itier) (o : Z) (mode : repmode) : res itier :=
  if (match mode with RError => true | _ => false end) && edit_i_reports t o
  then Err OutOfBounds else
  let l := filter_map (edit1 o) (ients t) in
  let a := match zmin_list (map istart l) with
           | Some a => if imin t <? a then imin t else a | None => imin t end in
  let b := match zmax_list (map iend l) with
           | Some b => if b <? imax t then imax t else b | None => imax t end in
  new_itier (iname t) l (Some a) (Some b).

Definition edit_p_reports (t : ptier) (o : Z) : bool :=
  existsb (fun p => (ptime p + o <? pmin t) || (pmax t <? ptime p + o)) (pents t).

Definition edit_p (t : ptier) (o : Z) (mode : repmode) : res ptier :=
  if (match mode with RError => true | _ => false end) && edit_p_reports t o
  then Err OutOfBounds else
  let l := filter_map (fun p => if ptime p + o <? 0 then None else Some (pshift o p)) (pents t) in
  let a := match zmin_list (map ptime l) with
           | Some a => if pmin t <? a then pmin t else a | None => pmin t end in
  let b := match zmax_list (map ptime l) with
           | Some b => if b <? pmax t then pmax t else b | None => pmax t end in
  new_ptier (pname t) l (Some a) (Some b).

(* appendTier *)
Definition append_i (A B : itier) : res itier :=
  do B' <- edit_i B (imax A) RSilence;
  new_itier (iname A) (ients A ++ ients B') (Some (imin A)) (Some (imax A + imax B)).

Definition append_p (A B : ptier) : res ptier :=
  do B' <- edit_p B (pmax A) RSilence;
  new_ptier (pname A) (pents A ++ pents B') (Some (pmin A)) (Some (pmax A + pmax B)).

(* ------------------------------------------------------------------ *)
(* set operations                                                      *)

Fixpoint fold_res {A S} (f : S -> A -> res S) (l : list A) (s : S) : res S :=
  match l with
  | [] => Ok s
  | x :: l' => do s' <- f s x; fold_res f l' s'
  end.

Definition union_i (A B : itier) : res itier :=
  do A0 <- copy_itier A;
  do r <- fold_res (fun t e => insert_i t e IMerge) (ients B) A0;
  Ok (mkIT (iname r) (isorti (ients r)) (imin r) (imax r)).

Definition union_p (A B : ptier) : res ptier :=
  do A0 <- copy_ptier A;
  do r <- fold_res (fun t e => insert_p t e IMerge) (pents B) A0;
  Ok (mkPT (pname r) (isortp (pents r)) (pmin r) (pmax r)).

Definition difference_i (A B : itier) : res itier :=
  do A0 <- copy_itier A;
  fold_res (fun t e => erase_i t (istart e) (iend e) ETruncate false) (ients B) A0.

Definition relabel (f : text -> text) (i : interval) : interval :=
  mkI (istart i) (iend i) (f (ilabel i)).

Definition intersection_i (A B : itier) : res itier :=
  do parts <- fold_res (fun acc j =>
                 do c <- crop_i A (istart j) (iend j) Truncated false;
                 Ok (acc ++ map (relabel (fun l => l ++ DASH ++ ilabel j)) (ients c)))
              (ients B) [];
  new_itier (iname A ++ DASH ++ iname B) parts (Some (imin A)) (Some (imax A)).

Definition merge_labels_i (A B : itier) : res itier :=
  do parts <- fold_res (fun acc i =>
                 do c <- crop_i B (istart i) (iend i) Truncated false;
                 match ients c, last_opt (ients c) with
                 | c0 :: _, Some cl =>
                     Ok (acc ++ [mkI (Z.min (istart i) (istart c0)) (Z.max (iend i) (iend cl))
                                     (ilabel i ++ LPAREN ++ join COMMA (map ilabel (ients c)) ++ RPAREN)])
                 | _, _ => Ok acc
                 end)
              (ients A) [];
  new_itier (iname A ++ DASH ++ iname B) parts (Some (imin A)) (Some (imax A)).

(* ------------------------------------------------------------------ *)
(* timestamps, dejitter, morph                                         *)

Fixpoint dedup_sorted (l : list Z) : list Z :=
  match l with
  | x :: l' => match l' with
               | y :: _ => if x =? y then dedup_sorted l' else x :: dedup_sorted l'
               | [] => [x] end
  | [] => []
  end.
Definition zsort_uniq (l : list Z) : list Z := dedup_sorted (isort Z.leb l).

Definition timestamps_i (t : itier) : list Z :=
  zsort_uniq (flat_map (fun i => [istart i; iend i]) (ients t)).
Definition timestamps_p (t : ptier) : list Z := zsort_uniq (map ptime (pents t)).

(* min(refs, key=lambda r: abs(r - x)): the first minimiser *)
Fixpoint nearest_from (x : Z) (best : Z) (l : list Z) : Z :=
  match l with
  | [] => best
  | r :: l' => nearest_from x (if Z.abs (r - x) <? Z.abs (best - x) then r else best) l'
  end.
Definition nearest (x : Z) (refs : list Z) : option Z :=
  match refs with [] => None | r :: l => Some (nearest_from x r l) end.

Definition snap (refs : list Z) (d : Z) (x : Z) : res Z :=
  match nearest x refs with
  | None => Err PyError
  | Some r => Ok (if Z.abs (x - r) <=? d then r else x)
  end.

Fixpoint mapM {A B} (f : A -> res B) (l : list A) : res (list B) :=
  match l with
  | [] => Ok []
  | x :: l' => do y <- f x; do ys <- mapM f l'; Ok (y :: ys)
  end.

Definition dejitter_i (t : itier) (refs : list Z) (d : Z) : res itier :=
  do l <- mapM (fun i => do s <- snap refs d (istart i);
                         do e <- snap refs d (iend i);
                         Ok (mkI s e (ilabel i))) (ients t);
  new_itier (iname t) l (Some (imin t)) (Some (imax t)).

Definition dejitter_p (t : ptier) (refs : list Z) (d : Z) : res ptier :=
  do l <- mapM (fun p => do x <- snap refs d (ptime p); Ok (mkP x (plabel p))) (pents t);
  new_ptier (pname t) l (Some (pmin t)) (Some (pmax t)).

(* morph: cumulative adjust *)
Fixpoint morph_go (filt : text -> bool) (cum : Z) (src tgt : list interval) : list interval :=
  match src, tgt with
  | s :: src', g :: tgt' =>
      let ns := istart s + cum in
      let cur := iend s - istart s in
      if filt (ilabel s) then
        let nd := iend g - istart g in
        mkI ns (ns + nd) (ilabel s) :: morph_go filt (cum + (nd - cur)) src' tgt'
      else mkI ns (ns + cur) (ilabel s) :: morph_go filt cum src' tgt'
  | _, _ => []
  end.

Definition morph_i (t g : itier) (filt : text -> bool) : res itier :=
  if negb (length (ients t) =? length (ients g))%nat then Err SafeZipException else
  let l := morph_go filt 0 (ients t) (ients g) in
  match last_opt l, last_opt (ients t) with
  | Some nl, Some ol =>
      new_itier (iname t) l (Some (imin t)) (Some (imax t + (iend nl - iend ol)))
  | _, _ => Err PyError
  end.

(* ------------------------------------------------------------------ *)
(* queries                                                             *)

Fixpoint find_idx_from {A} (p : A -> bool) (n : nat) (l : list A) : list nat :=
  match l with
  | [] => []
  | x :: l' => if p x then n :: find_idx_from p (S n) l' else find_idx_from p (S n) l'
  end.
Definition find_i (t : itier) (q : text) (substr : bool) : list nat :=
  find_idx_from (fun i => if substr then contains q (ilabel i) else text_eqb (ilabel i) q) 0 (ients t).
Definition find_p (t : ptier) (q : text) (substr : bool) : list nat :=
  find_idx_from (fun p => if substr then contains q (plabel p) else text_eqb (plabel p) q) 0 (pents t).

Fixpoint gaps (l : list interval) : list interval :=
  match l with
  | i :: l' => match l' with
               | j :: _ => (if iend i <? istart j then [mkI (iend i) (istart j) []] else []) ++ gaps l'
               | [] => [] end
  | [] => []
  end.

Definition non_entries (t : itier) : res (list interval) :=
  match ients t, last_opt (ients t) with
  | i0 :: _, Some il =>
      Ok ((if 0 <? istart i0 then [mkI 0 (istart i0) []] else [])
          ++ gaps (ients t)
          ++ (if iend il <? imax t then [mkI (iend il) (imax t) []] else []))
  | _, _ => Err PyError
  end.

(* validate(): per-tier *)
Fixpoint validate_ients (mn mx : Z) (prev : option interval) (l : list interval) : bool :=
  match l with
  | [] => true
  | i :: l' =>
      negb (iend i <=? istart i)
      && match prev with Some p => negb (istart i <? iend p) | None => true end
      && negb (istart i <? mn) && negb (mx <? iend i)
      && validate_ients mn mx (Some i) l'
  end.
Definition validate_i (t : itier) : bool := validate_ients (imin t) (imax t) None (ients t).

Fixpoint validate_pents (mn mx : Z) (prev : option point) (l : list point) : bool :=
  match l with
  | [] => true
  | p :: l' =>
      match prev with Some q => negb (ptime p <? ptime q) | None => true end
      && negb (ptime p <? mn) && negb (mx <? ptime p)
      && validate_pents mn mx (Some p) l'
  end.
Definition validate_p (t : ptier) : bool := validate_pents (pmin t) (pmax t) None (pents t).

(* getValuesInIntervals: samples are (time, payload id) *)
Definition values_in_intervals (t : itier) (data : list (Z * Z)) : list (interval * list (Z * Z)) :=
  map (fun i => (i, filter (fun d => (istart i <=? fst d) && (fst d <=? iend i)) data)) (ients t).
