(* Tier/SpaceProofs.v -- C08: insertSpace opens exactly the requested gap and
   eraseRegion (truncate, shrink) undoes it. *)
From PraatIO Require Import Tier.TierModel Tier.CtorProofs Tier.EraseProofs.

Definition tau_space (s d x : Z) : Z := if x <=? s then x else x + d.

Lemma tau_space_mono s d x y : 0 <= d -> x <= y -> tau_space s d x <= tau_space s d y.
Proof. intros. unfold tau_space. dcmp. Qed.

Lemma space1_pieces_ok s d mode : 0 <= d -> mode <> SError -> pieces_ok (tau_space s d) (space1 s d mode).
Proof.
  intros Hd Hm i Hp. destruct i as [a e lab]. unfold pos in Hp; simpl in Hp.
  destruct mode; try congruence; unfold space1, tau_space; cbn [istart iend ilabel]; dif;
    unfold shift; cbn [istart iend ilabel]; pieces_leaf.
Qed.

Lemma space1_error_pieces_ok s d l :
  0 <= d -> existsb (straddlesb s) l = false -> Forall pos l ->
  flat_map (space1 s d SError) l = flat_map (space1 s d SNoChange) l.
Proof.
  intros Hd Hex Hp. induction l as [|i l IH]; [reflexivity|]. simpl in Hex.
  apply orb_false_iff in Hex as [E1 E2]. inversion Hp; subst. simpl. rewrite IH by assumption.
  f_equal. unfold space1, straddlesb in *. dif; try reflexivity. unfold pos in *. exfalso. lia.
Qed.

Lemma space1_labels s d mode i j : In j (space1 s d mode i) -> ilabel j = ilabel i.
Proof.
  unfold space1. destruct (iend i <=? s); [intros [<-|[]]; reflexivity|].
  destruct (s <=? istart i); [intros [<-|[]]; reflexivity|].
  destruct mode; simpl; intuition (subst; reflexivity).
Qed.

(* the operation on a well-formed tier *)
Theorem space_i_ok t s d mode :
  wf_itier t -> 0 <= d -> imin t <= s ->
  (mode = SError -> forall i, In i (ients t) -> ~ (istart i < s < iend i)) ->
  space_i t s d mode =
  Ok (mkIT (iname t) (flat_map (space1 s d (match mode with SError => SNoChange | m => m end)) (ients t))
           (imin t) (imax t + d)).
Proof.
  intros Hwf Hd Hmin Herr. pose proof Hwf as (Hw & Hs & Hl). unfold space_i.
  assert (forall m, m <> SError ->
    new_itier (iname t) (flat_map (space1 s d m) (ients t)) (Some (imin t)) (Some (imax t + d))
    = Ok (mkIT (iname t) (flat_map (space1 s d m) (ients t)) (imin t) (imax t + d))) as Hgen.
  { intros m Hm.
    set (l := flat_map (space1 s d m) (ients t)).
    assert (wf_ients l) as W
        by (apply (flat_map_wf (tau_space s d)); [intros; apply tau_space_mono; assumption|apply space1_pieces_ok; assumption|exact Hw]).
    assert (Forall (in_span (imin t) (imax t + d)) l) as S.
    { pose proof (flat_map_in_span (tau_space s d) (space1 s d m) (ients t) (imin t) (imax t)
                    (fun x y => tau_space_mono s d x y Hd) (space1_pieces_ok s d m Hd Hm) (proj1 Hw) Hs) as H'.
      fold l in H'. unfold tau_space in H'.
      replace (if imin t <=? s then imin t else imin t + d) with (imin t) in H' by dcmp.
      eapply Forall_impl; [|exact H']. unfold in_span. intros i [A B]. split; [exact A|].
      destruct (imax t <=? s); lia. }
    rewrite new_itier_ok; [|exact W|apply labels_stripped_flat_map; [intros i j; apply space1_labels|exact Hl]].
    rewrite (hull_min_in_span _ _ _ S), (hull_max_in_span _ _ _ S). reflexivity. }
  destruct mode; cbn [andb]; try (apply Hgen; congruence).
  destruct (existsb (straddlesb s) (ients t)) eqn:Ex.
  - exfalso. apply existsb_exists in Ex as (i & Hi & Hst). apply (Herr eq_refl i Hi).
    unfold straddlesb in Hst. lia.
  - rewrite (space1_error_pieces_ok s d (ients t) Hd Ex (proj1 Hw)). apply Hgen. congruence.
Qed.

Theorem space_i_error t s d :
  (exists i, In i (ients t) /\ istart i < s < iend i) -> space_i t s d SError = Err ArgumentError.
Proof.
  intros (i & Hi & Hst). unfold space_i. simpl.
  assert (existsb (straddlesb s) (ients t) = true) as ->; [|reflexivity].
  apply existsb_exists. exists i. split; [exact Hi|]. unfold straddlesb. lia.
Qed.

(* entry-level statements of the property *)
Theorem space_before_unchanged s d mode l i :
  In i l -> iend i <= s -> In i (flat_map (space1 s d mode) l).
Proof.
  intros Hi He. apply in_flat_map. exists i. split; [exact Hi|].
  unfold space1. destruct (Z.leb_spec (iend i) s); [left; reflexivity|lia].
Qed.

Theorem space_after_shifted s d mode l i :
  In i l -> s <= istart i -> pos i -> In (shift d i) (flat_map (space1 s d mode) l).
Proof.
  intros Hi He Hp. apply in_flat_map. exists i. split; [exact Hi|]. unfold pos in Hp.
  unfold space1. destruct (Z.leb_spec (iend i) s); [lia|].
  destruct (Z.leb_spec s (istart i)); [left; reflexivity|lia].
Qed.

Theorem space_straddler s d mode i :
  istart i < s < iend i ->
  space1 s d mode i =
  match mode with
  | SStretch => [mkI (istart i) (iend i + d) (ilabel i)]
  | SSplit => [mkI (istart i) s (ilabel i); mkI (s + d) (iend i + d) (ilabel i)]
  | SNoChange => [i]
  | SError => []
  end.
Proof.
  intro H. unfold space1. destruct (Z.leb_spec (iend i) s); [lia|].
  destruct (Z.leb_spec s (istart i)); [lia|reflexivity].
Qed.

(* label function *)
Lemma space1_lab_before s d mode i x : mode <> SError -> 0 <= d -> x < s ->
  lab_at (space1 s d mode i) x = lab_at [i] x.
Proof.
  intros Hm Hd Hx. destruct i as [a e lab].
  destruct mode; try congruence; unfold space1; cbn [istart iend ilabel]; dif;
    cbn [lab_at]; unfold coversb, shift; cbn [istart iend ilabel]; dif; try reflexivity; exfalso; lia.
Qed.

Lemma space1_lab_after s d mode i x : (mode = SStretch \/ mode = SSplit) -> 0 <= d -> s + d <= x ->
  lab_at (space1 s d mode i) x = lab_at [i] (x - d).
Proof.
  intros Hm Hd Hx. destruct i as [a e lab].
  destruct Hm as [-> | ->]; unfold space1; cbn [istart iend ilabel]; dif;
    cbn [lab_at]; unfold coversb, shift; cbn [istart iend ilabel]; dif; try reflexivity; exfalso; lia.
Qed.

Lemma space1_lab_gap_split s d i x : 0 <= d -> s <= x < s + d ->
  lab_at (space1 s d SSplit i) x = None.
Proof.
  intros Hd Hx. destruct i as [a e lab].
  unfold space1; cbn [istart iend ilabel]; dif;
    cbn [lab_at]; unfold coversb, shift; cbn [istart iend ilabel]; dif; try reflexivity; exfalso; lia.
Qed.

Theorem space_pointwise_before s d mode l x : mode <> SError -> 0 <= d -> x < s ->
  lab_at (flat_map (space1 s d mode) l) x = lab_at l x.
Proof.
  intros. apply (lab_at_flat_map_pointwise _ l false x x). intros i _. apply space1_lab_before; assumption.
Qed.

Theorem space_pointwise_after s d mode l x : (mode = SStretch \/ mode = SSplit) -> 0 <= d -> s + d <= x ->
  lab_at (flat_map (space1 s d mode) l) x = lab_at l (x - d).
Proof.
  intros. apply (lab_at_flat_map_pointwise _ l false x (x - d)). intros i _. apply space1_lab_after; assumption.
Qed.

Theorem space_pointwise_gap_split s d l x : 0 <= d -> s <= x < s + d ->
  lab_at (flat_map (space1 s d SSplit) l) x = None.
Proof.
  intros. apply (lab_at_flat_map_pointwise _ l true x x). intros i _. apply space1_lab_gap_split; assumption.
Qed.

(* the inverse: erase the inserted region with shrinking *)
Theorem erase_insert_inverse_pointwise s d mode l x :
  (mode = SStretch \/ mode = SSplit) -> 0 < d -> Forall pos l ->
  lab_at (erase_result_ents s (s + d) ETruncate true (flat_map (space1 s d mode) l)) x = lab_at l x.
Proof.
  intros Hm Hd Hp.
  assert (mode <> SError) as Hne by (destruct Hm; subst; discriminate).
  rewrite erase_shrink_pointwise; [|lia|].
  - replace (s + d - s) with d by lia. destruct (Z.ltb_spec x s).
    + apply space_pointwise_before; [assumption|lia|assumption].
    + rewrite space_pointwise_after; [f_equal; lia|assumption|lia|lia].
  - apply Forall_forall. intros j Hj. apply in_flat_map in Hj as (i & Hi & Hj).
    rewrite Forall_forall in Hp.
    destruct (space1_pieces_ok s d mode (Z.lt_le_incl _ _ Hd) Hne i (Hp i Hi)) as [[Hpp _] _].
    rewrite Forall_forall in Hpp. apply Hpp, Hj.
Qed.

Theorem erase_insert_inverse_tier t s d mode t1 :
  (mode = SStretch \/ mode = SSplit) -> 0 < d -> wf_itier t -> imin t <= s <= imax t ->
  space_i t s d mode = Ok t1 ->
  exists t2, erase_i t1 s (s + d) ETruncate true = Ok t2
             /\ imin t2 = imin t /\ imax t2 = imax t
             /\ forall x, lab_at (ients t2) x = lab_at (ients t) x.
Proof.
  intros Hm Hd Hwf Hs H1.
  assert (wf_itier t1) as Hwf1 by (unfold space_i in H1; destruct (_ && _); [discriminate|]; eapply new_itier_wf, H1).
  rewrite space_i_ok in H1; [|assumption|lia|lia|destruct Hm; subst; discriminate].
  injection H1 as <-.
  eexists. split.
  - apply erase_i_ok; [exact Hwf1|lia|simpl; lia|simpl; lia|discriminate].
  - simpl. split; [reflexivity|]. split; [lia|]. intro x.
    replace (match mode with SError => SNoChange | m => m end) with mode by (destruct Hm; subst; reflexivity).
    apply erase_insert_inverse_pointwise; [assumption|assumption|apply Hwf].
Qed.

(* point tiers: entry-level *)
Theorem space_p_entries t s d :
  map (fun p => if ptime p <=? s then p else pshift d p) (pents t)
  = map (fun p => mkP (if ptime p <=? s then ptime p else ptime p + d) (plabel p)) (pents t).
Proof. apply map_ext. intros [x lab]; simpl. destruct (x <=? s); reflexivity. Qed.

Example space_example_run :
  space_i (mkIT [97%N] [mkI 0 2 [120%N]; mkI 2 8 [121%N]] 0 10) 4 3 SSplit
  = Ok (mkIT [97%N] [mkI 0 2 [120%N]; mkI 2 4 [121%N]; mkI 7 11 [121%N]] 0 13).
Proof. vm_compute. reflexivity. Qed.
