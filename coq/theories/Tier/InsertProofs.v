(* Tier/InsertProofs.v -- C11: insertEntry / deleteEntry follow the selected
   collision policy exactly; the tier stays well-formed (C05). *)
From PraatIO Require Import Tier.TierModel Tier.CtorProofs Tier.CropProofs Tier.EraseProofs.

Definition disj (i j : interval) : Prop := iend i <= istart j \/ iend j <= istart i.

(* ---------------- inserting into a sorted list ---------------- *)

Lemma isorti_snoc l x : StronglySorted (lebP ileb) l -> isorti (l ++ [x]) = insert ileb x l.
Proof.
  intro Hs. apply isort_unique.
  - exact ileb_total.
  - exact ileb_trans.
  - exact ileb_antisym.
  - rewrite <- insert_perm. apply Permutation_sym, Permutation_cons_append.
  - apply insert_sorted; [exact ileb_total|exact ileb_trans|exact Hs].
Qed.

Lemma ileb_disj_before x y : pos x -> pos y -> disj x y -> ileb x y = true -> before x y.
Proof.
  unfold pos, disj, before, ileb, icmp. intros Hx Hy Hd.
  destruct (istart x ?= istart y) eqn:E.
  - apply Z.compare_eq in E. lia.
  - rewrite Z.compare_lt_iff in E. lia.
  - discriminate.
Qed.

Lemma ileb_false_disj_before x y : pos x -> pos y -> disj x y -> ileb x y = false -> before y x.
Proof.
  unfold pos, disj, before, ileb, icmp. intros Hx Hy Hd.
  destruct (istart x ?= istart y) eqn:E.
  - apply Z.compare_eq in E. lia.
  - discriminate.
  - rewrite Z.compare_gt_iff in E. lia.
Qed.

Lemma insert_wf x l :
  wf_ients l -> pos x -> Forall (disj x) l -> wf_ients (insert ileb x l).
Proof.
  induction l as [|y l IH]; intros Hw Hx Hd; simpl.
  - apply wf_singleton, Hx.
  - apply wf_ients_cons in Hw as (Hy & Hb & Hw). inversion Hd as [|? ? Hxy Hd']; subst.
    destruct (ileb x y) eqn:E.
    + pose proof (ileb_disj_before x y Hx Hy Hxy E) as Bxy.
      apply wf_ients_cons. split; [exact Hx|]. split.
      * constructor; [exact Bxy|]. eapply Forall_impl; [|exact Hb].
        unfold before, pos in *. intros z Hz. lia.
      * apply wf_ients_cons; auto.
    + pose proof (ileb_false_disj_before x y Hx Hy Hxy E) as Byx.
      apply wf_ients_cons. split; [exact Hy|]. split; [|apply IH; assumption].
      apply Forall_forall. intros z Hz.
      apply (Permutation_in z (Permutation_sym (insert_perm ileb x l))) in Hz.
      destruct Hz as [<-|Hz]; [exact Byx|]. rewrite Forall_forall in Hb. apply Hb, Hz.
Qed.

(* ---------------- deleting the matches ---------------- *)

Lemma remove_first_head i l : remove_first interval_eqb i (i :: l) = Some l.
Proof. simpl. assert (interval_eqb i i = true) as -> by (apply interval_eqb_eq; reflexivity). reflexivity. Qed.

Lemma delete_all_cons_notin ms i l :
  ~ In i ms ->
  delete_all ms (i :: l) = match delete_all ms l with Ok r => Ok (i :: r) | Err e => Err e end.
Proof.
  revert l. induction ms as [|m ms IH]; intros l Hn; simpl; [reflexivity|].
  destruct (interval_eqb i m) eqn:E.
  - apply interval_eqb_eq in E. subst. exfalso. apply Hn. left; reflexivity.
  - destruct (remove_first interval_eqb m l) as [l'|]; [|reflexivity].
    apply IH. intro H. apply Hn. right; exact H.
Qed.

Lemma wf_not_in_tail i l : wf_ients (i :: l) -> ~ In i l.
Proof.
  intros Hw Hi. apply wf_ients_cons in Hw as (Hp & Hb & _). rewrite Forall_forall in Hb.
  specialize (Hb i Hi). unfold before, pos in *. lia.
Qed.

Lemma delete_all_filter p l :
  wf_ients l -> delete_all (filter p l) l = Ok (filter (fun i => negb (p i)) l).
Proof.
  induction l as [|i l IH]; intro Hw; [reflexivity|].
  pose proof (wf_not_in_tail i l Hw) as Hn.
  apply wf_ients_cons in Hw as (Hp & Hb & Hw). simpl filter.
  destruct (p i); simpl negb; cbn [delete_all].
  - rewrite remove_first_head. apply IH, Hw.
  - rewrite delete_all_cons_notin; [rewrite (IH Hw); reflexivity|].
    intro H. apply filter_In in H as [H _]. contradiction.
Qed.

(* ---------------- specification ---------------- *)

Definition joint_entry (e : interval) (ms : list interval) : interval :=
  mkI (hull_min ms (istart e)) (hull_max ms (iend e))
      (join DASH (map ilabel (isorti (ms ++ [e])))).

Definition insert_spec (t : itier) (e : interval) (mode : insmode) : res itier :=
  if iend e <=? istart e then Err ArgumentError else
  let ms := filter (overlapsb (istart e) (iend e)) (ients t) in
  let rest := filter (fun i => negb (overlapsb (istart e) (iend e) i)) (ients t) in
  let mk l := Ok (mkIT (iname t) l (Z.min (imin t) (istart e)) (Z.max (imax t) (iend e))) in
  match ms with
  | [] => mk (insert ileb e (ients t))
  | _ :: _ =>
      match mode with
      | IError => Err CollisionError
      | IReplace => mk (insert ileb e rest)
      | IMerge => mk (insert ileb (joint_entry e ms) rest)
      end
  end.

(* min / max of a list do not depend on the order *)
Lemma zmin_list_perm l m : Permutation l m -> zmin_list l = zmin_list m.
Proof.
  intro P. destruct (zmin_list l) as [a|] eqn:Ea; destruct (zmin_list m) as [b|] eqn:Eb.
  - apply zmin_list_spec in Ea as [A1 A2]. apply zmin_list_spec in Eb as [B1 B2].
    rewrite Forall_forall in A2, B2.
    assert (a <= b) by (apply A2; eapply Permutation_in; [symmetry; exact P|exact B1]).
    assert (b <= a) by (apply B2; eapply Permutation_in; [exact P|exact A1]).
    f_equal; lia.
  - destruct m; [|discriminate]. apply Permutation_sym, Permutation_nil in P. subst. discriminate.
  - destruct l; [|discriminate]. apply Permutation_nil in P. subst. discriminate.
  - reflexivity.
Qed.
Lemma zmax_list_perm l m : Permutation l m -> zmax_list l = zmax_list m.
Proof.
  intro P. destruct (zmax_list l) as [a|] eqn:Ea; destruct (zmax_list m) as [b|] eqn:Eb.
  - apply zmax_list_spec in Ea as [A1 A2]. apply zmax_list_spec in Eb as [B1 B2].
    rewrite Forall_forall in A2, B2.
    assert (b <= a) by (apply A2; eapply Permutation_in; [symmetry; exact P|exact B1]).
    assert (a <= b) by (apply B2; eapply Permutation_in; [exact P|exact A1]).
    f_equal; lia.
  - destruct m; [|discriminate]. apply Permutation_sym, Permutation_nil in P. subst. discriminate.
  - destruct l; [|discriminate]. apply Permutation_nil in P. subst. discriminate.
  - reflexivity.
Qed.

Lemma merged_entry_joint e ms :
  merged_entry (isorti (ms ++ [e])) = Ok (joint_entry e ms).
Proof.
  unfold merged_entry, joint_entry, hull_min, hull_max.
  assert (Permutation (map istart (isorti (ms ++ [e]))) (map istart ms ++ [istart e])) as P1.
  { rewrite <- (isort_perm ileb (ms ++ [e])). rewrite map_app. reflexivity. }
  assert (Permutation (map iend (isorti (ms ++ [e]))) (map iend ms ++ [iend e])) as P2.
  { rewrite <- (isort_perm ileb (ms ++ [e])). rewrite map_app. reflexivity. }
  unfold isorti in *. rewrite (zmin_list_perm _ _ P1), (zmax_list_perm _ _ P2).
  destruct (zmin_list_app_some (map istart ms) (istart e)) as (a & ->).
  destruct (zmax_list_app_some (map iend ms) (iend e)) as (b & ->). reflexivity.
Qed.

(* head / last of a wf list bound all starts / ends *)
Lemma wf_head_min i l : wf_ients (i :: l) -> Forall (fun j => istart i <= istart j) (i :: l).
Proof.
  intro Hw. apply wf_ients_cons in Hw as (Hp & Hb & _). constructor; [lia|].
  eapply Forall_impl; [|exact Hb]. unfold before, pos in *. intros; lia.
Qed.

Lemma last_opt_None {A} (l : list A) : last_opt l = None -> l = [].
Proof.
  induction l as [|a l IH]; [reflexivity|]. destruct l as [|b l]; [discriminate|].
  intro H. specialize (IH H). discriminate.
Qed.

Lemma wf_head_min_all i l : wf_ients (i :: l) -> Forall (fun j => istart i <= istart j) (i :: l).
Proof. apply wf_head_min. Qed.

Lemma resort_span_wf name l x mn mx :
  wf_ients l -> pos x -> Forall (disj x) l -> Forall (in_span mn mx) l ->
  resort_span_i name (l ++ [x]) mn mx
  = mkIT name (insert ileb x l) (Z.min mn (istart x)) (Z.max mx (iend x)).
Proof.
  intros Hw Hx Hd Hs. unfold resort_span_i.
  rewrite (isorti_snoc l x (wf_ients_ileb_sorted l Hw)).
  pose proof (insert_wf x l Hw Hx Hd) as Wi.
  pose proof (insert_perm ileb x l) as P.
  assert (forall j, In j (insert ileb x l) -> j = x \/ In j l) as Hin.
  { intros j Hj. apply (Permutation_in j (Permutation_sym P)) in Hj. destruct Hj; auto. }
  assert (In x (insert ileb x l)) as Hxin by (apply (Permutation_in x P); left; reflexivity).
  rewrite Forall_forall in Hs.
  f_equal.
  - destruct (insert ileb x l) as [|i0 r] eqn:E; [destruct Hxin|].
    pose proof (wf_head_min i0 r Wi) as Hm. rewrite Forall_forall in Hm.
    specialize (Hm x Hxin).
    destruct (Hin i0 (or_introl eq_refl)) as [->|Hi0].
    + destruct (Z.ltb_spec (istart x) mn); lia.
    + destruct (Hs i0 Hi0). destruct (Z.ltb_spec (istart i0) mn); lia.
  - destruct (last_opt (insert ileb x l)) as [il|] eqn:E.
    + pose proof (wf_last_max _ _ Wi E) as Hm. rewrite Forall_forall in Hm.
      specialize (Hm x Hxin).
      destruct (Hin il (last_opt_In _ _ E)) as [->|Hil].
      * destruct (Z.ltb_spec mx (iend x)); lia.
      * destruct (Hs il Hil). destruct (Z.ltb_spec mx (iend il)); lia.
    + apply last_opt_None in E. rewrite E in Hxin. destruct Hxin.
Qed.

Lemma not_overlap_disj e i : pos e -> pos i -> overlapsb (istart e) (iend e) i = false -> disj e i.
Proof. unfold overlapsb, disj, pos. intros. lia. Qed.

Lemma joint_entry_extent e ms :
  wf_ients ms -> pos e -> Forall (overlaps (istart e) (iend e)) ms ->
  istart (joint_entry e ms) <= istart e /\ iend e <= iend (joint_entry e ms)
  /\ pos (joint_entry e ms).
Proof.
  intros Hw He Ho. unfold joint_entry; simpl.
  destruct (hull_min_spec ms (istart e)) as (A1 & _ & _).
  destruct (hull_max_spec ms (iend e)) as (B1 & _ & _). unfold pos in *; simpl. lia.
Qed.

(* an entry that does not overlap e, in a wf list together with the matches,
   does not overlap the joint extent either *)
Lemma rest_disj_joint e l i :
  wf_ients l -> pos e -> In i l -> overlapsb (istart e) (iend e) i = false ->
  disj (joint_entry e (filter (overlapsb (istart e) (iend e)) l)) i.
Proof.
  intros Hw He Hi Hn. set (ms := filter (overlapsb (istart e) (iend e)) l).
  unfold disj, joint_entry; simpl.
  destruct (hull_min_spec ms (istart e)) as (A1 & _ & A3).
  destruct (hull_max_spec ms (iend e)) as (B1 & _ & B3).
  assert (pos i) as Hpi by (destruct Hw as [Hp _]; rewrite Forall_forall in Hp; apply Hp, Hi).
  assert (forall m, In m ms -> In m l /\ overlaps (istart e) (iend e) m) as Hms.
  { intros m Hm. apply filter_In in Hm as [H1 H2]. split; [exact H1|]. unfold overlapsb, overlaps in *. lia. }
  assert (forall m, In m l -> m <> i -> disj m i) as Hdis.
  { intros m Hm Hne. destruct (wf_ients_split l i Hw Hi) as (l1 & l2 & E & B1' & B2' & _ & _).
    rewrite E in Hm. apply in_app_or in Hm as [Hm|[Hm|Hm]].
    - rewrite Forall_forall in B1'. left. apply B1', Hm.
    - congruence.
    - rewrite Forall_forall in B2'. right. apply B2', Hm. }
  unfold overlapsb in Hn. unfold pos in *.
  destruct (Z.le_gt_cases (iend i) (istart e)) as [Hle|Hgt].
  - (* i lies before e: it lies before every match too *)
    right. destruct A3 as [E3|(m & Hm & E3)]; rewrite E3 in *; [lia|].
    destruct (Hms m Hm) as [Hml [Ho1 Ho2]].
    assert (m <> i) as Hne by (intro; subst; lia).
    destruct (Hdis m Hml Hne) as [D|D]; [|exact D]. lia.
  - left. assert (iend e <= istart i) by lia.
    destruct B3 as [E3|(m & Hm & E3)]; rewrite E3 in *; [lia|].
    destruct (Hms m Hm) as [Hml [Ho1 Ho2]].
    assert (m <> i) as Hne by (intro; subst; lia).
    destruct (Hdis m Hml Hne) as [D|D]; [exact D|]. lia.
Qed.

Lemma in_span_filter p mn mx l : Forall (in_span mn mx) l -> Forall (in_span mn mx) (filter p l).
Proof. rewrite !Forall_forall. intros H i Hi. apply filter_In in Hi as [Hi _]. auto. Qed.

(* ---------------- model = specification ---------------- *)

Theorem insert_i_spec t e mode : wf_itier t -> insert_i_core t e mode = insert_spec t e mode.
Proof.
  intros Hwf. pose proof Hwf as (Hw & Hs & Hl). unfold insert_i_core, insert_spec.
  rewrite (crop_i_spec _ _ _ _ _ Hwf). unfold crop_spec.
  destruct (Z.leb_spec (iend e) (istart e)) as [|He]; [reflexivity|]. cbn [bind ients crop_spec_ents].
  set (ms := filter (overlapsb (istart e) (iend e)) (ients t)).
  set (rest := filter (fun i => negb (overlapsb (istart e) (iend e) i)) (ients t)).
  assert (pos e) as Hpe by exact He.
  assert (wf_ients rest) as Wr by (apply wf_ients_filter, Hw).
  assert (Forall (in_span (imin t) (imax t)) rest) as Sr by (apply in_span_filter, Hs).
  assert (Forall (disj e) rest) as Dr.
  { apply Forall_forall. intros i Hi. apply filter_In in Hi as [Hi Hn].
    apply not_overlap_disj; [exact Hpe| |now destruct (overlapsb _ _ i)].
    destruct Hw as [Hp _]. rewrite Forall_forall in Hp. apply Hp, Hi. }
  destruct ms as [|m0 ms'] eqn:Ems.
  - (* no collision *)
    cbn [bind]. assert (rest = ients t) as Er.
    { unfold rest. clear -Ems. induction (ients t) as [|i l IH]; [reflexivity|]. simpl in *.
      destruct (overlapsb (istart e) (iend e) i); [discriminate|]. simpl. f_equal. apply IH, Ems. }
    rewrite Er in *. rewrite resort_span_wf by assumption. reflexivity.
  - rewrite <- Ems. destruct mode; cbn [bind].
    + unfold ms. rewrite delete_all_filter by exact Hw. cbn [bind]. fold rest.
      rewrite resort_span_wf by assumption. reflexivity.
    + unfold ms at 1. rewrite delete_all_filter by exact Hw. cbn [bind]. fold rest.
      rewrite merged_entry_joint. cbn [bind].
      assert (wf_ients ms) as Wm by (apply wf_ients_filter, Hw).
      assert (Forall (overlaps (istart e) (iend e)) ms) as Om.
      { apply Forall_forall. intros i Hi. apply filter_In in Hi as [_ Ho]. unfold overlapsb, overlaps in *. lia. }
      destruct (joint_entry_extent e ms Wm Hpe Om) as (J1 & J2 & J3).
      rewrite resort_span_wf; [|exact Wr|exact J3| |exact Sr].
      * f_equal. f_equal.
        -- (* span: the matches are inside the old span *)
           unfold joint_entry; simpl. destruct (hull_min_spec ms (istart e)) as (A1 & _ & [E3|(m & Hm & E3)]);
             rewrite E3 in *; [reflexivity|].
           apply filter_In in Hm as [Hm _]. rewrite Forall_forall in Hs. destruct (Hs m Hm). lia.
        -- unfold joint_entry; simpl. destruct (hull_max_spec ms (iend e)) as (B1 & _ & [E3|(m & Hm & E3)]);
             rewrite E3 in *; [reflexivity|].
           apply filter_In in Hm as [Hm _]. rewrite Forall_forall in Hs. destruct (Hs m Hm). lia.
      * apply Forall_forall. intros i Hi. apply filter_In in Hi as [Hi Hn].
        apply rest_disj_joint; [exact Hw|exact Hpe|exact Hi|now destruct (overlapsb _ _ i)].
    + reflexivity.
Qed.

(* ---------------- consequences ---------------- *)

(* the result is a well-formed entry list again (labels aside: the new label is
   stored as given) *)
Theorem insert_i_wf_ients t e mode t' :
  wf_itier t -> insert_i_core t e mode = Ok t' ->
  wf_ients (ients t') /\ Forall (in_span (imin t') (imax t')) (ients t').
Proof.
  intros Hwf. pose proof Hwf as (Hw & Hs & Hl). rewrite (insert_i_spec _ _ _ Hwf). unfold insert_spec.
  destruct (Z.leb_spec (iend e) (istart e)) as [|He]; [discriminate|].
  set (ms := filter (overlapsb (istart e) (iend e)) (ients t)).
  set (rest := filter (fun i => negb (overlapsb (istart e) (iend e) i)) (ients t)).
  assert (pos e) as Hpe by exact He.
  assert (wf_ients rest) as Wr by (apply wf_ients_filter, Hw).
  assert (Forall (disj e) rest) as Dr.
  { apply Forall_forall. intros i Hi. apply filter_In in Hi as [Hi Hn].
    apply not_overlap_disj; [exact Hpe| |now destruct (overlapsb _ _ i)].
    destruct Hw as [Hp _]. rewrite Forall_forall in Hp. apply Hp, Hi. }
  assert (forall x l, Forall (in_span (imin t) (imax t)) l ->
            Forall (in_span (Z.min (imin t) (istart x)) (Z.max (imax t) (iend x))) (insert ileb x l)) as Hspan.
  { intros x l H. apply Forall_forall. intros j Hj.
    apply (Permutation_in j (Permutation_sym (insert_perm ileb x l))) in Hj.
    destruct Hj as [<-|Hj]; [unfold in_span; lia|]. rewrite Forall_forall in H. destruct (H j Hj). unfold in_span. lia. }
  destruct ms as [|m0 ms'] eqn:Ems.
  - intros [= <-]. simpl. assert (rest = ients t) as Er.
    { unfold rest. clear -Ems. induction (ients t) as [|i l IH]; [reflexivity|]. simpl in *.
      destruct (overlapsb (istart e) (iend e) i); [discriminate|]. simpl. f_equal. apply IH, Ems. }
    rewrite Er in *. split; [apply insert_wf; assumption|apply Hspan, Hs].
  - rewrite <- Ems. destruct mode; [| |discriminate]; intros [= <-]; simpl.
    + split; [apply insert_wf; assumption|apply Hspan, in_span_filter, Hs].
    + assert (wf_ients ms) as Wm by (apply wf_ients_filter, Hw).
      assert (Forall (overlaps (istart e) (iend e)) ms) as Om.
      { apply Forall_forall. intros i Hi. apply filter_In in Hi as [_ Ho]. unfold overlapsb, overlaps in *. lia. }
      destruct (joint_entry_extent e ms Wm Hpe Om) as (J1 & J2 & J3). split.
      * apply insert_wf; [exact Wr|exact J3|].
        apply Forall_forall. intros i Hi. apply filter_In in Hi as [Hi Hn].
        apply rest_disj_joint; [exact Hw|exact Hpe|exact Hi|now destruct (overlapsb _ _ i)].
      * apply Forall_forall. intros j Hj.
        apply (Permutation_in j (Permutation_sym (insert_perm ileb _ rest))) in Hj.
        rewrite Forall_forall in Hs.
        destruct Hj as [<-|Hj].
        -- unfold in_span, joint_entry; simpl.
           destruct (hull_min_spec ms (istart e)) as (A1 & _ & A3).
           destruct (hull_max_spec ms (iend e)) as (B1 & _ & B3). split.
           ++ destruct A3 as [E3|(m & Hm & E3)]; rewrite E3 in *; [lia|].
              apply filter_In in Hm as [Hm _]. destruct (Hs m Hm). lia.
           ++ destruct B3 as [E3|(m & Hm & E3)]; rewrite E3 in *; [lia|].
              apply filter_In in Hm as [Hm _]. destruct (Hs m Hm). lia.
        -- apply filter_In in Hj as [Hj _]. destruct (Hs j Hj). unfold in_span. lia.
Qed.

Lemma strip_i_stripped e : stripped (ilabel e) -> strip_i e = e.
Proof. destruct e as [a b lab]; unfold strip_i; simpl. intros ->. reflexivity. Qed.

Lemma insert_i_stripped t e m : stripped (ilabel e) -> insert_i t e m = insert_i_core t e m.
Proof. intro H. unfold insert_i. now rewrite strip_i_stripped. Qed.

(* the public insertEntry on any entry: policy applied to the normalised entry,
   and the tier is fully well-formed afterwards (labels included) *)
Theorem insert_i_public_spec t e mode : wf_itier t -> insert_i t e mode = insert_spec t (strip_i e) mode.
Proof. intro H. unfold insert_i. apply insert_i_spec, H. Qed.
