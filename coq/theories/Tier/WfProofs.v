(* Tier/WfProofs.v -- C05: every tier reachable through the public operations is
   well-formed; validate() agrees. *)
From PraatIO Require Import Tier.TierOps Tier.CtorProofs Tier.CropProofs Tier.EraseProofs
     Tier.InsertProofs Tier.SetProofs.

(* arguments that are themselves tiers must be well-formed tiers *)
Definition args_wfI (o : opI) : Prop :=
  match o with
  | OpUnion B => wf_itier B
  | _ => True
  end.

Lemma fold_res_inv {A S} (P : S -> Prop) (f : S -> A -> res S) l :
  (forall s a s', P s -> f s a = Ok s' -> P s') ->
  forall s s', P s -> fold_res f l s = Ok s' -> P s'.
Proof.
  intro Hf. induction l as [|a l IH]; intros s s' Hs E; simpl in E.
  - injection E as <-. exact Hs.
  - destruct (f s a) as [s1|] eqn:E1; [|discriminate]. simpl in E. eapply IH; [|exact E]. eapply Hf; eauto.
Qed.

Lemma erase_i_wf t a b m s t' : erase_i t a b m s = Ok t' -> wf_itier t'.
Proof.
  unfold erase_i. destruct (b <=? a); [discriminate|].
  destruct (copy_itier t); [|discriminate]. cbn [bind].
  destruct (erase_keep _ _ _ _); [|discriminate]. cbn [bind].
  destruct s; apply new_itier_wf.
Qed.

Lemma delete_sub {A} (eqb : A -> A -> bool) x l l' :
  remove_first eqb x l = Some l' -> forall y, In y l' -> In y l.
Proof.
  revert l'. induction l as [|z l IH]; intros l' E y Hy; [discriminate|]. simpl in E.
  destruct (eqb z x); [injection E as <-; right; exact Hy|].
  destruct (remove_first eqb x l) as [r|]; [|discriminate]. injection E as <-.
  destruct Hy as [<-|Hy]; [left; reflexivity|right; eapply IH; eauto].
Qed.

Lemma remove_first_wf e l l' : wf_ients l -> remove_first interval_eqb e l = Some l' -> wf_ients l'.
Proof.
  revert l'. induction l as [|i l IH]; intros l' Hw E; [discriminate|]. simpl in E.
  apply wf_ients_cons in Hw as (Hp & Hb & Hw).
  destruct (interval_eqb i e); [injection E as <-; exact Hw|].
  destruct (remove_first interval_eqb e l) as [r|] eqn:Er; [|discriminate]. injection E as <-.
  apply wf_ients_cons. split; [exact Hp|]. split; [|apply IH; auto].
  rewrite Forall_forall in *. intros j Hj. apply Hb. eapply delete_sub; eauto.
Qed.

Lemma delete_i_wf t e t' : wf_itier t -> delete_i t e = Ok t' -> wf_itier t'.
Proof.
  intros (Hw & Hs & Hl). unfold delete_i.
  destruct (remove_first interval_eqb e (ients t)) as [l|] eqn:E; [|discriminate]. intros [= <-].
  split; [eapply remove_first_wf; eauto|]. simpl. unfold labels_stripped in *.
  split; rewrite Forall_forall in *; intros j Hj; [apply Hs|apply Hl]; eapply delete_sub; eauto.
Qed.

Lemma insert_i_wf t e m t' : wf_itier t -> insert_i t e m = Ok t' -> wf_itier t'.
Proof.
  intros Hwf E. unfold insert_i in E.
  destruct (insert_i_wf_ients t (strip_i e) m t' Hwf E) as [W S]. split; [exact W|]. split; [exact S|].
  (* labels: old entries, the normalised new entry, or a dash-join of stripped labels *)
  pose proof Hwf as (Hw & Hs & Hl).
  rewrite (insert_i_spec _ _ _ Hwf) in E. unfold insert_spec in E.
  destruct (iend (strip_i e) <=? istart (strip_i e)); [discriminate|].
  set (e' := strip_i e) in *.
  assert (stripped (ilabel e')) as He' by (unfold e', strip_i; simpl; apply strip_stripped).
  assert (forall x l, stripped (ilabel x) -> labels_stripped l -> labels_stripped (insert ileb x l)) as Hins.
  { intros x l Hx Hll. unfold labels_stripped in *. apply Forall_forall. intros j Hj.
    apply (Permutation_in j (Permutation_sym (insert_perm ileb x l))) in Hj.
    destruct Hj as [<-|Hj]; [exact Hx|]. rewrite Forall_forall in Hll. apply Hll, Hj. }
  destruct (filter (overlapsb (istart e') (iend e')) (ients t)) as [|m0 ms'] eqn:Ems.
  - injection E as <-. apply Hins; assumption.
  - destruct m; [| |discriminate]; injection E as <-; cbn [ients].
    + apply Hins; [exact He'|apply labels_stripped_filter, Hl].
    + apply Hins; [|apply labels_stripped_filter, Hl]. unfold joint_entry; cbn [ilabel]. apply stripped_join_dash.
      apply Forall_forall. intros lab Hlab. apply in_map_iff in Hlab as (k & <- & Hk).
      apply isort_In in Hk. apply in_app_or in Hk as [Hk|[<-|[]]]; [|exact He'].
      rewrite <- Ems in Hk. apply filter_In in Hk as [Hk _].
      unfold labels_stripped in Hl. rewrite Forall_forall in Hl. apply Hl, Hk.
Qed.

(* one step preserves well-formedness *)
Theorem run_opI_wf t o t' : wf_itier t -> args_wfI o -> run_opI t o = Ok t' -> wf_itier t'.
Proof.
  intros Hwf Ha E. destruct o; simpl in E.
  - unfold crop_i in E. destruct (b <=? a); [discriminate|]. destruct rebase; eapply new_itier_wf, E.
  - eapply erase_i_wf, E.
  - unfold space_i in E. destruct (_ && _); [discriminate|]. eapply new_itier_wf, E.
  - unfold edit_i in E. destruct (_ && _); [discriminate|]. eapply new_itier_wf, E.
  - eapply insert_i_wf; eauto.
  - eapply delete_i_wf; eauto.
  - destruct (union_covers t B Hwf Ha) as (t2 & E2 & W & _). rewrite E in E2. injection E2 as <-. exact W.
  - unfold difference_i in E. destruct (copy_itier t) as [t0|] eqn:E0; [|discriminate]. cbn [bind] in E.
    assert (wf_itier t0) as W0 by (eapply new_itier_wf, E0).
    eapply (fold_res_inv wf_itier); [|exact W0|exact E]. intros s a s' _ Es. eapply erase_i_wf, Es.
  - unfold intersection_i in E. destruct (fold_res _ _ _); [|discriminate]. eapply new_itier_wf, E.
  - unfold merge_labels_i in E. destruct (fold_res _ _ _); [|discriminate]. eapply new_itier_wf, E.
  - unfold append_i in E. destruct (edit_i _ _ _); [|discriminate]. eapply new_itier_wf, E.
  - unfold dejitter_i in E. destruct (mapM _ _); [|discriminate]. eapply new_itier_wf, E.
  - unfold dejitter_i in E. destruct (mapM _ _); [|discriminate]. eapply new_itier_wf, E.
  - unfold morph_i in E. destruct (negb _); [discriminate|].
    destruct (last_opt _); [|discriminate]. destruct (last_opt _); [|discriminate]. eapply new_itier_wf, E.
  - eapply new_itier_wf, E.
  - eapply new_itier_wf, E.
Qed.

(* every tier reachable by any finite history of operations is well-formed *)
Theorem reachable_wf ops : forall t,
  wf_itier t -> Forall args_wfI ops -> wf_itier (fold_left stepI ops t).
Proof.
  induction ops as [|o ops IH]; intros t Hwf Ha; [exact Hwf|].
  inversion Ha; subst. simpl. apply IH; [|assumption].
  unfold stepI. destruct (run_opI t o) as [t'|] eqn:E; [|exact Hwf]. eapply run_opI_wf; eauto.
Qed.

(* validate() agrees *)
Lemma validate_ients_wf mn mx l prev :
  wf_ients l -> Forall (in_span mn mx) l ->
  (match prev with Some p => Forall (before p) l | None => True end) ->
  validate_ients mn mx prev l = true.
Proof.
  revert prev. induction l as [|i l IH]; intros prev Hw Hs Hp; [reflexivity|].
  apply wf_ients_cons in Hw as (Hpi & Hb & Hw). inversion Hs as [|? ? [S1 S2] Hs']; subst.
  cbn [validate_ients]. rewrite (IH (Some i) Hw Hs' Hb). unfold pos in Hpi.
  assert (match prev with Some p => negb (istart i <? iend p) | None => true end = true) as ->.
  { destruct prev as [p|]; [|reflexivity]. inversion Hp; subst. unfold before in *. lia. }
  lia.
Qed.

Theorem wf_validate t : wf_itier t -> validate_i t = true.
Proof. intros (Hw & Hs & _). unfold validate_i. apply validate_ients_wf; auto. Qed.

(* ---------------- point tiers ---------------- *)

Lemma edit_p_wf t o m t' : edit_p t o m = Ok t' -> wf_ptier t'.
Proof. unfold edit_p. destruct (_ && _); [discriminate|]. apply new_ptier_wf. Qed.

Lemma fold_min_le_init l : forall x, fold_left Z.min l x <= x.
Proof. intros x. apply fold_min_le. Qed.

Lemma pleb_sorted_head_min p l : StronglySorted (lebP pleb) (p :: l) -> Forall (fun q => ptime p <= ptime q) (p :: l).
Proof.
  intro H. pose proof (wf_pents_pleb_sorted _ H) as W. unfold wf_pents in W.
  inversion W; subst. constructor; [lia|assumption].
Qed.

Lemma wf_pents_last_max l pl : wf_pents l -> last_opt l = Some pl -> Forall (fun q => ptime q <= ptime pl) l.
Proof.
  unfold wf_pents. induction l as [|p l IH]; intros Hw Hl; [constructor|].
  inversion Hw as [|? ? Hw' Hall]; subst. destruct l as [|q l'].
  - injection Hl as ->. constructor; [lia|constructor].
  - specialize (IH Hw' Hl). constructor; [|exact IH].
    inversion IH; subst. inversion Hall; subst. lia.
Qed.

Lemma find_time_In x l old : find_time x l = Some old -> In old l /\ ptime old = x.
Proof.
  induction l as [|p l IH]; [discriminate|]. simpl.
  destruct (Z.eqb_spec (ptime p) x).
  - intros [= <-]. split; [left; reflexivity|assumption].
  - intro H. destruct (IH H). split; [right; assumption|assumption].
Qed.

Lemma insert_p_wf t e m t' : wf_ptier t -> insert_p t e m = Ok t' -> wf_ptier t'.
Proof.
  intros (Hw & Hs & Hl) E. unfold insert_p, insert_p_core in E.
  set (e' := strip_p e) in *.
  assert (stripped (plabel e')) as He' by (unfold e', strip_p; simpl; apply strip_stripped).
  destruct (match find_time (ptime e') (pents t) with
            | Some old => _ | None => _ end) as [l'|] eqn:El; [|discriminate]. cbn [bind] in E.
  cbv zeta in E. inversion E as [Et]. clear E. subst t'.
  assert (StronglySorted (lebP pleb) (isortp l')) as Hsorted
      by (apply isort_sorted; [apply pleb_total|apply pleb_trans]).
  (* members of l' : old points or a point at e's time with a stripped label *)
  assert (forall q, In q l' -> (In q (pents t)) \/ (ptime q = ptime e' /\ stripped (plabel q))) as Hmem.
  { intros q Hq. destruct (find_time (ptime e') (pents t)) as [old|] eqn:Ef.
    - destruct (find_time_In _ _ _ Ef) as [Hold Hto].
      destruct m.
      + destruct (remove_first point_eqb old (pents t)) as [l|] eqn:Er; [|discriminate]. injection El as <-.
        apply in_app_or in Hq as [Hq|[<-|[]]]; [left; eapply delete_sub; eauto|right; auto].
      + destruct (remove_first point_eqb old (pents t)) as [l|] eqn:Er; [|discriminate]. injection El as <-.
        apply in_app_or in Hq as [Hq|[<-|[]]]; [left; eapply delete_sub; eauto|right]. simpl. split; [reflexivity|].
        change (stripped (plabel old ++ [45%N] ++ plabel e')). apply stripped_join2; [|exact He'|reflexivity].
        rewrite Forall_forall in Hl. apply Hl, Hold.
      + discriminate.
    - injection El as <-. apply in_app_or in Hq as [Hq|[<-|[]]]; [left; exact Hq|right; auto]. }
  assert (forall q, In q (isortp l') -> In q l') as Hin by (intros q Hq; apply isort_In in Hq; exact Hq).
  split; [exact (wf_pents_pleb_sorted _ Hsorted)|]. cbn [pents pmin pmax]. split.
  - (* inside the updated span *)
    rewrite Forall_forall in Hs. apply Forall_forall. intros q Hq.
    pose proof (wf_pents_pleb_sorted _ Hsorted) as Wp.
    destruct (isortp l') as [|p0 r] eqn:Es; [destruct Hq|].
    pose proof (pleb_sorted_head_min p0 r Hsorted) as Hmin. rewrite Forall_forall in Hmin.
    destruct (last_opt (p0 :: r)) as [pl|] eqn:Elast; [|apply last_opt_None in Elast; discriminate].
    pose proof (wf_pents_last_max _ _ Wp Elast) as Hmax. rewrite Forall_forall in Hmax.
    specialize (Hmin q Hq). specialize (Hmax q Hq).
    destruct (Hmem q (Hin q Hq)) as [Hold|[Ht _]].
    + destruct (Hs q Hold). destruct (Z.ltb_spec (ptime p0) (pmin t)); destruct (Z.ltb_spec (pmax t) (ptime pl)); lia.
    + destruct (Z.ltb_spec (ptime p0) (pmin t)); destruct (Z.ltb_spec (pmax t) (ptime pl)); lia.
  - rewrite Forall_forall in Hl. apply Forall_forall. intros q Hq.
    destruct (Hmem q (Hin q Hq)) as [Hold|[_ Hst]]; [apply Hl, Hold|exact Hst].
Qed.

Lemma delete_p_wf t e t' : wf_ptier t -> delete_p t e = Ok t' -> wf_ptier t'.
Proof.
  intros (Hw & Hs & Hl). unfold delete_p.
  destruct (remove_first point_eqb e (pents t)) as [l|] eqn:E; [|discriminate]. intros [= <-].
  split; [|simpl; split; rewrite Forall_forall in *; intros j Hj; [apply Hs|apply Hl]; eapply delete_sub; eauto].
  simpl. unfold wf_pents in *. clear Hs Hl. revert l E. induction (pents t) as [|p l0 IH]; intros l E; [discriminate|].
  simpl in E. inversion Hw as [|? ? Hw' Hall]; subst.
  destruct (point_eqb p e); [injection E as <-; exact Hw'|].
  destruct (remove_first point_eqb e l0) as [r|] eqn:Er; [|discriminate]. injection E as <-.
  constructor; [apply IH; auto|]. rewrite Forall_forall in *. intros q Hq. apply Hall. eapply delete_sub; eauto.
Qed.

Definition args_wfP (o : opP) : Prop := True.

Theorem run_opP_wf t o t' : wf_ptier t -> run_opP t o = Ok t' -> wf_ptier t'.
Proof.
  intros Hwf E. destruct o; simpl in E.
  - unfold crop_p in E. destruct (b <=? a); [discriminate|]. destruct rebase; eapply new_ptier_wf, E.
  - unfold erase_p in E. destruct (copy_ptier t) as [t0|] eqn:E0; [|discriminate]. cbn [bind] in E.
    destruct (b <=? a); [discriminate|]. destruct doShrink; [eapply new_ptier_wf, E|].
    injection E as <-. apply new_ptier_wf in E0. destruct E0 as (W & S & L).
    split; [|simpl; split; rewrite Forall_forall in *; intros p Hp; apply filter_In in Hp as [Hp _]; auto].
    simpl. unfold wf_pents in *. clear S L. induction W as [|p l Hw IH Hall]; simpl; [constructor|].
    destruct (negb (in_windowb a b p)); [|exact IH]. constructor; [exact IH|].
    rewrite Forall_forall in *. intros q Hq. apply filter_In in Hq as [Hq _]. auto.
  - eapply new_ptier_wf, E.
  - eapply edit_p_wf, E.
  - eapply insert_p_wf; eauto.
  - eapply delete_p_wf; eauto.
  - unfold union_p in E. destruct (copy_ptier t) as [t0|] eqn:E0; [|discriminate]. cbn [bind] in E.
    destruct (fold_res _ _ t0) as [r|] eqn:Ef; [|discriminate]. cbn [bind] in E. injection E as <-.
    assert (wf_ptier r) as (W & S & L).
    { eapply (fold_res_inv wf_ptier); [|eapply new_ptier_wf, E0|exact Ef].
      intros s a s' Hs Es. cbv beta in Es. eapply insert_p_wf; [exact Hs|exact Es]. }
    split; [|simpl; split; rewrite Forall_forall in *; intros p Hp; apply isort_In in Hp; auto].
    simpl. apply wf_pents_pleb_sorted. apply isort_sorted; [apply pleb_total|apply pleb_trans].
  - unfold append_p in E. destruct (edit_p _ _ _); [|discriminate]. eapply new_ptier_wf, E.
  - unfold dejitter_p in E. destruct (mapM _ _); [|discriminate]. eapply new_ptier_wf, E.
  - unfold dejitter_p in E. destruct (mapM _ _); [|discriminate]. eapply new_ptier_wf, E.
  - eapply new_ptier_wf, E.
  - eapply new_ptier_wf, E.
Qed.

Theorem reachable_wf_p ops : forall t, wf_ptier t -> wf_ptier (fold_left stepP ops t).
Proof.
  induction ops as [|o ops IH]; intros t Hwf; [exact Hwf|]. simpl. apply IH.
  unfold stepP. destruct (run_opP t o) as [t'|] eqn:E; [|exact Hwf]. eapply run_opP_wf; eauto.
Qed.

Lemma validate_pents_wf mn mx l prev :
  wf_pents l -> Forall (fun p => mn <= ptime p <= mx) l ->
  (match prev with Some q => Forall (fun p => ptime q <= ptime p) l | None => True end) ->
  validate_pents mn mx prev l = true.
Proof.
  unfold wf_pents. revert prev. induction l as [|p l IH]; intros prev Hw Hs Hp; [reflexivity|].
  inversion Hw as [|? ? Hw' Hall]; subst. inversion Hs as [|? ? S1 Hs']; subst.
  cbn [validate_pents]. rewrite (IH (Some p) Hw' Hs' Hall).
  assert (match prev with Some q => negb (ptime p <? ptime q) | None => true end = true) as ->.
  { destruct prev as [q|]; [|reflexivity]. inversion Hp; subst. lia. }
  lia.
Qed.

Theorem wf_validate_p t : wf_ptier t -> validate_p t = true.
Proof. intros (Hw & Hs & _). unfold validate_p. apply validate_pents_wf; auto. Qed.
