(* Tier/SetProofs.v -- C10: set operations on tiers. *)
From PraatIO Require Import Tier.TierModel Tier.CtorProofs Tier.CropProofs Tier.EraseProofs.

Definition covered (l : list interval) (x : Z) : bool := existsb (fun j => coversb j x) l.

(* ---------------- difference ---------------- *)

Lemma difference_fold js : forall t,
  wf_itier t -> Forall pos js ->
  exists t', fold_res (fun t e => erase_i t (istart e) (iend e) ETruncate false) js t = Ok t'
    /\ wf_itier t' /\ iname t' = iname t /\ imin t' = imin t /\ imax t' = imax t
    /\ forall x, lab_at (ients t') x = if covered js x then None else lab_at (ients t) x.
Proof.
  induction js as [|j js IH]; intros t Hwf Hp.
  - exists t. simpl. split; [reflexivity|]. split; [exact Hwf|]. repeat (split; [reflexivity|]). intro x; reflexivity.
  - inversion Hp as [|? ? Hj Hp']; subst. cbn [fold_res].
    rewrite erase_i_keep_ok by (assumption || discriminate). cbn [bind].
    set (t1 := mkIT (iname t) (flat_map (keep1 (istart j) (iend j) ETruncate) (ients t)) (imin t) (imax t)).
    assert (wf_itier t1) as Hwf1.
    { assert (erase_i t (istart j) (iend j) ETruncate false = Ok t1) as E
          by (apply erase_i_keep_ok; assumption || discriminate).
      unfold erase_i in E. destruct (iend j <=? istart j); [discriminate|].
      destruct (copy_itier t); [|discriminate]. cbn [bind] in E.
      destruct (erase_keep _ _ _ _); [|discriminate]. cbn [bind] in E. eapply new_itier_wf, E. }
    destruct (IH t1 Hwf1 Hp') as (t' & E & W & N & Mn & Mx & L).
    exists t'. split; [exact E|]. split; [exact W|]. split; [exact N|]. split; [exact Mn|]. split; [exact Mx|].
    intro x. rewrite L. simpl ients.
    change (keep1 (istart j) (iend j) ETruncate) with (cut_out (istart j) (iend j)).
    rewrite erase_keep_pointwise by exact Hj.
    unfold covered. cbn [existsb]. unfold coversb at 2.
    destruct (existsb (fun j0 => coversb j0 x) js); [destruct ((istart j <=? x) && (x <? iend j)); reflexivity|].
    rewrite orb_false_r. reflexivity.
Qed.

(* difference(A,B) is labelled exactly where A is and B is not, with A's labels *)
Theorem difference_pointwise A B :
  wf_itier A -> Forall pos (ients B) ->
  exists t', difference_i A B = Ok t' /\ wf_itier t'
    /\ imin t' = imin A /\ imax t' = imax A
    /\ forall x, lab_at (ients t') x = if covered (ients B) x then None else lab_at (ients A) x.
Proof.
  intros HA HB. unfold difference_i. rewrite (copy_itier_wf A HA). cbn [bind].
  destruct (difference_fold (ients B) A HA HB) as (t' & E & W & N & Mn & Mx & L).
  exists t'. split; [exact E|]. split; [exact W|]. split; [exact Mn|]. split; [exact Mx|exact L].
Qed.

(* ---------------- intersection ---------------- *)

Definition head_ok (t : text) : Prop := match t with c :: _ => isspace c = false | [] => True end.

Lemma stripped_iff t : stripped t <-> head_ok t /\ head_ok (rev t).
Proof.
  unfold stripped, strip. split.
  - intro H. split.
    + rewrite <- H. apply lstrip_rstrip_comm_aux, lstrip_head.
    + rewrite <- H at 1. unfold rstrip. rewrite rev_involutive. apply lstrip_head.
  - intros [H1 H2]. rewrite (lstrip_noop t H1). unfold rstrip. rewrite (lstrip_noop _ H2). apply rev_involutive.
Qed.

Lemma stripped_join2 a sep b :
  stripped a -> stripped b -> isspace sep = false -> stripped (a ++ [sep] ++ b).
Proof.
  intros Ha Hb Hs. apply stripped_iff in Ha as [A1 A2]. apply stripped_iff in Hb as [B1 B2].
  apply stripped_iff. split.
  - destruct a; simpl; [exact Hs|exact A1].
  - rewrite !rev_app_distr. simpl. destruct (rev b); simpl; [exact Hs|exact B2].
Qed.

Definition inter_entries (A B : list interval) : list interval :=
  flat_map (fun j => map (relabel (fun l => l ++ DASH ++ ilabel j))
                         (crop_spec_ents (istart j) (iend j) Truncated A)) B.

Lemma inter_fold A js : forall acc,
  wf_itier A -> Forall pos js ->
  fold_res (fun acc j =>
              do c <- crop_i A (istart j) (iend j) Truncated false;
              Ok (acc ++ map (relabel (fun l => l ++ DASH ++ ilabel j)) (ients c))) js acc
  = Ok (acc ++ inter_entries (ients A) js).
Proof.
  induction js as [|j js IH]; intros acc HA Hp; simpl.
  - now rewrite app_nil_r.
  - inversion Hp as [|? ? Hj Hp']; subst.
    rewrite (crop_i_spec _ _ _ _ _ HA). unfold crop_spec.
    destruct (Z.leb_spec (iend j) (istart j)); [unfold pos in Hj; lia|]. cbn [bind ients].
    rewrite IH by assumption. now rewrite <- app_assoc.
Qed.

Lemma inter_pieces_ok A : wf_ients A ->
  pieces_ok (fun x => x) (fun j => map (relabel (fun l => l ++ DASH ++ ilabel j))
                                      (crop_spec_ents (istart j) (iend j) Truncated A)).
Proof.
  intros HA j Hj. set (c := crop_spec_ents (istart j) (iend j) Truncated A).
  assert (wf_ients c) as Wc by (apply crop_spec_ents_wf; assumption).
  assert (Forall (in_span (istart j) (iend j)) c) as Sc by (apply crop_ents_in_window; discriminate).
  split.
  - clear Sc. induction c as [|i c IH]; [apply wf_ients_nil|].
    apply wf_ients_cons in Wc as (Hp & Hb & Wc). simpl. apply wf_ients_cons.
    split; [exact Hp|]. split; [|apply IH, Wc].
    rewrite Forall_forall in *. intros k Hk. apply in_map_iff in Hk as (k' & <- & Hk').
    specialize (Hb k' Hk'). unfold before in *; simpl; exact Hb.
  - rewrite Forall_forall in *. intros k Hk. apply in_map_iff in Hk as (k' & <- & Hk').
    specialize (Sc k' Hk'). unfold in_span in *; simpl; exact Sc.
Qed.

(* intersection(A,B): one entry per overlapping pair, clipped to the overlap,
   labelled a-b, in time order; span and name as documented *)
Theorem intersection_explicit A B :
  wf_itier A -> wf_itier B ->
  intersection_i A B =
  Ok (mkIT (iname A ++ DASH ++ iname B) (inter_entries (ients A) (ients B))
           (hull_min (inter_entries (ients A) (ients B)) (imin A))
           (hull_max (inter_entries (ients A) (ients B)) (imax A))).
Proof.
  intros HA HB. pose proof HA as (WA & SA & LA). pose proof HB as (WB & SB & LB).
  unfold intersection_i. rewrite inter_fold by (assumption || apply WB). cbn [bind app].
  apply new_itier_ok.
  - apply (flat_map_wf (fun x => x)); [intros; lia|apply inter_pieces_ok, WA|exact WB].
  - unfold labels_stripped, inter_entries. apply Forall_forall. intros k Hk.
    apply in_flat_map in Hk as (j & Hj & Hk). apply in_map_iff in Hk as (i & <- & Hi). simpl.
    apply stripped_join2; [| |reflexivity].
    + pose proof (crop_spec_ents_stripped (istart j) (iend j) Truncated (ients A) LA) as H.
      unfold labels_stripped in H. rewrite Forall_forall in H. apply H, Hi.
    + unfold labels_stripped in LB. rewrite Forall_forall in LB. apply LB, Hj.
Qed.

(* labelled exactly where both are *)
Definition labelled (l : list interval) (x : Z) : bool :=
  match lab_at l x with Some _ => true | None => false end.

Lemma labelled_app l m x : labelled (l ++ m) x = labelled l x || labelled m x.
Proof. unfold labelled. rewrite lab_at_app. destruct (lab_at l x); reflexivity. Qed.

Lemma labelled_relabel f l x : labelled (map (relabel f) l) x = labelled l x.
Proof.
  unfold labelled. induction l as [|i l IH]; [reflexivity|]. simpl.
  unfold coversb at 1; simpl. fold (coversb i x). destruct (coversb i x); [reflexivity|exact IH].
Qed.

Theorem intersection_pointwise A B x :
  labelled (inter_entries A B) x = labelled A x && covered B x.
Proof.
  unfold inter_entries. induction B as [|j B IH]; cbn [flat_map covered existsb].
  - unfold labelled at 1. simpl. now rewrite andb_false_r.
  - rewrite labelled_app, labelled_relabel, IH.
    unfold labelled at 1. rewrite crop_trunc_pointwise. unfold coversb at 1.
    fold (covered B x).
    destruct ((istart j <=? x) && (x <? iend j)); simpl.
    + fold (labelled A x). destruct (labelled A x); reflexivity.
    + reflexivity.
Qed.

(* ---------------- union ---------------- *)
From PraatIO Require Import Tier.InsertProofs.

Lemma covered_perm l m x : Permutation l m -> covered l x = covered m x.
Proof.
  intro P. unfold covered. induction P; simpl; try congruence.
  destruct (coversb x0 x), (coversb y x); reflexivity.
Qed.

Lemma covered_app l m x : covered (l ++ m) x = covered l x || covered m x.
Proof. unfold covered. apply existsb_app. Qed.

Lemma covered_insert e l x : covered (insert ileb e l) x = coversb e x || covered l x.
Proof. rewrite <- (covered_perm _ _ x (insert_perm ileb e l)). reflexivity. Qed.

Lemma covered_partition p l x :
  covered l x = covered (filter p l) x || covered (filter (fun i => negb (p i)) l) x.
Proof.
  unfold covered. induction l as [|i l IH]; [reflexivity|]. simpl.
  destruct (p i); simpl; rewrite IH;
    destruct (coversb i x), (existsb (fun j => coversb j x) (filter p l)),
             (existsb (fun j => coversb j x) (filter (fun i0 => negb (p i0)) l)); reflexivity.
Qed.

Lemma covered_true_iff l x : covered l x = true <-> exists i, In i l /\ covers i x.
Proof.
  unfold covered. rewrite existsb_exists. split; intros (i & Hi & Hc); exists i; (split; [exact Hi|]);
    unfold coversb, covers in *; lia.
Qed.

Lemma joint_covers e ms x :
  pos e -> Forall (overlaps (istart e) (iend e)) ms -> Forall pos ms ->
  coversb (joint_entry e ms) x = covered ms x || coversb e x.
Proof.
  intros He Ho Hp. unfold joint_entry. unfold coversb at 1; simpl.
  destruct (hull_min_spec ms (istart e)) as (A1 & A2 & A3).
  destruct (hull_max_spec ms (iend e)) as (B1 & B2 & B3).
  rewrite Forall_forall in A2, B2, Ho, Hp.
  destruct (covered ms x || coversb e x) eqn:E.
  - apply orb_true_iff in E as [E|E].
    + apply covered_true_iff in E as (m & Hm & Hc). specialize (A2 m Hm). specialize (B2 m Hm).
      unfold covers in Hc. lia.
    + unfold coversb in E. lia.
  - apply orb_false_iff in E as [E1 E2]. unfold coversb in E2.
    destruct ((hull_min ms (istart e) <=? x) && (x <? hull_max ms (iend e))) eqn:C; [|reflexivity].
    exfalso. unfold pos in He.
    destruct (Z.lt_ge_cases x (istart e)) as [Hlt|Hge].
    + destruct A3 as [E3|(m & Hm & E3)]; [lia|].
      assert (covered ms x = true) as Cm; [|congruence].
      apply covered_true_iff. exists m. split; [exact Hm|]. destruct (Ho m Hm). unfold covers. lia.
    + assert (iend e <= x) by lia.
      destruct B3 as [E3|(m & Hm & E3)]; [lia|].
      assert (covered ms x = true) as Cm; [|congruence].
      apply covered_true_iff. exists m. split; [exact Hm|]. destruct (Ho m Hm). unfold covers. lia.
Qed.

Lemma stripped_join_dash l : Forall stripped l -> stripped (join DASH l).
Proof.
  induction 1 as [|p l Hp Hl IH]; [reflexivity|]. destruct l as [|q l']; [exact Hp|].
  change (stripped (p ++ [45%N] ++ join DASH (q :: l'))). apply stripped_join2; [exact Hp|exact IH|reflexivity].
Qed.

(* one merge-insert: result is wf again and covers exactly the old coverage plus e *)
Lemma insert_merge_step t e :
  wf_itier t -> pos e -> stripped (ilabel e) ->
  exists t', insert_i_core t e IMerge = Ok t' /\ wf_itier t' /\ iname t' = iname t
    /\ forall x, covered (ients t') x = covered (ients t) x || coversb e x.
Proof.
  intros Hwf He Hle. pose proof Hwf as (Hw & Hs & Hl).
  destruct (insert_i_core t e IMerge) as [t'|err] eqn:E.
  2:{ exfalso. rewrite (insert_i_spec _ _ _ Hwf) in E. unfold insert_spec in E.
      destruct (Z.leb_spec (iend e) (istart e)); [unfold pos in He; lia|].
      destruct (filter _ (ients t)); discriminate. }
  exists t'. split; [reflexivity|].
  destruct (insert_i_wf_ients t e IMerge t' Hwf E) as [W S].
  rewrite (insert_i_spec _ _ _ Hwf) in E. unfold insert_spec in E.
  destruct (Z.leb_spec (iend e) (istart e)); [unfold pos in He; lia|].
  set (ms := filter (overlapsb (istart e) (iend e)) (ients t)) in *.
  set (rest := filter (fun i => negb (overlapsb (istart e) (iend e) i)) (ients t)) in *.
  assert (Forall (overlaps (istart e) (iend e)) ms) as Om.
  { apply Forall_forall. intros i Hi. apply filter_In in Hi as [_ Ho]. unfold overlapsb, overlaps in *. lia. }
  assert (Forall pos ms) as Pm.
  { apply Forall_forall. intros i Hi. apply filter_In in Hi as [Hi _].
    destruct Hw as [Hp _]. rewrite Forall_forall in Hp. apply Hp, Hi. }
  assert (labels_stripped rest) as Lr by (apply labels_stripped_filter, Hl).
  destruct ms as [|m0 ms'] eqn:Ems.
  - injection E as <-. simpl. split; [|split; [reflexivity|]].
    + split; [exact W|]. split; [exact S|]. simpl.
      apply Forall_forall. intros j Hj.
      apply (Permutation_in j (Permutation_sym (insert_perm ileb e (ients t)))) in Hj.
      destruct Hj as [<-|Hj]; [exact Hle|]. unfold labels_stripped in Hl. rewrite Forall_forall in Hl. apply Hl, Hj.
    + intro x. rewrite covered_insert. apply orb_comm.
  - rewrite <- Ems in *. injection E as <-. simpl. split; [|split; [reflexivity|]].
    + split; [exact W|]. split; [exact S|]. simpl.
      apply Forall_forall. intros j Hj.
      apply (Permutation_in j (Permutation_sym (insert_perm ileb _ rest))) in Hj.
      destruct Hj as [<-|Hj].
      * simpl. apply stripped_join_dash. apply Forall_forall. intros lab Hlab.
        apply in_map_iff in Hlab as (k & <- & Hk). apply isort_In in Hk. apply in_app_or in Hk as [Hk|[<-|[]]]; [|exact Hle].
        apply filter_In in Hk as [Hk _]. unfold labels_stripped in Hl. rewrite Forall_forall in Hl. apply Hl, Hk.
      * unfold labels_stripped in Lr. rewrite Forall_forall in Lr. apply Lr, Hj.
    + intro x. rewrite covered_insert. rewrite (joint_covers e ms x He Om Pm).
      rewrite (covered_partition (overlapsb (istart e) (iend e)) (ients t) x). fold ms rest.
      destruct (covered ms x), (coversb e x), (covered rest x); reflexivity.
Qed.

Lemma union_fold js : forall t,
  wf_itier t -> Forall pos js -> Forall (fun j => stripped (ilabel j)) js ->
  exists t', fold_res (fun t e => insert_i t e IMerge) js t = Ok t' /\ wf_itier t' /\ iname t' = iname t
    /\ forall x, covered (ients t') x = covered (ients t) x || covered js x.
Proof.
  induction js as [|j js IH]; intros t Hwf Hp Hl.
  - exists t. simpl. split; [reflexivity|]. split; [exact Hwf|]. split; [reflexivity|].
    intro x. now rewrite orb_false_r.
  - inversion Hp; subst. inversion Hl; subst. cbn [fold_res].
    destruct (insert_merge_step t j Hwf H1 H3) as (t1 & E1 & W1 & N1 & C1).
    rewrite (insert_i_stripped t j IMerge H3), E1. cbn [bind].
    destruct (IH t1 W1 H2 H4) as (t' & E & W & N & C).
    exists t'. split; [exact E|]. split; [exact W|]. split; [congruence|].
    intro x. rewrite C, C1. unfold covered at 4. cbn [existsb]. fold (covered js x). now rewrite orb_assoc.
Qed.

(* union(A,B) is labelled exactly where either is, and is well-formed *)
Theorem union_covers A B :
  wf_itier A -> wf_itier B ->
  exists t', union_i A B = Ok t' /\ wf_itier t' /\ iname t' = iname A
    /\ forall x, covered (ients t') x = covered (ients A) x || covered (ients B) x.
Proof.
  intros HA (WB & SB & LB). unfold union_i. rewrite (copy_itier_wf A HA). cbn [bind].
  destruct (union_fold (ients B) A HA (proj1 WB) LB) as (t' & E & W & N & C).
  rewrite E. cbn [bind]. pose proof W as (Ww & Ws & Wl).
  rewrite (isorti_wf_id _ Ww). exists t'. destruct t'. simpl in *. auto.
Qed.

(* ------------------------------------------------------------------ *)
(* mergeLabels made explicit                                            *)

Definition merge_piece (B : list interval) (i : interval) : list interval :=
  let c := crop_spec_ents (istart i) (iend i) Truncated B in
  match c, last_opt c with
  | c0 :: _, Some cl =>
      [mkI (Z.min (istart i) (istart c0)) (Z.max (iend i) (iend cl))
           (ilabel i ++ LPAREN ++ join COMMA (map ilabel c) ++ RPAREN)]
  | _, _ => []
  end.

Definition merge_entries (A B : list interval) : list interval := flat_map (merge_piece B) A.

Lemma merge_fold B is_ : forall acc, wf_itier B -> Forall pos is_ ->
  fold_res (fun acc i =>
              do c <- crop_i B (istart i) (iend i) Truncated false;
              match ients c, last_opt (ients c) with
              | c0 :: _, Some cl =>
                  Ok (acc ++ [mkI (Z.min (istart i) (istart c0)) (Z.max (iend i) (iend cl))
                                  (ilabel i ++ LPAREN ++ join COMMA (map ilabel (ients c)) ++ RPAREN)])
              | _, _ => Ok acc
              end) is_ acc
  = Ok (acc ++ merge_entries is_ (ients B)).
Proof.
  induction is_ as [|i is_ IH]; intros acc HB Hp.
  - unfold merge_entries. cbn [fold_res flat_map]. f_equal. symmetry. apply app_nil_r.
  - unfold merge_entries. cbn [fold_res flat_map]. fold (merge_entries is_ (ients B)).
    inversion Hp as [|? ? Hi Hp']; subst.
    rewrite (crop_i_spec _ _ _ _ _ HB). unfold crop_spec.
    destruct (Z.leb_spec (iend i) (istart i)); [unfold pos in Hi; lia|]. cbn [bind ients].
    unfold merge_piece at 1.
    destruct (crop_spec_ents (istart i) (iend i) Truncated (ients B)) as [|c0 c'] eqn:EC.
    + cbn [bind app]. exact (IH acc HB Hp').
    + destruct (last_opt (c0 :: c')) as [cl|] eqn:EL.
      * cbn [bind]. rewrite IH by assumption. now rewrite <- app_assoc.
      * cbn [bind app]. exact (IH acc HB Hp').
Qed.

Lemma last_opt_in {A} (l : list A) x : last_opt l = Some x -> In x l.
Proof.
  induction l as [|a l IH]; [discriminate|]. destruct l as [|b l']; cbn [last_opt].
  - intros [= <-]. now left.
  - intro H. right. apply IH. exact H.
Qed.

Lemma merge_piece_ok B : wf_ients B -> pieces_ok (fun x => x) (merge_piece B).
Proof.
  intros HB i Hi. unfold merge_piece.
  set (c := crop_spec_ents (istart i) (iend i) Truncated B).
  assert (Forall (in_span (istart i) (iend i)) c) as Sc by (apply crop_ents_in_window; discriminate).
  destruct c as [|c0 c'] eqn:EC; [split; [apply wf_ients_nil|constructor]|].
  destruct (last_opt (c0 :: c')) as [cl|] eqn:EL; [|split; [apply wf_ients_nil|constructor]].
  rewrite Forall_forall in Sc.
  pose proof (Sc c0 (or_introl eq_refl)) as [S0 _]. pose proof (Sc cl (last_opt_in _ _ EL)) as [_ S1].
  unfold pos in Hi.
  assert (Z.min (istart i) (istart c0) = istart i) as -> by lia.
  assert (Z.max (iend i) (iend cl) = iend i) as -> by lia.
  split.
  - apply wf_ients_cons. split; [exact Hi|]. split; [constructor|apply wf_ients_nil].
  - constructor; [|constructor]. unfold in_span; simpl; lia.
Qed.

Lemma stripped_paren a b : stripped a -> stripped (a ++ LPAREN ++ b ++ RPAREN).
Proof.
  intro Ha. apply stripped_iff in Ha as [A1 A2]. apply stripped_iff. split.
  - destruct a; [reflexivity|exact A1].
  - rewrite !rev_app_distr. reflexivity.
Qed.

(* mergeLabels(A,B): one entry per interval of A that B overlaps, with A's extent, labelled a(b1,b2,...) *)
Theorem merge_labels_explicit A B :
  wf_itier A -> wf_itier B ->
  merge_labels_i A B =
  Ok (mkIT (iname A ++ DASH ++ iname B) (merge_entries (ients A) (ients B))
           (hull_min (merge_entries (ients A) (ients B)) (imin A))
           (hull_max (merge_entries (ients A) (ients B)) (imax A))).
Proof.
  intros HA HB. pose proof HA as (WA & SA & LA). pose proof HB as (WB & SB & LB).
  unfold merge_labels_i. rewrite merge_fold by (assumption || apply WA). cbn [bind app].
  apply new_itier_ok.
  - apply (flat_map_wf (fun x => x)); [intros; lia|apply merge_piece_ok, WB|exact WA].
  - unfold labels_stripped, merge_entries. apply Forall_forall. intros k Hk.
    apply in_flat_map in Hk as (i & Hi & Hk). unfold merge_piece in Hk.
    destruct (crop_spec_ents (istart i) (iend i) Truncated (ients B)) as [|c0 c'] eqn:EC; [contradiction|].
    destruct (last_opt (c0 :: c')); [|contradiction]. destruct Hk as [<-|[]]. cbn [ilabel].
    apply stripped_paren. unfold labels_stripped in LA. rewrite Forall_forall in LA. apply LA, Hi.
Qed.

(* an interval of A appears iff some interval of B overlaps it, and then with exactly its own extent *)
Corollary merge_labels_extent (B : list interval) (i : interval) :
  wf_ients B -> pos i ->
  match merge_piece B i with
  | [] => crop_spec_ents (istart i) (iend i) Truncated B = []
  | [k] => istart k = istart i /\ iend k = iend i
  | _ => False
  end.
Proof.
  intros HB Hi. unfold merge_piece.
  set (c := crop_spec_ents (istart i) (iend i) Truncated B).
  assert (Forall (in_span (istart i) (iend i)) c) as Sc by (apply crop_ents_in_window; discriminate).
  destruct c as [|c0 c'] eqn:EC; [reflexivity|].
  destruct (last_opt (c0 :: c')) as [cl|] eqn:EL.
  - rewrite Forall_forall in Sc. pose proof (Sc c0 (or_introl eq_refl)) as [S0 _]. pose proof (Sc cl (last_opt_in _ _ EL)) as [_ S1].
    unfold pos in Hi. cbn [istart iend]. lia.
  - exfalso. clear - EL. revert c0 EL. induction c' as [|b c' IH]; intros c0 EL; [discriminate|]. cbn [last_opt] in EL. exact (IH b EL).
Qed.
