(* Tier/TierOps.v -- the public tier operations as one operation type, for
   statements over arbitrary histories (C05, C13). *)
From PraatIO Require Export Tier.TierModel.

Inductive opI :=
| OpCrop (a b : Z) (m : cropmode) (rebase : bool)
| OpErase (a b : Z) (m : erasemode) (doShrink : bool)
| OpSpace (s d : Z) (m : spacemode)
| OpEdit (o : Z) (m : repmode)
| OpInsert (e : interval) (m : insmode)
| OpDelete (e : interval)
| OpUnion (B : itier) | OpDiff (B : itier) | OpInter (B : itier)
| OpMergeLabels (B : itier) | OpAppend (B : itier)
| OpDejitterI (R : itier) (d : Z) | OpDejitterP (R : ptier) (d : Z)
| OpMorph (g : itier) (keep : option (list text))
| OpNew
| OpConstruct (name : text) (l : list interval) (mn mx : option Z).

Definition label_filter (keep : option (list text)) : text -> bool :=
  match keep with None => fun _ => true | Some ks => fun l => existsb (text_eqb l) ks end.

Definition run_opI (t : itier) (o : opI) : res itier :=
  match o with
  | OpCrop a b m r => crop_i t a b m r
  | OpErase a b m s => erase_i t a b m s
  | OpSpace s d m => space_i t s d m
  | OpEdit o m => edit_i t o m
  | OpInsert e m => insert_i t e m
  | OpDelete e => delete_i t e
  | OpUnion B => union_i t B
  | OpDiff B => difference_i t B
  | OpInter B => intersection_i t B
  | OpMergeLabels B => merge_labels_i t B
  | OpAppend B => append_i t B
  | OpDejitterI R d => dejitter_i t (timestamps_i R) d
  | OpDejitterP R d => dejitter_i t (timestamps_p R) d
  | OpMorph g keep => morph_i t g (label_filter keep)
  | OpNew => copy_itier t
  | OpConstruct name l mn mx => new_itier name l mn mx
  end.

Inductive opP :=
| PCrop (a b : Z) (rebase : bool)
| PErase (a b : Z) (doShrink : bool)
| PSpace (s d : Z)
| PEdit (o : Z) (m : repmode)
| PInsert (e : point) (m : insmode)
| PDelete (e : point)
| PUnion (B : ptier) | PAppend (B : ptier)
| PDejitterI (R : itier) (d : Z) | PDejitterP (R : ptier) (d : Z)
| PNew
| PConstruct (name : text) (l : list point) (mn mx : option Z).

Definition run_opP (t : ptier) (o : opP) : res ptier :=
  match o with
  | PCrop a b r => crop_p t a b r
  | PErase a b s => erase_p t a b s
  | PSpace s d => space_p t s d
  | PEdit o m => edit_p t o m
  | PInsert e m => insert_p t e m
  | PDelete e => delete_p t e
  | PUnion B => union_p t B
  | PAppend B => append_p t B
  | PDejitterI R d => dejitter_p t (timestamps_i R) d
  | PDejitterP R d => dejitter_p t (timestamps_p R) d
  | PNew => copy_ptier t
  | PConstruct name l mn mx => new_ptier name l mn mx
  end.

(* a history: a failing step leaves the tier as it was *)
Definition stepI (t : itier) (o : opI) : itier :=
  match run_opI t o with Ok t' => t' | Err _ => t end.
Definition stepP (t : ptier) (o : opP) : ptier :=
  match run_opP t o with Ok t' => t' | Err _ => t end.
