(* Tier/QueryModel.v -- models of the query helpers of utils.py / point_tier.py (C15, C17). *)
From PraatIO Require Export Tier.TierModel.

Definition row := (Z * Z)%type.       (* (time, payload id) *)

(* utils.getValueAtTime, exact matching: scan from index i *)
Fixpoint vat_exact (t : Z) (l : list row) (i : nat) : option row * nat :=
  match l with
  | [] => (None, i)
  | r :: l' => if t <=? fst r then ((if t =? fst r then Some r else None), i)
               else vat_exact t l' (S i)
  end.
Definition value_at_exact (t : Z) (data : list row) (start : nat) : option row * nat :=
  vat_exact t (skipn start data) start.

(* fuzzy matching: the loop of the source with explicit state *)
Fixpoint vat_fuzzy (t : Z) (best : row) (l : list row) (i : nat) : row * nat :=
  match l with
  | [] => (best, pred i)
  | r :: l' =>
      let cd := Z.abs (fst r - t) in let bd := Z.abs (fst best - t) in
      if cd <? bd then (if cd =? 0 then (r, i) else vat_fuzzy t r l' (S i))
      else if bd <? cd then (best, pred i)
      else vat_fuzzy t best l' (S i)
  end.
Definition value_at_fuzzy (t : Z) (data : list row) (start : nat) : res (row * nat) :=
  match skipn start data with
  | [] => Err PyError
  | r0 :: _ => Ok (vat_fuzzy t r0 (skipn start data) start)
  end.

Definition rleb (a b : row) : bool :=
  match Z.compare (fst a) (fst b) with Lt => true | Gt => false | Eq => snd a <=? snd b end.

(* PointTier.getValuesAtPoints *)
Fixpoint gvap_exact (pts : list Z) (data : list row) (i : nat) : list (option row) :=
  match pts with
  | [] => []
  | t :: pts' => let '(r, i') := value_at_exact t data i in r :: gvap_exact pts' data i'
  end.
Fixpoint gvap_fuzzy (pts : list Z) (data : list row) (i : nat) : res (list row) :=
  match pts with
  | [] => Ok []
  | t :: pts' => do ri <- value_at_fuzzy t data i;
                 do rest <- gvap_fuzzy pts' data (snd ri); Ok (fst ri :: rest)
  end.

(* utils.intervalOverlapCheck; percentThreshold = pn/pd with pd > 0 *)
Definition overlap_check (s e cs ce : Z) (pn pd : Z) (tthr : Z) (incl : bool) : bool :=
  let ot := Z.max 0 (Z.min e ce - Z.max s cs) in
  let f0 := 0 <? ot in
  let bflag := incl && ((s =? ce) || (e =? cs)) in
  let use_p := (0 <? pn) && f0 in
  let pflag := use_p && (pn * (Z.max e ce - Z.min s cs) <=? ot * pd) in
  let f1 := if use_p then pflag else f0 in
  let use_t := (0 <? tthr) && f1 in
  let tflag := use_t && (tthr <=? ot) in
  let f2 := if use_t then tflag else f1 in
  f2 || bflag || pflag || tflag.

(* utils.invertIntervalList on pairs *)
Definition pleb2 (a b : row) : bool :=
  match Z.compare (fst a) (fst b) with Lt => true | Gt => false | Eq => snd a <=? snd b end.

Fixpoint consecutive_gaps (l : list row) : list row :=
  match l with
  | a :: l' => match l' with b :: _ => (snd a, fst b) :: consecutive_gaps l' | [] => [] end
  | [] => []
  end.

Definition invert_list (input : list row) (mn mx : option Z) : res (list row) :=
  if existsb (fun r => snd r <=? fst r) input then Err ArgumentError else
  let l := isort pleb2 input in
  match l, mn, mx with
  | [], Some a, Some b => Ok [(a, b)]
  | _, _, _ =>
      do l1 <- match mn with
               | Some a => match l with
                           | [] => Err PyError
                           | r0 :: _ => Ok (if a <? fst r0 then (-1, a) :: l else l) end
               | None => Ok l end;
      do l2 <- match mx with
               | Some b => match last_opt l1 with
                           | None => Err PyError
                           | Some rl => Ok (if snd rl <? b then l1 ++ [(b, b + 1)] else l1) end
               | None => Ok l1 end;
      Ok (filter (fun r => negb (fst r =? snd r)) (consecutive_gaps l2))
  end.
