(* Tier/QueryProofs.v -- C15: queries and derived views agree with their definitions. *)
From PraatIO Require Import Tier.QueryModel Tier.CtorProofs Tier.InsertProofs Tier.SetProofs Tier.WfProofs.

(* ---------------- find ---------------- *)

Theorem find_idx_spec {A} (p : A -> bool) l : forall n k,
  In k (find_idx_from p n l) <-> (n <= k)%nat /\ exists x, nth_error l (k - n) = Some x /\ p x = true.
Proof.
  induction l as [|a l IH]; intros n k; simpl.
  - split; [intros []|]. intros [_ (x & H & _)]. destruct (k - n)%nat; discriminate.
  - destruct (p a) eqn:Ep; simpl; rewrite IH; split.
    + intros [<-|[Hk (x & Hn & Hp)]].
      * split; [lia|]. exists a. rewrite Nat.sub_diag. auto.
      * split; [lia|]. exists x. replace (k - n)%nat with (S (k - S n)) by lia. auto.
    + intros [Hk (x & Hn & Hp)]. destruct (k - n)%nat as [|j] eqn:E.
      * left. lia.
      * right. split; [lia|]. exists x. replace (k - S n)%nat with j by lia. auto.
    + intros [Hk (x & Hn & Hp)]. split; [lia|]. exists x. replace (k - n)%nat with (S (k - S n)) by lia. auto.
    + intros [Hk (x & Hn & Hp)]. destruct (k - n)%nat as [|j] eqn:E.
      * simpl in Hn. injection Hn as <-. congruence.
      * split; [lia|]. exists x. replace (k - S n)%nat with j by lia. auto.
Qed.

Theorem find_exact t q k :
  In k (find_i t q false) <-> exists i, nth_error (ients t) k = Some i /\ ilabel i = q.
Proof.
  unfold find_i. rewrite find_idx_spec. rewrite Nat.sub_0_r. split.
  - intros [_ (i & H & E)]. exists i. split; [exact H|apply text_eqb_eq, E].
  - intros (i & H & E). split; [lia|]. exists i. split; [exact H|apply text_eqb_eq, E].
Qed.

Theorem find_substring t q k :
  In k (find_i t q true) <-> exists i, nth_error (ients t) k = Some i /\ exists a b, ilabel i = a ++ q ++ b.
Proof.
  unfold find_i. rewrite find_idx_spec. rewrite Nat.sub_0_r. split.
  - intros [_ (i & H & E)]. exists i. split; [exact H|apply contains_spec, E].
  - intros (i & H & E). split; [lia|]. exists i. split; [exact H|apply contains_spec, E].
Qed.

(* ---------------- getNonEntries ---------------- *)

Lemma gaps_covered l x :
  wf_ients l ->
  covered (gaps l) x =
  match l, last_opt l with
  | i0 :: _, Some il => (istart i0 <=? x) && (x <? iend il) && negb (covered l x)
  | _, _ => false
  end.
Proof.
  induction l as [|i l IH]; intro Hw; [reflexivity|].
  apply wf_ients_cons in Hw as (Hp & Hb & Hw). destruct l as [|j l'].
  - simpl. unfold coversb, pos in *. lia.
  - specialize (IH Hw). change (gaps (i :: j :: l')) with ((if iend i <? istart j then [mkI (iend i) (istart j) []] else []) ++ gaps (j :: l')).
    rewrite covered_app, IH. inversion Hb as [|? ? Bij _]; subst.
    change (last_opt (i :: j :: l')) with (last_opt (j :: l')).
    destruct (last_opt (j :: l')) as [il|] eqn:El; [|apply last_opt_None in El; discriminate].
    pose proof (wf_last_max _ _ Hw El) as Hmax. inversion Hmax as [|? ? Hjl _]; subst.
    assert (pos j) as Pj by (destruct Hw as [Hpw _]; inversion Hpw; assumption).
    assert (covered (i :: j :: l') x = coversb i x || covered (j :: l') x) as -> by reflexivity.
    assert (covered (j :: l') x = true -> istart j <= x < iend il) as Hcov.
    { intro C. apply covered_true_iff in C as (k & Hk & Hc). rewrite Forall_forall in Hmax. specialize (Hmax k Hk).
      destruct Hk as [<-|Hk]; [unfold covers in Hc; lia|].
      apply wf_ients_cons in Hw as (_ & Bj & _). rewrite Forall_forall in Bj. specialize (Bj k Hk).
      unfold before, covers, pos in *. lia. }
    remember (covered (j :: l') x) as cj eqn:Ecj. clear Ecj IH.
    unfold before, pos in *.
    destruct (Z.ltb_spec (iend i) (istart j)).
    + assert (covered [mkI (iend i) (istart j) []] x = (iend i <=? x) && (x <? istart j)) as ->
          by (unfold covered; simpl; unfold coversb; simpl; apply orb_false_r).
      unfold coversb. destruct cj; [specialize (Hcov eq_refl)|]; lia.
    + assert (covered [] x = false) as -> by reflexivity.
      unfold coversb. destruct cj; [specialize (Hcov eq_refl)|]; lia.
Qed.

Lemma gaps_pos l : wf_ients l -> Forall pos (gaps l).
Proof.
  induction l as [|a r IH]; intro Hw; [constructor|]. destruct r as [|b r']; [constructor|].
  apply wf_ients_cons in Hw as (_ & _ & Hw').
  change (gaps (a :: b :: r')) with ((if iend a <? istart b then [mkI (iend a) (istart b) []] else []) ++ gaps (b :: r')).
  apply Forall_app. split; [|apply IH, Hw'].
  destruct (Z.ltb_spec (iend a) (istart b)); constructor; [unfold pos; simpl; lia|constructor].
Qed.

(* entries plus non-entries tile [0, maxTimestamp]; every non-entry has positive length *)
Theorem non_entries_tile t ne x :
  wf_itier t -> 0 <= imin t -> non_entries t = Ok ne ->
  Forall pos ne /\
  (covered ne x = (0 <=? x) && (x <? imax t) && negb (covered (ients t) x)).
Proof.
  intros (Hw & Hs & _) H0. unfold non_entries.
  destruct (ients t) as [|i0 l] eqn:El; [discriminate|].
  destruct (last_opt (i0 :: l)) as [il|] eqn:Ela; [|discriminate]. intros [= <-].
  pose proof (last_opt_In _ _ Ela) as Hil. rewrite Forall_forall in Hs.
  destruct (Hs i0 (or_introl eq_refl)) as [S0 _]. destruct (Hs il Hil) as [_ S1].
  pose proof (wf_last_max _ _ Hw Ela) as Hmax. rewrite Forall_forall in Hmax.
  pose proof (wf_head_min_all i0 l Hw) as Hmin. rewrite Forall_forall in Hmin.
  split.
  - apply Forall_app. split; [destruct (Z.ltb_spec 0 (istart i0)); constructor; [unfold pos; simpl; lia|constructor]|].
    apply Forall_app. split.
    + exact (gaps_pos (i0 :: l) Hw).
    + destruct (Z.ltb_spec (iend il) (imax t)); constructor; [unfold pos; simpl; lia|constructor].
  - change (match l with [] => [] | j :: _ => (if iend i0 <? istart j then [mkI (iend i0) (istart j) []] else []) ++ gaps l end) with (gaps (i0 :: l)).
    rewrite !covered_app, (gaps_covered (i0 :: l) x Hw), Ela.
    assert (covered (i0 :: l) x = true -> istart i0 <= x < iend il) as Hc.
    { intro C. apply covered_true_iff in C as (k & Hk & Hck). specialize (Hmax k Hk). specialize (Hmin k Hk).
      unfold covers in Hck. lia. }
    remember (covered (i0 :: l) x) as c0 eqn:Ec0. clear Ec0.
    assert (forall a b, covered (if a <? b then [mkI a b []] else []) x = (a <? b) && (a <=? x) && (x <? b)) as Hone.
    { intros a b. destruct (Z.ltb_spec a b); unfold covered; simpl; unfold coversb; simpl; lia. }
    rewrite !Hone. pose proof (Hmax i0 (or_introl eq_refl)).
    assert (pos i0) as P0 by (destruct Hw as [Hpw _]; inversion Hpw; assumption). unfold pos in P0.
    destruct c0; [specialize (Hc eq_refl)|]; lia.
Qed.

(* ---------------- getValuesInIntervals ---------------- *)

Theorem values_in_intervals_spec t data i rows d :
  In (i, rows) (values_in_intervals t data) ->
  (In d rows <-> In d data /\ istart i <= fst d <= iend i).
Proof.
  unfold values_in_intervals. intro H. apply in_map_iff in H as (j & E & _). injection E as <- <-.
  rewrite filter_In. intuition lia.
Qed.

Theorem values_in_intervals_shape t data :
  map fst (values_in_intervals t data) = ients t.
Proof. unfold values_in_intervals. rewrite map_map. simpl. apply map_id. Qed.

(* ---------------- getValueAtTime, exact ---------------- *)

Theorem vat_exact_spec t l : forall i r i',
  StronglySorted (fun a b => fst a <= fst b) l ->
  vat_exact t l i = (r, i') ->
  match r with
  | Some row => In row l /\ fst row = t
  | None => forall row, In row l -> fst row <> t
  end.
Proof.
  induction l as [|a l IH]; intros i r i' Hs E; simpl in E.
  - injection E as <- _. intros row [].
  - inversion Hs as [|? ? Hs' Hall]; subst.
    destruct (Z.leb_spec t (fst a)).
    + destruct (Z.eqb_spec t (fst a)); injection E as <- _.
      * split; [left; reflexivity|congruence].
      * intros row [<-|Hr]; [congruence|]. rewrite Forall_forall in Hall. specialize (Hall row Hr). lia.
    + specialize (IH _ _ _ Hs' E). destruct r as [row|].
      * destruct IH. split; [right; assumption|assumption].
      * intros row [<-|Hr]; [lia|apply IH, Hr].
Qed.

(* ---------------- intervalOverlapCheck ---------------- *)

Theorem overlap_check_default s e cs ce incl :
  overlap_check s e cs ce 0 1 0 incl
  = ((Z.max s cs <? Z.min e ce) || (incl && ((s =? ce) || (e =? cs)))).
Proof. unfold overlap_check. change (0 <? 0) with false. cbn [andb]. cbv iota. destruct incl; lia. Qed.

Theorem overlap_check_time_threshold s e cs ce th :
  0 < th -> overlap_check s e cs ce 0 1 th false = (th <=? Z.min e ce - Z.max s cs).
Proof.
  intro H. unfold overlap_check. change (0 <? 0) with false. cbn [andb]. cbv iota.
  destruct (Z.ltb_spec 0 th); [|lia]. cbn [andb].
  destruct (0 <? Z.max 0 (Z.min e ce - Z.max s cs)) eqn:E; cbn [andb orb]; lia.
Qed.

(* ---------------- validate ---------------- *)

Lemma validate_ients_sound mn mx l : forall prev,
  validate_ients mn mx prev l = true ->
  wf_ients l /\ Forall (in_span mn mx) l /\
  match prev, l with Some p, i :: _ => iend p <= istart i | _, _ => True end.
Proof.
  induction l as [|i l IH]; intros prev E; [split; [apply wf_ients_nil|split; [constructor|destruct prev; exact I]]|].
  cbn [validate_ients] in E. apply andb_true_iff in E as [E E5]. apply andb_true_iff in E as [E E4].
  apply andb_true_iff in E as [E E3]. apply andb_true_iff in E as [E1 E2].
  destruct (IH (Some i) E5) as (W & S & B).
  split; [|split].
  - apply wf_ients_cons. split; [unfold pos; lia|]. split; [|exact W].
    destruct l as [|j l']; [constructor|]. apply wf_ients_cons in W as (Pj & Bj & _).
    constructor; [unfold before; exact B|]. eapply Forall_impl; [|exact Bj]. unfold before, pos in *. intros; lia.
  - constructor; [unfold in_span; lia|exact S].
  - destruct prev as [p|]; [lia|exact I].
Qed.

(* validate() returns False exactly when an out-of-order / overlapping /
   non-positive entry or an out-of-span entry exists *)
Theorem validate_true_iff t :
  validate_i t = true <-> wf_ients (ients t) /\ Forall (in_span (imin t) (imax t)) (ients t).
Proof.
  split.
  - intro E. destruct (validate_ients_sound _ _ _ None E) as (W & S & _). auto.
  - intros [W S]. apply validate_ients_wf; auto.
Qed.
