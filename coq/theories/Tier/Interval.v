(* Tier/Interval.v -- intervals, points, tiers; orders; well-formedness;
   the label-at-every-time function. Time is Z ticks. *)
From PraatIO Require Export Base.PyText.

Record interval := mkI { istart : Z; iend : Z; ilabel : text }.
Record point := mkP { ptime : Z; plabel : text }.
Record itier := mkIT { iname : text; ients : list interval; imin : Z; imax : Z }.
Record ptier := mkPT { pname : text; pents : list point; pmin : Z; pmax : Z }.

(* ---------------- equality ---------------- *)

Definition interval_eqb (i j : interval) : bool :=
  (istart i =? istart j) && (iend i =? iend j) && text_eqb (ilabel i) (ilabel j).
Definition point_eqb (p q : point) : bool :=
  (ptime p =? ptime q) && text_eqb (plabel p) (plabel q).

Lemma interval_eqb_eq i j : interval_eqb i j = true <-> i = j.
Proof.
  destruct i, j; unfold interval_eqb; simpl.
  rewrite !andb_true_iff, !Z.eqb_eq, text_eqb_eq. split.
  - intros [[-> ->] ->]; reflexivity.
  - intros [= -> -> ->]; auto.
Qed.
Lemma point_eqb_eq p q : point_eqb p q = true <-> p = q.
Proof.
  destruct p, q; unfold point_eqb; simpl.
  rewrite andb_true_iff, Z.eqb_eq, text_eqb_eq. split.
  - intros [-> ->]; reflexivity.
  - intros [= -> ->]; auto.
Qed.

Definition ients_eqb := list_eqb interval_eqb.
Definition pents_eqb := list_eqb point_eqb.
Lemma ients_eqb_eq l m : ients_eqb l m = true <-> l = m.
Proof. apply list_eqb_eq, interval_eqb_eq. Qed.
Lemma pents_eqb_eq l m : pents_eqb l m = true <-> l = m.
Proof. apply list_eqb_eq, point_eqb_eq. Qed.

Definition itier_eqb (t u : itier) : bool :=
  text_eqb (iname t) (iname u) && ients_eqb (ients t) (ients u)
  && (imin t =? imin u) && (imax t =? imax u).
Definition ptier_eqb (t u : ptier) : bool :=
  text_eqb (pname t) (pname u) && pents_eqb (pents t) (pents u)
  && (pmin t =? pmin u) && (pmax t =? pmax u).

Lemma itier_eqb_eq t u : itier_eqb t u = true <-> t = u.
Proof.
  destruct t, u; unfold itier_eqb; simpl.
  rewrite !andb_true_iff, !Z.eqb_eq, text_eqb_eq, ients_eqb_eq. split.
  - intros [[[-> ->] ->] ->]; reflexivity.
  - intros [= -> -> -> ->]; auto.
Qed.
Lemma ptier_eqb_eq t u : ptier_eqb t u = true <-> t = u.
Proof.
  destruct t, u; unfold ptier_eqb; simpl.
  rewrite !andb_true_iff, !Z.eqb_eq, text_eqb_eq, pents_eqb_eq. split.
  - intros [[[-> ->] ->] ->]; reflexivity.
  - intros [= -> -> -> ->]; auto.
Qed.

(* ---------------- Python tuple order ---------------- *)

Definition icmp (i j : interval) : comparison :=
  match Z.compare (istart i) (istart j) with
  | Eq => match Z.compare (iend i) (iend j) with
          | Eq => text_cmp (ilabel i) (ilabel j)
          | c => c end
  | c => c end.
Definition ileb (i j : interval) : bool :=
  match icmp i j with Gt => false | _ => true end.

Definition pcmp (p q : point) : comparison :=
  match Z.compare (ptime p) (ptime q) with
  | Eq => text_cmp (plabel p) (plabel q)
  | c => c end.
Definition pleb (p q : point) : bool :=
  match pcmp p q with Gt => false | _ => true end.

Definition isorti := isort ileb.
Definition isortp := isort pleb.

Lemma icmp_antisym i j : icmp j i = CompOpp (icmp i j).
Proof.
  unfold icmp. rewrite (Z.compare_antisym (istart i)), (Z.compare_antisym (iend i)),
    (text_cmp_antisym (ilabel i)).
  destruct (istart i ?= istart j), (iend i ?= iend j), (text_cmp (ilabel i) (ilabel j)); reflexivity.
Qed.

Lemma ileb_total i j : ileb i j = true \/ ileb j i = true.
Proof. unfold ileb. rewrite (icmp_antisym i j). destruct (icmp i j); simpl; auto. Qed.

Lemma icmp_eq i j : icmp i j = Eq <-> i = j.
Proof.
  destruct i as [s e l], j as [s' e' l']; unfold icmp; simpl. split.
  - destruct (s ?= s') eqn:E1; try discriminate. destruct (e ?= e') eqn:E2; try discriminate.
    intro E3. apply Z.compare_eq in E1, E2. apply text_cmp_eq in E3. congruence.
  - intros [= -> -> ->]. rewrite !Z.compare_refl. apply text_cmp_eq; reflexivity.
Qed.

Lemma ileb_antisym i j : ileb i j = true -> ileb j i = true -> i = j.
Proof.
  unfold ileb. rewrite (icmp_antisym i j). destruct (icmp i j) eqn:E; simpl; try discriminate.
  intros _ _. apply icmp_eq, E.
Qed.

Lemma icmp_lt_trans i j k : icmp i j = Lt -> icmp j k = Lt -> icmp i k = Lt.
Proof.
  destruct i as [s1 e1 l1], j as [s2 e2 l2], k as [s3 e3 l3]; unfold icmp; simpl.
  destruct (s1 ?= s2) eqn:A1; try discriminate;
  destruct (s2 ?= s3) eqn:A2; try discriminate;
  try (apply Z.compare_eq in A1); try (apply Z.compare_eq in A2); subst;
  try rewrite Z.compare_refl; try rewrite A1; try rewrite A2; auto.
  - destruct (e1 ?= e2) eqn:B1; try discriminate;
    destruct (e2 ?= e3) eqn:B2; try discriminate;
    try (apply Z.compare_eq in B1); try (apply Z.compare_eq in B2); subst;
    try rewrite Z.compare_refl; try rewrite B1; try rewrite B2; auto.
    + apply text_cmp_trans_lt.
    + intros _ _. rewrite Z.compare_lt_iff in B1, B2.
      assert (e1 < e3) as H by lia. apply Z.compare_lt_iff in H. now rewrite H.
  - intros _ _. rewrite Z.compare_lt_iff in A1, A2.
    assert (s1 < s3) as H by lia. apply Z.compare_lt_iff in H. now rewrite H.
Qed.

Lemma ileb_trans i j k : ileb i j = true -> ileb j k = true -> ileb i k = true.
Proof.
  unfold ileb. destruct (icmp i j) eqn:E1; try discriminate;
  destruct (icmp j k) eqn:E2; try discriminate; intros _ _.
  - apply icmp_eq in E1, E2. subst. assert (icmp k k = Eq) as -> by (apply icmp_eq; reflexivity). reflexivity.
  - apply icmp_eq in E1. subst. now rewrite E2.
  - apply icmp_eq in E2. subst. now rewrite E1.
  - now rewrite (icmp_lt_trans _ _ _ E1 E2).
Qed.

Lemma pcmp_antisym p q : pcmp q p = CompOpp (pcmp p q).
Proof.
  unfold pcmp. rewrite (Z.compare_antisym (ptime p)), (text_cmp_antisym (plabel p)).
  destruct (ptime p ?= ptime q), (text_cmp (plabel p) (plabel q)); reflexivity.
Qed.
Lemma pleb_total p q : pleb p q = true \/ pleb q p = true.
Proof. unfold pleb. rewrite (pcmp_antisym p q). destruct (pcmp p q); simpl; auto. Qed.
Lemma pcmp_eq p q : pcmp p q = Eq <-> p = q.
Proof.
  destruct p as [t l], q as [t' l']; unfold pcmp; simpl. split.
  - destruct (t ?= t') eqn:E1; try discriminate. intro E3.
    apply Z.compare_eq in E1. apply text_cmp_eq in E3. congruence.
  - intros [= -> ->]. rewrite Z.compare_refl. apply text_cmp_eq; reflexivity.
Qed.
Lemma pleb_antisym p q : pleb p q = true -> pleb q p = true -> p = q.
Proof.
  unfold pleb. rewrite (pcmp_antisym p q). destruct (pcmp p q) eqn:E; simpl; try discriminate.
  intros _ _. apply pcmp_eq, E.
Qed.
Lemma pcmp_lt_trans p q r : pcmp p q = Lt -> pcmp q r = Lt -> pcmp p r = Lt.
Proof.
  destruct p as [t1 l1], q as [t2 l2], r as [t3 l3]; unfold pcmp; simpl.
  destruct (t1 ?= t2) eqn:A1; try discriminate;
  destruct (t2 ?= t3) eqn:A2; try discriminate;
  try (apply Z.compare_eq in A1); try (apply Z.compare_eq in A2); subst;
  try rewrite Z.compare_refl; try rewrite A1; try rewrite A2; auto.
  - apply text_cmp_trans_lt.
  - intros _ _. rewrite Z.compare_lt_iff in A1, A2.
    assert (t1 < t3) as H by lia. apply Z.compare_lt_iff in H. now rewrite H.
Qed.
Lemma pleb_trans p q r : pleb p q = true -> pleb q r = true -> pleb p r = true.
Proof.
  unfold pleb. destruct (pcmp p q) eqn:E1; try discriminate;
  destruct (pcmp q r) eqn:E2; try discriminate; intros _ _.
  - apply pcmp_eq in E1, E2. subst. assert (pcmp r r = Eq) as -> by (apply pcmp_eq; reflexivity). reflexivity.
  - apply pcmp_eq in E1. subst. now rewrite E2.
  - apply pcmp_eq in E2. subst. now rewrite E1.
  - now rewrite (pcmp_lt_trans _ _ _ E1 E2).
Qed.

(* ---------------- relations on intervals ---------------- *)

Definition pos (i : interval) : Prop := istart i < iend i.
Definition before (i j : interval) : Prop := iend i <= istart j.    (* touching allowed *)
Definition overlaps (a b : Z) (i : interval) : Prop := istart i < b /\ a < iend i.
Definition inside (a b : Z) (i : interval) : Prop := a <= istart i /\ iend i <= b.
Definition covers (i : interval) (x : Z) : Prop := istart i <= x < iend i.

Definition posb (i : interval) : bool := istart i <? iend i.
Definition overlapsb (a b : Z) (i : interval) : bool := (istart i <? b) && (a <? iend i).
Definition insideb (a b : Z) (i : interval) : bool := (a <=? istart i) && (iend i <=? b).
Definition coversb (i : interval) (x : Z) : bool := (istart i <=? x) && (x <? iend i).

Definition clip (a b : Z) (i : interval) : interval :=
  mkI (Z.max a (istart i)) (Z.min b (iend i)) (ilabel i).
Definition shift (d : Z) (i : interval) : interval :=
  mkI (istart i + d) (iend i + d) (ilabel i).
Definition pshift (d : Z) (p : point) : point := mkP (ptime p + d) (plabel p).

(* the label at time x: label of the first entry covering the cell [x, x+1) *)
Fixpoint lab_at (l : list interval) (x : Z) : option text :=
  match l with
  | [] => None
  | i :: l' => if coversb i x then Some (ilabel i) else lab_at l' x
  end.

Definition orelse {A} (a b : option A) : option A :=
  match a with Some _ => a | None => b end.

Lemma lab_at_app l m x : lab_at (l ++ m) x = orelse (lab_at l x) (lab_at m x).
Proof. induction l as [|i l IH]; simpl; [reflexivity|]. destruct (coversb i x); auto. Qed.

Lemma lab_at_flat_map {A} (f : A -> list interval) (l : list A) x :
  lab_at (flat_map f l) x =
  fold_right (fun a r => orelse (lab_at (f a) x) r) None l.
Proof. induction l as [|a l IH]; simpl; [reflexivity|]. now rewrite lab_at_app, IH. Qed.

Lemma lab_at_None_iff l x : lab_at l x = None <-> Forall (fun i => ~ covers i x) l.
Proof.
  induction l as [|i l IH]; simpl; [split; [constructor|reflexivity]|].
  unfold covers. destruct (coversb i x) eqn:E; unfold coversb in E.
  - split; [discriminate|]. intro H. inversion H; subst. lia.
  - rewrite IH. split; [intro H; constructor; [lia|exact H]|intro H; inversion H; assumption].
Qed.

(* ---------------- well-formedness ---------------- *)

Definition wf_ients (l : list interval) : Prop :=
  Forall pos l /\ StronglySorted before l.

Definition in_span (mn mx : Z) (i : interval) : Prop := mn <= istart i /\ iend i <= mx.

Definition wf_itier (t : itier) : Prop :=
  wf_ients (ients t)
  /\ Forall (in_span (imin t) (imax t)) (ients t)
  /\ Forall (fun i => stripped (ilabel i)) (ients t).

Definition wf_pents (l : list point) : Prop :=
  StronglySorted (fun p q => ptime p <= ptime q) l.
Definition wf_ptier (t : ptier) : Prop :=
  wf_pents (pents t)
  /\ Forall (fun p => pmin t <= ptime p <= pmax t) (pents t)
  /\ Forall (fun p => stripped (plabel p)) (pents t).

(* boolean versions (used as oracles on implementation output) *)
Fixpoint sorted_disjb (l : list interval) : bool :=
  match l with
  | [] => true
  | i :: l' => posb i
               && match l' with [] => true | j :: _ => iend i <=? istart j end
               && sorted_disjb l'
  end.

Lemma wf_ients_cons i l : wf_ients (i :: l) <-> pos i /\ Forall (before i) l /\ wf_ients l.
Proof.
  unfold wf_ients. split.
  - intros [Hp Hs]. inversion Hp; subst. inversion Hs; subst. tauto.
  - intros (Hp & Hb & Hp' & Hs'). split; constructor; assumption.
Qed.

Lemma wf_ients_nil : wf_ients [].
Proof. split; constructor. Qed.

Lemma sorted_disjb_spec l : sorted_disjb l = true <-> wf_ients l.
Proof.
  induction l as [|i l IH]; [simpl; split; [intros _; apply wf_ients_nil|reflexivity]|].
  cbn [sorted_disjb]. rewrite wf_ients_cons, !andb_true_iff, IH. unfold posb, pos.
  split.
  - intros [[Hp Hn] Hw]. split; [lia|]. split; [|exact Hw].
    destruct l as [|j l]; [constructor|].
    apply wf_ients_cons in Hw as (Hpj & Hbj & _).
    constructor; [unfold before; lia|].
    eapply Forall_impl; [|exact Hbj]. unfold before, pos in *. intros k Hk. lia.
  - intros (Hp & Hb & Hw). split; [split; [lia|]|exact Hw].
    destruct l as [|j l]; [reflexivity|]. inversion Hb; subst. unfold before in *. lia.
Qed.

Definition in_spanb (mn mx : Z) (i : interval) : bool := (mn <=? istart i) && (iend i <=? mx).

Definition wf_itierb (t : itier) : bool :=
  sorted_disjb (ients t)
  && forallb (in_spanb (imin t) (imax t)) (ients t)
  && forallb (fun i => strippedb (ilabel i)) (ients t).

Lemma wf_itierb_spec t : wf_itierb t = true <-> wf_itier t.
Proof.
  unfold wf_itierb, wf_itier. rewrite !andb_true_iff, sorted_disjb_spec, !forallb_forall, !Forall_forall.
  unfold in_spanb, in_span. split.
  - intros [[H1 H2] H3]. split; [exact H1|]. split.
    + intros i Hi. apply H2 in Hi. lia.
    + intros i Hi. apply strippedb_spec, H3, Hi.
  - intros (H1 & H2 & H3). split; [split; [exact H1|]|].
    + intros i Hi. apply H2 in Hi. lia.
    + intros i Hi. apply strippedb_spec, H3, Hi.
Qed.

Fixpoint psortedb (l : list point) : bool :=
  match l with
  | [] => true
  | p :: l' => match l' with [] => true | q :: _ => ptime p <=? ptime q end && psortedb l'
  end.

Lemma psortedb_spec l : psortedb l = true <-> wf_pents l.
Proof.
  unfold wf_pents. induction l as [|p l IH]; [simpl; split; [constructor|reflexivity]|].
  cbn [psortedb]. rewrite andb_true_iff, IH. split.
  - intros [Hn Hs]. constructor; [exact Hs|].
    destruct l as [|q l]; [constructor|]. inversion Hs; subst.
    constructor; [lia|]. eapply Forall_impl; [|eassumption]. simpl. intros; lia.
  - intro H. inversion H; subst. split; [|assumption].
    destruct l as [|q l]; [reflexivity|]. inversion H3; subst. lia.
Qed.

Definition wf_ptierb (t : ptier) : bool :=
  psortedb (pents t)
  && forallb (fun p => (pmin t <=? ptime p) && (ptime p <=? pmax t)) (pents t)
  && forallb (fun p => strippedb (plabel p)) (pents t).

Lemma wf_ptierb_spec t : wf_ptierb t = true <-> wf_ptier t.
Proof.
  unfold wf_ptierb, wf_ptier. rewrite !andb_true_iff, psortedb_spec, !forallb_forall, !Forall_forall.
  split.
  - intros [[H1 H2] H3]. split; [exact H1|]. split.
    + intros p Hp. apply H2 in Hp. lia.
    + intros p Hp. apply strippedb_spec, H3, Hp.
  - intros (H1 & H2 & H3). split; [split; [exact H1|]|].
    + intros p Hp. apply H2 in Hp. lia.
    + intros p Hp. apply strippedb_spec, H3, Hp.
Qed.

(* a wf entry list is sorted w.r.t. the Python tuple order, so sort is the identity *)
Lemma wf_ients_ileb_sorted l : wf_ients l -> StronglySorted (lebP ileb) l.
Proof.
  induction l as [|i l IH]; intro H; [constructor|].
  apply wf_ients_cons in H as (Hp & Hb & Hw). constructor; [apply IH, Hw|].
  destruct Hw as [Hpl _]. rewrite Forall_forall in *. intros j Hj.
  specialize (Hb j Hj). specialize (Hpl j Hj). unfold before, pos, lebP, ileb, icmp in *.
  destruct (istart i ?= istart j) eqn:E; try reflexivity.
  - apply Z.compare_eq in E. lia.
  - rewrite Z.compare_gt_iff in E. lia.
Qed.

Lemma isorti_wf_id l : wf_ients l -> isorti l = l.
Proof. intro H. apply isort_sorted_id, wf_ients_ileb_sorted, H. Qed.


(* ---------------- the monotone-image lemma ----------------
   If tau is monotone and every entry i is replaced by a wf list of pieces
   that lie inside [tau (istart i), tau (iend i)], the result is wf.  Covers
   crop, eraseRegion, insertSpace, editTimestamps. *)

Definition pieces_ok (tau : Z -> Z) (f : interval -> list interval) : Prop :=
  forall i, pos i -> wf_ients (f i) /\ Forall (in_span (tau (istart i)) (tau (iend i))) (f i).

Lemma wf_ients_app l m :
  wf_ients l -> wf_ients m -> (forall i j, In i l -> In j m -> before i j) -> wf_ients (l ++ m).
Proof.
  induction l as [|i l IH]; intros Hl Hm Hb; simpl; [exact Hm|].
  apply wf_ients_cons in Hl as (Hp & Hbi & Hl). apply wf_ients_cons. split; [exact Hp|]. split.
  - apply Forall_app; split; [exact Hbi|]. apply Forall_forall. intros j Hj. apply Hb; simpl; auto.
  - apply IH; auto. intros; apply Hb; simpl; auto.
Qed.

Lemma flat_map_wf (tau : Z -> Z) f l :
  (forall x y, x <= y -> tau x <= tau y) ->
  pieces_ok tau f -> wf_ients l -> wf_ients (flat_map f l).
Proof.
  intros Hmono Hf. induction l as [|i l IH]; intro Hw; simpl; [apply wf_ients_nil|].
  apply wf_ients_cons in Hw as (Hp & Hb & Hw).
  destruct (Hf i Hp) as [Hwi Hsi].
  apply wf_ients_app; [exact Hwi|apply IH, Hw|].
  intros a b Ha Hb'. apply in_flat_map in Hb' as (j & Hj & Hbj).
  rewrite Forall_forall in Hsi, Hb. destruct (Hsi a Ha) as [_ Ha2].
  destruct Hw as [Hpl _]. rewrite Forall_forall in Hpl.
  destruct (Hf j (Hpl j Hj)) as [_ Hsj]. rewrite Forall_forall in Hsj.
  destruct (Hsj b Hbj) as [Hb1 _]. specialize (Hb j Hj). unfold before in *.
  pose proof (Hmono _ _ Hb). lia.
Qed.

Lemma flat_map_in_span (tau : Z -> Z) f l mn mx :
  (forall x y, x <= y -> tau x <= tau y) ->
  pieces_ok tau f -> Forall pos l -> Forall (in_span mn mx) l ->
  Forall (in_span (tau mn) (tau mx)) (flat_map f l).
Proof.
  intros Hmono Hf Hp Hs. apply Forall_forall. intros a Ha.
  apply in_flat_map in Ha as (i & Hi & Hai).
  rewrite Forall_forall in Hp, Hs. destruct (Hf i (Hp i Hi)) as [_ Hsi].
  rewrite Forall_forall in Hsi. destruct (Hsi a Hai) as [A1 A2]. destruct (Hs i Hi) as [B1 B2].
  pose proof (Hmono _ _ B1). pose proof (Hmono _ _ B2). unfold in_span. lia.
Qed.

(* for a wf list, lab_at is Some exactly for a (unique) covering member *)
Lemma lab_at_Some_In l x lab : lab_at l x = Some lab -> exists i, In i l /\ covers i x /\ ilabel i = lab.
Proof.
  induction l as [|i l IH]; simpl; [discriminate|].
  destruct (coversb i x) eqn:E.
  - intros [= <-]. exists i. unfold covers, coversb in *. repeat split; auto; lia.
  - intro H. destruct (IH H) as (j & Hj & Hc & Hl). exists j; auto.
Qed.

Lemma wf_covers_unique l i j x :
  wf_ients l -> In i l -> In j l -> covers i x -> covers j x -> i = j.
Proof.
  induction l as [|k l IH]; intros Hw Hi Hj Hci Hcj; [destruct Hi|].
  apply wf_ients_cons in Hw as (Hp & Hb & Hw). rewrite Forall_forall in Hb.
  destruct Hi as [->|Hi], Hj as [->|Hj]; auto.
  - specialize (Hb j Hj). unfold before, covers in *. lia.
  - specialize (Hb i Hi). unfold before, covers in *. lia.
Qed.

Lemma lab_at_In_wf l i x :
  wf_ients l -> In i l -> covers i x -> lab_at l x = Some (ilabel i).
Proof.
  intros Hw Hi Hc. destruct (lab_at l x) as [lab|] eqn:E.
  - destruct (lab_at_Some_In _ _ _ E) as (j & Hj & Hcj & <-).
    f_equal. f_equal. eapply wf_covers_unique; eauto.
  - apply lab_at_None_iff in E. rewrite Forall_forall in E. exfalso. eapply E; eauto.
Qed.

Lemma wf_pents_pleb_sorted l : StronglySorted (lebP pleb) l -> wf_pents l.
Proof.
  unfold wf_pents. induction 1 as [|p l Hs IH Hall]; constructor; auto.
  eapply Forall_impl; [|exact Hall]. intros q Hq. unfold lebP, pleb, pcmp in Hq. cbv beta.
  destruct (ptime p ?= ptime q) eqn:E; try discriminate.
  - apply Z.compare_eq in E. lia.
  - rewrite Z.compare_lt_iff in E. lia.
Qed.

(* lifting a per-entry description of the label function through flat_map *)
Lemma lab_at_flat_map_pointwise (f : interval -> list interval) (l : list interval) (c : bool) x x' :
  (forall i, In i l -> lab_at (f i) x = if c then None else lab_at [i] x') ->
  lab_at (flat_map f l) x = if c then None else lab_at l x'.
Proof.
  induction l as [|i l IH]; intro H; simpl; [destruct c; reflexivity|].
  rewrite lab_at_app, IH by (intros; apply H; right; assumption).
  rewrite (H i) by (left; reflexivity). simpl. destruct c; [reflexivity|].
  destruct (coversb i x'); reflexivity.
Qed.

Lemma wf_ients_split l i :
  wf_ients l -> In i l ->
  exists l1 l2, l = l1 ++ i :: l2 /\ Forall (fun j => before j i) l1 /\ Forall (before i) l2
                /\ wf_ients l1 /\ wf_ients l2.
Proof.
  induction l as [|k l IH]; intros Hw Hi; [destruct Hi|].
  apply wf_ients_cons in Hw as (Hp & Hb & Hw).
  destruct Hi as [->|Hi].
  - exists [], l. repeat split; auto; try constructor. apply Hw. apply Hw.
  - destruct (IH Hw Hi) as (l1 & l2 & -> & H1 & H2 & W1 & W2).
    exists (k :: l1), l2. split; [reflexivity|]. split; [|split; [exact H2|split; [|exact W2]]].
    + constructor; [|exact H1]. rewrite Forall_forall in Hb. apply Hb, in_or_app. right; left; reflexivity.
    + apply wf_ients_cons. split; [exact Hp|]. split; [|exact W1].
      rewrite Forall_forall in *. intros j Hj. apply Hb, in_or_app. left; exact Hj.
Qed.
