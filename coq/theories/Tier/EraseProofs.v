(* Tier/EraseProofs.v -- C07: eraseRegion blanks exactly the region and
   shrinks time by exactly its length. *)
From PraatIO Require Import Tier.TierModel Tier.CtorProofs.

(* ---------------- one entry ---------------- *)

Definition keep1 (a b : Z) (mode : erasemode) (i : interval) : list interval :=
  match mode with
  | ETruncate => cut_out a b i
  | _ => if overlapsb a b i then [] else [i]
  end.

Lemma erase_keep_flat a b mode l r :
  erase_keep a b mode l = Ok r -> r = flat_map (keep1 a b mode) l.
Proof.
  destruct mode; simpl.
  - now intros [= <-].
  - intros [= <-]. induction l as [|i l IH]; simpl; [reflexivity|].
    destruct (overlapsb a b i); simpl; congruence.
  - destruct (existsb (overlapsb a b) l) eqn:E; [discriminate|]. intros [= <-].
    induction l as [|i l IH]; simpl; [reflexivity|]. simpl in E.
    apply orb_false_iff in E as [E1 E2]. rewrite E1. simpl. f_equal. apply IH, E2.
Qed.

Lemma erase_keep_error_iff a b l :
  erase_keep a b EError l = Err CollisionError <-> exists i, In i l /\ overlaps a b i.
Proof.
  simpl. destruct (existsb (overlapsb a b) l) eqn:E.
  - split; [intros _|reflexivity]. apply existsb_exists in E as (i & Hi & Ho).
    exists i. split; [exact Hi|]. unfold overlapsb, overlaps in *. lia.
  - split; [discriminate|]. intros (i & Hi & Ho). exfalso.
    assert (existsb (overlapsb a b) l = true) as C; [|congruence].
    apply existsb_exists. exists i. split; [exact Hi|]. unfold overlapsb, overlaps in *. lia.
Qed.

(* label function of what is left of one entry, region kept as a blank *)
Lemma cut_out_lab a b i x : a < b ->
  lab_at (cut_out a b i) x = if (a <=? x) && (x <? b) then None else lab_at [i] x.
Proof.
  intro Hab. destruct i as [s e lab]. unfold cut_out, overlapsb, coversb; simpl.
  destruct ((s <? b) && (a <? e)) eqn:Eo.
  - destruct (s <? a) eqn:E1; destruct (b <? e) eqn:E2; simpl; unfold coversb; simpl;
      destruct ((a <=? x) && (x <? b)) eqn:Ew;
      repeat match goal with
             | |- context [if ?c then _ else _] => let E := fresh "E" in destruct c eqn:E
             end; try reflexivity; exfalso; lia.
  - simpl. unfold coversb; simpl. destruct ((a <=? x) && (x <? b)) eqn:Ew;
      repeat match goal with
             | |- context [if ?c then _ else _] => let E := fresh "E" in destruct c eqn:E
             end; try reflexivity; exfalso; lia.
Qed.

Theorem erase_keep_pointwise a b l x : a < b ->
  lab_at (flat_map (cut_out a b) l) x = if (a <=? x) && (x <? b) then None else lab_at l x.
Proof.
  intro Hab. apply lab_at_flat_map_pointwise. intros i _. apply cut_out_lab, Hab.
Qed.

(* categorical: exactly the non-overlapping entries *)
Theorem erase_categorical_members a b l r i :
  erase_keep a b ECategorical l = Ok r -> (In i r <-> In i l /\ ~ overlaps a b i).
Proof.
  simpl. intros [= <-]. rewrite filter_In. unfold overlapsb, overlaps. intuition lia.
Qed.

(* one entry, erased and shrunk *)
Definition es1 (a b : Z) (mode : erasemode) (i : interval) : list interval :=
  flat_map (shrink1 a b) (keep1 a b mode i).

Lemma flat_map_flat_map {A B C} (f : A -> list B) (g : B -> list C) l :
  flat_map g (flat_map f l) = flat_map (fun x => flat_map g (f x)) l.
Proof. induction l as [|x l IH]; simpl; [reflexivity|]. now rewrite flat_map_app, IH. Qed.

Lemma es1_trunc_lab a b i x : a < b ->
  lab_at (es1 a b ETruncate i) x = lab_at [i] (if x <? a then x else x + (b - a)).
Proof.
  intro Hab. destruct i as [s e lab]. unfold es1, keep1, cut_out, overlapsb, shrink1; simpl.
  destruct (x <? a) eqn:Ex;
  destruct ((s <? b) && (a <? e)) eqn:Eo;
  repeat match goal with
         | |- context [if ?c then _ else _] =>
             let E := fresh "E" in destruct c eqn:E; simpl; unfold shrink1; simpl
         end; unfold coversb in *; simpl in *; try reflexivity; exfalso; lia.
Qed.

(* ---------------- join_at ---------------- *)

Lemma join_at_lab a l x : Forall pos l -> lab_at (join_at a l) x = lab_at l x.
Proof.
  induction l as [|i l IH]; intro Hp; [reflexivity|].
  destruct l as [|j l']; [reflexivity|].
  inversion Hp as [|? ? Hi Hp']; subst. inversion Hp' as [|? ? Hj _]; subst.
  cbn [join_at].
  destruct ((iend i =? a) && (istart j =? a) && text_eqb (ilabel i) (ilabel j)) eqn:E.
  - apply andb_true_iff in E as [E1 E3]. apply andb_true_iff in E1 as [E1 E2].
    apply text_eqb_eq in E3. cbn [lab_at]. unfold coversb; simpl. unfold pos in *. rewrite <- E3.
    destruct ((istart i <=? x) && (x <? iend j)) eqn:C1;
      destruct ((istart i <=? x) && (x <? iend i)) eqn:C2;
      destruct ((istart j <=? x) && (x <? iend j)) eqn:C3; try reflexivity; exfalso; lia.
  - change (lab_at (i :: join_at a (j :: l')) x = lab_at (i :: j :: l') x).
    cbn [lab_at]. destruct (coversb i x); [reflexivity|]. apply IH, Hp'.
Qed.

Lemma join_at_members a l k :
  In k l -> iend k <> a -> istart k <> a -> In k (join_at a l).
Proof.
  induction l as [|i l IH]; intros Hk He Hs; [destruct Hk|].
  destruct l as [|j l']; [exact Hk|]. cbn [join_at].
  destruct ((iend i =? a) && (istart j =? a) && text_eqb (ilabel i) (ilabel j)) eqn:E.
  - apply andb_true_iff in E as [E1 _]. apply andb_true_iff in E1 as [E1 E2].
    destruct Hk as [->|[->|Hk]]; [lia|lia|right; exact Hk].
  - destruct Hk as [->|Hk]; [left; reflexivity|right; apply IH; assumption].
Qed.

Lemma join_at_shape a l :
  join_at a l = l \/
  exists l1 i j l2, l = l1 ++ i :: j :: l2 /\ iend i = a /\ istart j = a /\ ilabel i = ilabel j
                    /\ join_at a l = l1 ++ mkI (istart i) (iend j) (ilabel i) :: l2.
Proof.
  induction l as [|i l IH]; [left; reflexivity|].
  destruct l as [|j l']; [left; reflexivity|]. cbn [join_at].
  destruct ((iend i =? a) && (istart j =? a) && text_eqb (ilabel i) (ilabel j)) eqn:E.
  - apply andb_true_iff in E as [E1 E3]. apply andb_true_iff in E1 as [E1 E2].
    apply text_eqb_eq in E3. right. exists [], i, j, l'. repeat split; auto; lia.
  - destruct IH as [IH|(l1 & i' & j' & l2 & E1 & E2 & E3 & E4 & E5)].
    + left. change (i :: join_at a (j :: l') = i :: j :: l'). now rewrite IH.
    + right. exists (i :: l1), i', j', l2. repeat split; auto.
      * simpl. now rewrite E1.
      * change (i :: join_at a (j :: l') = (i :: l1) ++ mkI (istart i') (iend j') (ilabel i') :: l2).
        now rewrite E5.
Qed.

Lemma wf_ients_app_inv l m : wf_ients (l ++ m) ->
  wf_ients l /\ wf_ients m /\ (forall i j, In i l -> In j m -> before i j).
Proof.
  induction l as [|k l IH]; intro H; simpl in *.
  - split; [apply wf_ients_nil|]. split; [exact H|]. intros i j [].
  - apply wf_ients_cons in H as (Hp & Hb & Hw). destruct (IH Hw) as (W1 & W2 & W3).
    apply Forall_app in Hb as [Hb1 Hb2]. split; [apply wf_ients_cons; auto|]. split; [exact W2|].
    intros i j [<-|Hi] Hj; [|apply W3; assumption]. rewrite Forall_forall in Hb2. apply Hb2, Hj.
Qed.

Lemma join_at_wf a l : wf_ients l -> wf_ients (join_at a l).
Proof.
  intro Hw. destruct (join_at_shape a l) as [->|(l1 & i & j & l2 & -> & E1 & E2 & E3 & ->)]; [exact Hw|].
  apply wf_ients_app_inv in Hw as (W1 & W2 & W3).
  apply wf_ients_cons in W2 as (Pi & Bi & W2). apply wf_ients_cons in W2 as (Pj & Bj & W2).
  apply wf_ients_app; [exact W1| |].
  - apply wf_ients_cons. split; [unfold pos in *; simpl; lia|]. split; [|exact W2].
    eapply Forall_impl; [|exact Bj]. unfold before; simpl. auto.
  - intros x y Hx [<-|Hy].
    + specialize (W3 x i Hx (or_introl eq_refl)). unfold before in *; simpl. exact W3.
    + apply W3; [exact Hx|right; right; exact Hy].
Qed.

Lemma join_at_stripped a l : labels_stripped l -> labels_stripped (join_at a l).
Proof.
  intro H. destruct (join_at_shape a l) as [->|(l1 & i & j & l2 & -> & E1 & E2 & E3 & ->)]; [exact H|].
  unfold labels_stripped in *. apply Forall_app in H as [H1 H2].
  inversion H2 as [|? ? Hi H3]; subst. inversion H3; subst.
  apply Forall_app; split; [exact H1|]. constructor; assumption.
Qed.

Lemma join_at_in_span a l mn mx : Forall (in_span mn mx) l -> Forall (in_span mn mx) (join_at a l).
Proof.
  intro H. destruct (join_at_shape a l) as [->|(l1 & i & j & l2 & -> & E1 & E2 & E3 & ->)]; [exact H|].
  apply Forall_app in H as [H1 H2]. inversion H2 as [|? ? Hi H3]; subst. inversion H3 as [|? ? Hj H4]; subst.
  apply Forall_app; split; [exact H1|]. constructor; [|exact H4]. unfold in_span in *; simpl. lia.
Qed.

(* ---------------- pieces are ok ---------------- *)

Lemma wf_singleton i : pos i -> wf_ients [i].
Proof. intro H. apply wf_ients_cons. split; [exact H|]. split; [constructor|apply wf_ients_nil]. Qed.

Lemma wf_pair i j : pos i -> pos j -> before i j -> wf_ients [i; j].
Proof.
  intros Hi Hj Hb. apply wf_ients_cons. split; [exact Hi|]. split; [constructor; [exact Hb|constructor]|].
  apply wf_singleton, Hj.
Qed.

Ltac dif := repeat match goal with
  | |- context [if ?c then _ else _] => let E := fresh "E" in destruct c eqn:E; cbn [flat_map app]
  end.
Ltac pieces_leaf :=
  split; [apply sorted_disjb_spec; cbn; unfold posb; cbn; lia
         |repeat constructor; unfold in_span; cbn; lia].

Lemma keep1_pieces_ok a b mode : a < b -> pieces_ok (fun x => x) (keep1 a b mode).
Proof.
  intros Hab i Hp. destruct i as [s e lab]. unfold pos in Hp; simpl in Hp.
  destruct mode; unfold keep1, cut_out, overlapsb; cbn [istart iend ilabel]; dif; pieces_leaf.
Qed.

Definition tau_shrink (a b x : Z) : Z := if x <=? a then x else if x <=? b then a else x - (b - a).

Lemma tau_shrink_mono a b x y : a < b -> x <= y -> tau_shrink a b x <= tau_shrink a b y.
Proof. intros. unfold tau_shrink. dcmp. Qed.

Lemma es1_pieces_ok a b mode : a < b -> pieces_ok (tau_shrink a b) (es1 a b mode).
Proof.
  intros Hab i Hp. destruct i as [s e lab]. unfold pos in Hp; simpl in Hp.
  destruct mode; unfold es1, keep1, cut_out, overlapsb, tau_shrink; cbn [istart iend ilabel];
    dif; unfold shrink1; cbn [istart iend ilabel flat_map app]; dif; pieces_leaf.
Qed.

Lemma keep1_labels a b mode i j : In j (keep1 a b mode i) -> ilabel j = ilabel i.
Proof.
  destruct mode; simpl.
  - unfold cut_out. destruct (overlapsb a b i).
    + destruct (istart i <? a), (b <? iend i); simpl; intuition (subst; reflexivity).
    + intros [<-|[]]; reflexivity.
  - destruct (overlapsb a b i); [intros []|intros [<-|[]]; reflexivity].
  - destruct (overlapsb a b i); [intros []|intros [<-|[]]; reflexivity].
Qed.

Lemma shrink1_labels a b i j : In j (shrink1 a b i) -> ilabel j = ilabel i.
Proof.
  unfold shrink1. destruct (iend i <=? a); [intros [<-|[]]; reflexivity|].
  destruct (b <=? istart i); [intros [<-|[]]; reflexivity|intros []].
Qed.

Lemma es1_labels a b mode i j : In j (es1 a b mode i) -> ilabel j = ilabel i.
Proof.
  unfold es1. intro H. apply in_flat_map in H as (k & Hk & Hj).
  rewrite (shrink1_labels _ _ _ _ Hj). eapply keep1_labels, Hk.
Qed.

(* ---------------- the operation on a well-formed tier ---------------- *)

Definition erase_result_ents (a b : Z) (mode : erasemode) (doShrink : bool) (l : list interval) :=
  if doShrink then join_at a (flat_map (es1 a b mode) l) else flat_map (keep1 a b mode) l.

Theorem erase_i_ok t a b mode doShrink :
  wf_itier t -> a < b -> imin t <= a -> b <= imax t ->
  (mode = EError -> forall i, In i (ients t) -> ~ overlaps a b i) ->
  erase_i t a b mode doShrink =
  Ok (mkIT (iname t) (erase_result_ents a b mode doShrink (ients t))
           (imin t) (if doShrink then imax t - (b - a) else imax t)).
Proof.
  intros Hwf Hab Hmin Hmax Herr. pose proof Hwf as (Hw & Hs & Hl).
  unfold erase_i. destruct (Z.leb_spec b a); [lia|].
  rewrite (copy_itier_wf t Hwf). cbn [bind].
  destruct (erase_keep a b mode (ients t)) as [l1|e] eqn:Ek.
  2:{ exfalso. destruct mode; simpl in Ek; try discriminate.
      destruct (existsb (overlapsb a b) (ients t)) eqn:Ex; [|discriminate].
      apply existsb_exists in Ex as (i & Hi & Ho). apply (Herr eq_refl i Hi).
      unfold overlapsb, overlaps in *. lia. }
  apply erase_keep_flat in Ek. subst l1. cbn [bind]. unfold erase_result_ents.
  destruct doShrink.
  - rewrite flat_map_flat_map. fold (es1 a b mode).
    set (l2 := flat_map (es1 a b mode) (ients t)).
    assert (wf_ients l2) as W2
        by (apply (flat_map_wf (tau_shrink a b)); [intros; apply tau_shrink_mono; assumption|apply es1_pieces_ok, Hab|exact Hw]).
    assert (Forall (in_span (imin t) (imax t - (b - a))) l2) as S2.
    { pose proof (flat_map_in_span (tau_shrink a b) (es1 a b mode) (ients t) (imin t) (imax t)
                    (fun x y => tau_shrink_mono a b x y Hab) (es1_pieces_ok a b mode Hab) (proj1 Hw) Hs) as H'.
      unfold tau_shrink in H'. fold l2 in H'.
      replace (if imin t <=? a then imin t else if imin t <=? b then a else imin t - (b - a)) with (imin t) in H' by dcmp.
      destruct (Z.eq_dec b (imax t)) as [Eb|Nb].
      - replace (if imax t <=? a then imax t else if imax t <=? b then a else imax t - (b - a)) with (imax t - (b - a)) in H' by dcmp.
        exact H'.
      - replace (if imax t <=? a then imax t else if imax t <=? b then a else imax t - (b - a)) with (imax t - (b - a)) in H' by dcmp.
        exact H'. }
    rewrite new_itier_ok.
    + rewrite (hull_min_in_span _ _ _ (join_at_in_span a _ _ _ S2)),
              (hull_max_in_span _ _ _ (join_at_in_span a _ _ _ S2)). reflexivity.
    + apply join_at_wf, W2.
    + apply join_at_stripped. apply labels_stripped_flat_map; [intros i j; apply es1_labels|exact Hl].
  - set (l1 := flat_map (keep1 a b mode) (ients t)).
    assert (wf_ients l1) as W1
        by (apply (flat_map_wf (fun x => x)); [intros; lia|apply keep1_pieces_ok, Hab|exact Hw]).
    assert (Forall (in_span (imin t) (imax t)) l1) as S1
        by (apply (flat_map_in_span (fun x => x)); [intros; lia|apply keep1_pieces_ok, Hab|apply Hw|exact Hs]).
    rewrite new_itier_ok; [|exact W1|apply labels_stripped_flat_map; [intros i j; apply keep1_labels|exact Hl]].
    rewrite (hull_min_in_span _ _ _ S1), (hull_max_in_span _ _ _ S1). reflexivity.
Qed.

(* shrink, truncate: label function *)
Theorem erase_shrink_pointwise a b l x : a < b -> Forall pos l ->
  lab_at (erase_result_ents a b ETruncate true l) x
  = lab_at l (if x <? a then x else x + (b - a)).
Proof.
  intros Hab Hp. unfold erase_result_ents. rewrite join_at_lab.
  - rewrite (lab_at_flat_map_pointwise (es1 a b ETruncate) l false x (if x <? a then x else x + (b - a))); [reflexivity|].
    intros i _. apply es1_trunc_lab, Hab.
  - apply Forall_forall. intros j Hj. apply in_flat_map in Hj as (i & Hi & Hj).
    rewrite Forall_forall in Hp. destruct (es1_pieces_ok a b ETruncate Hab i (Hp i Hi)) as [[Hpp _] _].
    rewrite Forall_forall in Hpp. apply Hpp, Hj.
Qed.

Theorem erase_noshrink_pointwise a b l x : a < b ->
  lab_at (erase_result_ents a b ETruncate false l) x
  = if (a <=? x) && (x <? b) then None else lab_at l x.
Proof. intro Hab. apply erase_keep_pointwise, Hab. Qed.

(* entries strictly before the region are untouched; entries strictly after
   move by exactly b - a *)
Theorem erase_shrink_outside_before a b mode l i : a < b ->
  In i l -> iend i < a -> pos i -> In i (erase_result_ents a b mode true l).
Proof.
  intros Hab Hi He Hp. unfold erase_result_ents.
  apply join_at_members; [|lia|unfold pos in Hp; lia].
  apply in_flat_map. exists i. split; [exact Hi|].
  unfold es1, keep1. assert (overlapsb a b i = false) as Eo by (unfold overlapsb; lia).
  destruct mode; unfold cut_out; rewrite Eo; simpl; unfold shrink1;
    destruct (Z.leb_spec (iend i) a); try lia; left; reflexivity.
Qed.

Theorem erase_shrink_outside_after a b mode l i : a < b ->
  In i l -> b < istart i -> pos i -> In (shift (- (b - a)) i) (erase_result_ents a b mode true l).
Proof.
  intros Hab Hi He Hp. unfold erase_result_ents. unfold pos in Hp.
  apply join_at_members; [|simpl; lia|simpl; lia].
  apply in_flat_map. exists i. split; [exact Hi|].
  unfold es1, keep1. assert (overlapsb a b i = false) as Eo by (unfold overlapsb; lia).
  destruct mode; unfold cut_out; rewrite Eo; simpl; unfold shrink1;
    destruct (Z.leb_spec (iend i) a); try lia;
    destruct (Z.leb_spec b (istart i)); try lia; left; reflexivity.
Qed.

Lemma join_at_skip a k l : iend k <> a -> l <> [] -> join_at a (k :: l) = k :: join_at a l.
Proof.
  intros Hk Hl. destruct l as [|j l]; [congruence|]. cbn [join_at].
  destruct (Z.eqb_spec (iend k) a); [contradiction|reflexivity].
Qed.

(* an interval that straddled the region comes out as one interval shortened by b - a *)
Theorem erase_straddler_one_interval a b l i : a < b -> wf_ients l ->
  In i l -> istart i < a -> b < iend i ->
  In (mkI (istart i) (iend i - (b - a)) (ilabel i)) (erase_result_ents a b ETruncate true l).
Proof.
  intros Hab Hw Hi Hs He.
  destruct (wf_ients_split l i Hw Hi) as (l1 & l2 & -> & B1 & B2 & W1 & W2).
  unfold erase_result_ents. rewrite flat_map_app. cbn [flat_map].
  assert (es1 a b ETruncate i = [mkI (istart i) a (ilabel i); mkI a (iend i - (b - a)) (ilabel i)]) as ->.
  { unfold es1, keep1, cut_out, overlapsb.
    destruct (Z.ltb_spec (istart i) b); [|lia]. destruct (Z.ltb_spec a (iend i)); [|lia]. simpl.
    destruct (Z.ltb_spec (istart i) a); [|lia]. destruct (Z.ltb_spec b (iend i)); [|lia]. simpl.
    unfold shrink1; simpl. destruct (Z.leb_spec a a); [|lia]. destruct (Z.leb_spec (iend i) a); [lia|].
    destruct (Z.leb_spec b b); [|lia]. simpl. unfold shift; simpl. repeat f_equal; lia. }
  (* nothing in the prefix ends at a *)
  assert (Forall (fun k => iend k <> a) (flat_map (es1 a b ETruncate) l1)) as Hpre.
  { apply Forall_forall. intros k Hk. apply in_flat_map in Hk as (j & Hj & Hk).
    rewrite Forall_forall in B1. specialize (B1 j Hj). unfold before in B1.
    destruct W1 as [P1 _]. rewrite Forall_forall in P1. specialize (P1 j Hj). unfold pos in P1.
    unfold es1, keep1, cut_out, overlapsb in Hk.
    destruct (Z.ltb_spec (istart j) b); [|lia]. destruct (Z.ltb_spec a (iend j)); [lia|]. simpl in Hk.
    unfold shrink1 in Hk. destruct (Z.leb_spec (iend j) a); [|lia]. simpl in Hk. destruct Hk as [<-|[]]. lia. }
  set (pre := flat_map (es1 a b ETruncate) l1) in *. set (post := flat_map (es1 a b ETruncate) l2).
  clearbody pre post. induction pre as [|k pre IH].
  - simpl. rewrite Z.eqb_refl, text_eqb_refl. simpl. left. reflexivity.
  - inversion Hpre as [|? ? Hk Hpre']; subst. simpl app.
    rewrite join_at_skip; [right; apply IH, Hpre'|exact Hk|destruct pre; discriminate].
Qed.

(* ---------------- point tiers ---------------- *)

Theorem erase_p_members t a b t' p :
  erase_p t a b false = Ok t' -> In p (pents t') -> ~ (a <= ptime p <= b).
Proof.
  unfold erase_p. destruct (copy_ptier t) as [t0|] eqn:E0; [|discriminate]. cbn [bind].
  destruct (b <=? a); [discriminate|]. intros [= <-]. simpl. rewrite filter_In.
  unfold in_windowb. intros [_ H]. lia.
Qed.

(* ---------------- non-vacuity ---------------- *)

Example erase_example_tier : itier :=
  mkIT [97%N] [mkI 0 2 [120%N]; mkI 2 8 [121%N]; mkI 9 10 [122%N]] 0 10.
Example erase_example_wf : wf_itier erase_example_tier.
Proof. apply wf_itierb_spec. vm_compute. reflexivity. Qed.
Example erase_example_run :
  erase_i erase_example_tier 3 5 ETruncate true
  = Ok (mkIT [97%N] [mkI 0 2 [120%N]; mkI 2 6 [121%N]; mkI 7 8 [122%N]] 0 8).
Proof. vm_compute. reflexivity. Qed.

(* no shrinking: no condition on where the region lies *)
Theorem erase_i_keep_ok t a b mode :
  wf_itier t -> a < b ->
  (mode = EError -> forall i, In i (ients t) -> ~ overlaps a b i) ->
  erase_i t a b mode false =
  Ok (mkIT (iname t) (flat_map (keep1 a b mode) (ients t)) (imin t) (imax t)).
Proof.
  intros Hwf Hab Herr. pose proof Hwf as (Hw & Hs & Hl).
  unfold erase_i. destruct (Z.leb_spec b a); [lia|].
  rewrite (copy_itier_wf t Hwf). cbn [bind].
  destruct (erase_keep a b mode (ients t)) as [l1|e] eqn:Ek.
  2:{ exfalso. destruct mode; simpl in Ek; try discriminate.
      destruct (existsb (overlapsb a b) (ients t)) eqn:Ex; [|discriminate].
      apply existsb_exists in Ex as (i & Hi & Ho). apply (Herr eq_refl i Hi).
      unfold overlapsb, overlaps in *. lia. }
  apply erase_keep_flat in Ek. subst l1. cbn [bind].
  set (l1 := flat_map (keep1 a b mode) (ients t)).
  assert (wf_ients l1) as W1
      by (apply (flat_map_wf (fun x => x)); [intros; lia|apply keep1_pieces_ok, Hab|exact Hw]).
  assert (Forall (in_span (imin t) (imax t)) l1) as S1
      by (apply (flat_map_in_span (fun x => x)); [intros; lia|apply keep1_pieces_ok, Hab|apply Hw|exact Hs]).
  rewrite new_itier_ok; [|exact W1|apply labels_stripped_flat_map; [intros i j; apply keep1_labels|exact Hl]].
  rewrite (hull_min_in_span _ _ _ S1), (hull_max_in_span _ _ _ S1). reflexivity.
Qed.
