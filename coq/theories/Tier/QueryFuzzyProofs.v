(* Tier/QueryFuzzyProofs.v -- C15: fuzzy getValueAtTime / getValuesAtPoints return the nearest sample.

   The loop of utils.getValueAtTime(fuzzyMatching=True) walks a list sorted by time, keeps the best row
   so far and stops as soon as the distance grows.  On a strictly time-sorted series the distance to
   the target is unimodal, so stopping early loses nothing: the row returned is a row of the series,
   no row is nearer to the target, and of two rows at the same distance the earlier one is returned. *)
From PraatIO Require Import Tier.QueryModel.

Local Arguments Z.abs : simpl never.

Definition dist (t : Z) (r : row) : Z := Z.abs (fst r - t).

(* r is a nearest row among best :: l, the earlier one on a tie *)
Definition nearest_of (t : Z) (best : row) (l : list row) (r : row) : Prop :=
  (r = best \/ In r l) /\
  forall r', r' = best \/ In r' l ->
    dist t r <= dist t r' /\ (dist t r = dist t r' -> fst r <= fst r').

Lemma sorted_head_lt (a : Z) (l : list row) :
  StronglySorted Z.lt (a :: map fst l) -> forall x, In x l -> a < fst x.
Proof.
  intros H x Hx. apply StronglySorted_inv in H. destruct H as [_ H].
  rewrite Forall_forall in H. apply H. apply in_map. exact Hx.
Qed.

Lemma sorted_drop_second (a b : Z) (l : list Z) :
  StronglySorted Z.lt (a :: b :: l) -> StronglySorted Z.lt (a :: l).
Proof.
  intros H. apply StronglySorted_inv in H. destruct H as [H1 H2].
  apply StronglySorted_inv in H1. destruct H1 as [H1 _].
  constructor; [exact H1|]. inversion H2; assumption.
Qed.

Lemma vat_fuzzy_nearest t : forall l best i,
  StronglySorted Z.lt (fst best :: map fst l) ->
  nearest_of t best l (fst (vat_fuzzy t best l i)).
Proof.
  induction l as [|r l IH]; intros best i Hs.
  - cbn [vat_fuzzy fst]. split; [left; reflexivity|].
    intros r' [->|[]]. split; intros; reflexivity || apply Z.le_refl.
  - cbn [vat_fuzzy].
    pose proof (sorted_head_lt _ _ Hs) as Hbest. cbn [map] in Hs.
    assert (Hbr : fst best < fst r) by (apply Hbest; left; reflexivity).
    assert (Hs' : StronglySorted Z.lt (fst r :: map fst l))
      by (apply StronglySorted_inv in Hs; tauto).
    pose proof (sorted_head_lt _ _ Hs') as Hr.
    destruct (Z.abs (fst r - t) <? Z.abs (fst best - t)) eqn:E1.
    + destruct (Z.abs (fst r - t) =? 0) eqn:E0.
      * (* perfect match: r *)
        cbn [fst]. split; [right; left; reflexivity|].
        intros r' Hr'. unfold dist. split; [lia|].
        intros Heq. destruct Hr' as [->|[<-|Hin]]; [lia|lia|].
        specialize (Hr _ Hin). lia.
      * (* r becomes the best; recurse *)
        specialize (IH r (S i) Hs'). destruct IH as [Hmem Hmin].
        split; [destruct Hmem as [->|Hin]; right; [left; reflexivity|right; exact Hin]|].
        intros r' Hr'.
        destruct (Hmin r (or_introl eq_refl)) as [Hle _].
        destruct Hr' as [->|[<-|Hin]].
        -- unfold dist in *. split; [lia|lia].
        -- apply Hmin. left; reflexivity.
        -- apply Hmin. right; exact Hin.
    + destruct (Z.abs (fst best - t) <? Z.abs (fst r - t)) eqn:E2.
      * (* past the best value: best *)
        cbn [fst]. split; [left; reflexivity|].
        intros r' Hr'. unfold dist.
        destruct Hr' as [->|[<-|Hin]]; [lia|lia|].
        specialize (Hr _ Hin). lia.
      * (* equal distance: keep the earlier row, go on *)
        assert (Hs2 : StronglySorted Z.lt (fst best :: map fst l))
          by (apply sorted_drop_second with (b := fst r); exact Hs).
        specialize (IH best (S i) Hs2). destruct IH as [Hmem Hmin].
        assert (Hres : fst (vat_fuzzy t best l (S i)) = best).
        { destruct Hmem as [H|Hin]; [exact H|].
          destruct (Hmin best (or_introl eq_refl)) as [Hle _].
          specialize (Hr _ Hin). unfold dist in Hle. lia. }
        rewrite Hres. split; [left; reflexivity|].
        intros r' Hr'. unfold dist.
        destruct Hr' as [->|[<-|Hin]]; [lia|lia|].
        specialize (Hr _ Hin). lia.
Qed.

(* the call as made by the source: the first row is both the initial best and the first row scanned *)
Lemma vat_fuzzy_first t r0 l i :
  vat_fuzzy t r0 (r0 :: l) i = vat_fuzzy t r0 l (S i).
Proof. cbn [vat_fuzzy]. rewrite Z.ltb_irrefl. reflexivity. Qed.

Theorem value_at_fuzzy_nearest t data start r i :
  StronglySorted Z.lt (map fst (skipn start data)) ->
  value_at_fuzzy t data start = Ok (r, i) ->
  In r (skipn start data) /\
  forall r', In r' (skipn start data) ->
    dist t r <= dist t r' /\ (dist t r = dist t r' -> fst r <= fst r').
Proof.
  unfold value_at_fuzzy, row in *. destruct (skipn start data) as [|r0 l] eqn:E; [intros _ H; discriminate H|].
  intros Hs H. pose proof (vat_fuzzy_first t r0 l start) as Hf. unfold row in Hf. rewrite Hf in H. clear Hf.
  assert (H' : vat_fuzzy t r0 l (S start) = (r, i)) by congruence. clear H. rename H' into H.
  pose proof (vat_fuzzy_nearest t l r0 (S start) Hs) as [Hmem Hmin].
  rewrite H in Hmem, Hmin. cbn [fst] in Hmem, Hmin.
  split.
  - destruct Hmem as [->|Hin]; [left; reflexivity|right; exact Hin].
  - intros r' [<-|Hin]; apply Hmin; [left; reflexivity|right; exact Hin].
Qed.

Theorem value_at_fuzzy_fails_iff t data start :
  (exists e, value_at_fuzzy t data start = Err e) <-> skipn start data = [].
Proof.
  unfold value_at_fuzzy, row in *. destruct (skipn start data); split; intros H.
  - reflexivity.
  - eexists; reflexivity.
  - destruct H as [e H]. discriminate.
  - discriminate.
Qed.

(* a target that is a sample time gets that sample *)
Corollary value_at_fuzzy_exact_hit t data start r i r' :
  StronglySorted Z.lt (map fst (skipn start data)) ->
  value_at_fuzzy t data start = Ok (r, i) ->
  In r' (skipn start data) -> fst r' = t -> fst r = t.
Proof.
  intros Hs H Hin Ht. destruct (value_at_fuzzy_nearest _ _ _ _ _ Hs H) as [_ Hmin].
  destruct (Hmin _ Hin) as [Hle _]. unfold dist in Hle. lia.
Qed.

(* non-vacuity: a series, a target between two samples, a tie *)
Example fuzzy_somewhere :
  value_at_fuzzy 7 [(0, 10); (4, 11); (10, 12); (20, 13)] 0 = Ok ((4, 11), 2%nat) /\
  value_at_fuzzy 8 [(0, 10); (4, 11); (10, 12); (20, 13)] 0 = Ok ((10, 12), 2%nat) /\
  StronglySorted Z.lt (map fst (skipn 0 [(0, 10); (4, 11); (10, 12); (20, 13)])).
Proof.
  split; [vm_compute; reflexivity|]. split; [vm_compute; reflexivity|].
  cbn [skipn map fst]. repeat (constructor; [|repeat (constructor; try lia)]). constructor.
Qed.
