(* Tier/QueryFuzzyProofs.v -- C15: fuzzy getValueAtTime / getValuesAtPoints return the nearest sample.

   The loop of utils.getValueAtTime(fuzzyMatching=True) walks a list sorted by time, keeps the best row
   so far and stops as soon as the distance grows.  On a strictly time-sorted series the distance to
   the target is unimodal, so stopping early loses nothing: the row returned is a row of the series,
   no row is nearer to the target, and of two rows at the same distance the earlier one is returned. *)
From PraatIO Require Import Tier.QueryModel.

Local Arguments Z.abs : simpl never.

Definition dist (t : Z) (r : row) : Z := Z.abs (fst r - t).

(* r is a nearest row among best :: l, the earlier one on a tie *)
Definition nearest_of (t : Z) (best : row) (l : list row) (r : row) : Prop :=
  (r = best \/ In r l) /\
  forall r', r' = best \/ In r' l ->
    dist t r <= dist t r' /\ (dist t r = dist t r' -> fst r <= fst r').

Lemma sorted_head_lt (a : Z) (l : list row) :
  StronglySorted Z.lt (a :: map fst l) -> forall x, In x l -> a < fst x.
Proof.
  intros H x Hx. apply StronglySorted_inv in H. destruct H as [_ H].
  rewrite Forall_forall in H. apply H. apply in_map. exact Hx.
Qed.

Lemma sorted_drop_second (a b : Z) (l : list Z) :
  StronglySorted Z.lt (a :: b :: l) -> StronglySorted Z.lt (a :: l).
Proof.
  intros H. apply StronglySorted_inv in H. destruct H as [H1 H2].
  apply StronglySorted_inv in H1. destruct H1 as [H1 _].
  constructor; [exact H1|]. inversion H2; assumption.
Qed.

Lemma vat_fuzzy_nearest t : forall l best i,
  StronglySorted Z.lt (fst best :: map fst l) ->
  nearest_of t best l (fst (vat_fuzzy t best l i)).
Proof.
  induction l as [|r l IH]; intros best i Hs.
  - cbn [vat_fuzzy fst]. split; [left; reflexivity|].
    intros r' [->|[]]. split; intros; reflexivity || apply Z.le_refl.
  - cbn [vat_fuzzy].
    pose proof (sorted_head_lt _ _ Hs) as Hbest. cbn [map] in Hs.
    assert (Hbr : fst best < fst r) by (apply Hbest; left; reflexivity).
    assert (Hs' : StronglySorted Z.lt (fst r :: map fst l))
      by (apply StronglySorted_inv in Hs; tauto).
    pose proof (sorted_head_lt _ _ Hs') as Hr.
    destruct (Z.abs (fst r - t) <? Z.abs (fst best - t)) eqn:E1.
    + destruct (Z.abs (fst r - t) =? 0) eqn:E0.
      * (* perfect match: r *)
        cbn [fst]. split; [right; left; reflexivity|].
        intros r' Hr'. unfold dist. split; [lia|].
        intros Heq. destruct Hr' as [->|[<-|Hin]]; [lia|lia|].
        specialize (Hr _ Hin). lia.
      * (* r becomes the best; recurse *)
        specialize (IH r (S i) Hs'). destruct IH as [Hmem Hmin].
        split; [destruct Hmem as [->|Hin]; right; [left; reflexivity|right; exact Hin]|].
        intros r' Hr'.
        destruct (Hmin r (or_introl eq_refl)) as [Hle _].
        destruct Hr' as [->|[<-|Hin]].
        -- unfold dist in *. split; [lia|lia].
        -- apply Hmin. left; reflexivity.
        -- apply Hmin. right; exact Hin.
    + destruct (Z.abs (fst best - t) <? Z.abs (fst r - t)) eqn:E2.
      * (* past the best value: best *)
        cbn [fst]. split; [left; reflexivity|].
        intros r' Hr'. unfold dist.
        destruct Hr' as [->|[<-|Hin]]; [lia|lia|].
        specialize (Hr _ Hin). lia.
      * (* equal distance: keep the earlier row, go on *)
        assert (Hs2 : StronglySorted Z.lt (fst best :: map fst l))
          by (apply sorted_drop_second with (b := fst r); exact Hs).
        specialize (IH best (S i) Hs2). destruct IH as [Hmem Hmin].
        assert (Hres : fst (vat_fuzzy t best l (S i)) = best).
        { destruct Hmem as [H|Hin]; [exact H|].
          destruct (Hmin best (or_introl eq_refl)) as [Hle _].
          specialize (Hr _ Hin). unfold dist in Hle. lia. }
        rewrite Hres. split; [left; reflexivity|].
        intros r' Hr'. unfold dist.
        destruct Hr' as [->|[<-|Hin]]; [lia|lia|].
        specialize (Hr _ Hin). lia.
Qed.

(* the call as made by the source: the first row is both the initial best and the first row scanned *)
Lemma vat_fuzzy_first t r0 l i :
  vat_fuzzy t r0 (r0 :: l) i = vat_fuzzy t r0 l (S i).
Proof. cbn [vat_fuzzy]. rewrite Z.ltb_irrefl. reflexivity. Qed.

Theorem value_at_fuzzy_nearest t data start r i :
  StronglySorted Z.lt (map fst (skipn start data)) ->
  value_at_fuzzy t data start = Ok (r, i) ->
  In r (skipn start data) /\
  forall r', In r' (skipn start data) ->
    dist t r <= dist t r' /\ (dist t r = dist t r' -> fst r <= fst r').
Proof.
  unfold value_at_fuzzy, row in *. destruct (skipn start data) as [|r0 l] eqn:E; [intros _ H; discriminate H|].
  intros Hs H. pose proof (vat_fuzzy_first t r0 l start) as Hf. unfold row in Hf. rewrite Hf in H. clear Hf.
  assert (H' : vat_fuzzy t r0 l (S start) = (r, i)) by congruence. clear H. rename H' into H.
  pose proof (vat_fuzzy_nearest t l r0 (S start) Hs) as [Hmem Hmin].
  rewrite H in Hmem, Hmin. cbn [fst] in Hmem, Hmin.
  split.
  - destruct Hmem as [->|Hin]; [left; reflexivity|right; exact Hin].
  - intros r' [<-|Hin]; apply Hmin; [left; reflexivity|right; exact Hin].
Qed.

Theorem value_at_fuzzy_fails_iff t data start :
  (exists e, value_at_fuzzy t data start = Err e) <-> skipn start data = [].
Proof.
  unfold value_at_fuzzy, row in *. destruct (skipn start data); split; intros H.
  - reflexivity.
  - eexists; reflexivity.
  - destruct H as [e H]. discriminate.
  - discriminate.
Qed.

(* a target that is a sample time gets that sample *)
Corollary value_at_fuzzy_exact_hit t data start r i r' :
  StronglySorted Z.lt (map fst (skipn start data)) ->
  value_at_fuzzy t data start = Ok (r, i) ->
  In r' (skipn start data) -> fst r' = t -> fst r = t.
Proof.
  intros Hs H Hin Ht. destruct (value_at_fuzzy_nearest _ _ _ _ _ Hs H) as [_ Hmin].
  destruct (Hmin _ Hin) as [Hle _]. unfold dist in Hle. lia.
Qed.

(* non-vacuity: a series, a target between two samples, a tie *)
Example fuzzy_somewhere :
  value_at_fuzzy 7 [(0, 10); (4, 11); (10, 12); (20, 13)] 0 = Ok ((4, 11), 2%nat) /\
  value_at_fuzzy 8 [(0, 10); (4, 11); (10, 12); (20, 13)] 0 = Ok ((10, 12), 2%nat) /\
  StronglySorted Z.lt (map fst (skipn 0 [(0, 10); (4, 11); (10, 12); (20, 13)])).
Proof.
  split; [vm_compute; reflexivity|]. split; [vm_compute; reflexivity|].
  cbn [skipn map fst]. repeat (constructor; [|repeat (constructor; try lia)]). constructor.
Qed.

(* ---------------- the loop of getValuesAtPoints: start index handed from point to point ---------------- *)

(* x lies as far after the target as r lies before it *)
Definition tie (t : Z) (r x : row) : Prop := dist t x = dist t r /\ fst r < fst x.

(* the rows scanned so far end with the best row, or with the best row followed by a tie *)
Definition scan_state (t : Z) (pre : list row) (best : row) : Prop :=
  (exists p0, pre = p0 ++ [best]) \/ (exists p0 e, pre = p0 ++ [best; e] /\ tie t best e).

Lemma sorted_app_lt (a b : list row) :
  StronglySorted Z.lt (map fst (a ++ b)) -> forall x y, In x a -> In y b -> fst x < fst y.
Proof.
  induction a as [|h a IH]; intros Hs x y Hx Hy; [destruct Hx|].
  cbn [app map] in Hs. apply StronglySorted_inv in Hs. destruct Hs as [Hs Hall].
  destruct Hx as [<-|Hx]; [|exact (IH Hs x y Hx Hy)].
  rewrite Forall_forall in Hall. apply Hall. apply in_map. apply in_or_app. right. exact Hy.
Qed.

(* where the scan stops: the rows before the returned index are not later than the returned row, and the
   rows from the returned index on contain the returned row or a row tied with it *)
Ltac pred_lia :=
  match goal with
  | H : _ = ?i |- context [Init.Nat.pred ?i] =>
      rewrite <- H; rewrite ?Nat.add_succ_r, ?Nat.add_0_r; cbn [Init.Nat.pred]; reflexivity
  end.

Lemma vat_fuzzy_index t : forall l pre best i r j,
  StronglySorted Z.lt (map fst (pre ++ l)) -> length pre = i -> scan_state t pre best ->
  vat_fuzzy t best l i = (r, j) ->
  exists pre' l', pre ++ l = pre' ++ l' /\ length pre' = j /\
    (forall x, In x pre' -> fst x <= fst r) /\
    exists x, In x l' /\ (x = r \/ tie t r x).
Proof.
  induction l as [|r0 l IH]; intros pre best i r j Hs Hlen Hst H.
  - cbn [vat_fuzzy] in H. injection H as <- <-. rewrite app_nil_r in *.
    destruct Hst as [(p0 & ->)|(p0 & e & -> & Ht)].
    + exists p0, [best]. rewrite app_length in Hlen. cbn [length] in Hlen.
      split; [reflexivity|]. split; [pred_lia|]. split.
      * intros x Hx. pose proof (sorted_app_lt _ _ Hs x best Hx (or_introl eq_refl)). lia.
      * exists best. split; [left; reflexivity|left; reflexivity].
    + exists (p0 ++ [best]), [e]. rewrite app_length in Hlen. cbn [length] in Hlen.
      split; [rewrite <- app_assoc; reflexivity|]. split; [rewrite app_length; cbn [length]; pred_lia|]. split.
      * intros x Hx. apply in_app_or in Hx. destruct Hx as [Hx|[<-|[]]]; [|lia].
        pose proof (sorted_app_lt _ _ Hs x best Hx (or_introl eq_refl)). lia.
      * exists e. split; [left; reflexivity|right; exact Ht].
  - cbn [vat_fuzzy] in H.
    assert (Hpre : forall x, In x pre -> fst x < fst r0)
      by (intros x Hx; apply (sorted_app_lt _ _ Hs x r0 Hx); left; reflexivity).
    assert (Hs' : StronglySorted Z.lt (map fst ((pre ++ [r0]) ++ l)))
      by (rewrite <- app_assoc; exact Hs).
    assert (Hlen' : length (pre ++ [r0]) = S i)
      by (rewrite app_length, Hlen; cbn [length]; apply Nat.add_1_r).
    destruct (Z.abs (fst r0 - t) <? Z.abs (fst best - t)) eqn:E1.
    + destruct (Z.abs (fst r0 - t) =? 0) eqn:E0.
      * injection H as <- <-. exists pre, (r0 :: l).
        split; [reflexivity|]. split; [exact Hlen|]. split.
        -- intros x Hx. specialize (Hpre x Hx). lia.
        -- exists r0. split; [left; reflexivity|left; reflexivity].
      * assert (Hst' : scan_state t (pre ++ [r0]) r0) by (left; exists pre; reflexivity).
        destruct (IH _ _ _ _ _ Hs' Hlen' Hst' H) as (pre' & l' & Heq & Hrest).
        exists pre', l'. split; [rewrite <- Heq, <- app_assoc; reflexivity|exact Hrest].
    + destruct (Z.abs (fst best - t) <? Z.abs (fst r0 - t)) eqn:E2.
      * injection H as <- <-.
        destruct Hst as [(p0 & ->)|(p0 & e & -> & Ht)].
        -- exists p0, (best :: r0 :: l). rewrite app_length in Hlen. cbn [length] in Hlen.
           split; [rewrite <- app_assoc; reflexivity|]. split; [pred_lia|]. split.
           ++ intros x Hx.
              assert (Hs0 : StronglySorted Z.lt (map fst (p0 ++ ([best] ++ r0 :: l))))
                by (rewrite app_assoc; exact Hs).
              pose proof (sorted_app_lt _ _ Hs0 x best Hx (or_introl eq_refl)). lia.
           ++ exists best. split; [left; reflexivity|left; reflexivity].
        -- exists (p0 ++ [best]), (e :: r0 :: l). rewrite app_length in Hlen. cbn [length] in Hlen.
           split; [rewrite <- !app_assoc; reflexivity|]. split; [rewrite app_length; cbn [length]; pred_lia|]. split.
           ++ intros x Hx. apply in_app_or in Hx. destruct Hx as [Hx|[<-|[]]]; [|lia].
              assert (Hs0 : StronglySorted Z.lt (map fst (p0 ++ ([best; e] ++ r0 :: l))))
                by (rewrite app_assoc; exact Hs).
              pose proof (sorted_app_lt _ _ Hs0 x best Hx (or_introl eq_refl)). lia.
           ++ exists e. split; [left; reflexivity|right; exact Ht].
      * (* equal distance *)
        destruct Hst as [(p0 & ->)|(p0 & e & -> & Ht)].
        -- assert (Hst' : scan_state t ((p0 ++ [best]) ++ [r0]) best).
           { right. exists p0, r0. split; [rewrite <- app_assoc; reflexivity|].
             assert (fst best < fst r0) by (apply Hpre; apply in_or_app; right; left; reflexivity).
             unfold tie, dist. split; lia. }
           destruct (IH _ _ _ _ _ Hs' Hlen' Hst' H) as (pre' & l' & Heq & Hrest).
           exists pre', l'. split; [rewrite <- Heq, <- !app_assoc; reflexivity|exact Hrest].
        -- exfalso.
           assert (fst e < fst r0) by (apply Hpre; apply in_or_app; right; right; left; reflexivity).
           unfold tie, dist in Ht. lia.
Qed.

(* dropping the first s rows loses nothing for target t *)
Definition prefix_ok (t : Z) (data : list row) (s : nat) : Prop :=
  forall r', In r' (firstn s data) -> exists x, In x (skipn s data) /\ dist t x <= dist t r'.

(* nearest over the whole series *)
Definition gnearest (t : Z) (data : list row) (r : row) : Prop :=
  In r data /\ forall r', In r' data -> dist t r <= dist t r'.

Lemma split_at_length {A} (pre' l' : list A) :
  firstn (length pre') (pre' ++ l') = pre' /\ skipn (length pre') (pre' ++ l') = l'.
Proof.
  split.
  - rewrite firstn_app, Nat.sub_diag, firstn_all. cbn [firstn]. apply app_nil_r.
  - rewrite skipn_app, Nat.sub_diag, skipn_all. reflexivity.
Qed.

Lemma value_at_fuzzy_step t data s r j :
  StronglySorted Z.lt (map fst data) -> prefix_ok t data s ->
  value_at_fuzzy t data s = Ok (r, j) ->
  gnearest t data r /\ forall t2, t <= t2 -> prefix_ok t2 data j.
Proof.
  intros Hs Hp H.
  assert (Hsk : StronglySorted Z.lt (map fst (skipn s data))).
  { rewrite <- (firstn_skipn s data) in Hs. rewrite map_app in Hs.
    clear - Hs. induction (map fst (firstn s data)) as [|a l IH]; [exact Hs|].
    apply IH. cbn [app] in Hs. apply StronglySorted_inv in Hs. tauto. }
  destruct (value_at_fuzzy_nearest _ _ _ _ _ Hsk H) as [Hin Hmin].
  assert (Hg : gnearest t data r).
  { split.
    - rewrite <- (firstn_skipn s data). apply in_or_app. right. exact Hin.
    - intros r' Hr'. rewrite <- (firstn_skipn s data) in Hr'. apply in_app_or in Hr'.
      destruct Hr' as [Hr'|Hr']; [|apply Hmin; exact Hr'].
      destruct (Hp _ Hr') as (x & Hx & Hle). destruct (Hmin _ Hx) as [Hle' _]. lia. }
  split; [exact Hg|].
  intros t2 Ht2.
  unfold value_at_fuzzy, row in *. destruct (skipn s data) as [|r0 l] eqn:E; [discriminate H|].
  pose proof (vat_fuzzy_first t r0 l s) as Hf. unfold row in Hf. rewrite Hf in H. clear Hf.
  assert (H' : vat_fuzzy t r0 l (S s) = (r, j)) by congruence. clear H.
  assert (Hdata : data = (firstn s data ++ [r0]) ++ l)
    by (rewrite <- app_assoc; cbn [app]; rewrite <- E; symmetry; apply firstn_skipn).
  assert (Hlt : (s < length data)%nat).
  { destruct (Nat.lt_ge_cases s (length data)) as [Hl|Hl]; [exact Hl|].
    rewrite (skipn_all2 _ Hl) in E. discriminate E. }
  assert (Hlen : length (firstn s data ++ [r0]) = S s)
    by (rewrite app_length, firstn_length_le by lia; cbn [length]; lia).
  assert (Hs2 : StronglySorted Z.lt (map fst ((firstn s data ++ [r0]) ++ l)))
    by (rewrite <- Hdata; exact Hs).
  assert (Hst : scan_state t (firstn s data ++ [r0]) r0) by (left; eexists; reflexivity).
  destruct (vat_fuzzy_index t l _ r0 (S s) r j Hs2 Hlen Hst H') as (pre' & l' & Heq & Hj & Hbefore & x & Hx & Hxr).
  unfold row in *. rewrite <- Hdata in Heq. subst j.
  destruct (split_at_length pre' l') as [Hfi Hsk'].
  intros r' Hr'. rewrite Heq in Hr' |- *.
  assert (Hr'' : In r' pre') by (rewrite <- Hfi; exact Hr'). clear Hr'. rename Hr'' into Hr'.
  exists x. split; [rewrite <- Hsk' in Hx; exact Hx|].
  specialize (Hbefore _ Hr').
  destruct Hg as [_ Hg]. assert (Hr'd : In r' data) by (rewrite Heq; apply in_or_app; left; exact Hr').
  specialize (Hg _ Hr'd). unfold dist in *.
  destruct Hxr as [->|[Hd Hl]]; [lia|]. unfold dist in Hd. lia.
Qed.

(* getValuesAtPoints(fuzzyMatching=True) on a time-sorted series and time-ordered points (possibly repeated):
   one row per point, each a row of the series, and no row of the WHOLE series is nearer to its point --
   handing the stop index of one search to the next as its start index loses nothing *)
Theorem gvap_fuzzy_nearest data : forall pts s rows,
  StronglySorted Z.lt (map fst data) -> StronglySorted Z.le pts ->
  (forall t, In t pts -> prefix_ok t data s) ->
  gvap_fuzzy pts data s = Ok rows ->
  Forall2 (fun t r => gnearest t data r) pts rows.
Proof.
  induction pts as [|t pts IH]; intros s rows Hs Hpts Hp H.
  - cbn [gvap_fuzzy] in H. injection H as <-. constructor.
  - cbn [gvap_fuzzy] in H. unfold bind in H.
    destruct (value_at_fuzzy t data s) as [[r j]|e] eqn:E; [|discriminate H].
    cbn [fst snd] in H.
    destruct (gvap_fuzzy pts data j) as [rest|e] eqn:E2; [|discriminate H].
    injection H as <-.
    destruct (value_at_fuzzy_step _ _ _ _ _ Hs (Hp t (or_introl eq_refl)) E) as [Hg Hnext].
    apply StronglySorted_inv in Hpts. destruct Hpts as [Hpts Hall].
    constructor; [exact Hg|].
    apply (IH j rest Hs Hpts); [|exact E2].
    intros t2 Ht2. apply Hnext. rewrite Forall_forall in Hall. apply Hall. exact Ht2.
Qed.

Corollary gvap_fuzzy_nearest_from_start data pts rows :
  StronglySorted Z.lt (map fst data) -> StronglySorted Z.le pts ->
  gvap_fuzzy pts data 0 = Ok rows ->
  Forall2 (fun t r => gnearest t data r) pts rows.
Proof.
  intros Hs Hpts H. apply (gvap_fuzzy_nearest data pts 0%nat rows Hs Hpts); [|exact H].
  intros t _ r' Hr'. cbn [firstn] in Hr'. destruct Hr'.
Qed.

Example gvap_fuzzy_somewhere :
  gvap_fuzzy [7; 7; 8; 30] [(0, 10); (4, 11); (10, 12); (20, 13)] 0
  = Ok [(4, 11); (10, 12); (10, 12); (20, 13)].
Proof. vm_compute. reflexivity. Qed.

(* ---------------- intervalOverlapCheck with a percent threshold ---------------- *)

(* percentThreshold = pn/pd > 0, no time threshold, boundaries not inclusive: the intervals overlap and the overlap is at
   least that fraction of the total extent covered by the two intervals *)
Theorem overlap_check_percent s e cs ce pn pd :
  0 < pn ->
  overlap_check s e cs ce pn pd 0 false
  = (let ot := Z.max 0 (Z.min e ce - Z.max s cs) in
     (0 <? ot) && (pn * (Z.max e ce - Z.min s cs) <=? ot * pd)).
Proof.
  intro H. unfold overlap_check. cbv zeta. change (0 <? 0) with false.
  destruct (Z.ltb_spec 0 pn); [|lia]. cbn [andb]. cbv iota.
  destruct (0 <? Z.max 0 (Z.min e ce - Z.max s cs)); cbn [andb orb].
  - destruct (pn * (Z.max e ce - Z.min s cs) <=? Z.max 0 (Z.min e ce - Z.max s cs) * pd); reflexivity.
  - reflexivity.
Qed.

(* both thresholds given: the result is the percent condition alone -- once the fraction is reached the final
   disjunction of the source (overlapFlag or ... or percentOverlapFlag or timeOverlapFlag) returns True whatever the
   time threshold says; when it is not reached the time threshold is not consulted.  (An observation about the
   unchanged code, recorded in DESIGN.md; C15 does not say how the two thresholds combine.) *)
Theorem overlap_check_percent_and_time s e cs ce pn pd th :
  0 < pn -> 0 < th ->
  overlap_check s e cs ce pn pd th false = overlap_check s e cs ce pn pd 0 false.
Proof.
  intros H H'. rewrite overlap_check_percent by exact H. unfold overlap_check. cbv zeta.
  destruct (Z.ltb_spec 0 pn); [|lia]. destruct (Z.ltb_spec 0 th); [|lia]. cbn [andb]. cbv iota.
  destruct (0 <? Z.max 0 (Z.min e ce - Z.max s cs)); cbn [andb orb]; [|reflexivity].
  destruct (pn * (Z.max e ce - Z.min s cs) <=? Z.max 0 (Z.min e ce - Z.max s cs) * pd); cbn [andb orb]; [|reflexivity].
  destruct (th <=? Z.max 0 (Z.min e ce - Z.max s cs)); reflexivity.
Qed.
