(* Tier/CropProofs.v -- C06: crop keeps exactly the annotation inside the
   window, per mode; span and rebasing; totality on well-formed tiers. *)
From PraatIO Require Import Tier.TierModel Tier.CtorProofs.

(* ---------------- specification (written from the property text) -------- *)

Definition crop_spec_ents (a b : Z) (mode : cropmode) (l : list interval) : list interval :=
  match mode with
  | Strict => filter (insideb a b) l
  | Lax => filter (overlapsb a b) l
  | Truncated => map (clip a b) (filter (overlapsb a b) l)
  end.

(* amount subtracted when rebasing: the window start, or an earlier-starting
   (lax) first interval *)
Definition rebase_origin (a : Z) (l : list interval) : Z :=
  match l with i0 :: _ => Z.min a (istart i0) | [] => a end.

Definition crop_spec (t : itier) (a b : Z) (mode : cropmode) (rebase : bool) : res itier :=
  if b <=? a then Err ArgumentError else
  let l := crop_spec_ents a b mode (ients t) in
  if rebase then
    let l' := map (shift (- rebase_origin a l)) l in
    Ok (mkIT (iname t) l' (hull_min l' 0) (hull_max l' (b - a)))
  else Ok (mkIT (iname t) l (hull_min l a) (hull_max l b)).

Definition crop_p_spec (t : ptier) (a b : Z) (rebase : bool) : res ptier :=
  if b <=? a then Err ArgumentError else
  let l := filter (in_windowb a b) (pents t) in
  if rebase then Ok (mkPT (pname t) (map (pshift (- a)) l) 0 (b - a))
  else Ok (mkPT (pname t) l a b).

(* ---------------- the per-entry kernel ---------------- *)

Lemma giii1_strict a b i : pos i -> a < b ->
  giii1 a b Strict i = if insideb a b i then Some i else None.
Proof.
  destruct i as [s e lab]. unfold pos, giii1, insideb; simpl. intros Hp Hab.
  dcmp; reflexivity.
Qed.

Lemma giii1_lax a b i : pos i -> a < b ->
  giii1 a b Lax i = if overlapsb a b i then Some i else None.
Proof.
  destruct i as [s e lab]. unfold pos, giii1, overlapsb; simpl. intros Hp Hab.
  dcmp; reflexivity.
Qed.

Lemma giii1_trunc a b i : pos i -> a < b ->
  giii1 a b Truncated i = if overlapsb a b i then Some (clip a b i) else None.
Proof.
  destruct i as [s e lab]. unfold pos, giii1, overlapsb, clip; simpl. intros Hp Hab.
  dcmp; try reflexivity; f_equal; f_equal; lia.
Qed.

Lemma filter_map_if {A B} (p : A -> bool) (g : A -> B) l :
  filter_map (fun x => if p x then Some (g x) else None) l = map g (filter p l).
Proof. apply filter_map_filter_map_filter. reflexivity. Qed.

Lemma map_id' {A} (l : list A) : map (fun x => x) l = l.
Proof. apply map_id. Qed.

Theorem giii_spec a b mode l :
  Forall pos l -> a < b -> giii a b mode l = crop_spec_ents a b mode l.
Proof.
  intros Hp Hab. unfold giii. destruct mode; simpl.
  - rewrite (filter_map_ext_Forall pos _ (fun i => if insideb a b i then Some i else None) l Hp)
      by (intros; apply giii1_strict; assumption).
    rewrite (filter_map_if (insideb a b) (fun i => i)). apply map_id.
  - rewrite (filter_map_ext_Forall pos _ (fun i => if overlapsb a b i then Some i else None) l Hp)
      by (intros; apply giii1_lax; assumption).
    rewrite (filter_map_if (overlapsb a b) (fun i => i)). apply map_id.
  - rewrite (filter_map_ext_Forall pos _ (fun i => if overlapsb a b i then Some (clip a b i) else None) l Hp)
      by (intros; apply giii1_trunc; assumption).
    apply filter_map_if.
Qed.

(* ---------------- well-formedness of the kept entries ---------------- *)

Lemma crop_spec_ents_wf a b mode l : a < b -> wf_ients l -> wf_ients (crop_spec_ents a b mode l).
Proof.
  intros Hab Hw. destruct mode; simpl; try (apply wf_ients_filter, Hw).
  rewrite <- flat_map_singleton_filter.
  apply (flat_map_wf (fun x => Z.max a (Z.min b x))); [intros; lia| |exact Hw].
  intros i Hp. unfold overlapsb. destruct ((istart i <? b) && (a <? iend i)) eqn:E.
  - split.
    + apply wf_ients_cons. split; [unfold pos, clip in *; simpl; lia|]. split; [constructor|apply wf_ients_nil].
    + constructor; [|constructor]. unfold in_span, clip; simpl. lia.
  - split; [apply wf_ients_nil|constructor].
Qed.

Lemma crop_spec_ents_stripped a b mode l : labels_stripped l -> labels_stripped (crop_spec_ents a b mode l).
Proof.
  intro H. destruct mode; simpl; try (apply labels_stripped_filter, H).
  apply labels_stripped_map; [reflexivity|]. apply labels_stripped_filter, H.
Qed.

(* ---------------- main theorem: model = specification on wf tiers ------- *)

Theorem crop_i_spec t a b mode rebase :
  wf_itier t -> crop_i t a b mode rebase = crop_spec t a b mode rebase.
Proof.
  intros (Hw & Hs & Hl). unfold crop_i, crop_spec.
  destruct (Z.leb_spec b a) as [|Hab]; [reflexivity|].
  rewrite (giii_spec a b mode (ients t) (proj1 Hw) Hab).
  set (l := crop_spec_ents a b mode (ients t)).
  assert (wf_ients l) as Hwl by (apply crop_spec_ents_wf; assumption).
  assert (labels_stripped l) as Hsl by (apply crop_spec_ents_stripped; assumption).
  destruct rebase.
  - assert ((match l with i0 :: _ => if istart i0 <? a then istart i0 else a | [] => a end)
            = rebase_origin a l) as ->.
    { unfold rebase_origin. destruct l as [|i0 l']; [reflexivity|]. dcmp. }
    apply new_itier_ok; [apply wf_ients_shift, Hwl|].
    apply labels_stripped_map; [reflexivity|exact Hsl].
  - apply new_itier_ok; assumption.
Qed.

(* ---------------- consequences stated by the property ---------------- *)

(* truncated mode: the result is labelled exactly where the tier is labelled
   inside the window *)
Theorem crop_trunc_pointwise a b l x :
  lab_at (crop_spec_ents a b Truncated l) x
  = if (a <=? x) && (x <? b) then lab_at l x else None.
Proof.
  simpl. induction l as [|i l IH]; simpl; [destruct ((a <=? x) && (x <? b)); reflexivity|].
  unfold overlapsb at 1. destruct ((istart i <? b) && (a <? iend i)) eqn:E; simpl; rewrite IH.
  - unfold coversb, clip; simpl.
    destruct ((a <=? x) && (x <? b)) eqn:Ew.
    + assert ((Z.max a (istart i) <=? x) && (x <? Z.min b (iend i)) = (istart i <=? x) && (x <? iend i)) as -> by lia.
      reflexivity.
    + assert ((Z.max a (istart i) <=? x) && (x <? Z.min b (iend i)) = false) as -> by lia. reflexivity.
  - destruct ((a <=? x) && (x <? b)) eqn:Ew; [|reflexivity].
    unfold coversb. assert ((istart i <=? x) && (x <? iend i) = false) as -> by lia. reflexivity.
Qed.

(* strict / lax keep entries unchanged: exactly the inside / overlapping ones *)
Theorem crop_strict_members a b l i :
  In i (crop_spec_ents a b Strict l) <-> In i l /\ inside a b i.
Proof. simpl. rewrite filter_In. unfold insideb, inside. intuition lia. Qed.

Theorem crop_lax_members a b l i :
  In i (crop_spec_ents a b Lax l) <-> In i l /\ overlaps a b i.
Proof. simpl. rewrite filter_In. unfold overlapsb, overlaps. intuition lia. Qed.

(* span without rebasing is [a,b] in strict and truncated mode *)
Lemma crop_ents_in_window a b mode l :
  mode <> Lax -> Forall (in_span a b) (crop_spec_ents a b mode l).
Proof.
  intro Hm. apply Forall_forall. intros i Hi. destruct mode; [|congruence|].
  - apply crop_strict_members in Hi as [_ H]. exact H.
  - simpl in Hi. apply in_map_iff in Hi as (j & <- & Hj). apply filter_In in Hj as [_ Hj].
    unfold overlapsb in Hj. unfold in_span, clip; simpl. lia.
Qed.

Theorem crop_span_norebase t a b mode t' :
  wf_itier t -> mode <> Lax -> crop_i t a b mode false = Ok t' -> imin t' = a /\ imax t' = b.
Proof.
  intros Hwf Hm. rewrite (crop_i_spec _ _ _ _ _ Hwf). unfold crop_spec.
  destruct (b <=? a); [discriminate|]. intros [= <-]. simpl.
  pose proof (crop_ents_in_window a b mode (ients t) Hm) as H.
  split; [eapply hull_min_in_span|eapply hull_max_in_span]; exact H.
Qed.

(* lax: widened just enough *)
Theorem crop_span_lax t a b t' :
  wf_itier t -> crop_i t a b Lax false = Ok t' ->
  imin t' <= a /\ b <= imax t' /\ Forall (in_span (imin t') (imax t')) (ients t') /\
  (imin t' = a \/ exists i, In i (ients t') /\ imin t' = istart i) /\
  (imax t' = b \/ exists i, In i (ients t') /\ imax t' = iend i).
Proof.
  intros Hwf. rewrite (crop_i_spec _ _ _ _ _ Hwf). unfold crop_spec.
  destruct (b <=? a); [discriminate|]. intros [= <-]. simpl.
  set (l := filter (overlapsb a b) (ients t)).
  destruct (hull_min_spec l a) as (A1 & A2 & A3). destruct (hull_max_spec l b) as (B1 & B2 & B3).
  repeat split; auto.
  rewrite Forall_forall in *. intros i Hi. split; auto.
Qed.

(* rebasing in strict/truncated mode: shift by a, span [0, b-a] *)
Theorem crop_rebase_window t a b mode t' :
  wf_itier t -> mode <> Lax -> crop_i t a b mode true = Ok t' ->
  ients t' = map (shift (- a)) (crop_spec_ents a b mode (ients t)) /\ imin t' = 0 /\ imax t' = b - a.
Proof.
  intros Hwf Hm. rewrite (crop_i_spec _ _ _ _ _ Hwf). unfold crop_spec.
  destruct (b <=? a); [discriminate|]. intros [= <-]. simpl.
  pose proof (crop_ents_in_window a b mode (ients t) Hm) as H.
  set (l := crop_spec_ents a b mode (ients t)) in *.
  assert (rebase_origin a l = a) as ->.
  { unfold rebase_origin. destruct l as [|i0 l']; [reflexivity|]. inversion H; subst.
    unfold in_span in *. lia. }
  assert (Forall (in_span 0 (b - a)) (map (shift (- a)) l)) as H'.
  { rewrite Forall_forall in *. intros j Hj. apply in_map_iff in Hj as (i & <- & Hi).
    specialize (H i Hi). unfold in_span, shift in *; simpl. lia. }
  split; [reflexivity|]. split; [eapply hull_min_in_span|eapply hull_max_in_span]; exact H'.
Qed.

(* never an error on a wf tier and a proper window (incl. empty result) *)
Theorem crop_total t a b mode rebase :
  wf_itier t -> a < b -> exists t', crop_i t a b mode rebase = Ok t' /\ wf_itier t'.
Proof.
  intros Hwf Hab. destruct (crop_i t a b mode rebase) as [t'|e] eqn:E.
  - exists t'. split; [reflexivity|]. unfold crop_i in E.
    destruct (b <=? a); [discriminate|]. destruct rebase; eapply new_itier_wf; exact E.
  - rewrite (crop_i_spec _ _ _ _ _ Hwf) in E. unfold crop_spec in E.
    destruct (Z.leb_spec b a); [lia|]. destruct rebase; discriminate.
Qed.

Theorem crop_empty_ok t a b mode rebase :
  wf_itier t -> a < b -> crop_spec_ents a b mode (ients t) = [] ->
  crop_i t a b mode rebase =
  Ok (if rebase then mkIT (iname t) [] 0 (b - a) else mkIT (iname t) [] a b).
Proof.
  intros Hwf Hab He. rewrite (crop_i_spec _ _ _ _ _ Hwf). unfold crop_spec.
  destruct (Z.leb_spec b a); [lia|]. rewrite He. destruct rebase; reflexivity.
Qed.

Theorem crop_degenerate t a b mode rebase : b <= a -> crop_i t a b mode rebase = Err ArgumentError.
Proof. intro H. unfold crop_i. destruct (Z.leb_spec b a); [reflexivity|lia]. Qed.

(* ---------------- point tiers ---------------- *)

Definition wf_ptier_strict (t : ptier) : Prop :=
  StronglySorted (lebP pleb) (pents t) /\ Forall (fun p => stripped (plabel p)) (pents t).

Lemma map_strip_p_id l : Forall (fun p => stripped (plabel p)) l -> map strip_p l = l.
Proof.
  induction 1 as [|p l Hp _ IH]; simpl; [reflexivity|].
  rewrite IH. f_equal. destruct p; unfold strip_p; simpl in *. now rewrite Hp.
Qed.

Lemma homog_p_id l :
  StronglySorted (lebP pleb) l -> Forall (fun p => stripped (plabel p)) l -> homog_p l = l.
Proof. intros Hs Hl. unfold homog_p. rewrite map_strip_p_id by exact Hl. apply isort_sorted_id, Hs. Qed.

Lemma pleb_sorted_filter p l : StronglySorted (lebP pleb) l -> StronglySorted (lebP pleb) (filter p l).
Proof.
  induction 1 as [|x l Hs IH Hall]; simpl; [constructor|].
  destruct (p x); [|exact IH]. constructor; [exact IH|].
  rewrite Forall_forall in *. intros y Hy. apply filter_In in Hy as [Hy _]. auto.
Qed.

Lemma pleb_shift d p q : pleb (pshift d p) (pshift d q) = pleb p q.
Proof.
  unfold pleb, pcmp, pshift; simpl.
  assert ((ptime p + d ?= ptime q + d) = (ptime p ?= ptime q)) as -> by (rewrite (Z.add_comm (ptime p)), (Z.add_comm (ptime q)); apply Z.add_compare_mono_l).
  reflexivity.
Qed.

Lemma pleb_sorted_shift d l : StronglySorted (lebP pleb) l -> StronglySorted (lebP pleb) (map (pshift d) l).
Proof.
  induction 1 as [|x l Hs IH Hall]; simpl; constructor; [exact IH|].
  rewrite Forall_forall in *. intros y Hy. apply in_map_iff in Hy as (z & <- & Hz).
  unfold lebP. rewrite pleb_shift. apply Hall, Hz.
Qed.

Lemma new_ptier_ok name l mn mx :
  StronglySorted (lebP pleb) l -> Forall (fun p => stripped (plabel p)) l ->
  Forall (fun p => mn <= ptime p <= mx) l -> mn <= mx ->
  new_ptier name l (Some mn) (Some mx) = Ok (mkPT name l mn mx).
Proof.
  intros Hs Hl Hb Hmm. unfold new_ptier. rewrite (homog_p_id l Hs Hl). simpl opt_list.
  set (all := map ptime l ++ [mn] ++ [mx]).
  assert (In mn all) as Imn by (unfold all; apply in_or_app; right; left; reflexivity).
  assert (In mx all) as Imx by (unfold all; apply in_or_app; right; right; left; reflexivity).
  assert (forall x, In x all -> mn <= x <= mx) as Hall.
  { intros x Hx. unfold all in Hx. apply in_app_or in Hx as [Hx|[<-|[<-|[]]]]; try lia.
    apply in_map_iff in Hx as (p & <- & Hp). rewrite Forall_forall in Hb. apply Hb, Hp. }
  destruct (zmin_list all) as [a|] eqn:Ea; [|destruct all; [destruct Imn|discriminate]].
  destruct (zmax_list all) as [b|] eqn:Eb; [|destruct all; [destruct Imn|discriminate]].
  apply zmin_list_spec in Ea as [A1 A2]. apply zmax_list_spec in Eb as [B1 B2].
  rewrite Forall_forall in A2, B2.
  pose proof (A2 mn Imn). pose proof (B2 mx Imx). pose proof (Hall a A1). pose proof (Hall b B1).
  f_equal. f_equal; lia.
Qed.

Theorem crop_p_spec_ok t a b rebase :
  wf_ptier_strict t -> crop_p t a b rebase = crop_p_spec t a b rebase.
Proof.
  intros [Hs Hl]. unfold crop_p, crop_p_spec. destruct (Z.leb_spec b a); [reflexivity|].
  set (l := filter (in_windowb a b) (pents t)).
  assert (StronglySorted (lebP pleb) l) as Hsl by (apply pleb_sorted_filter, Hs).
  assert (Forall (fun p => stripped (plabel p)) l) as Hll.
  { rewrite Forall_forall in *. intros p Hp. apply filter_In in Hp as [Hp _]. auto. }
  assert (Forall (fun p => a <= ptime p <= b) l) as Hbl.
  { apply Forall_forall. intros p Hp. apply filter_In in Hp as [_ Hp]. unfold in_windowb in Hp. lia. }
  destruct rebase.
  - apply new_ptier_ok; [apply pleb_sorted_shift, Hsl| | |lia].
    + rewrite Forall_forall in *. intros p Hp. apply in_map_iff in Hp as (q & <- & Hq). simpl. auto.
    + rewrite Forall_forall in *. intros p Hp. apply in_map_iff in Hp as (q & <- & Hq).
      specialize (Hbl q Hq). simpl. lia.
  - apply new_ptier_ok; [assumption|assumption|assumption|lia].
Qed.

Lemma new_ptier_span name l mn mx x :
  new_ptier name l (Some mn) (Some mx) = Ok x -> mn <= mx ->
  (forall p, In p l -> mn <= ptime p <= mx) -> pmin x = mn /\ pmax x = mx.
Proof.
  intros E Hmm Hb. unfold new_ptier in E. simpl opt_list in E.
  set (all := map ptime (homog_p l) ++ [mn] ++ [mx]) in E.
  assert (forall y, In y all -> mn <= y <= mx) as Hall.
  { intros y Hy. unfold all in Hy. apply in_app_or in Hy as [Hy|[<-|[<-|[]]]]; try lia.
    apply in_map_iff in Hy as (p & <- & Hp). unfold homog_p in Hp. apply isort_In in Hp.
    apply in_map_iff in Hp as (q & <- & Hq). simpl. apply Hb, Hq. }
  assert (In mn all) as Imn by (unfold all; apply in_or_app; right; left; reflexivity).
  assert (In mx all) as Imx by (unfold all; apply in_or_app; right; right; left; reflexivity).
  destruct (zmin_list all) as [a|] eqn:Ea; [|discriminate].
  destruct (zmax_list all) as [b|] eqn:Eb; [|discriminate]. injection E as <-. simpl.
  apply zmin_list_spec in Ea as [A1 A2]. apply zmax_list_spec in Eb as [B1 B2].
  rewrite Forall_forall in A2, B2.
  pose proof (A2 mn Imn). pose proof (B2 mx Imx). pose proof (Hall a A1). pose proof (Hall b B1). lia.
Qed.

Theorem crop_p_span t a b r x :
  crop_p t a b r = Ok x ->
  pmin x = (if r then 0 else a) /\ pmax x = (if r then b - a else b).
Proof.
  unfold crop_p. destruct (Z.leb_spec b a); [discriminate|]. destruct r; intro E.
  - eapply new_ptier_span; [exact E|lia|].
    intros p Hp. apply in_map_iff in Hp as (q & <- & Hq). apply filter_In in Hq as [_ Hw].
    unfold in_windowb in Hw. simpl. lia.
  - eapply new_ptier_span; [exact E|lia|].
    intros p Hp. apply filter_In in Hp as [_ Hw]. unfold in_windowb in Hw. lia.
Qed.

Theorem crop_p_members t a b p :
  In p (filter (in_windowb a b) (pents t)) <-> In p (pents t) /\ a <= ptime p <= b.
Proof. rewrite filter_In. unfold in_windowb. intuition lia. Qed.

(* ---------------- non-vacuity ---------------- *)

Example crop_example_tier : itier :=
  mkIT [97%N] [mkI 0 2 [120%N]; mkI 2 5 [121%N]; mkI 7 9 []] 0 10.

Example crop_example_wf : wf_itier crop_example_tier.
Proof. apply wf_itierb_spec. vm_compute. reflexivity. Qed.

Example crop_example_run :
  crop_i crop_example_tier 1 8 Truncated true
  = Ok (mkIT [97%N] [mkI 0 1 [120%N]; mkI 1 4 [121%N]; mkI 6 7 []] 0 7).
Proof. vm_compute. reflexivity. Qed.
