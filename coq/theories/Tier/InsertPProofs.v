(* Tier/InsertPProofs.v -- PointTier.insertEntry against its collision policy (C11), for every point tier and entry *)
From Coq Require Import Lia Permutation.
From PraatIO Require Import Tier.TierModel Tier.Interval Tier.CtorProofs Tier.InsertProofs Tier.WfProofs Tier.UnionPProofs.
Open Scope Z_scope.

(* the point of the tier the new entry collides with: the first one at the same time *)
Definition collides_with (t : ptier) (e : point) : option point := find_time (ptime e) (pents t).

Lemma strip_p_time e : ptime (strip_p e) = ptime e.
Proof. now destruct e. Qed.

(* no point at that time: the entry is added, nothing else changes *)
Theorem insert_p_free t e m t' : collides_with t e = None -> insert_p t e m = Ok t' ->
  Permutation (pents t') (strip_p e :: pents t) /\ pname t' = pname t.
Proof.
  unfold collides_with, insert_p, insert_p_core. rewrite strip_p_time. intros -> H. cbn [bind] in H. injection H as <-.
  cbn [pents pname]. split; [|reflexivity].
  eapply Permutation_trans; [apply Permutation_sym, (isort_perm pleb)|]. apply Permutation_sym, Permutation_cons_append.
Qed.

(* a point at that time, mode 'error': CollisionError, whatever else *)
Theorem insert_p_error t e old : collides_with t e = Some old -> insert_p t e IError = Err CollisionError.
Proof. unfold collides_with, insert_p, insert_p_core. rewrite strip_p_time. now intros ->. Qed.

(* 'replace': exactly the colliding point leaves, the new one enters *)
Theorem insert_p_replace t e old t' : collides_with t e = Some old -> insert_p t e IReplace = Ok t' ->
  Permutation (old :: pents t') (strip_p e :: pents t).
Proof.
  unfold collides_with, insert_p, insert_p_core. rewrite strip_p_time. intros -> H.
  destruct (remove_first point_eqb old (pents t)) as [l|] eqn:R; [|discriminate]. cbn [bind] in H. injection H as <-.
  cbn [pents]. pose proof (remove_first_perm _ _ _ R) as P.
  eapply Permutation_trans; [apply perm_skip, Permutation_sym, (isort_perm pleb)|].
  eapply Permutation_trans; [apply perm_skip, Permutation_sym, Permutation_cons_append|].
  eapply Permutation_trans; [apply perm_swap|]. apply perm_skip. now apply Permutation_sym.
Qed.

(* 'merge': the colliding point is replaced by one point at that time labelled old-new *)
Theorem insert_p_merge t e old t' : collides_with t e = Some old -> insert_p t e IMerge = Ok t' ->
  Permutation (old :: pents t') (mkP (ptime e) (join DASH [plabel old; strip (plabel e)]) :: pents t).
Proof.
  unfold collides_with, insert_p, insert_p_core. rewrite strip_p_time. intros -> H.
  destruct (remove_first point_eqb old (pents t)) as [l|] eqn:R; [|discriminate]. cbn [bind] in H. injection H as <-.
  cbn [pents]. pose proof (remove_first_perm _ _ _ R) as P.
  replace (plabel (strip_p e)) with (strip (plabel e)) by now destruct e.
  eapply Permutation_trans; [apply perm_skip, Permutation_sym, (isort_perm pleb)|].
  eapply Permutation_trans; [apply perm_skip, Permutation_sym, Permutation_cons_append|].
  eapply Permutation_trans; [apply perm_swap|]. apply perm_skip. now apply Permutation_sym.
Qed.

(* afterwards the tier is in time order and the span has grown just enough to hold the new time *)
Theorem insert_p_order_and_span t e m t' : wf_ptier t -> pmin t <= pmax t -> insert_p t e m = Ok t' ->
  wf_ptier t' /\ pmin t' = Z.min (pmin t) (ptime e) /\ pmax t' = Z.max (pmax t) (ptime e).
Proof.
  intros W Hle H. split; [eapply insert_p_wf; eauto|].
  pose proof (insert_p_wf _ _ _ _ W H) as (Ws' & _ & _).
  destruct W as (Ws & Wsp & _). rewrite Forall_forall in Wsp.
  unfold insert_p, insert_p_core in H. rewrite strip_p_time in H.
  assert (exists l', pents t' = isortp l' /\ In (ptime e) (map ptime l') /\ (forall q, In q l' -> ptime q = ptime e \/ In q (pents t))
          /\ pmin t' = (match isortp l' with p0 :: _ => if ptime p0 <? pmin t then ptime p0 else pmin t | [] => pmin t end)
          /\ pmax t' = (match last_opt (isortp l') with Some pl => if pmax t <? ptime pl then ptime pl else pmax t | None => pmax t end))
    as (l' & El & Hin & Hsub & Emin & Emax).
  { destruct (find_time (ptime e) (pents t)) as [old|] eqn:F.
    - assert (forall l x, remove_first point_eqb old (pents t) = Some l -> ptime x = ptime e ->
                (forall q, In q (l ++ [x]) -> ptime q = ptime e \/ In q (pents t))) as Hgen.
      { intros l x R Ex q Hq. apply in_app_or in Hq as [Hq|[<-|[]]]; [right; eapply delete_sub; eauto|now left]. }
      destruct m; [| |discriminate].
      + destruct (remove_first point_eqb old (pents t)) as [l|] eqn:R; [|discriminate]. cbn [bind] in H. injection H as <-.
        exists (l ++ [strip_p e]). split; [reflexivity|]. cbn [pmin pmax].
        split; [rewrite map_app; apply in_or_app; right; cbn [map In]; left; apply strip_p_time|].
        split; [apply (Hgen l _ eq_refl), strip_p_time|split; reflexivity].
      + destruct (remove_first point_eqb old (pents t)) as [l|] eqn:R; [|discriminate]. cbn [bind] in H. injection H as <-.
        eexists (l ++ [mkP (ptime e) _]). split; [reflexivity|]. cbn [pmin pmax].
        split; [rewrite map_app; apply in_or_app; right; cbn [map In ptime]; left; reflexivity|].
        split; [apply (Hgen l _ eq_refl); reflexivity|split; reflexivity].
    - cbn [bind] in H. injection H as <-. eexists. split; [reflexivity|]. cbn [pmin pmax].
      split; [rewrite map_app; apply in_or_app; right; cbn [map In]; left; apply strip_p_time|].
      split; [|split; reflexivity]. intros q Hq. apply in_app_or in Hq as [Hq|[<-|[]]]; [now right|left; apply strip_p_time]. }
  assert (forall q, In q (isortp l') -> ptime q = ptime e \/ pmin t <= ptime q <= pmax t) as Hs.
  { intros q Hq. apply isort_In in Hq. destruct (Hsub q Hq) as [->|Hq']; [now left|right; apply Wsp, Hq']. }
  assert (exists pe, In pe (isortp l') /\ ptime pe = ptime e) as (pe & Hpe & Epe).
  { apply in_map_iff in Hin as (pe & Epe & Hpe). exists pe. split; [|exact Epe].
    apply (Permutation_in pe (isort_perm pleb l')), Hpe. }
  rewrite El in Ws'. rewrite Emin, Emax. split.
  - destruct (isortp l') as [|p0 r] eqn:E; [destruct Hpe|].
    pose proof (pleb_sorted_head_min p0 r) as Hm.
    assert (StronglySorted (lebP pleb) (p0 :: r)) as SS by (rewrite <- E; apply isort_sorted; [apply pleb_total|apply pleb_trans]).
    specialize (Hm SS). rewrite Forall_forall in Hm. specialize (Hm pe Hpe).
    destruct (Hs p0 (or_introl eq_refl)) as [E0|R0]; destruct (ptime p0 <? pmin t) eqn:C; lia.
  - destruct (last_opt (isortp l')) as [pl|] eqn:E.
    + pose proof (wf_pents_last_max _ _ Ws' E) as Hm. rewrite Forall_forall in Hm. specialize (Hm pe Hpe).
      destruct (Hs pl (last_opt_In _ _ E)) as [E0|R0]; destruct (pmax t <? ptime pl) eqn:C; lia.
    + apply last_opt_None in E. rewrite E in Hpe. destruct Hpe.
Qed.
