(* Tier/AdjustProofs.v -- C14: dejitter and morph. *)
From PraatIO Require Import Tier.TierModel Tier.CtorProofs.

(* ---------------- nearest reference time ---------------- *)

(* simpler characterisation for strictly increasing reference lists *)
Lemma nearest_from_sorted x : forall l best,
  StronglySorted Z.lt (best :: l) ->
  forall lo, (forall r', In r' lo -> r' < best /\ Z.abs (best - x) < Z.abs (r' - x)) ->
  let r := nearest_from x best l in
  In r (best :: l)
  /\ (forall r', In r' (lo ++ best :: l) -> Z.abs (r - x) <= Z.abs (r' - x))
  /\ (forall r', In r' (lo ++ best :: l) -> r' < r -> Z.abs (r - x) < Z.abs (r' - x)).
Proof.
  induction l as [|c l IH]; intros best Hs lo Hlo; simpl.
  - split; [left; reflexivity|]. split.
    + intros r' Hr. apply in_app_or in Hr as [Hr|[<-|[]]]; [destruct (Hlo r' Hr); lia|lia].
    + intros r' Hr Hlt. apply in_app_or in Hr as [Hr|[<-|[]]]; [destruct (Hlo r' Hr); lia|lia].
  - inversion Hs as [|? ? Hs' Hall]; subst. inversion Hall as [|? ? Hbc Hall']; subst.
    destruct (Z.ltb_spec (Z.abs (c - x)) (Z.abs (best - x))) as [Hlt|Hge].
    + (* c becomes best; the old best joins the strictly-worse smaller elements *)
      specialize (IH c Hs' (lo ++ [best])).
      assert (forall r', In r' (lo ++ [best]) -> r' < c /\ Z.abs (c - x) < Z.abs (r' - x)) as Hlo'.
      { intros r' Hr. apply in_app_or in Hr as [Hr|[<-|[]]]; [destruct (Hlo r' Hr); split; lia|split; lia]. }
      destruct (IH Hlo') as (I1 & I2 & I3). rewrite <- app_assoc in I2, I3. simpl in I2, I3.
      split; [right; exact I1|]. split; assumption.
    + (* best stays; c is not better; drop c but keep the bounds over it *)
      assert (StronglySorted Z.lt (best :: l)) as Hs2.
      { constructor; [inversion Hs'; assumption|exact Hall']. }
      destruct (IH best Hs2 lo Hlo) as (I1 & I2 & I3).
      set (r := nearest_from x best l) in *.
      assert (Z.abs (r - x) <= Z.abs (best - x)) as Hrb by (apply I2, in_or_app; right; left; reflexivity).
      split; [destruct I1 as [<-|I1]; [left; reflexivity|right; right; exact I1]|]. split.
      * intros r' Hr. apply in_app_or in Hr as [Hr|[<-|[<-|Hr]]].
        -- apply I2, in_or_app; left; exact Hr.
        -- exact Hrb.
        -- lia.
        -- apply I2, in_or_app; right; right; exact Hr.
      * intros r' Hr Hlt. apply in_app_or in Hr as [Hr|[<-|[<-|Hr]]].
        -- apply I3; [apply in_or_app; left; exact Hr|exact Hlt].
        -- apply I3; [apply in_or_app; right; left; reflexivity|exact Hlt].
        -- (* c < r: then r is in l after c, all > c > best; r must beat best strictly? *)
           destruct I1 as [<-|I1]; [lia|].
           (* r in l, r > c.  If |c-x| <= |r-x| we need strictness: use x position *)
           assert (best < c) by exact Hbc.
           assert (c < r) by exact Hlt.
           (* |r-x| <= |best-x| and best < c < r  imply |r - x| < |c - x| or contradiction with Hge *)
           lia.
        -- apply I3; [apply in_or_app; right; right; exact Hr|exact Hlt].
Qed.

Theorem nearest_spec x refs r :
  StronglySorted Z.lt refs -> nearest x refs = Some r ->
  In r refs
  /\ (forall r', In r' refs -> Z.abs (r - x) <= Z.abs (r' - x))
  /\ (forall r', In r' refs -> r' < r -> Z.abs (r - x) < Z.abs (r' - x)).
Proof.
  intros Hs E. destruct refs as [|b l]; [discriminate|]. injection E as <-.
  destruct (nearest_from_sorted x l b Hs [] (fun r' (H : In r' []) => match H with end)) as (I1 & I2 & I3).
  simpl in I2, I3. auto.
Qed.

(* the nearest reference is monotone in the query time *)
Theorem nearest_mono refs x1 x2 r1 r2 :
  StronglySorted Z.lt refs -> x1 <= x2 ->
  nearest x1 refs = Some r1 -> nearest x2 refs = Some r2 -> r1 <= r2.
Proof.
  intros Hs Hx E1 E2.
  destruct (nearest_spec x1 refs r1 Hs E1) as (A1 & A2 & A3).
  destruct (nearest_spec x2 refs r2 Hs E2) as (B1 & B2 & B3).
  destruct (Z.le_gt_cases r1 r2) as [|Hgt]; [assumption|exfalso].
  pose proof (A3 r2 B1 Hgt). pose proof (B2 r1 A1). lia.
Qed.

(* snap: moved to the nearest reference iff within d (inclusive), else untouched *)
Theorem snap_spec refs d x y :
  StronglySorted Z.lt refs -> snap refs d x = Ok y ->
  exists r, nearest x refs = Some r
    /\ (forall r', In r' refs -> Z.abs (r - x) <= Z.abs (r' - x))
    /\ y = (if Z.abs (x - r) <=? d then r else x).
Proof.
  intros Hs E. unfold snap in E. destruct (nearest x refs) as [r|] eqn:En; [|discriminate].
  injection E as <-. exists r. split; [reflexivity|]. split; [|reflexivity].
  apply (nearest_spec x refs r Hs En).
Qed.

Theorem snap_mono refs d x1 x2 y1 y2 :
  StronglySorted Z.lt refs -> 0 <= d -> x1 <= x2 ->
  snap refs d x1 = Ok y1 -> snap refs d x2 = Ok y2 -> y1 <= y2.
Proof.
  intros Hs Hd Hx E1 E2. unfold snap in *.
  destruct (nearest x1 refs) as [r1|] eqn:N1; [|discriminate].
  destruct (nearest x2 refs) as [r2|] eqn:N2; [|discriminate].
  injection E1 as <-. injection E2 as <-.
  pose proof (nearest_mono refs x1 x2 r1 r2 Hs Hx N1 N2) as Hr.
  destruct (nearest_spec x1 refs r1 Hs N1) as (A1 & A2 & A3).
  destruct (nearest_spec x2 refs r2 Hs N2) as (B1 & B2 & B3).
  pose proof (A2 r2 B1). pose proof (B2 r1 A1).
  destruct (Z.leb_spec (Z.abs (x1 - r1)) d); destruct (Z.leb_spec (Z.abs (x2 - r2)) d); lia.
Qed.

Theorem snap_empty_refs d x : snap [] d x = Err PyError.
Proof. reflexivity. Qed.

(* ---------------- dejitter on a tier ---------------- *)

Lemma mapM_ok {A B} (f : A -> res B) l r :
  mapM f l = Ok r -> length r = length l /\ Forall2 (fun a b => f a = Ok b) l r.
Proof.
  revert r. induction l as [|a l IH]; intros r E; simpl in E.
  - injection E as <-. split; [reflexivity|constructor].
  - destruct (f a) as [b|] eqn:Ea; [|discriminate]. simpl in E.
    destruct (mapM f l) as [r'|]; [|discriminate]. simpl in E. injection E as <-.
    destruct (IH r' eq_refl) as [L F]. split; [simpl; congruence|constructor; assumption].
Qed.

Definition snap_entry (refs : list Z) (d : Z) (i : interval) : res interval :=
  do s <- snap refs d (istart i); do e <- snap refs d (iend i); Ok (mkI s e (ilabel i)).

(* count, order and labels never change; a collapse raises *)
Theorem dejitter_i_spec t refs d t' :
  wf_itier t -> StronglySorted Z.lt refs -> 0 <= d ->
  dejitter_i t refs d = Ok t' ->
  Forall2 (fun i j => snap_entry refs d i = Ok j) (ients t) (ients t')
  /\ map ilabel (ients t') = map ilabel (ients t)
  /\ length (ients t') = length (ients t)
  /\ wf_itier t'.
Proof.
  intros (Hw & Hs & Hl) Hr Hd E. unfold dejitter_i in E.
  destruct (mapM _ (ients t)) as [l|] eqn:Em; [|discriminate]. cbn [bind] in E.
  fold (snap_entry refs d) in Em. change (mapM (snap_entry refs d) (ients t) = Ok l) in Em.
  destruct (mapM_ok _ _ _ Em) as [Len F2].
  pose proof (new_itier_wf _ _ _ _ _ E) as Wt'.
  (* labels of l = labels of t, hence stripped *)
  assert (map ilabel l = map ilabel (ients t)) as Hlab.
  { clear -F2. induction F2 as [|i j li lj Hij _ IH]; [reflexivity|]. simpl. rewrite IH. f_equal.
    unfold snap_entry in Hij. destruct (snap refs d (istart i)); [|discriminate]. simpl in Hij.
    destruct (snap refs d (iend i)); [|discriminate]. simpl in Hij. injection Hij as <-. reflexivity. }
  assert (labels_stripped l) as Ll.
  { unfold labels_stripped in *. clear -F2 Hl. induction F2 as [|i j li lj Hij _ IH]; [constructor|].
    inversion Hl; subst. constructor; [|apply IH; assumption].
    unfold snap_entry in Hij. destruct (snap refs d (istart i)); [|discriminate]. simpl in Hij.
    destruct (snap refs d (iend i)); [|discriminate]. simpl in Hij. injection Hij as <-. assumption. }
  (* weak chain: snapped ends stay before snapped later starts *)
  assert (StronglySorted before l) as Chain.
  { destruct Hw as [Hp Hb]. clear -F2 Hp Hb Hr Hd. revert Hp Hb.
    induction F2 as [|i j li lj Hij F2' IH]; intros Hp Hb; [constructor|].
    inversion Hp; subst. inversion Hb as [|? ? Hb' Hall]; subst.
    constructor; [apply IH; assumption|].
    clear IH. rewrite Forall_forall in Hall. apply Forall_forall. intros j' Hj'.
    (* j' comes from some i' in li *)
    assert (exists i', In i' li /\ snap_entry refs d i' = Ok j') as (i' & Hi' & E').
    { clear -F2' Hj'. induction F2' as [|a b la lb Hab _ IH]; [destruct Hj'|].
      destruct Hj' as [<-|Hj']; [exists a; split; [left; reflexivity|exact Hab]|].
      destruct (IH Hj') as (i' & H1 & H2). exists i'. split; [right; exact H1|exact H2]. }
    specialize (Hall i' Hi'). unfold before in *.
    unfold snap_entry in Hij, E'.
    destruct (snap refs d (istart i)) as [s1|] eqn:S1; [|discriminate]. simpl in Hij.
    destruct (snap refs d (iend i)) as [e1|] eqn:E1; [|discriminate]. simpl in Hij. injection Hij as <-.
    destruct (snap refs d (istart i')) as [s2|] eqn:S2; [|discriminate]. simpl in E'.
    destruct (snap refs d (iend i')) as [e2|] eqn:E2; [|discriminate]. simpl in E'. injection E' as <-.
    simpl. eapply snap_mono; [exact Hr|exact Hd|exact Hall|exact E1|exact S2]. }
  (* positivity comes from the constructor's validation of the sorted list *)
  unfold new_itier in E. unfold homog_i in E. rewrite (map_strip_i_id l Ll) in E.
  destruct (zmin_list _) as [a|]; [|discriminate]. destruct (zmax_list _) as [b|]; [|discriminate].
  destruct (sorted_disjb (isorti l)) eqn:Es; [|discriminate]. injection E as <-. cbn [ients].
  apply sorted_disjb_spec in Es.
  assert (wf_ients l) as Wl.
  { split; [|exact Chain]. destruct Es as [Hp _]. rewrite Forall_forall in *. intros i Hi.
    apply Hp. apply isort_In. exact Hi. }
  rewrite (isorti_wf_id l Wl) in *. repeat split; try assumption; try (symmetry; assumption); apply Wt'.
Qed.

(* ---------------- morph ---------------- *)

Theorem morph_go_labels filt : forall cum src tgt,
  length src = length tgt -> map ilabel (morph_go filt cum src tgt) = map ilabel src.
Proof.
  intros cum src. revert cum. induction src as [|s src IH]; intros cum [|g tgt] Hlen; try discriminate; [reflexivity|].
  simpl. injection Hlen as Hlen. destruct (filt (ilabel s)); simpl; rewrite IH by assumption; reflexivity.
Qed.

Theorem morph_go_length filt : forall cum src tgt,
  length src = length tgt -> length (morph_go filt cum src tgt) = length src.
Proof.
  intros cum src. revert cum. induction src as [|s src IH]; intros cum [|g tgt] Hlen; try discriminate; [reflexivity|].
  simpl. injection Hlen as Hlen. destruct (filt (ilabel s)); simpl; rewrite IH by assumption; reflexivity.
Qed.

(* entry k of the result: duration is the target's if selected, else kept *)
Theorem morph_go_durations (filt : text -> bool) : forall cum src tgt,
  length src = length tgt ->
  Forall2 (fun (sg : (interval * interval)%type) r =>
             iend r - istart r = if filt (ilabel (fst sg)) then iend (snd sg) - istart (snd sg)
                                 else iend (fst sg) - istart (fst sg))
          (combine src tgt) (morph_go filt cum src tgt).
Proof.
  intros cum src. revert cum. induction src as [|s src IH]; intros cum [|g tgt] Hlen; try discriminate; [constructor|].
  simpl. injection Hlen as Hlen. destruct (filt (ilabel s)) eqn:Ef; constructor; simpl; try rewrite Ef; try lia; apply IH; assumption.
Qed.

(* gaps between consecutive intervals are preserved, and the first start *)
Fixpoint gaps_of (prev_end : Z) (l : list interval) : list Z :=
  match l with
  | [] => []
  | i :: l' => (istart i - prev_end) :: gaps_of (iend i) l'
  end.

Theorem morph_go_gaps filt : forall cum src tgt pe,
  length src = length tgt ->
  gaps_of (pe + cum) (morph_go filt cum src tgt) = gaps_of pe src.
Proof.
  intros cum src. revert cum. induction src as [|s src IH]; intros cum [|g tgt] pe Hlen; try discriminate; [reflexivity|].
  simpl. injection Hlen as Hlen. destruct (filt (ilabel s)); simpl.
  - f_equal; [lia|]. replace (istart s + cum + (iend g - istart g)) with (iend s + (cum + (iend g - istart g - (iend s - istart s)))) by lia.
    apply IH, Hlen.
  - f_equal; [lia|]. replace (istart s + cum + (iend s - istart s)) with (iend s + cum) by lia. apply IH, Hlen.
Qed.

(* the last end moves by the accumulated adjustment, so the trailing gap to the
   end of the span is preserved by morph_i's maxTimestamp update *)
Theorem morph_i_trailing_gap t g filt t' :
  morph_i t g filt = Ok t' ->
  exists nl ol, last_opt (morph_go filt 0 (ients t) (ients g)) = Some nl /\ last_opt (ients t) = Some ol
    /\ (imax t + (iend nl - iend ol)) - iend nl = imax t - iend ol.
Proof.
  unfold morph_i. destruct (negb _); [discriminate|].
  destruct (last_opt (morph_go _ _ _ _)) as [nl|]; [|discriminate].
  destruct (last_opt (ients t)) as [ol|]; [|discriminate]. intros _. exists nl, ol. repeat split; lia.
Qed.

Theorem morph_i_length_mismatch t g filt :
  length (ients t) <> length (ients g) -> morph_i t g filt = Err SafeZipException.
Proof.
  intro H. unfold morph_i. destruct (Nat.eqb_spec (length (ients t)) (length (ients g))); [contradiction|reflexivity].
Qed.

(* well-formed source and target: the morphed list is well-formed, so the
   constructor keeps it as is *)
Lemma morph_go_wf filt : forall cum src tgt,
  length src = length tgt -> wf_ients src -> Forall pos tgt ->
  wf_ients (morph_go filt cum src tgt)
  /\ Forall (fun r => match src with s :: _ => istart s + cum <= istart r | [] => True end) (morph_go filt cum src tgt).
Proof.
  intros cum src. revert cum. induction src as [|s src IH]; intros cum [|g tgt] Hlen Hw Hp; try discriminate.
  - split; [apply wf_ients_nil|constructor].
  - injection Hlen as Hlen. apply wf_ients_cons in Hw as (Ps & Bs & Ws). inversion Hp as [|? ? Pg Hp']; subst.
    simpl. unfold pos in *.
    destruct (filt (ilabel s)).
    + destruct (IH (cum + (iend g - istart g - (iend s - istart s))) tgt Hlen Ws Hp') as [W F].
      split.
      * apply wf_ients_cons. split; [unfold pos; simpl; lia|]. split; [|exact W].
        destruct src as [|s2 src']; [destruct tgt; [constructor|discriminate]|].
        inversion Bs as [|? ? B2 _]; subst. unfold before in *.
        eapply Forall_impl; [|exact F]. simpl. intros r Hr. lia.
      * constructor; [simpl; lia|].
        destruct src as [|s2 src']; [destruct tgt; [constructor|discriminate]|].
        inversion Bs as [|? ? B2 _]; subst. unfold before in *.
        eapply Forall_impl; [|exact F]. simpl. intros r Hr. lia.
    + destruct (IH cum tgt Hlen Ws Hp') as [W F].
      split.
      * apply wf_ients_cons. split; [unfold pos; simpl; lia|]. split; [|exact W].
        destruct src as [|s2 src']; [destruct tgt; [constructor|discriminate]|].
        inversion Bs as [|? ? B2 _]; subst. unfold before in *.
        eapply Forall_impl; [|exact F]. simpl. intros r Hr. lia.
      * constructor; [simpl; lia|].
        destruct src as [|s2 src']; [destruct tgt; [constructor|discriminate]|].
        inversion Bs as [|? ? B2 _]; subst. unfold before in *.
        eapply Forall_impl; [|exact F]. simpl. intros r Hr. lia.
Qed.

Theorem morph_i_entries t g filt t' :
  wf_itier t -> Forall pos (ients g) -> morph_i t g filt = Ok t' ->
  ients t' = morph_go filt 0 (ients t) (ients g).
Proof.
  intros (Hw & Hs & Hl) Hg. unfold morph_i.
  destruct (Nat.eqb_spec (length (ients t)) (length (ients g))) as [Hlen|]; [|discriminate]. simpl.
  destruct (last_opt (morph_go _ _ _ _)) as [nl|]; [|discriminate].
  destruct (last_opt (ients t)) as [ol|]; [|discriminate].
  destruct (morph_go_wf filt 0 (ients t) (ients g) Hlen Hw Hg) as [W _].
  rewrite new_itier_ok; [intros [= <-]; reflexivity|exact W|].
  unfold labels_stripped in *. pose proof (morph_go_labels filt 0 (ients t) (ients g) Hlen) as Hlab.
  clear -Hlab Hl. revert Hlab Hl. generalize (morph_go filt 0 (ients t) (ients g)) as r. generalize (ients t) as l.
  induction l as [|i l IH]; intros [|j r] Hlab Hl; try discriminate; [constructor|].
  simpl in Hlab. injection Hlab as H1 H2. inversion Hl; subst. constructor; [rewrite H1; assumption|apply IH; assumption].
Qed.

(* ---------------- the reference timestamps are strictly increasing ---------------- *)

Lemma dedup_sorted_cons2 a b l :
  dedup_sorted (a :: b :: l) = if a =? b then dedup_sorted (b :: l) else a :: dedup_sorted (b :: l).
Proof. reflexivity. Qed.

Lemma dedup_sorted_In x l : In x (dedup_sorted l) -> In x l.
Proof.
  induction l as [|a l IH]; [intros []|]. destruct l as [|b l']; [exact (fun H => H)|].
  rewrite dedup_sorted_cons2. destruct (a =? b).
  - intro H. right. apply IH, H.
  - intros [<-|H]; [left; reflexivity|right; apply IH, H].
Qed.

Lemma dedup_sorted_strict l : StronglySorted Z.le l -> StronglySorted Z.lt (dedup_sorted l).
Proof.
  induction l as [|a l IH]; intro Hs; [constructor|].
  inversion Hs as [|? ? Hs' Hall]; subst. destruct l as [|b l']; [constructor; constructor|].
  rewrite dedup_sorted_cons2. destruct (Z.eqb_spec a b) as [->|Hne]; [apply IH, Hs'|].
  constructor; [apply IH, Hs'|].
  apply Forall_forall. intros x Hx. apply dedup_sorted_In in Hx.
  rewrite Forall_forall in Hall. pose proof (Hall x Hx). pose proof (Hall b (or_introl eq_refl)).
  destruct Hx as [<-|Hx]; [lia|]. inversion Hs' as [|? ? _ Hb]; subst. rewrite Forall_forall in Hb.
  specialize (Hb x Hx). lia.
Qed.

Theorem zsort_uniq_strict l : StronglySorted Z.lt (zsort_uniq l).
Proof.
  unfold zsort_uniq. apply dedup_sorted_strict.
  assert (StronglySorted (lebP Z.leb) (isort Z.leb l)) as H.
  { apply isort_sorted; intros; lia. }
  induction H; constructor; auto. eapply Forall_impl; [|eassumption]. unfold lebP. intros; lia.
Qed.
