(* Tier/CtorProofs.v -- facts about the tier constructors (homogenise, span
   hull, _validate) and generic wf-preservation lemmas used by every
   operation that ends in a constructor call. *)
From PraatIO Require Import Tier.TierModel.

Ltac dcmp1 :=
  match goal with
  | |- context [?x <=? ?y] => destruct (Z.leb_spec x y)
  | |- context [?x <? ?y] => destruct (Z.ltb_spec x y)
  | |- context [?x =? ?y] => destruct (Z.eqb_spec x y)
  end.
Ltac dcmp := repeat (dcmp1; cbn [andb orb negb]; try lia).

(* ---------- stripping / sorting are identities on wf data ---------- *)

Definition labels_stripped (l : list interval) : Prop := Forall (fun i => stripped (ilabel i)) l.

Lemma map_strip_i_id l : labels_stripped l -> map strip_i l = l.
Proof.
  induction 1 as [|i l Hi _ IH]; simpl; [reflexivity|].
  rewrite IH. f_equal. destruct i; unfold strip_i; simpl in *. now rewrite Hi.
Qed.

Lemma homog_i_id l : wf_ients l -> labels_stripped l -> homog_i l = l.
Proof. intros Hw Hs. unfold homog_i. rewrite map_strip_i_id by exact Hs. apply isorti_wf_id, Hw. Qed.

Lemma homog_i_stripped l : labels_stripped (homog_i l).
Proof.
  unfold labels_stripped, homog_i. apply Forall_forall. intros i Hi.
  apply isort_In in Hi. apply in_map_iff in Hi as (j & <- & _). simpl. apply strip_stripped.
Qed.

Lemma homog_p_stripped l : Forall (fun p => stripped (plabel p)) (homog_p l).
Proof.
  unfold homog_p. apply Forall_forall. intros p Hp.
  apply isort_In in Hp. apply in_map_iff in Hp as (q & <- & _). simpl. apply strip_stripped.
Qed.

(* ---------- span hull ---------- *)

Definition hull_min (l : list interval) (mn : Z) : Z :=
  match zmin_list (map istart l ++ [mn]) with Some a => a | None => mn end.
Definition hull_max (l : list interval) (mx : Z) : Z :=
  match zmax_list (map iend l ++ [mx]) with Some a => a | None => mx end.

Lemma zmin_list_app_some l x : exists m, zmin_list (l ++ [x]) = Some m.
Proof. destruct l; simpl; eauto. Qed.
Lemma zmax_list_app_some l x : exists m, zmax_list (l ++ [x]) = Some m.
Proof. destruct l; simpl; eauto. Qed.

Lemma hull_min_spec l mn :
  hull_min l mn <= mn /\ Forall (fun i => hull_min l mn <= istart i) l
  /\ (hull_min l mn = mn \/ exists i, In i l /\ hull_min l mn = istart i).
Proof.
  unfold hull_min. destruct (zmin_list_app_some (map istart l) mn) as (m & E). rewrite E.
  apply zmin_list_spec in E as [Hin Hall]. rewrite Forall_forall in Hall.
  split; [apply Hall, in_or_app; right; left; reflexivity|]. split.
  - apply Forall_forall. intros i Hi. apply Hall, in_or_app. left. apply in_map, Hi.
  - apply in_app_or in Hin as [Hin|[<-|[]]]; [right|left; reflexivity].
    apply in_map_iff in Hin as (i & <- & Hi). eauto.
Qed.

Lemma hull_max_spec l mx :
  mx <= hull_max l mx /\ Forall (fun i => iend i <= hull_max l mx) l
  /\ (hull_max l mx = mx \/ exists i, In i l /\ hull_max l mx = iend i).
Proof.
  unfold hull_max. destruct (zmax_list_app_some (map iend l) mx) as (m & E). rewrite E.
  apply zmax_list_spec in E as [Hin Hall]. rewrite Forall_forall in Hall.
  split; [apply Hall, in_or_app; right; left; reflexivity|]. split.
  - apply Forall_forall. intros i Hi. apply Hall, in_or_app. left. apply in_map, Hi.
  - apply in_app_or in Hin as [Hin|[<-|[]]]; [right|left; reflexivity].
    apply in_map_iff in Hin as (i & <- & Hi). eauto.
Qed.

Lemma hull_min_in_span l mn mx : Forall (in_span mn mx) l -> hull_min l mn = mn.
Proof.
  intro H. destruct (hull_min_spec l mn) as (H1 & _ & [E|(i & Hi & E)]); [exact E|].
  rewrite Forall_forall in H. destruct (H i Hi) as [A _]. lia.
Qed.
Lemma hull_max_in_span l mn mx : Forall (in_span mn mx) l -> hull_max l mx = mx.
Proof.
  intro H. destruct (hull_max_spec l mx) as (H1 & _ & [E|(i & Hi & E)]); [exact E|].
  rewrite Forall_forall in H. destruct (H i Hi) as [_ A]. lia.
Qed.

(* for a wf list the hull is given by the first start and the last end *)
Lemma hull_min_wf i l mn : wf_ients (i :: l) -> hull_min (i :: l) mn = Z.min mn (istart i).
Proof.
  intro Hw. destruct (hull_min_spec (i :: l) mn) as (H1 & H2 & H3).
  inversion H2 as [|? ? Hi _]; subst.
  destruct H3 as [E|(j & Hj & E)]; [lia|].
  destruct Hj as [<-|Hj]; [lia|].
  apply wf_ients_cons in Hw as (Hp & Hb & Hw'). rewrite Forall_forall in Hb.
  specialize (Hb j Hj). unfold before, pos in *. lia.
Qed.

Lemma last_opt_In {A} (l : list A) x : last_opt l = Some x -> In x l.
Proof.
  induction l as [|y l IH]; [discriminate|]. destruct l as [|z l].
  - intros [= ->]; left; reflexivity.
  - intro H. right. apply IH, H.
Qed.

Lemma last_opt_app {A} (l : list A) x : last_opt (l ++ [x]) = Some x.
Proof.
  induction l as [|y l IH]; [reflexivity|]. simpl app.
  destruct (l ++ [x]) eqn:E; [destruct l; discriminate|]. exact IH.
Qed.

Lemma wf_last_max l il : wf_ients l -> last_opt l = Some il -> Forall (fun i => iend i <= iend il) l.
Proof.
  induction l as [|i l IH]; intros Hw Hl; [constructor|].
  apply wf_ients_cons in Hw as (Hp & Hb & Hw').
  destruct l as [|j l'].
  - injection Hl as ->. constructor; [lia|constructor].
  - specialize (IH Hw' Hl). constructor; [|exact IH].
    inversion IH; subst. rewrite Forall_forall in Hb.
    assert (before i j) by (apply Hb; left; reflexivity).
    destruct Hw' as [Hpl _]. inversion Hpl; subst. unfold before, pos in *. lia.
Qed.

Lemma hull_max_wf l il mx : wf_ients l -> last_opt l = Some il -> hull_max l mx = Z.max mx (iend il).
Proof.
  intros Hw Hl. destruct (hull_max_spec l mx) as (H1 & H2 & H3).
  pose proof (wf_last_max _ _ Hw Hl) as Hm. rewrite Forall_forall in H2, Hm.
  pose proof (H2 il (last_opt_In _ _ Hl)).
  destruct H3 as [E|(j & Hj & E)]; [lia|]. specialize (Hm j Hj). lia.
Qed.

(* ---------- constructor on wf input ---------- *)

Lemma new_itier_ok name l mn mx :
  wf_ients l -> labels_stripped l ->
  new_itier name l (Some mn) (Some mx) = Ok (mkIT name l (hull_min l mn) (hull_max l mx)).
Proof.
  intros Hw Hs. unfold new_itier. rewrite (homog_i_id l Hw Hs). simpl opt_list.
  unfold hull_min, hull_max.
  destruct (zmin_list_app_some (map istart l) mn) as (a & ->).
  destruct (zmax_list_app_some (map iend l) mx) as (b & ->).
  apply sorted_disjb_spec in Hw. now rewrite Hw.
Qed.

(* every tier the constructor returns is well-formed *)
Lemma new_itier_wf name l mn mx t : new_itier name l mn mx = Ok t -> wf_itier t.
Proof.
  unfold new_itier. set (l' := homog_i l).
  destruct (zmin_list (map istart l' ++ opt_list mn)) as [a|] eqn:Ea; [|discriminate].
  destruct (zmax_list (map iend l' ++ opt_list mx)) as [b|] eqn:Eb; [|discriminate].
  destruct (sorted_disjb l') eqn:Es; [|discriminate]. intros [= <-].
  unfold wf_itier; simpl. split; [apply sorted_disjb_spec, Es|]. split; [|apply homog_i_stripped].
  apply zmin_list_spec in Ea as [_ Ha]. apply zmax_list_spec in Eb as [_ Hb].
  rewrite Forall_forall in *. intros i Hi. split.
  - apply Ha, in_or_app. left. apply in_map, Hi.
  - apply Hb, in_or_app. left. apply in_map, Hi.
Qed.

Lemma new_itier_name name l mn mx t : new_itier name l mn mx = Ok t -> iname t = name.
Proof.
  unfold new_itier. destruct (zmin_list _); [|discriminate]. destruct (zmax_list _); [|discriminate].
  destruct (sorted_disjb _); [|discriminate]. now intros [= <-].
Qed.

Lemma new_ptier_wf name l mn mx t : new_ptier name l mn mx = Ok t -> wf_ptier t.
Proof.
  unfold new_ptier. set (l' := homog_p l).
  destruct (zmin_list (map ptime l' ++ opt_list mn ++ opt_list mx)) as [a|] eqn:Ea; [|discriminate].
  destruct (zmax_list (map ptime l' ++ opt_list mn ++ opt_list mx)) as [b|] eqn:Eb; [|discriminate].
  intros [= <-]. unfold wf_ptier; simpl. split; [|split; [|apply homog_p_stripped]].
  - apply wf_pents_pleb_sorted. apply isort_sorted; [apply pleb_total|apply pleb_trans].
  - apply zmin_list_spec in Ea as [_ Ha]. apply zmax_list_spec in Eb as [_ Hb].
    rewrite Forall_forall in *. intros p Hp. split.
    + apply Ha, in_or_app. left. apply in_map, Hp.
    + apply Hb, in_or_app. left. apply in_map, Hp.
Qed.

Lemma copy_itier_wf t : wf_itier t -> copy_itier t = Ok t.
Proof.
  intros (Hw & Hs & Hl). unfold copy_itier. rewrite new_itier_ok by assumption.
  rewrite (hull_min_in_span _ _ _ Hs), (hull_max_in_span _ _ _ Hs). destruct t; reflexivity.
Qed.

(* ---------- generic wf lemmas ---------- *)

Lemma wf_ients_filter p l : wf_ients l -> wf_ients (filter p l).
Proof.
  induction l as [|i l IH]; intro Hw; simpl; [exact Hw|].
  apply wf_ients_cons in Hw as (Hp & Hb & Hw). destruct (p i); [|apply IH, Hw].
  apply wf_ients_cons. split; [exact Hp|]. split; [|apply IH, Hw].
  rewrite Forall_forall in *. intros j Hj. apply filter_In in Hj as [Hj _]. apply Hb, Hj.
Qed.

Lemma flat_map_singleton_filter {A B} (p : A -> bool) (g : A -> B) l :
  flat_map (fun x => if p x then [g x] else []) l = map g (filter p l).
Proof. induction l as [|x l IH]; simpl; [reflexivity|]. destruct (p x); simpl; congruence. Qed.

Lemma labels_stripped_filter p l : labels_stripped l -> labels_stripped (filter p l).
Proof.
  unfold labels_stripped. rewrite !Forall_forall. intros H i Hi. apply filter_In in Hi as [Hi _]. auto.
Qed.

Lemma labels_stripped_flat_map f l :
  (forall i j, In j (f i) -> ilabel j = ilabel i) ->
  labels_stripped l -> labels_stripped (flat_map f l).
Proof.
  unfold labels_stripped. rewrite !Forall_forall. intros Hf H j Hj.
  apply in_flat_map in Hj as (i & Hi & Hj). rewrite (Hf i j Hj). auto.
Qed.

Lemma labels_stripped_map g l :
  (forall i, ilabel (g i) = ilabel i) -> labels_stripped l -> labels_stripped (map g l).
Proof.
  unfold labels_stripped. rewrite !Forall_forall. intros Hg H j Hj.
  apply in_map_iff in Hj as (i & <- & Hi). rewrite Hg. auto.
Qed.

Lemma filter_true {A} (l : list A) : filter (fun _ => true) l = l.
Proof. induction l; simpl; congruence. Qed.

Lemma wf_ients_shift d l : wf_ients l -> wf_ients (map (shift d) l).
Proof.
  intro Hw. rewrite <- (filter_true l) at 1.
  rewrite <- (flat_map_singleton_filter (fun _ => true) (shift d)).
  apply (flat_map_wf (fun x => x + d)); [intros; lia| |exact Hw].
  intros i Hp. simpl. split.
  - apply wf_ients_cons. split; [unfold pos in *; simpl; lia|]. split; [constructor|apply wf_ients_nil].
  - constructor; [|constructor]. unfold in_span; simpl; lia.
Qed.

Lemma filter_map_ext_Forall {A B} (P : A -> Prop) (f g : A -> option B) l :
  Forall P l -> (forall x, P x -> f x = g x) -> filter_map f l = filter_map g l.
Proof.
  induction 1 as [|x l Hx _ IH]; intro H; simpl; [reflexivity|].
  rewrite (H x Hx), (IH H). reflexivity.
Qed.
