(* Tier/EditProofs.v -- C09: editTimestamps and appendTier move every entry by
   exactly the stated amount. *)
From PraatIO Require Import Tier.TierModel Tier.CtorProofs Tier.EraseProofs.

Definition clip0 (i : interval) : interval := mkI (Z.max 0 (istart i)) (iend i) (ilabel i).

(* specification of the entry list: shift, drop what ends at or before 0,
   clip what crosses 0 *)
Definition edit_spec_ents (o : Z) (l : list interval) : list interval :=
  map (fun i => clip0 (shift o i)) (filter (fun i => 0 <? iend i + o) l).

Theorem edit_entries o l : filter_map (edit1 o) l = edit_spec_ents o l.
Proof.
  unfold edit_spec_ents. apply filter_map_filter_map_filter. intro i.
  unfold edit1, clip0, shift; simpl.
  destruct (Z.leb_spec (o + iend i) 0); destruct (Z.ltb_spec 0 (iend i + o)); try lia; [reflexivity|].
  f_equal. f_equal; [|lia]. destruct (Z.ltb_spec (o + istart i) 0); lia.
Qed.

Definition tau_edit (o x : Z) : Z := Z.max 0 (x + o).

Lemma edit_pieces_ok o :
  pieces_ok (tau_edit o) (fun i => if 0 <? iend i + o then [clip0 (shift o i)] else []).
Proof.
  intros i Hp. destruct i as [s e lab]. unfold pos in Hp; simpl in Hp.
  unfold tau_edit, clip0, shift; cbn [istart iend ilabel]. dif; pieces_leaf.
Qed.

Lemma edit_spec_ents_wf o l : wf_ients l -> wf_ients (edit_spec_ents o l).
Proof.
  intro Hw. unfold edit_spec_ents. rewrite <- flat_map_singleton_filter.
  apply (flat_map_wf (tau_edit o)); [intros; unfold tau_edit; lia|apply edit_pieces_ok|exact Hw].
Qed.

Lemma edit_spec_ents_stripped o l : labels_stripped l -> labels_stripped (edit_spec_ents o l).
Proof.
  intro H. unfold edit_spec_ents. apply labels_stripped_map; [reflexivity|]. apply labels_stripped_filter, H.
Qed.

Lemma hull_min_eq l mn :
  (match zmin_list (map istart l) with Some a => if mn <? a then mn else a | None => mn end) = hull_min l mn.
Proof.
  destruct (hull_min_spec l mn) as (H1 & H2 & H3).
  destruct (zmin_list (map istart l)) as [a|] eqn:E.
  - apply zmin_list_spec in E as [Hin Hall]. apply in_map_iff in Hin as (i & <- & Hi).
    rewrite Forall_forall in H2, Hall. specialize (H2 i Hi).
    destruct H3 as [E3|(j & Hj & E3)].
    + destruct (Z.ltb_spec mn (istart i)); lia.
    + assert (istart i <= istart j) by (apply Hall, in_map, Hj).
      destruct (Z.ltb_spec mn (istart i)); lia.
  - destruct l; [|discriminate]. reflexivity.
Qed.

Lemma hull_max_eq l mx :
  (match zmax_list (map iend l) with Some b => if b <? mx then mx else b | None => mx end) = hull_max l mx.
Proof.
  destruct (hull_max_spec l mx) as (H1 & H2 & H3).
  destruct (zmax_list (map iend l)) as [a|] eqn:E.
  - apply zmax_list_spec in E as [Hin Hall]. apply in_map_iff in Hin as (i & <- & Hi).
    rewrite Forall_forall in H2, Hall. specialize (H2 i Hi).
    destruct H3 as [E3|(j & Hj & E3)].
    + destruct (Z.ltb_spec (iend i) mx); lia.
    + assert (iend j <= iend i) by (apply Hall, in_map, Hj).
      destruct (Z.ltb_spec (iend i) mx); lia.
  - destruct l; [|discriminate]. reflexivity.
Qed.

Lemma hull_min_idem l mn : hull_min l (hull_min l mn) = hull_min l mn.
Proof.
  destruct (hull_min_spec l mn) as (H1 & H2 & H3).
  destruct (hull_min_spec l (hull_min l mn)) as (G1 & G2 & [G3|(j & Hj & G3)]); [exact G3|].
  rewrite Forall_forall in H2. specialize (H2 j Hj). lia.
Qed.
Lemma hull_max_idem l mx : hull_max l (hull_max l mx) = hull_max l mx.
Proof.
  destruct (hull_max_spec l mx) as (H1 & H2 & H3).
  destruct (hull_max_spec l (hull_max l mx)) as (G1 & G2 & [G3|(j & Hj & G3)]); [exact G3|].
  rewrite Forall_forall in H2. specialize (H2 j Hj). lia.
Qed.

(* the operation on a well-formed tier: never an error unless asked to raise *)
Theorem edit_i_ok t o mode :
  wf_itier t -> (mode = RError -> edit_i_reports t o = false) ->
  edit_i t o mode =
  Ok (mkIT (iname t) (edit_spec_ents o (ients t))
           (hull_min (edit_spec_ents o (ients t)) (imin t))
           (hull_max (edit_spec_ents o (ients t)) (imax t))).
Proof.
  intros (Hw & Hs & Hl) Hm. unfold edit_i.
  assert ((match mode with RError => true | _ => false end) && edit_i_reports t o = false) as ->.
  { destruct mode; try reflexivity. now rewrite Hm. }
  rewrite edit_entries. rewrite hull_min_eq, hull_max_eq.
  rewrite new_itier_ok; [|apply edit_spec_ents_wf, Hw|apply edit_spec_ents_stripped, Hl].
  now rewrite hull_min_idem, hull_max_idem.
Qed.

Theorem edit_i_error_iff t o :
  edit_i t o RError = Err OutOfBounds <->
  exists i, In i (ients t) /\ (istart i + o < imin t \/ imax t < iend i + o).
Proof.
  unfold edit_i. simpl. unfold edit_i_reports.
  destruct (existsb _ (ients t)) eqn:E.
  - split; [intros _|reflexivity]. apply existsb_exists in E as (i & Hi & H). exists i. split; [exact Hi|lia].
  - split.
    + intro H. exfalso. unfold new_itier in H.
      destruct (zmin_list _); [|discriminate]. destruct (zmax_list (_ ++ _)); [|discriminate].
      destruct (sorted_disjb _); discriminate.
    + intros (i & Hi & H). exfalso.
      assert (existsb (fun i => (o + istart i <? imin t) || (imax t <? o + iend i)) (ients t) = true) as C; [|congruence].
      apply existsb_exists. exists i. split; [exact Hi|lia].
Qed.

Theorem edit_span_never_shrinks t o mode t' :
  wf_itier t -> edit_i t o mode = Ok t' -> imin t' <= imin t /\ imax t <= imax t'.
Proof.
  intros Hwf H. destruct mode.
  1,2: rewrite edit_i_ok in H by (assumption || discriminate); injection H as <-; simpl;
       split; [apply hull_min_spec|apply hull_max_spec].
  destruct (edit_i_reports t o) eqn:E.
  - unfold edit_i in H. simpl in H. rewrite E in H. discriminate.
  - rewrite edit_i_ok in H by (assumption || (intros _; exact E)). injection H as <-; simpl.
    split; [apply hull_min_spec|apply hull_max_spec].
Qed.

(* nothing clipped or dropped: a pure shift, and shifting back restores the entries *)
Theorem edit_pure_shift o l :
  Forall pos l -> Forall (fun i => 0 <= istart i + o) l -> edit_spec_ents o l = map (shift o) l.
Proof.
  intros Hp Hn. unfold edit_spec_ents.
  induction l as [|i l IH]; [reflexivity|]. inversion Hp; subst. inversion Hn; subst.
  unfold pos in *. simpl. destruct (Z.ltb_spec 0 (iend i + o)); [|lia]. simpl. f_equal; [|apply IH; assumption].
  unfold clip0, shift; simpl. f_equal. lia.
Qed.

Theorem edit_roundtrip o l :
  Forall pos l -> Forall (fun i => 0 <= istart i) l -> Forall (fun i => 0 <= istart i + o) l ->
  edit_spec_ents (- o) (edit_spec_ents o l) = l.
Proof.
  intros Hp H0 Hn. rewrite (edit_pure_shift o l Hp Hn). rewrite edit_pure_shift.
  - rewrite map_map. rewrite <- (map_id l) at 2. apply map_ext. intros [s e lab]. unfold shift; simpl. f_equal; lia.
  - rewrite Forall_forall in *. intros j Hj. apply in_map_iff in Hj as (i & <- & Hi).
    specialize (Hp i Hi). unfold pos, shift in *; simpl. lia.
  - rewrite Forall_forall in *. intros j Hj. apply in_map_iff in Hj as (i & <- & Hi).
    specialize (H0 i Hi). unfold shift; simpl. lia.
Qed.

(* appendTier *)
Theorem append_i_ok A B :
  wf_itier A -> wf_itier B -> imin A <= imax A -> 0 <= imax A -> 0 <= imin B -> 0 <= imax B ->
  append_i A B =
  Ok (mkIT (iname A) (ients A ++ map (shift (imax A)) (ients B)) (imin A) (imax A + imax B)).
Proof.
  intros HA HB HAs H0 HB0 HB1. pose proof HA as (WA & SA & LA). pose proof HB as (WB & SB & LB).
  unfold append_i. rewrite edit_i_ok by (assumption || discriminate). cbn [bind ients].
  assert (Forall (fun i => 0 <= istart i + imax A) (ients B)) as Hn.
  { rewrite Forall_forall in *. intros i Hi. destruct (SB i Hi). lia. }
  rewrite (edit_pure_shift _ _ (proj1 WB) Hn).
  set (l := ients A ++ map (shift (imax A)) (ients B)).
  assert (wf_ients l) as W.
  { apply wf_ients_app; [exact WA|apply wf_ients_shift, WB|].
    intros i j Hi Hj. apply in_map_iff in Hj as (k & <- & Hk).
    rewrite Forall_forall in SA, SB. destruct (SA i Hi), (SB k Hk). unfold before, shift; simpl. lia. }
  assert (Forall (in_span (imin A) (imax A + imax B)) l) as S.
  { apply Forall_app. split.
    - eapply Forall_impl; [|exact SA]. intros i [X Y]. split; [exact X|lia].
    - rewrite Forall_forall in *. intros j Hj. apply in_map_iff in Hj as (k & <- & Hk).
      destruct (SB k Hk). unfold in_span, shift; simpl. lia. }
  rewrite new_itier_ok; [|exact W|].
  - rewrite (hull_min_in_span _ _ _ S), (hull_max_in_span _ _ _ S). reflexivity.
  - unfold labels_stripped. apply Forall_app. split; [exact LA|].
    apply labels_stripped_map; [reflexivity|exact LB].
Qed.
