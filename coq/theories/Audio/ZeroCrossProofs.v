(* Audio/ZeroCrossProofs.v -- the zero-crossing search terminates, and what it returns is a
   genuine crossing on a sample position inside the recording (C18). *)
From Coq Require Import Lia ZArith.
From PraatIO Require Import Audio.ZeroCross.
Open Scope Z_scope.
Local Arguments Z.mul : simpl never.
Local Arguments Z.add : simpl never.
Local Arguments Z.sub : simpl never.

Lemma find_first_spec {A} (p : A -> bool) d l : forall i k,
  find_first p l i = Some k -> exists j, k = (i + j)%nat /\ (j < length l)%nat /\ p (nth j l d) = true.
Proof.
  induction l as [|x l IH]; intros i k; simpl; [discriminate|].
  destruct (p x) eqn:E.
  - intros [= <-]. exists 0%nat. repeat split; [lia|lia|exact E].
  - intro H. apply IH in H as (j & -> & L & P). exists (S j). repeat split; [lia|lia|exact P].
Qed.

Lemma find_last_spec {A} (p : A -> bool) d l : forall i best k,
  find_last p l i best = Some k ->
  best = Some k \/ exists j, k = (i + j)%nat /\ (j < length l)%nat /\ p (nth j l d) = true.
Proof.
  induction l as [|x l IH]; intros i best k; simpl; [auto|].
  intro H. apply IH in H as [H|(j & -> & L & P)].
  - destruct (p x) eqn:E; [|auto]. injection H as <-. right. exists 0%nat. repeat split; [lia|lia|exact E].
  - right. exists (S j). repeat split; [lia|lia|exact P].
Qed.

Lemma find_idx_spec {A} (p : A -> bool) d l rev k :
  find_idx p l rev = Some k -> (k < length l)%nat /\ p (nth k l d) = true.
Proof.
  unfold find_idx. destruct rev; intro H.
  - apply (find_last_spec p d) in H as [H|(j & -> & L & P)]; [discriminate|]. simpl. auto.
  - apply (find_first_spec p d) in H as (j & -> & L & P). simpl. auto.
Qed.

Lemma changes_spec w : forall j, (j < length (changes w))%nat ->
  (S j < length w)%nat /\ nth j (changes w) false = negb (zsign (nth j w 0) =? zsign (nth (S j) w 0)).
Proof.
  induction w as [|a w IH]; intros j H; [simpl in H; lia|].
  destruct w as [|b w']; [simpl in H; lia|].
  change (changes (a :: b :: w')) with (negb (zsign a =? zsign b) :: changes (b :: w')) in *.
  destruct j as [|j].
  - split; [simpl; lia|reflexivity].
  - cbn [length] in H. destruct (IH j) as (L & N); [lia|]. split; [cbn [length] in *; lia|exact N].
Qed.

(* what the window search returns is a crossing inside the window *)
Lemma next_crossing_spec w rev i : next_crossing w rev = Some i -> crossing w i.
Proof.
  unfold next_crossing. destruct (find_idx (fun x => x =? 0) w rev) as [k|] eqn:E.
  - intros [= <-]. apply (find_idx_spec _ 0) in E as (L & P). split; [exact L|left; lia].
  - unfold threshold_crossing. destruct (find_idx (fun b : bool => b) (changes w) rev) as [k|] eqn:F; [|discriminate].
    apply (find_idx_spec _ false) in F as (L & P). destruct (changes_spec w k L) as (L2 & N).
    rewrite N in P. apply negb_true_iff, Z.eqb_neq in P.
    destruct (Z.abs (nth (S k) w 0) <? Z.abs (nth k w 0)); intros [= <-].
    + split; [exact L2|]. right. right. exists k. auto.
    + split; [lia|]. right. left. auto.
Qed.

Lemma nth_firstn_lt {A} (l : list A) n i d : (i < n)%nat -> nth i (firstn n l) d = nth i l d.
Proof.
  revert l i; induction n as [|n IH]; intros l i H; [lia|].
  destruct l as [|x l]; [now destruct i|]. destruct i as [|i]; [reflexivity|]. simpl. apply IH. lia.
Qed.
Lemma nth_skipn_add {A} (l : list A) n i d : nth i (skipn n l) d = nth (n + i) l d.
Proof.
  revert l; induction n as [|n IH]; intro l; [reflexivity|].
  destruct l as [|x l]; [now destruct i|]. simpl. apply IH.
Qed.

(* a crossing inside a window of the recording is a crossing of the recording *)
Lemma crossing_window s A n i : crossing (firstn n (skipn A s)) i -> crossing s (A + i).
Proof.
  intros (L & H). rewrite firstn_length, skipn_length in L.
  assert (forall k, (k < n)%nat -> nth k (firstn n (skipn A s)) 0 = nth (A + k) s 0) as N.
  { intros k Hk. rewrite nth_firstn_lt by exact Hk. apply nth_skipn_add. }
  split; [lia|]. destruct H as [H|[(H & L2)|(k & -> & H)]].
  - left. rewrite <- N by lia. exact H.
  - rewrite firstn_length, skipn_length in L2. right. left. split; [|lia].
    rewrite <- N by lia. replace (S (A + i)) with (A + S i)%nat by lia. rewrite <- N by lia. exact H.
  - right. right. exists (A + k)%nat. split; [lia|]. rewrite <- !N by lia. exact H.
Qed.

Lemma rhe_nonneg n d : 0 < d -> 0 <= n -> 0 <= round_half_even n d.
Proof.
  intros Hd Hn. unfold round_half_even. pose proof (Z.div_pos n d Hn Hd).
  destruct (2 * (n mod d) <? d); [lia|]. destruct (d <? 2 * (n mod d)); [lia|]. destruct (Z.even (n / d)); lia.
Qed.

Lemma get_interval_nonneg start dur mx rev : 0 <= fst (get_interval start dur mx rev).
Proof.
  unfold get_interval. destruct rev.
  - destruct (start - dur <? 0) eqn:E; simpl; [lia|]. destruct (mx <? start); simpl; lia.
  - destruct (start <? 0) eqn:E; simpl; [lia|]. destruct (mx <? start + dur); simpl; lia.
Qed.

Definition on_crossing (K : Z) (s : list Z) (x : Z) : Prop := exists j, x = Z.of_nat j * K /\ crossing s j.

Lemma iter_zc_spec K dur s start within step rev x : 0 < K ->
  iter_zc K dur s start within step rev = Some x -> on_crossing K s x.
Proof.
  intros HK. unfold iter_zc. destruct within; [|discriminate].
  pose proof (get_interval_nonneg start step dur rev) as NN.
  destruct (get_interval start step dur rev) as [a b]. simpl in NN.
  destruct (next_crossing (between s (frK K a) (frK K b)) rev) as [i|] eqn:E; [|discriminate].
  intros [= <-]. apply next_crossing_spec in E. unfold between in E. apply crossing_window in E.
  pose proof (rhe_nonneg a K HK NN) as R. unfold frK in *.
  exists (Z.to_nat (round_half_even a K) + i)%nat. split; [|exact E].
  rewrite Nat2Z.inj_add, Z2Nat.id by exact R. reflexivity.
Qed.

Lemma choose_spec t a b x : choose t a b = Some x -> a = Some x \/ b = Some x.
Proof.
  unfold choose. destruct a as [p|], b as [q|].
  - destruct (Z.abs (p - t) <=? Z.abs (q - t)); intros [= <-]; auto.
  - intros [= <-]; auto.
  - intros [= <-]; auto.
  - discriminate.
Qed.

(* whenever the search returns, the result is on a sample position and is a genuine crossing *)
Theorem zc_loop_sound K dur st t s : 0 < K -> forall fuel left right x,
  zc_loop fuel K dur st t left right s = Ok x -> on_crossing K s x.
Proof.
  intros HK. induction fuel as [|f IH]; intros left right x; simpl; [discriminate|].
  destruct (choose t _ _) as [y|] eqn:E.
  - intros [= <-]. apply choose_spec in E as [E|E]; eapply iter_zc_spec; eauto.
  - destruct ((left <? 0) && (dur <? right)); [discriminate|]. apply IH.
Qed.

(* the search terminates: it never runs out of the fuel computed from the distances to the ends *)
Theorem zc_loop_terminates K dur st t s : 0 < st -> forall fuel left right,
  Z.max 0 (Z.max (left + 1) (dur - right + 1)) < Z.of_nat fuel ->
  zc_loop fuel K dur st t left right s <> Err PyError.
Proof.
  intros Hst. induction fuel as [|f IH]; intros left right Hm; [lia|]. simpl.
  destruct (choose t _ _); [discriminate|].
  destruct ((left <? 0) && (dur <? right)) eqn:E; [discriminate|].
  apply IH. apply andb_false_iff in E. lia.
Qed.

Lemma zc_loop_errors K dur st t s : forall fuel left right e,
  zc_loop fuel K dur st t left right s = Err e -> e = FindZeroCrossingError \/ e = PyError.
Proof.
  induction fuel as [|f IH]; intros left right e; simpl; [intros [= <-]; auto|].
  destruct (choose t _ _); [discriminate|].
  destruct ((left <? 0) && (dur <? right)); [intros [= <-]; auto|apply IH].
Qed.

Theorem find_zc_total K s t st : 0 < K ->
  match find_zc K s t st with
  | Ok x => on_crossing K s x
  | Err e => (e = ArgumentError /\ st < 2 * K) \/ (e = FindZeroCrossingError /\ 2 * K <= st)
  end.
Proof.
  intro HK. unfold find_zc. destruct (st <? 2 * K) eqn:E; [left; split; [reflexivity|lia]|].
  set (dur := Z.of_nat (length s) * K).
  set (fuel := (Z.to_nat (Z.max (t + 1) (dur - t + 1)) + 1)%nat).
  destruct (zc_loop fuel K dur st t t t s) as [x|e] eqn:R.
  - eapply zc_loop_sound; eauto.
  - right. split; [|lia]. destruct (zc_loop_errors _ _ _ _ _ _ _ _ _ R) as [->| ->]; [reflexivity|].
    exfalso. eapply (zc_loop_terminates K dur st t s); [lia| |exact R]. unfold fuel. lia.
Qed.

(* on a crossing: inside the recording *)
Lemma on_crossing_range K s x : 0 < K -> on_crossing K s x -> 0 <= x < Z.of_nat (length s) * K.
Proof. intros HK (j & -> & (L & _)). nia. Qed.
