(* Audio/ZeroCrossFound.v -- C18: a zero sample right before an on-sample target is found; in particular the
   search never reports "no crossing" on a silent recording when the target is after its first sample. *)
From Coq Require Import Lia ZArith.
From PraatIO Require Import Audio.ZeroCross Audio.ZeroCrossProofs Audio.KeepDeleteProofs.
Open Scope Z_scope.
Local Arguments Z.mul : simpl never.
Local Arguments Z.add : simpl never.
Local Arguments Z.sub : simpl never.

Lemma find_last_none {A} (p : A -> bool) (l : list A) : forall i best,
  find_last p l i best = None -> best = None /\ forall x, In x l -> p x = false.
Proof.
  induction l as [|a l IH]; intros i best H; cbn [find_last] in H.
  - split; [exact H|]. intros x [].
  - destruct (IH _ _ H) as [Hb Hl]. destruct (p a) eqn:Ep; [discriminate Hb|].
    split; [exact Hb|]. intros x [<-|Hx]; [exact Ep|exact (Hl x Hx)].
Qed.

Lemma rhe_le_succ n d : 0 < d -> round_half_even n d <= n / d + 1.
Proof.
  intros Hd. unfold round_half_even.
  destruct (2 * (n mod d) <? d); [lia|]. destruct (d <? 2 * (n mod d)); [lia|]. destruct (Z.even (n / d)); lia.
Qed.

(* the sample before index k is the last one of the window [a, k) *)
Lemma between_last (s : list Z) (a k : nat) :
  (a < k)%nat -> (k <= length s)%nat ->
  In (nth (k - 1) s 0) (between s (Z.of_nat a) (Z.of_nat k)).
Proof.
  intros Hak Hk. unfold between. rewrite !Nat2Z.id.
  assert (Hlen : length (firstn (k - a) (skipn a s)) = (k - a)%nat)
    by (rewrite firstn_length, skipn_length; lia).
  replace (nth (k - 1) s 0) with (nth (k - 1 - a) (firstn (k - a) (skipn a s)) 0).
  - apply nth_In. rewrite Hlen. lia.
  - rewrite nth_firstn_lt by lia. rewrite nth_skipn_add. f_equal. lia.
Qed.

Lemma iter_zc_left_zero K s k st :
  0 < K -> (1 <= k <= length s)%nat -> nth (k - 1) s 0 = 0 -> 2 * K <= st ->
  exists y, iter_zc K (Z.of_nat (length s) * K) s (Z.of_nat k * K) (0 <? Z.of_nat k * K) (st + K) true = Some y.
Proof.
  intros HK Hk Hz Hst.
  assert (Ht : 0 <? Z.of_nat k * K = true) by (apply Z.ltb_lt; nia).
  rewrite Ht. unfold iter_zc.
  destruct (get_interval (Z.of_nat k * K) (st + K) (Z.of_nat (length s) * K) true) as [a b] eqn:E.
  assert (Hab : b = Z.of_nat k * K /\ 0 <= a <= Z.of_nat k * K - 3 * K \/ b = Z.of_nat k * K /\ a = 0).
  { unfold get_interval in E.
    destruct (Z.of_nat k * K - (st + K) <? 0) eqn:E1.
    - injection E as <- <-. right. split; reflexivity.
    - destruct (Z.of_nat (length s) * K <? Z.of_nat k * K) eqn:E2; [exfalso; nia|].
      injection E as <- <-. left. split; [reflexivity|lia]. }
  assert (Hb : frK K b = Z.of_nat k) by (unfold frK; destruct Hab as [[-> _]|[-> _]]; apply rhe_exact; exact HK).
  assert (Ha : 0 <= frK K a < Z.of_nat k).
  { unfold frK. destruct Hab as [[_ Ha]|[_ ->]].
    - split; [apply rhe_nonneg; lia|].
      pose proof (rhe_le_succ a K HK).
      assert (a / K <= Z.of_nat k - 3) by (apply Z.div_le_upper_bound; nia). lia.
    - replace 0 with (0 * K) at 2 3 by lia. rewrite rhe_exact by exact HK. lia. }
  rewrite Hb.
  pose proof (between_last s (Z.to_nat (frK K a)) k ltac:(lia) ltac:(lia)) as Hin.
  rewrite Z2Nat.id in Hin by lia. rewrite Hz in Hin.
  unfold next_crossing, find_idx.
  destruct (find_last (fun x => x =? 0) (between s (frK K a) (Z.of_nat k)) 0%nat None) as [i|] eqn:Ef.
  - eexists; reflexivity.
  - exfalso. destruct (find_last_none _ _ _ _ Ef) as [_ Hall]. specialize (Hall 0 Hin). discriminate Hall.
Qed.

Theorem find_zc_zero_before_target K s k st :
  0 < K -> (1 <= k <= length s)%nat -> nth (k - 1) s 0 = 0 -> 2 * K <= st ->
  exists x, find_zc K s (Z.of_nat k * K) st = Ok x.
Proof.
  intros HK Hk Hz Hst. unfold find_zc.
  assert (E : st <? 2 * K = false) by (apply Z.ltb_ge; lia). rewrite E.
  rewrite Nat.add_1_r. cbn [zc_loop].
  destruct (iter_zc_left_zero K s k st HK Hk Hz Hst) as [y Hy]. rewrite Hy.
  match goal with |- context [choose ?t (Some y) ?r] => destruct r as [z|] end; cbn [choose].
  - destruct (Z.abs (y - Z.of_nat k * K) <=? Z.abs (z - Z.of_nat k * K)); eexists; reflexivity.
  - eexists; reflexivity.
Qed.

(* silence: every sample is zero *)
Corollary find_zc_silence K s k st :
  0 < K -> Forall (fun x => x = 0) s -> (1 <= k <= length s)%nat -> 2 * K <= st ->
  exists x, find_zc K s (Z.of_nat k * K) st = Ok x.
Proof.
  intros HK Hall Hk Hst. apply find_zc_zero_before_target; try assumption.
  rewrite Forall_forall in Hall. apply Hall. apply nth_In. lia.
Qed.

Example find_zc_silence_somewhere : find_zc 4 [0; 0; 0; 0; 0; 0] 4 8 = Ok 4.
Proof. vm_compute. reflexivity. Qed.
