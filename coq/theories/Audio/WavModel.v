(* Audio/WavModel.v -- praatio/audio.py: PCM sample codec (struct '<b/h/i'),
   time -> frame index, in-memory Wav edits on the byte string, and the same
   edits on the list of samples (the specification). *)
From PraatIO Require Export Base.Prelude.
Open Scope Z_scope.

(* ------------------------------------------------------------------ *)
(* little-endian two's-complement samples of w bytes                    *)

Definition pow256 (w : nat) : Z := 256 ^ Z.of_nat w.

Fixpoint enc_u (w : nat) (v : Z) : list Z :=
  match w with O => [] | S w' => (v mod 256) :: enc_u w' (v / 256) end.

Fixpoint dec_u (bs : list Z) : Z :=
  match bs with [] => 0 | b :: r => b + 256 * dec_u r end.

Definition enc_s (w : nat) (s : Z) : list Z := enc_u w (s mod pow256 w).
Definition dec_s (w : nat) (bs : list Z) : Z :=
  let u := dec_u bs in if 2 * u <? pow256 w then u else u - pow256 w.

Definition in_range (w : nat) (s : Z) : Prop := - (pow256 w) <= 2 * s < pow256 w.
Definition in_rangeb (w : nat) (s : Z) : bool := (- (pow256 w) <=? 2 * s) && (2 * s <? pow256 w).
Definition is_byte (b : Z) : Prop := 0 <= b < 256.

(* convertToBytes: struct.pack raises on out-of-range values *)
Definition encode_all (w : nat) (l : list Z) : list Z := flat_map (enc_s w) l.
Definition convert_to_bytes (w : nat) (l : list Z) : res (list Z) :=
  if forallb (in_rangeb w) l then Ok (encode_all w l) else Err PyError.

(* convertFromBytes: struct.unpack raises unless the length is a whole number of samples *)
Fixpoint decode_chunks (fuel : nat) (w : nat) (bs : list Z) : list Z :=
  match fuel with
  | O => []
  | S f => match bs with
           | [] => []
           | _ => dec_s w (firstn w bs) :: decode_chunks f w (skipn w bs)
           end
  end.
Definition decode_all (w : nat) (bs : list Z) : list Z := decode_chunks (length bs) w bs.
Definition convert_from_bytes (w : nat) (bs : list Z) : res (list Z) :=
  if (w =? 0)%nat then Err PyError
  else if (length bs mod w =? 0)%nat then Ok (decode_all w bs) else Err PyError.

(* ------------------------------------------------------------------ *)
(* times are rationals num/den (den > 0); Wav._getIndexAtTime            *)

Definition frame_at (rate : Z) (t : Z * Z) : Z := round_half_even (fst t * rate) (snd t).
Definition index_at (rate : Z) (w : nat) (t : Z * Z) : Z := frame_at rate t * Z.of_nat w.
(* as the code stood before the repair of F13: rounds to a byte, not to a sample *)
Definition index_at_legacy (rate : Z) (w : nat) (t : Z * Z) : Z := round_half_even (fst t * rate * Z.of_nat w) (snd t).

(* Python slicing l[:i], l[i:], l[i:j] for non-negative i, j (times are >= 0) *)
Definition upto {A} (l : list A) (i : Z) : list A := firstn (Z.to_nat i) l.
Definition from {A} (l : list A) (i : Z) : list A := skipn (Z.to_nat i) l.
Definition between {A} (l : list A) (i j : Z) : list A := firstn (Z.to_nat j - Z.to_nat i) (skipn (Z.to_nat i) l).

Record wav := mkWav { w_frames : list Z; w_width : nat; w_rate : Z }.

Definition wav_get_frames (v : wav) (t0 t1 : Z * Z) : list Z :=
  between (w_frames v) (index_at (w_rate v) (w_width v) t0) (index_at (w_rate v) (w_width v) t1).
Definition wav_get_samples (v : wav) (t0 t1 : Z * Z) : res (list Z) :=
  convert_from_bytes (w_width v) (wav_get_frames v t0 t1).
Definition wav_delete (v : wav) (t0 t1 : Z * Z) : wav :=
  let i := index_at (w_rate v) (w_width v) t0 in
  let j := index_at (w_rate v) (w_width v) t1 in
  mkWav (upto (w_frames v) i ++ from (w_frames v) j) (w_width v) (w_rate v).
Definition wav_insert (v : wav) (t : Z * Z) (fs : list Z) : wav :=
  let i := index_at (w_rate v) (w_width v) t in
  mkWav (upto (w_frames v) i ++ fs ++ from (w_frames v) i) (w_width v) (w_rate v).
Definition wav_replace (v : wav) (t0 t1 : Z * Z) (fs : list Z) : wav := wav_insert (wav_delete v t0 t1) t0 fs.
Definition wav_concat (v : wav) (fs : list Z) : wav := mkWav (w_frames v ++ fs) (w_width v) (w_rate v).
Definition wav_subwav (v : wav) (t0 t1 : Z * Z) : wav := mkWav (wav_get_frames v t0 t1) (w_width v) (w_rate v).
(* duration as the exact rational (numerator, denominator) *)
Definition wav_duration (v : wav) : Z * Z := (Z.of_nat (length (w_frames v)), w_rate v * Z.of_nat (w_width v)).

(* readFramesAtTime on a file holding the samples s: frames between the nearest sample indices *)
Definition read_frames_at (rate : Z) (s : list Z) (t0 t1 : Z * Z) : list Z :=
  between s (frame_at rate t0) (frame_at rate t1).

(* ------------------------------------------------------------------ *)
(* the specification: the same edits on the list of samples              *)

Record swav := mkSW { s_samples : list Z; s_rate : Z }.
Definition sw_get (v : swav) (t0 t1 : Z * Z) : list Z := between (s_samples v) (frame_at (s_rate v) t0) (frame_at (s_rate v) t1).
Definition sw_delete (v : swav) (t0 t1 : Z * Z) : swav :=
  mkSW (upto (s_samples v) (frame_at (s_rate v) t0) ++ from (s_samples v) (frame_at (s_rate v) t1)) (s_rate v).
Definition sw_insert (v : swav) (t : Z * Z) (f : list Z) : swav :=
  mkSW (upto (s_samples v) (frame_at (s_rate v) t) ++ f ++ from (s_samples v) (frame_at (s_rate v) t)) (s_rate v).

Inductive wop :=
| WInsert (t : Z * Z) (f : list Z)          (* frames given as samples *)
| WDelete (t0 t1 : Z * Z)
| WReplace (t0 t1 : Z * Z) (f : list Z)
| WConcat (f : list Z)
| WSubwav (t0 t1 : Z * Z).

Definition run_wop (v : wav) (o : wop) : wav :=
  match o with
  | WInsert t f => wav_insert v t (encode_all (w_width v) f)
  | WDelete a b => wav_delete v a b
  | WReplace a b f => wav_replace v a b (encode_all (w_width v) f)
  | WConcat f => wav_concat v (encode_all (w_width v) f)
  | WSubwav a b => wav_subwav v a b
  end.

Definition run_sop (v : swav) (o : wop) : swav :=
  match o with
  | WInsert t f => sw_insert v t f
  | WDelete a b => sw_delete v a b
  | WReplace a b f => sw_insert (sw_delete v a b) a f
  | WConcat f => mkSW (s_samples v ++ f) (s_rate v)
  | WSubwav a b => mkSW (sw_get v a b) (s_rate v)
  end.
