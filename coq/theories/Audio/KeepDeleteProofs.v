(* Audio/KeepDeleteProofs.v -- the keep/delete marking tiles the recording; reading with a
   marking keeps exactly the kept samples, in place when a replacement is generated (C17). *)
From Coq Require Import Lia ZArith Sorted Permutation.
From PraatIO Require Import Audio.KeepDelete.
Open Scope Z_scope.
Local Arguments Z.mul : simpl never.
Local Arguments Z.add : simpl never.

(* ------------------------------------------------------------------ *)
(* rendering a tiling                                                   *)

Lemma tiling_le lo ms hi : tiling lo ms hi -> (lo <= hi)%nat.
Proof.
  revert lo; induction ms as [|[[a b] k] ms IH]; intro lo; simpl; [lia|].
  intros (-> & Hab & T). apply IH in T. lia.
Qed.

Lemma nth_firstn_lt {A} (l : list A) n i d : (i < n)%nat -> nth i (firstn n l) d = nth i l d.
Proof.
  revert l i; induction n as [|n IH]; intros l i H; [lia|].
  destruct l as [|x l]; [now destruct i|]. destruct i as [|i]; [reflexivity|]. simpl. apply IH. lia.
Qed.

Lemma nth_skipn_add {A} (l : list A) n i d : nth i (skipn n l) d = nth (n + i) l d.
Proof.
  revert l; induction n as [|n IH]; intro l; [reflexivity|].
  destruct l as [|x l]; [now destruct i|]. simpl. apply IH.
Qed.

Section Render.
  Context (s : list Z) (g : nat -> list Z) (Hg : forall n, length (g n) = n).

  Lemma piece_idx_length a b k : (a <= b)%nat -> (b <= length s)%nat -> length (piece_idx s g (a, b, k)) = (b - a)%nat.
  Proof.
    intros H1 H2. simpl. destruct k; [|apply Hg].
    rewrite firstn_length, skipn_length. lia.
  Qed.

  (* with a replacement generator the result has the original length and every kept sample
     is at its original position *)
  Theorem render_tiling ms : forall lo hi, tiling lo ms hi -> (hi <= length s)%nat ->
    length (flat_map (piece_idx s g) ms) = (hi - lo)%nat
    /\ forall a b i d, In (a, b, true) ms -> (a <= i < b)%nat ->
         nth (i - lo) (flat_map (piece_idx s g) ms) d = nth i s d.
  Proof.
    induction ms as [|[[a b] k] ms IH]; intros lo hi T Hhi.
    - simpl in *. split; [lia|]. intros ? ? ? ? [].
    - simpl in T. destruct T as (-> & Hab & T). pose proof (tiling_le _ _ _ T) as Hbh.
      destruct (IH _ _ T Hhi) as (L & N).
      assert (length (piece_idx s g (lo, b, k)) = (b - lo)%nat) as LP by (apply piece_idx_length; lia).
      cbn [flat_map]. split.
      + rewrite app_length, LP, L. lia.
      + intros a' b' i d [E|Hin] Hi.
        * injection E as E1 E2 E3. subst a' b' k. rewrite app_nth1 by (rewrite LP; lia).
          simpl. rewrite nth_firstn_lt by lia. rewrite nth_skipn_add. f_equal. lia.
        * assert (b <= a')%nat as Hba.
          { clear -T Hin. revert b T. induction ms as [|[[x y] kk] ms IHm]; intros b T; [destruct Hin|].
            simpl in T. destruct T as (-> & Hxy & T). destruct Hin as [E|Hin]; [injection E as E1 _ _; lia|].
            specialize (IHm Hin _ T). lia. }
          rewrite app_nth2 by (rewrite LP; lia). rewrite LP.
          replace (i - lo - (b - lo))%nat with (i - b)%nat by lia. apply (N a' b'); assumption.
  Qed.

  (* without a replacement: exactly the samples of the kept stretches, in order *)
  Theorem render_keep_only ms :
    flat_map (piece_idx s (fun _ : nat => @nil Z)) ms
    = flat_map (fun m : nat * nat * bool => let '(a, b, k) := m in if k then firstn (b - a) (skipn a s) else @nil Z) ms.
  Proof. induction ms as [|[[a b] k] ms IH]; simpl; [reflexivity|]. now rewrite IH. Qed.
End Render.

(* ------------------------------------------------------------------ *)
(* rounding on sample positions is exact                                *)

Lemma rhe_exact K i : 0 < K -> round_half_even (i * K) K = i.
Proof.
  intro H. unfold round_half_even. rewrite Z.div_mul, Z.mod_mul by lia.
  assert (2 * 0 <? K = true) as -> by lia. reflexivity.
Qed.

(* ------------------------------------------------------------------ *)
(* _computeKeepDeleteIntervals                                          *)

Theorem both_lists_rejected start stop k ks d ds :
  keep_delete start stop (k :: ks) (d :: ds) = Err ArgumentError.
Proof. reflexivity. Qed.

Theorem no_lists_keeps_all start stop : keep_delete start stop [] [] = Ok [(start, stop, true)].
Proof. reflexivity. Qed.

(* well-formed interval list inside [lo,hi]: positive, in order, disjoint (touching allowed) *)
Fixpoint rchain (lo : Z) (l : list row) (hi : Z) : Prop :=
  match l with
  | [] => lo <= hi
  | r :: l' => lo <= fst r /\ fst r < snd r /\ rchain (snd r) l' hi
  end.

Fixpoint gaps (lo : Z) (l : list row) (hi : Z) : list row :=
  match l with
  | [] => if lo <? hi then [(lo, hi)] else []
  | r :: l' => (if lo <? fst r then [(lo, fst r)] else []) ++ gaps (snd r) l' hi
  end.

Definition nz (r : row) : bool := negb (fst r =? snd r).

Lemma rchain_lower lo l hi : rchain lo l hi -> Forall (fun r => lo <= fst r /\ fst r < snd r) l.
Proof.
  revert lo; induction l as [|r l IH]; intro lo; simpl; [constructor|].
  intros (A & B & C). constructor; [auto|].
  eapply Forall_impl; [|apply IH, C]. simpl. intros x (X1 & X2). lia.
Qed.

Lemma pleb2_lt a b : fst a < fst b -> pleb2 a b = true.
Proof. intro H. unfold pleb2. apply Z.compare_lt_iff in H. now rewrite H. Qed.

Lemma rchain_sorted lo l hi : rchain lo l hi -> StronglySorted (lebP pleb2) l.
Proof.
  revert lo; induction l as [|r l IH]; intro lo; simpl; [constructor|].
  intros (A & B & C). constructor; [eapply IH, C|].
  eapply Forall_impl; [|apply (rchain_lower _ _ _ C)]. simpl. intros x (X1 & X2). apply pleb2_lt. lia.
Qed.

Lemma rchain_valid lo l hi : rchain lo l hi -> existsb (fun r => snd r <=? fst r) l = false.
Proof.
  intro H. apply rchain_lower in H. induction H as [|r l (A & B) _ IH]; simpl; [reflexivity|].
  rewrite IH. assert (snd r <=? fst r = false) as -> by lia. reflexivity.
Qed.

(* the core: the gaps between consecutive intervals, framed by sentinels *)
Lemma gaps_framed l : forall x lo hi y, rchain lo l hi ->
  filter nz (consecutive_gaps ((x, lo) :: l ++ [(hi, y)])) = gaps lo l hi.
Proof.
  induction l as [|r l IH]; intros x lo hi y C.
  - simpl in *. unfold nz; simpl. destruct (lo =? hi) eqn:E; simpl.
    + assert (lo <? hi = false) as -> by lia. reflexivity.
    + assert (lo <? hi = true) as -> by lia. reflexivity.
  - simpl in C. destruct C as (A & B & C).
    change (consecutive_gaps ((x, lo) :: (r :: l) ++ [(hi, y)]))
      with ((lo, fst r) :: consecutive_gaps (r :: l ++ [(hi, y)])).
    cbn [filter gaps]. destruct r as [a b]. simpl fst in *. simpl snd in *. unfold row in *.
    rewrite (IH a b hi y C). unfold nz at 1. simpl fst. simpl snd.
    destruct (lo =? a) eqn:E; simpl.
    + assert (lo <? a = false) as -> by lia. reflexivity.
    + assert (lo <? a = true) as -> by lia. reflexivity.
Qed.

Lemma consecutive_gaps_cons a b l : consecutive_gaps (a :: b :: l) = (snd a, fst b) :: consecutive_gaps (b :: l).
Proof. reflexivity. Qed.

(* appending the tail sentinel to a list whose last interval ends at hi adds only an empty gap *)
Lemma gaps_tail_noop l : forall r0 hi y, (match last_opt (r0 :: l) with Some rl => snd rl = hi | None => False end) ->
  filter nz (consecutive_gaps ((r0 :: l) ++ [(hi, y)])) = filter nz (consecutive_gaps (r0 :: l)).
Proof.
  induction l as [|r l IH]; intros r0 hi y H.
  - simpl in *. unfold nz; simpl. subst. now rewrite Z.eqb_refl.
  - change ((r0 :: r :: l) ++ [(hi, y)]) with (r0 :: (r :: l) ++ [(hi, y)]).
    change ((r :: l) ++ [(hi, y)]) with (r :: l ++ [(hi, y)]).
    rewrite !consecutive_gaps_cons. cbn [filter].
    change (r :: l ++ [(hi, y)]) with ((r :: l) ++ [(hi, y)]). rewrite (IH r hi y H). reflexivity.
Qed.

Lemma last_snd_chain l : forall lo hi r0, rchain lo (r0 :: l) hi ->
  match last_opt (r0 :: l) with Some rl => snd rl <= hi | None => False end.
Proof.
  induction l as [|r l IH]; intros lo hi r0 C.
  - simpl in *. tauto.
  - simpl in C. destruct C as (A & B & C). apply (IH (snd r0) hi r C).
Qed.

Lemma last_opt_app_one {A} (l : list A) x : last_opt (l ++ [x]) = Some x.
Proof.
  induction l as [|y l IH]; simpl; [reflexivity|].
  destruct (l ++ [x]) eqn:E; [destruct l; discriminate|exact IH].
Qed.

Lemma last_opt_cons_cons {A} (a b : A) l : last_opt (a :: b :: l) = last_opt (b :: l).
Proof. reflexivity. Qed.

(* utils.invertIntervalList on a well-formed list inside [lo,hi] returns exactly the gaps *)
Theorem invert_is_gaps lo l hi : rchain lo l hi -> lo < hi ->
  invert_list l (Some lo) (Some hi) = Ok (gaps lo l hi).
Proof.
  intros C Hlh. unfold invert_list. rewrite (rchain_valid _ _ _ C).
  rewrite (isort_sorted_id _ _ (rchain_sorted _ _ _ C)).
  destruct l as [|r0 l'].
  - simpl. assert (lo <? hi = true) as -> by lia. reflexivity.
  - cbn [bind]. pose proof C as C0. simpl in C. destruct C as (A & B & C).
    set (l1 := if lo <? fst r0 then (-1, lo) :: r0 :: l' else r0 :: l').
    assert (exists rl, last_opt l1 = Some rl /\ last_opt (r0 :: l') = Some rl) as (rl & E1 & E2).
    { destruct (last_opt (r0 :: l')) as [rl|] eqn:E.
      - exists rl. split; [|reflexivity]. unfold l1. destruct (lo <? fst r0); [rewrite last_opt_cons_cons|]; exact E.
      - pose proof (last_snd_chain _ _ _ _ C0) as H. rewrite E in H. contradiction. }
    rewrite E1. cbn [bind]. f_equal.
    pose proof (last_snd_chain _ _ _ _ C0) as HL. rewrite E2 in HL.
    (* normalise to the fully framed list *)
    transitivity (filter nz (consecutive_gaps (((-1, lo) :: r0 :: l') ++ [(hi, hi + 1)]))).
    { change (filter nz (consecutive_gaps (if snd rl <? hi then l1 ++ [(hi, hi + 1)] else l1))
              = filter nz (consecutive_gaps (((-1, lo) :: r0 :: l') ++ [(hi, hi + 1)]))).
      assert (filter nz (consecutive_gaps (l1 ++ [(hi, hi + 1)])) = filter nz (consecutive_gaps (((-1, lo) :: r0 :: l') ++ [(hi, hi + 1)]))) as F1.
      { unfold l1. destruct (lo <? fst r0) eqn:E; [reflexivity|].
        change (((-1, lo) :: r0 :: l') ++ [(hi, hi + 1)]) with ((-1, lo) :: (r0 :: l') ++ [(hi, hi + 1)]).
        change ((r0 :: l') ++ [(hi, hi + 1)]) with (r0 :: l' ++ [(hi, hi + 1)]).
        rewrite consecutive_gaps_cons. cbn [filter]. unfold nz at 2. simpl fst. simpl snd.
        assert (lo =? fst r0 = true) as -> by lia. reflexivity. }
      destruct (snd rl <? hi) eqn:E; [exact F1|].
      rewrite <- F1. unfold l1. destruct (lo <? fst r0).
      - symmetry. apply (gaps_tail_noop (r0 :: l') (-1, lo) hi (hi + 1)).
        change (last_opt ((-1, lo) :: r0 :: l')) with (last_opt (r0 :: l')). unfold row in *.
        destruct (last_opt (r0 :: l')) as [x|]; [injection E2 as ->; lia|discriminate].
      - symmetry. apply (gaps_tail_noop l' r0 hi (hi + 1)). unfold row in *.
        destruct (last_opt (r0 :: l')) as [x|]; [injection E2 as ->; lia|discriminate]. }
    change (((-1, lo) :: r0 :: l') ++ [(hi, hi + 1)]) with ((-1, lo) :: (r0 :: l') ++ [(hi, hi + 1)]).
    apply gaps_framed, C0.
Qed.

(* ------------------------------------------------------------------ *)
(* the marking is the interleaving of the intervals with their gaps       *)

Lemma mark_spec_perm lab lo l hi :
  Permutation (map (mk_mark lab) l ++ map (mk_mark (negb lab)) (gaps lo l hi)) (mark_spec lab lo l hi).
Proof.
  revert lo; induction l as [|r l IH]; intro lo; simpl.
  - destruct (lo <? hi); reflexivity.
  - rewrite map_app. destruct (lo <? fst r); simpl.
    + rewrite perm_swap. apply perm_skip.
      eapply Permutation_trans; [|apply perm_skip, IH].
      apply Permutation_sym, Permutation_middle.
    + apply perm_skip, IH.
Qed.

Fixpoint mtile (lo : Z) (ms : list mark) (hi : Z) : Prop :=
  match ms with
  | [] => lo = hi
  | m :: ms' => m_start m = lo /\ m_start m < m_end m /\ mtile (m_end m) ms' hi
  end.

Lemma mark_spec_tile lab lo l hi : rchain lo l hi -> mtile lo (mark_spec lab lo l hi) hi.
Proof.
  revert lo; induction l as [|r l IH]; intro lo; simpl.
  - intro H. destruct (lo <? hi) eqn:E; simpl; unfold m_start, m_end; simpl; lia.
  - intros (A & B & C). destruct (lo <? fst r) eqn:E; simpl; unfold m_start, m_end; simpl.
    + repeat split; try lia. apply IH, C.
    + repeat split; try lia. apply IH, C.
Qed.

Lemma mtile_lower lo ms hi : mtile lo ms hi -> Forall (fun m => lo <= m_start m) ms.
Proof.
  revert lo; induction ms as [|m ms IH]; intro lo; simpl; [constructor|].
  intros (A & B & C). constructor; [lia|].
  eapply Forall_impl; [|apply IH, C]. simpl. intros x X. lia.
Qed.

Lemma mleb_lt a b : m_start a < m_start b -> mleb a b = true.
Proof. intro H. unfold mleb. apply Z.compare_lt_iff in H. now rewrite H. Qed.

Lemma mtile_sorted lo ms hi : mtile lo ms hi -> StronglySorted (lebP mleb) ms.
Proof.
  revert lo; induction ms as [|m ms IH]; intro lo; simpl; [constructor|].
  intros (A & B & C). constructor; [eapply IH, C|].
  eapply Forall_impl; [|apply (mtile_lower _ _ _ C)]. simpl. intros x X. apply mleb_lt. lia.
Qed.

Lemma mleb_total a b : mleb a b = true \/ mleb b a = true.
Proof.
  unfold mleb. rewrite (Z.compare_antisym (m_start a)), (Z.compare_antisym (m_end a)).
  destruct (m_start a ?= m_start b); simpl; auto.
  destruct (m_end a ?= m_end b); simpl; auto.
  destruct (m_keep a), (m_keep b); simpl; auto.
Qed.

Lemma mleb_trans a b c : mleb a b = true -> mleb b c = true -> mleb a c = true.
Proof.
  unfold mleb.
  destruct (m_start a ?= m_start b) eqn:E1; try discriminate;
  destruct (m_start b ?= m_start c) eqn:E2; try discriminate;
  try (apply Z.compare_eq in E1); try (apply Z.compare_eq in E2);
  try rewrite Z.compare_lt_iff in *.
  - rewrite E1, E2, Z.compare_refl.
    destruct (m_end a ?= m_end b) eqn:F1; try discriminate;
    destruct (m_end b ?= m_end c) eqn:F2; try discriminate;
    try (apply Z.compare_eq in F1); try (apply Z.compare_eq in F2);
    try rewrite Z.compare_lt_iff in *.
    + rewrite F1, F2, Z.compare_refl. destruct (m_keep a), (m_keep b), (m_keep c); simpl; auto.
    + intros _ _. rewrite F1. apply Z.compare_lt_iff in F2. now rewrite F2.
    + intros _ _. rewrite <- F2. apply Z.compare_lt_iff in F1. now rewrite F1.
    + intros _ _. assert (m_end a < m_end c) as H by lia. apply Z.compare_lt_iff in H. now rewrite H.
  - intros _ _. rewrite E1. apply Z.compare_lt_iff in E2. now rewrite E2.
  - intros _ _. rewrite <- E2. apply Z.compare_lt_iff in E1. now rewrite E1.
  - intros _ _. assert (m_start a < m_start c) as H by lia. apply Z.compare_lt_iff in H. now rewrite H.
Qed.

Lemma mleb_antisym a b : mleb a b = true -> mleb b a = true -> a = b.
Proof.
  destruct a as [[s e] k], b as [[s' e'] k']. unfold mleb, m_start, m_end, m_keep; simpl.
  rewrite (Z.compare_antisym s), (Z.compare_antisym e).
  destruct (s ?= s') eqn:E1; simpl; try discriminate.
  destruct (e ?= e') eqn:E2; simpl; try discriminate.
  apply Z.compare_eq in E1, E2. subst. destruct k, k'; simpl; intros; congruence.
Qed.

(* _computeKeepDeleteIntervals: the labelled stretches tile [start, stop]; the given intervals
   carry their label, every gap the opposite one *)
Theorem keep_delete_keep lo hi k ks : rchain lo (k :: ks) hi -> lo < hi ->
  keep_delete lo hi (k :: ks) [] = Ok (mark_spec true lo (k :: ks) hi).
Proof.
  intros C H. unfold keep_delete. rewrite (invert_is_gaps _ _ _ C H). cbn [bind]. f_equal.
  apply (isort_unique mleb mleb_total mleb_trans mleb_antisym).
  - apply (mark_spec_perm true).
  - eapply mtile_sorted, mark_spec_tile, C.
Qed.

Theorem keep_delete_delete lo hi d ds : rchain lo (d :: ds) hi -> lo < hi ->
  keep_delete lo hi [] (d :: ds) = Ok (mark_spec false lo (d :: ds) hi).
Proof.
  intros C H. unfold keep_delete. rewrite (invert_is_gaps _ _ _ C H). cbn [bind]. f_equal.
  apply (isort_unique mleb mleb_total mleb_trans mleb_antisym).
  - eapply Permutation_trans; [apply Permutation_app_comm|]. apply (mark_spec_perm false).
  - eapply mtile_sorted, mark_spec_tile, C.
Qed.

Theorem keep_delete_tiles lo hi keep del ms :
  rchain lo (keep ++ del) hi -> lo < hi -> (keep = [] \/ del = []) ->
  keep_delete lo hi keep del = Ok ms -> mtile lo ms hi.
Proof.
  intros C H [-> | ->].
  - destruct del as [|d ds].
    + simpl. intros [= <-]. simpl. unfold m_start, m_end; simpl. repeat split; lia.
    + simpl app in C. rewrite (keep_delete_delete _ _ _ _ C H). intros [= <-]. exact (mark_spec_tile false lo (d :: ds) hi C).
  - rewrite app_nil_r in C. destruct keep as [|k ks].
    + simpl. intros [= <-]. simpl. unfold m_start, m_end; simpl. repeat split; lia.
    + rewrite (keep_delete_keep _ _ _ _ C H). intros [= <-]. exact (mark_spec_tile true lo (k :: ks) hi C).
Qed.

(* times beyond the recording are rejected *)
Theorem beyond_duration_rejected K s keep del gen marked m :
  keep_delete 0 (Z.of_nat (length s) * K) keep del = Ok marked -> last_opt marked = Some m ->
  Z.of_nat (length s) * K < m_end m -> read_at_times K s keep del gen = Err ArgumentError.
Proof.
  intros H1 H2 H3. unfold read_at_times. rewrite H1. cbn [bind]. rewrite H2.
  assert (Z.of_nat (length s) * K <? m_end m = true) as -> by lia. reflexivity.
Qed.
