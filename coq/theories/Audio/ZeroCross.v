(* Audio/ZeroCross.v -- AbstractWav.findNearestZeroCrossing and its helpers (C18).
   Times are integer ticks, K ticks per sample; s is the list of samples. *)
From PraatIO Require Export Base.Prelude Audio.WavModel.
Open Scope Z_scope.

Definition zsign (x : Z) : Z := if 0 <? x then 1 else if x <? 0 then -1 else 0.

(* utils.find(list, value, reverse): first / last index *)
Fixpoint find_first {A} (p : A -> bool) (l : list A) (i : nat) : option nat :=
  match l with
  | [] => None
  | x :: l' => if p x then Some i else find_first p l' (S i)
  end.
Fixpoint find_last {A} (p : A -> bool) (l : list A) (i : nat) (best : option nat) : option nat :=
  match l with
  | [] => best
  | x :: l' => find_last p l' (S i) (if p x then Some i else best)
  end.
Definition find_idx {A} (p : A -> bool) (l : list A) (reverse : bool) : option nat :=
  if reverse then find_last p l 0%nat None else find_first p l 0%nat.

(* changeList[i] = sign(samples[i]) != sign(samples[i+1]) *)
Fixpoint changes (l : list Z) : list bool :=
  match l with
  | a :: l' => match l' with b :: _ => negb (zsign a =? zsign b) :: changes l' | [] => [] end
  | [] => []
  end.

Definition threshold_crossing (w : list Z) (reverse : bool) : option nat :=
  match find_idx (fun b : bool => b) (changes w) reverse with
  | None => None
  | Some i => Some (if Z.abs (nth (S i) w 0) <? Z.abs (nth i w 0) then S i else i)
  end.

(* _findNextZeroCrossing: index inside the window *)
Definition next_crossing (w : list Z) (reverse : bool) : option nat :=
  match find_idx (fun x => x =? 0) w reverse with
  | Some i => Some i
  | None => threshold_crossing w reverse
  end.

(* utils.getInterval *)
Definition get_interval (start dur mx : Z) (reverse : bool) : Z * Z :=
  let '(s, e) := if reverse then (start - dur, start) else (start, start + dur) in
  if s <? 0 then (0, e) else if mx <? e then (s, mx) else (s, e).

Definition frK (K t : Z) : Z := round_half_even t K.

(* _iterZeroCrossings; the result is the time of the sample found (ticks) *)
Definition iter_zc (K dur : Z) (s : list Z) (start : Z) (within : bool) (step : Z) (reverse : bool) : option Z :=
  if within then
    let '(a, b) := get_interval start step dur reverse in
    let w := between s (frK K a) (frK K b) in
    match next_crossing w reverse with
    | Some i => Some ((frK K a + Z.of_nat i) * K)
    | None => None
    end
  else None.

(* utils.chooseClosestTime for at least one candidate *)
Definition choose (t : Z) (a b : option Z) : option Z :=
  match a, b with
  | None, None => None
  | None, Some y => Some y
  | Some x, None => Some x
  | Some x, Some y => if Z.abs (x - t) <=? Z.abs (y - t) then Some x else Some y
  end.

Fixpoint zc_loop (fuel : nat) (K dur st t left right : Z) (s : list Z) : res Z :=
  match fuel with
  | O => Err PyError                      (* out of fuel: excluded by the termination theorem *)
  | S f =>
      let l := iter_zc K dur s left (0 <? left) (st + K) true in
      let r := iter_zc K dur s right (right + st <? dur) (st + K) false in
      match choose t l r with
      | Some x => Ok x
      | None => if (left <? 0) && (dur <? right) then Err FindZeroCrossingError
                else zc_loop f K dur st t (left - st) (right + st) s
      end
  end.

Definition find_zc (K : Z) (s : list Z) (t st : Z) : res Z :=
  let dur := Z.of_nat (length s) * K in
  if st <? 2 * K then Err ArgumentError
  else zc_loop (Z.to_nat (Z.max (t + 1) (dur - t + 1)) + 1) K dur st t t t s.

(* a genuine crossing at sample index j *)
Definition crossing (s : list Z) (j : nat) : Prop :=
  (j < length s)%nat /\
  (nth j s 0 = 0 \/ zsign (nth j s 0) <> zsign (nth (S j) s 0) /\ (S j < length s)%nat
   \/ (exists i, j = S i /\ zsign (nth i s 0) <> zsign (nth j s 0))).
Definition crossingb (s : list Z) (j : nat) : bool :=
  (j <? length s)%nat &&
  ((nth j s 0 =? 0) || (negb (zsign (nth j s 0) =? zsign (nth (S j) s 0)) && (S j <? length s)%nat)
   || match j with S i => negb (zsign (nth i s 0) =? zsign (nth j s 0)) | O => false end).
