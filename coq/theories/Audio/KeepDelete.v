(* Audio/KeepDelete.v -- audio._computeKeepDeleteIntervals, readFramesAtTimes, the
   silence generator (C17).  Times are integer ticks, K ticks per sample. *)
From PraatIO Require Export Tier.QueryModel Audio.WavModel.
Open Scope Z_scope.

Definition mark := (Z * Z * bool)%type.          (* start, end, keep? *)
Definition m_start (m : mark) : Z := fst (fst m).
Definition m_end (m : mark) : Z := snd (fst m).
Definition m_keep (m : mark) : bool := snd m.

(* tuple order (start, end, label) with 'delete' < 'keep' *)
Definition mleb (a b : mark) : bool :=
  match Z.compare (m_start a) (m_start b) with
  | Lt => true | Gt => false
  | Eq => match Z.compare (m_end a) (m_end b) with
          | Lt => true | Gt => false
          | Eq => implb (m_keep a) (m_keep b)
          end
  end.

Definition mk_mark (k : bool) (r : row) : mark := (fst r, snd r, k).

Definition keep_delete (start stop : Z) (keep del : list row) : res (list mark) :=
  match keep, del with
  | _ :: _, _ :: _ => Err ArgumentError
  | [], [] => Ok [(start, stop, true)]
  | _, _ :: _ => do inv <- invert_list del (Some start) (Some stop);
                 Ok (isort mleb (map (mk_mark true) inv ++ map (mk_mark false) del))
  | _ :: _, [] => do inv <- invert_list keep (Some start) (Some stop);
                  Ok (isort mleb (map (mk_mark true) keep ++ map (mk_mark false) inv))
  end.

Definition fr (K t : Z) : Z := round_half_even t K.

(* what one marked stretch contributes: its samples, or generated audio of its duration *)
Definition piece (K : Z) (s : list Z) (gen : option (Z -> list Z)) (m : mark) : list Z :=
  if m_keep m then between s (fr K (m_start m)) (fr K (m_end m))
  else match gen with Some g => g (fr K (m_end m - m_start m)) | None => [] end.

Definition read_at_times (K : Z) (s : list Z) (keep del : list row) (gen : option (Z -> list Z)) : res (list Z) :=
  let dur := Z.of_nat (length s) * K in
  do marked <- keep_delete 0 dur keep del;
  match last_opt marked with
  | None => Err PyError
  | Some m => if dur <? m_end m then Err ArgumentError else Ok (flat_map (piece K s gen) marked)
  end.

(* AudioGenerator.generateSilence: round(rate * duration) zero samples *)
Definition silence (n : Z) : list Z := repeat 0 (Z.to_nat n).

(* ------------------------------------------------------------------ *)
(* specification vocabulary, in sample indices                          *)

(* consecutive stretches from lo to hi, each of positive length *)
Fixpoint tiling (lo : nat) (ms : list (nat * nat * bool)) (hi : nat) : Prop :=
  match ms with
  | [] => lo = hi
  | (a, b, _) :: ms' => a = lo /\ (a < b)%nat /\ tiling b ms' hi
  end.

Definition piece_idx (s : list Z) (g : nat -> list Z) (m : nat * nat * bool) : list Z :=
  let '(a, b, k) := m in if k then firstn (b - a) (skipn a s) else g (b - a)%nat.

(* the marking of [lo,hi] induced by a list of disjoint intervals in order: the intervals
   carry the label lab, the gaps between, before and after them the opposite one *)
Fixpoint mark_spec (lab : bool) (lo : Z) (l : list row) (hi : Z) : list mark :=
  match l with
  | [] => if lo <? hi then [(lo, hi, negb lab)] else []
  | r :: l' => (if lo <? fst r then [(lo, fst r, negb lab)] else []) ++ (fst r, snd r, lab) :: mark_spec lab (snd r) l' hi
  end.
