(* Audio/WavProofs.v -- sample codec round trips; byte-level Wav edits refine the
   list-of-samples edits (every edit acts on whole samples and leaves all other
   samples in place); insert-then-delete restores the original (C16). *)
From Coq Require Import Lia ZArith.
From PraatIO Require Import Audio.WavModel.
Open Scope Z_scope.
Local Arguments Z.mul : simpl never.
Local Arguments Z.add : simpl never.
Local Arguments Z.sub : simpl never.
Local Arguments Z.pow : simpl never.
Local Arguments Z.div : simpl never.
Local Arguments Z.modulo : simpl never.

Lemma In_firstn_in {A} n (l : list A) x : In x (firstn n l) -> In x l.
Proof. intro H. rewrite <- (firstn_skipn n l). apply in_or_app. now left. Qed.
Lemma In_skipn_in {A} n (l : list A) x : In x (skipn n l) -> In x l.
Proof. intro H. rewrite <- (firstn_skipn n l). apply in_or_app. now right. Qed.

Lemma pow256_pos w : 0 < pow256 w.
Proof. unfold pow256. apply Z.pow_pos_nonneg; lia. Qed.

Lemma pow256_S w : pow256 (S w) = 256 * pow256 w.
Proof. unfold pow256. rewrite Nat2Z.inj_succ, Z.pow_succ_r by lia. reflexivity. Qed.

Lemma enc_u_length w : forall v, length (enc_u w v) = w.
Proof. induction w as [|w IH]; intro v; simpl; [reflexivity|now rewrite IH]. Qed.

Lemma enc_u_bytes w : forall v, Forall is_byte (enc_u w v).
Proof.
  induction w as [|w IH]; intro v; simpl; constructor; [|apply IH].
  unfold is_byte. apply Z.mod_pos_bound. lia.
Qed.

Lemma dec_enc_u w : forall v, 0 <= v < pow256 w -> dec_u (enc_u w v) = v.
Proof.
  induction w as [|w IH]; intros v Hv; simpl.
  - unfold pow256 in Hv. simpl in Hv. lia.
  - rewrite pow256_S in Hv. rewrite IH.
    + pose proof (Z.div_mod v 256 ltac:(lia)). lia.
    + split; [apply Z.div_pos; lia|apply Z.div_lt_upper_bound; lia].
Qed.

Lemma dec_u_range bs : Forall is_byte bs -> 0 <= dec_u bs < pow256 (length bs).
Proof.
  induction 1 as [|b bs Hb _ IH]; simpl.
  - unfold pow256. simpl. lia.
  - change (pow256 (S (length bs))) with (pow256 (S (length bs))). rewrite pow256_S. unfold is_byte in Hb. lia.
Qed.

Lemma enc_dec_u bs : Forall is_byte bs -> enc_u (length bs) (dec_u bs) = bs.
Proof.
  induction 1 as [|b bs Hb Hbs IH]; simpl; [reflexivity|].
  unfold is_byte in Hb.
  assert ((b + 256 * dec_u bs) mod 256 = b) as ->.
  { replace (b + 256 * dec_u bs) with (b + dec_u bs * 256) by ring. rewrite Z.mod_add by lia. apply Z.mod_small. lia. }
  assert ((b + 256 * dec_u bs) / 256 = dec_u bs) as ->.
  { replace (b + 256 * dec_u bs) with (b + dec_u bs * 256) by ring. rewrite Z.div_add by lia.
    rewrite (Z.div_small b) by lia. lia. }
  now rewrite IH.
Qed.

(* converting a sample to bytes and back is the identity, for every value of the range *)
Theorem dec_enc_s w s : in_range w s -> dec_s w (enc_s w s) = s.
Proof.
  unfold in_range, dec_s, enc_s. intro H. pose proof (pow256_pos w) as P.
  rewrite dec_enc_u by (apply Z.mod_pos_bound; lia).
  destruct (Z_lt_le_dec s 0) as [N|N].
  - assert (s mod pow256 w = s + pow256 w) as ->.
    { symmetry. apply Z.mod_unique with (q := -1); lia. }
    destruct (2 * (s + pow256 w) <? pow256 w) eqn:E; lia.
  - rewrite Z.mod_small by lia. destruct (2 * s <? pow256 w) eqn:E; lia.
Qed.

(* ... and bytes to a sample and back *)
Theorem enc_dec_s w bs : Forall is_byte bs -> length bs = w -> enc_s w (dec_s w bs) = bs.
Proof.
  intros Hb <-. unfold enc_s, dec_s. pose proof (dec_u_range bs Hb) as R.
  assert (forall x, x = dec_u bs \/ x = dec_u bs - pow256 (length bs) -> x mod pow256 (length bs) = dec_u bs) as M.
  { intros x [->| ->].
    - apply Z.mod_small. lia.
    - symmetry. apply Z.mod_unique with (q := -1); lia. }
  rewrite M by (destruct (2 * dec_u bs <? pow256 (length bs)); auto).
  apply enc_dec_u, Hb.
Qed.

Lemma dec_s_range w bs : Forall is_byte bs -> length bs = w -> (0 < w)%nat -> in_range w (dec_s w bs).
Proof.
  intros Hb <- Hw. unfold in_range, dec_s. pose proof (dec_u_range bs Hb) as R.
  destruct (2 * dec_u bs <? pow256 (length bs)) eqn:E; lia.
Qed.

Lemma enc_s_length w s : length (enc_s w s) = w.
Proof. apply enc_u_length. Qed.

Lemma encode_all_length w l : length (encode_all w l) = (length l * w)%nat.
Proof. induction l as [|x l IH]; simpl; [reflexivity|]. rewrite app_length, enc_s_length, IH. lia. Qed.

Lemma encode_all_app w a b : encode_all w (a ++ b) = encode_all w a ++ encode_all w b.
Proof. unfold encode_all. apply flat_map_app. Qed.

Lemma decode_chunks_encode w l : (0 < w)%nat -> Forall (in_range w) l ->
  forall fuel, (length l <= fuel)%nat -> decode_chunks fuel w (encode_all w l) = l.
Proof.
  intros Hw. induction 1 as [|x l Hx _ IH]; intros fuel Hf.
  - destruct fuel; reflexivity.
  - destruct fuel as [|f]; [simpl in Hf; lia|]. simpl encode_all. cbn [decode_chunks].
    destruct (enc_s w x ++ encode_all w l) eqn:E.
    + assert (length (enc_s w x ++ encode_all w l) = 0%nat) as L by (rewrite E; reflexivity).
      rewrite app_length, enc_s_length in L. lia.
    + rewrite <- E.
      rewrite firstn_app, enc_s_length, Nat.sub_diag, firstn_O, app_nil_r.
      rewrite firstn_all2 by (rewrite enc_s_length; lia).
      rewrite skipn_app, enc_s_length, Nat.sub_diag. simpl skipn at 2.
      rewrite skipn_all2 by (rewrite enc_s_length; lia). simpl app.
      rewrite (dec_enc_s _ _ Hx), IH; [reflexivity|simpl in Hf; lia].
Qed.

(* samples -> bytes -> samples is the identity *)
Theorem decode_encode_all w l : (0 < w)%nat -> Forall (in_range w) l -> decode_all w (encode_all w l) = l.
Proof.
  intros Hw H. unfold decode_all. apply decode_chunks_encode; auto.
  rewrite encode_all_length. nia.
Qed.

Theorem convert_roundtrip w l : (0 < w)%nat -> Forall (in_range w) l ->
  convert_from_bytes w (encode_all w l) = Ok l.
Proof.
  intros Hw H. unfold convert_from_bytes.
  assert ((w =? 0)%nat = false) as -> by (apply Nat.eqb_neq; lia).
  rewrite encode_all_length, Nat.mod_mul by lia. simpl. now rewrite decode_encode_all.
Qed.

(* bytes -> samples -> bytes is the identity on whole samples *)
Lemma decode_chunks_step f w bs : bs <> [] ->
  decode_chunks (S f) w bs = dec_s w (firstn w bs) :: decode_chunks f w (skipn w bs).
Proof. destruct bs; [congruence|reflexivity]. Qed.

Lemma encode_decode_chunks w : (0 < w)%nat -> forall n bs fuel,
  length bs = (n * w)%nat -> Forall is_byte bs -> (n <= fuel)%nat ->
  encode_all w (decode_chunks fuel w bs) = bs.
Proof.
  intros Hw. induction n as [|n IH]; intros bs fuel L Hb Hf.
  - destruct bs; [|simpl in L; lia]. destruct fuel; reflexivity.
  - destruct fuel as [|f]; [lia|].
    assert (bs <> []) as NE by (intro E; subst; simpl in L; lia).
    rewrite (decode_chunks_step _ _ _ NE). cbn [encode_all flat_map]. fold (encode_all w (decode_chunks f w (skipn w bs))).
    assert (length (firstn w bs) = w) as L1 by (rewrite firstn_length; lia).
    rewrite enc_dec_s; [|apply Forall_forall; intros x Hx; rewrite Forall_forall in Hb; apply Hb;
                         eapply In_firstn_in; exact Hx|exact L1].
    rewrite IH; [apply firstn_skipn| rewrite skipn_length; lia| |lia].
    apply Forall_forall. intros x Hx. rewrite Forall_forall in Hb. apply Hb.
    eapply In_skipn_in; exact Hx.
Qed.

Theorem encode_decode_all w n bs : (0 < w)%nat -> length bs = (n * w)%nat -> Forall is_byte bs ->
  encode_all w (decode_all w bs) = bs.
Proof. intros Hw L Hb. unfold decode_all. apply (encode_decode_chunks w Hw n); auto. nia. Qed.

(* ------------------------------------------------------------------ *)
(* slicing the byte string at sample boundaries = slicing the samples   *)

Lemma firstn_encode w i l : firstn (i * w) (encode_all w l) = encode_all w (firstn i l).
Proof.
  revert l; induction i as [|i IH]; intro l; [reflexivity|].
  destruct l as [|x l]; [now rewrite firstn_nil|].
  simpl encode_all. replace (S i * w)%nat with (length (enc_s w x) + i * w)%nat by (rewrite enc_s_length; lia).
  rewrite firstn_app_2. now rewrite IH.
Qed.

Lemma skipn_encode w i l : skipn (i * w) (encode_all w l) = encode_all w (skipn i l).
Proof.
  revert l; induction i as [|i IH]; intro l; [reflexivity|].
  destruct l as [|x l]; [now rewrite skipn_nil|].
  simpl encode_all. replace (S i * w)%nat with (w + i * w)%nat by lia.
  rewrite skipn_app, skipn_all2 by (rewrite enc_s_length; lia).
  rewrite enc_s_length. replace (w + i * w - w)%nat with (i * w)%nat by lia. simpl. apply IH.
Qed.

Lemma to_nat_scaled k w : Z.to_nat (k * Z.of_nat w) = (Z.to_nat k * w)%nat.
Proof.
  destruct (Z_lt_le_dec k 0) as [N|N].
  - assert (k * Z.of_nat w <= 0) by nia.
    replace (Z.to_nat (k * Z.of_nat w)) with 0%nat by lia. replace (Z.to_nat k) with 0%nat by lia. reflexivity.
  - rewrite Z2Nat.inj_mul by lia. now rewrite Nat2Z.id.
Qed.

Section Refine.
  Context (w : nat) (r : Z).

  Lemma upto_index l t : upto (encode_all w l) (index_at r w t) = encode_all w (upto l (frame_at r t)).
  Proof. unfold upto, index_at. rewrite to_nat_scaled. apply firstn_encode. Qed.

  Lemma from_index l t : from (encode_all w l) (index_at r w t) = encode_all w (from l (frame_at r t)).
  Proof. unfold from, index_at. rewrite to_nat_scaled. apply skipn_encode. Qed.

  Lemma between_index l t0 t1 :
    between (encode_all w l) (index_at r w t0) (index_at r w t1) = encode_all w (between l (frame_at r t0) (frame_at r t1)).
  Proof.
    unfold between, index_at. rewrite !to_nat_scaled, <- Nat.mul_sub_distr_r, skipn_encode. apply firstn_encode.
  Qed.

  (* each edit of the byte string is the same edit of the sample list: whole samples are
     removed / inserted / returned, every other sample keeps its value and order *)
  Theorem wop_refines s o :
    w_frames (run_wop (mkWav (encode_all w s) w r) o) = encode_all w (s_samples (run_sop (mkSW s r) o)).
  Proof.
    destruct o as [t f|a b|a b f|f|a b]; simpl.
    - rewrite upto_index, from_index, <- !encode_all_app. reflexivity.
    - rewrite upto_index, from_index, <- encode_all_app. reflexivity.
    - rewrite upto_index, from_index, <- encode_all_app.
      rewrite upto_index, from_index, <- !encode_all_app. reflexivity.
    - now rewrite encode_all_app.
    - unfold wav_get_frames. simpl. apply between_index.
  Qed.

  Lemma run_wop_params v o : w_width (run_wop v o) = w_width v /\ w_rate (run_wop v o) = w_rate v.
  Proof. destruct o; simpl; auto. Qed.

  (* ... along every history of edits *)
  Theorem history_refines ops : forall s,
    w_frames (fold_left run_wop ops (mkWav (encode_all w s) w r))
    = encode_all w (s_samples (fold_left run_sop ops (mkSW s r)))
    /\ s_rate (fold_left run_sop ops (mkSW s r)) = r.
  Proof.
    induction ops as [|o ops IH]; intro s; simpl; [auto|].
    pose proof (wop_refines s o) as H.
    destruct (run_wop_params (mkWav (encode_all w s) w r) o) as [Hw Hr]. simpl in Hw, Hr.
    assert (run_wop (mkWav (encode_all w s) w r) o = mkWav (encode_all w (s_samples (run_sop (mkSW s r) o))) w r) as ->.
    { destruct (run_wop (mkWav (encode_all w s) w r) o) as [fr ww rr]. simpl in *. subst. reflexivity. }
    assert (run_sop (mkSW s r) o = mkSW (s_samples (run_sop (mkSW s r) o)) r) as E.
    { destruct o; reflexivity. }
    rewrite E at 2 3. apply IH.
  Qed.

  (* getSamples returns exactly the samples between the nearest sample indices *)
  Theorem get_samples_spec s t0 t1 : (0 < w)%nat -> Forall (in_range w) s ->
    wav_get_samples (mkWav (encode_all w s) w r) t0 t1 = Ok (sw_get (mkSW s r) t0 t1).
  Proof.
    intros Hw H. unfold wav_get_samples, wav_get_frames, sw_get. simpl. rewrite between_index.
    apply convert_roundtrip; [exact Hw|].
    apply Forall_forall. intros x Hx. rewrite Forall_forall in H. apply H.
    unfold between in Hx. apply In_firstn_in, In_skipn_in in Hx. exact Hx.
  Qed.

  (* the byte offset of every time is a whole number of samples *)
  Theorem index_aligned t : (Z.of_nat w | index_at r w t).
  Proof. unfold index_at. apply Z.divide_factor_r. Qed.
End Refine.

(* duration = sample count / frame rate, as exact rationals (cross-multiplied) *)
Theorem duration_is_samples_over_rate w r s :
  let d := wav_duration (mkWav (encode_all w s) w r) in
  fst d * r = Z.of_nat (length s) * snd d.
Proof. simpl. rewrite encode_all_length, Nat2Z.inj_mul. ring. Qed.

(* ------------------------------------------------------------------ *)
(* rounding: shifting a time by k whole samples shifts its index by k,   *)
(* except on exact ties between two samples (round-half-even)           *)

Lemma rhe_shift n d k : 0 < d -> 2 * (n mod d) <> d ->
  round_half_even (n + k * d) d = round_half_even n d + k.
Proof.
  intros Hd NT. unfold round_half_even.
  rewrite Z.div_add, Z.mod_add by lia.
  destruct (2 * (n mod d) <? d) eqn:E1; [lia|].
  destruct (d <? 2 * (n mod d)) eqn:E2; [lia|]. lia.
Qed.

Lemma rhe_scale n d c : 0 < d -> 0 < c -> round_half_even (n * c) (d * c) = round_half_even n d.
Proof.
  intros Hd Hc. unfold round_half_even.
  rewrite Z.div_mul_cancel_r by lia. rewrite Zmult_mod_distr_r.
  replace (2 * (n mod d * c)) with ((2 * (n mod d)) * c) by ring.
  destruct (2 * (n mod d) <? d) eqn:E1.
  - assert (2 * (n mod d) * c <? d * c = true) as -> by nia. reflexivity.
  - assert (2 * (n mod d) * c <? d * c = false) as -> by nia.
    destruct (d <? 2 * (n mod d)) eqn:E2.
    + assert (d * c <? 2 * (n mod d) * c = true) as -> by nia. reflexivity.
    + assert (d * c <? 2 * (n mod d) * c = false) as -> by nia. reflexivity.
Qed.

(* the time t + k/rate, for t = n/d *)
Definition plus_samples (rate : Z) (t : Z * Z) (k : Z) : Z * Z := (fst t * rate + k * snd t, snd t * rate).

Lemma frame_at_plus rate t k : 0 < rate -> 0 < snd t -> 2 * ((fst t * rate) mod snd t) <> snd t ->
  frame_at rate (plus_samples rate t k) = frame_at rate t + k.
Proof.
  intros Hr Hd NT. unfold frame_at, plus_samples. simpl.
  rewrite rhe_scale by lia. apply rhe_shift; assumption.
Qed.

(* inserting a stretch at t and deleting [t, t + its duration] restores the original,
   for every time in [0, duration] that is not exactly half-way between two samples *)
Theorem insert_delete_identity rate s t f : 0 < rate -> 0 < snd t ->
  2 * ((fst t * rate) mod snd t) <> snd t ->
  0 <= frame_at rate t <= Z.of_nat (length s) ->
  sw_delete (sw_insert (mkSW s rate) t f) t (plus_samples rate t (Z.of_nat (length f))) = mkSW s rate.
Proof.
  intros Hr Hd NT Hi. unfold sw_delete, sw_insert. simpl. rewrite frame_at_plus by assumption.
  f_equal. unfold upto, from.
  set (i := Z.to_nat (frame_at rate t)).
  assert (i <= length s)%nat as Li by (unfold i; lia).
  assert (Z.to_nat (frame_at rate t + Z.of_nat (length f)) = (i + length f)%nat) as -> by (unfold i; lia).
  assert (length (firstn i s) = i) as L1 by (rewrite firstn_length; lia).
  rewrite firstn_app, L1, Nat.sub_diag, firstn_O, app_nil_r.
  rewrite firstn_all2 by lia.
  rewrite skipn_app, L1. replace (i + length f - i)%nat with (length f) by lia.
  rewrite (skipn_all2 (firstn i s)) by lia. simpl app.
  rewrite skipn_app, Nat.sub_diag, skipn_all. simpl. apply firstn_skipn.
Qed.

(* on an exact tie the identity fails (round-half-even): recorded finding F20 *)
Theorem insert_delete_tie_refuted :
  exists rate s t f, 0 < rate /\ 0 < snd t /\ 0 <= frame_at rate t <= Z.of_nat (length s)
    /\ sw_delete (sw_insert (mkSW s rate) t f) t (plus_samples rate t (Z.of_nat (length f))) <> mkSW s rate.
Proof. exists 2, [10; 20; 30], (1, 4), [7]. vm_compute. repeat split; try discriminate. Qed.

(* the index computation before the repair of F13 was not sample-aligned *)
Theorem index_legacy_misaligned_refuted :
  exists rate w t, ~ (Z.of_nat w | index_at_legacy rate w t).
Proof.
  exists 10, 2%nat, (23, 100). intros (k & H).
  assert (index_at_legacy 10 2 (23, 100) = 5) as E by (vm_compute; reflexivity).
  rewrite E in H. change (Z.of_nat 2) with 2 in H. lia.
Qed.
