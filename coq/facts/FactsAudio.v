(* facts/FactsAudio.v -- the expressions of audio.py that Audio/WavModel.v, KeepDelete.v and
   ZeroCross.v mirror (C16-C18). *)
From Coq Require Import String List.
From PraatIOGen Require Import SourceFacts.
Import ListNotations.
Open Scope string_scope.

Lemma sample_codes_ok : sample_width_codes = [(1, "b"); (2, "h"); (4, "i"); (8, "q")].
Proof. reflexivity. Qed.
(* index_at: round to a whole sample, then scale by the width *)
Lemma index_at_time_ok : index_at_time_expr = "return round(startTime * self.frameRate) * self.sampleWidth".
Proof. reflexivity. Qed.
(* read_frames_at: the frames between the two nearest sample indices *)
Lemma read_frames_ok : read_frames_exprs =
  ["startFrame = round(frameRate * startTime)"; "endFrame = round(frameRate * endTime)"; "audiofile.setpos(startFrame)";
   "frames = audiofile.readframes(endFrame - startFrame)"; "return frames"].
Proof. reflexivity. Qed.
(* iter_zc: the time of the sample found *)
Lemma zero_crossing_time_ok : zero_crossing_time_expr = "return (round(startTime * frameRate) + zeroI) / float(frameRate)".
Proof. reflexivity. Qed.
Lemma zero_crossing_step_ok : zero_crossing_timestep = "0.002".
Proof. reflexivity. Qed.
