(* facts/FactsScripts.v -- the statements of praatio_scripts._shiftTimes, audioSplice and tgBoundariesToZeroCrossings that
   Textgrid/TgSplice.v and Textgrid/TgZc.v were written from, statement for statement (C18).  A change of any of them
   breaks the lemma even if no generated case notices. *)
From Coq Require Import String List.
From PraatIOGen Require Import SourceFacts.
Import ListNotations.
Open Scope string_scope.

Lemma shift_times_stmts_ok : shift_times_stmts =
  ["tg = tg.new()"; "for tier in tg.tiers:\n    if isinstance(tier, textgrid.IntervalTier):\n        entries = [entry for entry in tier.entries if entry[0] == timeV or entry[1] == timeV]\n        insertEntries = []\n        for entry in entries:\n            if entry[0] == timeV:\n                newStart, newStop = (newTimeV, entry[1])\n            elif entry[1] == timeV:\n                newStart, newStop = (entry[0], newTimeV)\n            tier.deleteEntry(entry)\n            insertEntries.append((newStart, newStop, entry[2]))\n        for entry in insertEntries:\n            tier.insertEntry(entry)\n    elif isinstance(tier, textgrid.PointTier):\n        entries = [entry for entry in tier.entries if entry[0] == timeV]\n        for entry in entries:\n            tier.deleteEntry(entry)\n            tier.insertEntry(Point(newTimeV, entry[1]))"; "return tg"].
Proof. reflexivity. Qed.

Lemma audio_splice_stmts_ok : audio_splice_stmts =
  ["retTG = tg.new()"; "if alignToZeroCrossing is True:\n    spliceDuration = spliceSegment.duration\n    spliceZeroStart = spliceSegment.findNearestZeroCrossing(0)\n    spliceZeroEnd = spliceSegment.findNearestZeroCrossing(spliceDuration)\n    spliceSegment = spliceSegment.getSubwav(spliceZeroStart, spliceZeroEnd)\n    oldInsertStart = insertStart\n    insertStart = audioObj.findNearestZeroCrossing(oldInsertStart)\n    retTG = _shiftTimes(retTG, oldInsertStart, insertStart)\n    if insertStop is not None:\n        oldInsertStop = insertStop\n        insertStop = audioObj.findNearestZeroCrossing(oldInsertStop)\n        retTG = _shiftTimes(retTG, oldInsertStop, insertStop)"; "insertTime = insertStart"; "if insertStop is not None:\n    insertTime = insertStop"; "audioObj.insert(insertTime, spliceSegment.frames)"; "targetDuration = spliceSegment.duration"; "retTG = retTG.insertSpace(insertTime, targetDuration, `stretch`)"; "newEntry = (insertTime, insertTime + targetDuration, newLabel)"; "retTG.getTier(tierName).insertEntry(newEntry)"; "if insertStop is not None:\n    audioObj.deleteSegment(insertStart, insertStop)\n    retTG = retTG.eraseRegion(insertStart, insertStop, doShrink=True)"; "return (audioObj, retTG)"].
Proof. reflexivity. Qed.

Lemma tg_zero_crossings_stmts_ok : tg_zero_crossings_stmts =
  ["for tier in tg.tiers:\n    newTier: textgrid_tier.TextgridTier\n    if isinstance(tier, textgrid.PointTier):\n        if adjustPointTiers is False:\n            continue\n        points = []\n        for start, label in tier.entries:\n            newStart = wav.findNearestZeroCrossing(start)\n            points.append(Point(newStart, label))\n        newTier = tier.new(entries=points)\n    elif isinstance(tier, textgrid.IntervalTier):\n        if adjustIntervalTiers is False:\n            continue\n        intervals = []\n        for start, end, label in tier.entries:\n            newStart = wav.findNearestZeroCrossing(start)\n            newStop = wav.findNearestZeroCrossing(end)\n            intervals.append(Interval(newStart, newStop, label))\n        newTier = tier.new(entries=intervals)\n    tg.replaceTier(tier.name, newTier)"; "return tg"].
Proof. reflexivity. Qed.
