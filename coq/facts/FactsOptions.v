(* facts/FactsOptions.v -- the option tables the tier / textgrid models enumerate (C05-C15). *)
From Coq Require Import String List.
From PraatIOGen Require Import SourceFacts.
Import ListNotations.
Open Scope string_scope.

Lemma crop_modes_ok : options_CropCollision = ["strict"; "lax"; "truncated"].
Proof. reflexivity. Qed.
Lemma reporting_modes_ok : options_ErrorReportingMode = ["silence"; "warning"; "error"].
Proof. reflexivity. Qed.
Lemma erase_modes_ok : options_EraseCollision = ["truncate"; "categorical"; "error"].
Proof. reflexivity. Qed.
Lemma space_modes_ok : options_WhitespaceCollision = ["stretch"; "split"; "no_change"; "error"].
Proof. reflexivity. Qed.
Lemma insert_modes_ok : options_IntervalCollision = ["replace"; "merge"; "error"].
Proof. reflexivity. Qed.
