(* facts/FactsKlatt.v -- name lists hard-wired in the KlattGrid reader and the point-object
   class names (C19). *)
From Coq Require Import String List.
From PraatIOGen Require Import SourceFacts.
Import ListNotations.
Open Scope string_scope.

Lemma container_tiers_ok : klatt_container_tiers =
  ["oral_formants"; "nasal_formants"; "nasal_antiformants"; "tracheal_formants"; "tracheal_antiformants"; "delta_formants"; "frication_formants"].
Proof. reflexivity. Qed.
Lemma sub_filters_ok : klatt_sub_filters =
  ["bandwidths"; "oral_formants_amplitudes"; "nasal_formants_amplitudes"; "tracheal_formants_amplitudes"; "frication_formants_amplitudes"].
Proof. reflexivity. Qed.
Lemma point_classes_ok : options_DataPointTypes = ["PointProcess"; "PitchTier"; "DurationTier"].
Proof. reflexivity. Qed.
