(* facts/FactsIO.v -- the literals of the TextGrid readers and writers in today's source are
   the ones the models of IO/IoModel.v were written for (C01-C04).  Compiled on every run
   against the SourceFacts.v regenerated from /repo. *)
From Coq Require Import String List.
From PraatIOGen Require Import SourceFacts.
From PraatIO Require Import IO.IoModel.
Import ListNotations.
Open Scope string_scope.

(* long-form reader: the regular expressions, in source order (per-pattern scanners of the model) *)
Lemma long_reader_patterns_ok : long_reader_patterns =
  ["item ?\["; "\n"; "="; "="; "item ?\["; "size ?= ?0"; "name ?= ?\""(.*)\""\s*$"; """""";
   "xmin ?= ?-?([\d.]+(?:[eE][-+]?\d+)?)\s*$"; "xmax ?= ?([\d.]+(?:[eE][-+]?\d+)?)\s*$";
   "xmin ?= ?-?([\d.]+(?:[eE][-+]?\d+)?)\s*$"; "xmax ?= ?([\d.]+(?:[eE][-+]?\d+)?)\s*$";
   "text ?= ?\""(.*)\""\s*$"; """"""; "number ?= ?-?([\d.]+(?:[eE][-+]?\d+)?)\s*$"; "mark ?= ?\""(.*)\""\s*$"; """"""].
Proof. reflexivity. Qed.

Lemma class_probe_ok : map T long_reader_class_probe = [CLASS_INT; T "class"].
Proof. reflexivity. Qed.

Lemma sniffing_ok : sniff_substrings = ["start"; "ooTextFile short"; "item ["].
Proof. reflexivity. Qed.

Lemma short_keywords_ok : map T short_reader_keywords = [QINT; QPT].
Proof. reflexivity. Qed.

Lemma unescape_pair_ok : short_reader_unescape = [""""""; """"] /\ escape_quotes_pair = [""""; """"""].
Proof. split; reflexivity. Qed.

Lemma remove_blanks_ok : remove_blanks_label = [""].
Proof. reflexivity. Qed.

Lemma short_writer_ok : short_writer_literals =
  [""; "File type = ""ooTextFile""\n"; "Object class = ""TextGrid""\n\n"; "%s\n%s\n"; "<exists>\n%d\n"; "";
   """%s""\n"; """%s""\n"; "%s\n%s\n%s\n"; """%s"""; "\n"; "\n"].
Proof. reflexivity. Qed.

Lemma long_writer_ok : long_writer_literals =
  [""; "File type = ""ooTextFile""\n"; "Object class = ""TextGrid""\n\n"; " "; "xmin = %s \n"; "xmax = %s \n";
   "tiers? <exists> \n"; "size = %d \n"; "item []: \n"; "item [%d]:\n"; "class = ""%s"" \n"; "name = ""%s"" \n";
   "xmin = %s \n"; "xmax = %s \n"; "intervals: size = %d \n"; "intervals [%d]:\n"; "xmin = %s \n"; "xmax = %s \n";
   "text = ""%s"" \n"; "points: size = %d \n"; "points [%d]:\n"; "number = %s \n"; "mark = ""%s"" \n"].
Proof. reflexivity. Qed.

Lemma num_to_str_ok : num_to_str_formats = ["%d"; "%s"] /\ isclose_defaults = ["1e-14"; "0.0"].
Proof. split; reflexivity. Qed.

Lemma class_names_ok : map T tier_class_names = [class_name true; class_name false].
Proof. reflexivity. Qed.

Lemma formats_ok : options_TextgridFormats = ["long_textgrid"; "short_textgrid"; "json"; "textgrid_json"]
  /\ options_DuplicateNames = ["error"; "rename"] /\ open_textgrid_encodings = ["utf-16"; "utf-8-sig"].
Proof. repeat split; reflexivity. Qed.
