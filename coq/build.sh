#!/bin/sh
# regenerate the Makefile when the set of .v files changed, then make
cd "$(dirname "$0")" || exit 2
find theories -name '*.v' | sort > .filelist.new
if [ ! -f Makefile ] || ! cmp -s .filelist.new .filelist; then
  mv .filelist.new .filelist
  coq_makefile -f _CoqProject -o Makefile $(cat .filelist) > /dev/null
else
  rm -f .filelist.new
fi
exec timeout 3000 make -j16 "$@"
