"""Input generators shared by the checks.  Everything is in integer ticks;
labels are Python str (already stripped: well-formed tiers)."""
import itertools

LABELS = ["a", "b", "", "ab", "x y", "é", "a-b", "\U0001d11e", "\ufeffa", "b\u200b", "e\u0301", "9%", "%s"]
# ticks of 1, 1/8, 1/1024 s -- and, less often, of 1024 s, 131072 s and 2^-24 s: the same order types at magnitudes
# of hours, days and fractions of a microsecond (all exact in binary64)
SCALES_DYADIC = [("dyadic", 0), ("dyadic", 3), ("dyadic", 10), ("dyadic", 0), ("dyadic", 3), ("dyadic", 10),
                 ("dyadic", -10), ("dyadic", -17), ("dyadic", 24), ("dyadic", 30)]     # ticks from 2^17 s down to ~1e-9 s
SCALES_DECIMAL = [("decimal", 1), ("decimal", 3), ("decimal", 2)]


def pick_scale(rng, decimal_share=0.3):
    if rng.random() < decimal_share:
        return list(rng.choice(SCALES_DECIMAL))
    return list(rng.choice(SCALES_DYADIC))


def all_small_ientries(points, maxn):
    """All lists of <= maxn pairwise non-overlapping positive intervals whose
    boundaries are taken from the sorted list `points` (touching allowed)."""
    out = [[]]

    def rec(prefix, lo_idx):
        if len(prefix) == maxn:
            return
        for i in range(lo_idx, len(points)):
            for j in range(i + 1, len(points)):
                cur = prefix + [(points[i], points[j])]
                out.append(cur)
                rec(cur, j)
    rec([], 0)
    return out


def label_entries(pairs, rng=None, labels=("a", "b", "")):
    ents = []
    for k, (s, e) in enumerate(pairs):
        lab = rng.choice(labels) if rng else labels[k % len(labels)]
        ents.append([s, e, lab])
    return ents


def small_itiers(G=8, maxn=3, rng=None, span_extra=False):
    """All wf interval tiers with <= maxn entries on the even grid 0..G, span [0,G]."""
    pts = list(range(0, G + 1, 2))
    tiers = []
    for pairs in all_small_ientries(pts, maxn):
        tiers.append({"kind": "I", "name": "t", "entries": label_entries(pairs, rng),
                      "min": 0, "max": G})
    return tiers


_LONG = [0.0, 0]


def _long_size(rng, long_p):
    """Every 1/long_p-th tier asked for is a long one -- a fixed stride, not a coin, so that each run has its share -- with
    far more entries than any short-cut for "small" tiers would expect: > 64 and > 128 mostly, in turn > 256, > 512, > 1024."""
    if not long_p:
        return None
    _LONG[0] += long_p
    if _LONG[0] < 1.0:
        return None
    _LONG[0] -= 1.0
    _LONG[1] += 1
    lo, hi = [(66, 140), (66, 140), (260, 400), (66, 140), (520, 700), (1030, 1200)][_LONG[1] % 6]
    return rng.randint(lo, hi)


def reseed_long(seed):
    """for generators that run inside a case (not in generate): the stride starts from the case's own seed, so that what a
    case does never depends on which cases ran before it in the process"""
    _LONG[0], _LONG[1] = (seed % 997) / 997.0, seed % 6


def random_itier(rng, maxn=10, tmax=60, labels=LABELS, name="tier", tight=None, long_p=0.0):
    """Random wf interval tier: sorted, disjoint (touching with prob.), inside span."""
    nl = _long_size(rng, long_p)
    u = 0.0 if nl else 1.0
    if u < long_p:
        n = nl
        tmax = max(tmax, 3 * n)
    elif tmax >= 30 and rng.random() < 0.04:
        maxn = max(maxn, 12)         # now and then a tier long enough for two-digit indices
        n = rng.randint(10, maxn)
    else:
        n = rng.randint(0, maxn)
    cuts = sorted(rng.sample(range(0, tmax + 1), min(2 * n, tmax + 1)))
    ents = []
    i = 0
    while i + 1 < len(cuts):
        s, e = cuts[i], cuts[i + 1]
        if ents and rng.random() < 0.35:
            s = ents[-1][1]          # make it touch its predecessor
        if s < e:
            ents.append([s, e, rng.choice(labels)])
        i += 2
    lo = 0 if rng.random() < 0.7 else -rng.randint(0, 5)
    lo = min([lo] + [e[0] for e in ents])
    hi = max([tmax if rng.random() < 0.7 else tmax + rng.randint(0, 9)] + [e[1] for e in ents])
    if tight if tight is not None else rng.random() < 0.15:
        if ents:
            lo, hi = ents[0][0], ents[-1][1]
    return {"kind": "I", "name": name, "entries": ents, "min": lo, "max": hi}


def random_ptier(rng, maxn=10, tmax=60, labels=LABELS, name="pts", distinct=True, long_p=0.0):
    nl = _long_size(rng, long_p)
    u = 0.0 if nl else 1.0
    if u < long_p:
        n = nl
        tmax = max(tmax, 2 * n)
    elif tmax >= 30 and rng.random() < 0.04:
        maxn = max(maxn, 12)
        n = rng.randint(10, maxn)
    else:
        n = rng.randint(0, maxn)
    if distinct:
        times = sorted(rng.sample(range(0, tmax + 1), min(n, tmax + 1)))
    else:
        times = sorted(rng.randint(0, tmax) for _ in range(n))
    ents = [[x, rng.choice(labels)] for x in times]
    # python tuple order: (time, label)
    ents.sort(key=lambda e: (e[0], e[1]))
    lo = min([0] + times)
    hi = max([tmax] + times)
    return {"kind": "P", "name": name, "entries": ents, "min": lo, "max": hi}


def small_ptiers(G=8, maxn=3):
    pts = list(range(0, G + 1, 2))
    tiers = []
    for n in range(0, maxn + 1):
        for comb in itertools.combinations(pts, n):
            tiers.append({"kind": "P", "name": "p",
                          "entries": [[x, ("a", "b", "")[k % 3]] for k, x in enumerate(comb)],
                          "min": 0, "max": G})
    return tiers


def shift_tier(t, off):
    """the same tier with every time moved by off ticks (off < 0: a tier that starts before 0)"""
    return dict(t, min=t["min"] + off, max=t["max"] + off, entries=[[x + off for x in e[:-1]] + [e[-1]] for e in t["entries"]])


def shrink_tier(t):
    """Candidate smaller tiers (drop one entry at a time)."""
    n = len(t["entries"])
    if n > 16:
        # a long tier: halves and quarters first
        for a, b in ((0, n // 2), (n // 2, n), (0, n // 4), (n // 4, n // 2), (n // 2, 3 * n // 4), (3 * n // 4, n)):
            yield dict(t, entries=t["entries"][:a] + t["entries"][b:])
    for k in range(min(n, 40)):
        t2 = dict(t)
        t2["entries"] = t["entries"][:k] + t["entries"][k + 1:]
        yield t2
    for k, e in enumerate(t["entries"]):
        if e[-1] not in ("a", ""):
            t2 = dict(t)
            t2["entries"] = [list(x) for x in t["entries"]]
            t2["entries"][k][-1] = "a"
            yield t2


def near_ok(*tiers_and_entries):
    """On the grid of binary64 neighbours two distinct points one ulp apart that carry the same label are
    equal for praatio's tolerant entry comparison (Point.__eq__, used by list.index in deleteEntry); such
    inputs are outside the modelled domain.  True when no such pair occurs among the given point entries."""
    seen = {}
    for ents in tiers_and_entries:
        for e in ents:
            if len(e) != 2:
                continue
            key = (e[0] // 2, e[1])
            if key in seen and seen[key] != e[0]:
                return False
            seen[key] = e[0]
    return True
