"""Run one tier-level operation of praatIO on tick-encoded inputs."""
from . import core

CROP = {"strict": "Strict", "lax": "Lax", "truncated": "Truncated"}
ERASE = {"truncate": "ETruncate", "categorical": "ECategorical", "error": "EError"}
SPACE = {"stretch": "SStretch", "split": "SSplit", "no_change": "SNoChange", "error": "SError"}
INS = {"replace": "IReplace", "merge": "IMerge", "error": "IError"}
REP = {"silence": "RSilence", "warning": "RWarning", "error": "RError"}


def _style(op, args):
    """A reproducible small number per call: decides HOW a call is spelled (documented defaults left out, an
    integral time handed over as int, the entry as tuple / list / named tuple) -- never WHAT is called."""
    import zlib
    return zlib.crc32(repr((op, sorted((k, repr(v)) for k, v in args.items()))).encode("utf-8"))


def _num(x, st, bit):
    if (st >> bit) & 1 and isinstance(x, float) and x.is_integer() and abs(x) < 2.0 ** 52:
        return int(x)
    return x


def entry_of(kind, e, sc, st=0):
    from praatio.utilities.constants import Interval, Point
    if kind == "I":
        vals = (_num(sc.f(e[0]), st, 3), _num(sc.f(e[1]), st, 4), e[2])
        ent = Interval(*vals)
    else:
        vals = (_num(sc.f(e[0]), st, 3), e[1])
        ent = Point(*vals)
    form = (st >> 5) % 4
    if form == 1:
        return tuple(vals)
    if form == 2:
        return list(vals)
    return ent


def _fresh(x):
    """an option value as a caller computes it at run time (read from a file, lower-cased, joined): an equal
    string that is not the interned literal"""
    return "".join(list(x)) if isinstance(x, str) and len(x) > 1 else x


def apply_op(tier, op, args, sc, kind):
    """Apply a (possibly mutating) operation; returns the resulting tier object."""
    name = op
    st = _style(op, args)
    if (st >> 7) & 1:
        args = dict(args)
        for k in ("mode", "report"):
            if k in args:
                args[k] = _fresh(args[k])
    dflt = st % 3 == 0          # leave out trailing arguments that equal the documented default
    if name == "crop":
        a, b = _num(sc.f(args["a"]), st, 1), _num(sc.f(args["b"]), st, 2)
        if kind == "P" and dflt and args["rebase"] is True:
            return tier.crop(a, b) if args["mode"] == "lax" else tier.crop(a, b, args["mode"])
        return tier.crop(a, b, args["mode"], args["rebase"])
    if name == "erase":
        a, b = _num(sc.f(args["a"]), st, 1), _num(sc.f(args["b"]), st, 2)
        if dflt and args["shrink"] is True:
            return tier.eraseRegion(a, b) if args["mode"] == "error" else tier.eraseRegion(a, b, args["mode"])
        return tier.eraseRegion(a, b, args["mode"], args["shrink"])
    if name == "space":
        return tier.insertSpace(_num(sc.f(args["s"]), st, 1), _num(sc.f(args["d"]), st, 2), args["mode"])
    if name == "edit":
        o = _num(sc.f(args["o"]), st, 1)
        if dflt and args["mode"] == "warning":
            return tier.editTimestamps(o)
        return tier.editTimestamps(o, args["mode"])
    if name == "insert":
        ent = entry_of(kind, args["e"], sc, st)
        rep = args.get("report", "silence")
        if dflt and rep == "warning":
            if args["mode"] == "error":
                tier.insertEntry(ent)
            else:
                tier.insertEntry(ent, args["mode"])
        else:
            tier.insertEntry(ent, args["mode"], rep)
        return tier
    if name == "delete":
        tier.deleteEntry(entry_of(kind, args["e"], sc, st & ~0x60))
        return tier
    if name in ("union", "difference", "intersection", "mergeLabels", "append"):
        # "same": the operand is the receiver itself (A.union(A)), not an equal copy
        other = tier if args.get("same") else core.mk_tier(args["other"], sc)
        meth = {"union": "union", "difference": "difference", "intersection": "intersection",
                "mergeLabels": "mergeLabels", "append": "appendTier"}[name]
        return getattr(tier, meth)(other)
    if name == "dejitter":
        ref = core.mk_tier(args["ref"], sc)
        return tier.dejitter(ref, sc.f(args["d"]))
    if name == "morph":
        tgt = core.mk_tier(args["target"], sc)
        filt = None
        if args.get("filter") is not None:
            keep = set(args["filter"])
            # a predicate answers with whatever is true or false for its author: a bool, a count, a match object
            form = (st >> 9) % 4
            if form == 3:
                # a callable collection of the accepted labels: false as an object when it is empty, yet a predicate
                class Accepted(frozenset):
                    def __call__(self, lab):
                        return lab in self
                filt = Accepted(keep)
            elif form == 0:
                filt = lambda lab: lab in keep  # noqa
            elif form == 1:
                filt = lambda lab: [lab].count(lab) if lab in keep else 0  # noqa
            else:
                import re
                pat = re.compile("|".join(re.escape(k) for k in sorted(keep)) if keep else r"(?!)")
                filt = pat.fullmatch
        return tier.morph(tgt, filt)
    if name == "new":
        return tier.new()
    raise ValueError(name)


def run_single(case):
    """case: {'tier':..., 'op':..., 'args':..., 'scale':...} -> guarded result with tier snapshot."""
    sc = core.Scale(*case["scale"])

    def f():
        t = core.mk_tier(case["tier"], sc)
        r = apply_op(t, case["op"], case["args"], sc, case["tier"]["kind"])
        return core.snap_tier(r, sc)
    return core.run_guarded(f)
