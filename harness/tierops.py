"""Run one tier-level operation of praatIO on tick-encoded inputs."""
from . import core

CROP = {"strict": "Strict", "lax": "Lax", "truncated": "Truncated"}
ERASE = {"truncate": "ETruncate", "categorical": "ECategorical", "error": "EError"}
SPACE = {"stretch": "SStretch", "split": "SSplit", "no_change": "SNoChange", "error": "SError"}
INS = {"replace": "IReplace", "merge": "IMerge", "error": "IError"}
REP = {"silence": "RSilence", "warning": "RWarning", "error": "RError"}


def entry_of(kind, e, sc):
    from praatio.utilities.constants import Interval, Point
    if kind == "I":
        return Interval(sc.f(e[0]), sc.f(e[1]), e[2])
    return Point(sc.f(e[0]), e[1])


def apply_op(tier, op, args, sc, kind):
    """Apply a (possibly mutating) operation; returns the resulting tier object."""
    name = op
    if name == "crop":
        return tier.crop(sc.f(args["a"]), sc.f(args["b"]), args["mode"], args["rebase"])
    if name == "erase":
        return tier.eraseRegion(sc.f(args["a"]), sc.f(args["b"]), args["mode"], args["shrink"])
    if name == "space":
        return tier.insertSpace(sc.f(args["s"]), sc.f(args["d"]), args["mode"])
    if name == "edit":
        return tier.editTimestamps(sc.f(args["o"]), args["mode"])
    if name == "insert":
        tier.insertEntry(entry_of(kind, args["e"], sc), args["mode"], args.get("report", "silence"))
        return tier
    if name == "delete":
        tier.deleteEntry(entry_of(kind, args["e"], sc))
        return tier
    if name in ("union", "difference", "intersection", "mergeLabels", "append"):
        other = core.mk_tier(args["other"], sc)
        meth = {"union": "union", "difference": "difference", "intersection": "intersection",
                "mergeLabels": "mergeLabels", "append": "appendTier"}[name]
        return getattr(tier, meth)(other)
    if name == "dejitter":
        ref = core.mk_tier(args["ref"], sc)
        return tier.dejitter(ref, sc.f(args["d"]))
    if name == "morph":
        tgt = core.mk_tier(args["target"], sc)
        filt = None
        if args.get("filter") is not None:
            keep = set(args["filter"])
            filt = lambda lab: lab in keep  # noqa
        return tier.morph(tgt, filt)
    if name == "new":
        return tier.new()
    raise ValueError(name)


def run_single(case):
    """case: {'tier':..., 'op':..., 'args':..., 'scale':...} -> guarded result with tier snapshot."""
    sc = core.Scale(*case["scale"])

    def f():
        t = core.mk_tier(case["tier"], sc)
        r = apply_op(t, case["op"], case["args"], sc, case["tier"]["kind"])
        return core.snap_tier(r, sc)
    return core.run_guarded(f)
