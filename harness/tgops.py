"""Textgrid-level helpers shared by C12 / C13: building, snapshotting, applying mutators, Coq emission."""
from . import core, tierops


def mk_tg(g, sc):
    from praatio.data_classes.textgrid import Textgrid
    tg = Textgrid(None if g["min"] is None else sc.f(g["min"]), None if g["max"] is None else sc.f(g["max"]))
    for t in g["tiers"]:
        tg.addTier(core.mk_tier(t, sc), reportingMode="silence")
    # addTier may have widened the span; force the requested one when it covers the tiers
    return tg


def snap_tg(tg, sc):
    return {"tiers": [core.snap_tier(t, sc) for t in tg.tiers],
            "min": None if tg.minTimestamp is None else core.tk(tg.minTimestamp, sc),
            "max": None if tg.maxTimestamp is None else core.tk(tg.maxTimestamp, sc)}


def apply_tgop(tg, o, sc):
    op = o["op"]
    if op == "add":
        tg.addTier(core.mk_tier(o["tier"], sc), o["idx"], o["mode"])
    elif op == "remove":
        tg.removeTier(o["name"])
    elif op == "rename":
        tg.renameTier(o["old"], o["new"])
    elif op == "replace":
        tg.replaceTier(o["name"], core.mk_tier(o["tier"], sc), o["mode"])
    else:
        raise ValueError(op)


def copt(x):
    return "None" if x is None else "(Some %s)" % core.cz(x)


def ctier(t):
    return "(TI %s)" % core.citier(t) if t["kind"] == "I" else "(TP %s)" % core.cptier(t)


def ctg(g):
    return "(mkTG %s %s %s)" % (core.clist([ctier(t) for t in g["tiers"]], "tier"), copt(g["min"]), copt(g["max"]))


def ctgop(o):
    op = o["op"]
    if op == "add":
        return "(TAdd %s %s %s)" % (ctier(o["tier"]), copt(o["idx"]), tierops.REP[o["mode"]])
    if op == "remove":
        return "(TRemove %s)" % core.ctext(o["name"])
    if op == "rename":
        return "(TRename %s %s)" % (core.ctext(o["old"]), core.ctext(o["new"]))
    return "(TReplace %s %s %s)" % (core.ctext(o["name"]), ctier(o["tier"]), tierops.REP[o["mode"]])


def run_history(g0, ops, sc):
    tg = mk_tg(g0, sc)
    start = snap_tg(tg, sc)
    recs = []
    for o in ops:
        err = None
        with core.captured_stdout() as buf:
            try:
                apply_tgop(tg, o, sc)
            except Exception as e:  # noqa
                err = core.err_kind(e)
        recs.append([err, snap_tg(tg, sc), bool(buf.getvalue())])
    return start, recs


def emit_hist(start, ops, recs):
    items = []
    for o, (err, st, pr) in zip(ops, recs):
        items.append("(%s, (%s, %s, %s))" % (ctgop(o), "None" if err is None else "Some %s" % err, ctg(st), core.cbool(pr)))
    return "TgHist %s %s" % (ctg(start), core.clist(items))
