"""Observer histories on ONE tier object: in-place mutators (insertEntry, deleteEntry)
interleaved with copy-returning operations and queries ("observers").  Each observer's
result is compared with the model applied to the state the object has at that moment, and
the object is monitored bit-exactly across every observer call.  This is what exposes
stale caches (a query, a mutation, the same query again) and aliasing (a returned tier
sharing its entry list with the receiver, seen when the receiver is used again)."""
from . import core, gen, tierops

OBS_I = ["crop", "timestamps", "find", "erase", "union", "difference", "intersection", "mergeLabels", "append", "dejref", "new"]
OBS_P = ["crop", "timestamps", "find", "union", "append", "dejref", "new"]


def gen_history(rng, kind, observers, nsteps=None, tmax=30, scale=None):
    """t0 + steps; observers: the observer kinds this property wants (others are not generated)."""
    sc = scale or list(rng.choice(gen.SCALES_DYADIC))
    t0 = gen.random_itier(rng, tmax=tmax, maxn=5, labels=["a", "b", "", "ab"]) if kind == "I" else \
        gen.random_ptier(rng, tmax=tmax, maxn=5, labels=["a", "b", "", "ab"])
    t0["min"], t0["max"] = min(0, t0["min"]), max(tmax, t0["max"])
    steps = []
    for _ in range(nsteps or rng.randint(3, 8)):
        u = rng.random()
        if u < 0.35:
            if rng.random() < 0.6:
                # delete the k-th entry the tier holds at that moment (directly: no sort, no re-validation)
                steps.append({"k": "mut", "op": "delete_idx", "args": {"idx": rng.randint(0, 5)}})
            else:
                if kind == "I":
                    s = rng.randint(0, tmax - 1)
                    e = [s, rng.randint(s + 1, tmax), rng.choice(["n", "m"])]
                else:
                    e = [rng.randint(0, tmax), rng.choice(["n", "m"])]
                steps.append({"k": "mut", "op": "insert", "args": {"e": e, "mode": rng.choice(["replace", "merge"]), "report": "silence"}})
        else:
            ob = rng.choice(observers)
            a, b = sorted((rng.randint(0, tmax), rng.randint(0, tmax)))
            if ob == "crop":
                if a == b:
                    b = a + 1
                args = {"a": a, "b": b, "mode": rng.choice(["strict", "lax", "truncated"]), "rebase": rng.random() < 0.5}
            elif ob == "erase":
                if a == b:
                    b = a + 1
                args = {"a": a, "b": b, "mode": rng.choice(["truncate", "categorical"]), "shrink": rng.random() < 0.5}
            elif ob == "find":
                args = {"q": rng.choice(["a", "b", "n", ""]), "substr": rng.random() < 0.5}
            elif ob in ("union", "difference", "intersection", "mergeLabels", "append"):
                other = gen.random_itier(rng, tmax=tmax, maxn=3, labels=["x", "y"], name="o") if kind == "I" else \
                    gen.random_ptier(rng, tmax=tmax, maxn=3, labels=["x", "y"], name="o")
                other["min"], other["max"] = 0, max(tmax, other["max"])
                args = {"other": other}
            elif ob == "dejref":
                other = gen.random_itier(rng, tmax=tmax, maxn=3, labels=["x", "y"], name="o") if rng.random() < 0.5 else \
                    gen.random_ptier(rng, tmax=tmax, maxn=3, labels=["x", "y"], name="o")
                other["min"], other["max"] = 0, max(tmax, other["max"])
                args = {"other": other, "d": rng.randint(1, 3)}
            else:
                args = {}
            steps.append({"k": "obs", "op": ob, "args": args})
    return {"op": "obshist", "tier": t0, "args": {"steps": steps}, "scale": sc}


def _observe(tier, st, sc, kind):
    op, a = st["op"], st["args"]
    if op == "timestamps":
        return {"list": [core.tk(x, sc) for x in tier.timestamps]}
    if op == "find":
        return {"list": list(tier.find(a["q"], substrMatchFlag=a["substr"]))}
    if op == "dejref":
        other = core.mk_tier(a["other"], sc)
        return {"tier": core.snap_tier(other.dejitter(tier, sc.f(a["d"])), sc)}
    r = tierops.apply_op(tier, op, a, sc, kind)
    return {"tier": core.snap_tier(r, sc)}


def run(case):
    sc = core.Scale(*case["scale"])
    kind = case["tier"]["kind"]

    def f():
        tier = core.mk_tier(case["tier"], sc)
        expected = core.raw_tier(tier)
        recs = []
        last_obs = None
        for st in case["args"]["steps"]:
            rec = {"changed_by": None}
            if core.raw_tier(tier) != expected:
                rec["changed_by"] = last_obs
                expected = core.raw_tier(tier)
            rec["state"] = core.snap_tier(tier, sc)
            if st["k"] == "mut":
                err = None
                try:
                    with core.captured_stdout():
                        if st["op"] == "delete_idx":
                            if len(tier.entries) > 0:
                                tier.deleteEntry(tier.entries[st["args"]["idx"] % len(tier.entries)])
                        else:
                            tierops.apply_op(tier, st["op"], st["args"], sc, kind)
                except Exception as e:  # noqa
                    err = core.err_kind(e)
                rec["err"] = err
                expected = core.raw_tier(tier)
            else:
                try:
                    with core.captured_stdout():
                        rec["res"] = {"ok": _observe(tier, st, sc, kind)}
                except core.OffGrid as e:
                    rec["res"] = {"offgrid": str(e)}
                except Exception as e:  # noqa
                    rec["res"] = {"err": core.err_kind(e), "exc": "%s: %s" % (type(e).__name__, str(e)[:120])}
                last_obs = st["op"]
            recs.append(rec)
        final_changed = last_obs if core.raw_tier(tier) != expected else None
        return {"recs": recs, "final_changed": final_changed}
    return core.run_guarded(f)


def py_checks(case, r):
    if "ok" not in r:
        return ["observer history failed: %s" % r.get("exc", r)]
    probs = []
    for k, rec in enumerate(r["ok"]["recs"]):
        if rec["changed_by"]:
            probs.append("step %d: the tier had been changed by the copy-returning operation / query '%s' before it" % (k, rec["changed_by"]))
        if "res" in rec and "offgrid" in rec["res"]:
            probs.append("step %d: %s" % (k, rec["res"]["offgrid"]))
    if r["ok"]["final_changed"]:
        probs.append("the tier was changed by '%s'" % r["ok"]["final_changed"])
    return probs[:4]


def observer_steps(case, r, wanted):
    """(step, record) pairs of the observer steps of the wanted kinds that produced a result"""
    if "ok" not in r:
        return []
    out = []
    for st, rec in zip(case["args"]["steps"], r["ok"]["recs"]):
        if st["k"] == "obs" and st["op"] in wanted and "res" in rec and "offgrid" not in rec["res"]:
            out.append((st, rec))
    return out


def shrinks(case):
    steps = case["args"]["steps"]
    for k in range(len(steps) - 1, 0, -1):
        yield dict(case, args={"steps": steps[:k]})
    for k in range(len(steps)):
        if len(steps) > 1:
            yield dict(case, args={"steps": steps[:k] + steps[k + 1:]})


def install(P, obs_i, obs_p, term_for, n_quick=150, n_thorough=4000):
    """Adds observer histories to a property module: P.generate yields them, the other hooks
    dispatch on op == 'obshist'.  term_for(kind, state, step, result) -> Coq case term or None."""
    g0, r0 = P.generate, P.run
    e0 = getattr(P, "emit_multi", None)
    e1 = getattr(P, "emit", None)
    p0, c0, n0 = P.py_checks, P.classify, P.nontrivial
    s0 = getattr(P, "shrinks", None)
    m0 = getattr(P, "model_expr", None)

    def generate(tier, rng):
        cases = g0(tier, rng)
        for _ in range(n_quick if tier == "quick" else n_thorough):
            kind = "I" if (rng.random() < 0.7 or not obs_p) and obs_i else "P"
            cases.append(gen_history(rng, kind, obs_i if kind == "I" else obs_p))
        return cases

    def run_(case):
        return run(case) if case["op"] == "obshist" else r0(case)

    def emit_multi(case, r):
        if case["op"] != "obshist":
            if e0:
                return e0(case, r)
            t = e1(case, r)
            return [t] if t else []
        kind = case["tier"]["kind"]
        terms = []
        for st, rec in observer_steps(case, r, (obs_i if kind == "I" else obs_p)):
            t = term_for(kind, rec["state"], st, rec["res"])
            if t:
                terms.append(t)
        return terms

    def py_checks_(case, r):
        return py_checks(case, r) if case["op"] == "obshist" else p0(case, r)

    def classify(case, r):
        if case["op"] != "obshist":
            return c0(case, r)
        nm = sum(1 for s in case["args"]["steps"] if s["k"] == "mut")
        return "observer-history/%s/%d-mutations" % (case["tier"]["kind"], min(nm, 3))

    def nontrivial(case, r):
        if case["op"] != "obshist":
            return n0(case, r)
        ks = [s["k"] for s in case["args"]["steps"]]
        return "mut" in ks and "obs" in ks[ks.index("mut"):]

    def shrinks_(case):
        if case["op"] == "obshist":
            return shrinks(case)
        return s0(case) if s0 else iter(())

    def model_expr(case):
        if case["op"] == "obshist":
            return None
        return m0(case) if m0 else None

    P.generate, P.run, P.emit_multi, P.py_checks = generate, run_, emit_multi, py_checks_
    P.classify, P.nontrivial, P.shrinks, P.model_expr = classify, nontrivial, shrinks_, model_expr


def res_tier(res, fmt):
    """Coq `res tier` term from an observer result"""
    if "ok" in res:
        return "(Ok %s)" % fmt(res["ok"]["tier"])
    return "(Err %s)" % res["err"]
