"""C17 -- interval-driven audio extraction keeps and drops exactly the marked samples."""
import math
import os
import random
import shutil
import wave
from .. import core
from . import c16

ID = "C17"
MODULE = "Check.C17Check"
CASE_TYPE = "C17case"
CORR, ORACLE, HYP = "C17corr", "C17oracle", "C17hyp"
K = 4          # ticks per sample: boundaries on samples, a quarter and a half sample off them
RULE = ("(a) _computeKeepDeleteIntervals on interval lists (empty, touching, at the edges, both lists, unsorted) in integer ticks; "
        "(b) readFramesAtTimes on real .wav files (widths 1/2/4; rates 8, 16 (dyadic, 4 ticks per sample so that quarter- and "
        "half-sample boundaries are exact), 8000, 44100; 0..60 samples) x lists of disjoint intervals on and off sample positions "
        "x {keep, delete} x {silence replacement, none}, plus lists reaching beyond the recording and both lists at once; (c) "
        "extractSubwav and splitAudioOnTier on multi-tier textgrids x nameStyle x noPartialIntervals x outputTGFlag, every output "
        "file opened and compared; (d) generateSilence / generateSineWave sample counts; non-trivial = at least one interval")
EXPLANATION = ("Props/C17.v proves that both lists are rejected, that invertIntervalList returns exactly the gaps of a well-formed "
               "list, that the keep/delete marking is the time-ordered interleaving of the intervals with their gaps and tiles "
               "[0,duration], that reading along a tiling with a replacement keeps the length and every kept sample's position, that "
               "without replacement exactly the kept stretches are returned in order, that times beyond the recording are rejected "
               "and the silence count.  The marking helper and readFramesAtTimes (on real files) are compared with the model and "
               "with an index-set specification written from the property text inside Coq; the files written by extractSubwav / "
               "splitAudioOnTier are opened and compared sample by sample.")
TRUSTED = ["models: Audio/KeepDelete.v keep_delete, read_at_times, silence; Tier/QueryModel.v invert_list",
           "the wave module, the file system and openTextgrid/save for the cropped TextGrids (runtime / other properties)",
           "sine values round(amp*sin(2*pi*f*i/rate)) are recomputed in the harness with math.sin (runtime float), only the count is proved"]
ASSUMPTIONS = ["times are multiples of a quarter sample; for the non-dyadic rates only on-sample and quarter-sample boundaries are used "
               "so that binary64 rounding of time*rate cannot change the nearest sample index"]
RATES = [8, 16, 8000, 44100, 1, 48000, 22050]


def _intervals(rng, nticks, maxn, on_sample_only, allow_half):
    """disjoint sorted intervals (ticks) inside [0, nticks]"""
    n = rng.randint(0, maxn)
    step = K if on_sample_only else (2 if allow_half and rng.random() < 0.5 else 1)
    grid = [t for t in range(0, nticks + 1, step) if allow_half or t % K != K // 2]
    if len(grid) < 2:
        return []
    cuts = sorted(rng.sample(grid, min(2 * n, len(grid))))
    out = []
    i = 0
    while i + 1 < len(cuts):
        a, b = cuts[i], cuts[i + 1]
        if out and rng.random() < 0.3:
            a = out[-1][1]
        if a < b:
            out.append([a, b])
        i += 2
    if out and rng.random() < 0.2:
        out[0][0] = 0
    if out and rng.random() < 0.2:
        out[-1][1] = nticks
    return out


def generate(tier, rng):
    cases = []
    for _ in range(600 if tier == "quick" else 20000):
        stop = rng.randint(1, 60)
        l = _intervals(rng, stop, 4, False, True)
        u = rng.random()
        keep, dele = (l, []) if u < 0.45 else ([], l) if u < 0.9 else (l, _intervals(rng, stop, 2, False, True))
        if rng.random() < 0.15:
            rng.shuffle(keep)
            rng.shuffle(dele)
        cases.append({"op": "keepdel", "start": 0, "stop": stop, "keep": keep, "del": dele, "scale": ["ticks", K]})
    for _ in range(500 if tier == "quick" else 15000):
        w = rng.choice([1, 2, 4])
        rate = rng.choice(RATES)
        s = c16._samples(rng, w, rng.choice([1, 2, rng.randint(3, 60)]))
        nt = len(s) * K
        dy = rate in (8, 16)
        rep = rng.random() < 0.5
        # with a replacement the generated length is round(rate*(end-start)): at the non-dyadic rates a difference of
        # exactly half a sample would make the binary64 product land on either side of the tie, so stay on samples there
        l = _intervals(rng, nt, 4, rng.random() < 0.5 or (rep and not dy), dy)
        u = rng.random()
        keep, dele = (l, []) if u < 0.45 else ([], l) if u < 0.9 else (l, _intervals(rng, nt, 2, True, dy))
        if rng.random() < 0.08 and l:
            l[-1][1] = nt + rng.choice([K, 3 * K] if (rep and not dy) else [1, K, 3 * K])          # beyond the recording
        if rng.random() < 0.25:
            # the lists in whatever order the caller collected them (an over-long interval is then not the last one listed)
            rng.shuffle(keep)
            rng.shuffle(dele)
        prior = _intervals(rng, nt, 2, True, dy) if rng.random() < 0.5 else None
        cases.append({"op": "readat", "w": w, "rate": rate, "s": s, "keep": keep, "del": dele, "rep": rep, "prior": prior,
                      "scale": ["ticks", K]})
    multi = _multichannel(tier, rng)
    for _ in range(160 if tier == "quick" else 3000):
        w = rng.choice([1, 2, 4])
        rate = rng.choice([8, 16, 1000, 8000, 44100])
        s = c16._samples(rng, w, rng.randint(8, 60))
        cases.append({"op": "split", "w": w, "rate": rate, "s": s, "seed": rng.randint(0, 10 ** 9), "scale": ["ticks", K]})
    for _ in range(100 if tier == "quick" else 3000):
        cases.append({"op": "gen", "w": rng.choice([1, 2, 4]), "rate": rng.choice([8, 16, 1000, 8000, 44100]),
                      "n": rng.randint(0, 50), "off": rng.choice([0, 0, 0.25, -0.25, 0.4]), "s": [], "scale": ["ticks", K]})
    return cases + multi


def _multichannel(tier, rng):
    """readFramesAtTimes on a file object with 2 or 3 channels (the module-level function takes any wave reader): a frame
    of ch samples is one unit of ch*w bytes, given to the model as one number; no replacement (the generator is mono).
    Uses its own PRNG stream so that the other cases are what they were before this family existed."""
    rng = random.Random(rng.random())
    cases = []
    for _ in range(90 if tier == "quick" else 3000):
        w = rng.choice([1, 2, 4])
        ch = rng.choice([2, 2, 3])
        rate = rng.choice(RATES)
        s = c16._samples(rng, w * ch, rng.choice([1, 2, rng.randint(3, 40)]))
        nt = len(s) * K
        dy = rate in (8, 16)
        l = _intervals(rng, nt, 4, rng.random() < 0.5, dy)
        keep, dele = (l, []) if rng.random() < 0.5 else ([], l)
        prior = _intervals(rng, nt, 2, True, dy) if rng.random() < 0.3 else None
        cases.append({"op": "readat", "w": w, "ch": ch, "rate": rate, "s": s, "keep": keep, "del": dele, "rep": False,
                      "prior": prior, "scale": ["ticks", K]})
    return cases


def iogen_isclose(a, b):
    """the cropped TextGrid went through a file: a near-integer span may come back as the integer"""
    return a == b or abs(a - b) <= 1e-14 * max(abs(a), abs(b))


def _t(tick, rate):
    return tick / (K * rate)


def _write_wav(fn, s, w, rate, ch=1):
    wf = wave.open(fn, "w")
    wf.setparams((ch, w, rate, len(s), "NONE", "not compressed"))
    wf.writeframes(c16._enc(s, w * ch))
    wf.close()


def _read_wav(fn):
    wf = wave.open(fn, "r")
    try:
        p = wf.getparams()
        b = wf.readframes(p.nframes)
    finally:
        wf.close()
    w = p.sampwidth
    return [int.from_bytes(b[i:i + w], "little", signed=True) for i in range(0, len(b), w)], [p.nchannels, p.sampwidth, p.framerate]


def _split_case(case, d):
    """splitAudioOnTier / extractSubwav on a generated recording + textgrid"""
    import random
    from praatio import audio, textgrid as tgmod, praatio_scripts
    from praatio.data_classes.textgrid import Textgrid
    from praatio.data_classes.interval_tier import IntervalTier
    from praatio.data_classes.point_tier import PointTier
    rng = random.Random(case["seed"])
    w, rate, s = case["w"], case["rate"], case["s"]
    n = len(s)
    dur = n / rate
    wavfn = os.path.join(d, rng.choice(["rec.wav", "rec.wav", "rec.v2.wav", "a b.wav"]))
    _write_wav(wavfn, s, w, rate)
    # target tier: disjoint intervals on sample positions, unique labels
    cuts = sorted(rng.sample(range(0, n + 1), min(n + 1, 2 * rng.randint(1, 4))))
    if rate in (8, 16) and rng.random() < 0.4:
        # boundaries a quarter of a sample off the sample positions (exact at the dyadic rates)
        cuts = sorted(set(min(max(c + rng.choice([0, 0.25, -0.25]), 0), n) for c in cuts))
    ents = []
    dotted = rng.choice(["w", "w", "w.", "a.b-"])          # labels become parts of file names: a dot is not an extension
    for i in range(0, len(cuts) - 1, 2):
        if cuts[i] < cuts[i + 1]:
            ents.append((cuts[i] / rate, cuts[i + 1] / rate, dotted + "%d" % len(ents)))
    if not ents:
        ents = [(0.0, dur, dotted + "0")]
    tg = Textgrid(0.0, dur)
    tg.addTier(IntervalTier("words", ents, 0.0, dur))
    # other tiers: with and without entries inside each interval
    oth = []
    for k in range(rng.randint(0, 3)):
        a, b = sorted(rng.sample(range(0, n + 1), 2))
        if a < b:
            oth.append((a / rate, b / rate, "p%d" % k))
    oth2 = []
    prev = -1.0
    for e in sorted(oth):
        if e[0] >= prev:
            oth2.append(e)
            prev = e[1]
    tg.addTier(IntervalTier("phones", oth2, 0.0, dur))
    pts = sorted(set(rng.sample(range(0, n + 1), rng.randint(0, 3))))
    tg.addTier(PointTier("pts", [(p / rate, "x%d" % j) for j, p in enumerate(pts)], 0.0, dur))
    tgfn = os.path.join(d, "rec.TextGrid")
    tg.save(tgfn, "short_textgrid", True)
    outdir = os.path.join(d, "out")
    style = rng.choice([None, "append", "append_no_i", "label"])
    strict = rng.random() < 0.5
    tgflag = rng.choice([False, True, "phones"])
    if rng.random() < 0.4:
        # the output folder is not fresh: an earlier run on another segmentation of the same recording (every interval
        # moved by a few samples, same lengths, same labels) left files with the very same names there
        moved = []
        for es, ee, lab in ents:
            i, j = es * rate, ee * rate
            k = rng.choice([-2, -1, 1, 2, 3])
            k = max(-i, min(n - j, k))
            lo = moved[-1][1] if moved else 0.0
            moved.append((max(lo, (i + k) / rate), (j + k) / rate, lab))
        if all(a < b for a, b, _ in moved):
            tg0 = Textgrid(0.0, dur)
            tg0.addTier(IntervalTier("words", moved, 0.0, dur))
            for nm in ("phones", "pts"):
                tg0.addTier(tg.getTier(nm).new())
            tgfn0 = os.path.join(d, "earlier.TextGrid")
            tg0.save(tgfn0, "short_textgrid", True)
            praatio_scripts.splitAudioOnTier(wavfn, tgfn0, "words", outdir, tgflag, style, strict)
    ret = praatio_scripts.splitAudioOnTier(wavfn, tgfn, "words", outdir, tgflag, style, strict)
    probs = []
    files = sorted(os.listdir(outdir))
    wavs = [f for f in files if f.endswith(".wav")]
    if len(wavs) != len(ents):
        probs.append("%d wav files for %d entries" % (len(wavs), len(ents)))
    if len(ret) != len(ents):
        probs.append("returned %d items for %d entries" % (len(ret), len(ents)))
    for (start, end, name), (es, ee, lab) in zip(ret, ents):
        if (start, end) != (es, ee):
            probs.append("returned interval %r for entry %r" % ((start, end), (es, ee)))
        got, params = _read_wav(os.path.join(outdir, name))
        i, j = round(es * rate), round(ee * rate)
        if got != s[i:j]:
            probs.append("file %s holds %d samples, the entry covers samples %d..%d" % (name, len(got), i, j))
        if params != [1, w, rate]:
            probs.append("file %s has parameters %r" % (name, params))
        if style in ("append", "append_no_i", "label") and lab not in name:
            probs.append("nameStyle %s: %s does not carry the label %s" % (style, name, lab))
        if tgflag is not False:
            sub = tgmod.openTextgrid(os.path.join(outdir, name[:-4] + ".TextGrid"), False)
            if (sub.minTimestamp, sub.maxTimestamp) != (0, ee - es) and not (sub.minTimestamp == 0 and iogen_isclose(sub.maxTimestamp, ee - es)):
                probs.append("cropped TextGrid for %s spans %r, expected [0, %r]" % (lab, (sub.minTimestamp, sub.maxTimestamp), ee - es))
            if tgflag is True:
                labs = [e.label for e in sub.getTier("words").entries]
                if lab not in labs:
                    probs.append("cropped TextGrid for %s does not contain the entry's label (has %r)" % (lab, labs))
            elif list(sub.tierNames) != ["phones"]:
                probs.append("outputTGFlag='phones': tiers %r" % (sub.tierNames,))
    # extractSubwav on one of the intervals
    es, ee, lab = ents[0]
    exfn = core.fname(os.path.join(d, "ex.wav"))
    audio.extractSubwav(wavfn, exfn, es, ee)
    got, params = _read_wav(exfn)
    if got != s[round(es * rate):round(ee * rate)] or params != [1, w, rate]:
        probs.append("extractSubwav wrote %d samples / %r" % (len(got), params))
    # ... and trimming a recording in place (the output file is the input file)
    infn = os.path.join(d, "trim.wav")
    shutil.copyfile(wavfn, infn)
    audio.extractSubwav(infn, infn, es, ee)
    got, params = _read_wav(infn)
    if got != s[round(es * rate):round(ee * rate)] or params != [1, w, rate]:
        probs.append("extractSubwav onto its own input wrote %d samples / %r" % (len(got), params))
    return probs


def run(case):
    from praatio import audio
    op = case["op"]
    if op == "keepdel":
        def f():
            r = audio._computeKeepDeleteIntervals(float(case["start"]), float(case["stop"]),
                                                  [tuple(float(x) for x in r) for r in case["keep"]],
                                                  [tuple(float(x) for x in r) for r in case["del"]])
            return [[int(a), int(b), lab == "keep"] for a, b, lab in r]
        return core.run_guarded(f)
    if op == "gen":
        def g():
            gen = audio.AudioGenerator(case["w"], case["rate"])
            dur = (case["n"] + case["off"]) / case["rate"] if case["n"] + case["off"] >= 0 else 0.0
            sil = gen.generateSilence(dur)
            sine = gen.generateSineWave(dur, 200, 100 if case["w"] == 1 else None)
            return {"dur": dur, "sil": list(sil), "sine": list(audio.convertFromBytes(sine, case["w"]))}
        return core.run_guarded(g)
    d = os.path.join(core.VERIF, ".work", "c17.%d" % os.getpid())
    shutil.rmtree(d, ignore_errors=True)
    os.makedirs(d)
    try:
        if op == "readat":
            w, rate, s = case["w"], case["rate"], case["s"]
            ch = case.get("ch", 1)
            fw = w * ch
            fn = core.fname(os.path.join(d, "a.wav"))

            def h():
                _write_wav(fn, s, w, rate, ch)
                wf = wave.open(fn, "r")
                try:
                    gen = audio.AudioGenerator(w, rate)
                    if case.get("prior") is not None:
                        # the file object has been read before (its position is wherever that read left it)
                        audio.readFramesAtTimes(wf, [(_t(a, rate), _t(bb, rate)) for a, bb in case["prior"]] or None, None, None)
                    b = audio.readFramesAtTimes(wf, [(_t(a, rate), _t(bb, rate)) for a, bb in case["keep"]] or None,
                                                [(_t(a, rate), _t(bb, rate)) for a, bb in case["del"]] or None,
                                                gen.generateSilence if case["rep"] else None)
                finally:
                    wf.close()
                return [int.from_bytes(b[i:i + fw], "little", signed=True) for i in range(0, len(b), fw)]
            return core.run_guarded(h)
        if op == "split":
            return core.run_guarded(lambda: _split_case(case, d))
    finally:
        shutil.rmtree(d, ignore_errors=True)
    raise ValueError(op)


def crows(l):
    return core.clist(["(%s, %s)" % (core.cz(a), core.cz(b)) for a, b in l], "row")


def emit(case, r):
    op = case["op"]
    if op == "keepdel":
        if "ok" in r:
            out = "(Ok %s)" % core.clist(["(%s, %s, %s)" % (core.cz(a), core.cz(b), core.cbool(k)) for a, b, k in r["ok"]], "mark")
        else:
            out = "(Err %s)" % r["err"]
        return "KeepDel %s %s %s %s %s" % (core.cz(case["start"]), core.cz(case["stop"]), crows(case["keep"]), crows(case["del"]), out)
    if op == "readat":
        out = "(Ok %s)" % c16.czl(r["ok"]) if "ok" in r else "(Err %s)" % r["err"]
        return "ReadAt %d %s %s %s %s %s" % (K, c16.czl(case["s"]), crows(case["keep"]), crows(case["del"]), core.cbool(case["rep"]), out)
    return None


def model_expr(case):
    if case["op"] == "keepdel":
        return "keep_delete %s %s %s %s" % (core.cz(case["start"]), core.cz(case["stop"]), crows(case["keep"]), crows(case["del"]))
    if case["op"] == "readat":
        return "read_at_times %d %s %s %s (if %s then Some silence else None)" % (K, c16.czl(case["s"]), crows(case["keep"]), crows(case["del"]), core.cbool(case["rep"]))
    return None


def py_checks(case, r):
    op = case["op"]
    if op == "split":
        if "ok" not in r:
            return ["splitAudioOnTier / extractSubwav raised %s" % r.get("exc", r)]
        return r["ok"]
    if op == "gen":
        if "ok" not in r:
            return ["generator raised %s" % r.get("exc", r)]
        v = r["ok"]
        n = round(case["rate"] * v["dur"])
        probs = []
        if len(v["sil"]) != n * case["w"] or any(v["sil"]):
            probs.append("generateSilence(%r) gave %d bytes, expected %d zero samples" % (v["dur"], len(v["sil"]), n))
        if len(v["sine"]) != n:
            probs.append("generateSineWave(%r) gave %d samples, expected %d" % (v["dur"], len(v["sine"]), n))
        else:
            amp = 100 if case["w"] == 1 else 2 ** (8 * case["w"] - 1) - 1
            exp = [round(amp * math.sin(2 * math.pi * 200 / float(case["rate"]) * i)) for i in range(n)]
            if v["sine"] != exp:
                probs.append("sine samples differ from round(amp*sin(2 pi f i / rate))")
        return probs
    return []


def classify(case, r):
    out = "err:" + r["err"] if "err" in r else "ok"
    if case["op"] in ("keepdel", "readat"):
        which = "both" if case["keep"] and case["del"] else "keep" if case["keep"] else "delete" if case["del"] else "none"
        return "%s%s/%s/%s%s" % (case["op"], "/%dch" % case["ch"] if case.get("ch", 1) > 1 else "", which, "rep/" if case.get("rep") else "", out)
    return "%s/%s" % (case["op"], out)


def nontrivial(case, r):
    if case["op"] in ("keepdel", "readat"):
        return bool(case["keep"] or case["del"])
    return True


def shrinks(case):
    if case["op"] not in ("keepdel", "readat"):
        return
    for key in ("keep", "del"):
        for k in range(len(case[key])):
            yield dict(case, **{key: case[key][:k] + case[key][k + 1:]})


def finding_match(case, r, kind, why, findings):
    return None
