"""C10 -- tier set operations obey the algebra of labelled time."""
import itertools
import sys
from .. import core, gen, tierops, tgops, obshist

ID = "C10"
MODULE = "Check.C10Check"
CASE_TYPE = "C10case"
CORR, ORACLE, HYP = "C10corr", "C10oracle", "C10hyp"
OPS = {"union": "OUnion", "difference": "ODifference", "intersection": "OIntersection", "mergeLabels": "OMergeLabels"}
RULE = ("small scope: pairs of wf tiers over 6 grid cells x 2 labels (all subsets of non-overlapping intervals; quick: a sampled "
        "slice, thorough: all pairs of <=3-interval tiers) x 4 operations + random larger pairs incl. empty, identical, touching and "
        "nested entries on dyadic and decimal grids + point-tier unions + Textgrid.mergeTiers; non-trivial = both operands have entries")
EXPLANATION = ("Props/C10.v proves for all wf operands: difference is labelled exactly where A is and B is not (with A's labels), "
               "intersection has one clipped a-b entry per overlapping pair and is labelled exactly where both are, union is total, "
               "well-formed and labelled exactly where either is, and difference/intersection partition A's labelled time.  The "
               "label-order clause of union, mergeLabels and point union are decided by evaluation against an independent sweep "
               "specification (oracle) on every generated pair; all comparisons run inside Coq.")
TRUSTED = ["models: Tier/TierModel.v union_i, difference_i, intersection_i, merge_labels_i, union_p (folds of insert_i/erase_i/crop_i)"]
ASSUMPTIONS = ["union label order, mergeLabels and point union: evaluated against the specification, not proved",
               "point tiers have distinct times"]


def _small_pairs():
    pts = list(range(0, 7))
    out = []
    for pairs in gen.all_small_ientries(pts, 3):
        out.append(pairs)
    return out


def generate(tier, rng):
    cases = []
    smalls = _small_pairs()
    n = 1200 if tier == "quick" else 40000
    labs = ["a", "b"]
    for _ in range(n):
        pa, pb = rng.choice(smalls), rng.choice(smalls)
        A = {"kind": "I", "name": "A", "entries": [[s, e, rng.choice(labs)] for s, e in pa], "min": 0, "max": 6}
        B = {"kind": "I", "name": "B", "entries": [[s, e, rng.choice(labs)] for s, e in pb], "min": 0, "max": 6}
        for op in OPS:
            cases.append({"op": op, "tier": A, "args": {"other": B}, "scale": ["dyadic", rng.choice([0, 2])]})
    n = 1200 if tier == "quick" else 40000
    for _ in range(n):
        sc = gen.pick_scale(rng, decimal_share=0.3)
        A = gen.random_itier(rng, tmax=50, maxn=7, name="A", long_p=0.05)
        u = rng.random()
        if u < 0.1:
            B = dict(A, name=rng.choice(["B", "A"]))      # the very same intervals (also under the very same name)
        elif u < 0.2:
            B = {"kind": "I", "name": "B", "entries": [], "min": 0, "max": 50}
        else:
            B = gen.random_itier(rng, tmax=rng.choice([50, 70]), maxn=7, name="B", long_p=0.05)
        args = {"other": B}
        if B == A and rng.random() < 0.6:
            args["same"] = True                    # the operand IS the receiver: A.union(A) is judged like any other pair
        cases.append({"op": rng.choice(list(OPS)), "tier": A, "args": args, "scale": sc})
    for _ in range(300 if tier == "quick" else 8000):
        A = gen.random_ptier(rng, tmax=20, maxn=6, name="A", long_p=0.05)
        B = gen.random_ptier(rng, tmax=25, maxn=6, name="B", long_p=0.05)
        args = {"other": B}
        if rng.random() < 0.06:
            args = {"other": A, "same": True}
        cases.append({"op": "union", "tier": A, "args": args, "scale": gen.pick_scale(rng)})
    for _ in range(300 if tier == "quick" else 3000):
        tiers = []
        for k in range(rng.randint(2, 5)):
            t = gen.random_itier(rng, name="i%d" % k, tmax=30, maxn=4) if rng.random() < 0.6 else gen.random_ptier(rng, name="p%d" % k, tmax=30, maxn=4)
            t["min"], t["max"] = 0, 30
            tiers.append(t)
        names = [t["name"] for t in tiers]
        sel = None if rng.random() < 0.4 else rng.sample(names, rng.randint(1, len(names)))
        cases.append({"op": "mergeTiers", "tiers": tiers, "args": {"names": sel, "preserve": rng.random() < 0.6},
                      "scale": gen.pick_scale(rng)})
    # operands whose boundaries are binary64 neighbours (an overlap of one ulp is an overlap)
    elig = [c for c in cases if c["op"] != "mergeTiers" and gen.near_ok(c["tier"]["entries"], c["args"]["other"]["entries"])]
    for c in rng.sample(elig, min(len(elig), 800 if tier == "quick" else 20000)):
        cases.append(dict(c, scale=["near", 1]))
    # B = A except that some boundaries are the binary64 neighbour: equal to within any tolerance, not equal
    for _ in range(200 if tier == "quick" else 5000):
        A = gen.random_itier(rng, tmax=24, maxn=5, name="A")
        for e in A["entries"]:
            e[0], e[1] = 2 * e[0], 2 * e[1]
        A["min"], A["max"] = 2 * min(0, A["min"]), 2 * max(24, A["max"])
        B = {"kind": "I", "name": rng.choice(["A", "A", "B"]), "min": A["min"], "max": A["max"],
             "entries": [[e[0] + (1 if rng.random() < 0.3 else 0), e[1] + (1 if rng.random() < 0.3 else 0), e[2]] for e in A["entries"]]}
        ok = all(x[1] <= y[0] for x, y in zip(B["entries"], B["entries"][1:]))
        if ok and gen.near_ok(A["entries"], B["entries"]):
            cases.append({"op": rng.choice(list(OPS)), "tier": A, "args": {"other": B}, "scale": ["near", 1]})

    return cases


def run(case):
    if case["op"] != "mergeTiers":
        return tierops.run_single(case)
    sc = core.Scale(*case["scale"])
    from praatio.data_classes.textgrid import Textgrid

    def f():
        tg = Textgrid()
        built = {}
        for t in case["tiers"]:
            x = core.mk_tier(t, sc)
            built[t["name"]] = x
            tg.addTier(x, reportingMode="silence")
        sel = case["args"]["names"]
        r = tg.mergeTiers(sel, case["args"]["preserve"])
        # expected through tier-level union (which is checked against the model elsewhere)
        names = sel if sel is not None else [t["name"] for t in case["tiers"]]
        kinds = {t["name"]: t["kind"] for t in case["tiers"]}
        exp = {}
        for k in ("I", "P"):
            ns = [n for n in names if kinds[n] == k]
            if ns:
                acc = built[ns[0]]
                for n in ns[1:]:
                    acc = acc.union(built[n])
                exp[k] = core.snap_tier(acc, sc)
        return {"names": list(r.tierNames), "tiers": [core.snap_tier(x, sc) for x in r.tiers], "exp": exp,
                "min": core.tk(r.minTimestamp, sc), "max": core.tk(r.maxTimestamp, sc)}
    return core.run_guarded(f)


def emit(case, r):
    if case["op"] == "mergeTiers":
        # the textgrid that came back against the textgrid-level model, on exact grids
        if case["scale"][0] != "dyadic" or ("ok" not in r and "err" not in r):
            return None
        tiers = case["tiers"]
        g = tgops.ctg({"tiers": tiers, "min": min(t["min"] for t in tiers), "max": max(t["max"] for t in tiers)})
        sel = case["args"]["names"]
        csel = "None" if sel is None else "(Some %s)" % core.clist([core.ctext(n) for n in sel], "text")
        if "ok" in r:
            v = r["ok"]
            out = "(Ok %s)" % tgops.ctg({"tiers": v["tiers"], "min": v["min"], "max": v["max"]})
        else:
            out = "(Err %s)" % r["err"]
        return "TgMergeC %s %s %s %s" % (g, csel, core.cbool(case["args"]["preserve"]), out)
    A, B = case["tier"], case["args"]["other"]
    if A["kind"] == "P":
        return "UnionP %s %s %s" % (core.cptier(A), core.cptier(B), core.cres(r, core.cptier))
    return "SetI %s %s %s %s" % (OPS[case["op"]], core.citier(A), core.citier(B), core.cres(r, core.citier))


def model_expr(case):
    if case["op"] == "mergeTiers":
        return None
    A, B = case["tier"], case["args"]["other"]
    if A["kind"] == "P":
        return "union_p %s %s" % (core.cptier(A), core.cptier(B))
    return "run_setop %s %s %s" % (OPS[case["op"]], core.citier(A), core.citier(B))


def py_checks(case, r):
    if case["op"] != "mergeTiers":
        return []
    if "ok" not in r:
        return ["mergeTiers raised %s" % r.get("exc", r)]
    v = r["ok"]
    sel = case["args"]["names"]
    allnames = [t["name"] for t in case["tiers"]]
    names = sel if sel is not None else allnames
    exp_names = [n for n in allnames if n not in names] if case["args"]["preserve"] else []
    merged = []
    for k in ("I", "P"):
        if k in v["exp"]:
            merged.append(v["exp"][k])
    exp_names = exp_names + [m["name"] for m in merged]
    fails = []
    if v["names"] != exp_names:
        fails.append("tier names %r, expected %r" % (v["names"], exp_names))
        return fails
    got = {t["name"]: t for t in v["tiers"]}
    for m in merged:
        if got[m["name"]] != m:
            fails.append("merged tier %s is not the union of the selected tiers" % m["name"])
    orig = {t["name"]: t for t in case["tiers"]}
    for n in exp_names[:len(exp_names) - len(merged)]:
        if got[n]["entries"] != [list(e) for e in orig[n]["entries"]]:
            fails.append("preserved tier %s changed" % n)
    return fails


def classify(case, r):
    out = "err:" + r["err"] if "err" in r else ("offgrid" if "offgrid" in r else "ok")
    if case["op"] == "mergeTiers":
        return "mergeTiers/%s" % out
    return "%s/%s/%s/%s" % (case["op"], case["tier"]["kind"], case["scale"][0], out)


def nontrivial(case, r):
    if case["op"] == "mergeTiers":
        return True
    return bool(case["tier"]["entries"]) and bool(case["args"]["other"]["entries"])


def shrinks(case):
    if case["op"] == "mergeTiers":
        return
    for t2 in gen.shrink_tier(case["tier"]):
        c = dict(case)
        c["tier"] = t2
        yield c
    for t2 in gen.shrink_tier(case["args"]["other"]):
        c = dict(case)
        c["args"] = {"other": t2}
        yield c


def finding_match(case, r, kind, why, findings):
    return None


def _obs_term(kind, state, st, res):
    o = st["args"]["other"]
    if kind == "P":
        return "UnionP %s %s %s" % (core.cptier(state), core.cptier(o), obshist.res_tier(res, core.cptier))
    return "SetI %s %s %s %s" % (OPS[st["op"]], core.citier(state), core.citier(o), obshist.res_tier(res, core.citier))


obshist.install(sys.modules[__name__], ["union", "difference", "intersection", "mergeLabels"], ["union"], _obs_term)
